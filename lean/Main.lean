/-
Native model driver: one request per line on stdin, one reply per line on stdout.
The only state kept between lines is the current layout (set by `L`).
-/
import TmVerif.Driver.MapperCmd
import TmVerif.Driver.LoopCmd
import TmVerif.Driver.BytesCmd
import TmVerif.Driver.EscapeCmd
import TmVerif.Driver.ListingCmd
import TmVerif.Driver.LoadCmd
import TmVerif.Driver.LoopEnvCmd
import TmVerif.Driver.E2ECmd

open TmVerif TmVerif.Proto

structure DriverState where
  layout : Layout := []

def handleLine (st : DriverState) (line : String) : DriverState × String :=
  let toks := (line.trimAscii.toString.splitOn " ").filter (· ≠ "")
  match toks with
  | ["L", l] =>
    match parseLayout l with
    | some L => ({ st with layout := L }, if (forLayout L).isSome then "wf" else "panic")
    | none => (st, "bad-request")
  | _ =>
    match MapperCmd.handle st.layout toks with
    | some r => (st, r)
    | none =>
    match LoopCmd.handle st.layout toks with
    | some r => (st, r)
    | none =>
    match LoopEnvCmd.handle st.layout toks with
    | some r => (st, r)
    | none =>
    match BytesCmd.handle toks with
    | some r => (st, r)
    | none =>
    match EscapeCmd.handle toks with
    | some r => (st, r)
    | none =>
    match ListingCmd.handle toks with
    | some r => (st, r)
    | none =>
    match LoadCmd.handle toks with
    | some r => (st, r)
    | none =>
    match E2ECmd.handle st.layout toks with
    | some r => (st, r)
    | none => (st, "bad-request")

partial def loop (hin hout : IO.FS.Stream) (st : DriverState) : IO Unit := do
  let line ← hin.getLine
  if line.isEmpty then return ()
  if line.startsWith "#" then
    -- synchronisation point: flush the replies so far, no reply of its own
    hout.flush
    loop hin hout st
  else
    let (st', out) := handleLine st line
    hout.putStrLn out
    loop hin hout st'

def main : IO Unit := do
  let hin ← IO.getStdin
  let hout ← IO.getStdout
  loop hin hout {}
