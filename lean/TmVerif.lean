-- Root of the `TmVerif` library: models, driver commands, proofs and property theorems.
import TmVerif.Model.Mapper
import TmVerif.Monitors
import TmVerif.Driver.Proto
import TmVerif.Driver.MapperCmd
import TmVerif.Proofs.Emits
import TmVerif.Proofs.Inv
import TmVerif.Proofs.StepInv
import TmVerif.Proofs.Reach
import TmVerif.Proofs.Fired
import TmVerif.Props.C01
import TmVerif.Props.C02
import TmVerif.Props.C07
import TmVerif.Props.C09
import TmVerif.Props.C19
import TmVerif.Proofs.NoAbs
import TmVerif.Props.C03
