-- Root of the `TmVerif` library: models, driver commands, proofs and property theorems.
import TmVerif.Model.Mapper
import TmVerif.Monitors
import TmVerif.Driver.Proto
import TmVerif.Driver.MapperCmd
