/-
The index-faithful twin (`Model/MapperIdx.lean`) equals the structural mapper model
(`Model/Mapper.lean`): every index-faithful function returns `some` of its structural counterpart,
under the precondition its caller establishes.  Consequently no index of `key_transforms.rs` is ever
out of bounds, no `Vec::remove` is out of range, no `usize` subtraction underflows and no negative
`isize` is used as an index — for EVERY state (no invariant is needed: the safety of each loop is local).
-/
import TmVerif.Model.MapperIdxOps

namespace TmVerif

/-! ## primitives -/

theorem usizeSub_of_le {a b : Nat} (h : b ≤ a) : usizeSub a b = some (a - b) := by
  simp [usizeSub, h]

theorem usizeSub_of_lt {a b : Nat} (h : a < b) : usizeSub a b = none := by
  have : ¬ b ≤ a := by omega
  simp [usizeSub, this]

theorem vecGet_eq {α : Type} (v : List α) (i : Nat) : vecGet v i = v[i]? := rfl

/-- index `pre.length` of `pre ++ x :: suf` -/
theorem vecGet_mid {α : Type} (pre : List α) (x : α) (suf : List α) :
    vecGet (pre ++ x :: suf) pre.length = some x := by
  simp [vecGet]

theorem vecRemove_mid {α : Type} (pre : List α) (x : α) (suf : List α) :
    vecRemove (pre ++ x :: suf) pre.length = some (pre ++ suf) := by
  have : (pre ++ x :: suf).eraseIdx pre.length = pre ++ suf := by
    rw [List.eraseIdx_append_of_length_le (Nat.le_refl _)]; simp
  simp [vecRemove, this]

theorem vecRemove_eq_none {α : Type} (v : List α) (i : Nat) (h : v.length ≤ i) : vecRemove v i = none := by
  simp [vecRemove, List.getElem?_eq_none h]

theorem isizeToUsize_ofNat (n : Nat) : isizeToUsize (n : Int) = some n := rfl

theorem isizeToUsize_neg {i : Int} (h : i < 0) : isizeToUsize i = none := by
  cases i with
  | ofNat n => exact absurd h (by simp)
  | negSucc n => rfl

/-! ## `final_key` -/

theorem finalKeyIdx_eq (v : List Key) : finalKeyIdx v = v.getLast? := by
  unfold finalKeyIdx
  cases v with
  | nil => rfl
  | cons a l =>
    rw [usizeSub_of_le (by simp)]
    simp [vecGet, List.getLast?_eq_getElem?]

theorem finalKeyIdx_mapping (m : Mapping) : finalKeyIdx m.frm = finalKey? m := finalKeyIdx_eq m.frm

/-! ## the duplicate loops of `make_hashed_layout` -/

theorem dupInnerIdx_spec (v : List Key) (i : Nat) (hi : i < v.length) (fuel j : Nat) (hj : j + fuel = v.length) :
    dupInnerIdx v i j fuel = some ((v.drop j).contains v[i]) := by
  induction fuel generalizing j with
  | zero => simp [dupInnerIdx, List.drop_of_length_le (show v.length ≤ j by omega)]
  | succ fuel ih =>
    have hjl : j < v.length := by omega
    rw [dupInnerIdx, vecGet, vecGet, List.getElem?_eq_getElem hi, List.getElem?_eq_getElem hjl]
    simp only
    rw [ih (j + 1) (by omega), List.drop_eq_getElem_cons hjl, List.contains_cons]
    by_cases h : (v[i] == v[j]) = true
    · simp [h]
    · simp [h]

theorem dupOuterIdx_spec (v : List Key) (fuel i : Nat) (hi : i + fuel = v.length) :
    dupOuterIdx v i fuel = some (!decide (v.drop i).Nodup) := by
  induction fuel generalizing i with
  | zero => simp [dupOuterIdx, List.drop_of_length_le (show v.length ≤ i by omega)]
  | succ fuel ih =>
    have hil : i < v.length := by omega
    have hd : (v.drop i).Nodup ↔ v[i] ∉ v.drop (i + 1) ∧ (v.drop (i + 1)).Nodup := by
      rw [List.drop_eq_getElem_cons hil]; exact List.nodup_cons
    rw [dupOuterIdx, dupInnerIdx_spec v i hil _ _ (by omega)]
    by_cases h : (List.drop (i + 1) v).contains v[i] = true
    · simp only [h]
      simp at h
      simp [hd, h]
    · simp only [h]
      rw [ih (i + 1) (by omega)]
      simp at h
      simp [hd, h]

/-- the duplicate loops never index out of bounds, and find a duplicate iff there is one -/
theorem hasDupIdx_eq (v : List Key) : hasDupIdx v = some (!decide v.Nodup) := by
  have := dupOuterIdx_spec v v.length 0 (by simp)
  simpa [hasDupIdx] using this

theorem checkDupsIdx_eq (L : List Mapping) :
    checkDupsIdx L = if L.all (fun m => decide m.frm.Nodup && decide m.to.Nodup) then some () else none := by
  induction L with
  | nil => rfl
  | cons m ms ih =>
    rw [checkDupsIdx, hasDupIdx_eq, hasDupIdx_eq, ih]
    by_cases h1 : m.frm.Nodup <;> by_cases h2 : m.to.Nodup <;> simp [h1, h2]

theorem hashLoopIdx_isSome (L : List Mapping) :
    (hashLoopIdx L).isSome = L.all (fun m => m.frm != []) := by
  induction L with
  | nil => rfl
  | cons m ms ih =>
    rw [hashLoopIdx, finalKeyIdx_eq]
    cases hm : m.frm.getLast? with
    | none =>
      have : m.frm = [] := by simpa using hm
      simp [this]
    | some last =>
      have : m.frm ≠ [] := by intro e; simp [e] at hm
      cases hr : hashLoopIdx ms with
      | none => rw [hr] at ih; simp [← ih]
      | some h => rw [hr] at ih; simp [← ih, this]

/-- the hash map built by the index-faithful `make_hashed_layout` has exactly the groups the structural
model uses (`group L k`) -/
theorem hashLoopIdx_lookup (L : List Mapping) (H : List (Key × Mapping)) (h : hashLoopIdx L = some H) (k : Key) :
    lookupIdx H k = group L k := by
  induction L generalizing H with
  | nil => simp [hashLoopIdx] at h; subst h; rfl
  | cons m ms ih =>
    rw [hashLoopIdx, finalKeyIdx_eq] at h
    cases hm : m.frm.getLast? with
    | none => simp [hm] at h
    | some last =>
      cases hr : hashLoopIdx ms with
      | none => simp [hm, hr] at h
      | some H' =>
        simp [hm, hr] at h
        subst h
        have := ih H' hr
        simp only [lookupIdx, group, finalKey?] at this ⊢
        simp only [List.filter_cons, hm]
        by_cases hk : last = k
        · simp [hk, this]
        · simp [hk, this]

theorem wf_split (L : Layout) :
    Layout.wf L = ((L.all fun m => decide m.frm.Nodup && decide m.to.Nodup) && L.all fun m => m.frm != []) := by
  induction L with
  | nil => rfl
  | cons m ms ih =>
    simp only [Layout.wf, List.all_cons] at ih ⊢
    rw [ih]
    simp only [Mapping.wf]
    generalize (m.frm != []) = a, decide m.frm.Nodup = b, decide m.to.Nodup = c,
      (ms.all fun m => decide m.frm.Nodup && decide m.to.Nodup) = d, (ms.all fun m => m.frm != []) = e
    cases a <;> cases b <;> cases c <;> cases d <;> cases e <;> rfl

/-- `make_hashed_layout` returns (does not panic) exactly on the well-formed layouts -/
theorem makeHashedLayoutIdx_isSome (L : Layout) : (makeHashedLayoutIdx L).isSome = Layout.wf L := by
  unfold makeHashedLayoutIdx
  rw [checkDupsIdx_eq, wf_split]
  by_cases h : (L.all fun m => decide m.frm.Nodup && decide m.to.Nodup) = true
  · simp only [h, if_true, hashLoopIdx_isSome, Bool.true_and]
  · simp only [h]
    simp

theorem makeHashedLayoutIdx_lookup {L : Layout} {H : List (Key × Mapping)}
    (h : makeHashedLayoutIdx L = some H) (k : Key) : lookupIdx H k = group L k := by
  unfold makeHashedLayoutIdx at h
  cases hc : checkDupsIdx L with
  | none => simp [hc] at h
  | some u => simp [hc] at h; exact hashLoopIdx_lookup L H h k

/-- `for_layout`: the index-faithful constructor panics exactly when the structural one does, and
returns the same state otherwise -/
theorem forLayoutIdx_eq (L : Layout) : forLayoutIdx L = forLayout L := by
  have h := makeHashedLayoutIdx_isSome L
  unfold forLayoutIdx forLayout
  cases hm : makeHashedLayoutIdx L with
  | none => rw [hm] at h; simp [← h]
  | some H => rw [hm] at h; simp [← h]

theorem forLayoutIdx_none_iff (L : Layout) : forLayoutIdx L = none ↔ forLayout L = none := by
  rw [forLayoutIdx_eq]

/-! ## `is_action_mapping`, `release_action_mappings` -/

theorem isActionMappingIdx_eq (m : Mapping) : isActionMappingIdx m = some (isActionMapping m) := by
  unfold isActionMappingIdx isActionMapping
  cases hto : m.to with
  | nil => rfl
  | cons a l =>
    have hne : ((a :: l).length == 0) = false := by simp
    rw [hne, usizeSub_of_le (by simp)]
    simp only [vecGet, List.getLast?_eq_getElem?]
    cases h : (a :: l)[(a :: l).length - 1]? with
    | none => simp at h
    | some k => simp

theorem keysToReleaseIdx_eq (mapped acc : List Key) (ms : List Mapping) :
    keysToReleaseIdx mapped acc ms = some (keysToRelease mapped acc ms) := by
  induction ms generalizing acc with
  | nil => rfl
  | cons m ms ih =>
    rw [keysToReleaseIdx, isActionMappingIdx_eq, keysToRelease]
    simp only
    split
    · exact ih _
    · exact ih _

theorem releaseActionMappingsIdx_eq (s : State) :
    releaseActionMappingsIdx s = some (releaseActionMappings s) := by
  unfold releaseActionMappingsIdx releaseActionMappings
  rw [keysToReleaseIdx_eq]


/-! ## `remove_mapping` -/

/-- the inner loop past the skipped index: no index out of bounds, scans the rest -/
theorem anyOtherIdx_after (sel : Mapping → List Key) (active : List Mapping) (i : Nat) (k : Key)
    (fuel j : Nat) (hj : j + fuel = active.length) (hij : i < j) :
    anyOtherIdx sel active i k j fuel = some ((active.drop j).any fun m => (sel m).contains k) := by
  induction fuel generalizing j with
  | zero => simp [anyOtherIdx, List.drop_of_length_le (show active.length ≤ j by omega)]
  | succ fuel ih =>
    have hjl : j < active.length := by omega
    have hne : (j != i) = true := by simp; omega
    rw [anyOtherIdx, hne, vecGet, List.getElem?_eq_getElem hjl]
    simp only [if_true]
    rw [ih (j + 1) (by omega) (by omega), List.drop_eq_getElem_cons hjl, List.any_cons]
    by_cases h : k ∈ sel active[j]
    · simp [h]
    · simp [h]

/-- the inner loop of `remove_mapping` from `j ≤ i` on, where `i` is the position of the mapping being
removed: no index out of bounds; the flag is "some OTHER mapping (from position `j` on) has `k`" -/
theorem anyOtherIdx_before (sel : Mapping → List Key) (before : List Mapping) (m : Mapping) (after : List Mapping)
    (k : Key) (fuel j : Nat) (hj : j + fuel = (before ++ m :: after).length) (hij : j ≤ before.length) :
    anyOtherIdx sel (before ++ m :: after) before.length k j fuel =
      some ((before.drop j ++ after).any fun m => (sel m).contains k) := by
  induction fuel generalizing j with
  | zero => simp at hj; omega
  | succ fuel ih =>
    by_cases hje : j = before.length
    · subst hje
      have hne : (before.length != before.length) = false := by simp
      rw [anyOtherIdx, hne]
      simp only [Bool.false_eq_true, if_false]
      rw [anyOtherIdx_after sel _ _ k fuel _ (by omega) (by omega)]
      simp
    · have hjl : j < before.length := by omega
      have hne : (j != before.length) = true := by simp; omega
      rw [anyOtherIdx, hne, vecGet, List.getElem?_append_left hjl, List.getElem?_eq_getElem hjl]
      simp only [if_true]
      rw [ih (j + 1) (by omega) (by omega), List.drop_eq_getElem_cons hjl, List.cons_append, List.any_cons]
      by_cases h : k ∈ sel before[j]
      · simp [h]
      · simp [h]

theorem stillUsedIdx_eq (before : List Mapping) (m : Mapping) (after : List Mapping) (k : Key) :
    anyOtherIdx Mapping.to (before ++ m :: after) before.length k 0 (before ++ m :: after).length =
      some (usedBy (before ++ after) k) := by
  rw [anyOtherIdx_before Mapping.to before m after k _ 0 (by simp) (by simp)]
  simp [usedBy]

theorem stillShadowedIdx_eq (before : List Mapping) (m : Mapping) (after : List Mapping) (k : Key) :
    anyOtherIdx Mapping.frm (before ++ m :: after) before.length k 0 (before ++ m :: after).length =
      some (shadowedBy (before ++ after) k) := by
  rw [anyOtherIdx_before Mapping.frm before m after k _ 0 (by simp) (by simp)]
  simp [shadowedBy]


theorem vecGet_mid' {α : Type} (pre : List α) (x : α) (suf : List α) (n : Nat) (h : pre.length = n) :
    vecGet (pre ++ x :: suf) n = some x := by subst h; exact vecGet_mid pre x suf

theorem vecRemove_mid' {α : Type} (pre : List α) (x : α) (suf : List α) (n : Nat) (h : pre.length = n) :
    vecRemove (pre ++ x :: suf) n = some (pre ++ suf) := by subst h; exact vecRemove_mid pre x suf

theorem removeScan_cons (inp : List Key) (others : List Mapping) (rk k : Key) (ks : List Key) :
    removeScan inp others rk (k :: ks) =
      (if usedBy others k then removeScan inp others rk ks
       else if inp.contains k && k != rk then
         if !shadowedBy others k then (k :: (removeScan inp others rk ks).1, (removeScan inp others rk ks).2)
         else ((removeScan inp others rk ks).1, Event.released k :: (removeScan inp others rk ks).2)
       else ((removeScan inp others rk ks).1, Event.released k :: (removeScan inp others rk ks).2)) := by
  rw [removeScan]
  repeat' split
  all_goals rfl

/-- The descending loop of `remove_mapping`, started at index `rp.length - 1` on the vector
`rp.reverse ++ suf` (`rp` = the part still to visit, reversed; `suf` = the part already visited and kept):
no index out of bounds, no `remove` out of range, and the result is the structural `removeScan`. -/
theorem removeLoopIdx_spec (inp : List Key) (before : List Mapping) (m : Mapping) (after : List Mapping) (rk : Key)
    (rp suf pass : List Key) (res : List Event) :
    removeLoopIdx inp (before ++ m :: after) before.length rk rp.length (rp.reverse ++ suf) pass res =
      some (rp.reverse.filter (usedBy (before ++ after)) ++ suf,
            pass ++ (removeScan inp (before ++ after) rk rp).1,
            res ++ (removeScan inp (before ++ after) rk rp).2) := by
  induction rp generalizing suf pass res with
  | nil => simp [removeLoopIdx, removeScan]
  | cons k r ih =>
    have e : (k :: r).reverse ++ suf = r.reverse ++ k :: suf := by simp
    rw [e, List.length_cons, removeLoopIdx, vecGet_mid' _ _ _ _ (by simp)]
    simp only
    rw [stillUsedIdx_eq, removeScan_cons]
    by_cases hu : usedBy (before ++ after) k = true
    · simp only [hu, if_true]
      rw [ih]
      simp [hu]
    · simp only [hu]
      have hu' : usedBy (before ++ after) k = false := by simpa using hu
      rw [vecRemove_mid' _ _ _ _ (by simp)]
      by_cases hc : (inp.contains k && k != rk) = true
      · simp only [hc, if_true]
        rw [stillShadowedIdx_eq]
        by_cases hs : shadowedBy (before ++ after) k = true
        · simp only [hs]
          rw [ih]
          simp [hu']
        · have hs' : shadowedBy (before ++ after) k = false := by simpa using hs
          simp only [hs']
          rw [ih]
          simp [hu']
      · have hc' : (inp.contains k && k != rk) = false := by simpa using hc
        simp only [hc', Bool.false_eq_true, if_false]
        rw [ih]
        simp [hu']

/-- `remove_mapping(state, i, removed_key)` with `i` the position of a mapping of the active list:
never panics and equals the structural `removeMapping` -/
theorem removeMappingIdx_eq (s : State) (before : List Mapping) (m : Mapping) (after : List Mapping) (rk : Key)
    (hact : s.active = before ++ m :: after) :
    removeMappingIdx s before.length rk = some (removeMapping s before after rk) := by
  unfold removeMappingIdx removeMapping
  have := removeLoopIdx_spec s.inp before m after rk s.mapped.reverse [] s.pass []
  simp only [List.length_reverse, List.reverse_reverse, List.append_nil, List.nil_append] at this
  rw [hact, this]
  simp only
  rw [vecRemove_mid]


/-- the same with the precondition in the form the caller has it -/
theorem removeMappingIdx_eq' (s : State) (before : List Mapping) (m : Mapping) (after : List Mapping) (i : Nat)
    (rk : Key) (hact : s.active = before ++ [m] ++ after) (hi : i = before.length) :
    removeMappingIdx s i rk = some (removeMapping s before after rk) := by
  subst hi
  exact removeMappingIdx_eq s before m after rk (by simpa using hact)

/-- the precondition is needed: with an index past the end, `remove_mapping` panics (its final
`active_mappings.remove(i)`) -/
theorem removeMappingIdx_out_of_range (s : State) (i : Nat) (rk : Key) (h : s.active.length ≤ i) :
    removeMappingIdx s i rk = none := by
  unfold removeMappingIdx
  rw [vecRemove_eq_none _ _ h]
  split <;> rfl

/-! ## the `while i >= 0` loop -/

theorem dropFailing_cons (k : Key) (s : State) (m : Mapping) (rb after : List Mapping) :
    dropFailing k s (m :: rb) after =
      (if failsWhenReleased m.frm k then
        ((dropFailing k (removeMapping s rb.reverse after k).1 rb after).1,
         (removeMapping s rb.reverse after k).2 ++ (dropFailing k (removeMapping s rb.reverse after k).1 rb after).2)
       else dropFailing k s rb (m :: after)) := by
  rw [dropFailing]

/-- The `while i >= 0` loop started at `i = rb.length - 1` in a state whose active list is
`rb.reverse ++ after` (`rb` = the mappings still to visit, reversed): every `active_mappings[i as usize]`
is in bounds — although `remove_mapping` shortens the vector between two iterations —, `i as usize` is
never applied to a negative `i`, `rb.length + 1` loop tests suffice, and the result is the structural
`dropFailing`. -/
theorem whileIdx_spec (k : Key) (rb : List Mapping) (after : List Mapping) (s : State) (events : List Event)
    (fuel : Nat) (hact : s.active = rb.reverse ++ after) (hf : rb.length + 1 ≤ fuel) :
    whileIdx k fuel ((rb.length : Int) - 1) s events =
      some ((dropFailing k s rb after).1, events ++ (dropFailing k s rb after).2) := by
  induction rb generalizing after s events fuel with
  | nil =>
    obtain ⟨f, rfl⟩ : ∃ f, fuel = f + 1 := ⟨fuel - 1, by omega⟩
    have hs : ({ s with active := after } : State) = s := by
      simp at hact; rw [← hact]
    simp [whileIdx, dropFailing, hs]
  | cons m rb ih =>
    obtain ⟨f, rfl⟩ : ∃ f, fuel = f + 1 := ⟨fuel - 1, by simp at hf; omega⟩
    have hi : ((List.length (m :: rb) : Nat) : Int) - 1 = (rb.length : Int) := by simp
    have hact' : s.active = rb.reverse ++ m :: after := by rw [hact]; simp
    have hge : ((rb.length : Int) ≥ 0) := by omega
    rw [hi, whileIdx, if_pos hge, isizeToUsize_ofNat]
    simp only
    rw [hact', vecGet_mid' _ _ _ _ (by simp), dropFailing_cons]
    simp only
    by_cases hfail : failsWhenReleased m.frm k = true
    · simp only [hfail, if_true]
      have hrm := removeMappingIdx_eq s rb.reverse m after k hact'
      rw [List.length_reverse] at hrm
      rw [hrm]
      simp only
      rw [ih after _ _ f (by rw [removeMapping_active]) (by simp at hf; omega)]
      simp
    · simp only [hfail]
      exact ih (m :: after) s events f hact' (by simp at hf; omega)

/-- `let mut i: isize = state.active_mappings.len() as isize - 1; while i >= 0 { … }` never panics and
equals the structural `dropFailing` — for every state -/
theorem dropFailingIdx_eq (k : Key) (s : State) :
    dropFailingIdx k s = some (dropFailing k s s.active.reverse []) := by
  unfold dropFailingIdx
  have := whileIdx_spec k s.active.reverse [] s [] (s.active.length + 1) (by simp) (by simp)
  simp only [List.length_reverse, List.nil_append] at this
  exact this


/-! ## the descending scan over `pass_through_keys` -/

/-- The scan started at index `rp.length - 1` on `rp.reverse ++ suf`: no index out of bounds, the
`remove(i)` is in range, and it removes the first occurrence of `k` in `rp` (= the last one in `rp.reverse`). -/
theorem passScanIdx_spec (k : Key) (rp suf : List Key) :
    passScanIdx k rp.length (rp.reverse ++ suf) =
      some (if rp.contains k then ((rp.erase k).reverse ++ suf, [Event.released k]) else (rp.reverse ++ suf, [])) := by
  induction rp generalizing suf with
  | nil => simp [passScanIdx]
  | cons x r ih =>
    have e : (x :: r).reverse ++ suf = r.reverse ++ x :: suf := by simp
    rw [e, List.length_cons, passScanIdx, vecGet_mid' _ _ _ _ (by simp)]
    simp only
    by_cases hx : x = k
    · subst hx
      rw [vecRemove_mid' _ _ _ _ (by simp)]
      simp
    · have hx' : (x == k) = false := by simpa using hx
      simp only [hx', Bool.false_eq_true, if_false]
      rw [ih]
      have hkx : ¬ k = x := fun h => hx h.symm
      by_cases hc : k ∈ r
      · simp [hc, hx']
      · simp [hc, hkx]

/-- `for i in (0 .. pass.len()).rev() { if pass[i] == k { …; pass.remove(i); break } }` followed by the
`retain` on the input keys: never panics and equals the structural `releaseTail` — for every state -/
theorem releaseTailIdx_eq (s : State) (k : Key) : releaseTailIdx s k = some (releaseTail s k) := by
  unfold releaseTailIdx releaseTail
  have := passScanIdx_spec k s.pass.reverse []
  simp only [List.length_reverse, List.reverse_reverse, List.append_nil] at this
  rw [this]
  by_cases hc : k ∈ s.pass
  · simp [hc, removeLast]
  · simp [hc]

theorem releaseKeyIdx_eq (s : State) (k : Key) : releaseKeyIdx s k = some (releaseKey s k) := by
  unfold releaseKeyIdx
  rw [dropFailingIdx_eq]
  simp only
  rw [releaseTailIdx_eq]
  rfl

theorem releaseAbsorbedLoopIdx_eq (s : State) (ks : List Key) :
    releaseAbsorbedLoopIdx s ks = some (releaseAbsorbedLoop s ks) := by
  induction ks generalizing s with
  | nil => rfl
  | cons k ks ih =>
    rw [releaseAbsorbedLoopIdx, releaseKeyIdx_eq]
    simp only
    rw [ih]
    rfl

theorem releaseAbsorbedKeysIdx_eq (s : State) : releaseAbsorbedKeysIdx s = some (releaseAbsorbedKeys s) := by
  unfold releaseAbsorbedKeysIdx releaseAbsorbedKeys
  exact releaseAbsorbedLoopIdx_eq _ _


/-! ## `add_new_mapping`, `newly_press`, `newly_release`, `step`, `release_all` -/

theorem addPhase2Idx_eq (s : State) (newKey : Key) (m : Mapping) :
    addPhase2Idx s newKey m = some (addPhase2 s newKey m) := by
  unfold addPhase2Idx addPhase2
  have h1 : (if producesActionKey m then releaseActionMappingsIdx s else some (s, [])) =
      some (if producesActionKey m then releaseActionMappings s else (s, [])) := by
    split
    · rw [releaseActionMappingsIdx_eq]
    · rfl
  rw [h1]
  generalize (if producesActionKey m then releaseActionMappings s else (s, [])) = r1
  simp only
  split
  · rw [releaseAbsorbedKeysIdx_eq]
  · rfl

theorem addNewMappingIdx_eq (s : State) (newKey : Key) (m : Mapping) :
    addNewMappingIdx s newKey m = some (addNewMapping s newKey m) := by
  unfold addNewMappingIdx addNewMapping
  rw [addPhase2Idx_eq]

theorem passThroughIdx_eq (s : State) (k : Key) : passThroughIdx s k = some (passThrough s k) := by
  unfold passThroughIdx passThrough
  split
  · rw [releaseActionMappingsIdx_eq]
    simp only
    rw [releaseAbsorbedKeysIdx_eq]
  · rfl

theorem newlyPressIdx_eq (L : Layout) (s : State) (k : Key) :
    newlyPressIdx L s k = some (newlyPress L s k) := by
  unfold newlyPressIdx newlyPress
  cases findMapping L s k with
  | some m =>
    simp only
    rw [addNewMappingIdx_eq]
  | none =>
    simp only
    split
    · rw [passThroughIdx_eq]
    · rfl

theorem newlyReleaseIdx_eq (s : State) (k : Key) : newlyReleaseIdx s k = some (newlyRelease s k) := by
  unfold newlyReleaseIdx newlyRelease
  rw [releaseKeyIdx_eq]

/-- `Mapper::step` never panics, from EVERY state and for every layout, and equals the structural model -/
theorem stepIdx_eq (L : Layout) (s : State) (e : Event) : stepIdx L s e = some (step L s e) := by
  unfold stepIdx TmVerif.step
  cases e with
  | pressed k =>
    simp only
    split
    · exact newlyPressIdx_eq L s k
    · rfl
  | released k =>
    simp only
    split
    · exact newlyReleaseIdx_eq s k
    · rfl

theorem releaseAllLoopIdx_eq (L : Layout) (s : State) (ks : List Key) :
    releaseAllLoopIdx L s ks = some (releaseAllLoop L s ks) := by
  induction ks generalizing s with
  | nil => rfl
  | cons k ks ih =>
    rw [releaseAllLoopIdx, stepIdx_eq]
    simp only
    rw [ih]
    rfl

/-- `Mapper::release_all` never panics, from EVERY state, and equals the structural model -/
theorem releaseAllIdx_eq (L : Layout) (s : State) : releaseAllIdx L s = some (releaseAll L s) :=
  releaseAllLoopIdx_eq L s s.inp

theorem runEvIdx_eq (L : Layout) (s : State) (es : List Event) : runEvIdx L s es = some (run L s es) := by
  induction es generalizing s with
  | nil => rfl
  | cons e es ih =>
    rw [runEvIdx, stepIdx_eq]
    simp only
    rw [ih]
    rfl

theorem opIdx_eq (L : Layout) (s : State) (op : Op) : opIdx L s op = some (opStruct L s op) := by
  cases op with
  | ev e => rw [opIdx, stepIdx_eq]; rfl
  | relAll => exact releaseAllIdx_eq L s

theorem runIdx_eq (L : Layout) (s : State) (ops : List Op) : runIdx L s ops = some (runStruct L s ops) := by
  induction ops generalizing s with
  | nil => rfl
  | cons op ops ih =>
    rw [runIdx, opIdx_eq]
    simp only
    rw [ih]
    rfl

/-- `runStruct` is the state component / the outputs of `Sys.run` / `Sys.next` of `Proofs/Reach.lean` -/
theorem opStruct_next (L : Layout) (x : Sys) (op : Op) :
    (opStruct L x.s op).1 = (x.next L op).s ∧ (opStruct L x.s op).2 = x.out L op := by
  cases op <;> exact ⟨rfl, rfl⟩

theorem runStruct_state (L : Layout) (x : Sys) (ops : List Op) :
    (runStruct L x.s ops).1 = (x.run L ops).s := by
  induction ops generalizing x with
  | nil => rfl
  | cons op ops ih =>
    rw [runStruct]
    simp only [Sys.run, List.foldl_cons]
    rw [(opStruct_next L x op).1]
    exact ih (x.next L op)


theorem runStruct_outs (L : Layout) (x : Sys) (ops : List Op) :
    (runStruct L x.s ops).2.flatten = Sys.outs L x ops := by
  induction ops generalizing x with
  | nil => rfl
  | cons op ops ih =>
    rw [runStruct]
    simp only [List.flatten_cons, Sys.outs]
    rw [(opStruct_next L x op).2, (opStruct_next L x op).1]
    exact congrArg _ (ih (x.next L op))

end TmVerif
