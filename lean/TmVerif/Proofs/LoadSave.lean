/-
C15 machinery: what the loader does with a saved basic layout.
`serialize L` parses to the fancy layout `L.map toFancy` (all single mappings, no aliases), and
that converts back to `L`.
-/
import TmVerif.Proofs.LoadKeys

namespace TmVerif
open Outcome Parse Fancy TmVerif.Tables

/-! ## key names -/

theorem toNat_ofNat_ascii : ∀ c, c < 128 → (Char.ofNat c).toNat = c := by decide

theorem codesOf_charsOf {l : List Nat} (h : ∀ c ∈ l, c < 128) : codesOf (charsOf l) = l := by
  induction l with
  | nil => rfl
  | cons c cs ih =>
    simp only [codesOf, charsOf, List.map_cons, List.map_map] at ih ⊢
    rw [toNat_ofNat_ascii c (h c (List.mem_cons_self ..))]
    congr 1
    exact ih fun x hx => h x (List.mem_cons_of_mem _ hx)

theorem serdeNameIn_mem {k : Key} {tbl : List (Nat × List Nat × List Nat)} {s : List Nat}
    (h : serdeNameIn k tbl = some s) : ∃ v, (k, v, s) ∈ tbl := by
  induction tbl with
  | nil => cases h
  | cons r rest ih =>
    obtain ⟨d, v, s'⟩ := r
    simp only [serdeNameIn] at h
    split at h
    · rename_i hd
      simp at h hd; subst h; subst hd
      exact ⟨v, List.mem_cons_self ..⟩
    · obtain ⟨v', hv'⟩ := ih h
      exact ⟨v', List.mem_cons_of_mem _ hv'⟩

/-- the name under which a key is saved (`[]` for a number that is no key code) -/
def nameOf (k : Key) : List Char := (serdeName k).getD []

theorem serdeName_of_known {k : Key} (h : isKnownKey k = true) : serdeName k = some (nameOf k) := by
  simp only [isKnownKey, Option.isSome_iff_exists] at h
  obtain ⟨s, hs⟩ := h
  simp [nameOf, serdeName, hs]

/-- C15 for one key: the saved name is read back as the same key, and is not taken for an alias -/
theorem known_roundtrip {k : Key} (h : isKnownKey k = true) :
    parseKeyCode (nameOf k) = some k ∧ startsWithAt (nameOf k) = false := by
  simp only [isKnownKey, Option.isSome_iff_exists] at h
  obtain ⟨s, hs⟩ := h
  obtain ⟨v, hmem⟩ := serdeNameIn_mem hs
  have hrow := keyTable_rowOk hmem
  simp only [rowOk, Bool.and_eq_true, beq_iff_eq, bne_iff_ne, ne_eq, List.all_eq_true, decide_eq_true_eq] at hrow
  obtain ⟨⟨⟨⟨⟨hp, _⟩, hhead⟩, _⟩, hascii⟩, _⟩ := hrow
  have hname : nameOf k = charsOf s := by simp [nameOf, serdeName, hs]
  rw [hname]
  refine ⟨by simp [parseKeyCode, codesOf_charsOf hascii, hp], ?_⟩
  cases s with
  | nil => rfl
  | cons c cs =>
    simp only [charsOf, List.map_cons, startsWithAt]
    rw [toNat_ofNat_ascii c (hascii c (List.mem_cons_self ..))]
    simp at hhead
    simp [hhead]

/-! ## saved form of key lists -/

def strName (k : Key) : Json := Json.str (nameOf k)

theorem optMapM_known {ks : List Key} (h : ∀ k ∈ ks, isKnownKey k = true) :
    Ser.optMapM Ser.keyJson ks = some (ks.map strName) := by
  induction ks with
  | nil => rfl
  | cons k ks ih =>
    have hk := serdeName_of_known (h k (List.mem_cons_self ..))
    simp [Ser.optMapM, Ser.keyJson, hk, ih fun x hx => h x (List.mem_cons_of_mem _ hx), strName]

theorem keysJson_known {ks : List Key} (h : ∀ k ∈ ks, isKnownKey k = true) :
    Ser.keysJson ks = some (Json.arr (ks.map strName)) := by
  simp [Ser.keysJson, optMapM_known h]

theorem parseKeyCodeO_name {k : Key} (h : isKnownKey k = true) : parseKeyCodeO (nameOf k) = ok k := by
  simp [parseKeyCodeO, (known_roundtrip h).1, ofOption]

theorem parseFromModifier_name {k : Key} (h : isKnownKey k = true) :
    parseFromModifier (strName k) = ok (Modifier.key k) := by
  simp [parseFromModifier, strName, (known_roundtrip h).2, parseKeyCodeO_name h]

theorem parseToInitialElem_name {k : Key} (h : isKnownKey k = true) :
    parseToInitialElem (strName k) = ok (Modifier.key k) := by
  simp [parseToInitialElem, strName, (known_roundtrip h).2, parseKeyCodeO_name h]

theorem parseAbsorbingElem_name {k : Key} (h : isKnownKey k = true) :
    parseAbsorbingElem (strName k) = ok (Modifier.key k) := by
  simp [parseAbsorbingElem, parseModifier, strName, (known_roundtrip h).2, parseKeyCodeO_name h]

theorem mapM_names {f : Json → Outcome Modifier} (hf : ∀ k, isKnownKey k = true → f (strName k) = ok (Modifier.key k))
    {ks : List Key} (h : ∀ k ∈ ks, isKnownKey k = true) :
    mapM f (ks.map strName) = ok (ks.map Modifier.key) := by
  induction ks with
  | nil => rfl
  | cons k ks ih =>
    simp [mapM, hf k (h k (List.mem_cons_self ..)), ih fun x hx => h x (List.mem_cons_of_mem _ hx)]

theorem dropLast_map' {α β : Type} (f : α → β) (l : List α) : (l.map f).dropLast = l.dropLast.map f := by
  induction l with
  | nil => rfl
  | cons a as ih =>
    cases as with
    | nil => rfl
    | cons b bs => simp only [List.map_cons, List.dropLast_cons_cons] at ih ⊢; rw [ih]

theorem mem_of_mem_dropLast' {α : Type} {x : α} {l : List α} (h : x ∈ l.dropLast) : x ∈ l := by
  induction l with
  | nil => cases h
  | cons a as ih =>
    cases as with
    | nil => cases h
    | cons b bs =>
      simp only [List.dropLast_cons_cons, List.mem_cons] at h
      rcases h with rfl | h
      · exact List.mem_cons_self ..
      · exact List.mem_cons_of_mem _ (ih (by simpa using h))

theorem getLast?_map' {α β : Type} (f : α → β) (l : List α) : (l.map f).getLast? = l.getLast?.map f := by
  induction l with
  | nil => rfl
  | cons a as ih =>
    cases as with
    | nil => rfl
    | cons b bs => simp only [List.map_cons, List.getLast?_cons_cons] at ih ⊢; rw [ih]

/-! ## the fancy layout a saved layout parses to -/

def keysToSingle (to : List Key) : SingleToKeys :=
  match to.getLast? with
  | none => ⟨[], Terminal.null⟩
  | some last => ⟨to.dropLast.map Modifier.key, Terminal.physical last⟩

def repToFancy : Repeat → SingleRepeat
  | Repeat.normal => SingleRepeat.normal
  | Repeat.disabled => SingleRepeat.disabled
  | Repeat.special keys d i => SingleRepeat.special (keysToSingle keys) d i

def toFancy (m : TmVerif.Mapping) : Fancy.Mapping :=
  Fancy.Mapping.single ⟨⟨m.frm.dropLast.map Modifier.key, m.frm.getLast?.getD 0⟩, keysToSingle m.to,
    repToFancy m.rep, m.absorbing.map Modifier.key⟩

theorem parseSingleToArray_names {ks : List Key} (h : ∀ k ∈ ks, isKnownKey k = true) :
    parseSingleToArray (ks.map strName) = ok (keysToSingle ks) := by
  unfold parseSingleToArray keysToSingle
  cases hl : ks.getLast? with
  | none =>
    have : ks = [] := List.getLast?_eq_none_iff.1 hl
    subst this; rfl
  | some last =>
    have hne : ks ≠ [] := by intro h0; subst h0; cases hl
    have hlast : last ∈ ks := List.mem_of_getLast? hl
    have hlen : ((ks.map strName).length == 0) = false := by
      cases ks with
      | nil => exact absurd rfl hne
      | cons _ _ => rfl
    simp only [hlen, dropLast_map', getLast?_map', hl, Option.map_some, Bool.false_eq_true, if_false]
    rw [show parseToInitial (ks.dropLast.map strName) = ok (ks.dropLast.map Modifier.key) from
      mapM_names (fun k hk => parseToInitialElem_name hk) fun k hk => h k (mem_of_mem_dropLast' hk)]
    simp [parseSingleToTerminal, strName, parseSingleToText, (known_roundtrip (h last hlast)).2,
      parseKeyCodeO_name (h last hlast)]

theorem parseSingleOrAliasToArray_names {ks : List Key} (h : ∀ k ∈ ks, isKnownKey k = true) :
    parseSingleOrAliasToArray (ks.map strName) = ok (SingleOrAliasToKeys.single (keysToSingle ks)) := by
  unfold parseSingleOrAliasToArray keysToSingle
  cases hl : ks.getLast? with
  | none =>
    have : ks = [] := List.getLast?_eq_none_iff.1 hl
    subst this; rfl
  | some last =>
    have hne : ks ≠ [] := by intro h0; subst h0; cases hl
    have hlast : last ∈ ks := List.mem_of_getLast? hl
    have hlen : ((ks.map strName).length == 0) = false := by
      cases ks with
      | nil => exact absurd rfl hne
      | cons _ _ => rfl
    simp only [hlen, dropLast_map', getLast?_map', hl, Option.map_some]
    simp only [Bool.false_eq_true, if_false, unwrapO_some, bind_ok, parseSingleOrAliasToTerminal, strName,
      parseSingleOrAliasToText, (known_roundtrip (h last hlast)).2, parseKeyCodeO_name (h last hlast)]
    rw [show parseToInitial (ks.dropLast.map strName) = ok (ks.dropLast.map Modifier.key) from
      mapM_names (fun k hk => parseToInitialElem_name hk) fun k hk => h k (mem_of_mem_dropLast' hk)]
    rfl

theorem parseFrom_names {ks : List Key} (hne : ks ≠ []) (h : ∀ k ∈ ks, isKnownKey k = true) :
    parseFrom (Json.arr (ks.map strName)) =
      ok (FromKeys.single ⟨ks.dropLast.map Modifier.key, ks.getLast?.getD 0⟩) := by
  unfold parseFrom
  obtain ⟨last, hl⟩ : ∃ last, ks.getLast? = some last := by
    cases h' : ks.getLast? with
    | none => exact absurd (List.getLast?_eq_none_iff.1 h') hne
    | some x => exact ⟨x, rfl⟩
  have hlast : last ∈ ks := List.mem_of_getLast? hl
  have hlen : ((ks.map strName).length == 0) = false := by
    cases ks with
    | nil => exact absurd rfl hne
    | cons _ _ => rfl
  simp only [hlen, dropLast_map', getLast?_map', hl, Option.map_some, Bool.false_eq_true, if_false]
  rw [show parseFromModifiers (ks.dropLast.map strName) = ok (ks.dropLast.map Modifier.key) from
    mapM_names (fun k hk => parseFromModifier_name hk) fun k hk => h k (mem_of_mem_dropLast' hk)]
  simp [parseFromKey, strName, parseFromKeyText, parseKeyCodeO_name (h last hlast)]

/-! ## `Saveable` -/

def keysKnown (ks : List Key) : Bool := ks.all isKnownKey

def Repeat.saveable : Repeat → Bool
  | Repeat.normal => true
  | Repeat.disabled => true
  | Repeat.special keys d i => keysKnown keys && inI32 d && inI32 i

/-- What a basic mapping must satisfy for the saved file to reload as the same mapping:
* `Mapping.wf`: a non-empty trigger (the loader rejects `"from": []`), no key twice in trigger or
  output (the duplicate check at the end of `convert`);
* every key is one of the 484 key codes (otherwise it has no name to be written under);
* every absorbed key is one of the trigger's modifiers, i.e. in the trigger before its final key
  (the loader rejects an `absorbing` entry that is not among the `from` modifiers);
* `delay_ms` / `interval_ms` are `i32` values (they are in Rust). -/
def Mapping.saveable (m : TmVerif.Mapping) : Bool :=
  Mapping.wf m && keysKnown m.frm && keysKnown m.to && keysKnown m.absorbing &&
  m.absorbing.all (fun k => m.frm.dropLast.contains k) && Repeat.saveable m.rep

def Saveable (L : TmVerif.Layout) : Bool := L.all Mapping.saveable

theorem keysKnown_iff {ks : List Key} : keysKnown ks = true ↔ ∀ k ∈ ks, isKnownKey k = true := by
  simp [keysKnown]

/-! ## repeat -/

theorem toI32_of_inI32 {d : Int} (h : inI32 d = true) : toI32 d = d := by
  simp only [inI32, Bool.and_eq_true, decide_eq_true_eq] at h
  unfold toI32
  rw [Int.emod_eq_of_lt (by omega) (by omega)]
  omega

theorem parseRepeatMs_int {d : Int} (h : inI32 d = true) : parseRepeatMs (Json.num (JNum.int d)) = ok d := by
  have h' := h
  simp only [inI32, Bool.and_eq_true, decide_eq_true_eq] at h'
  have : (-9223372036854775808 ≤ d ∧ d ≤ 9223372036854775807) := by omega
  simp [parseRepeatMs, JNum.asI64, this, ofOption, toI32_of_inI32 h]

theorem parseSingleTo_names {ks : List Key} (h : ∀ k ∈ ks, isKnownKey k = true) :
    parseSingleTo (Json.arr (ks.map strName)) = ok (keysToSingle ks) := by
  simp [parseSingleTo, parseSingleToArray_names h]

theorem repeatJson_parse {r : Repeat} (h : Repeat.saveable r = true) :
    ∃ j, Ser.repeatJson r = some j ∧ parseSingleRepeat (some j) = ok (repToFancy r) := by
  cases r with
  | normal => exact ⟨_, rfl, by decide⟩
  | disabled => exact ⟨_, rfl, by decide⟩
  | special keys d i =>
    simp only [Repeat.saveable, Bool.and_eq_true, keysKnown_iff] at h
    obtain ⟨⟨hk, hd⟩, hi⟩ := h
    refine ⟨Json.obj [(sSpecial, Json.obj [(sDelay, Json.num (JNum.int d)), (sInterval, Json.num (JNum.int i)),
        (sKeys, Json.arr (keys.map strName))])], by simp [Ser.repeatJson, keysJson_known hk], ?_⟩
    have e1 : hasExactlyKeys [(sSpecial, Json.obj [(sDelay, Json.num (JNum.int d)), (sInterval, Json.num (JNum.int i)),
        (sKeys, Json.arr (keys.map strName))])] [sSpecial] = true := rfl
    have e2 : hasExactlyKeys [(sDelay, Json.num (JNum.int d)), (sInterval, Json.num (JNum.int i)),
        (sKeys, Json.arr (keys.map strName))] [sKeys, sDelay, sInterval] = true := rfl
    have l0 : Json.lookup sSpecial [(sSpecial, Json.obj [(sDelay, Json.num (JNum.int d)), (sInterval, Json.num (JNum.int i)),
        (sKeys, Json.arr (keys.map strName))])] = some (Json.obj [(sDelay, Json.num (JNum.int d)), (sInterval, Json.num (JNum.int i)),
        (sKeys, Json.arr (keys.map strName))]) := rfl
    have l1 : Json.lookup sKeys [(sDelay, Json.num (JNum.int d)), (sInterval, Json.num (JNum.int i)),
        (sKeys, Json.arr (keys.map strName))] = some (Json.arr (keys.map strName)) := rfl
    have l2 : Json.lookup sDelay [(sDelay, Json.num (JNum.int d)), (sInterval, Json.num (JNum.int i)),
        (sKeys, Json.arr (keys.map strName))] = some (Json.num (JNum.int d)) := rfl
    have l3 : Json.lookup sInterval [(sDelay, Json.num (JNum.int d)), (sInterval, Json.num (JNum.int i)),
        (sKeys, Json.arr (keys.map strName))] = some (Json.num (JNum.int i)) := rfl
    simp only [parseSingleRepeat, e1, e2, l0, l1, l2, l3, if_true, unwrapO_some, bind_ok,
      parseSingleTo_names hk, parseRepeatMs_int hd, parseRepeatMs_int hi, repToFancy]

/-! ## one mapping -/

theorem absorbingOk_keys {abs mods : List Key} (h : abs.all (fun k => mods.contains k) = true) :
    absorbingOk (abs.map Modifier.key) (mods.map Modifier.key) = true := by
  simp only [absorbingOk, List.all_eq_true, List.mem_map] at h ⊢
  rintro m ⟨k, hk, rfl⟩
  have := h k hk
  simp only [List.contains_eq_mem, decide_eq_true_eq] at this ⊢
  exact List.mem_map.2 ⟨k, this, rfl⟩

theorem mappingJson_parse {m : TmVerif.Mapping} (h : Mapping.saveable m = true) :
    ∃ j, Ser.mappingJson m = some j ∧ parseMappingFromJson j = ok (toFancy m) := by
  simp only [Mapping.saveable, Bool.and_eq_true, keysKnown_iff] at h
  obtain ⟨⟨⟨⟨⟨hwf, hf⟩, ht⟩, ha⟩, habs⟩, hrep⟩ := h
  obtain ⟨rj, hrj, hrp⟩ := repeatJson_parse hrep
  have hne : m.frm ≠ [] := by
    simp only [Mapping.wf, Bool.and_eq_true, bne_iff_ne, ne_eq] at hwf
    exact hwf.1.1
  refine ⟨Json.obj [(sAbsorbing, Json.arr (m.absorbing.map strName)), (sFrom, Json.arr (m.frm.map strName)),
      (sRepeat, rj), (sTo, Json.arr (m.to.map strName))],
    by simp [Ser.mappingJson, keysJson_known hf, keysJson_known ht, keysJson_known ha, hrj], ?_⟩
  have e1 : hasAtLeastKeys [(sAbsorbing, Json.arr (m.absorbing.map strName)), (sFrom, Json.arr (m.frm.map strName)),
      (sRepeat, rj), (sTo, Json.arr (m.to.map strName))] [sFrom, sTo] = true := rfl
  have l1 : Json.lookup sFrom [(sAbsorbing, Json.arr (m.absorbing.map strName)), (sFrom, Json.arr (m.frm.map strName)),
      (sRepeat, rj), (sTo, Json.arr (m.to.map strName))] = some (Json.arr (m.frm.map strName)) := rfl
  have l2 : Json.lookup sTo [(sAbsorbing, Json.arr (m.absorbing.map strName)), (sFrom, Json.arr (m.frm.map strName)),
      (sRepeat, rj), (sTo, Json.arr (m.to.map strName))] = some (Json.arr (m.to.map strName)) := rfl
  have l3 : Json.lookup sRepeat [(sAbsorbing, Json.arr (m.absorbing.map strName)), (sFrom, Json.arr (m.frm.map strName)),
      (sRepeat, rj), (sTo, Json.arr (m.to.map strName))] = some rj := rfl
  have l4 : Json.lookup sAbsorbing [(sAbsorbing, Json.arr (m.absorbing.map strName)), (sFrom, Json.arr (m.frm.map strName)),
      (sRepeat, rj), (sTo, Json.arr (m.to.map strName))] = some (Json.arr (m.absorbing.map strName)) := rfl
  have pa : parseAbsorbing (some (Json.arr (m.absorbing.map strName))) = ok (m.absorbing.map Modifier.key) :=
    mapM_names (fun k hk => parseAbsorbingElem_name hk) ha
  simp only [parseMappingFromJson, e1, l1, l2, l3, l4, if_true, unwrapO_some, bind_ok, parseFrom_names hne hf,
    parseSingleOrAliasTo, parseSingleOrAliasToArray_names ht, hrp, pa, absorbingOk_keys habs, toFancy]

/-! ## the whole layout: parse -/

theorem aliasNames_keys (ks : List Key) : aliasNames (ks.map Modifier.key) = [] := by
  induction ks with
  | nil => rfl
  | cons k ks ih => simpa [aliasNames] using ih

theorem aliasNames_keysToSingle (ks : List Key) : aliasNames (keysToSingle ks).initial = [] := by
  unfold keysToSingle
  split
  · rfl
  · exact aliasNames_keys _

theorem usedAliases_toFancy (m : TmVerif.Mapping) : mappingAllUsedAliases (toFancy m) = [] := by
  have : aliasNames (singleRepeatInitial (repToFancy m.rep)) = [] := by
    cases m.rep with
    | normal => rfl
    | disabled => rfl
    | special keys d i => exact aliasNames_keysToSingle keys
  simp [-List.map_dropLast, toFancy, mappingAllUsedAliases, aliasNames_keys, aliasNames_keysToSingle, this]

theorem mappings_parse {L : TmVerif.Layout} (h : Saveable L = true) :
    ∃ js, Ser.optMapM Ser.mappingJson L = some js ∧ mapM parseMappingFromJson js = ok (L.map toFancy) := by
  induction L with
  | nil => exact ⟨[], rfl, rfl⟩
  | cons m L ih =>
    simp only [Saveable, List.all_cons, Bool.and_eq_true] at h
    obtain ⟨j, hj, hp⟩ := mappingJson_parse h.1
    obtain ⟨js, hjs, hps⟩ := ih h.2
    exact ⟨j :: js, by simp [Ser.optMapM, hj, hjs], by simp [mapM, hp, hps]⟩

/-- the saved file parses to the fancy layout `L.map toFancy` -/
theorem serialize_parse {L : TmVerif.Layout} (h : Saveable L = true) :
    ∃ j, serialize L = some j ∧ parseLayoutFromJson j = ok (L.map toFancy) := by
  obtain ⟨js, hjs, hps⟩ := mappings_parse h
  refine ⟨Json.obj [(sMappings, Json.arr js)], by simp [serialize, hjs], ?_⟩
  have e1 : hasExactlyKeys [(sMappings, Json.arr js)] [sMappings] = true := rfl
  have l1 : Json.lookup sMappings [(sMappings, Json.arr js)] = some (Json.arr js) := rfl
  have hall : allAliasesDefined (L.map toFancy) = true := by
    simp only [allAliasesDefined, List.all_eq_true, List.mem_map]
    rintro fm ⟨m, _, rfl⟩ a ha
    rw [usedAliases_toFancy] at ha
    cases ha
  simp only [parseLayoutFromJson, e1, l1, if_true, unwrapO_some, bind_ok, hps, hall]

/-! ## the whole layout: convert -/

namespace Convert

theorem buildLoop_keys (F : Fancy.Layout) (ks : List Key) (qs : List Nat) (found : List (List AliasMapping))
    (amap : List (List Char × Nat)) :
    buildLoop F (ks.map Modifier.key) qs found amap = ok (qs, found, amap) := by
  induction ks with
  | nil => rfl
  | cons k ks ih => simpa [buildLoop] using ih

theorem buildCombinations_keys (F : Fancy.Layout) (ks : List Key) :
    buildCombinations F (ks.map Modifier.key) = ok ⟨ks.map Modifier.key, [], [], []⟩ := by
  simp [buildCombinations, buildLoop_keys]

theorem fromModifiersLoop_keys (c : Comb) (t : List Nat) (ks : List Key) (j : Nat) :
    fromModifiersLoop c t (ks.map Modifier.key) j = ok ks := by
  induction ks with
  | nil => rfl
  | cons k ks ih => simp [fromModifiersLoop, ih]

theorem reifyModifiers_keys (c : Comb) (t : List Nat) (ks : List Key) :
    reifyModifiers c t (ks.map Modifier.key) = ok ks := by
  induction ks with
  | nil => rfl
  | cons k ks ih => simp [reifyModifiers, ih]

theorem dropLast_append_getLast' {α : Type} {l : List α} {a : α} (h : l.getLast? = some a) :
    l.dropLast ++ [a] = l := by
  induction l with
  | nil => cases h
  | cons x xs ih =>
    cases xs with
    | nil => simp at h; subst h; rfl
    | cons y ys =>
      simp only [List.getLast?_cons_cons] at h
      simp only [List.dropLast_cons_cons, List.cons_append, ih h]

theorem translate_keysToSingle (c : Comb) (t : List Nat) (ks : List Key) :
    translateSingleToKeys c t (keysToSingle ks) = ok ks := by
  unfold keysToSingle
  cases hl : ks.getLast? with
  | none =>
    have : ks = [] := List.getLast?_eq_none_iff.1 hl
    subst this; rfl
  | some last =>
    simp [-List.map_dropLast, translateSingleToKeys, reifyModifiers_keys, dropLast_append_getLast' hl]

theorem singleRepeat_repToFancy (c : Comb) (t : List Nat) (r : Repeat) :
    singleRepeat c t (repToFancy r) = ok r := by
  cases r with
  | normal => rfl
  | disabled => rfl
  | special keys d i => simp [repToFancy, singleRepeat, translate_keysToSingle]

theorem convertMapping_toFancy (F : Fancy.Layout) {m : TmVerif.Mapping} (hne : m.frm ≠ []) :
    convertMapping F (toFancy m) = ok [m] := by
  obtain ⟨last, hl⟩ : ∃ last, m.frm.getLast? = some last := by
    cases h' : m.frm.getLast? with
    | none => exact absurd (List.getLast?_eq_none_iff.1 h') hne
    | some x => exact ⟨x, rfl⟩
  have hm : multiply [] = ok [[]] := by decide
  simp [-List.map_dropLast, toFancy, convertMapping, convertSingle, buildCombinations_keys, hm, mapM, convertSingleOne, fromModifiers,
    fromModifiersLoop_keys, translate_keysToSingle, singleRepeat_repToFancy, reifyModifiers_keys, hl,
    dropLast_append_getLast' hl]

theorem pushAll_fst (sms : List TmVerif.Mapping) :
    ∀ (res : List TmVerif.Mapping) (table : FromTable), (pushAll sms res table).1 = res ++ sms := by
  induction sms with
  | nil => intros; simp [pushAll]
  | cons sm sms ih => intro res table; simp [pushAll, ih]

theorem firstPass_of_mapM (F : Fancy.Layout) :
    ∀ (fms : List Fancy.Mapping) (groups : List (List TmVerif.Mapping)), mapM (convertMapping F) fms = ok groups →
      ∀ res table, ∃ table', firstPass F fms res table = ok (res ++ groups.flatten, table') := by
  intro fms
  induction fms with
  | nil =>
    intro groups h res table
    simp [mapM] at h; subst h
    exact ⟨table, by simp [firstPass]⟩
  | cons fm fms ih =>
    intro groups h res table
    obtain ⟨sms, groups', h1, h2, rfl⟩ := mapM_cons_eq_ok.1 h
    obtain ⟨table', ht⟩ := ih groups' h2 (pushAll sms res table).1 (pushAll sms res table).2
    refine ⟨table', ?_⟩
    rw [pushAll_fst] at ht
    simp only [firstPass, h1, bind_ok, pushAll_fst, ht]
    simp

theorem secondPass_no_repeatOnly (F : Fancy.Layout) (table : FromTable) (res : List TmVerif.Mapping) :
    ∀ (fms : List Fancy.Mapping), (∀ fm ∈ fms, ∀ s, fm ≠ Fancy.Mapping.repeatOnly s) →
      secondPass F table fms res = ok res := by
  intro fms
  induction fms with
  | nil => intro _; rfl
  | cons fm fms ih =>
    intro h
    have h1 : adjustRepeats F table res fm = ok res := by
      cases fm with
      | repeatOnly s => exact absurd rfl (h _ (List.mem_cons_self ..) s)
      | single _ => rfl
      | alias _ => rfl
      | row _ => rfl
    simp only [secondPass, h1, bind_ok]
    exact ih fun fm' hfm' => h fm' (List.mem_cons_of_mem _ hfm')

/-- converting the fancy form of a well-formed basic layout gives the layout back -/
theorem convert_toFancy {L : TmVerif.Layout} (hwf : Layout.wf L = true) : convert (L.map toFancy) = ok L := by
  have hwf' : ∀ m ∈ L, Mapping.wf m = true := by simpa [Layout.wf] using hwf
  have hne : ∀ m ∈ L, m.frm ≠ [] := by
    intro m hm
    have := hwf' m hm
    simp only [Mapping.wf, Bool.and_eq_true, bne_iff_ne, ne_eq] at this
    exact this.1.1
  have hmap : ∀ F, mapM (convertMapping F) (L.map toFancy) = ok (L.map fun m => [m]) := by
    intro F
    clear hwf hwf'
    induction L with
    | nil => rfl
    | cons m L ih =>
      simp [mapM, convertMapping_toFancy F (hne m (List.mem_cons_self ..)),
        ih fun x hx => hne x (List.mem_cons_of_mem _ hx)]
  obtain ⟨table', hfp⟩ := firstPass_of_mapM _ _ _ (hmap (L.map toFancy)) [] []
  have hflat : (L.map fun m => [m]).flatten = L := by
    clear hwf hwf' hne hmap hfp
    induction L with
    | nil => rfl
    | cons m L ih => simp [ih]
  have hsp := secondPass_no_repeatOnly (L.map toFancy) table' L (L.map toFancy) (by
    intro fm hfm s
    obtain ⟨m, _, rfl⟩ := List.mem_map.1 hfm
    simp [toFancy])
  have hno : noRepeatedKeys L = true := by
    simp only [noRepeatedKeys, List.all_eq_true]
    intro m hm
    have := hwf' m hm
    simp only [Mapping.wf, Bool.and_eq_true, decide_eq_true_eq] at this
    simp [hasRepeatedKey_eq_false.2 this.1.2, hasRepeatedKey_eq_false.2 this.2]
  simp only [convert, hfp, bind_ok, List.nil_append, hflat, hsp, hno, if_true]

end Convert

end TmVerif
