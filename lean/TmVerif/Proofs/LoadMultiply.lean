/-
`MultiplyIter` (the odometer over alias definitions): the fuelled iteration of the exact `next()`
body equals the declarative cartesian product `cart`, first index fastest.
-/
import TmVerif.Proofs.LoadParse

namespace TmVerif
namespace Convert
open Outcome

/-- The cartesian product `{0..q₀-1} × {0..q₁-1} × …` as a list, FIRST index fastest:
`cart [2,2] = [[0,0],[1,0],[0,1],[1,1]]`; `cart [] = [[]]`. -/
def cart : List Nat → List (List Nat)
  | [] => [[]]
  | q :: qs => (cart qs).flatMap fun t => (List.range q).map fun i => i :: t

/-! ### the body of `next()` on the first digit -/

theorem advance_lt {q : Nat} {qs : List Nat} {p : Nat} {t : List Nat} (hq : q ≠ 0) (hp : p < q - 1) :
    advance (q :: qs) (p :: t) = ok (some ((p + 1) :: t)) := by
  simp [advance, hq, hp]

theorem advance_last {q : Nat} {qs : List Nat} {t : List Nat} (hq : q ≠ 0) :
    advance (q :: qs) ((q - 1) :: t) = (advance qs t).bind fun r => ok (r.map fun ps' => 0 :: ps') := by
  simp [advance, hq]

/-- while the first digit is below `q-1` only it moves -/
theorem loop_cycle (q : Nat) (qs : List Nat) (hq : q ≠ 0) (t : List Nat) :
    ∀ (d p F : Nat), p + d + 1 = q →
      multiplyLoop (q :: qs) (F + d) (p :: t) =
        (multiplyLoop (q :: qs) F ((q - 1) :: t)).bind fun r =>
          ok ((List.range' p d).map (fun i => i :: t) ++ r) := by
  intro d
  induction d with
  | zero =>
    intro p F h
    have : p = q - 1 := by omega
    subst this
    cases multiplyLoop (q :: qs) F ((q - 1) :: t) <;> simp
  | succ d ih =>
    intro p F h
    have hp : p < q - 1 := by omega
    have : F + (d + 1) = (F + d) + 1 := by omega
    rw [this, multiplyLoop, advance_lt hq hp]
    simp only [bind_ok]
    rw [ih (p + 1) F (by omega)]
    cases multiplyLoop (q :: qs) F ((q - 1) :: t) <;> simp [List.range'_succ]

/-- at `q-1` the first digit wraps and the rest advances -/
theorem loop_wrap (q : Nat) (qs : List Nat) (hq : q ≠ 0) (t : List Nat) (F : Nat) :
    multiplyLoop (q :: qs) (F + 1) ((q - 1) :: t) =
      (advance qs t).bind fun r =>
        match r with
        | none => ok [(q - 1) :: t]
        | some t' => (multiplyLoop (q :: qs) F (0 :: t')).bind fun rest => ok (((q - 1) :: t) :: rest) := by
  rw [multiplyLoop, advance_last hq]
  cases advance qs t with
  | ok r => cases r <;> simp
  | error => simp
  | panic => simp

theorem range'_zero_append_last (q : Nat) (hq : q ≠ 0) (t : List Nat) :
    (List.range' 0 (q - 1)).map (fun i => i :: t) ++ [(q - 1) :: t] = (List.range q).map fun i => i :: t := by
  obtain ⟨n, rfl⟩ : ∃ n, q = n + 1 := ⟨q - 1, by omega⟩
  simp [List.range_succ, List.range_eq_range']

/-- the loop over `q :: qs` simulates the loop over `qs`: each tuple of the latter is expanded into
its `q` extensions -/
theorem loop_sim (q : Nat) (qs : List Nat) (hq : q ≠ 0) :
    ∀ (fuelT : Nat) (t : List Nat) (L : List (List Nat)), multiplyLoop qs fuelT t = ok L →
      ∀ F, q * L.length ≤ F →
        multiplyLoop (q :: qs) F (0 :: t) = ok (L.flatMap fun t' => (List.range q).map fun i => i :: t') := by
  intro fuelT
  induction fuelT with
  | zero => intro t L h; simp [multiplyLoop] at h
  | succ fuelT ih =>
    intro t L h F hF
    rw [multiplyLoop] at h
    cases hadv : advance qs t with
    | error => simp [hadv] at h
    | panic => simp [hadv] at h
    | ok r =>
      rw [hadv] at h
      simp only [bind_ok] at h
      cases r with
      | none =>
        simp at h; subst h
        simp only [List.length_singleton, Nat.mul_one] at hF
        obtain ⟨F', rfl⟩ : ∃ F', F = (F' + 1) + (q - 1) := ⟨F - q, by omega⟩
        rw [loop_cycle q qs hq t (q - 1) 0 (F' + 1) (by omega), loop_wrap q qs hq, hadv]
        simp [range'_zero_append_last q hq]
      | some t' =>
        simp only [bind_eq_ok] at h
        obtain ⟨L', hL', h⟩ := h
        simp at h; subst h
        simp only [List.length_cons, Nat.mul_add, Nat.mul_one] at hF
        obtain ⟨F', rfl⟩ : ∃ F', F = (F' + 1) + (q - 1) := ⟨F - q, by omega⟩
        rw [loop_cycle q qs hq t (q - 1) 0 (F' + 1) (by omega), loop_wrap q qs hq, hadv]
        simp only [bind_ok]
        rw [ih t' L' hL' F' (by omega)]
        simp only [bind_ok, List.flatMap_cons]
        rw [← range'_zero_append_last q hq t]
        simp

theorem length_cart (qs : List Nat) : (cart qs).length = product qs := by
  induction qs with
  | nil => rfl
  | cons q qs ih =>
    simp only [cart, product, ← ih]
    generalize cart qs = L
    induction L with
    | nil => simp
    | cons t L ihL => simp [List.flatMap_cons, ihL, Nat.mul_add, Nat.add_comm]

/-- `multiply(&quantities).collect()` is the cartesian product, first index fastest — provided no
quantity is 0 (then `quantities[i]-1` would underflow). -/
theorem multiply_eq_cart (qs : List Nat) (h : ∀ q ∈ qs, q ≠ 0) : multiply qs = ok (cart qs) := by
  induction qs with
  | nil => simp [multiply, multiplyLoop, product, advance, cart]
  | cons q qs ih =>
    have hq : q ≠ 0 := h q (List.mem_cons_self ..)
    have ih' := ih fun x hx => h x (List.mem_cons_of_mem _ hx)
    unfold multiply at ih' ⊢
    simp only [List.map_cons, product]
    rw [loop_sim q qs hq _ _ _ ih' _ (by rw [length_cart]; exact Nat.le_refl _)]
    rfl

/-! ### what is in `cart`, and in which order -/

theorem mem_cart {qs : List Nat} {t : List Nat} :
    t ∈ cart qs ↔ t.length = qs.length ∧ ∀ (i q : Nat), qs[i]? = some q → ∃ n : Nat, t[i]? = some n ∧ n < q := by
  induction qs generalizing t with
  | nil =>
    simp only [cart, List.mem_singleton, List.length_nil]
    constructor
    · rintro rfl; simp
    · rintro ⟨h, _⟩; exact List.length_eq_zero_iff.1 h
  | cons q qs ih =>
    simp only [cart, List.mem_flatMap, List.mem_map, List.mem_range]
    constructor
    · rintro ⟨t', ht', n, hn, rfl⟩
      obtain ⟨hl, hb⟩ := ih.1 ht'
      refine ⟨by simp [hl], ?_⟩
      intro i q' hi
      cases i with
      | zero => simp at hi; subst hi; exact ⟨n, by simp, hn⟩
      | succ i => simp at hi; simpa using hb i q' hi
    · rintro ⟨hl, hb⟩
      cases t with
      | nil => simp at hl
      | cons n t' =>
        refine ⟨t', ih.2 ⟨by simpa using hl, ?_⟩, n, ?_, rfl⟩
        · intro i q' hi
          simpa using hb (i + 1) q' (by simpa using hi)
        · obtain ⟨m, hm, hlt⟩ := hb 0 q (by simp)
          simp at hm; subst hm; exact hlt

/-- colexicographic order: compare the LAST differing index — the order an odometer with the first
index fastest runs through -/
def colexLt : List Nat → List Nat → Prop
  | a :: as, b :: bs => colexLt as bs ∨ (as = bs ∧ a < b)
  | _, _ => False

theorem pairwise_map_cons_range (q : Nat) (t : List Nat) :
    ((List.range q).map fun i => i :: t).Pairwise colexLt := by
  rw [List.pairwise_map]
  have : (List.range q).Pairwise (· < ·) := List.pairwise_lt_range
  exact this.imp fun h => Or.inr ⟨rfl, h⟩

/-- `cart` is strictly increasing in odometer order (in particular it lists each tuple once) -/
theorem pairwise_cart (qs : List Nat) : (cart qs).Pairwise colexLt := by
  induction qs with
  | nil => simp [cart]
  | cons q qs ih =>
    simp only [cart]
    generalize cart qs = L at ih
    induction L with
    | nil => simp
    | cons t L ihL =>
      rw [List.pairwise_cons] at ih
      simp only [List.flatMap_cons, List.pairwise_append]
      refine ⟨pairwise_map_cons_range q t, ihL ih.2, ?_⟩
      intro a ha b hb
      simp only [List.mem_map, List.mem_range] at ha
      obtain ⟨i, _, rfl⟩ := ha
      simp only [List.mem_flatMap, List.mem_map, List.mem_range] at hb
      obtain ⟨t', ht', j, _, rfl⟩ := hb
      exact Or.inl (ih.1 t' ht')

theorem colexLt_irrefl (a : List Nat) : ¬ colexLt a a := by
  induction a with
  | nil => simp [colexLt]
  | cons x xs ih => simp [colexLt, ih]

theorem nodup_cart (qs : List Nat) : (cart qs).Nodup :=
  (pairwise_cart qs).imp fun {a b} h (hab : a = b) => colexLt_irrefl a (by rw [← hab] at h; exact h)

end Convert
end TmVerif
