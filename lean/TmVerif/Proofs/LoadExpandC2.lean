/-
C13_spec, layer C2: the two passes of `convert`.  `from_table` holds, for every canonical trigger,
exactly the positions of the first-pass mappings with that trigger set; the mutation loop of
`adjust_repeats` is the specification's `applyRepeat`.
-/
import TmVerif.Proofs.LoadExpandC1
import TmVerif.Proofs.LoadSave

namespace TmVerif
namespace Convert
open Outcome Fancy Expand

/-- positions (counted from `s`) of the elements satisfying `q` -/
def indicesFrom (s : Nat) (q : TmVerif.Mapping → Bool) : List TmVerif.Mapping → List Nat
  | [] => []
  | m :: l => (if q m then [s] else []) ++ indicesFrom (s + 1) q l

theorem indicesFrom_append_singleton (q : TmVerif.Mapping → Bool) (x : TmVerif.Mapping) :
    ∀ (l : List TmVerif.Mapping) (s : Nat),
      indicesFrom s q (l ++ [x]) = indicesFrom s q l ++ (if q x then [s + l.length] else []) := by
  intro l
  induction l with
  | nil => intro s; simp [indicesFrom]
  | cons m l ih =>
    intro s
    simp only [List.cons_append, indicesFrom, ih (s + 1), List.length_cons, List.append_assoc]
    congr 2
    split <;> simp <;> omega

theorem indicesFrom_eq_nil {q : TmVerif.Mapping → Bool} :
    ∀ {l : List TmVerif.Mapping} {s : Nat}, indicesFrom s q l = [] ↔ l.any q = false := by
  intro l
  induction l with
  | nil => intro s; simp [indicesFrom]
  | cons m l ih =>
    intro s
    simp only [indicesFrom, List.append_eq_nil_iff, ih, List.any_cons, Bool.or_eq_false_iff]
    cases q m <;> simp

/-- `indicesFrom` only looks at what `q` looks at -/
theorem indicesFrom_congr {q : TmVerif.Mapping → Bool} (hq : ∀ m m' : TmVerif.Mapping, m.frm = m'.frm → q m = q m') :
    ∀ {l1 l2 : List TmVerif.Mapping} (s : Nat), l1.map (·.frm) = l2.map (·.frm) → indicesFrom s q l1 = indicesFrom s q l2
  | [], [], _, _ => rfl
  | [], _ :: _, _, h => by simp at h
  | _ :: _, [], _, h => by simp at h
  | m1 :: l1, m2 :: l2, s, h => by
    simp only [List.map_cons, List.cons.injEq] at h
    simp only [indicesFrom, hq m1 m2 h.1, indicesFrom_congr hq (s + 1) h.2]

/-- `from_table` is exact for the list `l`: for every canonical trigger it holds the positions of the
mappings of `l` with that trigger set, in order; no entry if there is none -/
def TableExact (table : FromTable) (l : List TmVerif.Mapping) : Prop :=
  ∀ fs, tableGet fs table =
    (match indicesFrom 0 (fun m => fromSet m.frm == fs) l with
     | [] => none
     | i :: is => some (i :: is))

theorem tableGet_tablePush (fs fs' : List Key) (i : Nat) (table : FromTable) :
    tableGet fs (tablePush fs' i table) =
      if fs' == fs then some ((tableGet fs table).getD [] ++ [i]) else tableGet fs table := by
  induction table with
  | nil =>
    simp only [tablePush, tableGet]
    split <;> simp
  | cons e rest ih =>
    obtain ⟨k, v⟩ := e
    simp only [tablePush]
    by_cases hk : k = fs'
    · subst hk
      simp only [beq_self_eq_true, if_true, tableGet]
      by_cases hf : k = fs
      · simp [hf]
      · have : (k == fs) = false := by simpa using hf
        simp [this]
    · have hk' : (k == fs') = false := by simpa using hk
      simp only [hk', Bool.false_eq_true, if_false, tableGet, ih]
      by_cases hf : k = fs
      · subst hf
        have : (fs' == k) = false := by simpa using Ne.symm hk
        simp [this]
      · have : (k == fs) = false := by simpa using hf
        simp [this]

theorem TableExact.push {table : FromTable} {l : List TmVerif.Mapping} (h : TableExact table l) (sm : TmVerif.Mapping) :
    TableExact (tablePush (fromSet sm.frm) l.length table) (l ++ [sm]) := by
  intro fs
  rw [tableGet_tablePush, indicesFrom_append_singleton, h fs]
  simp only [Nat.zero_add]
  by_cases hf : fromSet sm.frm = fs
  · simp only [hf, beq_self_eq_true, if_true]
    cases indicesFrom 0 (fun m => fromSet m.frm == fs) l <;> simp
  · have : (fromSet sm.frm == fs) = false := by simpa using hf
    simp only [this, Bool.false_eq_true, if_false, List.append_nil]

theorem pushAll_exact (sms : List TmVerif.Mapping) :
    ∀ (res : List TmVerif.Mapping) (table : FromTable), TableExact table res →
      TableExact (pushAll sms res table).2 (res ++ sms) := by
  induction sms with
  | nil => intro res table h; simpa [pushAll] using h
  | cons sm sms ih =>
    intro res table h
    simp only [pushAll]
    have := ih (res ++ [sm]) _ (h.push sm)
    simpa using this

theorem firstPass_exact (F : Fancy.Layout) :
    ∀ (fms : List Fancy.Mapping) (res : List TmVerif.Mapping) (table : FromTable) r,
      firstPass F fms res table = ok r → TableExact table res → TableExact r.2 r.1 := by
  intro fms
  induction fms with
  | nil => intro res table r h ht; simp [firstPass] at h; subst h; exact ht
  | cons fm fms ih =>
    intro res table r h ht
    simp only [firstPass, bind_eq_ok] at h
    obtain ⟨sms, _, h⟩ := h
    refine ih _ _ r h ?_
    rw [pushAll_fst]
    exact pushAll_exact sms res table ht

theorem firstPass_error (F : Fancy.Layout) :
    ∀ (fms : List Fancy.Mapping) (res : List TmVerif.Mapping) (table : FromTable),
      mapM (convertMapping F) fms = error → firstPass F fms res table = error := by
  intro fms
  induction fms with
  | nil => intro _ _ h; simp [mapM] at h
  | cons fm fms ih =>
    intro res table h
    simp only [firstPass]
    simp only [mapM] at h
    cases hc : convertMapping F fm with
    | error => rfl
    | panic => exact absurd hc (convertMapping_np F fm)
    | ok sms =>
      rw [hc] at h
      simp only [bind_ok] at h ⊢
      apply ih
      cases hm : mapM (convertMapping F) fms with
      | error => rfl
      | panic => rw [hm] at h; simp at h
      | ok ys => rw [hm] at h; simp at h

/-! ### the mutation loop -/

theorem setRepeatAt_append (rep : Repeat) (m : TmVerif.Mapping) (post : List TmVerif.Mapping) :
    ∀ (pre : List TmVerif.Mapping), setRepeatAt rep (pre ++ m :: post) pre.length = ok (pre ++ { m with rep := rep } :: post) := by
  intro pre
  induction pre with
  | nil => rfl
  | cons p pre ih => simp [setRepeatAt, ih]

theorem setRepeats_indices (rep : Repeat) (q : TmVerif.Mapping → Bool) (post : List TmVerif.Mapping) :
    ∀ (l pre : List TmVerif.Mapping),
      setRepeats rep (indicesFrom pre.length q l) (pre ++ l ++ post) =
        ok (pre ++ l.map (fun m => if q m then { m with rep := rep } else m) ++ post) := by
  intro l
  induction l with
  | nil => intro pre; simp [indicesFrom, setRepeats]
  | cons m l ih =>
    intro pre
    simp only [indicesFrom]
    by_cases hq : q m = true
    · simp only [hq, if_true, setRepeats, List.append_assoc, List.cons_append,
        setRepeatAt_append, bind_ok, List.map_cons]
      have := ih (pre ++ [{ m with rep := rep }])
      simp only [List.length_append, List.length_singleton, List.append_assoc, List.singleton_append] at this
      exact this
    · have hq' : q m = false := by simpa using hq
      simp only [hq', Bool.false_eq_true, if_false, List.nil_append, List.map_cons]
      have := ih (pre ++ [m])
      simp only [List.length_append, List.length_singleton, List.append_assoc, List.singleton_append] at this
      simpa using this

/-- what the second pass relies on: `cur` still starts with the `n` first-pass mappings (up to
their repeats) -/
structure CurInv (base cur : List TmVerif.Mapping) : Prop where
  len : base.length ≤ cur.length
  frm : (cur.take base.length).map (·.frm) = base.map (·.frm)

theorem applyRepeat_inv {base cur : List TmVerif.Mapping} (h : CurInv base cur) (e : List Key × Repeat) :
    CurInv base (applyRepeat base.length cur e) := by
  unfold applyRepeat
  have hlen := h.len
  have hl : (cur.take base.length).length = base.length := by
    rw [List.length_take]; omega
  split
  · constructor
    · rw [List.length_append, List.length_map, hl]; omega
    · rw [List.take_left' (by rw [List.length_map, hl])]
      rw [← h.frm, List.map_map]
      apply List.map_congr_left
      intro m _
      simp only [Function.comp]
      split <;> rfl
  · constructor
    · simp; have := h.len; omega
    · rw [List.take_append_of_le_length h.len]
      exact h.frm

/-- one iteration of the loop of `adjust_repeats` is `applyRepeat` -/
theorem adjustOne_eq {F : Fancy.Layout} {c : Comb} (hc : CombOK F c) {t : List Nat} (ht : TupleOK c t)
    (hamap : ∀ n, lookupAlias n c.aliasMap = lastIdx (slots c.modifiers) 0 n)
    {table : FromTable} {base cur : List TmVerif.Mapping} (htab : TableExact table base) (hinv : CurInv base cur)
    (s : RepeatOnlySingleMapping) (hm : c.modifiers = s.frm.modifiers) :
    adjustOne table c s cur t =
      (repeatOnlyOne s (pick c.found t)).bind fun e => ok (applyRepeat base.length cur e) := by
  unfold adjustOne repeatOnlyOne
  rw [fromModifiers_eq hc ht, singleRepeat_eq hc ht hamap, hm]
  simp only [bind_ok]
  cases outRepeat s.frm.modifiers (pick c.found t) s.rep with
  | error => rfl
  | panic => rfl
  | ok rep =>
    simp only [bind_ok]
    generalize htrig : trigger s.frm.modifiers (pick c.found t) ++ [s.frm.key] = trig
    have hq : ∀ m m' : TmVerif.Mapping, m.frm = m'.frm →
        (fun m : TmVerif.Mapping => fromSet m.frm == fromSet trig) m = (fun m => fromSet m.frm == fromSet trig) m' := by
      intro m m' h; simp only [h]
    have hidx : indicesFrom 0 (fun m => fromSet m.frm == fromSet trig) base =
        indicesFrom 0 (fun m => sameTrigger m.frm trig) (cur.take base.length) := by
      rw [indicesFrom_congr hq 0 hinv.frm.symm]
      congr 1
      funext m
      exact fromSet_beq m.frm trig
    rw [htab (fromSet trig), hidx]
    unfold applyRepeat
    cases hi : indicesFrom 0 (fun m => sameTrigger m.frm trig) (cur.take base.length) with
    | nil =>
      have := indicesFrom_eq_nil.1 hi
      simp only [this, Bool.false_eq_true, if_false]
    | cons i is =>
      have hany : (cur.take base.length).any (fun m => sameTrigger m.frm trig) = true := by
        cases h' : (cur.take base.length).any (fun m => sameTrigger m.frm trig) with
        | true => rfl
        | false => rw [indicesFrom_eq_nil.2 h'] at hi; cases hi
      simp only [hany, if_true]
      have := setRepeats_indices rep (fun m => sameTrigger m.frm trig) (cur.drop base.length) (cur.take base.length) []
      simp only [List.length_nil, List.nil_append, List.take_append_drop] at this
      rw [← hi, this]

theorem adjustLoop_eq {F : Fancy.Layout} {c : Comb} (hc : CombOK F c)
    (hamap : ∀ n, lookupAlias n c.aliasMap = lastIdx (slots c.modifiers) 0 n)
    {table : FromTable} {base : List TmVerif.Mapping} (htab : TableExact table base)
    (s : RepeatOnlySingleMapping) (hm : c.modifiers = s.frm.modifiers) :
    ∀ (tuples : List (List Nat)), (∀ t ∈ tuples, TupleOK c t) → ∀ cur, CurInv base cur →
      adjustLoop table c s tuples cur =
        (mapM (repeatOnlyOne s) (tuples.map (pick c.found))).bind fun es =>
          ok (es.foldl (applyRepeat base.length) cur) := by
  intro tuples
  induction tuples with
  | nil => intro _ cur _; rfl
  | cons t tuples ih =>
    intro hts cur hinv
    simp only [adjustLoop, List.map_cons, mapM]
    rw [adjustOne_eq hc (hts t (List.mem_cons_self ..)) hamap htab hinv s hm]
    cases repeatOnlyOne s (pick c.found t) with
    | error => rfl
    | panic => rfl
    | ok e =>
      simp only [bind_ok]
      rw [ih (fun t' ht' => hts t' (List.mem_cons_of_mem _ ht')) _ (applyRepeat_inv hinv e)]
      cases mapM (repeatOnlyOne s) (tuples.map (pick c.found)) <;> simp

theorem foldl_applyRepeat_inv {base : List TmVerif.Mapping} (es : List (List Key × Repeat)) :
    ∀ cur, CurInv base cur → CurInv base (es.foldl (applyRepeat base.length) cur) := by
  induction es with
  | nil => intro cur h; exact h
  | cons e es ih => intro cur h; exact ih _ (applyRepeat_inv h e)

theorem adjustRepeats_eq (F : Fancy.Layout) {table : FromTable} {base : List TmVerif.Mapping}
    (htab : TableExact table base) (fm : Fancy.Mapping) (cur : List TmVerif.Mapping) (hinv : CurInv base cur) :
    adjustRepeats F table cur fm =
      (repeatOnlyEntries F fm).bind fun es => ok (es.foldl (applyRepeat base.length) cur) := by
  cases fm with
  | single _ => rfl
  | alias _ => rfl
  | row _ => rfl
  | repeatOnly s =>
    simp only [adjustRepeats, repeatOnlyEntries]
    have hb := buildCombinations_eq F s.frm.modifiers
    cases hs : slotDefs F (slots s.frm.modifiers) with
    | none => rw [hs] at hb; simp [hb]
    | some ds =>
      rw [hs] at hb
      obtain ⟨amap, hb, hamap⟩ := hb
      have hc := (buildCombinations_ok hb).1
      simp only [hb, bind_ok, hc.multiply]
      rw [adjustLoop_eq hc hamap htab s rfl _ (fun t ht => hc.tupleOK ht) cur hinv]
      have : (cart (List.map List.length ds)).map (pick ds) = choices ds := (choices_eq_cart ds).symm
      simp only [this]

theorem secondPass_eq (F : Fancy.Layout) {table : FromTable} {base : List TmVerif.Mapping}
    (htab : TableExact table base) :
    ∀ (fms : List Fancy.Mapping) (cur : List TmVerif.Mapping), CurInv base cur →
      secondPass F table fms cur =
        (mapM (repeatOnlyEntries F) fms).bind fun ess => ok (ess.flatten.foldl (applyRepeat base.length) cur) := by
  intro fms
  induction fms with
  | nil => intro cur _; rfl
  | cons fm fms ih =>
    intro cur hinv
    simp only [secondPass, mapM]
    rw [adjustRepeats_eq F htab fm cur hinv]
    cases repeatOnlyEntries F fm with
    | error => rfl
    | panic => rfl
    | ok es =>
      simp only [bind_ok]
      rw [ih _ (foldl_applyRepeat_inv es cur hinv)]
      cases mapM (repeatOnlyEntries F) fms <;> simp [List.foldl_append]

theorem noRepeatedKeys_eq (res : List TmVerif.Mapping) :
    noRepeatedKeys res = res.all fun m => decide m.frm.Nodup && decide m.to.Nodup := by
  unfold noRepeatedKeys
  congr 1
  funext m
  have h : ∀ l : List Key, (!hasRepeatedKey l) = decide l.Nodup := by
    intro l
    cases hh : hasRepeatedKey l with
    | false => simp [hasRepeatedKey_eq_false.1 hh]
    | true =>
      have : ¬ l.Nodup := fun hn => by rw [hasRepeatedKey_eq_false.2 hn] at hh; cases hh
      simp [this]
  rw [h, h]

/-- C13_spec: the imperative conversion IS the declarative expansion -/
theorem convert_eq_expand (F : Fancy.Layout) : convert F = expand F := by
  unfold convert expand
  have hfun : convertMapping F = expandMapping F := funext (convertMapping_eq F)
  rw [← hfun]
  cases hg : mapM (convertMapping F) F with
  | panic => exact absurd hg (mapM_ne_panic _ fun m _ => convertMapping_np F m)
  | error => simp [firstPass_error F F [] [] hg]
  | ok groups =>
    obtain ⟨table, hfp⟩ := firstPass_of_mapM F F groups hg [] []
    have htab : TableExact table groups.flatten := by
      have := firstPass_exact F F [] [] _ hfp (by intro fs; rfl)
      simpa using this
    simp only [hfp, bind_ok, List.nil_append]
    rw [secondPass_eq F htab F groups.flatten ⟨Nat.le_refl _, by rw [List.take_length]⟩]
    cases mapM (repeatOnlyEntries F) F with
    | error => rfl
    | panic => rfl
    | ok ess => simp only [bind_ok, noRepeatedKeys_eq]

end Convert
end TmVerif
