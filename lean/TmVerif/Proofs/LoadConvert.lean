/-
Panic-freedom of `Model/Convert.lean`, and the invariants behind it: what `build_combinations`
returns (`CombOK`), what tuples the odometer yields (`TupleOK`), and that the indices stored in
`from_table` stay below `res.len()`.
-/
import TmVerif.Proofs.LoadMultiply

namespace TmVerif
namespace Convert
open Outcome Fancy

/-- number of alias modifiers = number of tuple slots `build_combinations` allocates -/
def aliasCount : List Modifier → Nat
  | [] => 0
  | Modifier.alias _ :: ms => aliasCount ms + 1
  | Modifier.key _ :: ms => aliasCount ms

/-- what `build_combinations` guarantees about its result -/
structure CombOK (F : Fancy.Layout) (c : Comb) : Prop where
  quant : c.quantities = c.found.map List.length
  nonempty : ∀ l ∈ c.found, l ≠ []
  amap : ∀ n i, lookupAlias n c.aliasMap = some i → i < c.found.length
  count : aliasCount c.modifiers = c.found.length
  inF : ∀ l ∈ c.found, ∀ a ∈ l, Mapping.alias a ∈ F

theorem getAlias_some {F : Fancy.Layout} {name : List Char} {l : List AliasMapping}
    (h : getAlias F name = some l) : l ≠ [] ∧ ∀ a ∈ l, Mapping.alias a ∈ F ∧ a.to.terminal = name := by
  unfold getAlias at h
  simp only at h
  split at h
  · cases h
  · rename_i hne
    simp at h; subst h
    refine ⟨by simpa using hne, ?_⟩
    intro a ha
    simp only [aliasMappingsFor, List.mem_filterMap] at ha
    obtain ⟨m, hm, hma⟩ := ha
    cases m with
    | alias a' =>
      simp only at hma
      split at hma
      · rename_i heq
        simp at hma; subst hma
        exact ⟨hm, by simpa using heq⟩
      · cases hma
    | single _ => cases hma
    | row _ => cases hma
    | repeatOnly _ => cases hma

theorem buildLoop_np (F : Fancy.Layout) :
    ∀ ms qs found amap, buildLoop F ms qs found amap ≠ panic := by
  intro ms
  induction ms with
  | nil => intros; simp [buildLoop]
  | cons m ms ih =>
    intro qs found amap
    cases m with
    | key k => simp only [buildLoop]; exact ih _ _ _
    | alias n =>
      simp only [buildLoop]
      exact bind_ne_panic (ofOption_ne_panic _) fun _ _ => ih _ _ _

theorem buildLoop_ok (F : Fancy.Layout) :
    ∀ ms qs found amap r, buildLoop F ms qs found amap = ok r →
      qs = found.map List.length → (∀ l ∈ found, l ≠ []) →
      (∀ n i, lookupAlias n amap = some i → i < found.length) →
      (∀ l ∈ found, ∀ a ∈ l, Mapping.alias a ∈ F) →
      r.1 = r.2.1.map List.length ∧ (∀ l ∈ r.2.1, l ≠ []) ∧
      (∀ n i, lookupAlias n r.2.2 = some i → i < r.2.1.length) ∧
      r.2.1.length = found.length + aliasCount ms ∧
      (∀ l ∈ r.2.1, ∀ a ∈ l, Mapping.alias a ∈ F) := by
  intro ms
  induction ms with
  | nil =>
    intro qs found amap r h hq hne ham hin
    simp [buildLoop] at h; subst h
    exact ⟨hq, hne, ham, by simp [aliasCount], hin⟩
  | cons m ms ih =>
    intro qs found amap r h hq hne ham hin
    cases m with
    | key k =>
      simp only [buildLoop] at h
      simpa [aliasCount] using ih qs found amap r h hq hne ham hin
    | alias n =>
      simp only [buildLoop, bind_eq_ok, ofOption_eq_ok] at h
      obtain ⟨l, hl, h⟩ := h
      obtain ⟨hlne, hlin⟩ := getAlias_some hl
      have := ih _ _ _ r h (by simp [hq]) (by
          intro l' hl'; rcases List.mem_append.1 hl' with h' | h'
          · exact hne l' h'
          · simp at h'; subst h'; exact hlne) (by
          intro n' i hlook
          simp only [lookupAlias] at hlook
          split at hlook
          · simp at hlook; subst hlook; simp [hq]
          · have := ham n' i hlook; simp; omega) (by
          intro l' hl' a ha; rcases List.mem_append.1 hl' with h' | h'
          · exact hin l' h' a ha
          · simp at h'; subst h'; exact (hlin a ha).1)
      obtain ⟨h1, h2, h3, h4, h5⟩ := this
      refine ⟨h1, h2, h3, ?_, h5⟩
      simp [aliasCount] at h4 ⊢; omega

theorem buildCombinations_np (F : Fancy.Layout) (ms : List Modifier) : buildCombinations F ms ≠ panic := by
  unfold buildCombinations
  exact bind_ne_panic (buildLoop_np F _ _ _ _) fun _ _ => ok_ne_panic _

theorem buildCombinations_ok {F : Fancy.Layout} {ms : List Modifier} {c : Comb}
    (h : buildCombinations F ms = ok c) : CombOK F c ∧ c.modifiers = ms := by
  simp only [buildCombinations, bind_eq_ok] at h
  obtain ⟨r, hr, h⟩ := h
  simp at h; subst h
  obtain ⟨h1, h2, h3, h4, h5⟩ := buildLoop_ok F ms [] [] [] r hr rfl (by simp) (by simp [lookupAlias]) (by simp)
  exact ⟨⟨h1, h2, h3, by simpa using h4.symm, h5⟩, rfl⟩

/-- a tuple addresses an existing definition of every alias slot -/
def TupleOK (c : Comb) (t : List Nat) : Prop :=
  ∀ (i : Nat) (l : List AliasMapping), c.found[i]? = some l → ∃ n : Nat, t[i]? = some n ∧ n < l.length

theorem CombOK.quant_ne_zero {F : Fancy.Layout} {c : Comb} (hc : CombOK F c) : ∀ q ∈ c.quantities, q ≠ 0 := by
  intro q hq
  rw [hc.quant, List.mem_map] at hq
  obtain ⟨l, hl, rfl⟩ := hq
  have := hc.nonempty l hl
  intro h0
  exact this (List.length_eq_zero_iff.1 h0)

theorem CombOK.multiply {F : Fancy.Layout} {c : Comb} (hc : CombOK F c) :
    multiply c.quantities = ok (cart c.quantities) := multiply_eq_cart _ hc.quant_ne_zero

theorem CombOK.tupleOK {F : Fancy.Layout} {c : Comb} (hc : CombOK F c) {t : List Nat}
    (ht : t ∈ cart c.quantities) : TupleOK c t := by
  intro i l hl
  have := (mem_cart.1 ht).2 i l.length (by rw [hc.quant]; simp [hl])
  exact this

/-- `alias_found_mappings[i][tuple[i]]` exists -/
theorem chosenKeys_ok {c : Comb} {t : List Nat} (ht : TupleOK c t) {i : Nat} (hi : i < c.found.length) :
    ∃ l am, c.found[i]? = some l ∧ am ∈ l ∧ chosenKeys c t i = ok am.frm.keys := by
  have hl : c.found[i]? = some c.found[i] := List.getElem?_eq_getElem hi
  obtain ⟨n, hn, hlt⟩ := ht i _ hl
  refine ⟨c.found[i], (c.found[i])[n], hl, List.getElem_mem _, ?_⟩
  simp [chosenKeys, hl, hn, List.getElem?_eq_getElem hlt]

theorem fromModifiersLoop_np {c : Comb} {t : List Nat} (ht : TupleOK c t) :
    ∀ ms j, j + aliasCount ms ≤ c.found.length → fromModifiersLoop c t ms j ≠ panic := by
  intro ms
  induction ms with
  | nil => intros; simp [fromModifiersLoop]
  | cons m ms ih =>
    intro j hj
    cases m with
    | key k =>
      simp only [fromModifiersLoop]
      exact bind_ne_panic (ih j (by simpa [aliasCount] using hj)) fun _ _ => ok_ne_panic _
    | alias n =>
      simp only [aliasCount] at hj
      obtain ⟨l, am, _, _, hck⟩ := chosenKeys_ok ht (i := j) (by omega)
      simp only [fromModifiersLoop, hck, bind_ok]
      exact bind_ne_panic (ih (j + 1) (by omega)) fun _ _ => ok_ne_panic _

theorem fromModifiers_np {F : Fancy.Layout} {c : Comb} (hc : CombOK F c) {t : List Nat} (ht : TupleOK c t) :
    fromModifiers c t ≠ panic :=
  fromModifiersLoop_np ht _ 0 (by rw [hc.count]; omega)

theorem reifyModifiers_np {F : Fancy.Layout} {c : Comb} (hc : CombOK F c) {t : List Nat} (ht : TupleOK c t) :
    ∀ ms, reifyModifiers c t ms ≠ panic := by
  intro ms
  induction ms with
  | nil => simp [reifyModifiers]
  | cons m ms ih =>
    cases m with
    | key k =>
      simp only [reifyModifiers]
      exact bind_ne_panic ih fun _ _ => ok_ne_panic _
    | alias n =>
      simp only [reifyModifiers]
      apply bind_ne_panic (ofOption_ne_panic _)
      intro i hi
      obtain ⟨l, am, _, _, hck⟩ := chosenKeys_ok ht (i := i) (hc.amap n i (ofOption_eq_ok.1 hi))
      simp only [hck, bind_ok]
      exact bind_ne_panic ih fun _ _ => ok_ne_panic _

theorem translateSingleToKeys_np {F : Fancy.Layout} {c : Comb} (hc : CombOK F c) {t : List Nat} (ht : TupleOK c t)
    (to : SingleToKeys) : translateSingleToKeys c t to ≠ panic := by
  unfold translateSingleToKeys
  split
  · exact bind_ne_panic (reifyModifiers_np hc ht _) fun _ _ => ok_ne_panic _
  · simp

theorem singleRepeat_np {F : Fancy.Layout} {c : Comb} (hc : CombOK F c) {t : List Nat} (ht : TupleOK c t)
    (r : SingleRepeat) : singleRepeat c t r ≠ panic := by
  cases r with
  | normal => simp [singleRepeat]
  | disabled => simp [singleRepeat]
  | special keys d i =>
    simp only [singleRepeat]
    exact bind_ne_panic (translateSingleToKeys_np hc ht _) fun _ _ => ok_ne_panic _

theorem convertSingleOne_np {F : Fancy.Layout} {c : Comb} (hc : CombOK F c) {t : List Nat} (ht : TupleOK c t)
    (s : SingleMapping) : convertSingleOne c s t ≠ panic := by
  unfold convertSingleOne
  refine bind_ne_panic (fromModifiers_np hc ht) fun _ _ => ?_
  refine bind_ne_panic (translateSingleToKeys_np hc ht _) fun _ _ => ?_
  refine bind_ne_panic (singleRepeat_np hc ht _) fun _ _ => ?_
  exact bind_ne_panic (reifyModifiers_np hc ht _) fun _ _ => ok_ne_panic _

theorem convertSingle_np (F : Fancy.Layout) (s : SingleMapping) : convertSingle F s ≠ panic := by
  unfold convertSingle
  refine bind_ne_panic (buildCombinations_np F _) fun c hc => ?_
  have hc := (buildCombinations_ok hc).1
  rw [hc.multiply]
  simp only [bind_ok]
  exact mapM_ne_panic _ fun t ht => convertSingleOne_np hc (hc.tupleOK ht) s

theorem convertRowTo_np (rs : Bool) (ms : List Key) (ts : List Char) (i : Nat) : convertRowTo rs ms ts i ≠ panic := by
  unfold convertRowTo
  split
  · simp
  · rename_i h
    have hi : i < ts.length := by omega
    simp only [List.getElem?_eq_getElem hi, unwrapO_some, bind_ok]
    repeat np1

theorem rowRepeatTemplate_np {F : Fancy.Layout} {c : Comb} (hc : CombOK F c) {t : List Nat} (ht : TupleOK c t)
    (r : RowMapping) : rowRepeatTemplate c t r ≠ panic := by
  unfold rowRepeatTemplate
  split
  · simp
  · simp
  · split
    · simp
    · exact bind_ne_panic (reifyModifiers_np hc ht _) fun _ _ => ok_ne_panic _

theorem rowRepeatAt_np (rs : Bool) (tpl : RowRepeatTemplate) (i : Nat) : rowRepeatAt rs tpl i ≠ panic := by
  unfold rowRepeatAt
  split
  · simp
  · simp
  · refine bind_ne_panic (convertRowTo_np _ _ _ _) fun r _ => ?_
    cases r <;> simp

theorem rowCharLoop_np {F : Fancy.Layout} {c : Comb} (hc : CombOK F c) {t : List Nat} (ht : TupleOK c t)
    (r : RowMapping) (fm tm : List Key) (tpl : RowRepeatTemplate) (phys : List Key) (rs : Bool) :
    ∀ n i, rowCharLoop c t r fm tm tpl phys rs n i ≠ panic := by
  intro n
  induction n with
  | zero => intro i; simp [rowCharLoop]
  | succ n ih =>
    intro i
    simp only [rowCharLoop]
    split
    · simp
    · rename_i h
      have hi : i < phys.length := by omega
      refine bind_ne_panic (convertRowTo_np _ _ _ _) fun to _ => ?_
      cases to with
      | none => exact ih _
      | some to =>
        simp only [List.getElem?_eq_getElem hi, unwrapO_some, bind_ok]
        refine bind_ne_panic (rowRepeatAt_np _ _ _) fun _ _ => ?_
        refine bind_ne_panic (reifyModifiers_np hc ht _) fun _ _ => ?_
        exact bind_ne_panic (ih _) fun _ _ => ok_ne_panic _

theorem convertRowOne_np {F : Fancy.Layout} {c : Comb} (hc : CombOK F c) {t : List Nat} (ht : TupleOK c t)
    (r : RowMapping) : convertRowOne c r t ≠ panic := by
  unfold convertRowOne
  refine bind_ne_panic (fromModifiers_np hc ht) fun _ _ => ?_
  refine bind_ne_panic (reifyModifiers_np hc ht _) fun _ _ => ?_
  refine bind_ne_panic (rowRepeatTemplate_np hc ht _) fun _ _ => ?_
  refine bind_ne_panic (ofOption_ne_panic _) fun _ _ => ?_
  exact rowCharLoop_np hc ht _ _ _ _ _ _ _ _

theorem convertRow_np (F : Fancy.Layout) (r : RowMapping) : convertRow F r ≠ panic := by
  unfold convertRow
  refine bind_ne_panic (buildCombinations_np F _) fun c hc => ?_
  have hc := (buildCombinations_ok hc).1
  rw [hc.multiply]
  simp only [bind_ok]
  exact bind_ne_panic (mapM_ne_panic _ fun t ht => convertRowOne_np hc (hc.tupleOK ht) r) fun _ _ => ok_ne_panic _

theorem convertMapping_np (F : Fancy.Layout) (m : Fancy.Mapping) : convertMapping F m ≠ panic := by
  cases m with
  | alias a => simp [convertMapping]
  | single s => exact convertSingle_np F s
  | row r => exact convertRow_np F r
  | repeatOnly s => simp [convertMapping]

/-! ## the two passes of `convert` -/

/-- every index stored in `from_table` is below `n` -/
def TableOK (table : FromTable) (n : Nat) : Prop := ∀ e ∈ table, ∀ i ∈ e.2, i < n

theorem TableOK.mono {table : FromTable} {n m : Nat} (h : TableOK table n) (hnm : n ≤ m) : TableOK table m :=
  fun e he i hi => Nat.lt_of_lt_of_le (h e he i hi) hnm

theorem tablePush_ok {fs : List Key} {n : Nat} {table : FromTable} (h : TableOK table n) :
    TableOK (tablePush fs n table) (n + 1) := by
  induction table with
  | nil =>
    intro e he i hi
    simp [tablePush] at he; subst he
    simp at hi; omega
  | cons e0 rest ih =>
    obtain ⟨k, v⟩ := e0
    have hrest : TableOK rest n := fun e he => h e (List.mem_cons_of_mem _ he)
    have h0 : ∀ i ∈ v, i < n := h (k, v) (List.mem_cons_self ..)
    simp only [tablePush]
    split
    · intro e he i hi
      rcases List.mem_cons.1 he with rfl | he
      · simp at hi
        rcases hi with hi | hi
        · have := h0 i hi; omega
        · omega
      · have := hrest e he i hi; omega
    · intro e he i hi
      rcases List.mem_cons.1 he with rfl | he
      · have := h0 i hi; omega
      · exact ih hrest e he i hi

theorem tableGet_mem {fs : List Key} {table : FromTable} {is : List Nat} (h : tableGet fs table = some is) :
    ∃ e ∈ table, e.2 = is := by
  induction table with
  | nil => simp [tableGet] at h
  | cons e0 rest ih =>
    obtain ⟨k, v⟩ := e0
    simp only [tableGet] at h
    split at h
    · simp at h; exact ⟨(k, v), List.mem_cons_self .., h⟩
    · obtain ⟨e, he, hes⟩ := ih h
      exact ⟨e, List.mem_cons_of_mem _ he, hes⟩

theorem pushAll_spec (sms : List TmVerif.Mapping) :
    ∀ (res : List TmVerif.Mapping) (table : FromTable), TableOK table res.length →
      (pushAll sms res table).1 = res ++ sms ∧ TableOK (pushAll sms res table).2 (res.length + sms.length) := by
  induction sms with
  | nil => intro res table h; simp [pushAll, h]
  | cons sm sms ih =>
    intro res table h
    simp only [pushAll]
    obtain ⟨h1, h2⟩ := ih (res ++ [sm]) (tablePush (fromSet sm.frm) res.length table)
      (by simpa using tablePush_ok h)
    refine ⟨by simp [h1], ?_⟩
    simpa [Nat.add_assoc, Nat.add_comm 1] using h2

theorem firstPass_np (F : Fancy.Layout) :
    ∀ (fms : List Fancy.Mapping) (res : List TmVerif.Mapping) (table : FromTable), firstPass F fms res table ≠ panic := by
  intro fms
  induction fms with
  | nil => intros; simp [firstPass]
  | cons fm fms ih =>
    intro res table
    simp only [firstPass]
    exact bind_ne_panic (convertMapping_np F fm) fun _ _ => ih _ _

/-- the first pass appends the converted mappings of each source mapping, in order, and stores
only indices of `res` in the table -/
theorem firstPass_spec (F : Fancy.Layout) :
    ∀ (fms : List Fancy.Mapping) (res : List TmVerif.Mapping) (table : FromTable) r,
      firstPass F fms res table = ok r → TableOK table res.length →
      TableOK r.2 r.1.length ∧
      ∃ groups, mapM (convertMapping F) fms = ok groups ∧ r.1 = res ++ groups.flatten := by
  intro fms
  induction fms with
  | nil =>
    intro res table r h ht
    simp [firstPass] at h; subst h
    exact ⟨ht, [], rfl, by simp⟩
  | cons fm fms ih =>
    intro res table r h ht
    simp only [firstPass, bind_eq_ok] at h
    obtain ⟨sms, hsms, h⟩ := h
    obtain ⟨hp1, hp2⟩ := pushAll_spec sms res table ht
    obtain ⟨h1, groups, hg, h2⟩ := ih _ _ r h (by rw [hp1]; simpa using hp2)
    refine ⟨h1, sms :: groups, by simp [mapM, hsms, hg], ?_⟩
    rw [h2, hp1]; simp

theorem setRepeatAt_ok (rep : Repeat) :
    ∀ (res : List TmVerif.Mapping) (i : Nat), i < res.length →
      ∃ res', setRepeatAt rep res i = ok res' ∧ res'.length = res.length ∧
        ∀ m' ∈ res', ∃ m ∈ res, m' = m ∨ m' = { m with rep := rep } := by
  intro res
  induction res with
  | nil => intro i h; simp at h
  | cons m ms ih =>
    intro i h
    cases i with
    | zero =>
      refine ⟨_, rfl, by simp, ?_⟩
      intro m' hm'
      rcases List.mem_cons.1 hm' with rfl | hm'
      · exact ⟨m, List.mem_cons_self .., Or.inr rfl⟩
      · exact ⟨m', List.mem_cons_of_mem _ hm', Or.inl rfl⟩
    | succ i =>
      obtain ⟨res', h1, h2, h3⟩ := ih i (by simpa using h)
      refine ⟨m :: res', by simp [setRepeatAt, h1], by simp [h2], ?_⟩
      intro m' hm'
      rcases List.mem_cons.1 hm' with rfl | hm'
      · exact ⟨m', List.mem_cons_self .., Or.inl rfl⟩
      · obtain ⟨m0, hm0, h⟩ := h3 m' hm'
        exact ⟨m0, List.mem_cons_of_mem _ hm0, h⟩

theorem setRepeats_ok (rep : Repeat) :
    ∀ (is : List Nat) (res : List TmVerif.Mapping), (∀ i ∈ is, i < res.length) →
      ∃ res', setRepeats rep is res = ok res' ∧ res'.length = res.length ∧
        ∀ m' ∈ res', ∃ m ∈ res, m' = m ∨ m' = { m with rep := rep } := by
  intro is
  induction is with
  | nil => intro res _; exact ⟨res, rfl, rfl, fun m hm => ⟨m, hm, Or.inl rfl⟩⟩
  | cons i is ih =>
    intro res h
    obtain ⟨res1, h1, hl1, hm1⟩ := setRepeatAt_ok rep res i (h i (List.mem_cons_self ..))
    obtain ⟨res2, h2, hl2, hm2⟩ := ih res1 (fun j hj => by rw [hl1]; exact h j (List.mem_cons_of_mem _ hj))
    refine ⟨res2, by simp [setRepeats, h1, h2], by omega, ?_⟩
    intro m' hm'
    obtain ⟨ma, hma, ha⟩ := hm2 m' hm'
    obtain ⟨mb, hmb, hb⟩ := hm1 ma hma
    refine ⟨mb, hmb, ?_⟩
    rcases ha with rfl | rfl <;> rcases hb with rfl | rfl <;> simp

/-- What one iteration of the loop of `adjust_repeats` does to `res`: it never panics (given the
table invariant), never shrinks `res`, and every mapping afterwards is an old one, an old one with
the repeat replaced by `rep`, or the identity mapping of the trigger. -/
theorem adjustOne_spec {F : Fancy.Layout} {c : Comb} (hc : CombOK F c) {t : List Nat} (ht : TupleOK c t)
    (table : FromTable) (s : RepeatOnlySingleMapping) (res : List TmVerif.Mapping)
    (htab : TableOK table res.length) :
    adjustOne table c s res t ≠ panic ∧
    ∀ res', adjustOne table c s res t = ok res' →
      res.length ≤ res'.length ∧
      ∃ fm rep, fromModifiers c t = ok fm ∧ singleRepeat c t s.rep = ok rep ∧
        ∀ m' ∈ res', (∃ m ∈ res, m' = m ∨ m' = { m with rep := rep }) ∨
          m' = ⟨fm ++ [s.frm.key], fm ++ [s.frm.key], rep, []⟩ := by
  unfold adjustOne
  cases hfm : fromModifiers c t with
  | panic => exact absurd hfm (fromModifiers_np hc ht)
  | error => simp
  | ok fm =>
    cases hrep : singleRepeat c t s.rep with
    | panic => exact absurd hrep (singleRepeat_np hc ht _)
    | error => simp
    | ok rep =>
      simp only [bind_ok]
      cases hget : tableGet (fromSet (fm ++ [s.frm.key])) table with
      | none =>
        simp only
        refine ⟨ok_ne_panic _, ?_⟩
        intro res' h
        simp at h; subst h
        refine ⟨by simp, fm, rep, rfl, rfl, ?_⟩
        intro m' hm'
        rcases List.mem_append.1 hm' with h | h
        · exact Or.inl ⟨m', h, Or.inl rfl⟩
        · simp at h; exact Or.inr h
      | some is =>
        simp only
        obtain ⟨e, he, hes⟩ := tableGet_mem hget
        obtain ⟨res1, h1, hl1, hm1⟩ := setRepeats_ok rep is res (fun i hi => htab e he i (hes ▸ hi))
        rw [h1]
        refine ⟨ok_ne_panic _, ?_⟩
        intro res' h
        simp at h; subst h
        exact ⟨by omega, fm, rep, rfl, rfl, fun m' hm' => Or.inl (hm1 m' hm')⟩

/-- the invariant of the second pass, for a property `P` of basic mappings that survives replacing
the repeat by one satisfying `Q` -/
structure PassInv (P : TmVerif.Mapping → Prop) (table : FromTable) (res : List TmVerif.Mapping) : Prop where
  tab : TableOK table res.length
  all : ∀ m ∈ res, P m

theorem adjustLoop_spec {F : Fancy.Layout} {c : Comb} (hc : CombOK F c) (table : FromTable)
    (s : RepeatOnlySingleMapping) (P : TmVerif.Mapping → Prop) (Q : Repeat → Prop)
    (hset : ∀ m r, P m → Q r → P { m with rep := r })
    (hadj : ∀ t ∈ cart c.quantities, ∀ fm rep, fromModifiers c t = ok fm → singleRepeat c t s.rep = ok rep →
      Q rep ∧ P ⟨fm ++ [s.frm.key], fm ++ [s.frm.key], rep, []⟩) :
    ∀ (tuples : List (List Nat)), (∀ t ∈ tuples, t ∈ cart c.quantities) →
      ∀ res, PassInv P table res →
        adjustLoop table c s tuples res ≠ panic ∧
        ∀ res', adjustLoop table c s tuples res = ok res' → PassInv P table res' := by
  intro tuples
  induction tuples with
  | nil =>
    intro _ res hinv
    refine ⟨by simp [adjustLoop], ?_⟩
    intro res' h; simp [adjustLoop] at h; subst h; exact hinv
  | cons t tuples ih =>
    intro hts res hinv
    have htc := hts t (List.mem_cons_self ..)
    obtain ⟨hnp, hspec⟩ := adjustOne_spec hc (hc.tupleOK htc) table s res hinv.tab
    have hstep : ∀ res1, adjustOne table c s res t = ok res1 → PassInv P table res1 := by
      intro res1 h1
      obtain ⟨hlen, fm, rep, hfm, hrep, hmem⟩ := hspec res1 h1
      obtain ⟨hQ, hP⟩ := hadj t htc fm rep hfm hrep
      refine ⟨hinv.tab.mono hlen, ?_⟩
      intro m' hm'
      rcases hmem m' hm' with ⟨m, hm, rfl | rfl⟩ | rfl
      · exact hinv.all _ hm
      · exact hset m rep (hinv.all m hm) hQ
      · exact hP
    simp only [adjustLoop]
    constructor
    · refine bind_ne_panic hnp fun res1 h1 => ?_
      exact (ih (fun t' ht' => hts t' (List.mem_cons_of_mem _ ht')) res1 (hstep res1 h1)).1
    · intro res' h
      obtain ⟨res1, h1, h2⟩ := bind_eq_ok.1 h
      exact (ih (fun t' ht' => hts t' (List.mem_cons_of_mem _ ht')) res1 (hstep res1 h1)).2 res' h2

theorem secondPass_spec (F : Fancy.Layout) (table : FromTable) (P : TmVerif.Mapping → Prop) (Q : Repeat → Prop)
    (hset : ∀ m r, P m → Q r → P { m with rep := r })
    (hadj : ∀ s, Mapping.repeatOnly s ∈ F → ∀ c, buildCombinations F s.frm.modifiers = ok c →
      ∀ t ∈ cart c.quantities, ∀ fm rep, fromModifiers c t = ok fm → singleRepeat c t s.rep = ok rep →
        Q rep ∧ P ⟨fm ++ [s.frm.key], fm ++ [s.frm.key], rep, []⟩) :
    ∀ (fms : List Fancy.Mapping), (∀ fm ∈ fms, fm ∈ F) → ∀ res, PassInv P table res →
      secondPass F table fms res ≠ panic ∧
      ∀ res', secondPass F table fms res = ok res' → PassInv P table res' := by
  intro fms
  induction fms with
  | nil =>
    intro _ res hinv
    refine ⟨by simp [secondPass], ?_⟩
    intro res' h; simp [secondPass] at h; subst h; exact hinv
  | cons fm fms ih =>
    intro hF res hinv
    have hfm := hF fm (List.mem_cons_self ..)
    have hrest := fun x hx => hF x (List.mem_cons_of_mem _ hx)
    have hone : adjustRepeats F table res fm ≠ panic ∧
        ∀ res1, adjustRepeats F table res fm = ok res1 → PassInv P table res1 := by
      cases fm with
      | repeatOnly s =>
        simp only [adjustRepeats]
        cases hb : buildCombinations F s.frm.modifiers with
        | panic => exact absurd hb (buildCombinations_np F _)
        | error => simp
        | ok c =>
          have hc := (buildCombinations_ok hb).1
          simp only [bind_ok, hc.multiply]
          exact adjustLoop_spec hc table s P Q hset (hadj s hfm c hb) _ (fun _ h => h) res hinv
      | single _ => simp only [adjustRepeats]; exact ⟨ok_ne_panic _, fun r h => by simp at h; subst h; exact hinv⟩
      | alias _ => simp only [adjustRepeats]; exact ⟨ok_ne_panic _, fun r h => by simp at h; subst h; exact hinv⟩
      | row _ => simp only [adjustRepeats]; exact ⟨ok_ne_panic _, fun r h => by simp at h; subst h; exact hinv⟩
    simp only [secondPass]
    constructor
    · exact bind_ne_panic hone.1 fun res1 h1 => (ih hrest res1 (hone.2 res1 h1)).1
    · intro res' h
      obtain ⟨res1, h1, h2⟩ := bind_eq_ok.1 h
      exact (ih hrest res1 (hone.2 res1 h1)).2 res' h2

/-- `convert` never panics — for every fancy layout, parse-produced or not -/
theorem convert_np (F : Fancy.Layout) : convert F ≠ panic := by
  unfold convert
  refine bind_ne_panic (firstPass_np F _ _ _) fun r hr => ?_
  obtain ⟨htab, _⟩ := firstPass_spec F F [] [] r hr (by intro e he; cases he)
  have := secondPass_spec F r.2 (fun _ => True) (fun _ => True) (fun _ _ _ _ => trivial)
    (fun _ _ _ _ _ _ _ _ _ _ => ⟨trivial, trivial⟩) F (fun _ h => h) r.1 ⟨htab, fun _ _ => trivial⟩
  refine bind_ne_panic this.1 fun res _ => ?_
  split <;> simp

/-- A property `P` of basic mappings holds of everything `convert` returns if (1) it holds of the
mappings each source mapping converts to, (2) it holds of the identity mappings the repeat-only
pass adds, and (3) it survives the repeat-only pass replacing a repeat (by one satisfying `Q`). -/
theorem convert_all {F : Fancy.Layout} (P : TmVerif.Mapping → Prop) (Q : Repeat → Prop)
    (hset : ∀ m r, P m → Q r → P { m with rep := r })
    (hconv : ∀ fm ∈ F, ∀ sms, convertMapping F fm = ok sms → ∀ m ∈ sms, P m)
    (hadj : ∀ s, Mapping.repeatOnly s ∈ F → ∀ c, buildCombinations F s.frm.modifiers = ok c →
      ∀ t ∈ cart c.quantities, ∀ fm rep, fromModifiers c t = ok fm → singleRepeat c t s.rep = ok rep →
        Q rep ∧ P ⟨fm ++ [s.frm.key], fm ++ [s.frm.key], rep, []⟩)
    {L : TmVerif.Layout} (h : convert F = ok L) : (∀ m ∈ L, P m) ∧ noRepeatedKeys L = true := by
  unfold convert at h
  obtain ⟨r, hr, h⟩ := bind_eq_ok.1 h
  obtain ⟨res, hres, h⟩ := bind_eq_ok.1 h
  obtain ⟨htab, groups, hg, hr1⟩ := firstPass_spec F F [] [] r hr (by intro e he; cases he)
  have hall : ∀ m ∈ r.1, P m := by
    intro m hm
    rw [hr1, List.nil_append, List.mem_flatten] at hm
    obtain ⟨sms, hsms, hm⟩ := hm
    obtain ⟨fm, hfm, hc⟩ := mapM_mem hg hsms
    exact hconv fm hfm sms hc m hm
  have := (secondPass_spec F r.2 P Q hset hadj F (fun _ h => h) r.1 ⟨htab, hall⟩).2 res hres
  split at h
  · rename_i hno
    simp at h; subst h
    exact ⟨this.all, hno⟩
  · cases h

end Convert
end TmVerif
