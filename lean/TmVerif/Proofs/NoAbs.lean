/-
Layouts without absorbing mappings: `mapped_absorbed_keys` stays empty, `absorbing_trigger` stays
`None`, `release_absorbed_keys` is a no-op and the mapper's input list is exactly the set of
physically held keys (over histories of key events).
-/
import TmVerif.Proofs.Fired

namespace TmVerif

/-- no mapping of the layout has an absorbing list -/
def NoAbs (L : Layout) : Prop := ∀ m, m ∈ L → m.absorbing = []

/-- nothing absorbed at the moment -/
structure Clean (s : State) : Prop where
  abs : s.absorbed = []
  trig : s.absTrig = none

theorem releaseAbsorbedKeys_clean {s : State} (h : Clean s) : releaseAbsorbedKeys s = (s, []) := by
  obtain ⟨inp, act, pass, mapped, absd, at_, rt⟩ := s
  have h1 := h.abs; have h2 := h.trig
  simp only at h1 h2
  subst h1; subst h2
  rfl

theorem releaseActionMappings_clean {s : State} (h : Clean s) : Clean (releaseActionMappings s).1 := by
  have f := releaseActionMappings_frame s
  exact ⟨by rw [f.2.2.1]; exact h.abs, by rw [f.2.2.2.1]; exact h.trig⟩

/-- no pass-through key of the state after a consumption is mentioned by `m` -/
theorem afterConsume_clear (s : State) (m : Mapping) :
    ∀ x, x ∈ (afterConsume s m).pass → x ∉ m.frm ∧ x ∉ m.to :=
  fun x hx => (afterConsume_pass_clear s m x hx).2

theorem ramIf_clean {s : State} (m : Mapping) (h : Clean s) : Clean (ramIf m s).1 := by
  have f := ramIf_frame m s
  exact ⟨by rw [f.2.2.1]; exact h.abs, by rw [f.2.2.2.1]; exact h.trig⟩

theorem ramIf_pass_sub (m : Mapping) (s : State) (x : Key) (hx : x ∈ (ramIf m s).1.pass) : x ∈ s.pass := by
  cases ha : producesActionKey m
  · rw [ramIf_false m s ha] at hx; exact hx
  · rw [ramIf_true m s ha] at hx; simp [releaseActionMappings] at hx; exact hx.1

/-- (D5 fix) in a clean state whose pass-through keys `m` does not mention — the state right after the
first consumption — `release_absorbed_keys` and the second consumption are no-ops
(restated with the fix of D7: the condition is `producesActionKey m`, it was `isActionMapping m`)
(statement unchanged by the fix of D6: in a clean state `release_absorbed_keys` is a no-op whichever condition
runs it) -/
theorem addPhase2_clean {s : State} (k : Key) (m : Mapping) (h : Clean s)
    (hp : ∀ x, x ∈ s.pass → x ∉ m.frm ∧ x ∉ m.to) :
    addPhase2 s k m = if producesActionKey m then releaseActionMappings s else (s, []) := by
  show addPhase2 s k m = ramIf m s
  cases hb : absorbsNow s k m
  · exact addPhase2_skip s k m hb
  · rw [addPhase2_run s k m hb, releaseAbsorbedKeys_clean (ramIf_clean m h)]
    have hp' : ∀ x, x ∈ (ramIf m s).1.pass → x ∉ m.frm ∧ x ∉ m.to :=
      fun x hx => hp x (ramIf_pass_sub m s x hx)
    have n := afterConsume_noop (ramIf m s).1 m hp'
    rw [n.1, n.2]
    simp

theorem addPhase2_clean_frame {s : State} (k : Key) (m : Mapping) (h : Clean s) :
    Clean (addPhase2 s k m).1 ∧ (addPhase2 s k m).1.inp = s.inp ∧ (addPhase2 s k m).1.active = s.active := by
  have f := ramIf_frame m s
  have hc := ramIf_clean m h
  cases hb : absorbsNow s k m
  · rw [addPhase2_skip s k m hb]; exact ⟨hc, f.1, f.2.1⟩
  · rw [addPhase2_run s k m hb, releaseAbsorbedKeys_clean hc]
    exact ⟨⟨hc.abs, hc.trig⟩, f.1, f.2.1⟩

theorem afterConsume_frame (s : State) (m : Mapping) :
    (afterConsume s m).inp = s.inp ∧ (afterConsume s m).active = s.active ∧
    (afterConsume s m).absorbed = s.absorbed ∧ (afterConsume s m).absTrig = s.absTrig ∧
    (afterConsume s m).repTrig = s.repTrig := ⟨rfl, rfl, rfl, rfl, rfl⟩

theorem addPhase3_frame (s : State) (k : Key) (m : Mapping) (hm : m.absorbing = []) :
    (addPhase3 s k m).1.absorbed = (pressAll s m.to).1.absorbed ∧
    (addPhase3 s k m).1.absTrig = (pressAll s m.to).1.absTrig := by
  simp [addPhase3, hm, addAbsorbed]

theorem addPhase4_frame (s : State) (k : Key) (m : Mapping) :
    (addPhase4 s k m).1.absorbed = s.absorbed ∧ (addPhase4 s k m).1.absTrig = s.absTrig ∧
    (addPhase4 s k m).1.inp = s.inp ∧ (addPhase4 s k m).1.active = s.active := by
  unfold addPhase4
  cases m.rep <;> simp [releaseAllActionKeys]

/-- in a clean state, firing a mapping without absorbing list keeps the state clean, keeps every
input key, and appends exactly `m` to the active list -/
theorem addNewMapping_clean {s : State} (k : Key) (m : Mapping) (h : IInv [] s) (hc : Clean s)
    (hm : m.absorbing = []) :
    Clean (addNewMapping s k m).1 ∧ (addNewMapping s k m).1.inp = s.inp ∧
    (addNewMapping s k m).1.active = s.active ++ [m] := by
  rw [addNewMapping_eq]
  simp only [addPhase1_eq]
  have hc1 : Clean (afterConsume s m) := ⟨hc.abs, hc.trig⟩
  have p2 := addPhase2_clean_frame k m hc1
  have c1 := (consume_spec s m h).1
  simp only [List.nil_append] at c1
  have d1 := (addPhase2_spec (afterConsume s m) k m c1).1
  have pa := pressAll_spec (addPhase2 (afterConsume s m) k m).1 m.to d1 (fun _ hx => hx)
  obtain ⟨_, _, _, _, _, _, _, _, a9, a10, a11, a12, _⟩ := pa
  have p3 := addPhase3_frame (addPhase2 (afterConsume s m) k m).1 k m hm
  have p3' := addPhase3_spec (addPhase2 (afterConsume s m) k m).1 k m d1
  have p4 := addPhase4_frame (addPhase3 (addPhase2 (afterConsume s m) k m).1 k m).1 k m
  refine ⟨⟨?_, ?_⟩, ?_, ?_⟩
  · rw [p4.1, p3.1, a11]; exact p2.1.abs
  · rw [p4.2.1, p3.2, a12]; exact p2.1.trig
  · rw [p4.2.2.1]
    have : (addPhase3 (addPhase2 (afterConsume s m) k m).1 k m).1.inp = (pressAll (addPhase2 (afterConsume s m) k m).1 m.to).1.inp := by
      unfold addPhase3; split <;> rfl
    rw [this, a9, p2.2.1]; rfl
  · rw [p4.2.2.2]
    have : (addPhase3 (addPhase2 (afterConsume s m) k m).1 k m).1.active = (pressAll (addPhase2 (afterConsume s m) k m).1 m.to).1.active ++ [m] := by
      unfold addPhase3; split <;> rfl
    rw [this, a10, p2.2.2]; rfl

theorem passThrough_clean {s : State} (k : Key) (hc : Clean s) :
    Clean (passThrough s k).1 ∧ (passThrough s k).1.inp = s.inp ∧ (passThrough s k).1.active = s.active := by
  unfold passThrough
  cases isActionKey k
  · exact ⟨⟨hc.abs, hc.trig⟩, rfl, rfl⟩
  · have hr := releaseActionMappings_clean hc
    have f := releaseActionMappings_frame s
    simp only [if_true, releaseAbsorbedKeys_clean hr]
    exact ⟨⟨hr.abs, hr.trig⟩, f.1, f.2.1⟩

theorem releaseKey_clean {extra : List Key} {s : State} (k : Key) (h : IInv extra s) (hc : Clean s) :
    Clean (releaseKey s k).1 := by
  have r := releaseKey_spec k h
  exact ⟨by rw [r.2.2.2.1]; exact hc.abs, by rw [r.2.2.2.2.1]; exact hc.trig⟩

/-- the extra invariant of layouts without absorbing: clean, and every physically held key is an input key -/
structure NAInv (P : List Key) (s : State) : Prop where
  clean : Clean s
  pInp : ∀ k, k ∈ P → k ∈ s.inp

theorem NAInv.init : NAInv [] State.init := ⟨⟨rfl, rfl⟩, by simp⟩

theorem NAInv.step {L : Layout} {P : List Key} {s : State} (hL : NoAbs L) (h : Inv L P s)
    (hn : NAInv P s) (e : Event) : NAInv (applyEv P e) (step L s e).1 := by
  cases e with
  | pressed k =>
    by_cases hk : k ∈ s.inp
    · rw [step_pressed_ignored L s k hk]
      refine ⟨hn.clean, ?_⟩
      intro x hx; simp at hx
      rcases hx with hx | hx
      · exact hn.pInp x hx
      · subst hx; exact hk
    · rw [step_pressed_accepted L s k hk]
      have hc0 : Clean (pressPrep s k) := ⟨by simp [pressPrep, hn.clean.abs], hn.clean.trig⟩
      have hinp : ∀ x, x ∈ applyEv P (Event.pressed k) → x ∈ (pressPrep s k).inp ++ [k] := by
        intro x hx; simp at hx ⊢
        rcases hx with hx | hx
        · exact Or.inl (hn.pInp x hx)
        · exact Or.inr hx
      cases hf : findMapping L s k with
      | some m =>
        rw [newlyPress_fire hf]
        have fm := findMapping_some hf
        have a := addNewMapping_clean k m (pressPrep_iinv k h.i) hc0 (hL m fm.1)
        refine ⟨⟨a.1.abs, a.1.trig⟩, ?_⟩
        intro x hx; simp only; rw [a.2.1]; exact hinp x hx
      | none =>
        cases hc : noHit s k with
        | true =>
          rw [newlyPress_pass hf hc]
          have a := passThrough_clean k hc0
          refine ⟨⟨a.1.abs, a.1.trig⟩, ?_⟩
          intro x hx; simp only; rw [a.2.1]; exact hinp x hx
        | false =>
          rw [newlyPress_skip hf hc]
          exact ⟨⟨hc0.abs, hc0.trig⟩, hinp⟩
  | released k =>
    by_cases hk : k ∈ s.inp
    · rw [step_released_accepted L s k hk]
      have nr := newlyRelease_spec L P s k h
      refine ⟨releaseKey_clean k h.i hn.clean, ?_⟩
      intro x hx; simp at hx
      exact (nr.2.2.2 x).mpr ⟨hn.pInp x hx.1, hx.2⟩
    · rw [step_released_ignored L s k hk]
      refine ⟨hn.clean, ?_⟩
      intro x hx; simp at hx; exact hn.pInp x hx.1

/-- reachable by key events only (no release-all in between) -/
def ReachableEv (L : Layout) (x : Sys) : Prop := ∃ evs : List Event, x = Sys.run L Sys.init (evs.map Op.ev)

theorem ReachableEv.reachable {L : Layout} {x : Sys} (h : ReachableEv L x) : Reachable L x := by
  obtain ⟨evs, rfl⟩ := h; exact ⟨_, rfl⟩

theorem ReachableEv.init (L : Layout) : ReachableEv L Sys.init := ⟨[], rfl⟩

theorem ReachableEv.next {L : Layout} {x : Sys} (h : ReachableEv L x) (e : Event) :
    ReachableEv L (x.next L (Op.ev e)) := by
  obtain ⟨evs, rfl⟩ := h
  exact ⟨evs ++ [e], by simp [Sys.run, List.foldl_append]⟩

theorem run_nainv {L : Layout} (hL : NoAbs L) {x : Sys} (hs : SInv L x) (hn : NAInv x.P x.s)
    (evs : List Event) : NAInv (Sys.run L x (evs.map Op.ev)).P (Sys.run L x (evs.map Op.ev)).s := by
  induction evs generalizing x with
  | nil => exact hn
  | cons e es ih =>
    simp only [List.map_cons, Sys.run, List.foldl_cons]
    exact ih (hs.next (Op.ev e)).1 (NAInv.step hL hs.inv hn e)

theorem ReachableEv.nainv {L : Layout} (hL : NoAbs L) {x : Sys} (h : ReachableEv L x) : NAInv x.P x.s := by
  obtain ⟨evs, rfl⟩ := h
  exact run_nainv hL (SInv.init L) NAInv.init evs

/-- in a layout without absorbing, over key-event histories, the mapper's input list is exactly the
set of physically held keys -/
theorem ReachableEv.inp_iff {L : Layout} (hL : NoAbs L) {x : Sys} (h : ReachableEv L x) (k : Key) :
    k ∈ x.s.inp ↔ k ∈ x.P :=
  ⟨h.reachable.sinv.inv.inpP k, (h.nainv hL).pInp k⟩

end TmVerif
