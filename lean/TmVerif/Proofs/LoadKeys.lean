/-
Key names: every row of the generated key table (484 key codes) is read back by `parse_key_code`
from its serde name.  The check is `decide +kernel` on the regenerated table, in chunks of 64 rows
(each row costs a linear search through the table), lifted to all rows by `mem_chunks`.
-/
import TmVerif.Proofs.LoadShape

namespace TmVerif
open TmVerif.Tables

/-- what is checked of a table row `(discriminant, variant name, serde name)`:
`parse_key_code` maps the serde name to the discriminant, the discriminant's
serde name is the row's, no name starts with `@`, all name characters are ASCII -/
def rowOk (r : Nat × List Nat × List Nat) : Bool :=
  parseKeyCodeN r.2.2 == some r.1 && serdeNameN r.1 == some r.2.2 &&
  r.2.2.head? != some 64 && r.2.1.head? != some 64 &&
  r.2.2.all (fun c => decide (c < 128)) && r.2.1.all (fun c => decide (c < 128))

def rowsOk (rows : List (Nat × List Nat × List Nat)) : Bool := rows.all rowOk

def chunk (i : Nat) : List (Nat × List Nat × List Nat) := (keyTable.drop (64 * i)).take 64

theorem rows_ok_0 : rowsOk (chunk 0) = true := by decide +kernel
theorem rows_ok_1 : rowsOk (chunk 1) = true := by decide +kernel
theorem rows_ok_2 : rowsOk (chunk 2) = true := by decide +kernel
theorem rows_ok_3 : rowsOk (chunk 3) = true := by decide +kernel
theorem rows_ok_4 : rowsOk (chunk 4) = true := by decide +kernel
theorem rows_ok_5 : rowsOk (chunk 5) = true := by decide +kernel
theorem rows_ok_6 : rowsOk (chunk 6) = true := by decide +kernel
theorem rows_ok_rest : rowsOk (keyTable.drop (64 * 7)) = true := by decide +kernel

theorem mem_take_or_drop {α : Type} {l : List α} {x : α} (n : Nat) (h : x ∈ l) : x ∈ l.take n ∨ x ∈ l.drop n := by
  rw [← List.take_append_drop n l] at h
  exact List.mem_append.1 h

theorem mem_chunks {r : Nat × List Nat × List Nat} (h : r ∈ keyTable) :
    r ∈ chunk 0 ∨ r ∈ chunk 1 ∨ r ∈ chunk 2 ∨ r ∈ chunk 3 ∨ r ∈ chunk 4 ∨ r ∈ chunk 5 ∨ r ∈ chunk 6 ∨
      r ∈ keyTable.drop (64 * 7) := by
  unfold chunk
  rcases mem_take_or_drop 64 h with h | h
  · exact Or.inl (by simpa using h)
  rcases mem_take_or_drop 64 h with h | h
  · exact Or.inr (Or.inl (by simpa using h))
  rcases mem_take_or_drop 64 h with h | h
  · exact Or.inr (Or.inr (Or.inl (by simpa [List.drop_drop] using h)))
  rcases mem_take_or_drop 64 h with h | h
  · exact Or.inr (Or.inr (Or.inr (Or.inl (by simpa [List.drop_drop] using h))))
  rcases mem_take_or_drop 64 h with h | h
  · exact Or.inr (Or.inr (Or.inr (Or.inr (Or.inl (by simpa [List.drop_drop] using h)))))
  rcases mem_take_or_drop 64 h with h | h
  · exact Or.inr (Or.inr (Or.inr (Or.inr (Or.inr (Or.inl (by simpa [List.drop_drop] using h))))))
  rcases mem_take_or_drop 64 h with h | h
  · exact Or.inr (Or.inr (Or.inr (Or.inr (Or.inr (Or.inr (Or.inl (by simpa [List.drop_drop] using h)))))))
  · exact Or.inr (Or.inr (Or.inr (Or.inr (Or.inr (Or.inr (Or.inr (by simpa [List.drop_drop] using h)))))))

/-- every row of the key table passes the check -/
theorem keyTable_rowOk {r : Nat × List Nat × List Nat} (h : r ∈ keyTable) : rowOk r = true := by
  have all := fun {l} (hl : rowsOk l = true) (hr : r ∈ l) => List.all_eq_true.1 hl r hr
  rcases mem_chunks h with h | h | h | h | h | h | h | h
  · exact all rows_ok_0 h
  · exact all rows_ok_1 h
  · exact all rows_ok_2 h
  · exact all rows_ok_3 h
  · exact all rows_ok_4 h
  · exact all rows_ok_5 h
  · exact all rows_ok_6 h
  · exact all rows_ok_rest h

end TmVerif
