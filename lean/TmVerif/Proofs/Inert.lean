/-
The auxiliary fields are behaviourally inert except through the absorbed keys that are still held
("live").  `Eqv s t`: same core, same live absorbed keys (in order), and the same absorbing trigger
if any key is live.  Every step maps `Eqv`-related reachable states to `Eqv`-related states with
identical outputs — so a mapper at rest answers exactly like a fresh one (C06).
-/
import TmVerif.Proofs.Frame

namespace TmVerif

/-- absorbed keys that the mapper still considers held -/
def live (s : State) : List Key := s.absorbed.filter fun k => s.inp.contains k

structure Eqv (s t : State) : Prop where
  inp : s.inp = t.inp
  active : s.active = t.active
  pass : s.pass = t.pass
  mapped : s.mapped = t.mapped
  liveEq : live s = live t
  trig : live s ≠ [] → s.absTrig = t.absTrig

theorem Eqv.refl (s : State) : Eqv s s := ⟨rfl, rfl, rfl, rfl, rfl, fun _ => rfl⟩

theorem Eqv.eq_withAux {s t : State} (h : Eqv s t) : t = withAux s t.absorbed t.absTrig t.repTrig := by
  obtain ⟨i1, a1, p1, m1, ab1, at1, rt1⟩ := s
  obtain ⟨i2, a2, p2, m2, ab2, at2, rt2⟩ := t
  have h1 := h.inp; have h2 := h.active; have h3 := h.pass; have h4 := h.mapped
  simp only at h1 h2 h3 h4
  subst h1 h2 h3 h4
  rfl

theorem IInv.withAux {extra : List Key} {s : State} (h : IInv extra s) (a b c) : IInv extra (withAux s a b c) :=
  ⟨h.ndPass, h.ndMapped, h.disj, h.passInp, h.actInp, h.mappedAct⟩

theorem IInv.of_equiv {extra : List Key} {s t : State} (h : IInv extra s) (he : Eqv s t) : IInv extra t := by
  rw [he.eq_withAux]; exact h.withAux _ _ _

/-! ### stale absorbed keys are skipped by `release_absorbed_keys` -/

theorem dropFailing_none (k : Key) (s : State) (rb after : List Mapping) (h : ∀ m, m ∈ rb → k ∉ m.frm) :
    dropFailing k s rb after = ({ s with active := rb.reverse ++ after }, []) := by
  induction rb generalizing after with
  | nil => rfl
  | cons m rb ih =>
    have hm : failsWhenReleased m.frm k = false := by
      simpa [failsWhenReleased] using h m (by simp)
    simp only [dropFailing, hm, Bool.false_eq_true, if_false]
    rw [ih (m :: after) (fun m' hm' => h m' (by simp [hm']))]
    simp

theorem releaseKey_stale {extra : List Key} {s : State} (h : IInv extra s) (k : Key) (hk : k ∉ s.inp) :
    releaseKey s k = (s, []) := by
  rw [releaseKey_eq]
  have hnone : ∀ m, m ∈ s.active.reverse → k ∉ m.frm := by
    intro m hm hkm; exact hk (h.actInp m (by simpa using hm) k hkm)
  rw [dropFailing_none k s s.active.reverse [] hnone]
  have hs : ({ s with active := s.active.reverse.reverse ++ [] } : State) = s := by simp
  rw [hs]
  have hkp : k ∉ s.pass := fun hp => hk (h.passInp k hp)
  have hc : s.pass.contains k = false := by simpa using hkp
  have hf : s.inp.filter (fun k2 => k2 != k) = s.inp := by
    apply List.filter_eq_self.mpr
    intro x hx; simp; exact fun e => hk (e ▸ hx)
  simp only [releaseTail, hc, Bool.false_eq_true, if_false, hf, List.append_nil]

theorem releaseAbsorbedLoop_filter {extra : List Key} (p : Key → Bool) (s : State) (ks : List Key) (h : IInv extra s)
    (hp : ∀ x, x ∈ s.inp → p x = true) :
    releaseAbsorbedLoop s ks = releaseAbsorbedLoop s (ks.filter p) := by
  induction ks generalizing s with
  | nil => rfl
  | cons k ks ih =>
    cases hpk : p k with
    | true =>
      simp only [List.filter_cons, hpk, if_true, releaseAbsorbedLoop_cons]
      have r := releaseKey_spec k h
      rw [ih (releaseKey s k).1 r.1 (fun x hx => hp x (r.2.1.inpSub x hx))]
    | false =>
      have hk : k ∉ s.inp := fun hx => by have := hp k hx; rw [hpk] at this; simp at this
      simp only [List.filter_cons, hpk, Bool.false_eq_true, if_false, releaseAbsorbedLoop_cons,
        releaseKey_stale h k hk, List.nil_append]
      exact ih s h hp

theorem releaseAbsorbedKeys_eq_live {extra : List Key} {s : State} (h : IInv extra s) :
    releaseAbsorbedKeys s =
      (withAux (releaseAbsorbedLoop s (live s)).1 [] none s.repTrig, (releaseAbsorbedLoop s (live s)).2) := by
  have h0 : ({ s with absorbed := [], absTrig := none } : State) = withAux s [] none s.repTrig := rfl
  unfold releaseAbsorbedKeys
  rw [h0, releaseAbsorbedLoop_filter (fun k => s.inp.contains k) _ s.absorbed (h.withAux _ _ _)
    (by intro x hx; simpa using hx), releaseAbsorbedLoop_aux]
  rfl

/-- `release_absorbed_keys` on `Eqv` states: same events, `Eqv` results (nothing absorbed any more) -/
theorem releaseAbsorbedKeys_equiv {extra : List Key} {s t : State} (h : IInv extra s) (he : Eqv s t) :
    (releaseAbsorbedKeys s).2 = (releaseAbsorbedKeys t).2 ∧
    Eqv (releaseAbsorbedKeys s).1 (releaseAbsorbedKeys t).1 := by
  have ht := h.of_equiv he
  rw [releaseAbsorbedKeys_eq_live h, releaseAbsorbedKeys_eq_live ht, ← he.liveEq]
  have : releaseAbsorbedLoop t (live s) =
      (TmVerif.withAux (releaseAbsorbedLoop s (live s)).1 t.absorbed t.absTrig t.repTrig, (releaseAbsorbedLoop s (live s)).2) := by
    conv => lhs; rw [he.eq_withAux]
    exact releaseAbsorbedLoop_aux s _ _ _ _
  rw [this]
  exact ⟨rfl, ⟨rfl, rfl, rfl, rfl, by simp [live], fun _ => rfl⟩⟩

/-- with no live absorbed key, `release_absorbed_keys` changes nothing but the auxiliary fields -/
theorem releaseAbsorbedKeys_no_live {extra : List Key} {s : State} (h : IInv extra s) (hl : live s = []) :
    releaseAbsorbedKeys s = (withAux s [] none s.repTrig, []) := by
  rw [releaseAbsorbedKeys_eq_live h, hl]; rfl


/-! ### congruence of the press path -/

theorem live_pressPrep (s : State) (k : Key) (hk : k ∉ s.inp) : live (pressPrep s k) = live s := by
  simp only [live, pressPrep, List.filter_filter]
  apply List.filter_congr
  intro x _
  by_cases hx : x ∈ s.inp
  · have : x ≠ k := fun e => hk (e ▸ hx)
    simp [hx, this]
  · simp [hx]

theorem pressPrep_eqv {s t : State} (he : Eqv s t) (k : Key) (hk : k ∉ s.inp) :
    Eqv (pressPrep s k) (pressPrep t k) := by
  have hk' : k ∉ t.inp := he.inp ▸ hk
  refine ⟨he.inp, he.active, he.pass, he.mapped, ?_, ?_⟩
  · rw [live_pressPrep s k hk, live_pressPrep t k hk']; exact he.liveEq
  · intro hl; rw [live_pressPrep s k hk] at hl; exact he.trig hl

/-- for a key that is held, membership in the list `is_supported` consults depends only on the live
absorbed keys and (if there are any) the absorbing trigger -/
theorem absorbedKeys_contains {s t : State} (he : Eqv s t) (k x : Key) (hx : x ∈ s.inp) :
    (if shouldAbsorb s k then s.absorbed else []).contains x =
    (if shouldAbsorb t k then t.absorbed else []).contains x := by
  have hxl : ∀ u : State, u.inp = s.inp → (u.absorbed.contains x = (live u).contains x) := by
    intro u hu
    simp only [live, List.contains_eq_mem, List.mem_filter, hu, hx, decide_true, and_true]
  by_cases hl : live s = []
  · have hlt : live t = [] := he.liveEq ▸ hl
    have h1 : s.absorbed.contains x = false := by rw [hxl s rfl, hl]; rfl
    have h2 : t.absorbed.contains x = false := by rw [hxl t he.inp.symm, hlt]; rfl
    have h1' : x ∉ s.absorbed := by simpa using h1
    have h2' : x ∉ t.absorbed := by simpa using h2
    cases shouldAbsorb s k <;> cases shouldAbsorb t k <;> simp [h1', h2']
  · have ht := he.trig hl
    have hsa : shouldAbsorb s k = shouldAbsorb t k := by simp [shouldAbsorb, ht]
    rw [hsa]
    cases shouldAbsorb t k
    · rfl
    · simp only [if_true]; rw [hxl s rfl, hxl t he.inp.symm, he.liveEq]

theorem findMapping_eqv (L : Layout) {s t : State} (he : Eqv s t) (k : Key) (hk : k ∉ s.inp) :
    findMapping L s k = findMapping L t k := by
  have he0 := pressPrep_eqv he k hk
  simp only [findMapping]
  congr 1
  funext m
  simp only [isSupported]
  rw [← he0.inp]
  apply List.all_congr rfl
  intro x
  by_cases hx : x ∈ (pressPrep s k).inp
  · rw [absorbedKeys_contains he0 k x hx]
  · simp [hx]

theorem afterConsume_eqv {s t : State} (he : Eqv s t) (m : Mapping) :
    Eqv (afterConsume s m) (afterConsume t m) ∧ (consume m s.pass).2.2 = (consume m t.pass).2.2 := by
  refine ⟨⟨he.inp, he.active, ?_, ?_, he.liveEq, he.trig⟩, by rw [he.pass]⟩
  · simp only [afterConsume, he.pass]
  · simp only [afterConsume, he.pass, he.mapped]

theorem ram_eqv {s t : State} (he : Eqv s t) :
    Eqv (releaseActionMappings s).1 (releaseActionMappings t).1 ∧
    (releaseActionMappings s).2 = (releaseActionMappings t).2 := by
  rw [he.eq_withAux, releaseActionMappings_aux]
  exact ⟨⟨rfl, rfl, rfl, rfl, by
      have f := releaseActionMappings_frame s
      have hl := he.liveEq
      simp only [live] at hl
      simp only [live, withAux_absorbed, withAux_inp, f.1, f.2.2.1]
      rw [← he.inp] at hl
      exact hl, by
      intro hl
      have f := releaseActionMappings_frame s
      have : live (releaseActionMappings s).1 = live s := by simp only [live, f.1, f.2.2.1]
      rw [this] at hl
      simp only [withAux_absTrig, f.2.2.2.1]; exact he.trig hl⟩, rfl⟩

/-- (D5 fix) `hp`: no pass-through key is mentioned by `m` — true right after the first consumption, the only
place `addPhase2` is used; without it the two states could take different `should_absorb` branches, one of
which consumes a second time. -/
theorem addPhase2_eqv {extra : List Key} {s t : State} (h : IInv extra s) (he : Eqv s t) (k : Key) (m : Mapping)
    (hp : ∀ x, x ∈ s.pass → x ∉ m.frm ∧ x ∉ m.to) :
    Eqv (addPhase2 s k m).1 (addPhase2 t k m).1 ∧ (addPhase2 s k m).2 = (addPhase2 t k m).2 := by
  have r : Eqv (ramIf m s).1 (ramIf m t).1 ∧ (ramIf m s).2 = (ramIf m t).2 := by
    cases ha : producesActionKey m
    · rw [ramIf_false m s ha, ramIf_false m t ha]; exact ⟨he, rfl⟩
    · rw [ramIf_true m s ha, ramIf_true m t ha]; exact ram_eqv he
  have hi := (ramIf_spec m h).1
  have fs := ramIf_frame m s
  have ft := ramIf_frame m t
  have hlive : live (ramIf m s).1 = live s := by simp only [live, fs.1, fs.2.2.1]
  by_cases hl : live s = []
  · -- no live key: both branches leave the core alone and emit nothing more
    have hl1 : live (ramIf m s).1 = [] := hlive ▸ hl
    have hl2 : live (ramIf m t).1 = [] := r.1.liveEq ▸ hl1
    have hit := hi.of_equiv r.1
    have key : ∀ (u : State) (hu : IInv extra (ramIf m u).1) (hlu : live (ramIf m u).1 = [])
        (hpu : ∀ x, x ∈ u.pass → x ∉ m.frm ∧ x ∉ m.to),
        (addPhase2 u k m).2 = (ramIf m u).2 ∧
        (addPhase2 u k m).1.inp = (ramIf m u).1.inp ∧
        (addPhase2 u k m).1.active = (ramIf m u).1.active ∧
        (addPhase2 u k m).1.pass = (ramIf m u).1.pass ∧
        (addPhase2 u k m).1.mapped = (ramIf m u).1.mapped ∧
        live (addPhase2 u k m).1 = [] := by
      intro u hu hlu hpu
      cases hb : absorbsNow u k m
      · rw [addPhase2_skip u k m hb]; exact ⟨rfl, rfl, rfl, rfl, rfl, hlu⟩
      · rw [addPhase2_run u k m hb, releaseAbsorbedKeys_no_live hu hlu]
        have hp' : ∀ x, x ∈ (withAux (ramIf m u).1 [] none (ramIf m u).1.repTrig).pass →
            x ∉ m.frm ∧ x ∉ m.to := by
          intro x hx; exact hpu x (ramIf_pass_sub m u x hx)
        have n := afterConsume_noop _ m hp'
        rw [n.1, n.2]
        exact ⟨by simp, rfl, rfl, rfl, rfl, by simp [live]⟩
    have ks := key s hi hl1 hp
    have kt := key t hit hl2 (he.pass ▸ hp)
    refine ⟨⟨?_, ?_, ?_, ?_, ?_, ?_⟩, ?_⟩
    · rw [ks.2.1, kt.2.1]; exact r.1.inp
    · rw [ks.2.2.1, kt.2.2.1]; exact r.1.active
    · rw [ks.2.2.2.1, kt.2.2.2.1]; exact r.1.pass
    · rw [ks.2.2.2.2.1, kt.2.2.2.2.1]; exact r.1.mapped
    · rw [ks.2.2.2.2.2, kt.2.2.2.2.2]
    · intro hne; exact absurd ks.2.2.2.2.2 hne
    · rw [ks.1, kt.1]; exact r.2
  · have ht := he.trig hl
    have hsa : absorbsNow s k m = absorbsNow t k m := by simp [absorbsNow, shouldAbsorb, ht]
    cases hb : absorbsNow s k m
    · rw [addPhase2_skip s k m hb, addPhase2_skip t k m (hsa ▸ hb)]; exact r
    · rw [addPhase2_run s k m hb, addPhase2_run t k m (hsa ▸ hb)]
      have q := releaseAbsorbedKeys_equiv hi r.1
      have q3 := afterConsume_eqv q.2 m
      exact ⟨q3.1, by rw [r.2, q.1, q3.2]⟩

theorem addAbsorbed_filter (p : Key → Bool) (a b : List Key) :
    (addAbsorbed a b).filter p = addAbsorbed (a.filter p) (b.filter p) := by
  induction b generalizing a with
  | nil => rfl
  | cons x b ih =>
    simp only [addAbsorbed, List.filter_cons]
    cases hp : p x
    · simp only [Bool.false_eq_true, if_false]
      split
      · exact ih a
      · rw [ih (a ++ [x])]; simp [hp]
    · simp only [if_true, addAbsorbed]
      have hc : (a.filter p).contains x = a.contains x := by
        simp [List.contains_eq_mem, List.mem_filter, hp]
      rw [hc]
      split
      · exact ih a
      · rw [ih (a ++ [x])]; simp [hp]

theorem pressAll_frame_fields (s : State) (ks : List Key) :
    (pressAll s ks).1.inp = s.inp ∧ (pressAll s ks).1.active = s.active ∧
    (pressAll s ks).1.absorbed = s.absorbed ∧ (pressAll s ks).1.absTrig = s.absTrig ∧
    (pressAll s ks).1.repTrig = s.repTrig := by
  induction ks generalizing s with
  | nil => exact ⟨rfl, rfl, rfl, rfl, rfl⟩
  | cons k ks ih =>
    rw [pressAll_cons]
    have h1 : (pressOne s k).1.inp = s.inp ∧ (pressOne s k).1.active = s.active ∧
        (pressOne s k).1.absorbed = s.absorbed ∧ (pressOne s k).1.absTrig = s.absTrig ∧
        (pressOne s k).1.repTrig = s.repTrig := by
      unfold pressOne
      split
      · split
        · exact ⟨rfl, rfl, rfl, rfl, rfl⟩
        · split <;> exact ⟨rfl, rfl, rfl, rfl, rfl⟩
      · split <;> exact ⟨rfl, rfl, rfl, rfl, rfl⟩
    have h2 := ih (pressOne s k).1
    exact ⟨h2.1.trans h1.1, h2.2.1.trans h1.2.1, h2.2.2.1.trans h1.2.2.1, h2.2.2.2.1.trans h1.2.2.2.1,
      h2.2.2.2.2.trans h1.2.2.2.2⟩

/-- the state at the end of an accepted press that fires `m`, from the state after phase 2 -/
def finishFire (s : State) (k : Key) (m : Mapping) : State :=
  { (addPhase4 (addPhase3 s k m).1 k m).1 with inp := (addPhase4 (addPhase3 s k m).1 k m).1.inp ++ [k] }

theorem finishFire_fields (s : State) (k : Key) (m : Mapping) :
    (finishFire s k m).inp = s.inp ++ [k] ∧
    (finishFire s k m).active = s.active ++ [m] ∧
    (finishFire s k m).absorbed = addAbsorbed s.absorbed m.absorbing ∧
    (finishFire s k m).absTrig = (if m.absorbing.length > 0 then some k else s.absTrig) := by
  have f4 := addPhase4_frame (addPhase3 s k m).1 k m
  have pf := pressAll_frame_fields s m.to
  simp only [finishFire]
  refine ⟨?_, ?_, ?_, ?_⟩
  · rw [f4.2.2.1]; unfold addPhase3; split <;> simp [pf.1]
  · rw [f4.2.2.2]; unfold addPhase3; split <;> simp [pf.2.1]
  · rw [f4.1]; unfold addPhase3; split <;> simp [pf.2.2.1]
  · rw [f4.2.1]; unfold addPhase3; split <;> simp_all [pf.2.2.2.1]

theorem addPhase34_aux (s : State) (a b c) (k : Key) (m : Mapping) :
    (finishFire (withAux s a b c) k m).pass = (finishFire s k m).pass ∧
    (finishFire (withAux s a b c) k m).mapped = (finishFire s k m).mapped ∧
    (addPhase3 (withAux s a b c) k m).2 = (addPhase3 s k m).2 ∧
    (addPhase4 (addPhase3 (withAux s a b c) k m).1 k m).2 = (addPhase4 (addPhase3 s k m).1 k m).2 := by
  have hp : (addPhase3 (withAux s a b c) k m).1.pass = (addPhase3 s k m).1.pass ∧
      (addPhase3 (withAux s a b c) k m).1.mapped = (addPhase3 s k m).1.mapped ∧
      (addPhase3 (withAux s a b c) k m).2 = (addPhase3 s k m).2 := by
    unfold addPhase3
    rw [pressAll_aux]
    split <;> exact ⟨rfl, rfl, rfl⟩
  have h4 : ∀ (u v : State), u.pass = v.pass → u.mapped = v.mapped →
      (addPhase4 u k m).1.pass = (addPhase4 v k m).1.pass ∧ (addPhase4 u k m).1.mapped = (addPhase4 v k m).1.mapped ∧
      (addPhase4 u k m).2 = (addPhase4 v k m).2 := by
    intro u v h1 h2
    unfold addPhase4
    cases m.rep <;> simp [releaseAllActionKeys, h1, h2]
  have := h4 _ _ hp.1 hp.2.1
  exact ⟨by simp only [finishFire]; exact this.1, by simp only [finishFire]; exact this.2.1, hp.2.2, this.2.2⟩

theorem finishFire_eqv {s t : State} (he : Eqv s t) (k : Key) (m : Mapping) (hks : k ∉ s.absorbed) (hkt : k ∉ t.absorbed) :
    Eqv (finishFire s k m) (finishFire t k m) ∧
    (addPhase3 s k m).2 = (addPhase3 t k m).2 ∧
    (addPhase4 (addPhase3 s k m).1 k m).2 = (addPhase4 (addPhase3 t k m).1 k m).2 := by
  have ax : t = TmVerif.withAux s t.absorbed t.absTrig t.repTrig := he.eq_withAux
  have a34 := addPhase34_aux s t.absorbed t.absTrig t.repTrig k m
  rw [← ax] at a34
  have fs := finishFire_fields s k m
  have ft := finishFire_fields t k m
  -- live of the finished states
  have hlive : ∀ (u : State), k ∉ u.absorbed →
      live (finishFire u k m) = addAbsorbed (live u) (m.absorbing.filter (fun x => (u.inp ++ [k]).contains x)) := by
    intro u hku
    have fu := finishFire_fields u k m
    simp only [live, fu.1, fu.2.2.1]
    rw [addAbsorbed_filter]
    congr 1
    apply List.filter_congr
    intro x hx
    have : x ≠ k := fun e => hku (e ▸ hx)
    simp [this]
  refine ⟨⟨?_, ?_, a34.1.symm, a34.2.1.symm, ?_, ?_⟩, a34.2.2.1.symm, a34.2.2.2.symm⟩
  · rw [fs.1, ft.1, he.inp]
  · rw [fs.2.1, ft.2.1, he.active]
  · rw [hlive s hks, hlive t hkt, he.liveEq, he.inp]
  · intro hl
    rw [fs.2.2.2, ft.2.2.2]
    by_cases hm : m.absorbing.length > 0
    · simp [hm]
    · simp only [hm, if_false]
      apply he.trig
      have hnil : m.absorbing = [] := by
        cases hmm : m.absorbing with
        | nil => rfl
        | cons a l => simp [hmm] at hm
      rw [hlive s hks, hnil] at hl
      simpa [addAbsorbed] using hl


/-! ### one step on `Eqv` states -/

theorem newlyPress_fire_finish {L : Layout} {s : State} {k : Key} {m : Mapping} (hf : findMapping L s k = some m) :
    (newlyPress L s k).1 = finishFire (addPhase2 (afterConsume (pressPrep s k) m) k m).1 k m ∧
    (newlyPress L s k).2.events =
      (consume m (pressPrep s k).pass).2.2 ++ (addPhase2 (afterConsume (pressPrep s k) m) k m).2 ++
      (addPhase3 (addPhase2 (afterConsume (pressPrep s k) m) k m).1 k m).2 ++
      (addPhase4 (addPhase3 (addPhase2 (afterConsume (pressPrep s k) m) k m).1 k m).1 k m).2.1 ∧
    (newlyPress L s k).2.rep =
      (addPhase4 (addPhase3 (addPhase2 (afterConsume (pressPrep s k) m) k m).1 k m).1 k m).2.2 := by
  rw [newlyPress_fire hf]; exact ⟨rfl, rfl, rfl⟩

theorem filter_mem_sub (a i i' : List Key) (q : Key → Bool) (h : ∀ x, x ∈ i' ↔ x ∈ i ∧ q x = true) :
    a.filter (fun x => i'.contains x) = (a.filter (fun x => i.contains x)).filter q := by
  rw [List.filter_filter]
  apply List.filter_congr
  intro x _
  have := h x
  by_cases h1 : x ∈ i <;> by_cases h2 : q x = true <;> simp_all

theorem passThrough_nonaction (s : State) (k : Key) (h : isActionKey k = false) :
    passThrough s k = ({ s with pass := s.pass ++ [k] }, [Event.pressed k]) := by
  simp [passThrough, h]

theorem passThrough_action (s : State) (k : Key) (h : isActionKey k = true) :
    passThrough s k =
      ({ (releaseAbsorbedKeys (releaseActionMappings s).1).1 with
           pass := (releaseAbsorbedKeys (releaseActionMappings s).1).1.pass ++ [k] },
       (releaseActionMappings s).2 ++ (releaseAbsorbedKeys (releaseActionMappings s).1).2 ++ [Event.pressed k]) := by
  simp [passThrough, h]

theorem newlyPress_eqv (L : Layout) {s t : State} (h : IInv [] s) (he : Eqv s t) (k : Key) (hk : k ∉ s.inp) :
    (newlyPress L s k).2 = (newlyPress L t k).2 ∧ Eqv (newlyPress L s k).1 (newlyPress L t k).1 := by
  have hkt : k ∉ t.inp := he.inp ▸ hk
  have he0 := pressPrep_eqv he k hk
  have h0 := pressPrep_iinv k h
  have hfm := findMapping_eqv L he k hk
  have hka : ∀ u : State, k ∉ (pressPrep u k).absorbed := by intro u hx; simp [pressPrep] at hx
  cases hf : findMapping L s k with
  | some m =>
    have hft : findMapping L t k = some m := hfm ▸ hf
    have fs := newlyPress_fire_finish hf
    have ft := newlyPress_fire_finish hft
    have e1 := afterConsume_eqv he0 m
    have c1 := (consume_spec (pressPrep s k) m h0).1
    have e2 := addPhase2_eqv c1 e1.1 k m (afterConsume_clear (pressPrep s k) m)
    have hks : k ∉ (addPhase2 (afterConsume (pressPrep s k) m) k m).1.absorbed :=
      fun hx => hka s (addPhase2_absorbed_sub _ k m c1 k hx)
    have c1t := c1.of_equiv e1.1
    have hkt' : k ∉ (addPhase2 (afterConsume (pressPrep t k) m) k m).1.absorbed :=
      fun hx => hka t (addPhase2_absorbed_sub _ k m c1t k hx)
    have e3 := finishFire_eqv e2.1 k m hks hkt'
    refine ⟨?_, ?_⟩
    · have hev : (newlyPress L s k).2.events = (newlyPress L t k).2.events := by
        rw [fs.2.1, ft.2.1, e1.2, e2.2, e3.2.1, e3.2.2]
      have hrep : (newlyPress L s k).2.rep = (newlyPress L t k).2.rep := by
        rw [fs.2.2, ft.2.2, e3.2.2]
      cases hs' : (newlyPress L s k).2; cases ht' : (newlyPress L t k).2
      simp only [hs', ht'] at hev hrep
      simp [hev, hrep]
    · rw [fs.1, ft.1]; exact e3.1
  | none =>
    have hft : findMapping L t k = none := hfm ▸ hf
    have hnh : noHit s k = noHit t k := by simp [noHit, pressPrep, he.active, he.pass]
    have live_push : ∀ (u : State), k ∉ u.absorbed → ∀ (i : List Key), i = u.inp →
        u.absorbed.filter (fun x => (i ++ [k]).contains x) = u.absorbed.filter (fun x => i.contains x) := by
      intro u hku i _
      apply List.filter_congr
      intro x hx
      have : x ≠ k := fun e => hku (e ▸ hx)
      simp [this]
    cases hc : noHit s k with
    | true =>
      rw [newlyPress_pass hf hc, newlyPress_pass hft (hnh ▸ hc)]
      -- passThrough on Eqv states
      have key : (passThrough (pressPrep s k) k).2 = (passThrough (pressPrep t k) k).2 ∧
          Eqv (passThrough (pressPrep s k) k).1 (passThrough (pressPrep t k) k).1 ∧
          k ∉ (passThrough (pressPrep s k) k).1.absorbed ∧ k ∉ (passThrough (pressPrep t k) k).1.absorbed := by
        cases ha : isActionKey k
        · rw [passThrough_nonaction _ k ha, passThrough_nonaction _ k ha]
          exact ⟨rfl, ⟨he0.inp, he0.active, by simp [he0.pass], he0.mapped, he0.liveEq, he0.trig⟩, hka s, hka t⟩
        · rw [passThrough_action _ k ha, passThrough_action _ k ha]
          have r := ram_eqv he0
          have hi := (releaseActionMappings_spec h0).1
          have q := releaseAbsorbedKeys_equiv hi r.1
          have za : ∀ u : State, IInv [] u → (releaseAbsorbedKeys u).1.absorbed = [] :=
            fun u hu => (releaseAbsorbedKeys_spec u hu).2.2.1
          refine ⟨by rw [r.2, q.1], ⟨q.2.inp, q.2.active, by simp [q.2.pass], q.2.mapped, q.2.liveEq, q.2.trig⟩, ?_, ?_⟩
          · show k ∉ (releaseAbsorbedKeys (releaseActionMappings (pressPrep s k)).1).1.absorbed
            rw [za _ hi]; simp
          · show k ∉ (releaseAbsorbedKeys (releaseActionMappings (pressPrep t k)).1).1.absorbed
            rw [za _ (hi.of_equiv r.1)]; simp
      obtain ⟨k1, k2, k3, k4⟩ := key
      refine ⟨by simp [k1], ⟨by simp [k2.inp], k2.active, k2.pass, k2.mapped, ?_, ?_⟩⟩
      · simp only [live]
        rw [live_push _ k3 _ rfl, live_push _ k4 _ rfl]; exact k2.liveEq
      · intro hl
        simp only [live] at hl
        rw [live_push _ k3 _ rfl] at hl
        exact k2.trig hl
    | false =>
      rw [newlyPress_skip hf hc, newlyPress_skip hft (hnh ▸ hc)]
      refine ⟨rfl, ⟨by simp [he0.inp], he0.active, he0.pass, he0.mapped, ?_, ?_⟩⟩
      · simp only [live]
        rw [live_push _ (hka s) _ rfl, live_push _ (hka t) _ rfl]; exact he0.liveEq
      · intro hl
        simp only [live] at hl
        rw [live_push _ (hka s) _ rfl] at hl
        exact he0.trig hl

theorem newlyRelease_eqv {s t : State} (h : IInv [] s) (he : Eqv s t) (k : Key) :
    (newlyRelease s k).2 = (newlyRelease t k).2 ∧ Eqv (newlyRelease s k).1 (newlyRelease t k).1 := by
  have hs : ∀ u : State, newlyRelease u k = ((releaseKey u k).1, ⟨(releaseKey u k).2, RRepeat.disabled⟩) := fun _ => rfl
  rw [hs s, hs t]
  have hx : releaseKey t k = (TmVerif.withAux (releaseKey s k).1 t.absorbed t.absTrig t.repTrig, (releaseKey s k).2) := by
    conv => lhs; rw [he.eq_withAux]
    exact releaseKey_aux s _ _ _ k
  rw [hx]
  have r := releaseKey_spec k h
  refine ⟨rfl, ⟨rfl, rfl, rfl, rfl, ?_, ?_⟩⟩
  · simp only [live, withAux_absorbed, withAux_inp, r.2.2.2.1]
    have hq := filter_mem_sub s.absorbed s.inp (releaseKey s k).1.inp (fun x => x != k)
      (by intro x; rw [r.2.2.2.2.2.2 x]; simp)
    have hq' := filter_mem_sub t.absorbed s.inp (releaseKey s k).1.inp (fun x => x != k)
      (by intro x; rw [r.2.2.2.2.2.2 x]; simp)
    rw [hq, hq']
    have := he.liveEq
    simp only [live, ← he.inp] at this
    rw [this]
  · intro hl
    simp only [withAux_absTrig, r.2.2.2.2.1]
    apply he.trig
    intro hnil
    apply hl
    simp only [live, r.2.2.2.1]
    have hq := filter_mem_sub s.absorbed s.inp (releaseKey s k).1.inp (fun x => x != k)
      (by intro x; rw [r.2.2.2.2.2.2 x]; simp)
    rw [hq]
    simp only [live] at hnil
    rw [hnil]; rfl

theorem step_eqv (L : Layout) {s t : State} (h : IInv [] s) (he : Eqv s t) (e : Event) :
    (step L s e).2 = (step L t e).2 ∧ Eqv (step L s e).1 (step L t e).1 := by
  cases e with
  | pressed k =>
    by_cases hk : k ∈ s.inp
    · rw [step_pressed_ignored L s k hk, step_pressed_ignored L t k (he.inp ▸ hk)]; exact ⟨rfl, he⟩
    · rw [step_pressed_accepted L s k hk, step_pressed_accepted L t k (he.inp ▸ hk)]
      exact newlyPress_eqv L h he k hk
  | released k =>
    by_cases hk : k ∈ s.inp
    · rw [step_released_accepted L s k hk, step_released_accepted L t k (he.inp ▸ hk)]
      exact newlyRelease_eqv h he k
    · rw [step_released_ignored L s k hk, step_released_ignored L t k (he.inp ▸ hk)]; exact ⟨rfl, he⟩

/-- responses (events and repeat field) to a continuation, from `Eqv` states, coincide -/
theorem run_eqv (L : Layout) (P : List Key) {s t : State} (h : Inv L P s) (he : Eqv s t) (evs : List Event) :
    (run L s evs).2 = (run L t evs).2 := by
  induction evs generalizing s t P with
  | nil => rfl
  | cons e es ih =>
    simp only [run]
    have q := step_eqv L h.i he e
    rw [q.1]
    congr 1
    exact ih (applyEv P e) (step_inv L P s e h).1 q.2

end TmVerif
