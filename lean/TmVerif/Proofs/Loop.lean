/-
Lemmas about the loop model (`Model/Loop.lean`): the ghost account of what the loop has read and
sent, and the invariant tying the loop's mapper to the mapper run over the operations read.
-/
import TmVerif.Proofs.Reach
import TmVerif.Model.Loop

namespace TmVerif

/-- the machine is blocked on a `send` -/
def Ctl.isSend : Ctl → Bool
  | Ctl.sendChord _ => true
  | Ctl.sendStep _ _ _ => true
  | Ctl.sendRel _ _ => true
  | _ => false

/-- the machine is about to wait (top of the loop: clock read for the timeout, or `poll` itself) -/
def Ctl.isPollTop : Ctl → Bool
  | Ctl.pollNow => true
  | Ctl.polling _ => true
  | _ => false

/-- payload of a pending step / release-all send -/
def Ctl.pendingOut : Ctl → List (List Event)
  | Ctl.sendStep _ evs _ => [evs]
  | Ctl.sendRel _ evs => [evs]
  | _ => []

/-- ghost account: the mapper operations the loop has performed for what it read, and the payloads
of the step / release-all sends it has completed -/
structure Ghost where
  ops : List Op
  sent : List (List Event)
deriving Repr

def Ghost.init : Ghost := ⟨[], []⟩

/-- what one answer adds to the account -/
def ghostStep (x : Machine) (r : Resp) (g : Ghost) : Ghost :=
  match x.c, r with
  | Ctl.readKbd _, Resp.kbd (Next.one ev) => if x.v.inTablet then g else { g with ops := g.ops ++ [Op.ev ev] }
  | Ctl.readTab _, Resp.tab (Next.one _) => { g with ops := g.ops ++ [Op.relAll] }
  | Ctl.sendStep _ evs _, Resp.unit => { g with sent := g.sent ++ [evs] }
  | Ctl.sendRel _ evs, Resp.unit => { g with sent := g.sent ++ [evs] }
  | _, _ => g

/-- the non-empty outputs of the mapper over a list of operations, one entry per operation -/
def nonEmptyOuts (L : Layout) : Sys → List Op → List (List Event)
  | _, [] => []
  | x, op :: ops =>
    (if (x.out L op).isEmpty then [] else [x.out L op]) ++ nonEmptyOuts L (x.next L op) ops

theorem nonEmptyOuts_append (L : Layout) (x : Sys) (a b : List Op) :
    nonEmptyOuts L x (a ++ b) = nonEmptyOuts L x a ++ nonEmptyOuts L (x.run L a) b := by
  induction a generalizing x with
  | nil => rfl
  | cons op ops ih => simp [nonEmptyOuts, ih, Sys.run, List.append_assoc]

theorem run_append (L : Layout) (x : Sys) (a b : List Op) :
    x.run L (a ++ b) = (x.run L a).run L b := by
  simp [Sys.run, List.foldl_append]

/-- the loop invariant: the loop's mapper is the mapper run over the operations read, and the
completed sends plus the pending one are exactly the non-empty outputs of those operations -/
structure LoopInv (L : Layout) (x : Machine) (g : Ghost) : Prop where
  mapper : x.v.m = (Sys.run L Sys.init g.ops).s
  sends : (∃ msg, x.c = Ctl.done (some msg)) ∨ g.sent ++ x.c.pendingOut = nonEmptyOuts L Sys.init g.ops
  prefix_ : ∃ t, g.sent ++ t = nonEmptyOuts L Sys.init g.ops
  okctl : x.c ≠ Ctl.bad

theorem toPollTop_pendingOut (v : LoopVars) : (toPollTop v).c.pendingOut = [] ∧ (toPollTop v).v = v ∧
    (toPollTop v).c ≠ Ctl.bad ∧ (toPollTop v).c.isSend = false ∧ (toPollTop v).c.isPollTop = true := by
  unfold toPollTop; cases v.rep <;> simp [Ctl.pendingOut, Ctl.isSend, Ctl.isPollTop]

theorem drain_pendingOut (v : LoopVars) (devs : List Dev) : (drain v devs).c.pendingOut = [] ∧ (drain v devs).v = v ∧
    (drain v devs).c ≠ Ctl.bad ∧ (drain v devs).c.isSend = false := by
  cases devs with
  | nil => have := toPollTop_pendingOut v; exact ⟨this.1, this.2.1, this.2.2.1, this.2.2.2.1⟩
  | cons d rest => cases d <;> simp [drain, Ctl.pendingOut, Ctl.isSend]

theorem afterStep_pendingOut (v : LoopVars) (rest : List Dev) (rr : RRepeat) :
    (afterStep v rest rr).c.pendingOut = [] ∧ (afterStep v rest rr).v.m = v.m ∧
    (afterStep v rest rr).c ≠ Ctl.bad ∧ (afterStep v rest rr).c.isSend = false ∧
    (afterStep v rest rr).v.inTablet = v.inTablet := by
  cases rr <;> simp [afterStep, Ctl.pendingOut, Ctl.isSend]


theorem sys_run_snoc (L : Layout) (ops : List Op) (op : Op) :
    Sys.run L Sys.init (ops ++ [op]) = (Sys.run L Sys.init ops).next L op := by
  simp [Sys.run, List.foldl_append]

theorem nonEmptyOuts_snoc (L : Layout) (ops : List Op) (op : Op) :
    nonEmptyOuts L Sys.init (ops ++ [op]) =
      nonEmptyOuts L Sys.init ops ++
        (if ((Sys.run L Sys.init ops).out L op).isEmpty then [] else [(Sys.run L Sys.init ops).out L op]) := by
  rw [nonEmptyOuts_append]; simp [nonEmptyOuts]

theorem LoopInv.init {L : Layout} {x : Machine} (h : Machine.init L = some x) : LoopInv L x Ghost.init := by
  unfold Machine.init at h
  cases hf : forLayout L with
  | none => simp [hf] at h
  | some s =>
    simp only [hf, Option.some.injEq] at h
    subst h
    have hs : s = State.init := by
      unfold forLayout at hf; split at hf <;> simp at hf; exact hf.symm
    subst hs
    exact ⟨rfl, Or.inr rfl, ⟨[], rfl⟩, by simp⟩

/-! ### `advance`, case by case (each is the corresponding arm of the Rust loop) -/

section adv
variable (L : Layout) (v : LoopVars)

theorem adv_start : advance L ⟨v, Ctl.start⟩ Resp.unit = toPollTop v := rfl
theorem adv_sendChord (evs : List Event) : advance L ⟨v, Ctl.sendChord evs⟩ Resp.unit = toPollTop v := rfl
theorem adv_sleeping (ms : Nat) : advance L ⟨v, Ctl.sleeping ms⟩ Resp.unit = toPollTop v := rfl
theorem adv_sendStep (rest : List Dev) (evs : List Event) (rr : RRepeat) :
    advance L ⟨v, Ctl.sendStep rest evs rr⟩ Resp.unit = afterStep v rest rr := rfl
theorem adv_sendRel (rest : List Dev) (evs : List Event) :
    advance L ⟨v, Ctl.sendRel rest evs⟩ Resp.unit = ⟨v, Ctl.readTab rest⟩ := rfl
theorem adv_stepNow (rest : List Dev) (keys : List Key) (d i : Int) (now : Nat) :
    advance L ⟨v, Ctl.stepNow rest keys d i⟩ (Resp.time now) =
      ⟨{ v with rep := WorkingRepeat.repeating keys (now + msToNs (asU64 d)) i }, Ctl.readKbd rest⟩ := rfl
theorem adv_pollNow {keys : List Key} {nw : Nat} {iv : Int} (h : v.rep = WorkingRepeat.repeating keys nw iv) (now : Nat) :
    advance L ⟨v, Ctl.pollNow⟩ (Resp.time now) =
      ⟨v, Ctl.polling (some (if now ≥ nw then msToNs 1 else nw - now))⟩ := by
  simp [advance, h]
theorem adv_pollNow_idle (h : v.rep = WorkingRepeat.idle) (now : Nat) :
    advance L ⟨v, Ctl.pollNow⟩ (Resp.time now) = ⟨v, Ctl.bad⟩ := by
  simp [advance, h]
theorem adv_timedOut_idle (h : v.rep = WorkingRepeat.idle) (t : Option Nat) :
    advance L ⟨v, Ctl.polling t⟩ (Resp.poll PollRes.timedOut) = toPollTop v := by
  simp [advance, h]
theorem adv_timedOut_tablet {keys : List Key} {nw : Nat} {iv : Int} (h : v.rep = WorkingRepeat.repeating keys nw iv)
    (ht : v.inTablet = true) (t : Option Nat) :
    advance L ⟨v, Ctl.polling t⟩ (Resp.poll PollRes.timedOut) = toPollTop { v with rep := WorkingRepeat.idle } := by
  simp [advance, h, ht]
theorem adv_timedOut_chord {keys : List Key} {nw : Nat} {iv : Int} (h : v.rep = WorkingRepeat.repeating keys nw iv)
    (ht : v.inTablet = false) (t : Option Nat) :
    advance L ⟨v, Ctl.polling t⟩ (Resp.poll PollRes.timedOut) =
      if (chordOf v.m keys).isEmpty
      then toPollTop { v with rep := WorkingRepeat.repeating keys (nw + msToNs (asU64 iv)) iv }
      else ⟨{ v with rep := WorkingRepeat.repeating keys (nw + msToNs (asU64 iv)) iv }, Ctl.sendChord (chordOf v.m keys)⟩ := by
  simp [advance, h, ht]
theorem adv_interrupted (t : Option Nat) :
    advance L ⟨v, Ctl.polling t⟩ (Resp.poll PollRes.interrupted) =
      if v.restartCount + 1 > 1
      then ⟨{ v with restartCount := v.restartCount + 1 }, Ctl.sleeping (1000 * 2 ^ (v.restartCount + 1))⟩
      else toPollTop { v with restartCount := v.restartCount + 1 } := rfl
theorem adv_deviceEvent (t : Option Nat) (devs : List Dev) :
    advance L ⟨v, Ctl.polling t⟩ (Resp.poll (PollRes.deviceEvent devs)) = drain { v with restartCount := 0 } devs := rfl
theorem adv_kbd_busy (rest : List Dev) : advance L ⟨v, Ctl.readKbd rest⟩ (Resp.kbd Next.busy) = drain v rest := rfl
theorem adv_kbd_end (rest : List Dev) : advance L ⟨v, Ctl.readKbd rest⟩ (Resp.kbd Next.end_) = ⟨v, Ctl.done none⟩ := rfl
theorem adv_kbd_one_tablet (ht : v.inTablet = true) (rest : List Dev) (ev : Event) :
    advance L ⟨v, Ctl.readKbd rest⟩ (Resp.kbd (Next.one ev)) = ⟨v, Ctl.readKbd rest⟩ := by
  simp [advance, ht]
theorem adv_kbd_one (ht : v.inTablet = false) (rest : List Dev) (ev : Event) :
    advance L ⟨v, Ctl.readKbd rest⟩ (Resp.kbd (Next.one ev)) =
      if (step L v.m ev).2.events.isEmpty
      then afterStep { v with m := (step L v.m ev).1 } rest (step L v.m ev).2.rep
      else ⟨{ v with m := (step L v.m ev).1 }, Ctl.sendStep rest (step L v.m ev).2.events (step L v.m ev).2.rep⟩ := by
  simp [advance, ht]
theorem adv_tab_busy (rest : List Dev) : advance L ⟨v, Ctl.readTab rest⟩ (Resp.tab Next.busy) = drain v rest := rfl
theorem adv_tab_end (rest : List Dev) : advance L ⟨v, Ctl.readTab rest⟩ (Resp.tab Next.end_) = ⟨v, Ctl.done none⟩ := rfl
theorem adv_tab_one (rest : List Dev) (tev : TabletEv) :
    advance L ⟨v, Ctl.readTab rest⟩ (Resp.tab (Next.one tev)) =
      if (releaseAll L v.m).2.isEmpty
      then ⟨{ v with m := (releaseAll L v.m).1, rep := WorkingRepeat.idle,
                     inTablet := (match tev with | TabletEv.on => true | TabletEv.off => false) }, Ctl.readTab rest⟩
      else ⟨{ v with m := (releaseAll L v.m).1, rep := WorkingRepeat.idle,
                     inTablet := (match tev with | TabletEv.on => true | TabletEv.off => false) },
            Ctl.sendRel rest (releaseAll L v.m).2⟩ := rfl

end adv

/-- the pending call is a `Driver` method (not the clock, not `thread::sleep`, not finished) -/
def Ctl.isDriverCall : Ctl → Bool
  | Ctl.start => true
  | Ctl.polling _ => true
  | Ctl.sendChord _ => true
  | Ctl.readKbd _ => true
  | Ctl.sendStep _ _ _ => true
  | Ctl.readTab _ => true
  | Ctl.sendRel _ _ => true
  | _ => false

theorem adv_err (L : Layout) (v : LoopVars) (c : Ctl) (hc : c.isDriverCall = true) (msg : String) :
    advance L ⟨v, c⟩ (Resp.err msg) = ⟨v, Ctl.done (some msg)⟩ := by
  cases c <;> simp [Ctl.isDriverCall] at hc <;> rfl

/-- the invariant survives every answer (an ill-typed answer leads to `bad`, which a real driver cannot produce) -/
theorem LoopInv.advance {L : Layout} {x : Machine} {g : Ghost} (h : LoopInv L x g) (r : Resp)
    (hok : (advance L x r).c ≠ Ctl.bad) : LoopInv L (advance L x r) (ghostStep x r g) := by
  obtain ⟨v, c⟩ := x
  have hm := h.mapper
  have hs := h.sends
  have hp := h.prefix_
  simp only at hm hs
  have keepM : ∀ (M : Machine), M.v.m = v.m → M.c.pendingOut = [] → M.c ≠ Ctl.bad → c.pendingOut = [] →
      (∀ msg, c ≠ Ctl.done (some msg)) → LoopInv L M g := by
    intro M hv hc' hb hc hnd
    refine ⟨by rw [hv]; exact hm, Or.inr ?_, hp, hb⟩
    rcases hs with ⟨msg, hmsg⟩ | hs
    · exact absurd hmsg (hnd msg)
    · rw [hc']; rw [hc] at hs; exact hs
  have kTop : ∀ (v' : LoopVars), v'.m = v.m → c.pendingOut = [] → (∀ msg, c ≠ Ctl.done (some msg)) →
      LoopInv L (toPollTop v') g := by
    intro v' hv hc hnd
    have t := toPollTop_pendingOut v'
    exact keepM _ (by rw [t.2.1]; exact hv) t.1 t.2.2.1 hc hnd
  have kDrain : ∀ (v' : LoopVars) (devs : List Dev), v'.m = v.m → c.pendingOut = [] → (∀ msg, c ≠ Ctl.done (some msg)) →
      LoopInv L (drain v' devs) g := by
    intro v' devs hv hc hnd
    have t := drain_pendingOut v' devs
    exact keepM _ (by rw [t.2.1]; exact hv) t.1 t.2.2.1 hc hnd
  have toErr : ∀ msg, LoopInv L ⟨v, Ctl.done (some msg)⟩ g :=
    fun msg => ⟨hm, Or.inl ⟨msg, rfl⟩, hp, by simp⟩
  have hsent : c.pendingOut = [] → (∀ msg, c ≠ Ctl.done (some msg)) → g.sent = nonEmptyOuts L Sys.init g.ops := by
    intro hc hnd
    rcases hs with ⟨msg, hmsg⟩ | hs
    · exact absurd hmsg (hnd msg)
    · rw [hc] at hs; simpa using hs
  cases r with
  | err msg =>
    cases c <;> first
      | (exact absurd rfl hok)
      | (rw [adv_err L v _ rfl msg]; exact toErr msg)
  | unit =>
    cases c <;> try (exact absurd rfl hok)
    · rw [adv_start]; exact kTop v rfl rfl (by simp)
    · rw [adv_sendChord]; exact kTop v rfl rfl (by simp)
    · rw [adv_sleeping]; exact kTop v rfl rfl (by simp)
    · rename_i rest evs rr
      rw [adv_sendStep]
      have t := afterStep_pendingOut v rest rr
      have hs' : g.sent ++ [evs] = nonEmptyOuts L Sys.init g.ops := by
        rcases hs with ⟨msg, hmsg⟩ | hs
        · simp at hmsg
        · simpa [Ctl.pendingOut] using hs
      refine ⟨by rw [t.2.1]; exact hm, Or.inr ?_, ⟨[], ?_⟩, t.2.2.1⟩
      · rw [t.1]; simpa [ghostStep] using hs'
      · simpa [ghostStep] using hs'
    · rename_i rest evs
      rw [adv_sendRel]
      have hs' : g.sent ++ [evs] = nonEmptyOuts L Sys.init g.ops := by
        rcases hs with ⟨msg, hmsg⟩ | hs
        · simp at hmsg
        · simpa [Ctl.pendingOut] using hs
      refine ⟨hm, Or.inr ?_, ⟨[], ?_⟩, by simp⟩
      · simpa [ghostStep, Ctl.pendingOut] using hs'
      · simpa [ghostStep] using hs'
  | time t =>
    cases c <;> try (exact absurd rfl hok)
    · cases hrep : v.rep with
      | idle => rw [adv_pollNow_idle L v hrep] at hok; exact absurd rfl hok
      | repeating keys nw iv => rw [adv_pollNow L v hrep]; exact keepM _ rfl rfl (by simp) rfl (by simp)
    · rw [adv_stepNow]; exact keepM _ rfl rfl (by simp) rfl (by simp)
  | poll pr =>
    cases c <;> try (exact absurd rfl hok)
    rename_i tmo
    cases pr with
    | timedOut =>
      cases hrep : v.rep with
      | idle => rw [adv_timedOut_idle L v hrep]; exact kTop v rfl rfl (by simp)
      | repeating keys nw iv =>
        cases hit : v.inTablet with
        | true => rw [adv_timedOut_tablet L v hrep hit]; exact kTop _ rfl rfl (by simp)
        | false =>
          rw [adv_timedOut_chord L v hrep hit]
          split
          · exact kTop _ rfl rfl (by simp)
          · exact keepM _ rfl rfl (by simp) rfl (by simp)
    | interrupted =>
      rw [adv_interrupted]
      split
      · exact keepM _ rfl rfl (by simp) rfl (by simp)
      · exact kTop _ rfl rfl (by simp)
    | deviceEvent devs => rw [adv_deviceEvent]; exact kDrain _ devs rfl rfl (by simp)
  | kbd n =>
    cases c <;> try (exact absurd rfl hok)
    rename_i rest
    cases n with
    | busy => rw [adv_kbd_busy]; exact kDrain v rest rfl rfl (by simp)
    | end_ => rw [adv_kbd_end]; exact keepM _ rfl rfl (by simp) rfl (by simp)
    | one ev =>
      cases hit : v.inTablet with
      | true =>
        rw [adv_kbd_one_tablet L v hit]
        have : ghostStep ⟨v, Ctl.readKbd rest⟩ (Resp.kbd (Next.one ev)) g = g := by simp [ghostStep, hit]
        rw [this]; exact keepM _ rfl rfl (by simp) rfl (by simp)
      | false =>
        rw [adv_kbd_one L v hit]
        have hg : ghostStep ⟨v, Ctl.readKbd rest⟩ (Resp.kbd (Next.one ev)) g = { g with ops := g.ops ++ [Op.ev ev] } := by
          simp [ghostStep, hit]
        rw [hg]
        have hnext : (Sys.run L Sys.init (g.ops ++ [Op.ev ev])).s = (step L v.m ev).1 := by
          rw [sys_run_snoc]; simp only [Sys.next]; rw [← hm]
        have hout : (Sys.run L Sys.init g.ops).out L (Op.ev ev) = (step L v.m ev).2.events := by
          simp only [Sys.out]; rw [← hm]
        have hs' := hsent rfl (by simp)
        split
        · rename_i hemp
          have t := afterStep_pendingOut { v with m := (step L v.m ev).1 } rest (step L v.m ev).2.rep
          refine ⟨by rw [t.2.1]; exact hnext.symm, Or.inr ?_, ⟨[], ?_⟩, t.2.2.1⟩
          · rw [t.1]; simp only; rw [nonEmptyOuts_snoc, hout]; simp [hemp, hs']
          · simp only; rw [nonEmptyOuts_snoc, hout]; simp [hemp, hs']
        · rename_i hemp
          refine ⟨hnext.symm, Or.inr ?_, ⟨[(step L v.m ev).2.events], ?_⟩, by simp⟩
          · simp only; rw [nonEmptyOuts_snoc, hout]; simp [hemp, hs', Ctl.pendingOut]
          · simp only; rw [nonEmptyOuts_snoc, hout]; simp [hemp, hs']
  | tab n =>
    cases c <;> try (exact absurd rfl hok)
    rename_i rest
    cases n with
    | busy => rw [adv_tab_busy]; exact kDrain v rest rfl rfl (by simp)
    | end_ => rw [adv_tab_end]; exact keepM _ rfl rfl (by simp) rfl (by simp)
    | one tev =>
      rw [adv_tab_one]
      have hg : ghostStep ⟨v, Ctl.readTab rest⟩ (Resp.tab (Next.one tev)) g = { g with ops := g.ops ++ [Op.relAll] } := rfl
      rw [hg]
      have hnext : (Sys.run L Sys.init (g.ops ++ [Op.relAll])).s = (releaseAll L v.m).1 := by
        rw [sys_run_snoc]; simp only [Sys.next]; rw [← hm]
      have hout : (Sys.run L Sys.init g.ops).out L Op.relAll = (releaseAll L v.m).2 := by
        simp only [Sys.out]; rw [← hm]
      have hs' := hsent rfl (by simp)
      split
      · rename_i hemp
        refine ⟨hnext.symm, Or.inr ?_, ⟨[], ?_⟩, by simp⟩
        · simp only; rw [nonEmptyOuts_snoc, hout]; simp [hemp, hs', Ctl.pendingOut]
        · simp only; rw [nonEmptyOuts_snoc, hout]; simp [hemp, hs']
      · rename_i hemp
        refine ⟨hnext.symm, Or.inr ?_, ⟨[(releaseAll L v.m).2], ?_⟩, by simp⟩
        · simp only; rw [nonEmptyOuts_snoc, hout]; simp [hemp, hs', Ctl.pendingOut]
        · simp only; rw [nonEmptyOuts_snoc, hout]; simp [hemp, hs']

end TmVerif
