/-
Keys that appear nowhere in the layout ("foreign" keys): they are never mapped, never absorbed, and
every step treats their pass-through membership as C05 says.
-/
import TmVerif.Proofs.PassKeep

namespace TmVerif

theorem foreign_iff (L : Layout) (k : Key) :
    foreign L k = true ↔ ∀ m, m ∈ L → k ∉ m.frm ∧ k ∉ m.to ∧ k ∉ m.absorbing := by
  simp [foreign, and_assoc]

theorem mem_addAbsorbed (a b : List Key) (x : Key) : x ∈ addAbsorbed a b → x ∈ a ∨ x ∈ b := by
  induction b generalizing a with
  | nil => exact fun h => Or.inl h
  | cons y b ih =>
    simp only [addAbsorbed]
    split
    · intro h; rcases ih a h with h1 | h1
      · exact Or.inl h1
      · exact Or.inr (by simp [h1])
    · intro h; rcases ih (a ++ [y]) h with h1 | h1
      · simp at h1; rcases h1 with h1 | h1
        · exact Or.inl h1
        · exact Or.inr (by simp [h1])
      · exact Or.inr (by simp [h1])

/-- every absorbed key comes from the absorbing list of a mapping of the layout -/
def AbsL (L : Layout) (s : State) : Prop := ∀ x, x ∈ s.absorbed → ∃ m, m ∈ L ∧ x ∈ m.absorbing

theorem addPhase2_absorbed_sub {extra : List Key} (s : State) (k : Key) (m : Mapping) (h : IInv extra s) (x : Key)
    (hx : x ∈ (addPhase2 s k m).1.absorbed) : x ∈ s.absorbed := by
  have hf := ramIf_frame m s
  cases hb : absorbsNow s k m
  · rw [addPhase2_skip s k m hb, hf.2.2.1] at hx; exact hx
  · rw [addPhase2_run s k m hb] at hx
    have := (releaseAbsorbedKeys_spec _ (ramIf_spec m h).1).2.2.1
    change x ∈ (releaseAbsorbedKeys (ramIf m s).1).1.absorbed at hx
    rw [this] at hx; simp at hx

theorem addNewMapping_absorbed_sub (s : State) (k : Key) (m : Mapping) (h : IInv [] s) (x : Key)
    (hx : x ∈ (addNewMapping s k m).1.absorbed) : x ∈ s.absorbed ∨ x ∈ m.absorbing := by
  rw [addNewMapping_eq] at hx
  simp only [addPhase1_eq] at hx
  rw [(addPhase4_frame _ k m).1] at hx
  have c1 := (consume_spec s m h).1
  simp only [List.nil_append] at c1
  have d1 := (addPhase2_spec (afterConsume s m) k m c1).1
  have pa := pressAll_spec (addPhase2 (afterConsume s m) k m).1 m.to d1 (fun _ hx => hx)
  have h3 : (addPhase3 (addPhase2 (afterConsume s m) k m).1 k m).1.absorbed =
      addAbsorbed (pressAll (addPhase2 (afterConsume s m) k m).1 m.to).1.absorbed m.absorbing := by
    unfold addPhase3; split <;> rfl
  rw [h3, pa.2.2.2.2.2.2.2.2.2.2.1] at hx
  rcases mem_addAbsorbed _ _ x hx with h4 | h4
  · exact Or.inl (addPhase2_absorbed_sub (afterConsume s m) k m c1 x h4)
  · exact Or.inr h4

theorem passThrough_absorbed_sub (s : State) (k : Key) (h : IInv [] s) (x : Key)
    (hx : x ∈ (passThrough s k).1.absorbed) : x ∈ s.absorbed := by
  unfold passThrough at hx
  cases ha : isActionKey k
  · simpa [ha] using hx
  · simp only [ha, if_true] at hx
    have := (releaseAbsorbedKeys_spec _ (releaseActionMappings_spec h).1).2.2.1
    rw [this] at hx; simp at hx

theorem AbsL.step {L : Layout} {P : List Key} {s : State} (h : Inv L P s) (ha : AbsL L s) (e : Event) :
    AbsL L (TmVerif.step L s e).1 := by
  cases e with
  | pressed k =>
    by_cases hk : k ∈ s.inp
    · rw [step_pressed_ignored L s k hk]; exact ha
    · rw [step_pressed_accepted L s k hk]
      have h0 := pressPrep_iinv k h.i
      have hp : ∀ x, x ∈ (pressPrep s k).absorbed → x ∈ s.absorbed := by
        intro x hx; simp [pressPrep] at hx; exact hx.1
      cases hf : findMapping L s k with
      | some m =>
        rw [newlyPress_fire hf]
        intro x hx
        rcases addNewMapping_absorbed_sub _ k m h0 x hx with h1 | h1
        · exact ha x (hp x h1)
        · exact ⟨m, (findMapping_some hf).1, h1⟩
      | none =>
        cases hc : noHit s k with
        | true =>
          rw [newlyPress_pass hf hc]
          intro x hx; exact ha x (hp x (passThrough_absorbed_sub _ k h0 x hx))
        | false =>
          rw [newlyPress_skip hf hc]
          intro x hx; exact ha x (hp x hx)
  | released k =>
    by_cases hk : k ∈ s.inp
    · rw [step_released_accepted L s k hk]
      intro x hx
      have : (newlyRelease s k).1.absorbed = s.absorbed := (releaseKey_spec k h.i).2.2.2.1
      rw [this] at hx; exact ha x hx
    · rw [step_released_ignored L s k hk]; exact ha

theorem AbsL.relAllLoop {L : Layout} {P : List Key} (ks : List Key) {s : State} (h : Inv L P s) (ha : AbsL L s) :
    AbsL L (releaseAllLoop L s ks).1 := by
  induction ks generalizing s with
  | nil => exact ha
  | cons k ks ih =>
    show AbsL L (releaseAllLoop L (TmVerif.step L s (Event.released k)).1 ks).1
    have hs := step_inv L P s (Event.released k) h
    have hs1 : Inv L P (TmVerif.step L s (Event.released k)).1 :=
      hs.1.monoP (by intro x hx; simp at hx; exact hx.1)
    exact ih hs1 (AbsL.step h ha _)

theorem AbsL.relAll {L : Layout} {P : List Key} {s : State} (h : Inv L P s) (ha : AbsL L s) :
    AbsL L (releaseAll L s).1 := AbsL.relAllLoop s.inp h ha

theorem Reachable.absL {L : Layout} {x : Sys} (h : Reachable L x) : AbsL L x.s := by
  obtain ⟨ops, rfl⟩ := h
  suffices ∀ (y : Sys), SInv L y → AbsL L y.s → AbsL L (Sys.run L y ops).s from
    this Sys.init (SInv.init L) (by intro x hx; simp [Sys.init, State.init] at hx)
  induction ops with
  | nil => exact fun y _ ha => ha
  | cons op ops ih =>
    intro y hy ha
    simp only [Sys.run, List.foldl_cons]
    apply ih _ (hy.next op).1
    cases op with
    | ev e => exact AbsL.step hy.inv ha e
    | relAll => exact AbsL.relAll hy.inv ha

/-- a foreign key is never a mapped output key, never absorbed -/
theorem foreign_not_mapped {L : Layout} {P : List Key} {s : State} (h : Inv L P s) {k : Key}
    (hf : foreign L k = true) : k ∉ s.mapped := by
  intro hm
  rcases h.i.mappedAct k hm with h1 | ⟨m, hma, hk⟩
  · simp at h1
  · exact ((foreign_iff L k).mp hf m (h.actL m hma)).2.1 hk

theorem foreign_not_absorbed {L : Layout} {s : State} (ha : AbsL L s) {k : Key}
    (hf : foreign L k = true) : k ∉ s.absorbed := by
  intro hm
  obtain ⟨m, hmL, hk⟩ := ha k hm
  exact ((foreign_iff L k).mp hf m hmL).2.2 hk

/-- firing `m` (which does not mention the foreign key `k`): `k` stays in pass-through, unless `m` is
a no-repeat mapping and `k` is a non-modifier key -/
theorem addNewMapping_foreign_pass (s : State) (k0 : Key) (m : Mapping) (h : IInv [] s) (k : Key)
    (h1 : k ∉ m.frm) (h2 : k ∉ m.to) (hm : k ∉ s.mapped) (ha : k ∉ s.absorbed) :
    (k ∈ (addNewMapping s k0 m).1.pass ↔ k ∈ s.pass ∧ (m.rep.isNormal = true ∨ isActionKey k = false)) := by
  rw [addNewMapping_eq]
  simp only [addPhase1_eq]
  have c1 := (consume_spec s m h).1
  simp only [List.nil_append] at c1
  have p1 := afterConsume_pass s m k h1 h2
  have hm1 : k ∉ (afterConsume s m).mapped := fun hh => hm (p1.2.mp hh)
  -- phase 2
  have p2 : (k ∈ (addPhase2 (afterConsume s m) k0 m).1.pass ↔ k ∈ (afterConsume s m).pass) ∧
      k ∉ (addPhase2 (afterConsume s m) k0 m).1.mapped := by
    have r1 : k ∈ (ramIf m (afterConsume s m)).1.pass ↔ k ∈ (afterConsume s m).pass := by
      cases hact : producesActionKey m
      · rw [ramIf_false m _ hact]
      · rw [ramIf_true m _ hact]; exact ram_pass (afterConsume s m) k hm1 c1
    have hr1 := ramIf_spec m c1
    have hm2 : k ∉ (ramIf m (afterConsume s m)).1.mapped := fun hh => hm1 (hr1.2.mappedSub k hh)
    cases hb : absorbsNow (afterConsume s m) k0 m
    · rw [addPhase2_skip _ k0 m hb]; exact ⟨r1, hm2⟩
    · rw [addPhase2_run _ k0 m hb]
      have hf := ramIf_frame m (afterConsume s m)
      have r2 := releaseAbsorbedKeys_pass (ramIf m (afterConsume s m)).1 k
        (by rw [hf.2.2.1]; exact ha) hm2 hr1.1
      have r3 := afterConsume_pass (releaseAbsorbedKeys (ramIf m (afterConsume s m)).1).1 m k h1 h2
      exact ⟨r3.1.trans (r2.1.trans r1), fun hh => r2.2 (r3.2.mp hh)⟩
  have d1 := (addPhase2_spec (afterConsume s m) k0 m c1).1
  have p3 := pressAll_pass (addPhase2 (afterConsume s m) k0 m).1 m.to k h2
  have hpass3 : (addPhase3 (addPhase2 (afterConsume s m) k0 m).1 k0 m).1.pass =
      (pressAll (addPhase2 (afterConsume s m) k0 m).1 m.to).1.pass := by
    unfold addPhase3; split <;> rfl
  have base : k ∈ (addPhase3 (addPhase2 (afterConsume s m) k0 m).1 k0 m).1.pass ↔ k ∈ s.pass := by
    rw [hpass3]; exact p3.1.trans (p2.1.trans p1.1)
  cases hr : m.rep with
  | normal =>
    simp only [addPhase4, hr, Repeat.isNormal]
    rw [base]; simp
  | disabled =>
    simp only [addPhase4, hr, Repeat.isNormal]
    rw [(raak_pass _ k).1, base]; simp
  | special ks d i =>
    simp only [addPhase4, hr, Repeat.isNormal]
    rw [(raak_pass _ k).1, base]; simp

theorem passThrough_foreign_pass (s : State) (k0 k : Key) (hne : k ≠ k0) (h : IInv [] s)
    (hm : k ∉ s.mapped) (ha : k ∉ s.absorbed) :
    k ∈ (passThrough s k0).1.pass ↔ k ∈ s.pass := by
  unfold passThrough
  cases hact : isActionKey k0
  · simp [hne]
  · simp only [if_true]
    have r1 := ram_pass s k hm h
    have hr1 := releaseActionMappings_spec h
    have hm2 : k ∉ (releaseActionMappings s).1.mapped := fun hh => hm (hr1.2.mappedSub k hh)
    have hf := releaseActionMappings_frame s
    have r2 := releaseAbsorbedKeys_pass (releaseActionMappings s).1 k (by rw [hf.2.2.1]; exact ha) hm2 hr1.1
    simp only [List.mem_append, List.mem_singleton, hne, or_false]
    exact r2.1.trans r1

end TmVerif
