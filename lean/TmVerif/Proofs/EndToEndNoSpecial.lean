/-
Layouts without Special-repeat mappings: a step never asks for a repeat, so the loop's repeat stays
idle, no chord is ever sent, and ALL sends of the loop model are the step / release-all sends.
-/
import TmVerif.Proofs.EndToEndTimed
import TmVerif.Proofs.Inv

namespace TmVerif

/-- no mapping of the layout has a Special repeat -/
def NoSpecial (L : Layout) : Prop := ∀ m ∈ L, ∀ ks d i, m.rep ≠ Repeat.special ks d i

/-- `add_new_mapping` of a mapping that is not Special never asks for a repeat -/
theorem addNewMapping_rep_noSpecial (s : State) (k : Key) (m : Mapping)
    (hm : ∀ ks d i, m.rep ≠ Repeat.special ks d i) :
    ∀ ks d i, (addNewMapping s k m).2.rep ≠ RRepeat.repeating ks d i := by
  intro ks d i
  simp only [addNewMapping, addPhase4]
  cases hr : m.rep with
  | normal => simp
  | disabled => simp
  | special ks' d' i' => exact absurd hr (hm ks' d' i')

/-- a step on such a layout never asks for a repeat -/
theorem step_rep_noSpecial (L : Layout) (hL : NoSpecial L) (s : State) (e : Event) :
    ∀ ks d i, (step L s e).2.rep ≠ RRepeat.repeating ks d i := by
  intro ks d i
  cases e with
  | pressed k =>
    simp only [step]
    split
    · simp only [newlyPress]
      cases hf : findMapping L s k with
      | some m =>
        simp only
        exact addNewMapping_rep_noSpecial _ k m (hL m (findMapping_some hf).1) ks d i
      | none =>
        simp only
        split <;> simp
    · simp
  | released k =>
    simp only [step]
    split
    · simp [newlyRelease]
    · simp

/-- the control points that exist only while a repeat is being armed or fired -/
def Ctl.noRepeat : Ctl → Prop
  | Ctl.sendChord _ => False
  | Ctl.stepNow _ _ _ _ => False
  | Ctl.sendStep _ _ (RRepeat.repeating _ _ _) => False
  | _ => True

/-- the loop's repeat is idle and the control point is none of the repeat ones -/
def Idle (x : Machine) : Prop := x.v.rep = WorkingRepeat.idle ∧ x.c.noRepeat

theorem Idle.not_sendChord {x : Machine} (h : Idle x) : ∀ evs, x.c ≠ Ctl.sendChord evs := by
  intro evs hc; have := h.2; rw [hc] at this; exact this

theorem Idle.not_stepNow {x : Machine} (h : Idle x) : ∀ rest ks d i, x.c ≠ Ctl.stepNow rest ks d i := by
  intro rest ks d i hc; have := h.2; rw [hc] at this; exact this

theorem Idle.not_sendStep_repeating {x : Machine} (h : Idle x) :
    ∀ rest evs ks d i, x.c ≠ Ctl.sendStep rest evs (RRepeat.repeating ks d i) := by
  intro rest evs ks d i hc; have := h.2; rw [hc] at this; exact this

theorem Idle.init {L : Layout} {x : Machine} (h : Machine.init L = some x) : Idle x := by
  rw [Machine.init_eq h]; exact ⟨rfl, trivial⟩

theorem toPollTop_idle {v : LoopVars} (h : v.rep = WorkingRepeat.idle) : Idle (toPollTop v) := by
  unfold toPollTop; rw [h]; exact ⟨h, trivial⟩

theorem drain_idle {v : LoopVars} (h : v.rep = WorkingRepeat.idle) (devs : List Dev) : Idle (drain v devs) := by
  cases devs with
  | nil => exact toPollTop_idle h
  | cons d rest => cases d <;> exact ⟨h, trivial⟩

theorem afterStep_idle {v : LoopVars} (h : v.rep = WorkingRepeat.idle) (rest : List Dev) (rr : RRepeat)
    (hrr : ∀ ks d i, rr ≠ RRepeat.repeating ks d i) : Idle (afterStep v rest rr) := by
  cases rr with
  | disabled => exact ⟨rfl, trivial⟩
  | noChange => exact ⟨h, trivial⟩
  | repeating ks d i => exact absurd rfl (hrr ks d i)

/-- the invariant survives every answer -/
theorem Idle.advance {L : Layout} (hL : NoSpecial L) {x : Machine} (h : Idle x) (r : Resp) :
    Idle (advance L x r) := by
  obtain ⟨v, c⟩ := x
  have hv : v.rep = WorkingRepeat.idle := h.1
  have hc : c.noRepeat := h.2
  cases r with
  | err msg => cases c <;> exact ⟨hv, trivial⟩
  | unit =>
    cases c <;> try (exact ⟨hv, trivial⟩)
    · rw [adv_start]; exact toPollTop_idle hv
    · rw [adv_sendChord]; exact toPollTop_idle hv
    · rw [adv_sleeping]; exact toPollTop_idle hv
    · rename_i rest evs rr
      rw [adv_sendStep]
      refine afterStep_idle hv rest rr ?_
      intro ks d i hrr; subst hrr; exact hc
  | time t =>
    cases c <;> try (exact ⟨hv, trivial⟩)
    · rw [adv_pollNow_idle L v hv]; exact ⟨hv, trivial⟩
    · exact absurd hc id
  | poll pr =>
    cases c <;> try (exact ⟨hv, trivial⟩)
    rename_i tmo
    cases pr with
    | timedOut => rw [adv_timedOut_idle L v hv]; exact toPollTop_idle hv
    | interrupted =>
      rw [adv_interrupted]
      split
      · exact ⟨hv, trivial⟩
      · exact toPollTop_idle (v := { v with restartCount := v.restartCount + 1 }) hv
    | deviceEvent devs => rw [adv_deviceEvent]; exact drain_idle (v := { v with restartCount := 0 }) hv devs
  | kbd n =>
    cases c <;> try (exact ⟨hv, trivial⟩)
    rename_i rest
    cases n with
    | busy => rw [adv_kbd_busy]; exact drain_idle hv rest
    | end_ => rw [adv_kbd_end]; exact ⟨hv, trivial⟩
    | one ev =>
      cases hit : v.inTablet with
      | true => rw [adv_kbd_one_tablet L v hit]; exact ⟨hv, trivial⟩
      | false =>
        rw [adv_kbd_one L v hit]
        have hrr := step_rep_noSpecial L hL v.m ev
        split
        · exact afterStep_idle (v := { v with m := (step L v.m ev).1 }) hv rest _ hrr
        · refine ⟨hv, ?_⟩
          show Ctl.noRepeat (Ctl.sendStep rest _ (step L v.m ev).2.rep)
          generalize (step L v.m ev).2.rep = rr at hrr
          cases rr with
          | disabled => trivial
          | noChange => trivial
          | repeating ks d i => exact absurd rfl (hrr ks d i)
  | tab n =>
    cases c <;> try (exact ⟨hv, trivial⟩)
    rename_i rest
    cases n with
    | busy => rw [adv_tab_busy]; exact drain_idle hv rest
    | end_ => rw [adv_tab_end]; exact ⟨hv, trivial⟩
    | one tev =>
      rw [adv_tab_one]
      split <;> exact ⟨rfl, trivial⟩

/-- the call an idle machine is blocked on is not a chord send: it counts the same in `allSends` and `callsSends` -/
theorem allSends_cons_idle {x : Machine} (h : Idle x) {c : Call} (hp : pending x = some c) (cs : List Call)
    (ih : allSends cs = callsSends cs) : allSends (c :: cs) = callsSends (c :: cs) := by
  obtain ⟨v, ct⟩ := x
  have hc : ct.noRepeat := h.2
  cases ct <;> simp only [pending, Option.some.injEq, reduceCtorEq] at hp <;> subst hp <;>
    first
    | exact absurd hc id
    | simp [allSends, callsSends, ih]

/-- from ANY idle machine: no chord is ever sent -/
theorem allSends_eq_callsSends_of_idle (L : Layout) (hL : NoSpecial L) (x : Machine) (hx : Idle x)
    (rs : List Resp) : allSends (runScript L x rs).1 = callsSends (runScript L x rs).1 := by
  induction rs generalizing x with
  | nil => rfl
  | cons r rs ih =>
    simp only [runScript]
    cases hp : pending x with
    | none => rfl
    | some c =>
      simp only
      exact allSends_cons_idle hx hp _ (ih _ (hx.advance hL r))

/-- … so the loop's repeat stays idle and no chord is ever sent: all sends are step / release-all sends -/
theorem allSends_eq_callsSends_noSpecial (L : Layout) (hL : NoSpecial L) (x0 : Machine) (h0 : Machine.init L = some x0)
    (rs : List Resp) : allSends (runScript L x0 rs).1 = callsSends (runScript L x0 rs).1 :=
  allSends_eq_callsSends_of_idle L hL x0 (Idle.init h0) rs

/-- and there are no chord sends among the calls -/
theorem callsChords_nil_of_idle (L : Layout) (hL : NoSpecial L) (x : Machine) (hx : Idle x)
    (rs : List Resp) : callsChords (runScript L x rs).1 = [] := by
  induction rs generalizing x with
  | nil => rfl
  | cons r rs ih =>
    simp only [runScript]
    cases hp : pending x with
    | none => rfl
    | some c =>
      simp only
      have ih' := ih _ (hx.advance hL r)
      obtain ⟨v, ct⟩ := x
      have hc : ct.noRepeat := hx.2
      cases ct <;> simp only [pending, Option.some.injEq, reduceCtorEq] at hp <;> subst hp <;>
        first
        | exact absurd hc id
        | simp [callsChords, ih']

theorem callsChords_nil_noSpecial (L : Layout) (hL : NoSpecial L) (x0 : Machine) (h0 : Machine.init L = some x0)
    (rs : List Resp) : callsChords (runScript L x0 rs).1 = [] :=
  callsChords_nil_of_idle L hL x0 (Idle.init h0) rs

end TmVerif

#print axioms TmVerif.step_rep_noSpecial
#print axioms TmVerif.Idle.advance
#print axioms TmVerif.allSends_eq_callsSends_noSpecial
#print axioms TmVerif.callsChords_nil_noSpecial
