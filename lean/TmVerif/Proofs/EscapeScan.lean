/-
Pass 1 of `parseExecStart` (the scanner) run on the output of the escaper: lemmas per character
class.  Core Lean only.
-/
import TmVerif.Model.Escape
import TmVerif.Model.Systemd

namespace TmVerif

/-! ### the scanner is a left fold -/

theorem scan_of_eq {s s' : Scan} {a : List Char} (b : List Char) (h : scan s a = some s') :
    scan s (a ++ b) = scan s' b := by
  induction a generalizing s with
  | nil => simp [scan] at h; subst h; rfl
  | cons c cs ih =>
    simp only [List.cons_append, scan] at h ⊢
    cases hs : scanStep s c with
    | none => simp [hs] at h
    | some t => simp only [hs] at h ⊢; exact ih h

theorem scan_cons {s s' : Scan} {c : Char} (l : List Char) (h : scanStep s c = some s') :
    scan s (c :: l) = scan s' l := by
  simp [scan, h]

/-! ### plain characters and literal words -/

/-- characters without meaning for pass 1 -/
def plain (c : Char) : Bool :=
  !(c = '\\' || c = '\'' || c = '"' || isSep c)

theorem step_plain (done : List (List Char)) (cur : List Char) (c : Char) (h : plain c = true) :
    scanStep (.word done cur .off none) c = some (.word done (cur ++ [c]) .off none) := by
  simp only [plain, Bool.not_eq_true', Bool.or_eq_false_iff, decide_eq_false_iff_not] at h
  obtain ⟨⟨⟨h1, h2⟩, h3⟩, h4⟩ := h
  simp [scanStep, wordStep, h1, h2, h3, h4]

theorem scan_plain (done : List (List Char)) (w : List Char) (rest : List Char) :
    ∀ cur, (∀ c ∈ w, plain c = true) →
      scan (.word done cur .off none) (w ++ rest) = scan (.word done (cur ++ w) .off none) rest := by
  induction w with
  | nil => intro cur _; simp
  | cons c cs ih =>
    intro cur h
    rw [List.cons_append, scan_cons _ (step_plain done cur c (h c (by simp)))]
    rw [ih (cur ++ [c]) (fun x hx => h x (by simp [hx]))]
    simp

/-- the first character of a word: not a separator, not `;` -/
theorem step_between (done : List (List Char)) (c : Char) (h1 : isSep c = false) (h2 : c ≠ ';') :
    scanStep (.between done) c = scanStep (.word done [] .off none) c := by
  simp [scanStep, h1, h2]

theorem scan_between (done : List (List Char)) (c : Char) (l : List Char)
    (h1 : isSep c = false) (h2 : c ≠ ';') :
    scan (.between done) (c :: l) = scan (.word done [] .off none) (c :: l) := by
  simp only [scan, step_between done c h1 h2]

theorem step_space (done : List (List Char)) (cur : List Char) :
    scanStep (.word done cur .off none) ' ' = some (.between (done ++ [cur])) := by
  simp [scanStep, wordStep, isSep]

theorem step_between_space (done : List (List Char)) :
    scanStep (.between done) ' ' = some (.between done) := by
  simp [scanStep, isSep]

/-- a literal word followed by a space -/
theorem scan_literal (done : List (List Char)) (c : Char) (w rest : List Char)
    (h : ∀ x ∈ c :: w, plain x = true) (hc : c ≠ ';') :
    scan (.between done) ((c :: w) ++ ' ' :: rest) = scan (.between (done ++ [c :: w])) rest := by
  have hp := h c (by simp)
  have hs : isSep c = false := by
    simp only [plain, Bool.not_eq_true', Bool.or_eq_false_iff] at hp; exact hp.2
  rw [List.cons_append, scan_between done c _ hs hc, ← List.cons_append,
    scan_plain done (c :: w) _ [] h, scan_cons _ (step_space done _)]
  simp

theorem scan_literal' (done : List (List Char)) (w rest : List Char) (c : Char) (t : List Char)
    (e : w = c :: t) (h : ∀ x ∈ w, plain x = true) (hc : c ≠ ';') :
    scan (.between done) (w ++ ' ' :: rest) = scan (.between (done ++ [w])) rest := by
  subst e; exact scan_literal done c t rest h hc

/-! ### numeric escapes -/

theorem digitVal_hexDigit : ∀ d, d < 16 → digitVal 16 (hexDigit d) = some d := by decide

theorem scan_hexFixed (done : List (List Char)) (cur : List Char) (q : Quote) (byte : Bool) :
    ∀ k j acc m rest, m < 16 ^ k →
      scan (.word done cur q (some (.num 16 (k + j + 1) acc byte))) (hexFixed k m ++ rest)
        = scan (.word done cur q (some (.num 16 (j + 1) (acc * 16 ^ k + m) byte))) rest := by
  intro k
  induction k with
  | zero => intro j acc m rest h; simp at h; subst h; simp [hexFixed]
  | succ k ih =>
    intro j acc m rest h
    have hm : m / 16 < 16 ^ k := by
      rw [Nat.pow_succ] at h; omega
    have hd := digitVal_hexDigit (m % 16) (Nat.mod_lt _ (by decide))
    have e1 : k + 1 + j + 1 = k + (j + 1) + 1 := by omega
    rw [hexFixed, List.append_assoc, e1, ih (j + 1) acc (m / 16) _ hm]
    have hstep : scanStep (.word done cur q (some (.num 16 (j + 1 + 1) (acc * 16 ^ k + m / 16) byte)))
          (hexDigit (m % 16))
        = some (.word done cur q (some (.num 16 (j + 1) (acc * 16 ^ (k + 1) + m) byte))) := by
      simp only [scanStep, wordStep, hd]
      have : ¬ (j + 1 + 1 ≤ 1) := by omega
      simp only [this, if_false]
      have e2 : (acc * 16 ^ k + m / 16) * 16 + m % 16 = acc * 16 ^ (k + 1) + m := by
        rw [Nat.pow_succ, ← Nat.mul_assoc]
        generalize acc * 16 ^ k = t
        omega
      simp [e2]
    simp only [List.singleton_append]
    rw [scan_cons _ hstep]

/-- `\x`, `\u`, `\U` followed by exactly the required number of lower-case hex digits -/
theorem scan_hexEscape (done : List (List Char)) (cur : List Char) (q : Quote) (byte : Bool)
    (k n : Nat) (ch : Char) (rest : List Char) (hn : n < 16 ^ (k + 1))
    (hv : numEscape byte n = some ch) :
    scan (.word done cur q (some (.num 16 (k + 1) 0 byte))) (hexPad (k + 1) n ++ rest)
      = scan (.word done (cur ++ [ch]) q none) rest := by
  have hm : n / 16 < 16 ^ k := by rw [Nat.pow_succ] at hn; omega
  have hd := digitVal_hexDigit (n % 16) (Nat.mod_lt _ (by decide))
  have := scan_hexFixed done cur q byte k 0 0 (n / 16) (hexDigit (n % 16) :: rest) hm
  simp only [Nat.add_zero, Nat.zero_mul, Nat.zero_add] at this
  rw [hexPad, if_pos hn, hexFixed, List.append_assoc, List.singleton_append, this]
  have hstep : scanStep (.word done cur q (some (.num 16 1 (n / 16) byte))) (hexDigit (n % 16))
      = some (.word done (cur ++ [ch]) q none) := by
    have e : n / 16 * 16 + n % 16 = n := by omega
    simp [scanStep, wordStep, hd, e, hv]
  rw [scan_cons _ hstep]

end TmVerif
