/-
Lemmas about the selection glue of `TmVerif.Model.Listing` (property C16): membership in
`selectAll`, the `canonical_set` map with last-insertion-wins, `replace("//", "/")`.
-/
import TmVerif.Proofs.Listing

namespace TmVerif.Listing

def strDoubleSlash : List Char := ['/', '/']

/-- `replace("//", "/")` leaves a path without `//` alone. -/
theorem replaceDoubleSlash_of_no_double (c : List Char) (h : containsSub strDoubleSlash c = false) :
    replaceDoubleSlash c = c := by
  induction c with
  | nil => rfl
  | cons a rest ih =>
    cases rest with
    | nil => rfl
    | cons b rest2 =>
      unfold containsSub at h
      simp only [Bool.or_eq_false_iff] at h
      have hne : ¬ (a = '/' ∧ b = '/') := by
        intro ⟨ha, hb⟩
        subst ha hb
        simp [strDoubleSlash, startsWith] at h
      simp only [replaceDoubleSlash, hne, if_false]
      rw [ih h.2]

/-! ## `lookupLast` (HashMap after a sequence of inserts) -/

theorem lookupLast_mem {β : Type} (k : List Char) (l : List (List Char × β)) (v : β)
    (h : lookupLast k l = some v) : (k, v) ∈ l := by
  induction l with
  | nil => simp [lookupLast] at h
  | cons x rest ih =>
    obtain ⟨k', v'⟩ := x
    simp only [lookupLast] at h
    cases hr : lookupLast k rest with
    | some v'' =>
      rw [hr] at h
      simp only [Option.some.injEq] at h
      subst h
      exact List.mem_cons_of_mem _ (ih hr)
    | none =>
      rw [hr] at h
      by_cases hk : k' = k
      · simp only [hk, if_true, Option.some.injEq] at h
        subst h; subst hk
        simp
      · simp [hk] at h

theorem lookupLast_none {β : Type} (k : List Char) (l : List (List Char × β))
    (h : ∀ v, (k, v) ∉ l) : lookupLast k l = none := by
  cases hr : lookupLast k l with
  | none => rfl
  | some v => exact absurd (lookupLast_mem k l v hr) (h v)

theorem lookupLast_isSome {β : Type} (k : List Char) (l : List (List Char × β)) (v : β)
    (h : (k, v) ∈ l) : ∃ v', lookupLast k l = some v' := by
  induction l with
  | nil => simp at h
  | cons x rest ih =>
    obtain ⟨k', v'⟩ := x
    simp only [lookupLast]
    cases hr : lookupLast k rest with
    | some v'' => exact ⟨v'', rfl⟩
    | none =>
      rcases List.mem_cons.mp h with h1 | h1
      · injection h1 with h1a h1b
        subst h1a
        exact ⟨v', by simp⟩
      · obtain ⟨v2, hv2⟩ := ih h1
        rw [hr] at hv2
        cases hv2

/-- If a key is present and every entry with that key carries the same value, that value is found
(so last-insertion-wins does not matter). -/
theorem lookupLast_unique {β : Type} (k : List Char) (l : List (List Char × β)) (v0 : β)
    (hex : (k, v0) ∈ l) (hall : ∀ v, (k, v) ∈ l → v = v0) : lookupLast k l = some v0 := by
  obtain ⟨v', hv'⟩ := lookupLast_isSome k l v0 hex
  rw [hv', hall v' (lookupLast_mem k l v' hv')]

/-! ## membership in the two selections -/

theorem isExcluded_eq_false (env : Env) (excludes : List (List Char)) (name : List Char) :
    isExcluded env excludes name = false ↔ ∀ pat ∈ excludes, env.glob pat name = false := by
  simp [isExcluded]

theorem mem_listKeyboards_of_devs (env : Env) (devs : List DevRec) (x : List Char × List Char) :
    (x ∈ (keyboardsOf devs).filterMap fun dev =>
        if !isVirtual dev.1 then
          match env.resolve dev.1 with
          | none => none
          | some devPath => some (devPath, dev.2)
        else none) ↔
      ∃ d ∈ devs, d.2.2 = true ∧ isVirtual d.1 = false ∧ env.resolve d.1 = some x.1 ∧ d.2.1 = x.2 := by
  simp only [List.mem_filterMap, keyboardsOf, List.mem_map, List.mem_filter]
  constructor
  · rintro ⟨a, ⟨d, ⟨hd, hk⟩, rfl⟩, ha⟩
    refine ⟨d, hd, hk, ?_⟩
    cases hv : isVirtual d.1 <;> simp only [hv, Bool.not_true, Bool.not_false, if_true] at ha
    · cases hr : env.resolve d.1 with
      | none => simp [hr] at ha
      | some q =>
        simp only [hr, Option.some.injEq] at ha
        subst ha
        simp
    · simp at ha
  · rintro ⟨d, hd, hk, hv, hr, hn⟩
    refine ⟨(d.1, d.2.1), ⟨d, ⟨hd, hk⟩, rfl⟩, ?_⟩
    simp only [hv, Bool.not_false, if_true, hr, hn]

/-- `--all-keyboards` selects device node `p` iff some listed entry is keyboard-like, not virtual,
resolves to `p` and has a name no pattern matches. -/
theorem mem_selectAll (env : Env) (text : List Char) (excludes : List (List Char)) (p : List Char) :
    p ∈ selectAll env text excludes ↔
      ∃ d ∈ extractInputDevices text, d.2.2 = true ∧ isVirtual d.1 = false ∧
        env.resolve d.1 = some p ∧ isExcluded env excludes d.2.1 = false := by
  have hagree : extractKeyboards text = keyboardsOf (extractInputDevices text) :=
    kbdRun_eq_keyboardsOf_devRun _ _
  simp only [selectAll, listKeyboards, hagree, List.mem_map, List.mem_filter]
  constructor
  · rintro ⟨e, ⟨⟨x, hx, rfl⟩, hex⟩, rfl⟩
    obtain ⟨d, hd, hk, hv, hr, hn⟩ := (mem_listKeyboards_of_devs env _ x).mp hx
    refine ⟨d, hd, hk, hv, hr, ?_⟩
    simpa [hn] using hex
  · rintro ⟨d, hd, hk, hv, hr, hex⟩
    refine ⟨((p, d.2.1), isExcluded env excludes d.2.1), ⟨⟨(p, d.2.1), ?_, rfl⟩, by simp [hex]⟩, rfl⟩
    exact (mem_listKeyboards_of_devs env _ (p, d.2.1)).mpr ⟨d, hd, hk, hv, hr, rfl⟩

/-- What is in the `canonical_set`. -/
theorem mem_canonicalSet (env : Env) (text : List Char) (excludes : List (List Char))
    (c : List Char) (v : (List Char × List Char × Bool) × Bool) :
    (c, v) ∈ canonicalSet env text excludes ↔
      ∃ d ∈ extractInputDevices text, isVirtual d.1 = false ∧ env.resolve d.1 = some v.1.1 ∧
        env.canon v.1.1 = some c ∧ v = ((v.1.1, d.2.1, d.2.2), isExcluded env excludes d.2.1) := by
  simp only [canonicalSet, listInputDevices, List.mem_filterMap, List.mem_map]
  constructor
  · rintro ⟨a, ⟨x, ⟨d, hd, hx⟩, rfl⟩, ha⟩
    refine ⟨d, hd, ?_⟩
    cases hv : isVirtual d.1 <;> simp only [hv, Bool.not_true, Bool.not_false, if_true] at hx
    · cases hr : env.resolve d.1 with
      | none => simp [hr] at hx
      | some q =>
        simp only [hr, Option.some.injEq] at hx
        subst hx
        cases hc : env.canon q with
        | none => simp [hc] at ha
        | some s =>
          simp only [hc, Option.some.injEq, Prod.mk.injEq] at ha
          obtain ⟨rfl, rfl⟩ := ha
          simp [hc]
    · simp at hx
  · rintro ⟨d, hd, hv, hr, hc, hveq⟩
    refine ⟨v, ⟨v.1, ⟨d, hd, ?_⟩, ?_⟩, ?_⟩
    · simp only [hv, Bool.not_false, if_true, hr]
      rw [hveq]
    · rw [hveq]
    · simp only [hc]

/-! ## vocabulary of the C16 statements -/

theorem extractInputDevices_nil : extractInputDevices [] = [] := by decide
theorem extractKeyboards_nil : extractKeyboards [] = [] := by decide

/-- "no pattern of `--exclude` matches the name" -/
def NotExcluded (env : Env) (excludes : List (List Char)) (name : List Char) : Prop :=
  ∀ pat ∈ excludes, env.glob pat name = false

/-- The right-hand side of C16: keyboard-like by its own entry, not under the virtual-input tree,
not excluded by name. -/
def ShouldSelect (env : Env) (excludes : List (List Char)) (d : DevRec) : Prop :=
  d.2.2 = true ∧ isVirtual d.1 = false ∧ NotExcluded env excludes d.2.1

/-- The decision of `--dev-file` about one argument, spelled out. -/
theorem mem_selectNamed_singleton (env : Env) (text : List Char) (excludes : List (List Char))
    (skip : Bool) (arg c : List Char) (harg : env.canon arg = some c)
    (hslash : containsSub strDoubleSlash c = false) :
    arg ∈ selectNamed env text excludes skip [arg] ↔
      ∃ v, lookupLast c (canonicalSet env text excludes) = some v ∧
        (skip = true → v.1.2.2 = true) ∧ v.2 = false := by
  simp only [selectNamed, List.mem_filter, List.mem_singleton, true_and, harg,
    replaceDoubleSlash_of_no_double c hslash]
  cases hl : lookupLast c (canonicalSet env text excludes) with
  | none => simp
  | some v =>
    cases skip <;> cases hk : v.1.2.2 <;> cases he : v.2 <;> simp [hk, he]

/-- Arguments are judged one by one. -/
theorem mem_selectNamed (env : Env) (text : List Char) (excludes : List (List Char)) (skip : Bool)
    (args : List (List Char)) (a : List Char) :
    a ∈ selectNamed env text excludes skip args ↔
      a ∈ args ∧ a ∈ selectNamed env text excludes skip [a] := by
  simp [selectNamed, List.mem_filter]

/-- The uniqueness hypothesis of `C16_select_named` in executable form (for concrete device lists). -/
def uniqueCanonCheck (env : Env) (devs : List DevRec) (c : List Char) (d : DevRec) : Bool :=
  devs.all fun d' =>
    isVirtual d'.1 || match env.resolve d'.1 with
      | none => true
      | some p' => !(env.canon p' == some c) || d' == d

theorem uniqueCanonCheck_sound (env : Env) (devs : List DevRec) (c : List Char) (d : DevRec)
    (h : uniqueCanonCheck env devs c d = true) :
    ∀ d' ∈ devs, isVirtual d'.1 = false →
      ∀ p', env.resolve d'.1 = some p' → env.canon p' = some c → d' = d := by
  intro d' hd' hv p' hr hc
  have := List.all_eq_true.mp h d' hd'
  simpa [hv, hr, hc] using this

end TmVerif.Listing
