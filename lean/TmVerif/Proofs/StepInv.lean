/-
The invariant of the mapper state over histories (`Inv`), its preservation by `step` and
`releaseAll`, and the per-step facts the property theorems are corollaries of.
-/
import TmVerif.Proofs.Inv

namespace TmVerif

/-- `Inv L P s`: `s` is a mapper state for layout `L` consistent with the set `P` of physically held keys. -/
structure Inv (L : Layout) (P : List Key) (s : State) : Prop where
  i : IInv [] s
  inpP : ∀ k, k ∈ s.inp → k ∈ P
  actL : ∀ m, m ∈ s.active → m ∈ L
  noHid : ∀ k, k ∈ s.pass → hidden L k = false
  actNe : ∀ m, m ∈ s.active → m.frm ≠ []

theorem Inv.init (L : Layout) : Inv L [] State.init :=
  ⟨⟨by simp [State.init], by simp [State.init], by simp [State.init], by simp [State.init],
    by simp [State.init], by simp [State.init]⟩, by simp [State.init], by simp [State.init], by simp [State.init],
    by simp [State.init]⟩

theorem Inv.mapped_not_hidden {L : Layout} {P : List Key} {s : State} (h : Inv L P s) (k : Key)
    (hk : k ∈ s.mapped) : hidden L k = false := by
  rcases h.i.mappedAct k hk with h1 | ⟨m, hm, hkm⟩
  · simp at h1
  · have hmL := h.actL m hm
    cases hh : hidden L k with
    | false => rfl
    | true =>
      exfalso
      simp only [hidden, Bool.and_eq_true, Bool.not_eq_eq_eq_not, Bool.not_true, List.any_eq_false] at hh
      have := hh.2 m hmL
      simp [hkm] at this

theorem to_not_hidden {L : Layout} {m : Mapping} (hm : m ∈ L) (k : Key) (hk : k ∈ m.to) :
    hidden L k = false := by
  cases hh : hidden L k with
  | false => rfl
  | true =>
    exfalso
    simp only [hidden, Bool.and_eq_true, Bool.not_eq_eq_eq_not, Bool.not_true, List.any_eq_false] at hh
    have := hh.2 m hm
    simp [hk] at this

/-- `any_hit` after the scan of the active mappings, together with `pass.contains(&k)` -/
def noHit (s : State) (k : Key) : Bool :=
  !(pressPrep s k).active.any (fun m => m.frm.contains k || m.to.contains k) &&
    !(pressPrep s k).pass.contains k

theorem newlyPress_fire {L : Layout} {s : State} {k : Key} {m : Mapping} (hf : findMapping L s k = some m) :
    newlyPress L s k =
      ({ (addNewMapping (pressPrep s k) k m).1 with inp := (addNewMapping (pressPrep s k) k m).1.inp ++ [k] },
       (addNewMapping (pressPrep s k) k m).2) := by
  simp [newlyPress, hf]

theorem newlyPress_pass {L : Layout} {s : State} {k : Key} (hf : findMapping L s k = none)
    (hc : noHit s k = true) :
    newlyPress L s k =
      ({ (passThrough (pressPrep s k) k).1 with inp := (passThrough (pressPrep s k) k).1.inp ++ [k] },
       ⟨(passThrough (pressPrep s k) k).2, RRepeat.disabled⟩) := by
  unfold noHit at hc
  simp only [newlyPress, hf, hc, if_true]

theorem newlyPress_skip {L : Layout} {s : State} {k : Key} (hf : findMapping L s k = none)
    (hc : noHit s k = false) :
    newlyPress L s k = ({ pressPrep s k with inp := (pressPrep s k).inp ++ [k] }, ⟨[], RRepeat.disabled⟩) := by
  unfold noHit at hc
  simp only [newlyPress, hf, hc, Bool.false_eq_true, if_false]

theorem noHit_iff (s : State) (k : Key) :
    noHit s k = true ↔ (∀ m, m ∈ s.active → k ∉ m.frm ∧ k ∉ m.to) ∧ k ∉ s.pass := by
  simp [noHit, pressPrep]

/-- facts about an accepted press -/
theorem newlyPress_spec (L : Layout) (P : List Key) (s : State) (k : Key) (h : Inv L P s)
    (hk : k ∉ s.inp) :
    Inv L (applyEv P (Event.pressed k)) (newlyPress L s k).1 ∧
    Emits (held s) (newlyPress L s k).2.events (held (newlyPress L s k).1) ∧
    (∀ x, Event.pressed x ∈ (newlyPress L s k).2.events → hidden L x = false) ∧
    (∀ m, findMapping L s k = some m →
      m ∈ L ∧ finalKey? m = some k ∧
      (∃ act, (newlyPress L s k).1.active = act ++ [m] ∧ ∀ m', m' ∈ act → m' ∈ s.active) ∧
      (m.rep.isNormal = false → ∀ x, x ∈ held (newlyPress L s k).1 → isActionKey x = false) ∧
      (∀ x, x ∈ m.to → isActionKey x = true → Event.pressed x ∈ (newlyPress L s k).2.events) ∧
      (∀ x, x ∈ m.to → isActionKey x = false → x ∈ held (newlyPress L s k).1) ∧
      (m.rep.isNormal = true → ∀ x, x ∈ m.to → x ∈ held (newlyPress L s k).1) ∧
      (∀ x, Event.pressed x ∈ (newlyPress L s k).2.events → x ∈ m.to) ∧
      (newlyPress L s k).2.rep = repeatOf m) ∧
    (findMapping L s k = none →
      (∀ m', m' ∈ (newlyPress L s k).1.active → m' ∈ s.active) ∧
      (newlyPress L s k).2.rep = RRepeat.disabled ∧
      (∀ x, Event.pressed x ∈ (newlyPress L s k).2.events → x = k)) := by
  have h0 := pressPrep_iinv k h.i
  have hkP : ∀ x, x ∈ s.inp ∨ x = k → x ∈ applyEv P (Event.pressed k) := by
    intro x hx; simp
    rcases hx with hx | hx
    · exact Or.inl (h.inpP x hx)
    · exact Or.inr hx
  cases hf : findMapping L s k with
  | some m =>
    rw [newlyPress_fire hf]
    have fm := findMapping_some hf
    have a := addNewMapping_spec (pressPrep s k) k m h0 fm.2.2
    obtain ⟨a1, a2, a3, a4, a5, a6, a7, a8, a9, a10, a11⟩ := a
    obtain ⟨act, hact, hsub⟩ := a4
    refine ⟨⟨a1, ?_, ?_, ?_, ?_⟩, a2, ?_, ?_, by simp⟩
    · intro x hx; simp only [List.mem_append, List.mem_singleton] at hx
      apply hkP
      rcases hx with hx | hx
      · exact Or.inl (a5 x hx)
      · exact Or.inr hx
    · intro m' hm'; simp only [hact, List.mem_append, List.mem_singleton] at hm'
      rcases hm' with hm' | hm'
      · exact h.actL m' (hsub m' hm')
      · subst hm'; exact fm.1
    · intro x hx
      rcases a6 x hx with h1 | h1
      · exact h.noHid x h1
      · exact h.mapped_not_hidden x h1
    · intro m' hm'; simp only [hact, List.mem_append, List.mem_singleton] at hm'
      rcases hm' with hm' | hm'
      · exact h.actNe m' (hsub m' hm')
      · subst hm'; exact List.ne_nil_of_mem (finalKey_mem fm.2.1)
    · intro x hx; exact to_not_hidden fm.1 x (a3 x hx)
    · intro m2 hm2; simp only [Option.some.injEq] at hm2; subst hm2
      exact ⟨fm.1, fm.2.1, ⟨act, hact, hsub⟩, a7, a8, a9, a10, a3, a11⟩
  | none =>
    have hnh := findMapping_none_not_hidden hf
    cases hc : noHit s k with
    | true =>
      rw [newlyPress_pass hf hc]
      have hc' := (noHit_iff s k).mp hc
      have p := passThrough_spec (pressPrep s k) k h0 hc'.2 hc'.1
      obtain ⟨p1, p2, p3, p4, p5, p6, _, _⟩ := p
      refine ⟨⟨p1, ?_, ?_, ?_, fun m' hm' => h.actNe m' (p4 m' hm')⟩, p2, ?_, by simp, fun _ => ⟨p4, rfl, p3⟩⟩
      · intro x hx; simp only [List.mem_append, List.mem_singleton] at hx
        apply hkP
        rcases hx with hx | hx
        · exact Or.inl (p5 x hx)
        · exact Or.inr hx
      · intro m' hm'; exact h.actL m' (p4 m' hm')
      · intro x hx
        rcases p6 x hx with h1 | h1 | h1
        · exact h.noHid x h1
        · exact h.mapped_not_hidden x h1
        · subst h1; exact hnh
      · intro x hx; rw [p3 x hx]; exact hnh
    | false =>
      rw [newlyPress_skip hf hc]
      refine ⟨⟨⟨h.i.ndPass, h.i.ndMapped, h.i.disj, ?_, ?_, h.i.mappedAct⟩, ?_, h.actL, h.noHid, h.actNe⟩,
        Emits.nil (fun _ => Iff.rfl), by simp, by simp, fun _ => ⟨fun _ hm => hm, rfl, by simp⟩⟩
      · intro x hx; simp [pressPrep]; exact Or.inl (h.i.passInp x hx)
      · intro m hm x hx; simp [pressPrep]; exact Or.inl (h.i.actInp m hm x hx)
      · intro x hx; simp only [pressPrep, List.mem_append, List.mem_singleton] at hx; exact hkP x hx

/-- facts about an accepted release -/
theorem newlyRelease_spec (L : Layout) (P : List Key) (s : State) (k : Key) (h : Inv L P s) :
    Inv L (applyEv P (Event.released k)) (newlyRelease s k).1 ∧
    IRel s (newlyRelease s k).1 (newlyRelease s k).2.events ∧
    (newlyRelease s k).2.rep = RRepeat.disabled ∧
    (∀ x, x ∈ (newlyRelease s k).1.inp ↔ x ∈ s.inp ∧ x ≠ k) := by
  have r := releaseKey_spec k h.i
  obtain ⟨r1, r2, r3, _, _, _, r7⟩ := r
  have heq : newlyRelease s k = ((releaseKey s k).1, ⟨(releaseKey s k).2, RRepeat.disabled⟩) := rfl
  rw [heq]
  refine ⟨⟨r1, ?_, ?_, ?_, fun m hm => h.actNe m (r2.actSub m hm)⟩, r2, rfl, r7⟩
  · intro x hx
    have := (r7 x).mp hx
    simp [h.inpP x this.1, this.2]
  · intro m hm; exact h.actL m (r2.actSub m hm)
  · intro x hx
    rcases r2.passFrom x hx with h1 | h1
    · exact h.noHid x h1
    · exact h.mapped_not_hidden x h1

/-- an ignored event changes nothing and the invariant survives the change of `P` -/
theorem Inv.ignored {L : Layout} {P : List Key} {s : State} (h : Inv L P s) (e : Event)
    (hign : match e with
      | Event.pressed k => k ∈ s.inp
      | Event.released k => k ∉ s.inp) :
    Inv L (applyEv P e) s := by
  refine ⟨h.i, ?_, h.actL, h.noHid, h.actNe⟩
  intro x hx
  cases e with
  | pressed k => simp; exact Or.inl (h.inpP x hx)
  | released k =>
    simp only at hign
    have : x ≠ k := fun e => hign (e ▸ hx)
    simp [h.inpP x hx, this]

theorem step_inv (L : Layout) (P : List Key) (s : State) (e : Event) (h : Inv L P s) :
    Inv L (applyEv P e) (step L s e).1 ∧
    Emits (held s) (step L s e).2.events (held (step L s e).1) := by
  cases e with
  | pressed k =>
    by_cases hk : k ∈ s.inp
    · have : step L s (Event.pressed k) = (s, ⟨[], RRepeat.noChange⟩) := by simp [step, hk]
      rw [this]; exact ⟨h.ignored _ hk, Emits.nil (fun _ => Iff.rfl)⟩
    · have : step L s (Event.pressed k) = newlyPress L s k := by simp [step, hk]
      rw [this]
      have := newlyPress_spec L P s k h hk
      exact ⟨this.1, this.2.1⟩
  | released k =>
    by_cases hk : k ∈ s.inp
    · have : step L s (Event.released k) = newlyRelease s k := by simp [step, hk]
      rw [this]
      have := newlyRelease_spec L P s k h
      exact ⟨this.1, this.2.1.emits⟩
    · have : step L s (Event.released k) = (s, ⟨[], RRepeat.noChange⟩) := by simp [step, hk]
      rw [this]; exact ⟨h.ignored _ hk, Emits.nil (fun _ => Iff.rfl)⟩

end TmVerif
