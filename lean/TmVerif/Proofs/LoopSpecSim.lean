/-
Simulation between the loop model (`Model/Loop.lean`, run by `Driver/LoopCmd.runAnnotated`) and the
specification automaton over the visible transcript (`LoopMonitors.lean`).

`SimR L x lastT S pb` relates a live machine state `x` (with `lastT` = stamp of the last consumed
answer) to the automaton state `S` and its `pendingBase` flag `pb`.  It is preserved by the hidden
transitions (`Instant::now()`, `thread::sleep`: the automaton does not move) and by every visible
transition (the automaton digests one transcript entry and raises no tag).
-/
import TmVerif.Props.C11
import TmVerif.LoopMonitors
import TmVerif.Driver.LoopCmd

namespace TmVerif
open TmVerif.LoopCmd (runAnnotated)

/-! ### the visible transcript of a model run -/

/-- the visible form of a call (`now` never occurs among the calls `runAnnotated` returns) -/
def Call.toV : Call → VCall
  | Call.registerPoll => VCall.reg
  | Call.poll t => VCall.poll t
  | Call.nextKeyboard => VCall.nk
  | Call.nextTablet => VCall.nt
  | Call.send _ evs => VCall.send evs
  | Call.sleep ms => VCall.sleep ms
  | Call.now => VCall.sleep 0

/-- the visible transcript of a model run: each visible call zipped with the script entry that answered it -/
def transcriptOf : List Call → List (Resp × Nat) → List Entry
  | c :: cs, (r, t) :: rs => ⟨c.toV, r, t⟩ :: transcriptOf cs rs
  | _, _ => []

/-! ### one step of the automaton -/

/-- `specRun`: add the base to a relative deadline once the step's send has returned -/
def adjustBase (pendingBase : Bool) (c : VCall) (r : Resp) (ts : Nat) (x2 : Spec) : Spec :=
  match pendingBase, c, r, x2.armed with
  | true, VCall.send _, Resp.unit, some a => { x2 with armed := some { a with deadline := a.deadline + ts } }
  | _, _, _, _ => x2

/-- `specRun`: the next `pendingBase` flag -/
def nextPendingOf (L : Layout) (x : Spec) (c : VCall) (r : Resp) : Bool :=
  match c, r with
  | VCall.nk, Resp.kbd (Next.one ev) =>
    if x.inTablet then false
    else
      let out := step L x.s ev
      (match out.2.rep with
       | RRepeat.repeating _ _ _ => !out.2.events.isEmpty
       | _ => false)
  | _, _ => false

/-- one iteration of `specRun` -/
def specStep (L : Layout) (tol : Nat) (x : Spec) (pendingBase : Bool) (e : Entry) : Spec × Bool :=
  (adjustBase pendingBase e.call e.resp e.ts (applyResp L (checkCall tol x e.call) e.call e.resp e.ts),
   nextPendingOf L x e.call e.resp)

theorem specRun_cons (L : Layout) (tol : Nat) (x : Spec) (pb : Bool) (e : Entry) (es : List Entry) :
    specRun L tol x pb (e :: es) = specRun L tol (specStep L tol x pb e).1 (specStep L tol x pb e).2 es := rfl

theorem specRun_nil (L : Layout) (tol : Nat) (x : Spec) (pb : Bool) : specRun L tol x pb [] = x := by
  unfold specRun; rfl

/-- the next call may be anything but a send, and there may be a next call -/
def Expect.free : Expect → Prop
  | Expect.any => True
  | Expect.noSend _ => True
  | _ => False

theorem timeoutOk_self (tol a : Nat) : timeoutOk tol a a = true := by
  simp [timeoutOk, absDiffN]

/-! #### `checkCall` raises nothing when … -/

theorem checkCall_reg (tol : Nat) (S : Spec) (h : S.expect.free) : checkCall tol S VCall.reg = S := by
  unfold checkCall
  cases hS : S.expect <;> simp_all [Expect.free]

theorem checkCall_nk (tol : Nat) (S : Spec) (h : S.expect.free) : checkCall tol S VCall.nk = S := by
  unfold checkCall
  cases hS : S.expect <;> simp_all [Expect.free]

theorem checkCall_nt (tol : Nat) (S : Spec) (h : S.expect.free) : checkCall tol S VCall.nt = S := by
  unfold checkCall
  cases hS : S.expect <;> simp_all [Expect.free]

/-- the timeout the automaton accepts with any tolerance -/
def specTimeout (S : Spec) : Option Nat :=
  match S.armed with
  | none => none
  | some a => some (dueTimeout a.deadline S.lastTs)

theorem checkCall_poll (tol : Nat) (S : Spec) (t : Option Nat) (h : S.expect.free) (hn : S.notified = [])
    (ht : t = specTimeout S) : checkCall tol S (VCall.poll t) = S := by
  subst ht
  unfold checkCall specTimeout
  cases hS : S.expect <;> cases ha : S.armed <;> simp_all [Expect.free, timeoutOk_self]

theorem checkCall_send (tol : Nat) (S : Spec) (prop : String) (evs : List Event)
    (h : S.expect = Expect.sendExactly prop evs) (hl : prop = "C11" ∨ legal S.V evs = true) :
    checkCall tol S (VCall.send evs) = { S with V := foldEvs S.V evs } := by
  unfold checkCall
  rcases hl with hl | hl
  · simp [h, hl]
  · simp [h, hl]

/-! #### `applyResp`, answer by answer -/

section app
variable (L : Layout) (S : Spec) (ts : Nat)

theorem applyResp_err (c : VCall) (msg : String) :
    applyResp L S c (Resp.err msg) ts = { S with lastTs := ts, expect := Expect.nothing "C20" } := rfl

theorem applyResp_reg : applyResp L S VCall.reg Resp.unit ts = { S with lastTs := ts, expect := Expect.noSend "C10" } := rfl

theorem applyResp_send (evs : List Event) :
    applyResp L S (VCall.send evs) Resp.unit ts = { S with lastTs := ts, expect := Expect.noSend "C10" } := rfl

theorem applyResp_interrupted (t : Option Nat) :
    applyResp L S (VCall.poll t) (Resp.poll PollRes.interrupted) ts =
      { S with lastTs := ts, expect := Expect.noSend "C10" } := rfl

theorem applyResp_deviceEvent (t : Option Nat) (devs : List Dev) :
    applyResp L S (VCall.poll t) (Resp.poll (PollRes.deviceEvent devs)) ts =
      { S with lastTs := ts, notified := devs, expect := Expect.noSend "C10" } := rfl

theorem applyResp_nk_busy :
    applyResp L S VCall.nk (Resp.kbd Next.busy) ts =
      { S with lastTs := ts, notified := S.notified.filter (· != Dev.keyboard), expect := Expect.noSend "C10" } := rfl

theorem applyResp_nk_end :
    applyResp L S VCall.nk (Resp.kbd Next.end_) ts = { S with lastTs := ts, expect := Expect.nothing "C10" } := rfl

theorem applyResp_nt_busy :
    applyResp L S VCall.nt (Resp.tab Next.busy) ts =
      { S with lastTs := ts, notified := S.notified.filter (· != Dev.tablet), expect := Expect.noSend "C10" } := rfl

theorem applyResp_nt_end :
    applyResp L S VCall.nt (Resp.tab Next.end_) ts = { S with lastTs := ts, expect := Expect.nothing "C10" } := rfl

theorem applyResp_nt_one (tev : TabletEv) :
    applyResp L S VCall.nt (Resp.tab (Next.one tev)) ts =
      { S with lastTs := ts, s := (releaseAll L S.s).1, armed := none, tabletCleared := true,
               inTablet := (match tev with | TabletEv.on => true | TabletEv.off => false),
               expect := if (releaseAll L S.s).2.isEmpty then Expect.noSend "C12"
                         else Expect.sendExactly "C12" (releaseAll L S.s).2 } := by
  simp only [applyResp]
  split <;> rfl

theorem applyResp_nk_one_tablet (ev : Event) (ht : S.inTablet = true) :
    applyResp L S VCall.nk (Resp.kbd (Next.one ev)) ts = { S with lastTs := ts, expect := Expect.noSend "C12" } := by
  simp [applyResp, ht]

theorem applyResp_timedOut_idle (t : Option Nat) (ha : S.armed = none) :
    applyResp L S (VCall.poll t) (Resp.poll PollRes.timedOut) ts =
      { S with lastTs := ts, expect := Expect.noSend "C11" } := by
  simp [applyResp, ha]

theorem applyResp_timedOut_tablet (t : Option Nat) (a : Armed) (ha : S.armed = some a) (ht : S.inTablet = true) :
    applyResp L S (VCall.poll t) (Resp.poll PollRes.timedOut) ts =
      { S with lastTs := ts, armed := none, expect := Expect.noSend "C12" } := by
  simp [applyResp, ha, ht]

theorem applyResp_timedOut_empty (t : Option Nat) (a : Armed) (ha : S.armed = some a) (ht : S.inTablet = false)
    (hc : (chordOf S.s a.keys).isEmpty = true) :
    applyResp L S (VCall.poll t) (Resp.poll PollRes.timedOut) ts =
      { S with lastTs := ts, armed := some { a with deadline := a.deadline + msToNs (asU64 a.interval) },
               expect := Expect.noSend "C11" } := by
  simp [applyResp, ha, ht, hc]

theorem applyResp_timedOut_chord (t : Option Nat) (a : Armed) (ha : S.armed = some a) (ht : S.inTablet = false)
    (hc : (chordOf S.s a.keys).isEmpty = false)
    (htr : ∀ k, k ∈ foldEvs S.V (chordOf S.s a.keys) ↔ k ∈ S.V) :
    applyResp L S (VCall.poll t) (Resp.poll PollRes.timedOut) ts =
      { S with lastTs := ts, armed := some { a with deadline := a.deadline + msToNs (asU64 a.interval) },
               expect := Expect.sendExactly "C11" (chordOf S.s a.keys) } := by
  have h1 : (foldEvs S.V (chordOf S.s a.keys)).all (fun k => S.V.contains k) = true := by
    simp only [List.all_eq_true, List.contains_iff_mem]
    intro k hk; exact (htr k).mp hk
  have h2 : S.V.all (fun k => (foldEvs S.V (chordOf S.s a.keys)).contains k) = true := by
    simp only [List.all_eq_true, List.contains_iff_mem]
    intro k hk; exact (htr k).mpr hk
  simp only [applyResp, ha, ht, hc, h1, h2, Bool.and_self, if_true, Bool.false_eq_true, if_false]

/-- the automaton's timer after a key event that the mapper answered with `rr` (`emp`: no output) -/
def armedAfter (old : Option Armed) (rr : RRepeat) (emp : Bool) (ts : Nat) : Option Armed :=
  match rr with
  | RRepeat.repeating keys d i =>
    if emp then some ⟨keys, i, ts + msToNs (asU64 d)⟩ else some ⟨keys, i, msToNs (asU64 d)⟩
  | RRepeat.disabled => none
  | RRepeat.noChange => old

theorem applyResp_nk_one (ev : Event) (ht : S.inTablet = false) :
    applyResp L S VCall.nk (Resp.kbd (Next.one ev)) ts =
      { S with lastTs := ts, s := (step L S.s ev).1,
               tabletCleared := (match (step L S.s ev).2.rep with
                 | RRepeat.noChange => S.tabletCleared
                 | _ => false),
               armed := armedAfter S.armed (step L S.s ev).2.rep (step L S.s ev).2.events.isEmpty ts,
               expect := if (step L S.s ev).2.events.isEmpty then Expect.noSend "C10"
                         else Expect.sendExactly "C10" (step L S.s ev).2.events } := by
  simp only [applyResp, ht, Bool.false_eq_true, if_false]
  generalize step L S.s ev = out
  obtain ⟨s', evs, rr⟩ := out
  cases rr <;> cases evs <;> simp [armedAfter]

end app

/-! #### the two tails of `specStep` -/

theorem adjustBase_false (c : VCall) (r : Resp) (ts : Nat) (x2 : Spec) : adjustBase false c r ts x2 = x2 := by
  simp [adjustBase]

theorem adjustBase_not_send (pb : Bool) (c : VCall) (r : Resp) (ts : Nat) (x2 : Spec)
    (hc : ∀ evs, c ≠ VCall.send evs) : adjustBase pb c r ts x2 = x2 := by
  cases c <;> first | (exact absurd rfl (hc _)) | (cases pb <;> simp [adjustBase])

theorem adjustBase_not_unit (pb : Bool) (c : VCall) (r : Resp) (ts : Nat) (x2 : Spec)
    (hc : r ≠ Resp.unit) : adjustBase pb c r ts x2 = x2 := by
  cases r <;> first | (exact absurd rfl hc) | (cases pb <;> cases c <;> simp [adjustBase])

theorem adjustBase_true (evs : List Event) (ts : Nat) (x2 : Spec) (a : Armed) (ha : x2.armed = some a) :
    adjustBase true (VCall.send evs) Resp.unit ts x2 =
      { x2 with armed := some { a with deadline := a.deadline + ts } } := by
  simp [adjustBase, ha]

theorem adjustBase_true_eq (evs : List Event) (ts : Nat) (x2 : Spec) :
    adjustBase true (VCall.send evs) Resp.unit ts x2 =
      match x2.armed with
      | some a => { x2 with armed := some { a with deadline := a.deadline + ts } }
      | none => x2 := by
  cases ha : x2.armed <;> simp [adjustBase, ha]

theorem adjustBase_none (pb : Bool) (c : VCall) (r : Resp) (ts : Nat) (x2 : Spec) (ha : x2.armed = none) :
    adjustBase pb c r ts x2 = x2 := by
  unfold adjustBase
  split
  · simp_all
  · rfl

theorem nextPendingOf_not_nk (L : Layout) (x : Spec) (c : VCall) (r : Resp) (hc : c ≠ VCall.nk) :
    nextPendingOf L x c r = false := by
  cases c <;> first | (exact absurd rfl hc) | simp [nextPendingOf]

theorem nextPendingOf_not_one (L : Layout) (x : Spec) (c : VCall) (r : Resp)
    (hc : ∀ ev, r ≠ Resp.kbd (Next.one ev)) : nextPendingOf L x c r = false := by
  cases r with
  | kbd n => cases n <;> first | (exact absurd rfl (hc _)) | (cases c <;> simp [nextPendingOf])
  | _ => cases c <;> simp [nextPendingOf]

theorem nextPendingOf_tablet (L : Layout) (x : Spec) (c : VCall) (r : Resp) (ht : x.inTablet = true) :
    nextPendingOf L x c r = false := by
  unfold nextPendingOf
  split
  · simp [ht]
  · rfl

theorem nextPendingOf_one (L : Layout) (x : Spec) (ev : Event) (ht : x.inTablet = false) :
    nextPendingOf L x VCall.nk (Resp.kbd (Next.one ev)) =
      (match (step L x.s ev).2.rep with
       | RRepeat.repeating _ _ _ => !(step L x.s ev).2.events.isEmpty
       | _ => false) := by
  simp [nextPendingOf, ht]

/-! ### the simulation relation -/

/-- the devices the machine still has to drain (the one being read first) -/
def Ctl.devs : Ctl → List Dev
  | Ctl.readKbd rest => Dev.keyboard :: rest
  | Ctl.sendStep rest _ _ => Dev.keyboard :: rest
  | Ctl.stepNow rest _ _ _ => Dev.keyboard :: rest
  | Ctl.readTab rest => Dev.tablet :: rest
  | Ctl.sendRel rest _ => Dev.tablet :: rest
  | _ => []

def repArmed : WorkingRepeat → Option Armed
  | WorkingRepeat.idle => none
  | WorkingRepeat.repeating keys nw iv => some ⟨keys, iv, nw⟩

/-- the automaton's timer as a function of the machine state -/
def armedOf (x : Machine) (lastT : Nat) : Option Armed :=
  match x.c with
  | Ctl.sendStep _ _ rr => armedAfter (repArmed x.v.rep) rr false lastT
  | Ctl.stepNow _ keys d i => some ⟨keys, i, lastT + msToNs (asU64 d)⟩
  | _ => repArmed x.v.rep

/-- the automaton's `pendingBase` flag as a function of the control state -/
def Ctl.pbase : Ctl → Bool
  | Ctl.sendStep _ _ (RRepeat.repeating _ _ _) => true
  | _ => false

/-- property tag and payload of the send the machine is blocked on -/
def Ctl.payload : Ctl → Option (String × List Event)
  | Ctl.sendStep _ evs _ => some ("C10", evs)
  | Ctl.sendRel _ evs => some ("C12", evs)
  | Ctl.sendChord evs => some ("C11", evs)
  | _ => none

/-- what the relation knows about a pending send: the step / release-all batches are legal against
the fold (the automaton demands it), a timer chord need not be; in every case the fold after the send
has exactly the members of `V'` -/
def SendOk (S : Spec) (prop : String) (evs : List Event) (V' : List Key) : Prop :=
  (prop = "C11" ∨ legal S.V evs = true) ∧ ∀ k, k ∈ foldEvs S.V evs ↔ k ∈ V'

theorem Emits.sendOk {S : Spec} {evs : List Event} {V' : List Key} (prop : String) (h : Emits S.V evs V') :
    SendOk S prop evs V' := ⟨Or.inr h.1, h.2⟩

/-- the timeout of the top of the loop -/
def pollT : WorkingRepeat → Nat → Option Nat
  | WorkingRepeat.idle, _ => none
  | WorkingRepeat.repeating _ nw _, now => some (dueTimeout nw now)

def ctlTimer (x : Machine) (lastT : Nat) : Prop :=
  match x.c with
  | Ctl.pollNow => x.v.rep ≠ WorkingRepeat.idle
  | Ctl.polling t => t = pollT x.v.rep lastT
  | _ => True

def Ctl.isDone : Ctl → Bool
  | Ctl.done _ => true
  | _ => false

/-- the simulation relation for a machine that has not returned -/
structure SimR (L : Layout) (x : Machine) (lastT : Nat) (S : Spec) (pb : Bool) : Prop where
  viol : S.viol = []
  s : S.s = x.v.m
  tab : S.inTablet = x.v.inTablet
  ts : S.lastTs = lastT
  inv : ∃ P, Inv L P x.v.m
  notified : ∀ d, d ∈ S.notified → d ∈ x.c.devs
  armed : S.armed = armedOf x lastT
  pb : pb = x.c.pbase
  vv : match x.c.payload with
       | some (prop, evs) => SendOk S prop evs (held x.v.m) ∧ S.expect = Expect.sendExactly prop evs
       | none => (∀ k, k ∈ S.V ↔ k ∈ held x.v.m) ∧ S.expect.free
  timer : ctlTimer x lastT

/-- the relation along a run: nothing flagged so far, and `SimR` unless the machine has returned -/
def Sim (L : Layout) (x : Machine) (lastT : Nat) (S : Spec) (pb : Bool) : Prop :=
  S.viol = [] ∧ (x.c.isDone = false → SimR L x lastT S pb)

theorem SimR.init {L : Layout} {x : Machine} (h : Machine.init L = some x) : SimR L x 0 Spec.init false := by
  unfold Machine.init at h
  cases hf : forLayout L with
  | none => simp [hf] at h
  | some s =>
    simp only [hf, Option.some.injEq] at h
    subst h
    have hs : s = State.init := by
      unfold forLayout at hf; split at hf <;> simp at hf; exact hf.symm
    subst hs
    exact ⟨rfl, rfl, rfl, rfl, ⟨[], Inv.init L⟩, by simp [Spec.init], rfl, rfl,
      ⟨by simp [Spec.init, State.init, held], trivial⟩, trivial⟩

/-- arriving at the top of the loop -/
theorem SimR.mkTop {L : Layout} {v : LoopVars} {lastT : Nat} {S : Spec}
    (viol : S.viol = []) (s : S.s = v.m) (tab : S.inTablet = v.inTablet) (ts : S.lastTs = lastT)
    (inv : ∃ P, Inv L P v.m) (notified : S.notified = []) (armed : S.armed = repArmed v.rep)
    (hV : ∀ k, k ∈ S.V ↔ k ∈ held v.m) (hE : S.expect.free) :
    SimR L (toPollTop v) lastT S false := by
  unfold toPollTop
  cases hrep : v.rep with
  | idle =>
    exact ⟨viol, s, tab, ts, inv, by simp [notified], by simpa [armedOf, hrep] using armed, rfl,
      ⟨hV, hE⟩, by simp [ctlTimer, hrep, pollT]⟩
  | repeating keys nw iv =>
    exact ⟨viol, s, tab, ts, inv, by simp [notified], by simpa [armedOf, hrep] using armed, rfl,
      ⟨hV, hE⟩, by simp [ctlTimer, hrep]⟩

/-- continuing the `for dev_ev in dev_evs` loop -/
theorem SimR.mkDrain {L : Layout} {v : LoopVars} {lastT : Nat} {S : Spec} (devs : List Dev)
    (viol : S.viol = []) (s : S.s = v.m) (tab : S.inTablet = v.inTablet) (ts : S.lastTs = lastT)
    (inv : ∃ P, Inv L P v.m) (notified : ∀ d, d ∈ S.notified → d ∈ devs) (armed : S.armed = repArmed v.rep)
    (hV : ∀ k, k ∈ S.V ↔ k ∈ held v.m) (hE : S.expect.free) :
    SimR L (drain v devs) lastT S false := by
  cases devs with
  | nil =>
    refine SimR.mkTop viol s tab ts inv ?_ armed hV hE
    apply List.eq_nil_iff_forall_not_mem.mpr
    intro d hd; have := notified d hd; simp at this
  | cons d rest =>
    cases d with
    | keyboard => exact ⟨viol, s, tab, ts, inv, notified, armed, rfl, ⟨hV, hE⟩, trivial⟩
    | tablet => exact ⟨viol, s, tab, ts, inv, notified, armed, rfl, ⟨hV, hE⟩, trivial⟩

/-! ### hidden transitions: the automaton does not move -/

/-- `Instant::now()` answered with the stamp of the previous answer -/
theorem SimR.now {L : Layout} {x : Machine} {lastT : Nat} {S : Spec} {pb : Bool} (h : SimR L x lastT S pb)
    (hp : pending x = some Call.now) : SimR L (advance L x (Resp.time lastT)) lastT S pb := by
  obtain ⟨v, c⟩ := x
  cases c <;> simp [pending] at hp
  · -- pollNow
    have ht := h.timer
    simp only [ctlTimer] at ht
    cases hrep : v.rep with
    | idle => exact absurd hrep ht
    | repeating keys nw iv =>
      rw [adv_pollNow L v hrep]
      exact ⟨h.viol, h.s, h.tab, h.ts, h.inv, h.notified, h.armed, h.pb, h.vv,
        by simp [ctlTimer, hrep, pollT, dueTimeout]⟩
  · -- stepNow
    rename_i rest keys d i
    rw [adv_stepNow]
    exact ⟨h.viol, h.s, h.tab, h.ts, h.inv, h.notified, h.armed, h.pb, h.vv, trivial⟩

/-- `thread::sleep` -/
theorem SimR.sleep {L : Layout} {x : Machine} {lastT : Nat} {S : Spec} {pb : Bool} (h : SimR L x lastT S pb)
    (ms : Nat) (hp : pending x = some (Call.sleep ms)) : SimR L (advance L x Resp.unit) lastT S pb := by
  obtain ⟨v, c⟩ := x
  cases c <;> simp [pending] at hp
  rw [adv_sleeping]
  have hpb := h.pb
  simp only [Ctl.pbase] at hpb
  subst hpb
  have hn : S.notified = [] := by
    apply List.eq_nil_iff_forall_not_mem.mpr
    intro d hd; have := h.notified d hd; simp [Ctl.devs] at this
  exact SimR.mkTop h.viol h.s h.tab h.ts h.inv hn h.armed h.vv.1 h.vv.2

/-! ### visible transitions: the automaton digests one entry and raises nothing -/

/-- the machine is blocked on a visible call -/
def Call.isVisible : Call → Bool
  | Call.now => false
  | Call.sleep _ => false
  | _ => true

/-- what `checkCall` leaves of the automaton state: only the fold `V` moves (at a send) -/
def Spec.afterCall (S : Spec) : Call → Spec
  | Call.send _ evs => { S with V := foldEvs S.V evs }
  | _ => S

theorem SimR.notified_nil {L : Layout} {x : Machine} {lastT : Nat} {S : Spec} {pb : Bool} (h : SimR L x lastT S pb)
    (hd : x.c.devs = []) : S.notified = [] := by
  apply List.eq_nil_iff_forall_not_mem.mpr
  intro d hd'; have := h.notified d hd'; rw [hd] at this; simp at this

/-- the call the machine makes is accepted by the automaton -/
theorem SimR.checkCall {L : Layout} {x : Machine} {lastT : Nat} {S : Spec} {pb : Bool} (h : SimR L x lastT S pb)
    (tol : Nat) (c : Call) (hp : pending x = some c) (hv : c.isVisible = true) :
    TmVerif.checkCall tol S c.toV = S.afterCall c := by
  obtain ⟨v, ct⟩ := x
  have hvv := h.vv
  cases ct <;> simp only [pending, Option.some.injEq, reduceCtorEq] at hp <;> subst hp <;>
    simp only [Call.isVisible, Bool.false_eq_true] at hv <;> simp only [Ctl.payload] at hvv <;>
    simp only [Call.toV, Spec.afterCall]
  · exact checkCall_reg tol S hvv.2
  · rename_i t
    refine checkCall_poll tol S t hvv.2 (h.notified_nil rfl) ?_
    have ht := h.timer
    have ha := h.armed
    simp only [ctlTimer] at ht
    simp only [armedOf] at ha
    rw [ht]
    unfold specTimeout
    rw [ha, h.ts]
    cases v.rep <;> rfl
  · exact checkCall_send tol S _ _ hvv.2 hvv.1.1
  · exact checkCall_nk tol S hvv.2
  · exact checkCall_send tol S _ _ hvv.2 hvv.1.1
  · exact checkCall_nt tol S hvv.2
  · exact checkCall_send tol S _ _ hvv.2 hvv.1.1

theorem Spec.afterCall_viol (S : Spec) (c : Call) : (S.afterCall c).viol = S.viol := by
  cases c <;> rfl

/-- a failure of the pending driver call: the machine returns, the automaton expects nothing more -/
theorem SimR.step_err {L : Layout} {x : Machine} {lastT : Nat} {S : Spec} {pb : Bool} (h : SimR L x lastT S pb)
    (tol : Nat) (c : Call) (hp : pending x = some c) (hv : c.isVisible = true) (msg : String) (t : Nat) :
    Sim L (advance L x (Resp.err msg)) t (specStep L tol S pb ⟨c.toV, Resp.err msg, t⟩).1
      (specStep L tol S pb ⟨c.toV, Resp.err msg, t⟩).2 := by
  have hd : x.c.isDriverCall = true := by
    obtain ⟨v, ct⟩ := x
    cases ct <;> simp only [pending, Option.some.injEq, reduceCtorEq] at hp <;> subst hp <;>
      simp [Call.isVisible] at hv <;> rfl
  rw [C20_returns L x hd msg]
  refine ⟨?_, by simp [Ctl.isDone]⟩
  simp only [specStep]
  rw [adjustBase_not_unit _ _ _ _ _ (by simp), applyResp_err, h.checkCall tol c hp hv]
  simp only [Spec.afterCall_viol]
  exact h.viol

section vis
variable {L : Layout} {v : LoopVars} {lastT : Nat} {S : Spec} {pb : Bool} (tol : Nat) (t : Nat)

theorem SimR.step_start (h : SimR L ⟨v, Ctl.start⟩ lastT S pb) :
    Sim L (advance L ⟨v, Ctl.start⟩ Resp.unit) t (specStep L tol S pb ⟨VCall.reg, Resp.unit, t⟩).1
      (specStep L tol S pb ⟨VCall.reg, Resp.unit, t⟩).2 := by
  have hc := h.checkCall tol Call.registerPoll rfl rfl
  simp only [Call.toV, Spec.afterCall] at hc
  simp only [specStep]
  rw [adjustBase_not_send _ _ _ _ _ (by simp), nextPendingOf_not_nk _ _ _ _ (by simp), hc, applyResp_reg, adv_start]
  have hvv := h.vv
  simp only [Ctl.payload] at hvv
  exact ⟨h.viol, fun _ => SimR.mkTop h.viol h.s h.tab rfl h.inv (h.notified_nil rfl) h.armed hvv.1 trivial⟩

theorem SimR.step_sendChord {evs : List Event} (h : SimR L ⟨v, Ctl.sendChord evs⟩ lastT S pb) :
    Sim L (advance L ⟨v, Ctl.sendChord evs⟩ Resp.unit) t (specStep L tol S pb ⟨VCall.send evs, Resp.unit, t⟩).1
      (specStep L tol S pb ⟨VCall.send evs, Resp.unit, t⟩).2 := by
  have hc := h.checkCall tol (Call.send SendKind.chord evs) rfl rfl
  simp only [Call.toV, Spec.afterCall] at hc
  have hpb := h.pb
  simp only [Ctl.pbase] at hpb
  subst hpb
  simp only [specStep]
  rw [adjustBase_false, nextPendingOf_not_nk _ _ _ _ (by simp), hc, applyResp_send, adv_sendChord]
  have hvv := h.vv
  simp only [Ctl.payload] at hvv
  exact ⟨h.viol, fun _ => SimR.mkTop h.viol h.s h.tab rfl h.inv (h.notified_nil rfl) h.armed hvv.1.2 trivial⟩

theorem SimR.step_sendRel {rest : List Dev} {evs : List Event} (h : SimR L ⟨v, Ctl.sendRel rest evs⟩ lastT S pb) :
    Sim L (advance L ⟨v, Ctl.sendRel rest evs⟩ Resp.unit) t (specStep L tol S pb ⟨VCall.send evs, Resp.unit, t⟩).1
      (specStep L tol S pb ⟨VCall.send evs, Resp.unit, t⟩).2 := by
  have hc := h.checkCall tol (Call.send SendKind.relAll evs) rfl rfl
  simp only [Call.toV, Spec.afterCall] at hc
  have hpb := h.pb
  simp only [Ctl.pbase] at hpb
  subst hpb
  simp only [specStep]
  rw [adjustBase_false, nextPendingOf_not_nk _ _ _ _ (by simp), hc, applyResp_send, adv_sendRel]
  have hvv := h.vv
  simp only [Ctl.payload] at hvv
  exact ⟨h.viol, fun _ => ⟨h.viol, h.s, h.tab, rfl, h.inv, h.notified, h.armed, rfl,
    ⟨hvv.1.2, trivial⟩, trivial⟩⟩

theorem SimR.step_sendStep {rest : List Dev} {evs : List Event} {rr : RRepeat}
    (h : SimR L ⟨v, Ctl.sendStep rest evs rr⟩ lastT S pb) :
    Sim L (advance L ⟨v, Ctl.sendStep rest evs rr⟩ Resp.unit) t (specStep L tol S pb ⟨VCall.send evs, Resp.unit, t⟩).1
      (specStep L tol S pb ⟨VCall.send evs, Resp.unit, t⟩).2 := by
  have hc := h.checkCall tol (Call.send SendKind.step evs) rfl rfl
  simp only [Call.toV, Spec.afterCall] at hc
  have hpb := h.pb
  have hvv := h.vv
  have ha := h.armed
  simp only [Ctl.payload] at hvv
  simp only [armedOf] at ha
  simp only [specStep]
  rw [nextPendingOf_not_nk _ _ _ _ (by simp), hc, applyResp_send, adv_sendStep]
  cases rr with
  | repeating keys d i =>
    simp only [Ctl.pbase] at hpb
    subst hpb
    simp only [armedAfter, Bool.false_eq_true, if_false] at ha
    rw [adjustBase_true_eq]
    simp only [ha]
    refine ⟨h.viol, fun _ => ⟨h.viol, h.s, h.tab, rfl, h.inv, h.notified, ?_, rfl, ⟨hvv.1.2, trivial⟩, trivial⟩⟩
    simp only [afterStep, armedOf, Nat.add_comm]
  | disabled =>
    simp only [Ctl.pbase] at hpb
    subst hpb
    simp only [armedAfter] at ha
    rw [adjustBase_false]
    exact ⟨h.viol, fun _ => ⟨h.viol, h.s, h.tab, rfl, h.inv, h.notified, ha, rfl, ⟨hvv.1.2, trivial⟩, trivial⟩⟩
  | noChange =>
    simp only [Ctl.pbase] at hpb
    subst hpb
    simp only [armedAfter] at ha
    rw [adjustBase_false]
    exact ⟨h.viol, fun _ => ⟨h.viol, h.s, h.tab, rfl, h.inv, h.notified, ha, rfl, ⟨hvv.1.2, trivial⟩, trivial⟩⟩

theorem SimR.step_interrupted {tm : Option Nat} (h : SimR L ⟨v, Ctl.polling tm⟩ lastT S pb) :
    Sim L (advance L ⟨v, Ctl.polling tm⟩ (Resp.poll PollRes.interrupted)) t
      (specStep L tol S pb ⟨VCall.poll tm, Resp.poll PollRes.interrupted, t⟩).1
      (specStep L tol S pb ⟨VCall.poll tm, Resp.poll PollRes.interrupted, t⟩).2 := by
  have hc := h.checkCall tol (Call.poll tm) rfl rfl
  simp only [Call.toV, Spec.afterCall] at hc
  simp only [specStep]
  rw [adjustBase_not_send _ _ _ _ _ (by simp), nextPendingOf_not_nk _ _ _ _ (by simp), hc, applyResp_interrupted,
    adv_interrupted]
  have hvv := h.vv
  simp only [Ctl.payload] at hvv
  refine ⟨h.viol, fun _ => ?_⟩
  split
  · exact ⟨h.viol, h.s, h.tab, rfl, h.inv, h.notified, h.armed, rfl, ⟨hvv.1, trivial⟩, trivial⟩
  · exact SimR.mkTop h.viol h.s h.tab rfl h.inv (h.notified_nil rfl) h.armed hvv.1 trivial

theorem SimR.step_deviceEvent {tm : Option Nat} (devs : List Dev) (h : SimR L ⟨v, Ctl.polling tm⟩ lastT S pb) :
    Sim L (advance L ⟨v, Ctl.polling tm⟩ (Resp.poll (PollRes.deviceEvent devs))) t
      (specStep L tol S pb ⟨VCall.poll tm, Resp.poll (PollRes.deviceEvent devs), t⟩).1
      (specStep L tol S pb ⟨VCall.poll tm, Resp.poll (PollRes.deviceEvent devs), t⟩).2 := by
  have hc := h.checkCall tol (Call.poll tm) rfl rfl
  simp only [Call.toV, Spec.afterCall] at hc
  simp only [specStep]
  rw [adjustBase_not_send _ _ _ _ _ (by simp), nextPendingOf_not_nk _ _ _ _ (by simp), hc, applyResp_deviceEvent,
    adv_deviceEvent]
  have hvv := h.vv
  simp only [Ctl.payload] at hvv
  exact ⟨h.viol, fun _ => SimR.mkDrain devs h.viol h.s h.tab rfl h.inv (fun _ hd => hd) h.armed hvv.1 trivial⟩

theorem SimR.step_timedOut {tm : Option Nat} (h : SimR L ⟨v, Ctl.polling tm⟩ lastT S pb) :
    Sim L (advance L ⟨v, Ctl.polling tm⟩ (Resp.poll PollRes.timedOut)) t
      (specStep L tol S pb ⟨VCall.poll tm, Resp.poll PollRes.timedOut, t⟩).1
      (specStep L tol S pb ⟨VCall.poll tm, Resp.poll PollRes.timedOut, t⟩).2 := by
  have hc := h.checkCall tol (Call.poll tm) rfl rfl
  simp only [Call.toV, Spec.afterCall] at hc
  simp only [specStep]
  rw [adjustBase_not_send _ _ _ _ _ (by simp), nextPendingOf_not_nk _ _ _ _ (by simp), hc]
  have hvv := h.vv
  have ha := h.armed
  simp only [Ctl.payload] at hvv
  simp only [armedOf] at ha
  refine ⟨?_, fun _ => ?_⟩
  all_goals cases hrep : v.rep with
  | idle =>
    rw [hrep] at ha
    rw [applyResp_timedOut_idle L S t tm ha]
    first
      | exact h.viol
      | (rw [adv_timedOut_idle L v hrep]
         exact SimR.mkTop h.viol h.s h.tab rfl h.inv (h.notified_nil rfl) (by rw [hrep]; exact ha) hvv.1 trivial)
  | repeating keys nw iv =>
    rw [hrep] at ha
    simp only [repArmed] at ha
    cases hit : v.inTablet with
    | true =>
      rw [applyResp_timedOut_tablet L S t tm _ ha (by rw [h.tab]; exact hit)]
      first
        | exact h.viol
        | (rw [adv_timedOut_tablet L v hrep hit]
           exact SimR.mkTop h.viol h.s h.tab rfl h.inv (h.notified_nil rfl) rfl hvv.1 trivial)
    | false =>
      have hS : S.inTablet = false := by rw [h.tab]; exact hit
      -- transience of the chord (no `Nodup` needed): the fold keeps exactly the members of `held m`
      have htr : ∀ k, k ∈ foldEvs S.V (chordOf v.m keys) ↔ k ∈ held v.m := fun k =>
        (mem_foldEvs_congr hvv.1 (chordOf v.m keys) k).trans (C11_transient v.m keys k)
      by_cases hemp : (chordOf v.m keys).isEmpty = true
      · rw [applyResp_timedOut_empty L S t tm _ ha hS (by rw [h.s]; exact hemp)]
        first
          | exact h.viol
          | (rw [adv_timedOut_chord L v hrep hit, if_pos hemp]
             exact SimR.mkTop h.viol h.s h.tab rfl h.inv (h.notified_nil rfl) rfl hvv.1 trivial)
      · have hemp' : (chordOf v.m keys).isEmpty = false := by simpa using hemp
        rw [applyResp_timedOut_chord L S t tm _ ha hS (by rw [h.s]; exact hemp')
          (by rw [h.s]; intro k; exact (htr k).trans (hvv.1 k).symm)]
        first
          | exact h.viol
          | (rw [adv_timedOut_chord L v hrep hit, if_neg hemp]
             exact ⟨h.viol, h.s, h.tab, rfl, h.inv, h.notified, rfl, rfl,
               ⟨⟨Or.inl rfl, htr⟩, by simp only [h.s]⟩, trivial⟩)

theorem SimR.step_kbd_busy {rest : List Dev} (h : SimR L ⟨v, Ctl.readKbd rest⟩ lastT S pb) :
    Sim L (advance L ⟨v, Ctl.readKbd rest⟩ (Resp.kbd Next.busy)) t
      (specStep L tol S pb ⟨VCall.nk, Resp.kbd Next.busy, t⟩).1
      (specStep L tol S pb ⟨VCall.nk, Resp.kbd Next.busy, t⟩).2 := by
  have hc := h.checkCall tol Call.nextKeyboard rfl rfl
  simp only [Call.toV, Spec.afterCall] at hc
  simp only [specStep]
  rw [adjustBase_not_send _ _ _ _ _ (by simp), nextPendingOf_not_one _ _ _ _ (by simp), hc, applyResp_nk_busy,
    adv_kbd_busy]
  have hvv := h.vv
  simp only [Ctl.payload] at hvv
  refine ⟨h.viol, fun _ => SimR.mkDrain rest h.viol h.s h.tab rfl h.inv ?_ h.armed hvv.1 trivial⟩
  intro d hd
  simp only [List.mem_filter, bne_iff_ne, ne_eq] at hd
  have := h.notified d hd.1
  simp only [Ctl.devs, List.mem_cons] at this
  rcases this with h1 | h1
  · exact absurd h1 hd.2
  · exact h1

theorem SimR.step_kbd_end {rest : List Dev} (h : SimR L ⟨v, Ctl.readKbd rest⟩ lastT S pb) :
    Sim L (advance L ⟨v, Ctl.readKbd rest⟩ (Resp.kbd Next.end_)) t
      (specStep L tol S pb ⟨VCall.nk, Resp.kbd Next.end_, t⟩).1
      (specStep L tol S pb ⟨VCall.nk, Resp.kbd Next.end_, t⟩).2 := by
  have hc := h.checkCall tol Call.nextKeyboard rfl rfl
  simp only [Call.toV, Spec.afterCall] at hc
  simp only [specStep]
  rw [adjustBase_not_send _ _ _ _ _ (by simp), hc, applyResp_nk_end, adv_kbd_end]
  exact ⟨h.viol, by simp [Ctl.isDone]⟩

theorem SimR.step_tab_busy {rest : List Dev} (h : SimR L ⟨v, Ctl.readTab rest⟩ lastT S pb) :
    Sim L (advance L ⟨v, Ctl.readTab rest⟩ (Resp.tab Next.busy)) t
      (specStep L tol S pb ⟨VCall.nt, Resp.tab Next.busy, t⟩).1
      (specStep L tol S pb ⟨VCall.nt, Resp.tab Next.busy, t⟩).2 := by
  have hc := h.checkCall tol Call.nextTablet rfl rfl
  simp only [Call.toV, Spec.afterCall] at hc
  simp only [specStep]
  rw [adjustBase_not_send _ _ _ _ _ (by simp), nextPendingOf_not_nk _ _ _ _ (by simp), hc, applyResp_nt_busy,
    adv_tab_busy]
  have hvv := h.vv
  simp only [Ctl.payload] at hvv
  refine ⟨h.viol, fun _ => SimR.mkDrain rest h.viol h.s h.tab rfl h.inv ?_ h.armed hvv.1 trivial⟩
  intro d hd
  simp only [List.mem_filter, bne_iff_ne, ne_eq] at hd
  have := h.notified d hd.1
  simp only [Ctl.devs, List.mem_cons] at this
  rcases this with h1 | h1
  · exact absurd h1 hd.2
  · exact h1

theorem SimR.step_tab_end {rest : List Dev} (h : SimR L ⟨v, Ctl.readTab rest⟩ lastT S pb) :
    Sim L (advance L ⟨v, Ctl.readTab rest⟩ (Resp.tab Next.end_)) t
      (specStep L tol S pb ⟨VCall.nt, Resp.tab Next.end_, t⟩).1
      (specStep L tol S pb ⟨VCall.nt, Resp.tab Next.end_, t⟩).2 := by
  have hc := h.checkCall tol Call.nextTablet rfl rfl
  simp only [Call.toV, Spec.afterCall] at hc
  simp only [specStep]
  rw [adjustBase_not_send _ _ _ _ _ (by simp), hc, applyResp_nt_end, adv_tab_end]
  exact ⟨h.viol, by simp [Ctl.isDone]⟩

theorem SimR.step_tab_one {rest : List Dev} (tev : TabletEv) (h : SimR L ⟨v, Ctl.readTab rest⟩ lastT S pb) :
    Sim L (advance L ⟨v, Ctl.readTab rest⟩ (Resp.tab (Next.one tev))) t
      (specStep L tol S pb ⟨VCall.nt, Resp.tab (Next.one tev), t⟩).1
      (specStep L tol S pb ⟨VCall.nt, Resp.tab (Next.one tev), t⟩).2 := by
  have hc := h.checkCall tol Call.nextTablet rfl rfl
  simp only [Call.toV, Spec.afterCall] at hc
  simp only [specStep]
  rw [adjustBase_not_send _ _ _ _ _ (by simp), nextPendingOf_not_nk _ _ _ _ (by simp), hc, applyResp_nt_one,
    adv_tab_one]
  have hvv := h.vv
  simp only [Ctl.payload] at hvv
  obtain ⟨P, hP⟩ := h.inv
  have ra := releaseAll_spec L P v.m hP
  have hem : Emits S.V (releaseAll L v.m).2 (held (releaseAll L v.m).1) :=
    ra.2.1.congr_left (fun k => (hvv.1 k).symm)
  have hs := h.s
  refine ⟨h.viol, fun _ => ?_⟩
  by_cases hemp : (releaseAll L v.m).2.isEmpty = true
  · rw [if_pos hemp]
    refine ⟨h.viol, by simp only [hs], rfl, rfl, ⟨P, ra.1⟩, h.notified, rfl, rfl, ⟨?_, ?_⟩, trivial⟩
    · have : (releaseAll L v.m).2 = [] := by simpa using hemp
      have h2 := hem.2
      rw [this] at h2
      simpa using h2
    · simp only [hs, hemp, if_true]; trivial
  · rw [if_neg hemp]
    refine ⟨h.viol, by simp only [hs], rfl, rfl, ⟨P, ra.1⟩, h.notified, rfl, rfl, ⟨hem.sendOk _, ?_⟩, trivial⟩
    simp only [hs, hemp, if_false, Bool.false_eq_true]

theorem SimR.step_kbd_one_tablet {rest : List Dev} (ev : Event) (hit : v.inTablet = true)
    (h : SimR L ⟨v, Ctl.readKbd rest⟩ lastT S pb) :
    Sim L (advance L ⟨v, Ctl.readKbd rest⟩ (Resp.kbd (Next.one ev))) t
      (specStep L tol S pb ⟨VCall.nk, Resp.kbd (Next.one ev), t⟩).1
      (specStep L tol S pb ⟨VCall.nk, Resp.kbd (Next.one ev), t⟩).2 := by
  have hc := h.checkCall tol Call.nextKeyboard rfl rfl
  simp only [Call.toV, Spec.afterCall] at hc
  have hS : S.inTablet = true := by rw [h.tab]; exact hit
  simp only [specStep]
  rw [adjustBase_not_send _ _ _ _ _ (by simp), nextPendingOf_tablet _ _ _ _ hS, hc, applyResp_nk_one_tablet L S t ev hS,
    adv_kbd_one_tablet L v hit]
  have hvv := h.vv
  simp only [Ctl.payload] at hvv
  exact ⟨h.viol, fun _ => ⟨h.viol, h.s, h.tab, rfl, h.inv, h.notified, h.armed, rfl,
    ⟨hvv.1, trivial⟩, trivial⟩⟩

theorem SimR.step_kbd_one {rest : List Dev} (ev : Event) (hit : v.inTablet = false)
    (h : SimR L ⟨v, Ctl.readKbd rest⟩ lastT S pb) :
    Sim L (advance L ⟨v, Ctl.readKbd rest⟩ (Resp.kbd (Next.one ev))) t
      (specStep L tol S pb ⟨VCall.nk, Resp.kbd (Next.one ev), t⟩).1
      (specStep L tol S pb ⟨VCall.nk, Resp.kbd (Next.one ev), t⟩).2 := by
  have hc := h.checkCall tol Call.nextKeyboard rfl rfl
  simp only [Call.toV, Spec.afterCall] at hc
  have hS : S.inTablet = false := by rw [h.tab]; exact hit
  simp only [specStep]
  rw [adjustBase_not_send _ _ _ _ _ (by simp), nextPendingOf_one _ _ _ hS, hc, applyResp_nk_one L S t ev hS,
    adv_kbd_one L v hit]
  have hvv := h.vv
  have ha := h.armed
  simp only [Ctl.payload] at hvv
  simp only [armedOf] at ha
  obtain ⟨P, hP⟩ := h.inv
  have si := step_inv L P v.m ev hP
  have hem : Emits S.V (step L v.m ev).2.events (held (step L v.m ev).1) :=
    si.2.congr_left (fun k => (hvv.1 k).symm)
  have hnot := h.notified
  have hviol := h.viol
  rw [h.s, ha]
  clear h hc
  generalize step L v.m ev = out at *
  obtain ⟨m', evs, rr⟩ := out
  simp only at hem ⊢
  refine ⟨hviol, fun _ => ?_⟩
  by_cases hemp : evs.isEmpty = true
  · rw [if_pos hemp]
    have hnil : evs = [] := by simpa using hemp
    subst hnil
    have hV : ∀ k, k ∈ S.V ↔ k ∈ held m' := by simpa using hem.2
    cases rr with
    | repeating keys d i =>
      exact ⟨hviol, rfl, hS.trans hit.symm, rfl, ⟨_, si.1⟩, hnot, by simp [armedAfter, afterStep, armedOf], by simp [afterStep, Ctl.pbase],
        ⟨hV, trivial⟩, trivial⟩
    | disabled =>
      exact ⟨hviol, rfl, hS.trans hit.symm, rfl, ⟨_, si.1⟩, hnot, by simp [armedAfter, afterStep, armedOf, repArmed], by simp [afterStep, Ctl.pbase],
        ⟨hV, trivial⟩, trivial⟩
    | noChange =>
      exact ⟨hviol, rfl, hS.trans hit.symm, rfl, ⟨_, si.1⟩, hnot, by simp [armedAfter, afterStep, armedOf], by simp [afterStep, Ctl.pbase],
        ⟨hV, trivial⟩, trivial⟩
  · rw [if_neg hemp]
    have hemp' : evs.isEmpty = false := by simpa using hemp
    refine ⟨hviol, rfl, hS.trans hit.symm, rfl, ⟨_, si.1⟩, hnot, ?_, ?_, ⟨hem.sendOk _, ?_⟩, trivial⟩
    · simp [armedOf, hemp']
    · cases rr <;> simp [Ctl.pbase, hemp']
    · simp [hemp']

end vis

/-- every visible transition: the automaton digests the entry, raises nothing, and the relation holds again
(`hok`: the answer has the type the call expects) -/
theorem SimR.visible {L : Layout} {x : Machine} {lastT : Nat} {S : Spec} {pb : Bool}
    (h : SimR L x lastT S pb) (tol : Nat) (c : Call) (hp : pending x = some c) (hv : c.isVisible = true)
    (r : Resp) (t : Nat) (hok : (advance L x r).c ≠ Ctl.bad) :
    Sim L (advance L x r) t (specStep L tol S pb ⟨c.toV, r, t⟩).1 (specStep L tol S pb ⟨c.toV, r, t⟩).2 := by
  cases r with
  | err msg => exact h.step_err tol c hp hv msg t
  | unit =>
    obtain ⟨v, ct⟩ := x
    cases ct <;> simp only [pending, Option.some.injEq, reduceCtorEq] at hp <;> subst hp <;>
      simp only [Call.isVisible, Bool.false_eq_true] at hv <;> try (exact absurd rfl hok)
    · exact h.step_start tol t
    · exact h.step_sendChord tol t
    · exact h.step_sendStep tol t
    · exact h.step_sendRel tol t
  | time n =>
    obtain ⟨v, ct⟩ := x
    cases ct <;> simp only [pending, Option.some.injEq, reduceCtorEq] at hp <;> subst hp <;>
      simp only [Call.isVisible, Bool.false_eq_true] at hv <;> exact absurd rfl hok
  | poll pr =>
    obtain ⟨v, ct⟩ := x
    cases ct <;> simp only [pending, Option.some.injEq, reduceCtorEq] at hp <;> subst hp <;>
      simp only [Call.isVisible, Bool.false_eq_true] at hv <;> try (exact absurd rfl hok)
    cases pr with
    | timedOut => exact h.step_timedOut tol t
    | interrupted => exact h.step_interrupted tol t
    | deviceEvent devs => exact h.step_deviceEvent tol t devs
  | kbd n =>
    obtain ⟨v, ct⟩ := x
    cases ct <;> simp only [pending, Option.some.injEq, reduceCtorEq] at hp <;> subst hp <;>
      simp only [Call.isVisible, Bool.false_eq_true] at hv <;> try (exact absurd rfl hok)
    cases n with
    | busy => exact h.step_kbd_busy tol t
    | end_ => exact h.step_kbd_end tol t
    | one ev =>
      cases hit : v.inTablet with
      | true => exact h.step_kbd_one_tablet tol t ev hit
      | false => exact h.step_kbd_one tol t ev hit
  | tab n =>
    obtain ⟨v, ct⟩ := x
    cases ct <;> simp only [pending, Option.some.injEq, reduceCtorEq] at hp <;> subst hp <;>
      simp only [Call.isVisible, Bool.false_eq_true] at hv <;> try (exact absurd rfl hok)
    cases n with
    | busy => exact h.step_tab_busy tol t
    | end_ => exact h.step_tab_end tol t
    | one tev => exact h.step_tab_one tol t tev

end TmVerif
