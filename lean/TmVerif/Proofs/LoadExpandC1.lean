/-
C13_spec, layer C1: alias definitions, and "same trigger set".  `FromSet::new` (sort all keys but
the last) is a canonical form: two triggers have equal `FromSet`s iff they have the same final key
and the same other keys as multisets (`Expand.sameTrigger`).
-/
import TmVerif.Proofs.LoadExpandB

namespace TmVerif
namespace Convert
open Outcome Fancy Expand

theorem convertAlias_eq (a : AliasMapping) : convertAlias a = expandAlias a := by
  unfold convertAlias expandAlias isJustOneModifier
  have hm : ∀ k, isModifierKey k = Expand.isModifier k := by
    intro k
    simp [isModifierKey, Expand.isModifier]
  cases hk : a.frm.keys with
  | nil => rfl
  | cons k ks =>
    cases ks with
    | nil =>
      simp only [hm]
      cases Expand.isModifier k <;> rfl
    | cons k2 ks => rfl

theorem convertMapping_eq (F : Fancy.Layout) (m : Fancy.Mapping) : convertMapping F m = expandMapping F m := by
  cases m with
  | alias a => simp only [convertMapping, expandMapping, convertAlias_eq]
  | single s => exact convertSingle_eq F s
  | row r => exact convertRow_eq F r
  | repeatOnly s => rfl

/-! ### insertion sort is canonical -/

theorem count_insertKey (k x : Key) (l : List Key) : (insertKey k l).count x = (k :: l).count x := by
  induction l with
  | nil => rfl
  | cons y ys ih =>
    simp only [insertKey]
    split
    · simp only [List.count_cons, ih]; omega
    · rfl

theorem count_sortKeys (x : Key) (l : List Key) : (sortKeys l).count x = l.count x := by
  induction l with
  | nil => rfl
  | cons k ks ih => simp only [sortKeys, count_insertKey, List.count_cons, ih]

theorem mem_insertKey {k x : Key} {l : List Key} : x ∈ insertKey k l ↔ x = k ∨ x ∈ l := by
  induction l with
  | nil => simp [insertKey]
  | cons y ys ih =>
    simp only [insertKey]
    split
    · simp only [List.mem_cons, ih]
      constructor
      · rintro (h | h | h) <;> simp [h]
      · rintro (h | h | h) <;> simp [h]
    · simp

theorem sorted_insertKey (k : Key) {l : List Key} (h : l.Pairwise (· ≤ ·)) : (insertKey k l).Pairwise (· ≤ ·) := by
  induction l with
  | nil => simp [insertKey]
  | cons y ys ih =>
    rw [List.pairwise_cons] at h
    simp only [insertKey]
    split
    · rename_i hlt
      rw [List.pairwise_cons]
      refine ⟨?_, ih h.2⟩
      intro z hz
      show y ≤ z
      rcases mem_insertKey.1 hz with rfl | hz
      · exact Nat.le_of_lt hlt
      · exact h.1 z hz
    · rename_i hge
      rw [List.pairwise_cons]
      refine ⟨?_, List.pairwise_cons.2 h⟩
      intro z hz
      show k ≤ z
      have hky : k ≤ y := Nat.le_of_not_lt hge
      rcases List.mem_cons.1 hz with rfl | hz
      · exact hky
      · exact Nat.le_trans hky (h.1 z hz)

theorem sorted_sortKeys (l : List Key) : (sortKeys l).Pairwise (· ≤ ·) := by
  induction l with
  | nil => simp [sortKeys]
  | cons k ks ih => exact sorted_insertKey k ih

theorem eq_of_sorted_of_count : ∀ {l1 l2 : List Key}, l1.Pairwise (· ≤ ·) → l2.Pairwise (· ≤ ·) →
    (∀ x, l1.count x = l2.count x) → l1 = l2
  | [], [], _, _, _ => rfl
  | [], y :: ys, _, _, h => by have := h y; simp at this
  | x :: xs, [], _, _, h => by have := h x; simp at this
  | x :: xs, y :: ys, h1, h2, h => by
    rw [List.pairwise_cons] at h1 h2
    have hx : x ∈ y :: ys := by
      have := h x
      rw [List.count_cons_self] at this
      exact List.count_pos_iff.1 (by omega)
    have hy : y ∈ x :: xs := by
      have := h y
      rw [List.count_cons_self] at this
      exact List.count_pos_iff.1 (by omega)
    have hxy : x = y := by
      rcases List.mem_cons.1 hx with h' | h'
      · exact h'
      · rcases List.mem_cons.1 hy with h'' | h''
        · exact h''.symm
        · have a : y ≤ x := h2.1 x h'
          have b : x ≤ y := h1.1 y h''
          exact Nat.le_antisymm b a
    subst hxy
    congr 1
    apply eq_of_sorted_of_count h1.2 h2.2
    intro z
    have := h z
    simp only [List.count_cons] at this
    omega

theorem sortKeys_eq_iff {a b : List Key} : sortKeys a = sortKeys b ↔ ∀ x, a.count x = b.count x := by
  constructor
  · intro h x
    rw [← count_sortKeys x a, ← count_sortKeys x b, h]
  · intro h
    exact eq_of_sorted_of_count (sorted_sortKeys a) (sorted_sortKeys b) fun x => by
      rw [count_sortKeys, count_sortKeys, h x]

theorem count_all_iff {a b : List Key} :
    ((a ++ b).all fun k => a.count k == b.count k) = true ↔ ∀ x, a.count x = b.count x := by
  simp only [List.all_eq_true, beq_iff_eq, List.mem_append]
  constructor
  · intro h x
    by_cases hx : x ∈ a ∨ x ∈ b
    · exact h x hx
    · have ha : x ∉ a := fun h' => hx (Or.inl h')
      have hb : x ∉ b := fun h' => hx (Or.inr h')
      rw [List.count_eq_zero_of_not_mem ha, List.count_eq_zero_of_not_mem hb]
  · intro h x _
    exact h x

/-- `FromSet` equality is "same trigger set" -/
theorem fromSet_beq (a b : List Key) : (fromSet a == fromSet b) = sameTrigger a b := by
  rw [Bool.eq_iff_iff, beq_iff_eq]
  unfold fromSet sameTrigger
  simp only [Bool.and_eq_true, beq_iff_eq, count_all_iff, ← sortKeys_eq_iff]
  cases ha : a.getLast? with
  | none =>
    cases hb : b.getLast? with
    | none =>
      have ha' : a = [] := List.getLast?_eq_none_iff.1 ha
      have hb' : b = [] := List.getLast?_eq_none_iff.1 hb
      subst ha' hb'
      simp
    | some lb => simp
  | some la =>
    cases hb : b.getLast? with
    | none => simp
    | some lb =>
      simp only [Option.some.injEq]
      constructor
      · intro h
        have := List.append_inj' h rfl
        exact ⟨by simpa using this.2, this.1⟩
      · rintro ⟨rfl, h⟩
        rw [h]

end Convert
end TmVerif
