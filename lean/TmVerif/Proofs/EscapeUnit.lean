/-
The ExecStart line inside the unit text: `unitExecStart (buildServiceText pats) = execStartValue pats`
for every pattern list (the escaper never emits a control character, so the value stays on one
line).  Core Lean only.
-/
import TmVerif.Model.Escape
import TmVerif.Model.Systemd

namespace TmVerif

/-! ### the escaper emits no control characters -/

theorem hexDigit_notControl (d : Nat) : isControl (hexDigit d) = false := by
  have h : ∀ e, e < 16 → isControl (hexDigit e) = false := by decide
  have e : hexDigit d = hexDigit (d % 16) := by simp [hexDigit]
  rw [e]; exact h _ (Nat.mod_lt _ (by decide))

theorem hexFixed_notControl (k n : Nat) : ∀ x ∈ hexFixed k n, isControl x = false := by
  induction k generalizing n with
  | zero => intro x hx; simp [hexFixed] at hx
  | succ k ih =>
    intro x hx
    simp only [hexFixed, List.mem_append, List.mem_singleton] at hx
    cases hx with
    | inl h => exact ih _ x h
    | inr h => rw [h]; exact hexDigit_notControl _

theorem hexPad_notControl (k n : Nat) (h : n < 16 ^ k) : ∀ x ∈ hexPad k n, isControl x = false := by
  rw [hexPad, if_pos h]; exact hexFixed_notControl k n

theorem escapeOneChar_notControl (c : Char) : ∀ x ∈ escapeOneChar c, isControl x = false := by
  rw [escapeOneChar]
  by_cases hbs : c = '\\'
  · rw [if_pos hbs]; decide
  rw [if_neg hbs]
  by_cases hsp : c = ' '
  · rw [if_pos hsp]; decide
  rw [if_neg hsp]
  by_cases h7 : c = Char.ofNat 0x07
  · rw [if_pos h7]; decide
  rw [if_neg h7]
  by_cases h8 : c = Char.ofNat 0x08
  · rw [if_pos h8]; decide
  rw [if_neg h8]
  by_cases hn : c = '\n'
  · rw [if_pos hn]; decide
  rw [if_neg hn]
  by_cases hr : c = '\r'
  · rw [if_pos hr]; decide
  rw [if_neg hr]
  by_cases ht : c = '\t'
  · rw [if_pos ht]; decide
  rw [if_neg ht]
  by_cases hdq : c = '"'
  · rw [if_pos hdq]; decide
  rw [if_neg hdq]
  by_cases hsq : c = '\''
  · rw [if_pos hsq]; decide
  rw [if_neg hsq]
  by_cases hpc : c = '%'
  · rw [if_pos hpc]; decide
  rw [if_neg hpc]
  by_cases hdl : c = '$'
  · rw [if_pos hdl]; decide
  rw [if_neg hdl]
  by_cases hsc : c = ';'
  · rw [if_pos hsc]; decide
  rw [if_neg hsc]
  by_cases hst : c = '*'
  · rw [if_pos hst]; decide
  rw [if_neg hst]
  by_cases hqm : c = '?'
  · rw [if_pos hqm]; decide
  rw [if_neg hqm]
  by_cases hctl : isControl c = true
  · rw [if_pos hctl]
    simp only [isControl, Bool.or_eq_true, Bool.and_eq_true, decide_eq_true_eq] at hctl
    simp only []
    intro x hx
    split at hx
    · simp only [List.cons_append, List.nil_append, List.mem_cons] at hx
      rcases hx with h | h | h
      · rw [h]; decide
      · rw [h]; decide
      · exact hexPad_notControl 2 _ (by omega) x h
    split at hx
    · simp only [List.cons_append, List.nil_append, List.mem_cons] at hx
      rcases hx with h | h | h
      · rw [h]; decide
      · rw [h]; decide
      · exact hexPad_notControl 4 _ (by omega) x h
    · omega
  · rw [if_neg hctl]
    intro x hx
    simp only [List.mem_singleton] at hx
    rw [hx]; simpa using hctl

theorem systemdArgEscape_notControl (p : List Char) : ∀ x ∈ systemdArgEscape p, isControl x = false := by
  intro x hx
  simp only [systemdArgEscape, List.mem_flatMap] at hx
  obtain ⟨c, _, hc⟩ := hx
  exact escapeOneChar_notControl c x hc

theorem mem_joinSpace (l : List (List Char)) (x : Char) (hx : x ∈ joinSpace l) :
    x = ' ' ∨ ∃ ch ∈ l, x ∈ ch := by
  induction l with
  | nil => simp [joinSpace] at hx
  | cons a r ih =>
    cases r with
    | nil => simp only [joinSpace] at hx; exact Or.inr ⟨a, by simp, hx⟩
    | cons b r' =>
      simp only [joinSpace, List.mem_append, List.mem_cons] at hx
      rcases hx with h | h | h
      · exact Or.inr ⟨a, by simp, h⟩
      · exact Or.inl h
      · rcases ih h with h' | ⟨ch, hch, hxc⟩
        · exact Or.inl h'
        · exact Or.inr ⟨ch, by simp [hch], hxc⟩

theorem execStartValue_notControl (pats : List (List Char)) :
    ∀ x ∈ execStartValue pats, isControl x = false := by
  intro x hx
  simp only [execStartValue, List.mem_append] at hx
  rcases hx with (h | h) | h
  · exact (by decide : ∀ y ∈ execPrefix, isControl y = false) x h
  · rcases mem_joinSpace _ x h with h' | ⟨ch, hch, hxc⟩
    · rw [h']; decide
    · simp only [List.mem_map] at hch
      obtain ⟨p, _, hp⟩ := hch
      rw [← hp, List.mem_append] at hxc
      rcases hxc with h'' | h''
      · exact (by decide : ∀ y ∈ "--exclude ".toList, isControl y = false) x h''
      · exact systemdArgEscape_notControl p x h''
  · exact (by decide : ∀ y ∈ execSuffix, isControl y = false) x h

/-! ### lines -/

theorem splitLines_noNewline (a : List Char) (h : '\n' ∉ a) : splitLines a = [a] := by
  induction a with
  | nil => rfl
  | cons c cs ih =>
    have hc : c ≠ '\n' := fun e => h (by simp [e])
    have hcs : '\n' ∉ cs := fun e => h (by simp [e])
    simp [splitLines, hc, ih hcs]

theorem splitLines_append (a b : List Char) (h : '\n' ∉ a) :
    splitLines (a ++ '\n' :: b) = a :: splitLines b := by
  induction a with
  | nil => simp [splitLines]
  | cons c cs ih =>
    have hc : c ≠ '\n' := fun e => h (by simp [e])
    have hcs : '\n' ∉ cs := fun e => h (by simp [e])
    simp [splitLines, hc, ih hcs]

theorem stripPrefix_append (p s : List Char) : stripPrefix p (p ++ s) = some s := by
  induction p with
  | nil => cases s <;> rfl
  | cons a p ih => simp [stripPrefix, ih]

theorem unitExecStart_buildServiceText (pats : List (List Char)) :
    unitExecStart (buildServiceText pats) = some (execStartValue pats) := by
  have hv := execStartValue_notControl pats
  have hnl : '\n' ∉ "ExecStart=".toList ++ execStartValue pats := by
    intro h
    rcases List.mem_append.mp h with h | h
    · revert h; decide
    · exact absurd (hv _ h) (by decide)
  have e : buildServiceText pats
      = "[Unit]".toList ++ '\n' :: ("Description=Totalmapper".toList ++ '\n' :: ([] ++ '\n' ::
        ("[Service]".toList ++ '\n' :: ("Type=simple".toList ++ '\n' :: ("User=totalmapper".toList ++ '\n' ::
        ("Group=input".toList ++ '\n' :: (("ExecStart=".toList ++ execStartValue pats) ++ '\n' :: []))))))) := by
    have e0 : unitHeader
        = "[Unit]".toList ++ '\n' :: ("Description=Totalmapper".toList ++ '\n' :: ([] ++ '\n' ::
          ("[Service]".toList ++ '\n' :: ("Type=simple".toList ++ '\n' :: ("User=totalmapper".toList ++ '\n' ::
          ("Group=input".toList ++ '\n' :: "ExecStart=".toList)))))) := by decide
    unfold buildServiceText
    rw [e0]
    simp only [List.append_assoc, List.cons_append, List.nil_append]
  have hlines : splitLines (buildServiceText pats)
      = ["[Unit]".toList, "Description=Totalmapper".toList, [], "[Service]".toList, "Type=simple".toList,
         "User=totalmapper".toList, "Group=input".toList, "ExecStart=".toList ++ execStartValue pats, []] := by
    rw [e, splitLines_append _ _ (by decide), splitLines_append _ _ (by decide),
      splitLines_append _ _ (by decide), splitLines_append _ _ (by decide),
      splitLines_append _ _ (by decide), splitLines_append _ _ (by decide),
      splitLines_append _ _ (by decide), splitLines_append _ _ hnl]
    rfl
  have hany : (buildServiceText pats).any (fun c => c = '\r' || c = Char.ofNat 0) = false := by
    rw [List.any_eq_false]
    intro x hx
    have hx' : x = '\n' ∨ isControl x = false := by
      simp only [buildServiceText, List.mem_append, List.mem_singleton] at hx
      rcases hx with (h | h) | h
      · exact (by decide : ∀ y ∈ unitHeader, y = '\n' ∨ isControl y = false) x h
      · exact Or.inr (hv x h)
      · exact Or.inl h
    rcases hx' with h | h
    · rw [h]; decide
    · intro hc
      simp only [Bool.or_eq_true, decide_eq_true_eq] at hc
      rcases hc with hc | hc <;> · rw [hc] at h; revert h; decide
  have hlast : ("ExecStart=".toList ++ execStartValue pats).getLast? = some 'I' := by
    have : "ExecStart=".toList ++ execStartValue pats
        = ("ExecStart=".toList ++ (execPrefix ++ buildExcludeText pats) ++ " --dev-file /%".toList) ++ ['I'] := by
      have : execSuffix = " --dev-file /%".toList ++ ['I'] := by decide
      simp only [execStartValue, this, List.append_assoc]
    rw [this, List.getLast?_append]
    rfl
  have hE : "ExecStart=".toList ++ execStartValue pats
      = 'E' :: ("xecStart=".toList ++ execStartValue pats) := rfl
  have hfilter : (stripPrefix "ExecStart".toList (dropBlanks ("ExecStart=".toList ++ execStartValue pats))).isSome = true := by
    have : "ExecStart=".toList ++ execStartValue pats = "ExecStart".toList ++ ('=' :: execStartValue pats) := rfl
    rw [hE, dropBlanks, if_neg (by decide), ← hE, this, stripPrefix_append]
    rfl
  rw [unitExecStart, if_neg (by simp [hany])]
  simp only [hlines]
  rw [if_neg]
  · simp only [List.filter, hfilter]
    exact stripPrefix_append _ _
  · simp only [List.any, hlast]
    decide

end TmVerif
