/-
Runs of the loop model against a script of answers, with the ghost account; the lift of `LoopInv`
to whole runs; the link between the ghost account and the visible calls.
-/
import TmVerif.Proofs.Loop

namespace TmVerif

/-- run with the ghost account (same machine as `runScript`) -/
def runG (L : Layout) : Machine → Ghost → List Resp → Machine × Ghost
  | x, g, [] => (x, g)
  | x, g, r :: rs =>
    match pending x with
    | none => (x, g)
    | some _ => runG L (advance L x r) (ghostStep x r g) rs

theorem runG_machine (L : Layout) (x : Machine) (g : Ghost) (rs : List Resp) :
    (runG L x g rs).1 = (runScript L x rs).2 := by
  induction rs generalizing x g with
  | nil => rfl
  | cons r rs ih =>
    simp only [runG, runScript]
    cases pending x with
    | none => rfl
    | some c => simp only; exact ih _ _

theorem pending_bad (v : LoopVars) : pending ⟨v, Ctl.bad⟩ = none := rfl
theorem pending_done (v : LoopVars) (e : Option String) : pending ⟨v, Ctl.done e⟩ = none := rfl

/-- along every run: either an ill-typed answer occurred (`bad`), or the invariant holds at the end -/
theorem LoopInv.run {L : Layout} {x : Machine} {g : Ghost} (h : LoopInv L x g) (rs : List Resp) :
    (runG L x g rs).1.c = Ctl.bad ∨ LoopInv L (runG L x g rs).1 (runG L x g rs).2 := by
  induction rs generalizing x g with
  | nil => exact Or.inr h
  | cons r rs ih =>
    simp only [runG]
    cases hp : pending x with
    | none => exact Or.inr h
    | some c =>
      simp only
      by_cases hb : (TmVerif.advance L x r).c = Ctl.bad
      · left
        have : pending (TmVerif.advance L x r) = none := by
          generalize TmVerif.advance L x r = y at hb
          obtain ⟨v', c'⟩ := y
          cases hb; rfl
        cases rs with
        | nil => exact hb
        | cons r2 rs2 => simp only [runG, this]; exact hb
      · exact ih (h.advance r hb)

theorem runG_bad (L : Layout) (v : LoopVars) (g : Ghost) (rs : List Resp) :
    (runG L ⟨v, Ctl.bad⟩ g rs).1.c = Ctl.bad := by
  cases rs <;> rfl

/-- payloads of the step / release-all sends among the calls -/
def callsSends : List Call → List (List Event)
  | [] => []
  | Call.send SendKind.step evs :: cs => evs :: callsSends cs
  | Call.send SendKind.relAll evs :: cs => evs :: callsSends cs
  | _ :: cs => callsSends cs

/-- payloads of the chord sends among the calls -/
def callsChords : List Call → List (List Event)
  | [] => []
  | Call.send SendKind.chord evs :: cs => evs :: callsChords cs
  | _ :: cs => callsChords cs

/-- no answer of the script is a failure -/
def noErr : List Resp → Bool
  | [] => true
  | Resp.err _ :: _ => false
  | _ :: rs => noErr rs

/-- without failures, the ghost `sent` list is exactly the step / release-all sends among the calls -/
theorem sent_eq_callsSends (L : Layout) (x : Machine) (g : Ghost) (rs : List Resp) (hne : noErr rs = true)
    (hnb : (runG L x g rs).1.c ≠ Ctl.bad) :
    (runG L x g rs).2.sent = g.sent ++ callsSends (runScript L x rs).1 := by
  induction rs generalizing x g with
  | nil => simp [runG, runScript, callsSends]
  | cons r rs ih =>
    simp only [runG, runScript] at hnb ⊢
    cases hp : pending x with
    | none => simp [callsSends]
    | some c =>
      simp only [hp] at hnb ⊢
      have hne' : noErr rs = true := by cases r <;> simp_all [noErr]
      rw [ih _ _ hne' hnb]
      obtain ⟨v, ct⟩ := x
      -- the recorded call and the ghost update agree
      cases ct <;> simp only [pending, Option.some.injEq, reduceCtorEq] at hp <;> subst hp <;>
        cases r <;> simp_all [noErr, ghostStep, callsSends, List.append_assoc] <;>
        (try (rename_i n; cases n <;> simp [ghostStep]))
      all_goals (try exact hnb (runG_bad L v g rs))
      all_goals (try split <;> simp)

end TmVerif
