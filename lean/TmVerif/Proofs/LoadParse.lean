/-
Panic-freedom of `Model/Parse.lean`, function by function: each `.unwrap()` is behind a
`has_exactly_keys` / `has_at_least_keys` test that makes the key present, each `elems[len-1]`
behind a `len() == 0` test.
-/
import TmVerif.Proofs.LoadBasic

namespace TmVerif
open Outcome Parse

@[simp] theorem ok_ne_panic {α : Type} (a : α) : (ok a : Outcome α) ≠ panic := by intro h; cases h
@[simp] theorem error_ne_panic {α : Type} : (error : Outcome α) ≠ panic := by intro h; cases h

/-- one step of a panic-freedom proof -/
macro "np1" : tactic => `(tactic| first
  | exact ok_ne_panic _
  | exact error_ne_panic
  | exact ofOption_ne_panic _
  | (solve | simp)
  | (apply bind_ne_panic)
  | (intro _ _)
  | split
  | (dsimp only))

namespace Parse

@[simp] theorem parseKeyCodeO_np (t : List Char) : parseKeyCodeO t ≠ panic := by simp [parseKeyCodeO]

@[simp] theorem parseModifier_np (t : List Char) : parseModifier t ≠ panic := by
  unfold parseModifier; repeat np1

@[simp] theorem parseFromModifier_np (v : Json) : parseFromModifier v ≠ panic := by
  unfold parseFromModifier; repeat np1

@[simp] theorem parseFromModifiers_np (vs : List Json) : parseFromModifiers vs ≠ panic :=
  mapM_ne_panic _ fun _ _ => parseFromModifier_np _

@[simp] theorem parseRow_np (t : List Char) : parseRow t ≠ panic := by
  unfold parseRow; repeat np1

@[simp] theorem parseFromRow_np (e : List (List Char × Json)) : parseFromRow e ≠ panic := by
  unfold parseFromRow
  by_cases h : hasExactlyKeys e [sRow] = true
  · obtain ⟨v, hv⟩ := lookup_of_hasExactlyKeys h (k := sRow) (by simp)
    simp only [h, hv, if_true, unwrapO_some, bind_ok]
    repeat np1
  · simp [h]

@[simp] theorem parseFromKeyObj_np (e : List (List Char × Json)) : parseFromKeyObj e ≠ panic := by
  unfold parseFromKeyObj; repeat np1

@[simp] theorem parseFromKeyText_np (t : List Char) : parseFromKeyText t ≠ panic := by
  unfold parseFromKeyText; repeat np1

@[simp] theorem parseFromKey_np (v : Json) : parseFromKey v ≠ panic := by
  unfold parseFromKey; repeat np1

@[simp] theorem parseFrom_np (v : Json) : parseFrom v ≠ panic := by
  unfold parseFrom
  split
  · rename_i elems
    by_cases h : (elems.length == 0) = true
    · simp [h]
    · have h' : (elems.length == 0) = false := by simpa using h
      obtain ⟨x, hx⟩ := getLast?_of_length_ne_zero h'
      simp only [h', hx, unwrapO_some, bind_ok]
      repeat np1
  · repeat np1

@[simp] theorem parseToInitialElem_np (v : Json) : parseToInitialElem v ≠ panic := by
  unfold parseToInitialElem; repeat np1

@[simp] theorem parseToInitial_np (vs : List Json) : parseToInitial vs ≠ panic :=
  mapM_ne_panic _ fun _ _ => parseToInitialElem_np _

@[simp] theorem parseKeyCodeJ_np (v : Json) : parseKeyCodeJ v ≠ panic := by
  unfold parseKeyCodeJ; repeat np1

@[simp] theorem parseAliasToInitial_np (vs : List Json) : parseAliasToInitial vs ≠ panic :=
  mapM_ne_panic _ fun _ _ => parseKeyCodeJ_np _

@[simp] theorem parseSingleOrAliasToText_np (t : List Char) : parseSingleOrAliasToText t ≠ panic := by
  unfold parseSingleOrAliasToText; repeat np1

@[simp] theorem parseSingleOrAliasToTerminal_np (v : Json) : parseSingleOrAliasToTerminal v ≠ panic := by
  unfold parseSingleOrAliasToTerminal; repeat np1

@[simp] theorem parseSingleOrAliasToArray_np (e : List Json) : parseSingleOrAliasToArray e ≠ panic := by
  unfold parseSingleOrAliasToArray
  by_cases h : (e.length == 0) = true
  · simp [h]
  · have h' : (e.length == 0) = false := by simpa using h
    obtain ⟨x, hx⟩ := getLast?_of_length_ne_zero h'
    simp only [h', hx, unwrapO_some, bind_ok]
    repeat np1

@[simp] theorem parseSingleOrAliasTo_np (v : Json) : parseSingleOrAliasTo v ≠ panic := by
  unfold parseSingleOrAliasTo; repeat np1

@[simp] theorem parseSingleToText_np (t : List Char) : parseSingleToText t ≠ panic := by
  unfold parseSingleToText; repeat np1

@[simp] theorem parseSingleToTerminal_np (v : Json) : parseSingleToTerminal v ≠ panic := by
  unfold parseSingleToTerminal; repeat np1

@[simp] theorem parseSingleToArray_np (e : List Json) : parseSingleToArray e ≠ panic := by
  unfold parseSingleToArray
  by_cases h : (e.length == 0) = true
  · simp [h]
  · have h' : (e.length == 0) = false := by simpa using h
    obtain ⟨x, hx⟩ := getLast?_of_length_ne_zero h'
    simp only [h', hx, unwrapO_some, bind_ok]
    repeat np1

@[simp] theorem parseSingleTo_np (v : Json) : parseSingleTo v ≠ panic := by
  unfold parseSingleTo; repeat np1

@[simp] theorem parseRowToObj_np (e : List (List Char × Json)) : parseRowToObj e ≠ panic := by
  unfold parseRowToObj
  by_cases h : hasExactlyKeys e [sLetters] = true
  · obtain ⟨v, hv⟩ := lookup_of_hasExactlyKeys h (k := sLetters) (by simp)
    simp only [h, hv, if_true, unwrapO_some, bind_ok]
    repeat np1
  · simp [h]

@[simp] theorem parseRowToTerminal_np (v : Json) : parseRowToTerminal v ≠ panic := by
  unfold parseRowToTerminal; repeat np1

@[simp] theorem parseRowToArray_np (e : List Json) : parseRowToArray e ≠ panic := by
  unfold parseRowToArray
  by_cases h : (e.length == 0) = true
  · simp [h]
  · have h' : (e.length == 0) = false := by simpa using h
    obtain ⟨x, hx⟩ := getLast?_of_length_ne_zero h'
    simp only [h', hx, unwrapO_some, bind_ok]
    repeat np1

@[simp] theorem parseRowTo_np (v : Json) : parseRowTo v ≠ panic := by
  unfold parseRowTo; repeat np1

@[simp] theorem parseRepeatMs_np (v : Json) : parseRepeatMs v ≠ panic := by
  unfold parseRepeatMs; repeat np1

theorem special_lookups {special : List (List Char × Json)}
    (h : hasExactlyKeys special [sKeys, sDelay, sInterval] = true) :
    ∃ k d i, Json.lookup sKeys special = some k ∧ Json.lookup sDelay special = some d ∧
      Json.lookup sInterval special = some i := by
  obtain ⟨k, hk⟩ := lookup_of_hasExactlyKeys h (k := sKeys) (by simp)
  obtain ⟨d, hd⟩ := lookup_of_hasExactlyKeys h (k := sDelay) (by simp)
  obtain ⟨i, hi⟩ := lookup_of_hasExactlyKeys h (k := sInterval) (by simp)
  exact ⟨k, d, i, hk, hd, hi⟩

@[simp] theorem parseSingleRepeat_np (v : Option Json) : parseSingleRepeat v ≠ panic := by
  unfold parseSingleRepeat
  split
  · repeat np1
  · rename_i params
    by_cases h : hasExactlyKeys params [sSpecial] = true
    · obtain ⟨sp, hsp⟩ := lookup_of_hasExactlyKeys h (k := sSpecial) (by simp)
      simp only [h, hsp, if_true, unwrapO_some, bind_ok]
      split
      · rename_i special
        by_cases h2 : hasExactlyKeys special [sKeys, sDelay, sInterval] = true
        · obtain ⟨k, d, i, hk, hd, hi⟩ := special_lookups h2
          simp only [h2, hk, hd, hi, if_true, unwrapO_some, bind_ok]
          repeat np1
        · simp [h2]
      · simp
    · simp [h]
  · simp
  · simp

@[simp] theorem parseRowRepeat_np (v : Option Json) : parseRowRepeat v ≠ panic := by
  unfold parseRowRepeat
  split
  · repeat np1
  · rename_i params
    by_cases h : hasExactlyKeys params [sSpecial] = true
    · obtain ⟨sp, hsp⟩ := lookup_of_hasExactlyKeys h (k := sSpecial) (by simp)
      simp only [h, hsp, if_true, unwrapO_some, bind_ok]
      split
      · rename_i special
        by_cases h2 : hasExactlyKeys special [sKeys, sDelay, sInterval] = true
        · obtain ⟨k, d, i, hk, hd, hi⟩ := special_lookups h2
          simp only [h2, hk, hd, hi, if_true, unwrapO_some, bind_ok]
          repeat np1
        · simp [h2]
      · simp
    · simp [h]
  · simp
  · simp

@[simp] theorem parseAbsorbingElem_np (v : Json) : parseAbsorbingElem v ≠ panic := by
  unfold parseAbsorbingElem; repeat np1

@[simp] theorem parseAbsorbing_np (v : Option Json) : parseAbsorbing v ≠ panic := by
  unfold parseAbsorbing
  split
  · exact mapM_ne_panic _ fun _ _ => parseAbsorbingElem_np _
  · repeat np1
  · simp
  · simp

@[simp] theorem modifierKeys_np (ms : List Fancy.Modifier) : modifierKeys ms ≠ panic := by
  induction ms with
  | nil => simp [modifierKeys]
  | cons m ms ih =>
    cases m with
    | key k => simp only [modifierKeys]; exact bind_ne_panic ih (fun _ _ => ok_ne_panic _)
    | alias n => simp [modifierKeys]

@[simp] theorem singleToAliasFrom_np (f : Fancy.SingleFromKeys) : singleToAliasFrom f ≠ panic := by
  unfold singleToAliasFrom; repeat np1

@[simp] theorem parseMappingFromJson_np (v : Json) : parseMappingFromJson v ≠ panic := by
  unfold parseMappingFromJson
  split
  · rename_i mv
    by_cases h : hasAtLeastKeys mv [sFrom, sTo] = true
    · obtain ⟨f, hf⟩ := lookup_of_hasAtLeastKeys h (k := sFrom) (by simp)
      obtain ⟨t, ht⟩ := lookup_of_hasAtLeastKeys h (k := sTo) (by simp)
      simp only [h, hf, ht, if_true, unwrapO_some, bind_ok]
      repeat np1
    · by_cases h2 : hasExactlyKeys mv [sFrom, sRepeat] = true
      · obtain ⟨f, hf⟩ := lookup_of_hasExactlyKeys h2 (k := sFrom) (by simp)
        simp only [h, h2, hf, if_true, unwrapO_some, bind_ok]
        repeat np1
      · simp [h, h2]
  · simp

end Parse

/-- `parse_layout_from_json` never panics -/
theorem parseLayoutFromJson_np (j : Json) : parseLayoutFromJson j ≠ panic := by
  unfold parseLayoutFromJson
  split
  · rename_i rv
    by_cases h : hasExactlyKeys rv [sMappings] = true
    · obtain ⟨m, hm⟩ := lookup_of_hasExactlyKeys h (k := sMappings) (by simp)
      simp only [h, hm, if_true, unwrapO_some, bind_ok]
      split
      · apply bind_ne_panic (mapM_ne_panic _ fun _ _ => Parse.parseMappingFromJson_np _)
        intro ms _
        repeat np1
      · simp
    · simp [h]
  · simp

end TmVerif
