/-
Internal invariants of the mapper model and their preservation by every sub-function of a step.

`IInv extra s` — structural invariant (I1, I3, I4b, I5 of DESIGN §7); `extra` are output keys of a
mapping that is being installed (between `consume` and the push onto `active` in `addNewMapping`).
`IRel s s' evs` — what a release-only sub-operation may do: legal events tracking `pass ∪ mapped`,
releases only, `inp`/`active`/`mapped` only shrink, `pass` grows only by hand-over from `mapped`.
`IRelW s s' evs` — the same without "`mapped` only shrinks": keys may also move from `pass` to `mapped`
(a consumption of pass-through keys; since the D5 fix `addPhase2` ends with one in its absorb branch).
-/
import TmVerif.Proofs.Emits

namespace TmVerif

def held (s : State) : List Key := s.pass ++ s.mapped

@[simp] theorem mem_held (s : State) (k : Key) : k ∈ held s ↔ k ∈ s.pass ∨ k ∈ s.mapped := by
  simp [held]

structure IInv (extra : List Key) (s : State) : Prop where
  ndPass : s.pass.Nodup
  ndMapped : s.mapped.Nodup
  disj : ∀ k, k ∈ s.pass → k ∉ s.mapped
  passInp : ∀ k, k ∈ s.pass → k ∈ s.inp
  actInp : ∀ m, m ∈ s.active → ∀ k, k ∈ m.frm → k ∈ s.inp
  mappedAct : ∀ k, k ∈ s.mapped → k ∈ extra ∨ ∃ m, m ∈ s.active ∧ k ∈ m.to

structure IRel (s s' : State) (evs : List Event) : Prop where
  emits : Emits (held s) evs (held s')
  allRel : ∀ e, e ∈ evs → e.isRelease = true
  relHeld : ∀ k, Event.released k ∈ evs → k ∈ s.pass ∨ k ∈ s.mapped
  inpSub : ∀ k, k ∈ s'.inp → k ∈ s.inp
  actSub : ∀ m, m ∈ s'.active → m ∈ s.active
  passFrom : ∀ k, k ∈ s'.pass → k ∈ s.pass ∨ k ∈ s.mapped
  mappedSub : ∀ k, k ∈ s'.mapped → k ∈ s.mapped

theorem IRel.refl (s : State) : IRel s s [] :=
  ⟨Emits.nil (fun _ => Iff.rfl), by simp, by simp, fun _ h => h, fun _ h => h, fun _ h => Or.inl h, fun _ h => h⟩

theorem IRel.trans {s s1 s2 : State} {a b : List Event} (h1 : IRel s s1 a) (h2 : IRel s1 s2 b) :
    IRel s s2 (a ++ b) := by
  refine ⟨h1.emits.trans h2.emits, ?_, ?_, ?_, ?_, ?_, ?_⟩
  · intro e he
    rcases List.mem_append.mp he with h | h
    · exact h1.allRel e h
    · exact h2.allRel e h
  · intro k hk
    rcases List.mem_append.mp hk with h | h
    · exact h1.relHeld k h
    · rcases h2.relHeld k h with h | h
      · exact h1.passFrom k h
      · exact Or.inr (h1.mappedSub k h)
  · exact fun k h => h1.inpSub k (h2.inpSub k h)
  · exact fun m h => h1.actSub m (h2.actSub m h)
  · intro k h
    rcases h2.passFrom k h with h | h
    · exact h1.passFrom k h
    · exact Or.inr (h1.mappedSub k h)
  · exact fun k h => h1.mappedSub k (h2.mappedSub k h)

/-- `IRel` without `mappedSub`: keys may also move from `pass` to `mapped` (a consumption of
pass-through keys, as the second `consume_pass_through_keys` in `add_new_mapping` does). -/
structure IRelW (s s' : State) (evs : List Event) : Prop where
  emits : Emits (held s) evs (held s')
  allRel : ∀ e, e ∈ evs → e.isRelease = true
  relHeld : ∀ k, Event.released k ∈ evs → k ∈ s.pass ∨ k ∈ s.mapped
  inpSub : ∀ k, k ∈ s'.inp → k ∈ s.inp
  actSub : ∀ m, m ∈ s'.active → m ∈ s.active
  passFrom : ∀ k, k ∈ s'.pass → k ∈ s.pass ∨ k ∈ s.mapped
  mappedFrom : ∀ k, k ∈ s'.mapped → k ∈ s.mapped ∨ k ∈ s.pass

theorem IRel.toW {s s' : State} {evs : List Event} (h : IRel s s' evs) : IRelW s s' evs :=
  ⟨h.emits, h.allRel, h.relHeld, h.inpSub, h.actSub, h.passFrom, fun k hk => Or.inl (h.mappedSub k hk)⟩

theorem IRelW.refl (s : State) : IRelW s s [] := (IRel.refl s).toW

theorem IRelW.trans {s s1 s2 : State} {a b : List Event} (h1 : IRelW s s1 a) (h2 : IRelW s1 s2 b) :
    IRelW s s2 (a ++ b) := by
  refine ⟨h1.emits.trans h2.emits, ?_, ?_, ?_, ?_, ?_, ?_⟩
  · intro e he
    rcases List.mem_append.mp he with h | h
    · exact h1.allRel e h
    · exact h2.allRel e h
  · intro k hk
    rcases List.mem_append.mp hk with h | h
    · exact h1.relHeld k h
    · rcases h2.relHeld k h with h | h
      · exact h1.passFrom k h
      · exact (h1.mappedFrom k h).symm
  · exact fun k h => h1.inpSub k (h2.inpSub k h)
  · exact fun m h => h1.actSub m (h2.actSub m h)
  · intro k h
    rcases h2.passFrom k h with h | h
    · exact h1.passFrom k h
    · exact (h1.mappedFrom k h).symm
  · intro k h
    rcases h2.mappedFrom k h with h | h
    · exact h1.mappedFrom k h
    · exact (h1.passFrom k h).symm

/-- weaken `extra` -/
theorem IInv.mono {e1 e2 : List Key} {s : State} (h : IInv e1 s) (hsub : ∀ k, k ∈ e1 → k ∈ e2) : IInv e2 s :=
  ⟨h.ndPass, h.ndMapped, h.disj, h.passInp, h.actInp, fun k hk => (h.mappedAct k hk).imp (hsub k) id⟩

/-! ### keysToRelease / releaseActionMappings -/

theorem collectKeys_spec (mapped : List Key) (acc ks : List Key)
    (hnd : acc.Nodup) (hsub : ∀ k, k ∈ acc → k ∈ mapped) :
    (collectKeys mapped acc ks).Nodup ∧ (∀ k, k ∈ collectKeys mapped acc ks → k ∈ mapped) := by
  induction ks generalizing acc with
  | nil => exact ⟨hnd, hsub⟩
  | cons k ks ih =>
    simp only [collectKeys]
    split
    · rename_i hc
      simp only [Bool.and_eq_true, List.contains_eq_mem, decide_eq_true_eq, Bool.not_eq_eq_eq_not,
        Bool.not_true, decide_eq_false_iff_not] at hc
      apply ih
      · exact List.nodup_append.mpr ⟨hnd, by simp, by intro a ha b hb; simp at hb; subst hb; intro e; subst e; exact hc.2 ha⟩
      · intro x hx
        rcases List.mem_append.mp hx with h | h
        · exact hsub x h
        · simp at h; subst h; exact hc.1
    · exact ih acc hnd hsub

theorem keysToRelease_spec (mapped : List Key) (acc : List Key) (ms : List Mapping)
    (hnd : acc.Nodup) (hsub : ∀ k, k ∈ acc → k ∈ mapped) :
    (keysToRelease mapped acc ms).Nodup ∧ (∀ k, k ∈ keysToRelease mapped acc ms → k ∈ mapped) := by
  induction ms generalizing acc with
  | nil => exact ⟨hnd, hsub⟩
  | cons m ms ih =>
    simp only [keysToRelease]
    split
    · have := collectKeys_spec mapped acc m.to.reverse hnd hsub
      exact ih _ this.1 this.2
    · exact ih acc hnd hsub

theorem releaseActionMappings_spec {extra : List Key} {s : State} (h : IInv extra s) :
    IInv extra (releaseActionMappings s).1 ∧ IRel s (releaseActionMappings s).1 (releaseActionMappings s).2 := by
  have hk := keysToRelease_spec s.mapped [] s.active (by simp) (by simp)
  generalize hktr : keysToRelease s.mapped [] s.active = ktr at hk
  have hs : releaseActionMappings s =
      ({ s with mapped := s.mapped.filter (fun k => !ktr.contains k),
                pass := s.pass.filter (fun k => !ktr.contains k) }, ktr.map Event.released) := by
    simp [releaseActionMappings, hktr]
  rw [hs]
  refine ⟨⟨?_, ?_, ?_, ?_, ?_, ?_⟩, ⟨?_, ?_, ?_, ?_, ?_, ?_, ?_⟩⟩
  · exact h.ndPass.filter _
  · exact h.ndMapped.filter _
  · intro k hk1 hk2
    simp only [List.mem_filter] at hk1 hk2
    exact h.disj k hk1.1 hk2.1
  · intro k hk1
    simp only [List.mem_filter] at hk1
    exact h.passInp k hk1.1
  · exact h.actInp
  · intro k hk1
    simp only [List.mem_filter] at hk1
    exact h.mappedAct k hk1.1
  · apply Emits.releases hk.1
    · intro k hk1; simp [hk.2 k hk1]
    · intro x; simp only [mem_held, List.mem_filter]
      simp only [List.contains_eq_mem, Bool.not_eq_eq_eq_not, Bool.not_true, decide_eq_false_iff_not]
      constructor
      · rintro (h1 | h1)
        · exact ⟨Or.inl h1.1, h1.2⟩
        · exact ⟨Or.inr h1.1, h1.2⟩
      · rintro ⟨h1 | h1, h2⟩
        · exact Or.inl ⟨h1, h2⟩
        · exact Or.inr ⟨h1, h2⟩
  · intro e he; simp only [List.mem_map] at he; obtain ⟨k, _, rfl⟩ := he; rfl
  · intro k hk1
    simp only [List.mem_map, Event.released.injEq, exists_eq_right] at hk1
    exact Or.inr (hk.2 k hk1)
  · exact fun _ h => h
  · exact fun _ h => h
  · intro k hk1; simp only [List.mem_filter] at hk1; exact Or.inl hk1.1
  · intro k hk1; simp only [List.mem_filter] at hk1; exact hk1.1

end TmVerif

namespace TmVerif

/-! ### removeMapping -/

def hoP (inp : List Key) (others : List Mapping) (rk : Key) (k : Key) : Bool :=
  !usedBy others k && (inp.contains k && k != rk) && !shadowedBy others k

def relP (inp : List Key) (others : List Mapping) (rk : Key) (k : Key) : Bool :=
  !usedBy others k && !((inp.contains k && k != rk) && !shadowedBy others k)

theorem removeScan_eq (inp : List Key) (others : List Mapping) (rk : Key) (l : List Key) :
    removeScan inp others rk l =
      (l.filter (hoP inp others rk), (l.filter (relP inp others rk)).map Event.released) := by
  induction l with
  | nil => rfl
  | cons k ks ih =>
    simp only [removeScan, ih]
    repeat' split
    all_goals simp_all [List.filter_cons, hoP, relP]
    all_goals grind

theorem usedBy_iff (others : List Mapping) (k : Key) :
    usedBy others k = true ↔ ∃ m, m ∈ others ∧ k ∈ m.to := by
  simp [usedBy]

theorem shadowedBy_iff (others : List Mapping) (k : Key) :
    shadowedBy others k = true ↔ ∃ m, m ∈ others ∧ k ∈ m.frm := by
  simp [shadowedBy]

theorem removeMapping_eq (s : State) (before after : List Mapping) (rk : Key) :
    removeMapping s before after rk =
      ({ s with mapped := s.mapped.filter (usedBy (before ++ after)),
                pass := s.pass ++ s.mapped.reverse.filter (hoP s.inp (before ++ after) rk),
                active := before ++ after },
       (s.mapped.reverse.filter (relP s.inp (before ++ after) rk)).map Event.released) := by
  simp [removeMapping, removeScan_eq]

theorem removeMapping_spec {extra : List Key} {s : State} {before after : List Mapping} {m : Mapping}
    (rk : Key) (h : IInv extra s) (hact : s.active = before ++ m :: after) :
    IInv [] (removeMapping s before after rk).1 ∧
    IRel s (removeMapping s before after rk).1 (removeMapping s before after rk).2 := by
  rw [removeMapping_eq]
  have hsub : ∀ x, x ∈ before ++ after → x ∈ s.active := by
    intro x hx; rw [hact]; simp at hx ⊢; grind
  refine ⟨⟨?_, ?_, ?_, ?_, ?_, ?_⟩, ⟨?_, ?_, ?_, ?_, ?_, ?_, ?_⟩⟩
  · apply List.nodup_append.mpr
    refine ⟨h.ndPass, ((List.reverse_perm _).nodup_iff.mpr h.ndMapped).filter _, ?_⟩
    intro a ha b hb e
    subst e
    simp only [List.mem_filter, List.mem_reverse] at hb
    exact h.disj a ha hb.1
  · exact h.ndMapped.filter _
  · intro k hk1 hk2
    simp only [List.mem_append, List.mem_filter, List.mem_reverse] at hk1 hk2
    rcases hk1 with h1 | h1
    · exact h.disj k h1 hk2.1
    · simp [hoP, hk2.2] at h1
  · intro k hk1
    simp only [List.mem_append, List.mem_filter, List.mem_reverse] at hk1
    rcases hk1 with h1 | h1
    · exact h.passInp k h1
    · simp [hoP] at h1; exact h1.2.1.2.1
  · intro m' hm'; exact h.actInp m' (hsub m' hm')
  · intro k hk1
    simp only [List.mem_filter] at hk1
    exact Or.inr ((usedBy_iff _ _).mp hk1.2)
  · apply Emits.releases
    · exact ((List.reverse_perm _).nodup_iff.mpr h.ndMapped).filter _
    · intro k hk1; simp only [List.mem_filter, List.mem_reverse] at hk1; simp [hk1.1]
    · intro x
      simp only [mem_held, List.mem_append, List.mem_filter, List.mem_reverse]
      have hd := h.disj x
      by_cases hu : usedBy (before ++ after) x <;>
        by_cases hh : (s.inp.contains x && x != rk) <;>
        by_cases hs : shadowedBy (before ++ after) x <;>
        simp [hoP, relP, hu, hs] <;> grind
  · intro e he; simp only [List.mem_map] at he; obtain ⟨k, _, rfl⟩ := he; rfl
  · intro k hk1
    simp only [List.mem_map, Event.released.injEq, exists_eq_right, List.mem_filter, List.mem_reverse] at hk1
    exact Or.inr hk1.1
  · exact fun _ h => h
  · exact hsub
  · intro k hk1
    simp only [List.mem_append, List.mem_filter, List.mem_reverse] at hk1
    rcases hk1 with h1 | h1
    · exact Or.inl h1
    · exact Or.inr h1.1
  · intro k hk1; simp only [List.mem_filter] at hk1; exact hk1.1

end TmVerif

namespace TmVerif

/-! ### dropFailing -/

/-- fields a release loop never touches -/
structure Frame (s s' : State) : Prop where
  inp : s'.inp = s.inp
  absorbed : s'.absorbed = s.absorbed
  absTrig : s'.absTrig = s.absTrig
  repTrig : s'.repTrig = s.repTrig

theorem Frame.refl (s : State) : Frame s s := ⟨rfl, rfl, rfl, rfl⟩
theorem Frame.trans {a b c : State} (h1 : Frame a b) (h2 : Frame b c) : Frame a c :=
  ⟨h2.inp.trans h1.inp, h2.absorbed.trans h1.absorbed, h2.absTrig.trans h1.absTrig, h2.repTrig.trans h1.repTrig⟩

theorem removeMapping_frame (s : State) (before after : List Mapping) (rk : Key) :
    Frame s (removeMapping s before after rk).1 := by
  rw [removeMapping_eq]; exact ⟨rfl, rfl, rfl, rfl⟩

theorem removeMapping_active (s : State) (before after : List Mapping) (rk : Key) :
    (removeMapping s before after rk).1.active = before ++ after := by
  rw [removeMapping_eq]

theorem dropFailing_spec (k : Key) {extra : List Key} (s : State) (rb after : List Mapping)
    (h : IInv extra s) (hact : s.active = rb.reverse ++ after)
    (hafter : ∀ m, m ∈ after → k ∉ m.frm) :
    IInv extra (dropFailing k s rb after).1 ∧
    IRel s (dropFailing k s rb after).1 (dropFailing k s rb after).2 ∧
    (∀ m, m ∈ (dropFailing k s rb after).1.active → k ∉ m.frm) ∧
    Frame s (dropFailing k s rb after).1 := by
  induction rb generalizing s after with
  | nil =>
    have hs : ({ s with active := after } : State) = s := by
      cases s; simp at hact; simp [hact]
    simp only [dropFailing, hs]
    exact ⟨h, IRel.refl s, by simpa [hact] using hafter, Frame.refl s⟩
  | cons m rb ih =>
    simp only [dropFailing]
    have hact' : s.active = rb.reverse ++ m :: after := by
      rw [hact]; simp
    split
    · rename_i hf
      have h1 := removeMapping_spec (m := m) k h hact'
      have hfr := removeMapping_frame s rb.reverse after k
      have ha := removeMapping_active s rb.reverse after k
      generalize removeMapping s rb.reverse after k = r1 at *
      obtain ⟨s1, e1⟩ := r1
      have h2 := ih s1 after (h1.1.mono (by simp)) ha hafter
      generalize dropFailing k s1 rb after = r2 at *
      obtain ⟨s2, e2⟩ := r2
      exact ⟨h2.1, h1.2.trans h2.2.1, h2.2.2.1, hfr.trans h2.2.2.2⟩
    · rename_i hf
      apply ih s (m :: after) h hact'
      intro m' hm'
      rcases List.mem_cons.mp hm' with rfl | hm'
      · simpa [failsWhenReleased] using hf
      · exact hafter m' hm'

end TmVerif

namespace TmVerif

/-! ### the tail of `newly_release` / of one round of `release_absorbed_keys` -/

theorem nodup_reverse {l : List Key} (h : l.Nodup) : l.reverse.Nodup :=
  (List.reverse_perm l).nodup_iff.mpr h

theorem removeLast_nodup {l : List Key} (k : Key) (h : l.Nodup) : (removeLast k l).Nodup :=
  nodup_reverse ((nodup_reverse h).erase k)

theorem mem_removeLast {l : List Key} (k x : Key) (h : l.Nodup) :
    x ∈ removeLast k l ↔ x ∈ l ∧ x ≠ k := by
  simp only [removeLast, List.mem_reverse, (nodup_reverse h).mem_erase_iff]
  exact And.comm

theorem releaseTail_spec {extra : List Key} {s : State} (k : Key) (h : IInv extra s)
    (hact : ∀ m, m ∈ s.active → k ∉ m.frm) :
    IInv extra (releaseTail s k).1 ∧ IRel s (releaseTail s k).1 (releaseTail s k).2 ∧
    k ∉ (releaseTail s k).1.inp ∧ (releaseTail s k).1.active = s.active ∧
    (releaseTail s k).1.absorbed = s.absorbed ∧ (releaseTail s k).1.absTrig = s.absTrig ∧
    (releaseTail s k).1.repTrig = s.repTrig ∧
    (∀ x, x ∈ (releaseTail s k).1.inp ↔ x ∈ s.inp ∧ x ≠ k) := by
  unfold releaseTail
  by_cases hc : s.pass.contains k = true
  · simp only [hc, if_true]
    have hk : k ∈ s.pass := by simpa using hc
    refine ⟨⟨removeLast_nodup k h.ndPass, h.ndMapped, ?_, ?_, ?_, h.mappedAct⟩,
            ⟨?_, ?_, ?_, ?_, fun _ hm => hm, ?_, fun _ hm => hm⟩, ?_, by simp, by simp, by simp, by simp, ?_⟩
    · intro x hx; exact h.disj x ((mem_removeLast k x h.ndPass).mp hx).1
    · intro x hx
      have := (mem_removeLast k x h.ndPass).mp hx
      simp [h.passInp x this.1, this.2]
    · intro m hm x hx
      have : x ≠ k := fun e => hact m hm (e ▸ hx)
      simp [h.actInp m hm x hx, this]
    · apply Emits.release (by simp [hk])
      intro x
      have hd := h.disj k hk
      simp only [mem_held, mem_removeLast k x h.ndPass]
      constructor
      · rintro (h1 | h1)
        · exact ⟨Or.inl h1.1, h1.2⟩
        · exact ⟨Or.inr h1, fun e => hd (e ▸ h1)⟩
      · rintro ⟨h1 | h1, h2⟩
        · exact Or.inl ⟨h1, h2⟩
        · exact Or.inr h1
    · simp [Event.isRelease]
    · intro x hx; simp at hx; subst hx; exact Or.inl hk
    · intro x hx; simp at hx; exact hx.1
    · intro x hx; exact Or.inl ((mem_removeLast k x h.ndPass).mp hx).1
    · simp
    · intro x; simp
  · simp only [hc]
    have hk : k ∉ s.pass := by simpa using hc
    refine ⟨⟨h.ndPass, h.ndMapped, h.disj, ?_, ?_, h.mappedAct⟩,
            ⟨Emits.nil (fun _ => Iff.rfl), by simp, by simp, ?_, fun _ hm => hm, fun _ hm => Or.inl hm, fun _ hm => hm⟩,
            ?_, by simp, by simp, by simp, by simp, ?_⟩
    · intro x hx
      have : x ≠ k := fun e => hk (e ▸ hx)
      simp [h.passInp x hx, this]
    · intro m hm x hx
      have : x ≠ k := fun e => hact m hm (e ▸ hx)
      simp [h.actInp m hm x hx, this]
    · intro x hx; simp at hx; exact hx.1
    · simp
    · intro x; simp

end TmVerif

namespace TmVerif

/-! ### releaseKey, releaseAbsorbedKeys -/

theorem releaseKey_eq (s : State) (k : Key) :
    releaseKey s k =
      ((releaseTail (dropFailing k s s.active.reverse []).1 k).1,
       (dropFailing k s s.active.reverse []).2 ++ (releaseTail (dropFailing k s s.active.reverse []).1 k).2) := rfl

theorem releaseKey_spec {extra : List Key} {s : State} (k : Key) (h : IInv extra s) :
    IInv extra (releaseKey s k).1 ∧ IRel s (releaseKey s k).1 (releaseKey s k).2 ∧
    (∀ m, m ∈ (releaseKey s k).1.active → k ∉ m.frm) ∧
    (releaseKey s k).1.absorbed = s.absorbed ∧ (releaseKey s k).1.absTrig = s.absTrig ∧
    (releaseKey s k).1.repTrig = s.repTrig ∧
    (∀ x, x ∈ (releaseKey s k).1.inp ↔ x ∈ s.inp ∧ x ≠ k) := by
  rw [releaseKey_eq]
  have h1 := dropFailing_spec k s s.active.reverse [] h (by simp) (by simp)
  have h2 := releaseTail_spec k h1.1 h1.2.2.1
  refine ⟨h2.1, h1.2.1.trans h2.2.1, ?_, ?_, ?_, ?_, ?_⟩
  · simp only; rw [h2.2.2.2.1]; exact h1.2.2.1
  · simp only; rw [h2.2.2.2.2.1, h1.2.2.2.absorbed]
  · simp only; rw [h2.2.2.2.2.2.1, h1.2.2.2.absTrig]
  · simp only; rw [h2.2.2.2.2.2.2.1, h1.2.2.2.repTrig]
  · intro x; simp only; rw [h2.2.2.2.2.2.2.2 x, h1.2.2.2.inp]

theorem releaseAbsorbedLoop_cons (s : State) (k : Key) (ks : List Key) :
    releaseAbsorbedLoop s (k :: ks) =
      ((releaseAbsorbedLoop (releaseKey s k).1 ks).1,
       (releaseKey s k).2 ++ (releaseAbsorbedLoop (releaseKey s k).1 ks).2) := rfl

theorem releaseAbsorbedLoop_spec {extra : List Key} (s : State) (ks : List Key) (h : IInv extra s) :
    IInv extra (releaseAbsorbedLoop s ks).1 ∧
    IRel s (releaseAbsorbedLoop s ks).1 (releaseAbsorbedLoop s ks).2 ∧
    (releaseAbsorbedLoop s ks).1.absorbed = s.absorbed ∧ (releaseAbsorbedLoop s ks).1.absTrig = s.absTrig ∧
    (releaseAbsorbedLoop s ks).1.repTrig = s.repTrig ∧
    (∀ x, x ∈ (releaseAbsorbedLoop s ks).1.inp ↔ x ∈ s.inp ∧ x ∉ ks) ∧
    (∀ m, m ∈ (releaseAbsorbedLoop s ks).1.active → ∀ k, k ∈ ks → k ∉ m.frm) := by
  induction ks generalizing s with
  | nil => exact ⟨h, IRel.refl s, rfl, rfl, rfl, by simp [releaseAbsorbedLoop], by simp⟩
  | cons k ks ih =>
    rw [releaseAbsorbedLoop_cons]
    have h1 := releaseKey_spec k h
    have h2 := ih (releaseKey s k).1 h1.1
    refine ⟨h2.1, h1.2.1.trans h2.2.1, ?_, ?_, ?_, ?_, ?_⟩
    · simp only; rw [h2.2.2.1, h1.2.2.2.1]
    · simp only; rw [h2.2.2.2.1, h1.2.2.2.2.1]
    · simp only; rw [h2.2.2.2.2.1, h1.2.2.2.2.2.1]
    · intro x; simp only; rw [h2.2.2.2.2.2.1 x, h1.2.2.2.2.2.2 x]; simp only [List.mem_cons, not_or]; grind
    · intro m hm x hx
      rcases List.mem_cons.mp hx with rfl | hx
      · exact h1.2.2.1 m (h2.2.1.actSub m hm)
      · exact h2.2.2.2.2.2.2 m hm x hx

theorem releaseAbsorbedKeys_spec {extra : List Key} (s : State) (h : IInv extra s) :
    IInv extra (releaseAbsorbedKeys s).1 ∧
    IRel s (releaseAbsorbedKeys s).1 (releaseAbsorbedKeys s).2 ∧
    (releaseAbsorbedKeys s).1.absorbed = [] ∧ (releaseAbsorbedKeys s).1.absTrig = none ∧
    (releaseAbsorbedKeys s).1.repTrig = s.repTrig ∧
    (∀ x, x ∈ (releaseAbsorbedKeys s).1.inp ↔ x ∈ s.inp ∧ x ∉ s.absorbed) ∧
    (∀ m, m ∈ (releaseAbsorbedKeys s).1.active → ∀ k, k ∈ s.absorbed → k ∉ m.frm) := by
  unfold releaseAbsorbedKeys
  have h0 : IInv extra { s with absorbed := [], absTrig := none } :=
    ⟨h.ndPass, h.ndMapped, h.disj, h.passInp, h.actInp, h.mappedAct⟩
  have h1 := releaseAbsorbedLoop_spec _ s.absorbed h0
  simp only at h1 ⊢
  refine ⟨h1.1, ?_, h1.2.2.1, h1.2.2.2.1, h1.2.2.2.2.1, h1.2.2.2.2.2.1, h1.2.2.2.2.2.2⟩
  exact ⟨h1.2.1.emits, h1.2.1.allRel, h1.2.1.relHeld, h1.2.1.inpSub, h1.2.1.actSub, h1.2.1.passFrom, h1.2.1.mappedSub⟩

/-! ### releaseAllActionKeys -/

theorem releaseAllActionKeys_spec {extra : List Key} (s : State) (h : IInv extra s) :
    IInv extra (releaseAllActionKeys s).1 ∧
    IRel s (releaseAllActionKeys s).1 (releaseAllActionKeys s).2 ∧
    (∀ k, k ∈ held (releaseAllActionKeys s).1 ↔ k ∈ held s ∧ isActionKey k = false) := by
  simp only [releaseAllActionKeys]
  refine ⟨⟨h.ndPass.filter _, h.ndMapped.filter _, ?_, ?_, h.actInp, ?_⟩,
          ⟨?_, ?_, ?_, fun _ hm => hm, fun _ hm => hm, ?_, ?_⟩, ?_⟩
  · intro k h1 h2; simp only [List.mem_filter] at h1 h2; exact h.disj k h1.1 h2.1
  · intro k h1; simp only [List.mem_filter] at h1; exact h.passInp k h1.1
  · intro k h1; simp only [List.mem_filter] at h1; exact h.mappedAct k h1.1
  · apply Emits.releases
    · apply List.nodup_append.mpr
      refine ⟨h.ndPass.filter _, h.ndMapped.filter _, ?_⟩
      intro a ha b hb e; subst e
      simp only [List.mem_filter] at ha hb
      exact h.disj a ha.1 hb.1
    · intro k hk; simp only [List.mem_append, List.mem_filter] at hk; simp only [mem_held]; grind
    · intro x; simp only [mem_held, List.mem_append, List.mem_filter]; grind
  · intro e he; simp only [List.mem_map] at he; obtain ⟨k, _, rfl⟩ := he; rfl
  · intro k hk
    simp only [List.mem_map, Event.released.injEq, exists_eq_right, List.mem_append, List.mem_filter] at hk
    grind
  · intro k hk; simp only [List.mem_filter] at hk; exact Or.inl hk.1
  · intro k hk; simp only [List.mem_filter] at hk; exact hk.1
  · intro k; simp only [mem_held, List.mem_filter]; grind

end TmVerif

namespace TmVerif

/-! ### consume -/

theorem consume_eq (m : Mapping) (l : List Key) :
    consume m l =
      (l.filter (fun k => !(m.frm.contains k || m.to.contains k)),
       l.filter (fun k => m.to.contains k),
       (l.filter (fun k => m.frm.contains k && !m.to.contains k)).map Event.released) := by
  induction l with
  | nil => rfl
  | cons k ks ih =>
    simp only [consume, ih, List.filter_cons]
    cases h1 : m.frm.contains k <;> cases h2 : m.to.contains k <;> simp

/-- the state after the `retain` at the top of `add_new_mapping` -/
def afterConsume (s : State) (m : Mapping) : State :=
  { s with pass := (consume m s.pass).1, mapped := s.mapped ++ (consume m s.pass).2.1 }

theorem consume_spec {extra : List Key} (s : State) (m : Mapping) (h : IInv extra s) :
    IInv (extra ++ m.to) (afterConsume s m) ∧
    Emits (held s) (consume m s.pass).2.2 (held (afterConsume s m)) ∧
    (∀ e, e ∈ (consume m s.pass).2.2 → e.isRelease = true) ∧
    (∀ k, Event.released k ∈ (consume m s.pass).2.2 → k ∈ s.pass ∧ k ∈ m.frm ∧ k ∉ m.to) ∧
    (∀ k, k ∈ (afterConsume s m).pass ↔ k ∈ s.pass ∧ k ∉ m.frm ∧ k ∉ m.to) ∧
    (∀ k, k ∈ (afterConsume s m).mapped ↔ k ∈ s.mapped ∨ (k ∈ s.pass ∧ k ∈ m.to)) := by
  simp only [afterConsume, consume_eq]
  refine ⟨⟨h.ndPass.filter _, ?_, ?_, ?_, h.actInp, ?_⟩, ?_, ?_, ?_, ?_, ?_⟩
  · apply List.nodup_append.mpr
    refine ⟨h.ndMapped, h.ndPass.filter _, ?_⟩
    intro a ha b hb e; subst e
    simp only [List.mem_filter] at hb
    exact h.disj a hb.1 ha
  · intro k h1 h2
    simp only [List.mem_filter, List.mem_append] at h1 h2
    have := h.disj k h1.1
    grind
  · intro k h1; simp only [List.mem_filter] at h1; exact h.passInp k h1.1
  · intro k h1
    simp only [List.mem_filter, List.mem_append] at h1 ⊢
    rcases h1 with h1 | h1
    · rcases h.mappedAct k h1 with h2 | h2
      · exact Or.inl (Or.inl h2)
      · exact Or.inr h2
    · exact Or.inl (Or.inr (by simpa using h1.2))
  · apply Emits.releases
    · exact h.ndPass.filter _
    · intro k hk; simp only [List.mem_filter] at hk; simp [hk.1]
    · intro x; simp only [mem_held, List.mem_filter, List.mem_append]
      have := h.disj x
      grind
  · intro e he; simp only [List.mem_map] at he; obtain ⟨k, _, rfl⟩ := he; rfl
  · intro k hk
    simp only [List.mem_map, Event.released.injEq, exists_eq_right, List.mem_filter] at hk
    simpa using hk
  · intro k; simp only [List.mem_filter]; grind
  · intro k; simp only [List.mem_filter, List.mem_append]; grind

/-- the consumption as a (weak) release-only relation -/
theorem consume_relW {extra : List Key} (s : State) (m : Mapping) (h : IInv extra s) :
    IRelW s (afterConsume s m) (consume m s.pass).2.2 := by
  obtain ⟨_, c2, c3, c4, c5, c6⟩ := consume_spec s m h
  refine ⟨c2, c3, fun k hk => Or.inl (c4 k hk).1, fun _ hx => hx, fun _ hx => hx, ?_, ?_⟩
  · intro k hk; exact Or.inl ((c5 k).mp hk).1
  · intro k hk
    rcases (c6 k).mp hk with h1 | h1
    · exact Or.inl h1
    · exact Or.inr h1.1

/-- consuming is a no-op when no pass-through key is mentioned by `m` -/
theorem afterConsume_noop (s : State) (m : Mapping) (h : ∀ k, k ∈ s.pass → k ∉ m.frm ∧ k ∉ m.to) :
    afterConsume s m = s ∧ (consume m s.pass).2.2 = [] := by
  have h1 : s.pass.filter (fun k => !(m.frm.contains k || m.to.contains k)) = s.pass := by
    rw [List.filter_eq_self]; intro k hk; have := h k hk; simp [this.1, this.2]
  have h2 : s.pass.filter (fun k => m.to.contains k) = [] := by
    rw [List.filter_eq_nil_iff]; intro k hk; have := h k hk; simp [this.2]
  have h3 : s.pass.filter (fun k => m.frm.contains k && !m.to.contains k) = [] := by
    rw [List.filter_eq_nil_iff]; intro k hk; have := h k hk; simp [this.1]
  simp only [afterConsume, consume_eq, h1, h2, h3, List.append_nil, List.map_nil, and_true]

/-- after a consumption no pass-through key is mentioned by `m` -/
theorem afterConsume_pass_clear (s : State) (m : Mapping) (k : Key) (hk : k ∈ (afterConsume s m).pass) :
    k ∈ s.pass ∧ k ∉ m.frm ∧ k ∉ m.to := by
  simp only [afterConsume, consume_eq, List.mem_filter] at hk
  simpa using hk

/-! ### pressOne / pressAll -/

theorem pressOne_spec {extra : List Key} (s : State) (k : Key) (h : IInv extra s) (hk : k ∈ extra) :
    IInv extra (pressOne s k).1 ∧
    Emits (held s) (pressOne s k).2 (held (pressOne s k).1) ∧
    (∀ x, x ∈ held (pressOne s k).1 ↔ x ∈ held s ∨ x = k) ∧
    (∀ x, x ∈ (pressOne s k).1.pass → x ∈ s.pass) ∧
    (∀ x, x ∈ s.pass → x ∈ (pressOne s k).1.pass ∨ (x = k ∧ isActionKey k = true)) ∧
    (∀ x, Event.pressed x ∈ (pressOne s k).2 → x = k) ∧
    (∀ x, Event.released x ∈ (pressOne s k).2 → x = k ∧ isActionKey k = true ∧ x ∈ held s) ∧
    (isActionKey k = true → Event.pressed k ∈ (pressOne s k).2) ∧
    (pressOne s k).1.inp = s.inp ∧ (pressOne s k).1.active = s.active ∧
    (pressOne s k).1.absorbed = s.absorbed ∧ (pressOne s k).1.absTrig = s.absTrig ∧
    (pressOne s k).1.repTrig = s.repTrig := by
  unfold pressOne
  by_cases ha : isActionKey k = true
  · simp only [ha, if_true]
    by_cases hm : s.mapped.contains k = true
    · simp only [hm, if_true]
      try dsimp only
      have hm' : k ∈ s.mapped := by simpa using hm
      refine ⟨h, ?_, ?_, fun _ hx => hx, fun _ hx => Or.inl hx, ?_, ?_, ?_, by simp, by simp, by simp, by simp, by simp⟩
      · have : [Event.released k, Event.pressed k] = [Event.released k] ++ [Event.pressed k] := rfl
        rw [this]
        apply Emits.trans (V1 := (held s).filter (fun x => x != k))
        · exact Emits.release (by simp [hm']) (by intro x; simp)
        · apply Emits.press (by simp)
          intro x; simp; grind
      · intro x; simp; grind
      · intro x hx; simpa using hx
      · intro x hx; simp at hx; subst hx; simp [ha, hm']
      · simp
    · simp only [hm]
      try dsimp only
      have hm' : k ∉ s.mapped := by simpa using hm
      by_cases hp : s.pass.contains k = true
      · simp only [hp, if_true]
        try dsimp only
        have hp' : k ∈ s.pass := by simpa using hp
        refine ⟨⟨h.ndPass.filter _, ?_, ?_, ?_, h.actInp, ?_⟩, ?_, ?_, ?_, ?_, ?_, ?_, ?_, by simp, by simp, by simp, by simp, by simp⟩
        · apply List.nodup_append.mpr
          exact ⟨h.ndMapped, by simp, by intro a hxa b hb e; simp at hb; subst hb; subst e; exact hm' hxa⟩
        · intro x h1 h2
          simp at h1 h2
          have := h.disj x h1.1
          grind
        · intro x h1; simp at h1; exact h.passInp x h1.1
        · intro x h1
          simp at h1
          rcases h1 with h1 | h1
          · exact h.mappedAct x h1
          · subst h1; exact Or.inl hk
        · have : [Event.released k, Event.pressed k] = [Event.released k] ++ [Event.pressed k] := rfl
          rw [this]
          apply Emits.trans (V1 := (held s).filter (fun x => x != k))
          · exact Emits.release (by simp [hp']) (by intro x; simp)
          · apply Emits.press (by simp)
            intro x; simp; grind
        · intro x; simp; grind
        · intro x hx; simp at hx; exact hx.1
        · intro x hx; simp; grind
        · intro x hx; simpa using hx
        · intro x hx; simp at hx; subst hx; simp [ha, hp']
        · simp
      · simp only [hp]
        try dsimp only
        have hp' : k ∉ s.pass := by simpa using hp
        refine ⟨⟨h.ndPass, ?_, ?_, h.passInp, h.actInp, ?_⟩, ?_, ?_, fun _ hx => hx, fun _ hx => Or.inl hx, ?_, ?_, ?_, by simp, by simp, by simp, by simp, by simp⟩
        · apply List.nodup_append.mpr
          exact ⟨h.ndMapped, by simp, by intro a hxa b hb e; simp at hb; subst hb; subst e; exact hm' hxa⟩
        · intro x h1 h2
          simp at h2
          have := h.disj x h1
          grind
        · intro x h1
          simp at h1
          rcases h1 with h1 | h1
          · exact h.mappedAct x h1
          · subst h1; exact Or.inl hk
        · apply Emits.press (by simp [hm', hp'])
          intro x; simp; grind
        · intro x; simp; grind
        · intro x hx; simpa using hx
        · intro x hx; simp at hx
        · simp
  · have ha' : isActionKey k = false := by simpa using ha
    simp only [ha', Bool.false_eq_true, if_false]
    by_cases hc : (!s.mapped.contains k && !s.pass.contains k) = true
    · simp only [hc, if_true]
      try dsimp only
      have hc' : k ∉ s.mapped ∧ k ∉ s.pass := by simpa using hc
      refine ⟨⟨h.ndPass, ?_, ?_, h.passInp, h.actInp, ?_⟩, ?_, ?_, fun _ hx => hx, fun _ hx => Or.inl hx, ?_, ?_, ?_, by simp, by simp, by simp, by simp, by simp⟩
      · apply List.nodup_append.mpr
        exact ⟨h.ndMapped, by simp, by intro a hxa b hb e; simp at hb; subst hb; subst e; exact hc'.1 hxa⟩
      · intro x h1 h2
        simp at h2
        have := h.disj x h1
        grind
      · intro x h1
        simp at h1
        rcases h1 with h1 | h1
        · exact h.mappedAct x h1
        · subst h1; exact Or.inl hk
      · apply Emits.press (by simp [hc'.1, hc'.2])
        intro x; simp; grind
      · intro x; simp; grind
      · intro x hx; simpa using hx
      · intro x hx; simp at hx
      · simp
    · simp only [hc]
      try dsimp only
      have hc' : k ∈ s.mapped ∨ k ∈ s.pass := by
        simp only [Bool.and_eq_true, Bool.not_eq_eq_eq_not, Bool.not_true, List.contains_eq_mem,
          decide_eq_false_iff_not, not_and, Classical.not_not] at hc
        by_cases h1 : k ∈ s.mapped
        · exact Or.inl h1
        · exact Or.inr (hc h1)
      refine ⟨h, Emits.nil (fun _ => Iff.rfl), ?_, fun _ hx => hx, fun _ hx => Or.inl hx, by simp, by simp, by simp, by simp, by simp, by simp, by simp, by simp⟩
      intro x; simp; grind

end TmVerif

namespace TmVerif

theorem pressAll_cons (s : State) (k : Key) (ks : List Key) :
    pressAll s (k :: ks) =
      ((pressAll (pressOne s k).1 ks).1, (pressOne s k).2 ++ (pressAll (pressOne s k).1 ks).2) := rfl

theorem pressAll_spec {extra : List Key} (s : State) (ks : List Key) (h : IInv extra s)
    (hk : ∀ k, k ∈ ks → k ∈ extra) :
    IInv extra (pressAll s ks).1 ∧
    Emits (held s) (pressAll s ks).2 (held (pressAll s ks).1) ∧
    (∀ x, x ∈ held (pressAll s ks).1 ↔ x ∈ held s ∨ x ∈ ks) ∧
    (∀ x, x ∈ (pressAll s ks).1.pass → x ∈ s.pass) ∧
    (∀ x, x ∈ s.pass → x ∈ (pressAll s ks).1.pass ∨ (x ∈ ks ∧ isActionKey x = true)) ∧
    (∀ x, Event.pressed x ∈ (pressAll s ks).2 → x ∈ ks) ∧
    (∀ x, Event.released x ∈ (pressAll s ks).2 → x ∈ ks ∧ isActionKey x = true) ∧
    (∀ x, x ∈ ks → isActionKey x = true → Event.pressed x ∈ (pressAll s ks).2) ∧
    (pressAll s ks).1.inp = s.inp ∧ (pressAll s ks).1.active = s.active ∧
    (pressAll s ks).1.absorbed = s.absorbed ∧ (pressAll s ks).1.absTrig = s.absTrig ∧
    (pressAll s ks).1.repTrig = s.repTrig := by
  induction ks generalizing s with
  | nil =>
    exact ⟨h, Emits.nil (fun _ => Iff.rfl), by simp [pressAll], fun _ hx => hx, fun _ hx => Or.inl hx,
      by simp [pressAll], by simp [pressAll], by simp, rfl, rfl, rfl, rfl, rfl⟩
  | cons k ks ih =>
    rw [pressAll_cons]
    have h1 := pressOne_spec s k h (hk k (by simp))
    have h2 := ih (pressOne s k).1 h1.1 (fun x hx => hk x (by simp [hx]))
    obtain ⟨a1, a2, a3, a4, a5, a6, a7, a8, a9, a10, a11, a12, a13⟩ := h1
    obtain ⟨b1, b2, b3, b4, b5, b6, b7, b8, b9, b10, b11, b12, b13⟩ := h2
    refine ⟨b1, a2.trans b2, ?_, ?_, ?_, ?_, ?_, ?_, ?_, ?_, ?_, ?_, ?_⟩
    · intro x; simp only [b3 x, a3 x, List.mem_cons]; grind
    · intro x hx; exact a4 x (b4 x hx)
    · intro x hx
      rcases a5 x hx with h3 | h3
      · rcases b5 x h3 with h4 | h4
        · exact Or.inl h4
        · exact Or.inr ⟨by simp [h4.1], h4.2⟩
      · exact Or.inr ⟨by simp [h3.1], by rw [h3.1]; exact h3.2⟩
    · intro x hx
      rcases List.mem_append.mp hx with h3 | h3
      · simp [a6 x h3]
      · simp [b6 x h3]
    · intro x hx
      rcases List.mem_append.mp hx with h3 | h3
      · have := a7 x h3; exact ⟨by simp [this.1], by rw [this.1]; exact this.2.1⟩
      · have := b7 x h3; exact ⟨by simp [this.1], this.2⟩
    · intro x hx hax
      rcases List.mem_cons.mp hx with rfl | hx
      · exact List.mem_append.mpr (Or.inl (a8 hax))
      · exact List.mem_append.mpr (Or.inr (b8 x hx hax))
    · simp only; rw [b9, a9]
    · simp only; rw [b10, a10]
    · simp only; rw [b11, a11]
    · simp only; rw [b12, a12]
    · simp only; rw [b13, a13]

end TmVerif

namespace TmVerif

/-! ### addNewMapping -/

theorem releaseActionMappings_frame (s : State) :
    (releaseActionMappings s).1.inp = s.inp ∧ (releaseActionMappings s).1.active = s.active ∧
    (releaseActionMappings s).1.absorbed = s.absorbed ∧ (releaseActionMappings s).1.absTrig = s.absTrig ∧
    (releaseActionMappings s).1.repTrig = s.repTrig := by
  simp [releaseActionMappings]

theorem addPhase1_eq (s : State) (m : Mapping) :
    addPhase1 s m = (afterConsume s m, (consume m s.pass).2.2) := rfl

/-- the trigger of `m` is supported at `s` when `k` is pressed (what `is_supported` checked) -/
def Supported (s : State) (k : Key) (m : Mapping) : Prop :=
  ∀ x, x ∈ m.frm → (x ∈ s.inp ∧ (shouldAbsorb s k = true → x ∉ s.absorbed)) ∨ x = k

theorem shouldAbsorb_ram (s : State) (k : Key) :
    shouldAbsorb (releaseActionMappings s).1 k = shouldAbsorb s k := by
  simp [shouldAbsorb, (releaseActionMappings_frame s).2.2.2.1]

/-- the last output key is one of the output keys: a key-producing mapping (`is_action_mapping`) produces an
action key (`produces_action_key`, the condition of the phase-2 block since the fix of D7) -/
theorem producesActionKey_of_isActionMapping (m : Mapping) (h : isActionMapping m = true) :
    producesActionKey m = true := by
  unfold isActionMapping at h
  cases hl : m.to.getLast? with
  | none => simp [hl] at h
  | some kl =>
    simp only [hl] at h
    simp only [producesActionKey, List.any_eq_true]
    exact ⟨kl, List.mem_of_getLast? hl, h⟩

theorem producesActionKey_iff (m : Mapping) :
    producesActionKey m = true ↔ ∃ y, y ∈ m.to ∧ isActionKey y = true := by
  simp [producesActionKey]

/-- a mapping that outputs modifiers only: `produces_action_key` is false -/
theorem producesActionKey_false_iff (m : Mapping) :
    producesActionKey m = false ↔ ∀ y, y ∈ m.to → isActionKey y = false := by
  simp [producesActionKey]

/-- … and then `is_action_mapping` is false as well -/
theorem isActionMapping_false_of_not_produces (m : Mapping) (h : producesActionKey m = false) :
    isActionMapping m = false := by
  cases ha : isActionMapping m with
  | false => rfl
  | true => rw [producesActionKey_of_isActionMapping m ha] at h; cases h

/-- `if produces_action_key(m) { release_action_mappings }`: the first block of phase 2 (since the fix of D6 the
`release_absorbed_keys` block is no longer nested in it) -/
def ramIf (m : Mapping) (s : State) : State × List Event :=
  if producesActionKey m then releaseActionMappings s else (s, [])

theorem ramIf_true (m : Mapping) (s : State) (h : producesActionKey m = true) :
    ramIf m s = releaseActionMappings s := by simp [ramIf, h]

theorem ramIf_false (m : Mapping) (s : State) (h : producesActionKey m = false) :
    ramIf m s = (s, []) := by simp [ramIf, h]

theorem ramIf_frame (m : Mapping) (s : State) :
    (ramIf m s).1.inp = s.inp ∧ (ramIf m s).1.active = s.active ∧
    (ramIf m s).1.absorbed = s.absorbed ∧ (ramIf m s).1.absTrig = s.absTrig ∧
    (ramIf m s).1.repTrig = s.repTrig := by
  cases h : producesActionKey m
  · rw [ramIf_false m s h]; exact ⟨rfl, rfl, rfl, rfl, rfl⟩
  · rw [ramIf_true m s h]; exact releaseActionMappings_frame s

theorem ramIf_spec {extra : List Key} {s : State} (m : Mapping) (h : IInv extra s) :
    IInv extra (ramIf m s).1 ∧ IRel s (ramIf m s).1 (ramIf m s).2 := by
  cases hp : producesActionKey m
  · rw [ramIf_false m s hp]; exact ⟨h, IRel.refl s⟩
  · rw [ramIf_true m s hp]; exact releaseActionMappings_spec h

theorem shouldAbsorb_ramIf (m : Mapping) (s : State) (k : Key) :
    shouldAbsorb (ramIf m s).1 k = shouldAbsorb s k := by
  simp [shouldAbsorb, (ramIf_frame m s).2.2.2.1]

/-- the condition of the `release_absorbed_keys` block of phase 2 (fix of D6: `|| m.absorbing.len() > 0`) -/
def absorbsNow (s : State) (k : Key) (m : Mapping) : Bool :=
  shouldAbsorb s k && (producesActionKey m || decide (m.absorbing.length > 0))

theorem absorbsNow_true_iff (s : State) (k : Key) (m : Mapping) :
    absorbsNow s k m = true ↔ shouldAbsorb s k = true ∧ (producesActionKey m = true ∨ m.absorbing ≠ []) := by
  simp [absorbsNow, List.length_pos_iff]

theorem absorbsNow_false_iff (s : State) (k : Key) (m : Mapping) :
    absorbsNow s k m = false ↔ shouldAbsorb s k = false ∨ (producesActionKey m = false ∧ m.absorbing = []) := by
  cases h1 : shouldAbsorb s k <;> cases h2 : producesActionKey m <;> simp [absorbsNow, h1, h2]

/-- phase 2 in one equation (all four cases): the `release_absorbed_keys` + consumption block runs on the state
after the conditional `release_action_mappings` iff `absorbsNow` -/
theorem addPhase2_eq (s : State) (k : Key) (m : Mapping) :
    addPhase2 s k m =
      if absorbsNow s k m then
        (afterConsume (releaseAbsorbedKeys (ramIf m s).1).1 m,
          (ramIf m s).2 ++ (releaseAbsorbedKeys (ramIf m s).1).2 ++
            (consume m (releaseAbsorbedKeys (ramIf m s).1).1.pass).2.2)
      else ramIf m s := by
  have h : addPhase2 s k m =
      if shouldAbsorb (ramIf m s).1 k && (producesActionKey m || decide (m.absorbing.length > 0)) then
        ((addPhase1 (releaseAbsorbedKeys (ramIf m s).1).1 m).1,
          (ramIf m s).2 ++ (releaseAbsorbedKeys (ramIf m s).1).2 ++ (addPhase1 (releaseAbsorbedKeys (ramIf m s).1).1 m).2)
      else ramIf m s := rfl
  rw [h, shouldAbsorb_ramIf]
  rfl

theorem addPhase2_run (s : State) (k : Key) (m : Mapping) (h : absorbsNow s k m = true) :
    addPhase2 s k m =
        (afterConsume (releaseAbsorbedKeys (ramIf m s).1).1 m,
          (ramIf m s).2 ++ (releaseAbsorbedKeys (ramIf m s).1).2 ++
            (consume m (releaseAbsorbedKeys (ramIf m s).1).1.pass).2.2) := by
  rw [addPhase2_eq, h]; rfl

theorem addPhase2_skip (s : State) (k : Key) (m : Mapping) (h : absorbsNow s k m = false) :
    addPhase2 s k m = ramIf m s := by
  rw [addPhase2_eq, h]; rfl

/-- (restated on `producesActionKey` with the fix of D7; it was `isActionMapping m = false`.  Restated with the fix
of D6: a mapping that is not key-producing leaves the state alone only if it is not absorbing or the trigger is the
pending absorbing trigger; it was `producesActionKey m = false → addPhase2 s k m = (s, [])`.) -/
theorem addPhase2_nonaction (s : State) (k : Key) (m : Mapping) (h : producesActionKey m = false)
    (h2 : m.absorbing = [] ∨ shouldAbsorb s k = false) :
    addPhase2 s k m = (s, []) := by
  rw [addPhase2_skip s k m ((absorbsNow_false_iff s k m).mpr (by grind)), ramIf_false m s h]

/-- the fourth case (new with the fix of D6): not key-producing, absorbing, `should_absorb`:
`release_absorbed_keys` and the consumption run on `s` itself -/
theorem addPhase2_nonaction_absorb (s : State) (k : Key) (m : Mapping) (h : producesActionKey m = false)
    (h1 : m.absorbing ≠ []) (h2 : shouldAbsorb s k = true) :
    addPhase2 s k m = (afterConsume (releaseAbsorbedKeys s).1 m,
      (releaseAbsorbedKeys s).2 ++ (consume m (releaseAbsorbedKeys s).1.pass).2.2) := by
  rw [addPhase2_run s k m ((absorbsNow_true_iff s k m).mpr ⟨h2, Or.inr h1⟩), ramIf_false m s h]
  rfl

/-- (restated on `producesActionKey` with the fix of D7; it was `isActionMapping m = true`) -/
theorem addPhase2_absorb (s : State) (k : Key) (m : Mapping) (h : producesActionKey m = true)
    (h2 : shouldAbsorb s k = true) :
    addPhase2 s k m = (afterConsume (releaseAbsorbedKeys (releaseActionMappings s).1).1 m,
      (releaseActionMappings s).2 ++ (releaseAbsorbedKeys (releaseActionMappings s).1).2 ++
        (consume m (releaseAbsorbedKeys (releaseActionMappings s).1).1.pass).2.2) := by
  rw [addPhase2_run s k m ((absorbsNow_true_iff s k m).mpr ⟨h2, Or.inl h⟩), ramIf_true m s h]

/-- (restated on `producesActionKey` with the fix of D7; it was `isActionMapping m = true`) -/
theorem addPhase2_noabsorb (s : State) (k : Key) (m : Mapping) (h : producesActionKey m = true)
    (h2 : shouldAbsorb s k = false) :
    addPhase2 s k m = releaseActionMappings s := by
  rw [addPhase2_skip s k m ((absorbsNow_false_iff s k m).mpr (Or.inl h2)), ramIf_true m s h]

/-- (statement changed with the D5 fix: the absorb branch consumes pass-through keys a second time, so
`extra` must contain `m.to` — it is `m.to` at the only call site — and the relation is the weak `IRelW`) -/
theorem addPhase2_spec (s : State) (k : Key) (m : Mapping) (h : IInv m.to s) :
    IInv m.to (addPhase2 s k m).1 ∧ IRelW s (addPhase2 s k m).1 (addPhase2 s k m).2 ∧
    (addPhase2 s k m).1.repTrig = s.repTrig ∧
    (∀ x, x ∈ s.inp → (shouldAbsorb s k = true → x ∉ s.absorbed) → x ∈ (addPhase2 s k m).1.inp) := by
  have h1 := ramIf_spec m h
  have hf := ramIf_frame m s
  cases hb : absorbsNow s k m
  · rw [addPhase2_skip s k m hb]
    refine ⟨h1.1, h1.2.toW, hf.2.2.2.2, ?_⟩
    intro x hx _; rw [hf.1]; exact hx
  · rw [addPhase2_run s k m hb]
    have h2 := releaseAbsorbedKeys_spec _ h1.1
    have c := consume_spec (releaseAbsorbedKeys (ramIf m s).1).1 m h2.1
    refine ⟨c.1.mono (by simp), (h1.2.trans h2.2.1).toW.trans (consume_relW _ m h2.1), ?_, ?_⟩
    · show (releaseAbsorbedKeys (ramIf m s).1).1.repTrig = s.repTrig
      rw [h2.2.2.2.2.1, hf.2.2.2.2]
    · intro x hx hna
      show x ∈ (releaseAbsorbedKeys (ramIf m s).1).1.inp
      rw [h2.2.2.2.2.2.1 x, hf.1, hf.2.2.1]
      exact ⟨hx, hna ((absorbsNow_true_iff s k m).mp hb).1⟩

theorem addPhase3_spec (s : State) (k : Key) (m : Mapping) (h : IInv m.to s)
    (hinp : ∀ x, x ∈ m.frm → x ∈ s.inp ∨ x = k) :
    IInv [] { (addPhase3 s k m).1 with inp := s.inp ++ [k] } ∧
    Emits (held s) (addPhase3 s k m).2 (held (addPhase3 s k m).1) ∧
    (∀ x, x ∈ held (addPhase3 s k m).1 ↔ x ∈ held s ∨ x ∈ m.to) ∧
    (∀ x, x ∈ (addPhase3 s k m).1.pass → x ∈ s.pass) ∧
    (∀ x, Event.pressed x ∈ (addPhase3 s k m).2 → x ∈ m.to) ∧
    (∀ x, Event.released x ∈ (addPhase3 s k m).2 → x ∈ m.to ∧ isActionKey x = true) ∧
    (∀ x, x ∈ m.to → isActionKey x = true → Event.pressed x ∈ (addPhase3 s k m).2) ∧
    (addPhase3 s k m).1.inp = s.inp ∧ (addPhase3 s k m).1.active = s.active ++ [m] ∧
    (addPhase3 s k m).1.repTrig = s.repTrig := by
  have h1 := pressAll_spec s m.to h (fun _ hx => hx)
  obtain ⟨a1, a2, a3, a4, a5, a6, a7, a8, a9, a10, a11, a12, a13⟩ := h1
  have hpass : (addPhase3 s k m).1.pass = (pressAll s m.to).1.pass := by
    unfold addPhase3; split <;> rfl
  have hmapped : (addPhase3 s k m).1.mapped = (pressAll s m.to).1.mapped := by
    unfold addPhase3; split <;> rfl
  have hinp' : (addPhase3 s k m).1.inp = s.inp := by
    unfold addPhase3; split <;> exact a9
  have hact : (addPhase3 s k m).1.active = s.active ++ [m] := by
    unfold addPhase3; split <;> simp [a10]
  have hrep : (addPhase3 s k m).1.repTrig = s.repTrig := by
    unfold addPhase3; split <;> exact a13
  have hev : (addPhase3 s k m).2 = (pressAll s m.to).2 := rfl
  have hheld : held (addPhase3 s k m).1 = held (pressAll s m.to).1 := by
    simp [held, hpass, hmapped]
  refine ⟨⟨?_, ?_, ?_, ?_, ?_, ?_⟩, ?_, ?_, ?_, ?_, ?_, ?_, hinp', hact, hrep⟩
  · simp only; rw [hpass]; exact a1.ndPass
  · simp only; rw [hmapped]; exact a1.ndMapped
  · simp only; rw [hpass, hmapped]; exact a1.disj
  · simp only; rw [hpass]; intro x hx
    have := a1.passInp x hx; rw [a9] at this; simp [this]
  · simp only; rw [hact]; intro m' hm' x hx
    rcases List.mem_append.mp hm' with h3 | h3
    · have := a1.actInp m' (by rw [a10]; exact h3) x hx; rw [a9] at this; simp [this]
    · simp at h3; subst h3
      rcases hinp x hx with h4 | h4 <;> simp [h4]
  · simp only; rw [hmapped, hact]; intro x hx
    rcases a1.mappedAct x hx with h3 | h3
    · exact Or.inr ⟨m, by simp, h3⟩
    · obtain ⟨m', hm', hx'⟩ := h3
      exact Or.inr ⟨m', by rw [a10] at hm'; simp [hm'], hx'⟩
  · rw [hev, hheld]; exact a2
  · rw [hheld]; exact a3
  · rw [hpass]; exact a4
  · rw [hev]; exact a6
  · rw [hev]; exact a7
  · rw [hev]; exact a8

end TmVerif

namespace TmVerif

theorem releaseAllActionKeys_setInp (s : State) (i : List Key) :
    releaseAllActionKeys { s with inp := i } =
      ({ (releaseAllActionKeys s).1 with inp := i }, (releaseAllActionKeys s).2) := rfl

/-- what `ResultingRepeat` a fired mapping produces -/
def repeatOf (m : Mapping) : RRepeat :=
  match m.rep with
  | Repeat.special keys d i => RRepeat.repeating keys d i
  | _ => RRepeat.disabled

theorem addPhase4_spec (s : State) (k : Key) (m : Mapping) (i : List Key)
    (h : IInv [] { s with inp := i }) :
    IInv [] { (addPhase4 s k m).1 with inp := i } ∧
    IRel s (addPhase4 s k m).1 (addPhase4 s k m).2.1 ∧
    (addPhase4 s k m).2.2 = repeatOf m ∧
    (addPhase4 s k m).1.inp = s.inp ∧ (addPhase4 s k m).1.active = s.active ∧
    (m.rep.isNormal = true → addPhase4 s k m = (s, [], RRepeat.disabled)) ∧
    (m.rep.isNormal = false → ∀ x, x ∈ held (addPhase4 s k m).1 ↔ x ∈ held s ∧ isActionKey x = false) ∧
    (∀ x, x ∈ (addPhase4 s k m).1.pass → x ∈ s.pass) := by
  have hps : ∀ x, x ∈ (releaseAllActionKeys s).1.pass → x ∈ s.pass := by
    intro x hx; simp [releaseAllActionKeys] at hx; exact hx.1
  have h1 := releaseAllActionKeys_spec _ h
  rw [releaseAllActionKeys_setInp] at h1
  have hrel : IRel s (releaseAllActionKeys s).1 (releaseAllActionKeys s).2 :=
    ⟨h1.2.1.emits, h1.2.1.allRel, h1.2.1.relHeld, fun _ hx => hx, h1.2.1.actSub, h1.2.1.passFrom, h1.2.1.mappedSub⟩
  unfold addPhase4 repeatOf
  cases hr : m.rep with
  | normal => exact ⟨h, IRel.refl s, rfl, rfl, rfl, fun _ => rfl, by simp [Repeat.isNormal], fun _ hx => hx⟩
  | disabled =>
    refine ⟨h1.1, hrel, rfl, rfl, rfl, by simp [Repeat.isNormal], fun _ => ?_, hps⟩
    exact h1.2.2
  | special ks d i' =>
    refine ⟨?_, ?_, rfl, rfl, rfl, by simp [Repeat.isNormal], fun _ => ?_, hps⟩
    · exact ⟨h1.1.ndPass, h1.1.ndMapped, h1.1.disj, h1.1.passInp, h1.1.actInp, h1.1.mappedAct⟩
    · exact ⟨hrel.emits, hrel.allRel, hrel.relHeld, hrel.inpSub, hrel.actSub, hrel.passFrom, hrel.mappedSub⟩
    · exact h1.2.2

end TmVerif

namespace TmVerif

theorem addNewMapping_eq (s : State) (k : Key) (m : Mapping) :
    addNewMapping s k m =
      let r1 := addPhase1 s m
      let r2 := addPhase2 r1.1 k m
      let r3 := addPhase3 r2.1 k m
      let r4 := addPhase4 r3.1 k m
      (r4.1, ⟨r1.2 ++ r2.2 ++ r3.2 ++ r4.2.1, r4.2.2⟩) := rfl

theorem addNewMapping_spec (s : State) (k : Key) (m : Mapping) (h : IInv [] s)
    (hsup : Supported s k m) :
    IInv [] { (addNewMapping s k m).1 with inp := (addNewMapping s k m).1.inp ++ [k] } ∧
    Emits (held s) (addNewMapping s k m).2.events (held (addNewMapping s k m).1) ∧
    (∀ x, Event.pressed x ∈ (addNewMapping s k m).2.events → x ∈ m.to) ∧
    (∃ act, (addNewMapping s k m).1.active = act ++ [m] ∧ ∀ m', m' ∈ act → m' ∈ s.active) ∧
    (∀ x, x ∈ (addNewMapping s k m).1.inp → x ∈ s.inp) ∧
    (∀ x, x ∈ (addNewMapping s k m).1.pass → x ∈ s.pass ∨ x ∈ s.mapped) ∧
    (m.rep.isNormal = false → ∀ x, x ∈ held (addNewMapping s k m).1 → isActionKey x = false) ∧
    (∀ x, x ∈ m.to → isActionKey x = true → Event.pressed x ∈ (addNewMapping s k m).2.events) ∧
    (∀ x, x ∈ m.to → isActionKey x = false → x ∈ held (addNewMapping s k m).1) ∧
    (m.rep.isNormal = true → ∀ x, x ∈ m.to → x ∈ held (addNewMapping s k m).1) ∧
    (addNewMapping s k m).2.rep = repeatOf m := by
  rw [addNewMapping_eq]
  simp only [addPhase1_eq]
  have c := consume_spec s m h
  simp only [List.nil_append] at c
  obtain ⟨c1, c2, c3, c4, c5, c6⟩ := c
  have p2 := addPhase2_spec (afterConsume s m) k m c1
  obtain ⟨d1, d2, d3, d4⟩ := p2
  have hinp : ∀ x, x ∈ m.frm → x ∈ (addPhase2 (afterConsume s m) k m).1.inp ∨ x = k := by
    intro x hx
    rcases hsup x hx with h1 | h1
    · exact Or.inl (d4 x h1.1 h1.2)
    · exact Or.inr h1
  have p3 := addPhase3_spec (addPhase2 (afterConsume s m) k m).1 k m d1 hinp
  obtain ⟨e1, e2, e3, e4, e5, e6, e7, e8, e9, e10⟩ := p3
  have e1' : IInv [] { (addPhase3 (addPhase2 (afterConsume s m) k m).1 k m).1 with
      inp := (addPhase3 (addPhase2 (afterConsume s m) k m).1 k m).1.inp ++ [k] } := by rw [e8]; exact e1
  have p4 := addPhase4_spec (addPhase3 (addPhase2 (afterConsume s m) k m).1 k m).1 k m _ e1'
  obtain ⟨f1, f2, f3, f4, f5, f6, f7, f8⟩ := p4
  refine ⟨?_, ?_, ?_, ?_, ?_, ?_, ?_, ?_, ?_, ?_, f3⟩
  · (try simp only); rw [f4]; exact f1
  · try simp only
    exact ((c2.trans d2.emits).trans e2).trans f2.emits
  · intro x hx
    simp only [List.mem_append] at hx
    rcases hx with ((hx | hx) | hx) | hx
    · have := c3 _ hx; simp [Event.isRelease] at this
    · have := d2.allRel _ hx; simp [Event.isRelease] at this
    · exact e5 x hx
    · have := f2.allRel _ hx; simp [Event.isRelease] at this
  · refine ⟨(addPhase2 (afterConsume s m) k m).1.active, ?_, ?_⟩
    · (try simp only); rw [f5, e9]
    · intro m' hm'; exact d2.actSub m' hm'
  · intro x hx; (try simp only at hx); rw [f4, e8] at hx; exact d2.inpSub x hx
  · intro x hx; (try simp only at hx)
    have h1 := e4 x (f8 x hx)
    rcases d2.passFrom x h1 with h2 | h2
    · exact Or.inl ((c5 x).mp h2).1
    · rcases (c6 x).mp h2 with h3 | h3
      · exact Or.inr h3
      · exact Or.inl h3.1
  · intro hn x hx; (try simp only at hx); exact ((f7 hn x).mp hx).2
  · intro x hx hax
    simp only [List.mem_append]
    exact Or.inl (Or.inr (e7 x hx hax))
  · intro x hx hax
    try simp only
    cases hn : m.rep.isNormal
    · exact (f7 hn x).mpr ⟨(e3 x).mpr (Or.inr hx), hax⟩
    · rw [f6 hn]; exact (e3 x).mpr (Or.inr hx)
  · intro hn x hx
    try simp only
    rw [f6 hn]; exact (e3 x).mpr (Or.inr hx)

end TmVerif

namespace TmVerif

/-! ### newlyPress -/

theorem pressPrep_iinv {extra : List Key} {s : State} (k : Key) (h : IInv extra s) : IInv extra (pressPrep s k) :=
  ⟨h.ndPass, h.ndMapped, h.disj, h.passInp, h.actInp, h.mappedAct⟩

theorem mem_group (L : Layout) (k : Key) (m : Mapping) :
    m ∈ group L k ↔ m ∈ L ∧ finalKey? m = some k := by
  simp [group]

theorem findMapping_some {L : Layout} {s : State} {k : Key} {m : Mapping}
    (h : findMapping L s k = some m) :
    m ∈ L ∧ finalKey? m = some k ∧ Supported (pressPrep s k) k m := by
  unfold findMapping at h
  have h1 := List.find?_some h
  have h2 := List.mem_of_find?_eq_some h
  simp only [List.mem_reverse, mem_group] at h2
  refine ⟨h2.1, h2.2, ?_⟩
  intro x hx
  simp only [isSupported, List.all_eq_true] at h1
  have h3 := h1 x hx
  simp only [Bool.or_eq_true, Bool.and_eq_true, List.contains_eq_mem, decide_eq_true_eq,
    Bool.not_eq_eq_eq_not, Bool.not_true, decide_eq_false_iff_not, beq_iff_eq] at h3
  rcases h3 with h3 | h3
  · refine Or.inl ⟨h3.1, ?_⟩
    intro hsa; simpa [hsa] using h3.2
  · exact Or.inr h3

theorem findMapping_none_not_hidden {L : Layout} {s : State} {k : Key}
    (h : findMapping L s k = none) : hidden L k = false := by
  unfold findMapping at h
  rw [List.find?_eq_none] at h
  cases hh : hidden L k with
  | false => rfl
  | true =>
    exfalso
    simp only [hidden, Bool.and_eq_true, List.any_eq_true, beq_iff_eq] at hh
    obtain ⟨⟨m, hm, hf⟩, _⟩ := hh
    have := h m (by simp [mem_group, hm, finalKey?, hf])
    simp [isSupported, hf] at this

theorem finalKey_mem {m : Mapping} {k : Key} (h : finalKey? m = some k) : k ∈ m.frm := by
  unfold finalKey? at h
  exact List.mem_of_getLast? h

theorem passThrough_spec (s : State) (k : Key) (h : IInv [] s) (hk : k ∉ s.pass)
    (hnohit : ∀ m, m ∈ s.active → k ∉ m.frm ∧ k ∉ m.to) :
    IInv [] { (passThrough s k).1 with inp := (passThrough s k).1.inp ++ [k] } ∧
    Emits (held s) (passThrough s k).2 (held (passThrough s k).1) ∧
    (∀ x, Event.pressed x ∈ (passThrough s k).2 → x = k) ∧
    (∀ m, m ∈ (passThrough s k).1.active → m ∈ s.active) ∧
    (∀ x, x ∈ (passThrough s k).1.inp → x ∈ s.inp) ∧
    (∀ x, x ∈ (passThrough s k).1.pass → x ∈ s.pass ∨ x ∈ s.mapped ∨ x = k) ∧
    (passThrough s k).2.getLast? = some (Event.pressed k) ∧
    k ∈ (passThrough s k).1.pass := by
  have hkm : k ∉ s.mapped := by
    intro hm
    rcases h.mappedAct k hm with h1 | ⟨m, hm1, hm2⟩
    · simp at h1
    · exact (hnohit m hm1).2 hm2
  -- the release part
  have key : ∃ s1 e1, (passThrough s k) = ({ s1 with pass := s1.pass ++ [k] }, e1 ++ [Event.pressed k]) ∧
      IInv [] s1 ∧ IRel s s1 e1 := by
    unfold passThrough
    cases ha : isActionKey k
    · exact ⟨s, [], by simp, h, IRel.refl s⟩
    · have h1 := releaseActionMappings_spec h
      have h2 := releaseAbsorbedKeys_spec _ h1.1
      exact ⟨_, _, by simp, h2.1, h1.2.trans h2.2.1⟩
  obtain ⟨s1, e1, heq, hi, hr⟩ := key
  rw [heq]
  have hk1 : k ∉ s1.pass := by
    intro hx; rcases hr.passFrom k hx with h1 | h1
    · exact hk h1
    · exact hkm h1
  have hk2 : k ∉ s1.mapped := fun hx => hkm (hr.mappedSub k hx)
  refine ⟨⟨?_, hi.ndMapped, ?_, ?_, ?_, hi.mappedAct⟩, ?_, ?_, hr.actSub, hr.inpSub, ?_, by simp, by simp⟩
  · apply List.nodup_append.mpr
    exact ⟨hi.ndPass, by simp, by intro a hxa b hb e; simp at hb; subst hb; subst e; exact hk1 hxa⟩
  · intro x hx; simp at hx
    rcases hx with hx | hx
    · exact hi.disj x hx
    · subst hx; exact hk2
  · intro x hx; simp at hx ⊢
    rcases hx with hx | hx
    · exact Or.inl (hi.passInp x hx)
    · exact Or.inr hx
  · intro m hm x hx; simp; exact Or.inl (hi.actInp m hm x hx)
  · apply hr.emits.trans
    apply Emits.press (by simp [hk1, hk2])
    intro x; simp; grind
  · intro x hx
    simp at hx
    rcases hx with hx | hx
    · have := hr.allRel _ hx; simp [Event.isRelease] at this
    · exact hx
  · intro x hx; simp at hx
    rcases hx with hx | hx
    · rcases hr.passFrom x hx with h1 | h1
      · exact Or.inl h1
      · exact Or.inr (Or.inl h1)
    · exact Or.inr (Or.inr hx)

end TmVerif
