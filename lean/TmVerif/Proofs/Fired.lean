/-
The observational definition of "the mapping fired by a step" (`Obs.fired`, used by the monitors)
coincides with the mapping `newly_press` selects (`findMapping`).
-/
import TmVerif.Proofs.Reach

namespace TmVerif

theorem step_pressed_accepted (L : Layout) (s : State) (k : Key) (hk : k ∉ s.inp) :
    step L s (Event.pressed k) = newlyPress L s k := by simp [step, hk]

theorem step_pressed_ignored (L : Layout) (s : State) (k : Key) (hk : k ∈ s.inp) :
    step L s (Event.pressed k) = (s, ⟨[], RRepeat.noChange⟩) := by simp [step, hk]

theorem step_released_accepted (L : Layout) (s : State) (k : Key) (hk : k ∈ s.inp) :
    step L s (Event.released k) = newlyRelease s k := by simp [step, hk]

theorem step_released_ignored (L : Layout) (s : State) (k : Key) (hk : k ∉ s.inp) :
    step L s (Event.released k) = (s, ⟨[], RRepeat.noChange⟩) := by simp [step, hk]

theorem fired_eq {L : Layout} {x : Sys} (h : SInv L x) (k : Key) (hk : k ∉ x.s.inp) :
    (x.obs L (Event.pressed k)).fired = findMapping L x.s k := by
  have np := newlyPress_spec L x.P x.s k h.inv hk
  simp only [Sys.obs, Obs.fired, step_pressed_accepted L x.s k hk]
  have hk' : x.s.inp.contains k = false := by simpa using hk
  simp only [hk', Bool.false_eq_true, if_false]
  cases hf : findMapping L x.s k with
  | some m =>
    obtain ⟨_, hfin, ⟨act, hact, _⟩, _⟩ := np.2.2.2.1 m hf
    simp [hact, hfin]
  | none =>
    have hsub := (np.2.2.2.2 hf).1
    cases hl : (newlyPress L x.s k).1.active.getLast? with
    | none => rfl
    | some m' =>
      simp only
      have hm' : m' ∈ x.s.active := hsub m' (List.mem_of_getLast? hl)
      have : finalKey? m' ≠ some k := by
        intro hfk
        exact hk (h.inv.i.actInp m' hm' k (finalKey_mem hfk))
      simp [this]

theorem fired_released (L : Layout) (x : Sys) (k : Key) :
    (x.obs L (Event.released k)).fired = none := rfl

theorem fired_ignored (L : Layout) (x : Sys) (k : Key) (hk : k ∈ x.s.inp) :
    (x.obs L (Event.pressed k)).fired = none := by
  simp [Sys.obs, Obs.fired, hk]

end TmVerif
