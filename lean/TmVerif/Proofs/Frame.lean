/-
Frame lemmas: the sub-functions of a step that neither read nor write the three auxiliary fields
(`mapped_absorbed_keys`, `absorbing_trigger`, `repeating_trigger`) commute with overwriting them.
Used for C06 (the auxiliary fields are behaviourally inert once their keys are no longer held).
-/
import TmVerif.Proofs.Consumed

namespace TmVerif

/-- overwrite the auxiliary fields -/
def withAux (s : State) (a : List Key) (b c : Option Key) : State :=
  { s with absorbed := a, absTrig := b, repTrig := c }

@[simp] theorem withAux_inp (s : State) (a b c) : (withAux s a b c).inp = s.inp := rfl
@[simp] theorem withAux_active (s : State) (a b c) : (withAux s a b c).active = s.active := rfl
@[simp] theorem withAux_pass (s : State) (a b c) : (withAux s a b c).pass = s.pass := rfl
@[simp] theorem withAux_mapped (s : State) (a b c) : (withAux s a b c).mapped = s.mapped := rfl
@[simp] theorem withAux_absorbed (s : State) (a b c) : (withAux s a b c).absorbed = a := rfl
@[simp] theorem withAux_absTrig (s : State) (a b c) : (withAux s a b c).absTrig = b := rfl
@[simp] theorem withAux_repTrig (s : State) (a b c) : (withAux s a b c).repTrig = c := rfl
@[simp] theorem withAux_withAux (s : State) (a b c a' b' c') :
    withAux (withAux s a b c) a' b' c' = withAux s a' b' c' := rfl

theorem withAux_self (s : State) : withAux s s.absorbed s.absTrig s.repTrig = s := rfl

theorem removeMapping_aux (s : State) (a b c) (bf af : List Mapping) (rk : Key) :
    removeMapping (withAux s a b c) bf af rk =
      (withAux (removeMapping s bf af rk).1 a b c, (removeMapping s bf af rk).2) := by
  simp only [removeMapping_eq]; rfl

theorem dropFailing_aux (k : Key) (s : State) (a b c) (rb af : List Mapping) :
    dropFailing k (withAux s a b c) rb af =
      (withAux (dropFailing k s rb af).1 a b c, (dropFailing k s rb af).2) := by
  induction rb generalizing s af with
  | nil => rfl
  | cons m rb ih =>
    simp only [dropFailing]
    split
    · rw [removeMapping_aux, ih]
    · exact ih s (m :: af)

theorem releaseTail_aux (s : State) (a b c) (k : Key) :
    releaseTail (withAux s a b c) k = (withAux (releaseTail s k).1 a b c, (releaseTail s k).2) := by
  by_cases hc : s.pass.contains k = true
  · simp only [releaseTail, withAux_pass, hc, if_true]; rfl
  · simp only [releaseTail, withAux_pass, hc]; rfl

theorem releaseKey_aux (s : State) (a b c) (k : Key) :
    releaseKey (withAux s a b c) k = (withAux (releaseKey s k).1 a b c, (releaseKey s k).2) := by
  simp only [releaseKey_eq, withAux_active, dropFailing_aux, releaseTail_aux]

theorem releaseAbsorbedLoop_aux (s : State) (a b c) (ks : List Key) :
    releaseAbsorbedLoop (withAux s a b c) ks =
      (withAux (releaseAbsorbedLoop s ks).1 a b c, (releaseAbsorbedLoop s ks).2) := by
  induction ks generalizing s with
  | nil => rfl
  | cons k ks ih => simp only [releaseAbsorbedLoop_cons, releaseKey_aux, ih]

theorem releaseActionMappings_aux (s : State) (a b c) :
    releaseActionMappings (withAux s a b c) =
      (withAux (releaseActionMappings s).1 a b c, (releaseActionMappings s).2) := rfl

theorem afterConsume_aux (s : State) (a b c) (m : Mapping) :
    afterConsume (withAux s a b c) m = withAux (afterConsume s m) a b c := rfl

theorem pressOne_aux (s : State) (a b c) (k : Key) :
    pressOne (withAux s a b c) k = (withAux (pressOne s k).1 a b c, (pressOne s k).2) := by
  by_cases h1 : isActionKey k = true
  · by_cases h2 : s.mapped.contains k = true
    · simp only [pressOne, h1, withAux_mapped, h2, if_true]
    · by_cases h3 : s.pass.contains k = true
      · simp only [pressOne, h1, withAux_mapped, withAux_pass, h2, h3, if_true]; rfl
      · simp only [pressOne, h1, withAux_mapped, withAux_pass, h2, h3, if_true]; rfl
  · by_cases h2 : (!s.mapped.contains k && !s.pass.contains k) = true
    · simp only [pressOne, h1, withAux_mapped, withAux_pass, h2, if_true]; rfl
    · simp only [pressOne, h1, withAux_mapped, withAux_pass, h2, Bool.false_eq_true, if_false]

theorem pressAll_aux (s : State) (a b c) (ks : List Key) :
    pressAll (withAux s a b c) ks = (withAux (pressAll s ks).1 a b c, (pressAll s ks).2) := by
  induction ks generalizing s with
  | nil => rfl
  | cons k ks ih => simp only [pressAll_cons, pressOne_aux, ih]

theorem releaseAllActionKeys_aux (s : State) (a b c) :
    releaseAllActionKeys (withAux s a b c) =
      (withAux (releaseAllActionKeys s).1 a b c, (releaseAllActionKeys s).2) := rfl

end TmVerif
