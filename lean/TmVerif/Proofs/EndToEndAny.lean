import TmVerif.Model.EndToEnd
namespace TmVerif

/-! ### `stripWire` -/

theorem stripWire_append (w rest : List Nat) : stripWire w (w ++ rest) = some rest := by
  simp [stripWire]

theorem stripWire_eq_some {w out rest : List Nat} (h : stripWire w out = some rest) :
    out = w ++ rest := by
  unfold stripWire at h
  split at h
  · rename_i hp
    rw [List.isPrefixOf_iff_prefix] at hp
    obtain ⟨t, rfl⟩ := hp
    simp at h
    subst h
    rfl
  · simp at h

theorem stripWire_iff (w out rest : List Nat) : stripWire w out = some rest ↔ out = w ++ rest := by
  constructor
  · exact stripWire_eq_some
  · intro h; subst h; exact stripWire_append w rest

/-! ### per-arm equations of `acceptsAny` -/

theorem acceptsAny_nil_nil (L : Layout) (s : State) (b : Bool) (out : List Nat) :
    acceptsAny L s b [] [] out = out.isEmpty := by
  rw [acceptsAny] <;> rfl

theorem acceptsAny_cons_nil (L : Layout) (s : State) (b : Bool) (k : Event) (ks' : List Event)
    (out : List Nat) :
    acceptsAny L s b (k :: ks') [] out =
      if b then acceptsAny L s b ks' [] out
      else match stripWire (wireBatch (step L s k).2.events) out with
        | some rest => acceptsAny L (step L s k).1 b ks' [] rest
        | none => false := by
  rw [acceptsAny] <;> rfl

theorem acceptsAny_nil_cons (L : Layout) (s : State) (b : Bool) (t : TabletEv) (ts' : List TabletEv)
    (out : List Nat) :
    acceptsAny L s b [] (t :: ts') out =
      match stripWire (wireBatch (releaseAll L s).2) out with
        | some rest => acceptsAny L (releaseAll L s).1 t.mode [] ts' rest
        | none => false := by
  rw [acceptsAny] <;> rfl

theorem acceptsAny_cons_cons (L : Layout) (s : State) (b : Bool) (k : Event) (ks' : List Event)
    (t : TabletEv) (ts' : List TabletEv) (out : List Nat) :
    acceptsAny L s b (k :: ks') (t :: ts') out =
      ((if b then acceptsAny L s b ks' (t :: ts') out
        else match stripWire (wireBatch (step L s k).2.events) out with
          | some rest => acceptsAny L (step L s k).1 b ks' (t :: ts') rest
          | none => false)
       ||
       (match stripWire (wireBatch (releaseAll L s).2) out with
          | some rest => acceptsAny L (releaseAll L s).1 t.mode (k :: ks') ts' rest
          | none => false)) := by
  rw [acceptsAny] <;> rfl

/-! ### the two kinds of branch, as statements about logs -/

/-- the specification side: `out` is written for some interleaving -/
def AnyLog (L : Layout) (s : State) (b : Bool) (ks : List Event) (ts : List TabletEv)
    (out : List Nat) : Prop :=
  ∃ lg : List Item, kbdOf lg = ks ∧ tabOf lg = ts ∧ wireOfLog L s b lg = out

theorem AnyLog.kbd {L : Layout} {s : State} {b : Bool} {k : Event} {ks' : List Event}
    {ts : List TabletEv} {out : List Nat}
    (h : if b then AnyLog L s b ks' ts out
         else ∃ rest, out = wireBatch (step L s k).2.events ++ rest ∧
                AnyLog L (step L s k).1 b ks' ts rest) :
    AnyLog L s b (k :: ks') ts out := by
  cases b with
  | true =>
    simp only [if_true] at h
    obtain ⟨lg, h1, h2, h3⟩ := h
    exact ⟨Item.kbd k :: lg, by simp [kbdOf, h1], by simp [tabOf, h2], by simp [wireOfLog, h3]⟩
  | false =>
    simp only [Bool.false_eq_true, if_false] at h
    obtain ⟨rest, rfl, lg, h1, h2, h3⟩ := h
    exact ⟨Item.kbd k :: lg, by simp [kbdOf, h1], by simp [tabOf, h2], by simp [wireOfLog, h3]⟩

theorem AnyLog.tab {L : Layout} {s : State} {b : Bool} {t : TabletEv} {ks : List Event}
    {ts' : List TabletEv} {out rest : List Nat}
    (ho : out = wireBatch (releaseAll L s).2 ++ rest)
    (h : AnyLog L (releaseAll L s).1 t.mode ks ts' rest) :
    AnyLog L s b ks (t :: ts') out := by
  subst ho
  obtain ⟨lg, h1, h2, h3⟩ := h
  exact ⟨Item.tab t :: lg, by simp [kbdOf, h1], by simp [tabOf, h2], by simp [wireOfLog, h3]⟩

/-! ### soundness -/

theorem acceptsAny_sound' (L : Layout) (ks : List Event) :
    ∀ (ts : List TabletEv) (s : State) (b : Bool) (out : List Nat),
      acceptsAny L s b ks ts out = true → AnyLog L s b ks ts out := by
  induction ks with
  | nil =>
    intro ts
    induction ts with
    | nil =>
      intro s b out h
      rw [acceptsAny_nil_nil] at h
      have : out = [] := by simpa using h
      subst this
      exact ⟨[], rfl, rfl, rfl⟩
    | cons t ts' iht =>
      intro s b out h
      rw [acceptsAny_nil_cons] at h
      split at h
      · rename_i rest hs
        exact AnyLog.tab (stripWire_eq_some hs) (iht _ _ _ h)
      · exact absurd h (by simp)
  | cons k ks' ihk =>
    intro ts
    -- the keyboard branch, for any `ts`
    have hk : ∀ (ts : List TabletEv) (s : State) (b : Bool) (out : List Nat),
        (if b then acceptsAny L s b ks' ts out
         else match stripWire (wireBatch (step L s k).2.events) out with
           | some rest => acceptsAny L (step L s k).1 b ks' ts rest
           | none => false) = true → AnyLog L s b (k :: ks') ts out := by
      intro ts s b out h
      apply AnyLog.kbd
      cases b with
      | true =>
        simp only [if_true] at h ⊢
        exact ihk _ _ _ _ h
      | false =>
        simp only [Bool.false_eq_true, if_false] at h ⊢
        split at h
        · rename_i rest hs
          exact ⟨rest, stripWire_eq_some hs, ihk _ _ _ _ h⟩
        · exact absurd h (by simp)
    induction ts with
    | nil =>
      intro s b out h
      rw [acceptsAny_cons_nil] at h
      exact hk [] s b out h
    | cons t ts' iht =>
      intro s b out h
      rw [acceptsAny_cons_cons, Bool.or_eq_true] at h
      rcases h with h | h
      · exact hk (t :: ts') s b out h
      · split at h
        · rename_i rest hs
          exact AnyLog.tab (stripWire_eq_some hs) (iht _ _ _ h)
        · exact absurd h (by simp)

/-- soundness: an accepted output is `wireOfLog` of some interleaving of the two per-device logs -/
theorem acceptsAny_sound (L : Layout) (s : State) (b : Bool) (ks : List Event) (ts : List TabletEv) (out : List Nat)
    (h : acceptsAny L s b ks ts out = true) :
    ∃ lg : List Item, kbdOf lg = ks ∧ tabOf lg = ts ∧ wireOfLog L s b lg = out :=
  acceptsAny_sound' L ks ts s b out h

/-! ### completeness -/

/-- completeness: the output of every read log is accepted for that log's two per-device projections -/
theorem acceptsAny_complete (L : Layout) (s : State) (b : Bool) (lg : List Item) :
    acceptsAny L s b (kbdOf lg) (tabOf lg) (wireOfLog L s b lg) = true := by
  induction lg generalizing s b with
  | nil => simp [kbdOf, tabOf, wireOfLog, acceptsAny_nil_nil]
  | cons it is ih =>
    cases it with
    | kbd ev =>
      have key : (if b then acceptsAny L s b (kbdOf is) (tabOf is) (wireOfLog L s b (Item.kbd ev :: is))
          else match stripWire (wireBatch (step L s ev).2.events) (wireOfLog L s b (Item.kbd ev :: is)) with
            | some rest => acceptsAny L (step L s ev).1 b (kbdOf is) (tabOf is) rest
            | none => false) = true := by
        cases b with
        | true => simpa [wireOfLog] using ih s true
        | false =>
          simp only [wireOfLog, Bool.false_eq_true, if_false, stripWire_append]
          exact ih _ false
      simp only [kbdOf, tabOf]
      cases hts : tabOf is with
      | nil =>
        rw [acceptsAny_cons_nil]
        rw [hts] at key
        exact key
      | cons t ts' =>
        rw [acceptsAny_cons_cons, Bool.or_eq_true]
        rw [hts] at key
        exact Or.inl key
    | tab tev =>
      have key : (match stripWire (wireBatch (releaseAll L s).2) (wireOfLog L s b (Item.tab tev :: is)) with
            | some rest => acceptsAny L (releaseAll L s).1 tev.mode (kbdOf is) (tabOf is) rest
            | none => false) = true := by
        simp only [wireOfLog, stripWire_append]
        exact ih _ _
      simp only [kbdOf, tabOf]
      cases hks : kbdOf is with
      | nil =>
        rw [acceptsAny_nil_cons]
        rw [hks] at key
        exact key
      | cons k ks' =>
        rw [acceptsAny_cons_cons, Bool.or_eq_true]
        rw [hks] at key
        exact Or.inr key

theorem acceptsAny_iff (L : Layout) (s : State) (b : Bool) (ks : List Event) (ts : List TabletEv) (out : List Nat) :
    acceptsAny L s b ks ts out = true ↔
      ∃ lg : List Item, kbdOf lg = ks ∧ tabOf lg = ts ∧ wireOfLog L s b lg = out := by
  constructor
  · exact acceptsAny_sound L s b ks ts out
  · rintro ⟨lg, rfl, rfl, rfl⟩
    exact acceptsAny_complete L s b lg

end TmVerif

#print axioms TmVerif.acceptsAny_sound
#print axioms TmVerif.acceptsAny_complete
#print axioms TmVerif.acceptsAny_iff
