/-
Lemmas about the byte-level model (`Model/InputEvent.lean`) used by `Props/C18.lean`.
Core Lean only.
-/
import TmVerif.Model.InputEvent

namespace TmVerif

/-! ## the generated key table (computations over the whole table, re-run when it is regenerated) -/

/-- every discriminant fits a `u16` — computed over the generated table -/
theorem Bytes.keyTable_all_lt : (Tables.keyTable.all fun row => decide (row.1 < 65536)) = true := by
  decide +kernel

theorem knownCode_lt {c : Nat} (h : knownCode c = true) : c < 65536 := by
  unfold knownCode at h
  rw [List.any_eq_true] at h
  obtain ⟨row, hmem, heq⟩ := h
  have := (List.all_eq_true.mp Bytes.keyTable_all_lt) row hmem
  have h1 : row.1 = c := by simpa using heq
  have h2 : row.1 < 65536 := by simpa using this
  omega

/-- strictly increasing, as a Bool computation -/
def Bytes.increasingB : List Nat → Bool
  | [] => true
  | [_] => true
  | x :: y :: rest => decide (x < y) && Bytes.increasingB (y :: rest)

theorem Bytes.pairwise_of_increasingB : ∀ (l : List Nat), Bytes.increasingB l = true → l.Pairwise (· < ·)
  | [], _ => List.Pairwise.nil
  | [_], _ => List.pairwise_singleton _ _
  | x :: y :: rest, h => by
    simp only [Bytes.increasingB, Bool.and_eq_true, decide_eq_true_eq] at h
    have ih := Bytes.pairwise_of_increasingB (y :: rest) h.2
    refine List.Pairwise.cons ?_ ih
    intro z hz
    rcases List.mem_cons.mp hz with rfl | hz
    · exact h.1
    · exact Nat.lt_trans h.1 ((List.pairwise_cons.mp ih).1 z hz)

/-- the discriminants of the generated table are strictly increasing — computed over the table -/
theorem Bytes.keyTable_increasing : Bytes.increasingB (Tables.keyTable.map (·.1)) = true := by
  decide +kernel

/-! ## serialisation -/

theorem leBytes_length : ∀ (w n : Nat), (leBytes w n).length = w
  | 0, _ => rfl
  | w + 1, n => by simp [leBytes, leBytes_length w]

theorem leBytes_lt : ∀ (w n : Nat), ∀ b ∈ leBytes w n, b < 256
  | 0, _ => by simp [leBytes]
  | w + 1, n => by
    intro b hb
    simp only [leBytes, List.mem_cons] at hb
    rcases hb with rfl | hb
    · omega
    · exact leBytes_lt w _ b hb

theorem encodeRecordAt_length (s u t c v : Nat) : (encodeRecordAt s u t c v).length = 24 := by
  simp [encodeRecordAt, le64, le32, le16, leBytes_length]

theorem encodeRecordAt_lt (s u t c v : Nat) : ∀ b ∈ encodeRecordAt s u t c v, b < 256 := by
  intro b hb
  simp only [encodeRecordAt, le64, le32, le16, List.mem_append] at hb
  rcases hb with (((hb | hb) | hb) | hb) | hb <;> exact leBytes_lt _ _ b hb

theorem encodeEvent_length (e : Event) : (encodeEvent e).length = 24 := encodeRecordAt_length ..
theorem synReport_length : synReport.length = 24 := encodeRecordAt_length ..

/-- the writer's record for an event is exactly the record C18 describes -/
theorem encodeEvent_eq_recordOf (e : Event) : encodeEvent e = recordOf e := by
  cases e with
  | pressed k =>
    simp only [encodeEvent, encodeRecord, encodeRecordAt, le64, le32, le16, leBytes, recordOf,
      Event.code, Event.value, List.replicate, List.cons_append, List.nil_append]
    simp
    omega
  | released k =>
    simp only [encodeEvent, encodeRecord, encodeRecordAt, le64, le32, le16, leBytes, recordOf,
      Event.code, Event.value, List.replicate, List.cons_append, List.nil_append]
    simp
    omega

theorem synReport_eq : synReport = List.replicate 24 0 := by decide

/-! ## the fields the reader extracts from a record -/

theorem recType_encodeRecordAt (s u t c v : Nat) : recType (encodeRecordAt s u t c v) = t % 65536 := by
  simp only [recType, byteAt, encodeRecordAt, le64, le32, le16, leBytes, List.cons_append,
    List.nil_append, List.getD_cons_succ, List.getD_cons_zero]
  omega

theorem recCode_encodeRecordAt (s u t c v : Nat) : recCode (encodeRecordAt s u t c v) = c % 65536 := by
  simp only [recCode, byteAt, encodeRecordAt, le64, le32, le16, leBytes, List.cons_append,
    List.nil_append, List.getD_cons_succ, List.getD_cons_zero]
  omega

theorem recValueU_encodeRecordAt (s u t c v : Nat) :
    recValueU (encodeRecordAt s u t c v) = v % 4294967296 := by
  simp only [recValueU, byteAt, encodeRecordAt, le64, le32, le16, leBytes, List.cons_append,
    List.nil_append, List.getD_cons_succ, List.getD_cons_zero]
  omega

/-- a record whose value field holds `v < 2^31` reads back as the i32 `v` -/
theorem recValue_encodeRecordAt (s u t c v : Nat) (hv : v < 2147483648) :
    recValue (encodeRecordAt s u t c v) = (v : Int) := by
  have : v % 4294967296 = v := by omega
  simp [recValue, recValueU_encodeRecordAt, this, hv]

/-- a record whose value field holds the two's complement image of a negative i32 reads back negative -/
theorem recValue_encodeRecordAt_neg (s u t c v : Nat) (hv : 2147483648 ≤ v) (hv' : v < 4294967296) :
    recValue (encodeRecordAt s u t c v) = (v : Int) - 4294967296 := by
  have : v % 4294967296 = v := by omega
  have h2 : ¬ v < 2147483648 := by omega
  simp [recValue, recValueU_encodeRecordAt, this, h2]

/-! ## the three families of records the reader skips (for all other field values) -/

/-- anything whose value is not 0 or 1 is skipped -/
theorem decodeRecord_badvalue (rec : List Nat) (h0 : recValue rec ≠ 0) (h1 : recValue rec ≠ 1) :
    decodeRecord rec = none := by
  simp [decodeRecord, h0, h1]

/-- auto-repeat records (value 2) are skipped, whatever type, code and time stamp say -/
theorem decodeRecord_autorepeat (rec : List Nat) (h : recValue rec = 2) : decodeRecord rec = none :=
  decodeRecord_badvalue rec (by omega) (by omega)

/-- records whose type is not EV_KEY are skipped, whatever code, value and time stamp say -/
theorem decodeRecord_nonkey (rec : List Nat) (h : recType rec ≠ 1) : decodeRecord rec = none := by
  simp [decodeRecord, h]

/-- key records with a code the tool does not know are skipped, whatever value and time stamp say -/
theorem decodeRecord_unknown (rec : List Nat) (h : knownCode (recCode rec) = false) :
    decodeRecord rec = none := by
  simp [decodeRecord, h]

/-- conversely, these are the only skipped records: a record is returned iff it is a key record
with value 0 or 1 and a known code -/
theorem decodeRecord_isSome_iff (rec : List Nat) :
    (decodeRecord rec).isSome = true ↔
      recType rec = 1 ∧ (recValue rec = 0 ∨ recValue rec = 1) ∧ knownCode (recCode rec) = true := by
  unfold decodeRecord
  by_cases ht : recType rec = 1 <;> by_cases hk : knownCode (recCode rec) = true <;>
    by_cases h1 : recValue rec = 1 <;> by_cases h0 : recValue rec = 0 <;> simp [ht, hk, h1, h0]

/-- a returned event carries the record's code, and is a press exactly for value 1 -/
theorem decodeRecord_eq_some (rec : List Nat) (e : Event) (h : decodeRecord rec = some e) :
    e.code = recCode rec ∧ ((e.value : Int) = recValue rec) ∧ knownCode e.code = true := by
  unfold decodeRecord at h
  by_cases ht : recType rec = 1 <;> by_cases hk : knownCode (recCode rec) = true <;>
    by_cases h1 : recValue rec = 1 <;> by_cases h0 : recValue rec = 0 <;>
    simp [ht, hk, h1, h0] at h <;> subst h <;> simp [Event.code, Event.value, hk, h1, h0]

/-- the same three families for records built field by field (any time stamp) -/
theorem decodeRecord_autorepeat_enc (s u t c : Nat) : decodeRecord (encodeRecordAt s u t c 2) = none :=
  decodeRecord_autorepeat _ (by rw [recValue_encodeRecordAt _ _ _ _ 2 (by omega)]; rfl)

theorem decodeRecord_nonkey_enc (s u t c v : Nat) (h : t % 65536 ≠ 1) :
    decodeRecord (encodeRecordAt s u t c v) = none :=
  decodeRecord_nonkey _ (by rw [recType_encodeRecordAt]; exact h)

theorem decodeRecord_unknown_enc (s u t c v : Nat) (h : knownCode (c % 65536) = false) :
    decodeRecord (encodeRecordAt s u t c v) = none :=
  decodeRecord_unknown _ (by rw [recCode_encodeRecordAt]; exact h)

/-- key records from the kernel (any time stamp) with value 0/1 and a known code are returned -/
theorem decodeRecord_key_enc (s u : Nat) (e : Event) (h : knownCode e.code = true) :
    decodeRecord (encodeRecordAt s u 1 e.code e.value) = some e := by
  have hc : e.code % 65536 = e.code := Nat.mod_eq_of_lt (knownCode_lt h)
  have hv : recValue (encodeRecordAt s u 1 e.code e.value) = (e.value : Int) :=
    recValue_encodeRecordAt _ _ _ _ _ (by cases e <;> simp [Event.value])
  unfold decodeRecord
  simp only [recType_encodeRecordAt, recCode_encodeRecordAt, hv, hc, h]
  cases e <;> simp [Event.value, Event.code]

/-- reader ∘ writer on one event -/
theorem decodeRecord_encodeEvent (e : Event) (h : knownCode e.code = true) :
    decodeRecord (encodeEvent e) = some e := by
  have hc : e.code % 65536 = e.code := Nat.mod_eq_of_lt (knownCode_lt h)
  unfold encodeEvent encodeRecord
  rw [hc]
  exact decodeRecord_key_enc 0 0 e h

theorem decodeRecord_synReport : decodeRecord synReport = none :=
  decodeRecord_nonkey _ (by decide)

/-! ## streams of records -/

theorem decodeStream_short (bytes : List Nat) (h : bytes.length < 24) : decodeStream bytes = [] := by
  have : bytes.length / 24 = 0 := by omega
  simp [decodeStream, this, decodeRecs]

/-- reading a stream that starts with a whole record -/
theorem decodeStream_record_append (r rest : List Nat) (h : r.length = 24) :
    decodeStream (r ++ rest) = (decodeRecord r).toList ++ decodeStream rest := by
  have hl : (r ++ rest).length / 24 = rest.length / 24 + 1 := by
    rw [List.length_append, h]; omega
  unfold decodeStream
  rw [hl, decodeRecs]
  have ht : (r ++ rest).take 24 = r := by rw [← h]; exact List.take_left
  have hd : (r ++ rest).drop 24 = rest := by rw [← h]; exact List.drop_left
  rw [ht, hd]

/-- a list of whole records decodes record by record -/
theorem decodeStream_flatten_append (recs : List (List Nat)) (rest : List Nat)
    (h : ∀ r ∈ recs, r.length = 24) :
    decodeStream (recs.flatten ++ rest) = recs.filterMap decodeRecord ++ decodeStream rest := by
  induction recs with
  | nil => simp
  | cons r rs ih =>
    have hr : r.length = 24 := h r (List.mem_cons_self ..)
    have hrs : ∀ r ∈ rs, r.length = 24 := fun x hx => h x (List.mem_cons_of_mem _ hx)
    rw [List.flatten_cons, List.append_assoc, decodeStream_record_append _ _ hr, ih hrs]
    cases hd : decodeRecord r <;> simp [hd]

theorem decodeStream_flatten (recs : List (List Nat)) (h : ∀ r ∈ recs, r.length = 24) :
    decodeStream recs.flatten = recs.filterMap decodeRecord := by
  have := decodeStream_flatten_append recs [] h
  simpa [decodeStream_short] using this

/-- every stream of whole records is a `flatten` of 24-byte records -/
theorem Bytes.exists_records : ∀ (n : Nat) (a : List Nat), a.length = 24 * n →
    ∃ recs : List (List Nat), recs.flatten = a ∧ ∀ r ∈ recs, r.length = 24
  | 0, a, h => ⟨[], by
      have : a = [] := List.eq_nil_of_length_eq_zero (by omega)
      simp [this], by simp⟩
  | n + 1, a, h => by
    obtain ⟨recs, h1, h2⟩ := Bytes.exists_records n (a.drop 24) (by rw [List.length_drop]; omega)
    refine ⟨a.take 24 :: recs, ?_, ?_⟩
    · rw [List.flatten_cons, h1, List.take_append_drop]
    · intro r hr
      rcases List.mem_cons.mp hr with rfl | hr
      · rw [List.length_take]; omega
      · exact h2 r hr

/-- reading is compositional at record boundaries -/
theorem decodeStream_append (a b : List Nat) (h : a.length % 24 = 0) :
    decodeStream (a ++ b) = decodeStream a ++ decodeStream b := by
  obtain ⟨recs, h1, h2⟩ := Bytes.exists_records (a.length / 24) a (by omega)
  subst h1
  rw [decodeStream_flatten_append _ _ h2, decodeStream_flatten _ h2]

/-! ## generic: the `i`-th chunk of a `flatMap` with fixed chunk length -/

theorem Bytes.flatMap_chunk {α β : Type} (f : α → List β) (n : Nat) (hf : ∀ x, (f x).length = n) :
    ∀ (l : List α) (t : List β) (i : Nat) (h : i < l.length),
      ((l.flatMap f ++ t).drop (n * i)).take n = f l[i]
  | x :: xs, t, 0, _ => by
    simp only [List.flatMap_cons, Nat.mul_zero, List.drop_zero, List.append_assoc,
      List.getElem_cons_zero]
    rw [← hf x]; exact List.take_left
  | x :: xs, t, i + 1, h => by
    have h' : i < xs.length := by simpa using h
    have := Bytes.flatMap_chunk f n hf xs t i h'
    simp only [List.flatMap_cons, List.append_assoc, List.getElem_cons_succ]
    rw [show n * (i + 1) = (f x).length + n * i by rw [hf x]; simp [Nat.mul_add]; omega]
    rw [← List.drop_drop, List.drop_left]
    exact this

theorem Bytes.flatMap_length_const {α β : Type} (f : α → List β) (n : Nat) (hf : ∀ x, (f x).length = n) :
    ∀ (l : List α), (l.flatMap f).length = n * l.length
  | [] => by simp
  | x :: xs => by
    simp [List.flatMap_cons, hf x, Bytes.flatMap_length_const f n hf xs, Nat.mul_add]; omega

theorem Bytes.flatMap_drop_all {α β : Type} (f : α → List β) (n : Nat) (hf : ∀ x, (f x).length = n)
    (l : List α) (t : List β) : (l.flatMap f ++ t).drop (n * l.length) = t := by
  rw [← Bytes.flatMap_length_const f n hf l]; exact List.drop_left

end TmVerif
