/-
Histories: operations on the mapper (key events and release-all calls), the ghost summary of a
history (P = physically held, V = held on the virtual keyboard), reachability, and the lift of
the step invariant to every reachable state.
-/
import TmVerif.Proofs.StepInv

namespace TmVerif

/-- one operation of the mapper's public API -/
inductive Op where
  | ev (e : Event)     -- Mapper::step
  | relAll             -- Mapper::release_all (tablet-mode change)
deriving DecidableEq, Repr

/-- mapper state plus the ghost summary of the history so far -/
structure Sys where
  P : List Key
  V : List Key
  s : State
deriving Repr

def Sys.init : Sys := ⟨[], [], State.init⟩

/-- outputs (events written to the virtual keyboard, and the repeat request for a step) of an operation -/
def Sys.out (L : Layout) (x : Sys) : Op → List Event
  | Op.ev e => (step L x.s e).2.events
  | Op.relAll => (releaseAll L x.s).2

def Sys.next (L : Layout) (x : Sys) : Op → Sys
  | Op.ev e => ⟨applyEv x.P e, foldEvs x.V (step L x.s e).2.events, (step L x.s e).1⟩
  | Op.relAll => ⟨x.P, foldEvs x.V (releaseAll L x.s).2, (releaseAll L x.s).1⟩

def Sys.run (L : Layout) (x : Sys) (ops : List Op) : Sys := ops.foldl (Sys.next L) x

/-- the concatenated output of a history -/
def Sys.outs (L : Layout) : Sys → List Op → List Event
  | _, [] => []
  | x, op :: ops => x.out L op ++ Sys.outs L (x.next L op) ops

/-- reachable from a fresh mapper by some history (with release-all calls interleaved) -/
def Reachable (L : Layout) (x : Sys) : Prop := ∃ ops, x = Sys.run L Sys.init ops

structure SInv (L : Layout) (x : Sys) : Prop where
  inv : Inv L x.P x.s
  vheld : ∀ k, k ∈ x.V ↔ k ∈ held x.s

theorem Inv.monoP {L : Layout} {P P' : List Key} {s : State} (h : Inv L P s)
    (hsub : ∀ k, k ∈ P → k ∈ P') : Inv L P' s :=
  ⟨h.i, fun k hk => hsub k (h.inpP k hk), h.actL, h.noHid, h.actNe⟩

/-- the release-all loop: invariant (for the unchanged physical set), legality, and every listed key
is forgotten as input -/
theorem releaseAllLoop_spec (L : Layout) (P : List Key) (s : State) (ks : List Key) (h : Inv L P s) :
    Inv L P (releaseAllLoop L s ks).1 ∧
    Emits (held s) (releaseAllLoop L s ks).2 (held (releaseAllLoop L s ks).1) ∧
    (∀ e, e ∈ (releaseAllLoop L s ks).2 → e.isRelease = true) ∧
    (∀ x, x ∈ (releaseAllLoop L s ks).1.inp → x ∈ s.inp ∧ x ∉ ks) := by
  induction ks generalizing s with
  | nil => exact ⟨h, Emits.nil (fun _ => Iff.rfl), by simp [releaseAllLoop], by simp [releaseAllLoop]⟩
  | cons k ks ih =>
    have heq : releaseAllLoop L s (k :: ks) =
        ((releaseAllLoop L (step L s (Event.released k)).1 ks).1,
         (step L s (Event.released k)).2.events ++ (releaseAllLoop L (step L s (Event.released k)).1 ks).2) := rfl
    rw [heq]
    have hs := step_inv L P s (Event.released k) h
    have hs1 : Inv L P (step L s (Event.released k)).1 :=
      hs.1.monoP (by intro x hx; simp at hx; exact hx.1)
    have h2 := ih (step L s (Event.released k)).1 hs1
    have hrel : (∀ e, e ∈ (step L s (Event.released k)).2.events → e.isRelease = true) ∧
        (∀ x, x ∈ (step L s (Event.released k)).1.inp → x ∈ s.inp ∧ x ≠ k) := by
      by_cases hk : k ∈ s.inp
      · have : step L s (Event.released k) = newlyRelease s k := by simp [step, hk]
        rw [this]
        have nr := newlyRelease_spec L P s k h
        exact ⟨nr.2.1.allRel, fun x hx => (nr.2.2.2 x).mp hx⟩
      · have : step L s (Event.released k) = (s, ⟨[], RRepeat.noChange⟩) := by simp [step, hk]
        rw [this]
        exact ⟨by simp, fun x hx => ⟨hx, fun e => hk (e ▸ hx)⟩⟩
    refine ⟨h2.1, hs.2.trans h2.2.1, ?_, ?_⟩
    · intro e he
      rcases List.mem_append.mp he with h3 | h3
      · exact hrel.1 e h3
      · exact h2.2.2.1 e h3
    · intro x hx
      have h3 := h2.2.2.2 x hx
      have h4 := hrel.2 x h3.1
      exact ⟨h4.1, by simp [h4.2, h3.2]⟩

/-- a state with no input key held holds nothing on the output -/
theorem Inv.rest {L : Layout} {P : List Key} {s : State} (h : Inv L P s) (hinp : s.inp = []) :
    s.pass = [] ∧ s.active = [] ∧ s.mapped = [] := by
  have hp : s.pass = [] := by
    apply List.eq_nil_iff_forall_not_mem.mpr
    intro x hx; have := h.i.passInp x hx; rw [hinp] at this; simp at this
  have ha : s.active = [] := by
    apply List.eq_nil_iff_forall_not_mem.mpr
    intro m hm
    obtain ⟨x, hx⟩ := List.exists_mem_of_ne_nil _ (h.actNe m hm)
    have := h.i.actInp m hm x hx; rw [hinp] at this; simp at this
  refine ⟨hp, ha, ?_⟩
  apply List.eq_nil_iff_forall_not_mem.mpr
  intro x hx
  rcases h.i.mappedAct x hx with h1 | ⟨m, hm, _⟩
  · simp at h1
  · rw [ha] at hm; simp at hm

theorem releaseAll_spec (L : Layout) (P : List Key) (s : State) (h : Inv L P s) :
    Inv L P (releaseAll L s).1 ∧
    Emits (held s) (releaseAll L s).2 (held (releaseAll L s).1) ∧
    (∀ e, e ∈ (releaseAll L s).2 → e.isRelease = true) ∧
    (releaseAll L s).1.inp = [] ∧ (releaseAll L s).1.pass = [] ∧
    (releaseAll L s).1.active = [] ∧ (releaseAll L s).1.mapped = [] := by
  unfold releaseAll
  have h1 := releaseAllLoop_spec L P s s.inp h
  have hinp : (releaseAllLoop L s s.inp).1.inp = [] := by
    apply List.eq_nil_iff_forall_not_mem.mpr
    intro x hx; have := h1.2.2.2 x hx; exact this.2 this.1
  have hr := h1.1.rest hinp
  exact ⟨h1.1, h1.2.1, h1.2.2.1, hinp, hr.1, hr.2.1, hr.2.2⟩

theorem SInv.init (L : Layout) : SInv L Sys.init :=
  ⟨Inv.init L, by simp [Sys.init, State.init, held]⟩

theorem SInv.next {L : Layout} {x : Sys} (h : SInv L x) (op : Op) :
    SInv L (x.next L op) ∧ Emits x.V (x.out L op) (x.next L op).V := by
  cases op with
  | ev e =>
    have hs := step_inv L x.P x.s e h.inv
    have hem : Emits x.V (step L x.s e).2.events (held (step L x.s e).1) :=
      hs.2.congr_left (fun k => (h.vheld k).symm)
    exact ⟨⟨hs.1, hem.2⟩, ⟨hem.1, fun _ => Iff.rfl⟩⟩
  | relAll =>
    have hs := releaseAll_spec L x.P x.s h.inv
    have hem : Emits x.V (releaseAll L x.s).2 (held (releaseAll L x.s).1) :=
      hs.2.1.congr_left (fun k => (h.vheld k).symm)
    exact ⟨⟨hs.1, hem.2⟩, ⟨hem.1, fun _ => Iff.rfl⟩⟩

theorem SInv.run {L : Layout} {x : Sys} (h : SInv L x) (ops : List Op) : SInv L (x.run L ops) := by
  induction ops generalizing x with
  | nil => exact h
  | cons op ops ih => exact ih (h.next op).1

theorem Reachable.sinv {L : Layout} {x : Sys} (h : Reachable L x) : SInv L x := by
  obtain ⟨ops, rfl⟩ := h
  exact (SInv.init L).run ops

theorem Reachable.init (L : Layout) : Reachable L Sys.init := ⟨[], rfl⟩

theorem Reachable.next {L : Layout} {x : Sys} (h : Reachable L x) (op : Op) : Reachable L (x.next L op) := by
  obtain ⟨ops, rfl⟩ := h
  exact ⟨ops ++ [op], by simp [Sys.run, List.foldl_append]⟩

/-- legality of the whole concatenated output of a history -/
theorem outs_legal {L : Layout} {x : Sys} (h : SInv L x) (ops : List Op) :
    Emits x.V (Sys.outs L x ops) (x.run L ops).V := by
  induction ops generalizing x with
  | nil => exact Emits.nil (fun _ => Iff.rfl)
  | cons op ops ih =>
    have h1 := h.next op
    exact h1.2.trans (ih h1.1)

/-- the observation record of one step from a system state -/
def Sys.obs (L : Layout) (x : Sys) (e : Event) : Obs :=
  ⟨L, x.P, x.V, x.s, e, (step L x.s e).2.events, (step L x.s e).2.rep, (step L x.s e).1⟩

end TmVerif
