/-
The escaper followed by the three passes of `parseExecStart`: per character, per pattern, per
pattern list.  Core Lean only.
-/
import TmVerif.Proofs.EscapeScan
namespace TmVerif

/-- what pass 1 makes of the escaped form of `c`: `c` itself, `%` and `$` still doubled -/
def dblChar (c : Char) : List Char :=
  if c = '%' then ['%', '%'] else if c = '$' then ['$', '$'] else [c]

theorem toNat_ne_zero {c : Char} (h : c ≠ Char.ofNat 0) : c.toNat ≠ 0 := by
  intro h0
  apply h
  rw [← Char.ofNat_toNat c, h0]

theorem step_backslash (done : List (List Char)) (cur : List Char) :
    scanStep (.word done cur .off none) '\\' = some (.word done cur .off (some .start)) := rfl

/-- consuming the escaped form of one character inside an unquoted word appends that character
(with `%`, `$` doubled for the later passes) and stays inside the unquoted word -/
theorem scan_escapeOneChar (done : List (List Char)) (cur : List Char) (c : Char) (rest : List Char)
    (h0 : c ≠ Char.ofNat 0) :
    scan (.word done cur .off none) (escapeOneChar c ++ rest)
      = scan (.word done (cur ++ dblChar c) .off none) rest := by
  rw [escapeOneChar]
  by_cases hbs : c = '\\'
  · subst hbs; rfl
  rw [if_neg hbs]
  by_cases hsp : c = ' '
  · subst hsp; rfl
  rw [if_neg hsp]
  by_cases h7 : c = Char.ofNat 0x07
  · subst h7; rfl
  rw [if_neg h7]
  by_cases h8 : c = Char.ofNat 0x08
  · subst h8; rfl
  rw [if_neg h8]
  by_cases hn : c = '\n'
  · subst hn; rfl
  rw [if_neg hn]
  by_cases hr : c = '\r'
  · subst hr; rfl
  rw [if_neg hr]
  by_cases ht : c = '\t'
  · subst ht; rfl
  rw [if_neg ht]
  by_cases hdq : c = '"'
  · subst hdq; rfl
  rw [if_neg hdq]
  by_cases hsq : c = '\''
  · subst hsq; rfl
  rw [if_neg hsq]
  by_cases hpc : c = '%'
  · subst hpc; simp [scan, scanStep, wordStep, isSep, dblChar]
  rw [if_neg hpc]
  by_cases hdl : c = '$'
  · subst hdl; simp [scan, scanStep, wordStep, isSep, dblChar]
  rw [if_neg hdl]
  by_cases hsc : c = ';'
  · subst hsc; rfl
  rw [if_neg hsc]
  by_cases hst : c = '*'
  · subst hst; rfl
  rw [if_neg hst]
  by_cases hqm : c = '?'
  · subst hqm; rfl
  rw [if_neg hqm]
  have hd : dblChar c = [c] := by simp [dblChar, hpc, hdl]
  have hz := toNat_ne_zero h0
  rw [hd]
  split
  · next hctl =>
    simp only [isControl, Bool.or_eq_true, Bool.and_eq_true, decide_eq_true_eq] at hctl
    have hstart : ∀ (x : Char) (st : Esc), scanStep (.word done cur .off (some .start)) x = some (.word done cur .off (some st)) →
        ∀ l, scan (.word done cur .off none) (['\\', x] ++ l) = scan (.word done cur .off (some st)) l := by
      intro x st hx l
      rw [List.cons_append, scan_cons _ (step_backslash done cur), List.cons_append, scan_cons _ hx]
      rfl
    simp only []
    split
    · next h128 =>
      rw [List.append_assoc, hstart 'x' _ rfl]
      apply scan_hexEscape done cur .off true 1 c.toNat c rest (by omega)
      simp [numEscape, hz, h128, Char.ofNat_toNat]
    split
    · next h128 h64k =>
      rw [List.append_assoc, hstart 'u' _ rfl]
      apply scan_hexEscape done cur .off false 3 c.toNat c rest (by omega)
      have : c.toNat < 0xd800 := by omega
      simp [numEscape, hz, this, Char.ofNat_toNat]
    · omega
  · have hp : plain c = true := by
      simp [plain, isSep, hbs, hsq, hdq, hsp, ht, hn, hr]
    rw [List.singleton_append, scan_cons _ (step_plain done cur c hp)]

/-- the escaped form of a character starts a word: its first character is neither a separator
nor `;` -/
theorem escapeOneChar_head (c : Char) :
    ∃ x tl, escapeOneChar c = x :: tl ∧ isSep x = false ∧ x ≠ ';' := by
  rw [escapeOneChar]
  by_cases hbs : c = '\\'
  · rw [if_pos hbs]; exact ⟨_, _, rfl, by decide, by decide⟩
  rw [if_neg hbs]
  by_cases hsp : c = ' '
  · rw [if_pos hsp]; exact ⟨_, _, rfl, by decide, by decide⟩
  rw [if_neg hsp]
  by_cases h7 : c = Char.ofNat 0x07
  · rw [if_pos h7]; exact ⟨_, _, rfl, by decide, by decide⟩
  rw [if_neg h7]
  by_cases h8 : c = Char.ofNat 0x08
  · rw [if_pos h8]; exact ⟨_, _, rfl, by decide, by decide⟩
  rw [if_neg h8]
  by_cases hn : c = '\n'
  · rw [if_pos hn]; exact ⟨_, _, rfl, by decide, by decide⟩
  rw [if_neg hn]
  by_cases hr : c = '\r'
  · rw [if_pos hr]; exact ⟨_, _, rfl, by decide, by decide⟩
  rw [if_neg hr]
  by_cases ht : c = '\t'
  · rw [if_pos ht]; exact ⟨_, _, rfl, by decide, by decide⟩
  rw [if_neg ht]
  by_cases hdq : c = '"'
  · rw [if_pos hdq]; exact ⟨_, _, rfl, by decide, by decide⟩
  rw [if_neg hdq]
  by_cases hsq : c = '\''
  · rw [if_pos hsq]; exact ⟨_, _, rfl, by decide, by decide⟩
  rw [if_neg hsq]
  by_cases hpc : c = '%'
  · rw [if_pos hpc]; exact ⟨_, _, rfl, by decide, by decide⟩
  rw [if_neg hpc]
  by_cases hdl : c = '$'
  · rw [if_pos hdl]; exact ⟨_, _, rfl, by decide, by decide⟩
  rw [if_neg hdl]
  by_cases hsc : c = ';'
  · rw [if_pos hsc]; exact ⟨_, _, rfl, by decide, by decide⟩
  rw [if_neg hsc]
  by_cases hst : c = '*'
  · rw [if_pos hst]; exact ⟨_, _, rfl, by decide, by decide⟩
  rw [if_neg hst]
  by_cases hqm : c = '?'
  · rw [if_pos hqm]; exact ⟨_, _, rfl, by decide, by decide⟩
  rw [if_neg hqm]
  by_cases hctl : isControl c = true
  · rw [if_pos hctl]
    simp only []
    split
    · exact ⟨_, _, rfl, by decide, by decide⟩
    split
    · exact ⟨_, _, rfl, by decide, by decide⟩
    · exact ⟨_, _, rfl, by decide, by decide⟩
  · rw [if_neg hctl]
    refine ⟨c, [], rfl, ?_, hsc⟩
    simp [isSep, hsp, ht, hn, hr]

/-! ### one pattern -/

/-- what pass 1 makes of an escaped pattern -/
def dbl (p : List Char) : List Char := p.flatMap dblChar

theorem scan_systemdArgEscape (done : List (List Char)) (p : List Char) (rest : List Char)
    (h0 : Char.ofNat 0 ∉ p) :
    ∀ cur, scan (.word done cur .off none) (systemdArgEscape p ++ rest)
      = scan (.word done (cur ++ dbl p) .off none) rest := by
  induction p with
  | nil => intro cur; simp [systemdArgEscape, dbl]
  | cons c cs ih =>
    intro cur
    have hc : c ≠ Char.ofNat 0 := fun h => h0 (by simp [h])
    have hcs : Char.ofNat 0 ∉ cs := fun h => h0 (by simp [h])
    have e : systemdArgEscape (c :: cs) = escapeOneChar c ++ systemdArgEscape cs := by
      simp [systemdArgEscape]
    rw [e, List.append_assoc, scan_escapeOneChar done cur c _ hc, ih hcs]
    simp [dbl]

theorem systemdArgEscape_head (p : List Char) (hp : p ≠ []) :
    ∃ x tl, systemdArgEscape p = x :: tl ∧ isSep x = false ∧ x ≠ ';' := by
  cases p with
  | nil => exact absurd rfl hp
  | cons c cs =>
    obtain ⟨x, tl, e, h1, h2⟩ := escapeOneChar_head c
    exact ⟨x, tl ++ systemdArgEscape cs, by simp [systemdArgEscape, e], h1, h2⟩

/-- `--exclude <escaped pattern>` followed by a space yields the two words `--exclude`, `dbl p` -/
theorem scan_chunk (done : List (List Char)) (p : List Char) (rest : List Char)
    (hp : p ≠ []) (h0 : Char.ofNat 0 ∉ p) :
    scan (.between done) (("--exclude ".toList ++ systemdArgEscape p) ++ ' ' :: rest)
      = scan (.between (done ++ ["--exclude".toList, dbl p])) rest := by
  obtain ⟨x, tl, e, h1, h2⟩ := systemdArgEscape_head p hp
  have e1 : ("--exclude ".toList ++ systemdArgEscape p) ++ ' ' :: rest
      = "--exclude".toList ++ ' ' :: (systemdArgEscape p ++ ' ' :: rest) := by
    simp
  rw [e1, scan_literal' done "--exclude".toList _ '-' "-exclude".toList rfl (by decide) (by decide)]
  rw [e, List.cons_append, scan_between _ x _ h1 h2, ← List.cons_append, ← e,
    scan_systemdArgEscape _ p _ h0, scan_cons _ (step_space _ _)]
  simp

/-! ### the list of patterns -/

def excludeArgs (f : List Char → List Char) (pats : List (List Char)) : List (List Char) :=
  pats.flatMap fun p => ["--exclude".toList, f p]

theorem scan_excludeText (pats : List (List Char)) (rest : List Char)
    (h : ∀ p ∈ pats, p ≠ [] ∧ Char.ofNat 0 ∉ p) :
    ∀ done, scan (.between done) (buildExcludeText pats ++ ' ' :: rest)
      = scan (.between (done ++ excludeArgs dbl pats)) rest := by
  induction pats with
  | nil =>
    intro done
    simp [buildExcludeText, joinSpace, excludeArgs, scan_cons _ (step_between_space done)]
  | cons p ps ih =>
    intro done
    obtain ⟨hp, h0⟩ := h p (by simp)
    have hps : ∀ q ∈ ps, q ≠ [] ∧ Char.ofNat 0 ∉ q := fun q hq => h q (by simp [hq])
    cases ps with
    | nil =>
      simp only [buildExcludeText, List.map, joinSpace]
      rw [scan_chunk done p rest hp h0]
      simp [excludeArgs]
    | cons q qs =>
      have e : buildExcludeText (p :: q :: qs) ++ ' ' :: rest
          = ("--exclude ".toList ++ systemdArgEscape p) ++ ' ' :: (buildExcludeText (q :: qs) ++ ' ' :: rest) := by
        simp [buildExcludeText, joinSpace]
      rw [e, scan_chunk done p _ hp h0, ih hps]
      simp [excludeArgs]

/-! ### passes 2 and 3 undo the doubling -/

def dblDollar (c : Char) : List Char :=
  if c = '$' then ['$', '$'] else [c]

theorem expandSpecifiers_cons_ne (inst : List Char) (c : Char) (r : List Char) (h : c ≠ '%') :
    expandSpecifiers inst (c :: r) = (expandSpecifiers inst r).map (c :: ·) := by
  cases r <;> simp [expandSpecifiers, h]

theorem expandSpecifiers_pct_pct (inst : List Char) (r : List Char) :
    expandSpecifiers inst ('%' :: '%' :: r) = (expandSpecifiers inst r).map ('%' :: ·) := by
  simp [expandSpecifiers]

theorem expandEnv_cons_ne (c : Char) (r : List Char) (h : c ≠ '$') :
    expandEnv (c :: r) = (expandEnv r).map (c :: ·) := by
  cases r <;> simp [expandEnv, h]

theorem expandEnv_dl_dl (r : List Char) :
    expandEnv ('$' :: '$' :: r) = (expandEnv r).map ('$' :: ·) := by
  simp [expandEnv]

theorem expandSpecifiers_dbl (inst : List Char) (p : List Char) :
    expandSpecifiers inst (dbl p) = some (p.flatMap dblDollar) := by
  induction p with
  | nil => simp [dbl, expandSpecifiers]
  | cons c cs ih =>
    have e : dbl (c :: cs) = dblChar c ++ dbl cs := by simp [dbl]
    rw [e, dblChar]
    by_cases hpc : c = '%'
    · subst hpc
      simp [expandSpecifiers_pct_pct, ih, dblDollar]
    rw [if_neg hpc]
    by_cases hdl : c = '$'
    · subst hdl
      simp [expandSpecifiers_cons_ne, ih, dblDollar]
    rw [if_neg hdl]
    simp [expandSpecifiers_cons_ne, ih, dblDollar, hpc, hdl]

theorem expandEnv_dblDollar (p : List Char) : expandEnv (p.flatMap dblDollar) = some p := by
  induction p with
  | nil => simp [expandEnv]
  | cons c cs ih =>
    rw [List.flatMap_cons, dblDollar]
    by_cases hdl : c = '$'
    · subst hdl
      simp [expandEnv_dl_dl, ih]
    rw [if_neg hdl]
    simp [expandEnv_cons_ne, ih, hdl]

/-- passes 2 and 3 on one word -/
def expandWord (inst : List Char) (w : List Char) : Option (List Char) :=
  (expandSpecifiers inst w).bind expandEnv

theorem expandWord_dbl (inst p : List Char) : expandWord inst (dbl p) = some p := by
  simp [expandWord, expandSpecifiers_dbl, expandEnv_dblDollar]

theorem expandSpecifiers_noPercent (inst : List Char) (w : List Char) (h : '%' ∉ w) :
    expandSpecifiers inst w = some w := by
  induction w with
  | nil => simp [expandSpecifiers]
  | cons c cs ih =>
    have hc : c ≠ '%' := fun e => h (by simp [e])
    have hcs : '%' ∉ cs := fun e => h (by simp [e])
    simp [expandSpecifiers_cons_ne, hc, ih hcs]

theorem expandEnv_noDollar (w : List Char) (h : '$' ∉ w) : expandEnv w = some w := by
  induction w with
  | nil => simp [expandEnv]
  | cons c cs ih =>
    have hc : c ≠ '$' := fun e => h (by simp [e])
    have hcs : '$' ∉ cs := fun e => h (by simp [e])
    simp [expandEnv_cons_ne, hc, ih hcs]

theorem expandWord_literal (inst w : List Char) (h1 : '%' ∉ w) (h2 : '$' ∉ w) :
    expandWord inst w = some w := by
  simp [expandWord, expandSpecifiers_noPercent inst w h1, expandEnv_noDollar w h2]

theorem mapOpt_append {α β : Type} (f : α → Option β) (a b : List α) (a' : List β)
    (ha : mapOpt f a = some a') :
    mapOpt f (a ++ b) = (mapOpt f b).map (a' ++ ·) := by
  induction a generalizing a' with
  | nil =>
    simp [mapOpt] at ha; subst ha
    cases hb : mapOpt f b <;> simp [hb]
  | cons x xs ih =>
    simp only [mapOpt] at ha
    cases hx : f x with
    | none => simp [hx] at ha
    | some y =>
      cases hxs : mapOpt f xs with
      | none => simp [hx, hxs] at ha
      | some ys =>
        simp [hx, hxs] at ha
        subst ha
        simp only [List.cons_append, mapOpt, hx, ih ys hxs]
        cases hb : mapOpt f b <;> simp

theorem mapOpt_excludeArgs (inst : List Char) (pats : List (List Char)) :
    mapOpt (expandWord inst) (excludeArgs dbl pats) = some (excludeArgs id pats) := by
  induction pats with
  | nil => simp [excludeArgs, mapOpt]
  | cons p ps ih =>
    have e : ∀ f, excludeArgs f (p :: ps) = "--exclude".toList :: f p :: excludeArgs f ps := by
      intro f; simp [excludeArgs]
    rw [e, e, mapOpt, mapOpt, ih, expandWord_dbl,
      expandWord_literal inst "--exclude".toList (by decide) (by decide)]
    rfl

end TmVerif
