/-
`load_saveable`, part 2: `convert` turns a fancy layout satisfying `layoutOK` (what the parser
guarantees) into a basic layout satisfying `Saveable` (what C15 needs).
-/
import TmVerif.Proofs.LoadSaveable
import TmVerif.Props.C14

namespace TmVerif
namespace Convert
open Outcome Fancy TmVerif.Tables

theorem keysKnown_append {a b : List Key} : keysKnown (a ++ b) = true ↔ keysKnown a = true ∧ keysKnown b = true := by
  simp [keysKnown]

theorem keysKnown_cons {k : Key} {ks : List Key} :
    keysKnown (k :: ks) = true ↔ isKnownKey k = true ∧ keysKnown ks = true := by
  simp [keysKnown]

/-- the keys of the chosen alias definition are known keys (the definition is a mapping of `F`) -/
theorem chosenKeys_known {F : Fancy.Layout} (hF : layoutOK F = true) {c : Comb} (hc : CombOK F c)
    {t : List Nat} {i : Nat} {ks : List Key} (h : chosenKeys c t i = ok ks) : keysKnown ks = true := by
  simp only [chosenKeys, bind_eq_ok, unwrapO_eq_ok] at h
  obtain ⟨l, hl, n, _, am, ham, h⟩ := h
  simp at h; subst h
  have hmem : Mapping.alias am ∈ F := hc.inF l (List.mem_of_getElem? hl) am (List.mem_of_getElem? ham)
  have := List.all_eq_true.1 hF _ hmem
  simp only [mappingOK, Bool.and_eq_true] at this
  exact this.1

theorem fromModifiersLoop_known {F : Fancy.Layout} (hF : layoutOK F = true) {c : Comb} (hc : CombOK F c)
    {t : List Nat} : ∀ (ms : List Modifier) (j : Nat) (ks : List Key), fromModifiersLoop c t ms j = ok ks →
      modsOK ms = true → keysKnown ks = true := by
  intro ms
  induction ms with
  | nil => intro j ks h _; simp [fromModifiersLoop] at h; subst h; rfl
  | cons m ms ih =>
    intro j ks h hms
    simp only [modsOK, List.all_cons, Bool.and_eq_true] at hms
    cases m with
    | key k =>
      simp only [fromModifiersLoop] at h
      obtain ⟨rest, hrest, h⟩ := bind_eq_ok.1 h
      simp at h; subst h
      exact keysKnown_cons.2 ⟨hms.1, ih j rest hrest hms.2⟩
    | alias n =>
      simp only [fromModifiersLoop] at h
      obtain ⟨keys, hkeys, h⟩ := bind_eq_ok.1 h
      obtain ⟨rest, hrest, h⟩ := bind_eq_ok.1 h
      simp at h; subst h
      exact keysKnown_append.2 ⟨chosenKeys_known hF hc hkeys, ih (j + 1) rest hrest hms.2⟩

theorem reifyModifiers_known {F : Fancy.Layout} (hF : layoutOK F = true) {c : Comb} (hc : CombOK F c)
    {t : List Nat} : ∀ (ms : List Modifier) (ks : List Key), reifyModifiers c t ms = ok ks →
      modsOK ms = true → keysKnown ks = true := by
  intro ms
  induction ms with
  | nil => intro ks h _; simp [reifyModifiers] at h; subst h; rfl
  | cons m ms ih =>
    intro ks h hms
    simp only [modsOK, List.all_cons, Bool.and_eq_true] at hms
    cases m with
    | key k =>
      simp only [reifyModifiers] at h
      obtain ⟨rest, hrest, h⟩ := bind_eq_ok.1 h
      simp at h; subst h
      exact keysKnown_cons.2 ⟨hms.1, ih rest hrest hms.2⟩
    | alias n =>
      simp only [reifyModifiers] at h
      obtain ⟨i, _, h⟩ := bind_eq_ok.1 h
      obtain ⟨keys, hkeys, h⟩ := bind_eq_ok.1 h
      obtain ⟨rest, hrest, h⟩ := bind_eq_ok.1 h
      simp at h; subst h
      exact keysKnown_append.2 ⟨chosenKeys_known hF hc hkeys, ih rest hrest hms.2⟩

/-- a plain modifier of the trigger is in the trigger -/
theorem fromModifiersLoop_key_mem {c : Comb} {t : List Nat} :
    ∀ (ms : List Modifier) (j : Nat) (fm : List Key), fromModifiersLoop c t ms j = ok fm →
      ∀ k, Modifier.key k ∈ ms → k ∈ fm := by
  intro ms
  induction ms with
  | nil => intro _ _ _ k hk; cases hk
  | cons m ms ih =>
    intro j fm h k hk
    cases m with
    | key k' =>
      simp only [fromModifiersLoop] at h
      obtain ⟨rest, hrest, h⟩ := bind_eq_ok.1 h
      simp at h; subst h
      rcases List.mem_cons.1 hk with heq | hk
      · simp at heq; subst heq; exact List.mem_cons_self ..
      · exact List.mem_cons_of_mem _ (ih j rest hrest k hk)
    | alias n =>
      simp only [fromModifiersLoop] at h
      obtain ⟨keys, _, h⟩ := bind_eq_ok.1 h
      obtain ⟨rest, hrest, h⟩ := bind_eq_ok.1 h
      simp at h; subst h
      rcases List.mem_cons.1 hk with heq | hk
      · cases heq
      · exact List.mem_append_right _ (ih (j + 1) rest hrest k hk)

/-- the keys chosen for EVERY alias slot are in the trigger -/
theorem fromModifiersLoop_slot_mem {c : Comb} {t : List Nat} :
    ∀ (ms : List Modifier) (j : Nat) (fm : List Key), fromModifiersLoop c t ms j = ok fm →
      ∀ i keys, j ≤ i → i < j + aliasCount ms → chosenKeys c t i = ok keys → ∀ k ∈ keys, k ∈ fm := by
  intro ms
  induction ms with
  | nil => intro j fm _ i keys h1 h2; simp [aliasCount] at h2; omega
  | cons m ms ih =>
    intro j fm h i keys h1 h2 hck k hk
    cases m with
    | key k' =>
      simp only [fromModifiersLoop] at h
      obtain ⟨rest, hrest, h⟩ := bind_eq_ok.1 h
      simp at h; subst h
      exact List.mem_cons_of_mem _ (ih j rest hrest i keys h1 (by simpa [aliasCount] using h2) hck k hk)
    | alias n =>
      simp only [fromModifiersLoop] at h
      obtain ⟨keys', hkeys', h⟩ := bind_eq_ok.1 h
      obtain ⟨rest, hrest, h⟩ := bind_eq_ok.1 h
      simp at h; subst h
      simp only [aliasCount] at h2
      by_cases hij : i = j
      · subst hij
        rw [hkeys'] at hck
        simp at hck; subst hck
        exact List.mem_append_left _ hk
      · exact List.mem_append_right _ (ih (j + 1) rest hrest i keys (by omega) (by omega) hck k hk)

/-- what an absorbing list reifies to is contained in the trigger's modifiers -/
theorem reifyModifiers_subset {F : Fancy.Layout} {c : Comb} (hc : CombOK F c) {t : List Nat} {fm : List Key}
    (hfm : fromModifiers c t = ok fm) :
    ∀ (abs : List Modifier) (ks : List Key), reifyModifiers c t abs = ok ks →
      Parse.absorbingOk abs c.modifiers = true → ∀ k ∈ ks, k ∈ fm := by
  intro abs
  induction abs with
  | nil => intro ks h _ k hk; simp [reifyModifiers] at h; subst h; cases hk
  | cons m abs ih =>
    intro ks h hao k hk
    simp only [Parse.absorbingOk, List.all_cons, Bool.and_eq_true] at hao
    have hao2 : Parse.absorbingOk abs c.modifiers = true := hao.2
    cases m with
    | key k' =>
      simp only [reifyModifiers] at h
      obtain ⟨rest, hrest, h⟩ := bind_eq_ok.1 h
      simp at h; subst h
      rcases List.mem_cons.1 hk with rfl | hk
      · exact fromModifiersLoop_key_mem _ 0 fm hfm k (by simpa using hao.1)
      · exact ih rest hrest hao2 k hk
    | alias n =>
      simp only [reifyModifiers] at h
      obtain ⟨i, hi, h⟩ := bind_eq_ok.1 h
      obtain ⟨keys, hkeys, h⟩ := bind_eq_ok.1 h
      obtain ⟨rest, hrest, h⟩ := bind_eq_ok.1 h
      simp at h; subst h
      rcases List.mem_append.1 hk with hk | hk
      · have hlt := hc.amap n i (ofOption_eq_ok.1 hi)
        exact fromModifiersLoop_slot_mem _ 0 fm hfm i keys (Nat.zero_le _) (by rw [hc.count]; omega) hkeys k hk
      · exact ih rest hrest hao2 k hk

theorem translate_known {F : Fancy.Layout} (hF : layoutOK F = true) {c : Comb} (hc : CombOK F c) {t : List Nat}
    {to : SingleToKeys} {ks : List Key} (h : translateSingleToKeys c t to = ok ks) (hto : stkOK to = true) :
    keysKnown ks = true := by
  simp only [stkOK, Bool.and_eq_true] at hto
  unfold translateSingleToKeys at h
  split at h
  · rename_i k hk
    obtain ⟨ms, hms, h⟩ := bind_eq_ok.1 h
    simp at h; subst h
    have ht := hto.2
    rw [hk] at ht
    exact keysKnown_append.2 ⟨reifyModifiers_known hF hc _ _ hms hto.1, by simpa [keysKnown, termOK] using ht⟩
  · simp at h; subst h; rfl

theorem singleRepeat_saveable {F : Fancy.Layout} (hF : layoutOK F = true) {c : Comb} (hc : CombOK F c) {t : List Nat}
    {r : SingleRepeat} {rep : Repeat} (h : singleRepeat c t r = ok rep) (hr : srepOK r = true) :
    Repeat.saveable rep = true := by
  cases r with
  | normal => simp [singleRepeat] at h; subst h; rfl
  | disabled => simp [singleRepeat] at h; subst h; rfl
  | special keys d i =>
    simp only [singleRepeat] at h
    obtain ⟨ks, hks, h⟩ := bind_eq_ok.1 h
    simp at h; subst h
    simp only [srepOK, Bool.and_eq_true] at hr
    simp [Repeat.saveable, translate_known hF hc hks hr.1.1, hr.1.2, hr.2]

/-! ### the tables only contain known keys -/

theorem charTable_known : charTable.all (fun r => isKnownKey r.2.2) = true := by decide +kernel
theorem rowTable_known : rowTable.all (fun r => keysKnown r.2) = true := by decide +kernel
theorem shifts_known : isKnownKey LEFTSHIFT = true ∧ isKnownKey RIGHTSHIFT = true := by decide +kernel

theorem charAccessIn_known {c : Nat} {tbl : List (Nat × Bool × Nat)} {sh : Bool} {k : Key}
    (htbl : tbl.all (fun r => isKnownKey r.2.2) = true) (h : charAccessIn c tbl = some (sh, k)) :
    isKnownKey k = true := by
  induction tbl with
  | nil => cases h
  | cons r rest ih =>
    obtain ⟨ch, sh', k'⟩ := r
    simp only [List.all_cons, Bool.and_eq_true] at htbl
    simp only [charAccessIn] at h
    split at h
    · simp at h; rw [← h.2]; exact htbl.1
    · exact ih htbl.2 h

theorem physicalRow_known {r : Row} {phys : List Key} (h : physicalRow r = some phys) : keysKnown phys = true := by
  simp only [physicalRow, Option.map_eq_some_iff] at h
  obtain ⟨e, he, rfl⟩ := h
  exact List.all_eq_true.1 rowTable_known e (List.mem_of_getElem? he)

theorem convertRowTo_known {rs : Bool} {mods : List Key} {terms : List Char} {j : Nat} {to : List Key}
    (h : convertRowTo rs mods terms j = ok (some to)) (hm : keysKnown mods = true) : keysKnown to = true := by
  unfold convertRowTo at h
  split at h
  · simp at h
  · obtain ⟨ch, _, h⟩ := bind_eq_ok.1 h
    split at h
    · simp at h
    · split at h
      · cases h
      · rename_i sh k hca
        simp at h; subst h
        have hk := charAccessIn_known charTable_known hca
        refine keysKnown_append.2 ⟨hm, keysKnown_append.2 ⟨?_, by simp [keysKnown, hk]⟩⟩
        cases sh
        · rfl
        · cases rs <;> simp [keysKnown, shifts_known.1, shifts_known.2]

def tplOK : RowRepeatTemplate → Prop
  | RowRepeatTemplate.special ms _ d i => keysKnown ms = true ∧ inI32 d = true ∧ inI32 i = true
  | _ => True

theorem rowRepeatAt_saveable {rs : Bool} {tpl : RowRepeatTemplate} {j : Nat} {rep : Repeat}
    (h : rowRepeatAt rs tpl j = ok rep) (htpl : tplOK tpl) : Repeat.saveable rep = true := by
  cases tpl with
  | normal => simp [rowRepeatAt] at h; subst h; rfl
  | disabled => simp [rowRepeatAt] at h; subst h; rfl
  | special ms term d i =>
    simp only [rowRepeatAt] at h
    obtain ⟨r, hr, h⟩ := bind_eq_ok.1 h
    cases r with
    | none => simp at h; subst h; rfl
    | some keys =>
      simp at h; subst h
      simp only [tplOK] at htpl
      simp [Repeat.saveable, convertRowTo_known hr htpl.1, htpl.2.1, htpl.2.2]

theorem rowRepeatTemplate_ok {F : Fancy.Layout} (hF : layoutOK F = true) {c : Comb} (hc : CombOK F c) {t : List Nat}
    {r : RowMapping} {tpl : RowRepeatTemplate} (h : rowRepeatTemplate c t r = ok tpl) (hr : rrepOK r.rep = true) :
    tplOK tpl := by
  unfold rowRepeatTemplate at h
  split at h
  · simp at h; subst h; trivial
  · simp at h; subst h; trivial
  · rename_i keys d i hrep
    split at h
    · cases h
    · obtain ⟨ms, hms, h⟩ := bind_eq_ok.1 h
      simp at h; subst h
      rw [hrep] at hr
      simp only [rrepOK, Bool.and_eq_true] at hr
      exact ⟨reifyModifiers_known hF hc _ _ hms hr.1.1, hr.1.2, hr.2⟩

/-! ### assembling -/

/-- the part of `Mapping.saveable` that is not `Mapping.wf` -/
def savePart (m : TmVerif.Mapping) : Prop :=
  keysKnown m.frm = true ∧ keysKnown m.to = true ∧ keysKnown m.absorbing = true ∧
  m.absorbing.all (fun k => m.frm.dropLast.contains k) = true ∧ Repeat.saveable m.rep = true

theorem subset_all_contains {abs fm : List Key} {key : Key} (h : ∀ k ∈ abs, k ∈ fm) :
    abs.all (fun k => (fm ++ [key]).dropLast.contains k) = true := by
  simp only [List.dropLast_concat, List.all_eq_true, List.contains_eq_mem, decide_eq_true_eq]
  exact h

theorem convert_savePart {F : Fancy.Layout} (hF : layoutOK F = true) {L : TmVerif.Layout}
    (h : convert F = ok L) : ∀ m ∈ L, savePart m := by
  refine (convert_all (F := F) savePart (fun r => Repeat.saveable r = true) ?_ ?_ ?_ h).1
  · intro m r hm hr
    exact ⟨hm.1, hm.2.1, hm.2.2.1, hm.2.2.2.1, hr⟩
  · intro fm hfm sms hc m hm
    have hok := List.all_eq_true.1 hF fm hfm
    cases fm with
    | alias a =>
      simp only [mappingOK, Bool.and_eq_true] at hok
      simp only [convertMapping, convertAlias] at hc
      split at hc
      · simp at hc; subst hc; simp at hm; subst hm
        exact ⟨hok.1, hok.2, rfl, rfl, rfl⟩
      · simp at hc; subst hc; cases hm
    | single s =>
      simp only [mappingOK, Bool.and_eq_true] at hok
      obtain ⟨⟨⟨⟨⟨hmods, hkey⟩, hto⟩, hrep⟩, habs⟩, hao⟩ := hok
      obtain ⟨c, hb, hall⟩ := convertSingle_shape hc
      obtain ⟨hcomb, hcm⟩ := buildCombinations_ok hb
      obtain ⟨t, _, hone⟩ := hall m hm
      obtain ⟨fm, to, rep, abs, hfm', hto', hrep', habs', rfl⟩ := convertSingleOne_shape hone
      have hfmk : keysKnown fm = true := fromModifiersLoop_known hF hcomb _ 0 fm hfm' (by rw [hcm]; exact hmods)
      refine ⟨keysKnown_append.2 ⟨hfmk, by simp [keysKnown, hkey]⟩, translate_known hF hcomb hto' hto,
        reifyModifiers_known hF hcomb _ _ habs' habs, ?_, singleRepeat_saveable hF hcomb hrep' hrep⟩
      exact subset_all_contains (reifyModifiers_subset hcomb hfm' _ _ habs' (by rw [hcm]; exact hao))
    | row r =>
      simp only [mappingOK, Bool.and_eq_true] at hok
      obtain ⟨⟨⟨⟨hmods, htoi⟩, hrep⟩, habs⟩, hao⟩ := hok
      obtain ⟨c, hb, hall⟩ := convertRow_shape hc
      obtain ⟨hcomb, hcm⟩ := buildCombinations_ok hb
      obtain ⟨t, _, ms, hone, hmem⟩ := hall m hm
      obtain ⟨fm, tm, tpl, phys, hfm', htm, htpl, hphys, hsh⟩ := convertRowOne_shape hone
      obtain ⟨j, key, to, rep, abs, hkey, hto', hrep', habs', rfl⟩ := hsh m hmem
      have hfmk : keysKnown fm = true := fromModifiersLoop_known hF hcomb _ 0 fm hfm' (by rw [hcm]; exact hmods)
      have hkeyk : isKnownKey key = true :=
        List.all_eq_true.1 (physicalRow_known hphys) key (List.mem_of_getElem? hkey)
      refine ⟨keysKnown_append.2 ⟨hfmk, by simp [keysKnown, hkeyk]⟩,
        convertRowTo_known hto' (reifyModifiers_known hF hcomb _ _ htm htoi),
        reifyModifiers_known hF hcomb _ _ habs' habs, ?_,
        rowRepeatAt_saveable hrep' (rowRepeatTemplate_ok hF hcomb htpl hrep)⟩
      exact subset_all_contains (reifyModifiers_subset hcomb hfm' _ _ habs' (by rw [hcm]; exact hao))
    | repeatOnly s =>
      simp [convertMapping] at hc; subst hc; cases hm
  · intro s hs c hb t _ fm rep hfm' hrep'
    have hok := List.all_eq_true.1 hF _ hs
    simp only [mappingOK, Bool.and_eq_true] at hok
    obtain ⟨⟨hmods, hkey⟩, hrep⟩ := hok
    obtain ⟨hcomb, hcm⟩ := buildCombinations_ok hb
    have hfmk : keysKnown fm = true := fromModifiersLoop_known hF hcomb _ 0 fm hfm' (by rw [hcm]; exact hmods)
    have hsv := singleRepeat_saveable hF hcomb hrep' hrep
    have hk : keysKnown (fm ++ [s.frm.key]) = true := keysKnown_append.2 ⟨hfmk, by simp [keysKnown, hkey]⟩
    exact ⟨hsv, hk, hk, rfl, rfl, hsv⟩

end Convert

open Outcome in
/-- Every layout the loader can produce is saveable: C15 covers every layout that
`add_systemd_service` can be handed. -/
theorem load_saveable {j : Json} {L : Layout} (h : load j = ok L) : Saveable L = true := by
  obtain ⟨F, hF, hc⟩ := bind_eq_ok.1 h
  have hwf : Layout.wf L = true := convert_wf (parse_aliasFromNonempty hF) hc
  have hsp := Convert.convert_savePart (parse_layoutOK hF) hc
  simp only [Saveable, List.all_eq_true]
  intro m hm
  obtain ⟨h1, h2, h3, h4, h5⟩ := hsp m hm
  have hw : Mapping.wf m = true := List.all_eq_true.1 hwf m hm
  simp only [Mapping.saveable, hw, h1, h2, h3, h5, Bool.and_true, Bool.true_and]
  exact h4

end TmVerif
