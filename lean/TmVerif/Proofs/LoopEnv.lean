/-
The closed system "loop ∥ edge-triggered environment" (`Model/LoopEnv.lean`): a case-by-case
description of its answer steps (`AStep`, one constructor per arm of the Rust loop, derived from
`advance` and `Env.answer`), and its invariants.
-/
import TmVerif.Model.LoopEnv
import TmVerif.Proofs.LoopRun

namespace TmVerif

/-- the machine is in a state a real driver can bring it to: not `bad`, no failed call, and the
clock read for the poll timeout is pending only while repeating -/
def Wf (x : Machine) : Prop :=
  x.c ≠ Ctl.bad ∧ (∀ msg, x.c ≠ Ctl.done (some msg)) ∧ (x.c = Ctl.pollNow → x.v.rep ≠ WorkingRepeat.idle)

/-- the tablet mode after a tablet-switch event -/
def tabMode : TabletEv → Bool
  | TabletEv.on => true
  | TabletEv.off => false

/-- the answer steps of the closed system, arm by arm -/
inductive AStep (L : Layout) : Machine → Env → Resp → Machine → Env → Prop where
  | start (v : LoopVars) (e : Env) : AStep L ⟨v, Ctl.start⟩ e Resp.unit (toPollTop v) e
  | pollNow (v : LoopVars) (e : Env) (keys : List Key) (nw : Nat) (iv : Int) (now : Nat)
      (h : v.rep = WorkingRepeat.repeating keys nw iv) :
      AStep L ⟨v, Ctl.pollNow⟩ e (Resp.time now)
        ⟨v, Ctl.polling (some (if now ≥ nw then msToNs 1 else nw - now))⟩ e
  | timedOutIdle (v : LoopVars) (e : Env) (t : Option Nat) (hk : e.kflag = false) (ht : e.tflag = false)
      (h : v.rep = WorkingRepeat.idle) :
      AStep L ⟨v, Ctl.polling t⟩ e (Resp.poll PollRes.timedOut) (toPollTop v) e
  | timedOutTablet (v : LoopVars) (e : Env) (t : Option Nat) (hk : e.kflag = false) (ht : e.tflag = false)
      (keys : List Key) (nw : Nat) (iv : Int) (h : v.rep = WorkingRepeat.repeating keys nw iv)
      (hit : v.inTablet = true) :
      AStep L ⟨v, Ctl.polling t⟩ e (Resp.poll PollRes.timedOut) (toPollTop { v with rep := WorkingRepeat.idle }) e
  | timedOutQuiet (v : LoopVars) (e : Env) (t : Option Nat) (hk : e.kflag = false) (ht : e.tflag = false)
      (keys : List Key) (nw : Nat) (iv : Int) (h : v.rep = WorkingRepeat.repeating keys nw iv)
      (hit : v.inTablet = false) (hemp : (chordOf v.m keys).isEmpty = true) :
      AStep L ⟨v, Ctl.polling t⟩ e (Resp.poll PollRes.timedOut)
        (toPollTop { v with rep := WorkingRepeat.repeating keys (nw + msToNs (asU64 iv)) iv }) e
  | timedOutChord (v : LoopVars) (e : Env) (t : Option Nat) (hk : e.kflag = false) (ht : e.tflag = false)
      (keys : List Key) (nw : Nat) (iv : Int) (h : v.rep = WorkingRepeat.repeating keys nw iv)
      (hit : v.inTablet = false) (hemp : (chordOf v.m keys).isEmpty = false) :
      AStep L ⟨v, Ctl.polling t⟩ e (Resp.poll PollRes.timedOut)
        ⟨{ v with rep := WorkingRepeat.repeating keys (nw + msToNs (asU64 iv)) iv }, Ctl.sendChord (chordOf v.m keys)⟩ e
  | interruptedSleep (v : LoopVars) (e : Env) (t : Option Nat) (hk : e.kflag = false) (ht : e.tflag = false)
      (h : v.restartCount + 1 > 1) :
      AStep L ⟨v, Ctl.polling t⟩ e (Resp.poll PollRes.interrupted)
        ⟨{ v with restartCount := v.restartCount + 1 }, Ctl.sleeping (1000 * 2 ^ (v.restartCount + 1))⟩ e
  | interruptedTop (v : LoopVars) (e : Env) (t : Option Nat) (hk : e.kflag = false) (ht : e.tflag = false)
      (h : ¬ v.restartCount + 1 > 1) :
      AStep L ⟨v, Ctl.polling t⟩ e (Resp.poll PollRes.interrupted)
        (toPollTop { v with restartCount := v.restartCount + 1 }) e
  | deviceEvent (v : LoopVars) (e : Env) (t : Option Nat) (devs : List Dev) (hne : e.flagged ≠ [])
      (hd : devs = e.flagged ∨ devs = e.flagged.reverse) :
      AStep L ⟨v, Ctl.polling t⟩ e (Resp.poll (PollRes.deviceEvent devs))
        (drain { v with restartCount := 0 } devs) { e with kflag := false, tflag := false }
  | sendChord (v : LoopVars) (e : Env) (evs : List Event) :
      AStep L ⟨v, Ctl.sendChord evs⟩ e Resp.unit (toPollTop v) e
  | sleeping (v : LoopVars) (e : Env) (ms : Nat) : AStep L ⟨v, Ctl.sleeping ms⟩ e Resp.unit (toPollTop v) e
  | kbdBusy (v : LoopVars) (e : Env) (rest : List Dev) (hq : e.kq = []) (hg : e.kgone = false) :
      AStep L ⟨v, Ctl.readKbd rest⟩ e (Resp.kbd Next.busy) (drain v rest) e
  | kbdEnd (v : LoopVars) (e : Env) (rest : List Dev) (hq : e.kq = []) (hg : e.kgone = true) :
      AStep L ⟨v, Ctl.readKbd rest⟩ e (Resp.kbd Next.end_) ⟨v, Ctl.done none⟩ e
  | kbdOneTablet (v : LoopVars) (e : Env) (rest : List Dev) (ev : Event) (q : List Event) (hq : e.kq = ev :: q)
      (hit : v.inTablet = true) :
      AStep L ⟨v, Ctl.readKbd rest⟩ e (Resp.kbd (Next.one ev)) ⟨v, Ctl.readKbd rest⟩ { e with kq := q }
  | kbdOneQuiet (v : LoopVars) (e : Env) (rest : List Dev) (ev : Event) (q : List Event) (hq : e.kq = ev :: q)
      (hit : v.inTablet = false) (hemp : (step L v.m ev).2.events.isEmpty = true) :
      AStep L ⟨v, Ctl.readKbd rest⟩ e (Resp.kbd (Next.one ev))
        (afterStep { v with m := (step L v.m ev).1 } rest (step L v.m ev).2.rep) { e with kq := q }
  | kbdOneSend (v : LoopVars) (e : Env) (rest : List Dev) (ev : Event) (q : List Event) (hq : e.kq = ev :: q)
      (hit : v.inTablet = false) (hemp : (step L v.m ev).2.events.isEmpty = false) :
      AStep L ⟨v, Ctl.readKbd rest⟩ e (Resp.kbd (Next.one ev))
        ⟨{ v with m := (step L v.m ev).1 }, Ctl.sendStep rest (step L v.m ev).2.events (step L v.m ev).2.rep⟩
        { e with kq := q }
  | sendStep (v : LoopVars) (e : Env) (rest : List Dev) (evs : List Event) (rr : RRepeat) :
      AStep L ⟨v, Ctl.sendStep rest evs rr⟩ e Resp.unit (afterStep v rest rr) e
  | stepNow (v : LoopVars) (e : Env) (rest : List Dev) (keys : List Key) (d i : Int) (now : Nat) :
      AStep L ⟨v, Ctl.stepNow rest keys d i⟩ e (Resp.time now)
        ⟨{ v with rep := WorkingRepeat.repeating keys (now + msToNs (asU64 d)) i }, Ctl.readKbd rest⟩ e
  | tabBusy (v : LoopVars) (e : Env) (rest : List Dev) (hq : e.tq = []) (hg : e.tgone = false) :
      AStep L ⟨v, Ctl.readTab rest⟩ e (Resp.tab Next.busy) (drain v rest) e
  | tabEnd (v : LoopVars) (e : Env) (rest : List Dev) (hq : e.tq = []) (hg : e.tgone = true) :
      AStep L ⟨v, Ctl.readTab rest⟩ e (Resp.tab Next.end_) ⟨v, Ctl.done none⟩ e
  | tabOneQuiet (v : LoopVars) (e : Env) (rest : List Dev) (tev : TabletEv) (q : List TabletEv) (hq : e.tq = tev :: q)
      (hemp : (releaseAll L v.m).2.isEmpty = true) :
      AStep L ⟨v, Ctl.readTab rest⟩ e (Resp.tab (Next.one tev))
        ⟨{ v with m := (releaseAll L v.m).1, rep := WorkingRepeat.idle,
                  inTablet := tabMode tev }, Ctl.readTab rest⟩
        { e with tq := q }
  | tabOneSend (v : LoopVars) (e : Env) (rest : List Dev) (tev : TabletEv) (q : List TabletEv) (hq : e.tq = tev :: q)
      (hemp : (releaseAll L v.m).2.isEmpty = false) :
      AStep L ⟨v, Ctl.readTab rest⟩ e (Resp.tab (Next.one tev))
        ⟨{ v with m := (releaseAll L v.m).1, rep := WorkingRepeat.idle,
                  inTablet := tabMode tev },
         Ctl.sendRel rest (releaseAll L v.m).2⟩
        { e with tq := q }
  | sendRel (v : LoopVars) (e : Env) (rest : List Dev) (evs : List Event) :
      AStep L ⟨v, Ctl.sendRel rest evs⟩ e Resp.unit ⟨v, Ctl.readTab rest⟩ e

/-- every answer step of the closed system (from a well-formed machine) is one of the arms -/
theorem astep_of_answer {L : Layout} {x : Machine} {e e' : Env} {c : Call} {r : Resp} (hw : Wf x)
    (hp : pending x = some c) (ha : e.answer c r = some e') : AStep L x e r (advance L x r) e' := by
  obtain ⟨v, ct⟩ := x
  cases ct <;> simp only [pending, Option.some.injEq, reduceCtorEq] at hp <;> subst hp
  · -- start
    cases r <;> simp [Env.answer] at ha
    subst ha; exact AStep.start v e
  · -- pollNow
    cases r <;> simp [Env.answer] at ha
    subst ha
    rename_i now
    cases hrep : v.rep with
    | idle => exact absurd hrep (hw.2.2 rfl)
    | repeating keys nw iv => rw [adv_pollNow L v hrep]; exact AStep.pollNow v e keys nw iv now hrep
  · -- polling
    rename_i t
    cases r <;> simp [Env.answer] at ha
    rename_i p
    cases p with
    | deviceEvent devs =>
      simp only [Env.pollAns] at ha
      split at ha
      · rename_i hc
        simp only [Option.some.injEq] at ha; subst ha
        rw [adv_deviceEvent]; exact AStep.deviceEvent v e t devs hc.1 hc.2
      · cases ha
    | timedOut =>
      simp only [Env.pollAns] at ha
      split at ha
      · rename_i hc
        simp only [Option.some.injEq] at ha; subst ha
        cases hrep : v.rep with
        | idle => rw [adv_timedOut_idle L v hrep]; exact AStep.timedOutIdle v e t hc.1 hc.2 hrep
        | repeating keys nw iv =>
          cases hit : v.inTablet with
          | true => rw [adv_timedOut_tablet L v hrep hit]; exact AStep.timedOutTablet v e t hc.1 hc.2 keys nw iv hrep hit
          | false =>
            rw [adv_timedOut_chord L v hrep hit]
            cases hemp : (chordOf v.m keys).isEmpty with
            | true => simp only [if_true]; exact AStep.timedOutQuiet v e t hc.1 hc.2 keys nw iv hrep hit hemp
            | false =>
              simp only [Bool.false_eq_true, if_false]
              exact AStep.timedOutChord v e t hc.1 hc.2 keys nw iv hrep hit hemp
      · cases ha
    | interrupted =>
      simp only [Env.pollAns] at ha
      split at ha
      · rename_i hc
        simp only [Option.some.injEq] at ha; subst ha
        rw [adv_interrupted]
        by_cases h : v.restartCount + 1 > 1
        · simp only [h, if_true]; exact AStep.interruptedSleep v e t hc.1 hc.2 h
        · simp only [h, if_false]; exact AStep.interruptedTop v e t hc.1 hc.2 h
      · cases ha
  · -- sendChord
    cases r <;> simp [Env.answer] at ha
    subst ha; exact AStep.sendChord v e _
  · -- sleeping
    cases r <;> simp [Env.answer] at ha
    subst ha; exact AStep.sleeping v e _
  · -- readKbd
    rename_i rest
    cases r <;> simp [Env.answer] at ha
    rename_i n
    cases n with
    | busy =>
      simp only [Env.nextKbd] at ha
      split at ha
      · rename_i hc
        simp only [Option.some.injEq] at ha; subst ha
        exact AStep.kbdBusy v e rest hc.1 hc.2
      · cases ha
    | end_ =>
      simp only [Env.nextKbd] at ha
      split at ha
      · rename_i hc
        simp only [Option.some.injEq] at ha; subst ha
        exact AStep.kbdEnd v e rest hc.1 hc.2
      · cases ha
    | one ev =>
      simp only [Env.nextKbd] at ha
      cases hq : e.kq with
      | nil => simp [hq] at ha
      | cons ev' q =>
        simp only [hq] at ha
        split at ha
        · rename_i hev
          subst hev
          simp only [Option.some.injEq] at ha; subst ha
          cases hit : v.inTablet with
          | true => rw [adv_kbd_one_tablet L v hit]; exact AStep.kbdOneTablet v e rest ev q hq hit
          | false =>
            rw [adv_kbd_one L v hit]
            cases hemp : (step L v.m ev).2.events.isEmpty with
            | true => simp only [if_true]; exact AStep.kbdOneQuiet v e rest ev q hq hit hemp
            | false =>
              simp only [Bool.false_eq_true, if_false]
              exact AStep.kbdOneSend v e rest ev q hq hit hemp
        · cases ha
  · -- sendStep
    cases r <;> simp [Env.answer] at ha
    subst ha; exact AStep.sendStep v e _ _ _
  · -- stepNow
    cases r <;> simp [Env.answer] at ha
    subst ha; exact AStep.stepNow v e _ _ _ _ _
  · -- readTab
    rename_i rest
    cases r <;> simp [Env.answer] at ha
    rename_i n
    cases n with
    | busy =>
      simp only [Env.nextTab] at ha
      split at ha
      · rename_i hc
        simp only [Option.some.injEq] at ha; subst ha
        exact AStep.tabBusy v e rest hc.1 hc.2
      · cases ha
    | end_ =>
      simp only [Env.nextTab] at ha
      split at ha
      · rename_i hc
        simp only [Option.some.injEq] at ha; subst ha
        exact AStep.tabEnd v e rest hc.1 hc.2
      · cases ha
    | one tev =>
      simp only [Env.nextTab] at ha
      cases hq : e.tq with
      | nil => simp [hq] at ha
      | cons tev' q =>
        simp only [hq] at ha
        split at ha
        · rename_i hev
          subst hev
          simp only [Option.some.injEq] at ha; subst ha
          rw [adv_tab_one]
          cases hemp : (releaseAll L v.m).2.isEmpty with
          | true => simp only [if_true]; cases tev <;> exact AStep.tabOneQuiet v e rest _ q hq hemp
          | false =>
            simp only [Bool.false_eq_true, if_false]
            cases tev <;> exact AStep.tabOneSend v e rest _ q hq hemp
        · cases ha
  · -- sendRel
    cases r <;> simp [Env.answer] at ha
    subst ha; exact AStep.sendRel v e _ _

/-! ### The readiness invariant -/

/-- the keyboard is being drained, or is among the devices still to be drained in this wake-up -/
def Ctl.wk : Ctl → Bool
  | Ctl.readKbd _ => true
  | Ctl.sendStep _ _ _ => true
  | Ctl.stepNow _ _ _ _ => true
  | Ctl.readTab rest => rest.contains Dev.keyboard
  | Ctl.sendRel rest _ => rest.contains Dev.keyboard
  | _ => false

/-- the tablet switch is being drained, or is among the devices still to be drained in this wake-up -/
def Ctl.wt : Ctl → Bool
  | Ctl.readTab _ => true
  | Ctl.sendRel _ _ => true
  | Ctl.readKbd rest => rest.contains Dev.tablet
  | Ctl.sendStep rest _ _ => rest.contains Dev.tablet
  | Ctl.stepNow rest _ _ _ => rest.contains Dev.tablet
  | _ => false

/-- the loop has returned -/
def Ctl.finished : Ctl → Bool
  | Ctl.done _ => true
  | Ctl.bad => true
  | _ => false

theorem toPollTop_facts (v : LoopVars) : (toPollTop v).v = v ∧ (toPollTop v).c.wk = false ∧ (toPollTop v).c.wt = false ∧
    (toPollTop v).c.finished = false ∧ Wf (toPollTop v) ∧ (toPollTop v).c.isPollTop = true := by
  unfold toPollTop Wf
  cases h : v.rep <;> simp [Ctl.wk, Ctl.wt, Ctl.finished, Ctl.isPollTop, h]

theorem drain_facts (v : LoopVars) (devs : List Dev) : (drain v devs).v = v ∧
    (drain v devs).c.wk = devs.contains Dev.keyboard ∧ (drain v devs).c.wt = devs.contains Dev.tablet ∧
    (drain v devs).c.finished = false ∧ Wf (drain v devs) := by
  cases devs with
  | nil => have t := toPollTop_facts v; simp [drain, t]
  | cons d rest => cases d <;> simp [drain, Ctl.wk, Ctl.wt, Ctl.finished, Wf]

theorem afterStep_facts (v : LoopVars) (rest : List Dev) (rr : RRepeat) :
    (afterStep v rest rr).v.m = v.m ∧ (afterStep v rest rr).v.inTablet = v.inTablet ∧
    (afterStep v rest rr).c.wk = true ∧ (afterStep v rest rr).c.wt = rest.contains Dev.tablet ∧
    (afterStep v rest rr).c.finished = false ∧ Wf (afterStep v rest rr) := by
  cases rr <;> simp [afterStep, Ctl.wk, Ctl.wt, Ctl.finished, Wf]

theorem flagged_facts (e : Env) :
    e.flagged.contains Dev.keyboard = e.kflag ∧ e.flagged.contains Dev.tablet = e.tflag ∧
    e.flagged.reverse.contains Dev.keyboard = e.kflag ∧ e.flagged.reverse.contains Dev.tablet = e.tflag ∧
    e.flagged.length ≤ 2 := by
  cases hk : e.kflag <;> cases ht : e.tflag <;> simp [Env.flagged, hk, ht]

/-- the invariant of the closed system: a device with unread events (or gone, unreported) has its
readiness flag set, or is still to be drained in the current wake-up — unless the loop has returned -/
structure EnvInv (x : Machine) (e : Env) : Prop where
  wf : Wf x
  kbd : x.c.finished = true ∨ ((e.kq ≠ [] ∨ e.kgone = true) → (e.kflag = true ∨ x.c.wk = true))
  tab : x.c.finished = true ∨ ((e.tq ≠ [] ∨ e.tgone = true) → (e.tflag = true ∨ x.c.wt = true))

theorem EnvInv.answer {L : Layout} {x x' : Machine} {e e' : Env} {r : Resp} (h : EnvInv x e)
    (hs : AStep L x e r x' e') : EnvInv x' e' := by
  obtain ⟨hw, hk, ht⟩ := h
  cases hs
  case deviceEvent v t devs hne hd =>
    have f := flagged_facts e
    refine ⟨(drain_facts _ _).2.2.2.2, Or.inr ?_, Or.inr ?_⟩
    · simp only [drain_facts]
      rcases hd with rfl | rfl <;> simp_all [Ctl.wk, Ctl.finished]
    · simp only [drain_facts]
      rcases hd with rfl | rfl <;> simp_all [Ctl.wt, Ctl.finished]
  all_goals
    (refine ⟨?_, ?_, ?_⟩ <;> (try simp only [toPollTop_facts, drain_facts, afterStep_facts]) <;>
      simp_all [Ctl.wk, Ctl.wt, Ctl.finished, Wf])

theorem EnvInv.arrive {x : Machine} {e e' : Env} (h : EnvInv x e) (ha : e.arrive = some e') : EnvInv x e' := by
  obtain ⟨hw, hk, ht⟩ := h
  unfold Env.arrive at ha
  split at ha <;> simp only [Option.some.injEq, reduceCtorEq] at ha <;> subst ha <;>
    exact ⟨hw, by simp_all, by simp_all⟩

theorem EnvInv.init {L : Layout} {x0 : Machine} (h0 : Machine.init L = some x0) (sched : List Arrival) :
    EnvInv x0 (Env.init sched) := by
  unfold Machine.init at h0
  split at h0 <;> simp only [Option.some.injEq, reduceCtorEq] at h0
  subst h0
  exact ⟨by simp [Wf], by simp [Env.init], by simp [Env.init]⟩

/-- one move of the closed system preserves the invariant -/
theorem EnvInv.cmove {L : Layout} {s s' : Machine × Env} {m : Move} (h : EnvInv s.1 s.2)
    (hm : TmVerif.cmove L s m = some s') : EnvInv s'.1 s'.2 := by
  cases m with
  | arrive =>
    simp only [TmVerif.cmove, Option.map_eq_some_iff] at hm
    obtain ⟨e', he, rfl⟩ := hm
    exact h.arrive he
  | answer r =>
    simp only [TmVerif.cmove] at hm
    cases hp : pending s.1 with
    | none => simp [hp] at hm
    | some c =>
      simp only [hp, Option.map_eq_some_iff] at hm
      obtain ⟨e', he, rfl⟩ := hm
      exact h.answer (astep_of_answer h.wf hp he)

theorem EnvInv.creach {L : Layout} {s0 s : Machine × Env} (h : EnvInv s0.1 s0.2) (hr : CReach L s0 s) :
    EnvInv s.1 s.2 := by
  induction hr with
  | refl => exact h
  | step _ hs ih => obtain ⟨m, hm⟩ := hs; exact ih.cmove hm

/-! ### What the loop has read: the read log, FIFO conservation, and the link to the ghost operations -/

/-- the tablet mode after a read log, starting from mode `b` -/
def modeOfLog : Bool → List Item → Bool
  | b, [] => b
  | b, Item.kbd _ :: is => modeOfLog b is
  | _, Item.tab tev :: is => modeOfLog (tabMode tev) is

/-- the mapper operations the loop performs for a read log, starting in tablet mode `b`: a step per
keyboard event read outside tablet mode (in tablet mode keyboard events are dropped, C12), a
release-all per tablet-switch event -/
def opsOfLog : Bool → List Item → List Op
  | _, [] => []
  | b, Item.kbd ev :: is => (if b then [] else [Op.ev ev]) ++ opsOfLog b is
  | _, Item.tab tev :: is => Op.relAll :: opsOfLog (tabMode tev) is

theorem modeOfLog_snoc_kbd (b : Bool) (lg : List Item) (ev : Event) :
    modeOfLog b (lg ++ [Item.kbd ev]) = modeOfLog b lg := by
  induction lg generalizing b with
  | nil => rfl
  | cons i is ih => cases i <;> simp [modeOfLog, ih]

theorem modeOfLog_snoc_tab (b : Bool) (lg : List Item) (tev : TabletEv) :
    modeOfLog b (lg ++ [Item.tab tev]) = tabMode tev := by
  induction lg generalizing b with
  | nil => rfl
  | cons i is ih => cases i <;> simp [modeOfLog, ih]

theorem opsOfLog_snoc_kbd (b : Bool) (lg : List Item) (ev : Event) :
    opsOfLog b (lg ++ [Item.kbd ev]) = opsOfLog b lg ++ (if modeOfLog b lg then [] else [Op.ev ev]) := by
  induction lg generalizing b with
  | nil => cases b <;> simp [opsOfLog, modeOfLog]
  | cons i is ih => cases i <;> simp only [opsOfLog, modeOfLog, ih, List.cons_append, List.append_assoc] <;> rfl

theorem opsOfLog_snoc_tab (b : Bool) (lg : List Item) (tev : TabletEv) :
    opsOfLog b (lg ++ [Item.tab tev]) = opsOfLog b lg ++ [Op.relAll] := by
  induction lg generalizing b with
  | nil => simp [opsOfLog]
  | cons i is ih => cases i <;> simp [opsOfLog, ih]

theorem kbdOf_append (a b : List Item) : kbdOf (a ++ b) = kbdOf a ++ kbdOf b := by
  induction a with
  | nil => rfl
  | cons i is ih => cases i <;> simp [kbdOf, ih]

theorem tabOf_append (a b : List Item) : tabOf (a ++ b) = tabOf a ++ tabOf b := by
  induction a with
  | nil => rfl
  | cons i is ih => cases i <;> simp [tabOf, ih]

/-- a log without tablet-switch events: the operations are the steps for its keyboard events -/
theorem opsOfLog_kbdOnly (lg : List Item) (h : tabOf lg = []) : opsOfLog false lg = (kbdOf lg).map Op.ev := by
  induction lg with
  | nil => rfl
  | cons i is ih =>
    cases i with
    | kbd ev => simp [opsOfLog, kbdOf, ih (by simpa [tabOf] using h)]
    | tab tev => simp [tabOf] at h

/-- what one answer adds to the read log -/
def logStep (x : Machine) (r : Resp) (lg : List Item) : List Item :=
  match x.c, r with
  | Ctl.readKbd _, Resp.kbd (Next.one ev) => lg ++ [Item.kbd ev]
  | Ctl.readTab _, Resp.tab (Next.one tev) => lg ++ [Item.tab tev]
  | _, _ => lg

/-- the read log of a run against a script (same recursion as `runG`) -/
def runLog (L : Layout) : Machine → List Item → List Resp → List Item
  | _, lg, [] => lg
  | x, lg, r :: rs =>
    match pending x with
    | none => lg
    | some _ => runLog L (advance L x r) (logStep x r lg) rs

/-- FIFO conservation (read ++ queued ++ not yet arrived = the history, per device) and the link
between the read log, the ghost operations and the loop's tablet mode -/
structure FifoInv (K : List Event) (T : List TabletEv) (x : Machine) (e : Env) (g : Ghost) (lg : List Item) : Prop where
  kcons : kbdOf lg ++ (e.kq ++ kbdHist e.rest) = K
  tcons : tabOf lg ++ (e.tq ++ tabHist e.rest) = T
  ops : g.ops = opsOfLog false lg
  mode : x.v.inTablet = modeOfLog false lg

theorem FifoInv.answer {L : Layout} {K : List Event} {T : List TabletEv} {x x' : Machine} {e e' : Env} {r : Resp}
    {g : Ghost} {lg : List Item} (h : FifoInv K T x e g lg) (hs : AStep L x e r x' e') :
    FifoInv K T x' e' (ghostStep x r g) (logStep x r lg) := by
  obtain ⟨hk, ht, ho, hm⟩ := h
  cases hs
  all_goals
    (refine ⟨?_, ?_, ?_, ?_⟩ <;> (try simp only [toPollTop_facts, drain_facts, afterStep_facts]) <;>
      simp_all [ghostStep, logStep, kbdOf_append, tabOf_append, kbdOf, tabOf, opsOfLog_snoc_kbd, opsOfLog_snoc_tab,
        modeOfLog_snoc_kbd, modeOfLog_snoc_tab])

theorem FifoInv.arrive {K : List Event} {T : List TabletEv} {x : Machine} {e e' : Env} {g : Ghost} {lg : List Item}
    (h : FifoInv K T x e g lg) (ha : e.arrive = some e') : FifoInv K T x e' g lg := by
  obtain ⟨hk, ht, ho, hm⟩ := h
  unfold Env.arrive at ha
  split at ha <;> simp only [Option.some.injEq, reduceCtorEq] at ha <;> subst ha <;>
    (refine ⟨?_, ?_, ho, hm⟩ <;> simp_all [kbdHist, tabHist])

theorem FifoInv.init {L : Layout} {x0 : Machine} (h0 : Machine.init L = some x0) (sched : List Arrival) :
    FifoInv (kbdHist sched) (tabHist sched) x0 (Env.init sched) Ghost.init [] := by
  unfold Machine.init at h0
  split at h0 <;> simp only [Option.some.injEq, reduceCtorEq] at h0
  subst h0
  exact ⟨by simp [Env.init, kbdOf], by simp [Env.init, tabOf], rfl, rfl⟩

/-- the environment never answers with a failure -/
theorem answer_err (e : Env) (c : Call) (msg : String) : e.answer c (Resp.err msg) = none := by
  cases c <;> rfl

/-- along a closed-system run: the machine and the ghost account are those of the open model run
against the answers of the run; both invariants hold at the end; no answer is a failure -/
theorem crun_inv {L : Layout} {K : List Event} {T : List TabletEv} (ms : List Move) :
    ∀ (x : Machine) (e : Env) (g : Ghost) (lg : List Item) (x' : Machine) (e' : Env),
      EnvInv x e → FifoInv K T x e g lg → crun L (x, e) ms = some (x', e') →
      runG L x g (answers ms) = (x', (runG L x g (answers ms)).2) ∧ EnvInv x' e' ∧
      FifoInv K T x' e' (runG L x g (answers ms)).2 (runLog L x lg (answers ms)) ∧
      noErr (answers ms) = true := by
  induction ms with
  | nil =>
    intro x e g lg x' e' hi hf hr
    simp only [crun, Option.some.injEq, Prod.mk.injEq] at hr
    obtain ⟨rfl, rfl⟩ := hr
    exact ⟨rfl, hi, hf, rfl⟩
  | cons m ms ih =>
    intro x e g lg x' e' hi hf hr
    simp only [crun, Option.bind_eq_some_iff] at hr
    obtain ⟨s1, hm, hr⟩ := hr
    cases m with
    | arrive =>
      simp only [cmove, Option.map_eq_some_iff] at hm
      obtain ⟨e1, he, rfl⟩ := hm
      exact ih x e1 g lg x' e' (hi.arrive he) (hf.arrive he) hr
    | answer r =>
      simp only [cmove] at hm
      cases hp : pending x with
      | none => simp [hp] at hm
      | some c =>
        simp only [hp, Option.map_eq_some_iff] at hm
        obtain ⟨e1, he, rfl⟩ := hm
        have hs := astep_of_answer (L := L) hi.wf hp he
        have hne : ∀ msg, r ≠ Resp.err msg := by
          intro msg hr'; subst hr'; rw [answer_err] at he; cases he
        have := ih _ e1 _ _ x' e' (hi.answer hs) (hf.answer hs) hr
        simp only [answers, runG, runLog, hp]
        refine ⟨this.1, this.2.1, this.2.2.1, ?_⟩
        cases r <;> first | exact this.2.2.2 | exact absurd rfl (hne _)

/-! ### Runs and reachability -/

theorem crun_append (L : Layout) (s : Machine × Env) (a b : List Move) :
    crun L s (a ++ b) = (crun L s a).bind (fun s' => crun L s' b) := by
  induction a generalizing s with
  | nil => simp [crun]
  | cons m ms ih =>
    simp only [List.cons_append, crun]
    cases cmove L s m with
    | none => rfl
    | some s1 => simp [ih]

/-- reachable = reached by some list of moves -/
theorem creach_iff_crun (L : Layout) (s0 s : Machine × Env) : CReach L s0 s ↔ ∃ ms, crun L s0 ms = some s := by
  constructor
  · intro h
    induction h with
    | refl => exact ⟨[], rfl⟩
    | step _ hs ih =>
      obtain ⟨ms, hms⟩ := ih
      obtain ⟨m, hm⟩ := hs
      exact ⟨ms ++ [m], by simp [crun_append, hms, crun, hm]⟩
  · rintro ⟨ms, hms⟩
    induction ms generalizing s0 with
    | nil => simp only [crun, Option.some.injEq] at hms; subst hms; exact CReach.refl
    | cons m ms ih =>
      simp only [crun, Option.bind_eq_some_iff] at hms
      obtain ⟨s1, hm, hr⟩ := hms
      have h1 := ih s1 hr
      clear ih hr
      induction h1 with
      | refl => exact CReach.step CReach.refl ⟨m, hm⟩
      | step _ hs ih' => exact CReach.step ih' hs

/-! ### Progress: a variant that every answer decreases until the loop is at rest -/

/-- an upper bound on the number of answers the loop needs, from this control state, to get back to
`poll` if every read it makes answers `Busy` -/
def Ctl.rank : Ctl → Nat
  | Ctl.polling _ => 0
  | Ctl.pollNow => 1
  | Ctl.start => 2
  | Ctl.sendChord _ => 2
  | Ctl.sleeping _ => 2
  | Ctl.readKbd rest => rest.length + 3
  | Ctl.stepNow rest _ _ _ => rest.length + 4
  | Ctl.sendStep rest _ _ => rest.length + 5
  | Ctl.readTab rest => rest.length + 3
  | Ctl.sendRel rest _ => rest.length + 4
  | Ctl.done _ => 0
  | Ctl.bad => 0

/-- the variant: 3 answers per queued event (read, send, clock), the rank of the control state, and 5
more if a flag is set (one more `DeviceEvent` wake-up: the poll, a `Busy` per device, the way back) -/
def cmeasure (s : Machine × Env) : Nat :=
  3 * (s.2.kq.length + s.2.tq.length) + s.1.c.rank + (if s.2.kflag = true ∨ s.2.tflag = true then 5 else 0)

theorem cmeasure_mk (x : Machine) (e : Env) : cmeasure (x, e) =
    3 * (e.kq.length + e.tq.length) + x.c.rank + (if e.kflag = true ∨ e.tflag = true then 5 else 0) := rfl

theorem toPollTop_rank (v : LoopVars) : (toPollTop v).c.rank ≤ 1 := by
  unfold toPollTop; cases v.rep <;> simp [Ctl.rank]

theorem drain_rank (v : LoopVars) (devs : List Dev) : (drain v devs).c.rank ≤ devs.length + 2 := by
  cases devs with
  | nil => have := toPollTop_rank v; simp only [drain, List.length_nil]; omega
  | cons d rest => cases d <;> simp [drain, Ctl.rank]

theorem afterStep_rank (v : LoopVars) (rest : List Dev) (rr : RRepeat) : (afterStep v rest rr).c.rank ≤ rest.length + 4 := by
  cases rr <;> simp [afterStep, Ctl.rank]

/-- every answer given to a loop that is not at a quiescent `poll` decreases the variant -/
theorem astep_decreases {L : Layout} {x x' : Machine} {e e' : Env} {r : Resp} (hs : AStep L x e r x' e')
    (hnq : ¬ Quiescent (x, e)) : cmeasure (x', e') < cmeasure (x, e) := by
  cases hs
  case deviceEvent v t devs hne hd =>
    have f := flagged_facts e
    have hl : devs.length ≤ 2 := by rcases hd with rfl | rfl <;> simp [f.2.2.2.2]
    have hfl : e.kflag = true ∨ e.tflag = true := by
      cases hk : e.kflag <;> cases ht : e.tflag <;> simp_all [Env.flagged]
    have hd' := drain_rank { v with restartCount := 0 } devs
    simp only [cmeasure_mk]
    generalize (drain { v with restartCount := 0 } devs).c.rank = k at hd' ⊢
    simp only [hfl, if_true, Ctl.rank]
    simp
    omega
  case start v =>
    have h1 := toPollTop_rank v
    simp only [cmeasure_mk]
    generalize (toPollTop v).c.rank = k at h1 ⊢
    simp only [Ctl.rank]; omega
  case sendChord v evs =>
    have h1 := toPollTop_rank v
    simp only [cmeasure_mk]
    generalize (toPollTop v).c.rank = k at h1 ⊢
    simp only [Ctl.rank]; omega
  case sleeping v ms =>
    have h1 := toPollTop_rank v
    simp only [cmeasure_mk]
    generalize (toPollTop v).c.rank = k at h1 ⊢
    simp only [Ctl.rank]; omega
  case pollNow => simp only [cmeasure_mk, Ctl.rank]; omega
  case timedOutIdle => exact absurd ⟨rfl, by assumption, by assumption⟩ hnq
  case timedOutTablet => exact absurd ⟨rfl, by assumption, by assumption⟩ hnq
  case timedOutQuiet => exact absurd ⟨rfl, by assumption, by assumption⟩ hnq
  case timedOutChord => exact absurd ⟨rfl, by assumption, by assumption⟩ hnq
  case interruptedSleep => exact absurd ⟨rfl, by assumption, by assumption⟩ hnq
  case interruptedTop => exact absurd ⟨rfl, by assumption, by assumption⟩ hnq
  case kbdBusy v rest hq hg =>
    have h1 := drain_rank v rest
    simp only [cmeasure_mk]
    generalize (drain v rest).c.rank = k at h1 ⊢
    simp only [Ctl.rank]; omega
  case tabBusy v rest hq hg =>
    have h1 := drain_rank v rest
    simp only [cmeasure_mk]
    generalize (drain v rest).c.rank = k at h1 ⊢
    simp only [Ctl.rank]; omega
  case kbdEnd => simp only [cmeasure_mk, Ctl.rank]; omega
  case tabEnd => simp only [cmeasure_mk, Ctl.rank]; omega
  case kbdOneTablet v rest ev q _ _ =>
    have hq : e.kq = ev :: q := by assumption
    simp only [cmeasure_mk, Ctl.rank, hq, List.length_cons]; omega
  case kbdOneQuiet v rest ev q _ _ _ =>
    have hq : e.kq = ev :: q := by assumption
    have h1 := afterStep_rank { v with m := (step L v.m ev).1 } rest (step L v.m ev).2.rep
    simp only [cmeasure_mk]
    generalize (afterStep { v with m := (step L v.m ev).1 } rest (step L v.m ev).2.rep).c.rank = k at h1 ⊢
    simp only [Ctl.rank, hq, List.length_cons]; omega
  case kbdOneSend v rest ev q _ _ _ =>
    have hq : e.kq = ev :: q := by assumption
    simp only [cmeasure_mk, Ctl.rank, hq, List.length_cons]; omega
  case sendStep v rest evs rr =>
    have h1 := afterStep_rank v rest rr
    simp only [cmeasure_mk]
    generalize (afterStep v rest rr).c.rank = k at h1 ⊢
    simp only [Ctl.rank]; omega
  case stepNow => simp only [cmeasure_mk, Ctl.rank]; omega
  case tabOneQuiet v rest tev q _ _ =>
    have hq : e.tq = tev :: q := by assumption
    simp only [cmeasure_mk, Ctl.rank, hq, List.length_cons]; omega
  case tabOneSend v rest tev q _ _ =>
    have hq : e.tq = tev :: q := by assumption
    simp only [cmeasure_mk, Ctl.rank, hq, List.length_cons]; omega
  case sendRel => simp only [cmeasure_mk, Ctl.rank]; omega

/-- the environment can answer every call -/
theorem can_answer (e : Env) (c : Call) : ∃ r e', e.answer c r = some e' := by
  cases c with
  | registerPoll => exact ⟨Resp.unit, e, rfl⟩
  | now => exact ⟨Resp.time 0, e, rfl⟩
  | send k evs => exact ⟨Resp.unit, e, rfl⟩
  | sleep ms => exact ⟨Resp.unit, e, rfl⟩
  | poll t =>
    by_cases h : e.kflag = false ∧ e.tflag = false
    · exact ⟨Resp.poll PollRes.timedOut, e, by simp [Env.answer, Env.pollAns, h]⟩
    · refine ⟨Resp.poll (PollRes.deviceEvent e.flagged), { e with kflag := false, tflag := false }, ?_⟩
      have : e.flagged ≠ [] := by
        cases hk : e.kflag <;> cases ht : e.tflag <;> simp_all [Env.flagged]
      simp [Env.answer, Env.pollAns, this]
  | nextKeyboard =>
    cases hq : e.kq with
    | cons ev q => exact ⟨Resp.kbd (Next.one ev), { e with kq := q }, by simp [Env.answer, Env.nextKbd, hq]⟩
    | nil =>
      cases hg : e.kgone with
      | false => exact ⟨Resp.kbd Next.busy, e, by simp [Env.answer, Env.nextKbd, hq, hg]⟩
      | true => exact ⟨Resp.kbd Next.end_, e, by simp [Env.answer, Env.nextKbd, hq, hg]⟩
  | nextTablet =>
    cases hq : e.tq with
    | cons ev q => exact ⟨Resp.tab (Next.one ev), { e with tq := q }, by simp [Env.answer, Env.nextTab, hq]⟩
    | nil =>
      cases hg : e.tgone with
      | false => exact ⟨Resp.tab Next.busy, e, by simp [Env.answer, Env.nextTab, hq, hg]⟩
      | true => exact ⟨Resp.tab Next.end_, e, by simp [Env.answer, Env.nextTab, hq, hg]⟩

/-- the loop is at a quiescent `poll`, or has returned `Ok(())` -/
def Rests (s : Machine × Env) : Prop := Quiescent s ∨ s.1.c = Ctl.done none

instance (s : Machine × Env) : Decidable (Rests s) := by unfold Rests; exact inferInstance

/-- a well-formed machine that has not returned `Ok(())` is blocked on a call -/
theorem pending_of_wf {x : Machine} (hw : Wf x) (hnd : x.c ≠ Ctl.done none) : ∃ c, pending x = some c := by
  obtain ⟨v, c⟩ := x
  cases c <;> simp [pending] <;> simp_all [Wf]
  rename_i err
  cases err <;> simp_all

/-- a state that is not at rest has a positive variant -/
theorem cmeasure_pos {L : Layout} {s : Machine × Env} (hi : EnvInv s.1 s.2) (hnr : ¬ Rests s) : 0 < cmeasure s := by
  obtain ⟨x, e⟩ := s
  obtain ⟨c, hp⟩ := pending_of_wf hi.wf (fun h => hnr (Or.inr h))
  obtain ⟨r, e', he⟩ := can_answer e c
  have := astep_decreases (astep_of_answer (L := L) (x := x) hi.wf hp he) (fun h => hnr (Or.inl h))
  omega

/-- existence: without further arrivals the loop can come to rest within `cmeasure` answers -/
theorem rests_exists (L : Layout) : ∀ (n : Nat) (s : Machine × Env), EnvInv s.1 s.2 → cmeasure s ≤ n →
    ∃ ms, Move.arrive ∉ ms ∧ ms.length ≤ n ∧ ∃ s', crun L s ms = some s' ∧ Rests s' := by
  intro n
  induction n with
  | zero =>
    intro s hi hn
    by_cases hr : Rests s
    · exact ⟨[], by simp, by simp, s, rfl, hr⟩
    · have := cmeasure_pos (L := L) hi hr; omega
  | succ n ih =>
    intro s hi hn
    by_cases hr : Rests s
    · exact ⟨[], by simp, by simp, s, rfl, hr⟩
    · obtain ⟨x, e⟩ := s
      replace hi : EnvInv x e := hi
      obtain ⟨c, hp⟩ := pending_of_wf hi.wf (fun h => hr (Or.inr h))
      obtain ⟨r, e', he⟩ := can_answer e c
      have hs := astep_of_answer (L := L) hi.wf hp he
      have hd := astep_decreases hs (fun h => hr (Or.inl h))
      obtain ⟨ms, hna, hl, s', hrun, hrest⟩ := ih (advance L x r, e') (hi.answer hs) (by omega)
      refine ⟨Move.answer r :: ms, by simpa using hna, by simp; omega, s', ?_, hrest⟩
      simp [crun, cmove, hp, he, hrun]

/-- inevitability: without further arrivals EVERY continuation comes to rest within `cmeasure` answers -/
theorem rests_all (L : Layout) : ∀ (n : Nat) (s s' : Machine × Env) (ms : List Move), EnvInv s.1 s.2 → cmeasure s ≤ n →
    Move.arrive ∉ ms → crun L s ms = some s' → n ≤ ms.length →
    ∃ k, k ≤ n ∧ ∃ s'', crun L s (ms.take k) = some s'' ∧ Rests s'' := by
  intro n
  induction n with
  | zero =>
    intro s s' ms hi hn _ _ _
    by_cases hr : Rests s
    · exact ⟨0, Nat.le_refl _, s, by simp [crun], hr⟩
    · have := cmeasure_pos (L := L) hi hr; omega
  | succ n ih =>
    intro s s' ms hi hn hna hrun hlen
    by_cases hr : Rests s
    · exact ⟨0, Nat.zero_le _, s, by simp [crun], hr⟩
    · cases ms with
      | nil => simp at hlen
      | cons m ms =>
        simp only [crun, Option.bind_eq_some_iff] at hrun
        obtain ⟨s1, hm, hrun⟩ := hrun
        cases m with
        | arrive => simp at hna
        | answer r =>
          obtain ⟨x, e⟩ := s
          replace hi : EnvInv x e := hi
          simp only [cmove] at hm
          cases hp : pending x with
          | none => simp [hp] at hm
          | some c =>
            simp only [hp, Option.map_eq_some_iff] at hm
            obtain ⟨e1, he, rfl⟩ := hm
            have hs := astep_of_answer (L := L) hi.wf hp he
            have hd := astep_decreases hs (fun h => hr (Or.inl h))
            obtain ⟨k, hk, s'', hrun', hrest⟩ := ih (advance L x r, e1) s' ms (hi.answer hs) (by omega)
              (by simpa using hna) hrun (by simp at hlen; omega)
            refine ⟨k + 1, by omega, s'', ?_, hrest⟩
            simp [crun, cmove, hp, he, hrun']

end TmVerif
