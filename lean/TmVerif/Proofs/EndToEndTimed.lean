/-
The TIMED wire-level composition: the loop model (`Model/Loop.lean`, M2) against `wireOfTLog`
(`Model/EndToEnd.lean`, M8).  For every script of answers without an error answer, from the initial
machine of a layout, as long as no ill-typed answer occurs: the bytes of ALL completed sends (step,
release-all and chord sends) in order, followed by the bytes of the send that is still pending, are
exactly `wireOfTLog` of the timed read log (the items read, and a tick for every `poll` that timed out
with a repeat armed outside tablet mode).
-/
import TmVerif.Proofs.LoopRun
import TmVerif.Proofs.EndToEnd

namespace TmVerif

/-- the payloads of ALL sends among the calls (step, release-all and chord sends), in order -/
def allSends : List Call → List (List Event)
  | [] => []
  | Call.send _ evs :: cs => evs :: allSends cs
  | _ :: cs => allSends cs

/-- what one answer adds to the timed read log -/
def tlogStep (x : Machine) (r : Resp) : List TItem :=
  match x.c, r with
  | Ctl.readKbd _, Resp.kbd (Next.one ev) => [TItem.item (Item.kbd ev)]
  | Ctl.readTab _, Resp.tab (Next.one tev) => [TItem.item (Item.tab tev)]
  | Ctl.polling _, Resp.poll PollRes.timedOut =>
    (match x.v.rep with
     | WorkingRepeat.repeating _ _ _ => if x.v.inTablet = false then [TItem.tick] else []
     | WorkingRepeat.idle => [])
  | _, _ => []

/-- the timed read log of a run (same recursion as `runScript`) -/
def tlogOf (L : Layout) : Machine → List Resp → List TItem
  | _, [] => []
  | x, r :: rs =>
    match pending x with
    | none => []
    | some _ => tlogStep x r ++ tlogOf L (advance L x r) rs

/-- the armed repeat keys of a `WorkingRepeat` -/
def repOf : WorkingRepeat → Option (List Key)
  | WorkingRepeat.idle => none
  | WorkingRepeat.repeating keys _ _ => some keys

/-- the repeat keys `wireOfTLog` has armed when the machine is at `x`: between a step and its arming
(`sendStep`, `stepNow`) the arming is already accounted for; in tablet mode nothing is armed (the
machine disarms at the next timeout, and no tick is logged in tablet mode) -/
def ghostRep (x : Machine) : Option (List Key) :=
  if x.v.inTablet then none else
  match x.c with
  | Ctl.sendStep _ _ rr => armAfter (repOf x.v.rep) rr
  | Ctl.stepNow _ keys _ _ => some keys
  | _ => repOf x.v.rep

/-- the bytes of the send the machine is blocked on, if any -/
def owedBytes (x : Machine) : List Nat :=
  match x.c with
  | Ctl.sendChord evs => encodeBatch evs
  | Ctl.sendStep _ evs _ => encodeBatch evs
  | Ctl.sendRel _ evs => encodeBatch evs
  | _ => []

/-- `wireOfTLog` from the ghost state of the machine -/
def wireFrom (L : Layout) (x : Machine) (tl : List TItem) : Option (List Nat) :=
  wireOfTLog L x.v.m (ghostRep x) x.v.inTablet tl

theorem forLayout_init {L : Layout} {s : State} (h : forLayout L = some s) : s = State.init := by
  unfold forLayout at h; split at h <;> simp at h; exact h.symm

theorem Machine.init_eq {L : Layout} {x : Machine} (h : Machine.init L = some x) :
    x = ⟨⟨State.init, WorkingRepeat.idle, false, 0⟩, Ctl.start⟩ := by
  unfold Machine.init at h
  cases hf : forLayout L with
  | none => simp [hf] at h
  | some s =>
    simp only [hf, Option.some.injEq] at h
    subst h
    rw [forLayout_init hf]

theorem runScript_bad (L : Layout) (v : LoopVars) (rs : List Resp) :
    (runScript L ⟨v, Ctl.bad⟩ rs).2.c = Ctl.bad := by
  cases rs <;> rfl

/-! ### `wireOfTLog`, item by item -/

theorem wireOfTLog_kbd_tablet (L : Layout) (s : State) (rep : Option (List Key)) (ev : Event) (tl : List TItem) :
    wireOfTLog L s rep true (TItem.item (Item.kbd ev) :: tl) = wireOfTLog L s rep true tl := by
  simp [wireOfTLog]

theorem wireOfTLog_kbd (L : Layout) (s : State) (rep : Option (List Key)) (ev : Event) (tl : List TItem) :
    wireOfTLog L s rep false (TItem.item (Item.kbd ev) :: tl) =
      (wireOfTLog L (step L s ev).1 (armAfter rep (step L s ev).2.rep) false tl).map
        (fun rest => wireBatch (step L s ev).2.events ++ rest) := by
  simp [wireOfTLog]

theorem wireOfTLog_tab (L : Layout) (s : State) (rep : Option (List Key)) (b : Bool) (tev : TabletEv) (tl : List TItem) :
    wireOfTLog L s rep b (TItem.item (Item.tab tev) :: tl) =
      (wireOfTLog L (releaseAll L s).1 none tev.mode tl).map (fun rest => wireBatch (releaseAll L s).2 ++ rest) := by
  simp [wireOfTLog]

theorem wireOfTLog_tick (L : Layout) (s : State) (keys : List Key) (b : Bool) (tl : List TItem) :
    wireOfTLog L s (some keys) b (TItem.tick :: tl) =
      (wireOfTLog L s (some keys) b tl).map (fun rest => wireBatch (chordOf s keys) ++ rest) := by
  simp [wireOfTLog]

theorem map_nil_append (o : Option (List Nat)) : o.map (fun rest => [] ++ rest) = o := by
  cases o <;> simp

/-! ### the ghost state at the joints of `advance` -/

theorem toPollTop_ghost (L : Layout) (v : LoopVars) (tl : List TItem) :
    wireFrom L (toPollTop v) tl = wireOfTLog L v.m (if v.inTablet then none else repOf v.rep) v.inTablet tl ∧
    owedBytes (toPollTop v) = [] := by
  unfold toPollTop; cases h : v.rep <;> simp [wireFrom, ghostRep, owedBytes, h] <;> rfl

theorem drain_ghost (L : Layout) (v : LoopVars) (devs : List Dev) (tl : List TItem) :
    wireFrom L (drain v devs) tl = wireOfTLog L v.m (if v.inTablet then none else repOf v.rep) v.inTablet tl ∧
    owedBytes (drain v devs) = [] := by
  cases devs with
  | nil => exact toPollTop_ghost L v tl
  | cons d rest => cases d <;> simp [drain, wireFrom, ghostRep, owedBytes] <;> rfl

theorem afterStep_ghost (L : Layout) (v : LoopVars) (rest : List Dev) (rr : RRepeat) (tl : List TItem) :
    wireFrom L (afterStep v rest rr) tl =
      wireOfTLog L v.m (if v.inTablet then none else armAfter (repOf v.rep) rr) v.inTablet tl ∧
    owedBytes (afterStep v rest rr) = [] := by
  cases rr <;> cases h : v.inTablet <;> simp [afterStep, wireFrom, ghostRep, owedBytes, armAfter, repOf, h]

/-- ONE answer: the timed log items it adds take `wireOfTLog` from the ghost state of `x` to the
ghost state of `advance L x r`, writing exactly the bytes of the send that became pending -/
theorem wireFrom_advance (L : Layout) (x : Machine) (r : Resp) (hr : ∀ msg, r ≠ Resp.err msg)
    (hok : (advance L x r).c ≠ Ctl.bad) (tl : List TItem) :
    wireFrom L x (tlogStep x r ++ tl) =
      (wireFrom L (advance L x r) tl).map (fun rest => owedBytes (advance L x r) ++ rest) := by
  obtain ⟨v, c⟩ := x
  cases r with
  | err msg => exact absurd rfl (hr msg)
  | unit =>
    cases c <;> try (exact absurd rfl hok)
    · rw [adv_start]; have t := toPollTop_ghost L v tl
      rw [t.1, t.2]; simp [tlogStep, wireFrom, ghostRep]
    · rw [adv_sendChord]; have t := toPollTop_ghost L v tl
      rw [t.1, t.2]; simp [tlogStep, wireFrom, ghostRep]
    · rw [adv_sleeping]; have t := toPollTop_ghost L v tl
      rw [t.1, t.2]; simp [tlogStep, wireFrom, ghostRep]
    · rename_i rest evs rr
      rw [adv_sendStep]; have t := afterStep_ghost L v rest rr tl
      rw [t.1, t.2]; simp [tlogStep, wireFrom, ghostRep]
    · rename_i rest evs
      rw [adv_sendRel]; simp [tlogStep, wireFrom, ghostRep, owedBytes]
  | time t =>
    cases c <;> try (exact absurd rfl hok)
    · cases hrep : v.rep with
      | idle => rw [adv_pollNow_idle L v hrep] at hok; exact absurd rfl hok
      | repeating keys nw iv =>
        rw [adv_pollNow L v hrep]; simp [tlogStep, wireFrom, ghostRep, owedBytes]
    · rw [adv_stepNow]; simp [tlogStep, wireFrom, ghostRep, owedBytes, repOf]
  | poll pr =>
    cases c <;> try (exact absurd rfl hok)
    rename_i tmo
    cases pr with
    | timedOut =>
      cases hrep : v.rep with
      | idle =>
        rw [adv_timedOut_idle L v hrep]; have t := toPollTop_ghost L v tl
        rw [t.1, t.2]; simp [tlogStep, wireFrom, ghostRep, hrep]
      | repeating keys nw iv =>
        cases hit : v.inTablet with
        | true =>
          rw [adv_timedOut_tablet L v hrep hit]
          have t := toPollTop_ghost L { v with rep := WorkingRepeat.idle } tl
          rw [t.1, t.2]; simp [tlogStep, wireFrom, ghostRep, hrep, hit]
        | false =>
          rw [adv_timedOut_chord L v hrep hit]
          have hl : wireFrom L ⟨v, Ctl.polling tmo⟩ (tlogStep ⟨v, Ctl.polling tmo⟩ (Resp.poll PollRes.timedOut) ++ tl) =
              (wireOfTLog L v.m (some keys) false tl).map (fun rest => wireBatch (chordOf v.m keys) ++ rest) := by
            simp [tlogStep, wireFrom, ghostRep, hrep, hit, repOf, wireOfTLog_tick]
          rw [hl]
          split
          · rename_i hemp
            have t := toPollTop_ghost L { v with rep := WorkingRepeat.repeating keys (nw + msToNs (asU64 iv)) iv } tl
            rw [t.1, t.2]; simp [hit, repOf, wireBatch, hemp]
          · rename_i hemp
            simp [wireFrom, ghostRep, owedBytes, hit, repOf, wireBatch, hemp]
    | interrupted =>
      rw [adv_interrupted]
      split
      · simp [tlogStep, wireFrom, ghostRep, owedBytes]
      · have t := toPollTop_ghost L { v with restartCount := v.restartCount + 1 } tl
        rw [t.1, t.2]; simp [tlogStep, wireFrom, ghostRep]
    | deviceEvent devs =>
      rw [adv_deviceEvent]; have t := drain_ghost L { v with restartCount := 0 } devs tl
      rw [t.1, t.2]; simp [tlogStep, wireFrom, ghostRep]
  | kbd n =>
    cases c <;> try (exact absurd rfl hok)
    rename_i rest
    cases n with
    | busy =>
      rw [adv_kbd_busy]; have t := drain_ghost L v rest tl
      rw [t.1, t.2]; simp [tlogStep, wireFrom, ghostRep]
    | end_ => rw [adv_kbd_end]; simp [tlogStep, wireFrom, ghostRep, owedBytes]
    | one ev =>
      cases hit : v.inTablet with
      | true =>
        rw [adv_kbd_one_tablet L v hit]
        simp [tlogStep, wireFrom, ghostRep, owedBytes, hit, wireOfTLog_kbd_tablet]
      | false =>
        rw [adv_kbd_one L v hit]
        have hl : wireFrom L ⟨v, Ctl.readKbd rest⟩ (tlogStep ⟨v, Ctl.readKbd rest⟩ (Resp.kbd (Next.one ev)) ++ tl) =
            (wireOfTLog L (step L v.m ev).1 (armAfter (repOf v.rep) (step L v.m ev).2.rep) false tl).map
              (fun r => wireBatch (step L v.m ev).2.events ++ r) := by
          simp [tlogStep, wireFrom, ghostRep, hit, wireOfTLog_kbd]
        rw [hl]
        split
        · rename_i hemp
          have t := afterStep_ghost L { v with m := (step L v.m ev).1 } rest (step L v.m ev).2.rep tl
          rw [t.1, t.2]; simp [hit, wireBatch, hemp]
        · rename_i hemp
          simp [wireFrom, ghostRep, owedBytes, hit, wireBatch, hemp]
  | tab n =>
    cases c <;> try (exact absurd rfl hok)
    rename_i rest
    cases n with
    | busy =>
      rw [adv_tab_busy]; have t := drain_ghost L v rest tl
      rw [t.1, t.2]; simp [tlogStep, wireFrom, ghostRep]
    | end_ => rw [adv_tab_end]; simp [tlogStep, wireFrom, ghostRep, owedBytes]
    | one tev =>
      rw [adv_tab_one]
      have hl : wireFrom L ⟨v, Ctl.readTab rest⟩ (tlogStep ⟨v, Ctl.readTab rest⟩ (Resp.tab (Next.one tev)) ++ tl) =
          (wireOfTLog L (releaseAll L v.m).1 none tev.mode tl).map (fun r => wireBatch (releaseAll L v.m).2 ++ r) := by
        simp [tlogStep, wireFrom, wireOfTLog_tab]
      rw [hl]
      split
      · rename_i hemp
        cases tev <;> simp [wireFrom, ghostRep, owedBytes, repOf, wireBatch, hemp, TabletEv.mode]
      · rename_i hemp
        cases tev <;> simp [wireFrom, ghostRep, owedBytes, repOf, wireBatch, hemp, TabletEv.mode]

/-- the bytes of the recorded call are the bytes owed at the control point -/
theorem allSends_cons_of_pending {x : Machine} {c : Call} (hp : pending x = some c) (cs : List Call) :
    (allSends (c :: cs)).flatMap encodeBatch = owedBytes x ++ (allSends cs).flatMap encodeBatch := by
  obtain ⟨v, ct⟩ := x
  cases ct <;> simp only [pending, Option.some.injEq, reduceCtorEq] at hp <;> subst hp <;>
    simp [allSends, owedBytes]

/-- from ANY machine: `wireOfTLog` from its ghost state over the timed log of the run, after the bytes
it owes at the start, is the bytes of all completed sends followed by the bytes owed at the end -/
theorem wireFrom_runScript (L : Layout) (x : Machine) (rs : List Resp)
    (hne : noErr rs = true) (hok : (runScript L x rs).2.c ≠ Ctl.bad) :
    (wireFrom L x (tlogOf L x rs)).map (fun rest => owedBytes x ++ rest) =
      some ((allSends (runScript L x rs).1).flatMap encodeBatch ++ owedBytes (runScript L x rs).2) := by
  induction rs generalizing x with
  | nil => simp [tlogOf, runScript, allSends, wireFrom, wireOfTLog]
  | cons r rs ih =>
    simp only [tlogOf, runScript] at hok ⊢
    cases hp : pending x with
    | none => simp [allSends, wireFrom, wireOfTLog]
    | some c =>
      simp only [hp] at hok ⊢
      have hne' : noErr rs = true := by cases r <;> simp_all [noErr]
      have hr : ∀ msg, r ≠ Resp.err msg := by intro msg h; subst h; simp [noErr] at hne
      have hb : (advance L x r).c ≠ Ctl.bad := by
        intro hbad
        apply hok
        generalize advance L x r = y at hbad ⊢
        obtain ⟨v', c'⟩ := y
        cases hbad
        exact runScript_bad L v' rs
      rw [wireFrom_advance L x r hr hb, allSends_cons_of_pending hp]
      have := ih (advance L x r) hne' hok
      rw [this]; simp [List.append_assoc]

/-- every script of answers without an error answer, from the initial machine of a layout, as long as
the machine does not reach `Ctl.bad` (an ill-typed answer): the bytes of all COMPLETED sends (step,
release-all and chord sends: the `send` calls that have been answered), in order, followed by the
bytes of the send that is still pending at the end of the script, are exactly `wireOfTLog` of the
timed read log -/
theorem wireOfTLog_runScript (L : Layout) (x0 : Machine) (h0 : Machine.init L = some x0) (rs : List Resp)
    (hne : noErr rs = true) (hok : (runScript L x0 rs).2.c ≠ Ctl.bad) :
    wireOfTLog L State.init none false (tlogOf L x0 rs) =
      some ((allSends (runScript L x0 rs).1).flatMap encodeBatch ++ owedBytes (runScript L x0 rs).2) := by
  have hx := Machine.init_eq h0
  have h := wireFrom_runScript L x0 rs hne hok
  subst hx
  simpa [wireFrom, ghostRep, owedBytes, repOf, map_nil_append] using h

/-- the machine blocked on `poll` at the end: no send is pending -/
theorem wireOfTLog_runScript_polling (L : Layout) (x0 : Machine) (h0 : Machine.init L = some x0) (rs : List Resp)
    (hne : noErr rs = true) (t : Option Nat) (hpoll : (runScript L x0 rs).2.c = Ctl.polling t) :
    wireOfTLog L State.init none false (tlogOf L x0 rs) =
      some ((allSends (runScript L x0 rs).1).flatMap encodeBatch) := by
  rw [wireOfTLog_runScript L x0 h0 rs hne (by rw [hpoll]; simp)]
  simp [owedBytes, hpoll]

end TmVerif

#print axioms TmVerif.wireFrom_advance
#print axioms TmVerif.wireFrom_runScript
#print axioms TmVerif.wireOfTLog_runScript
#print axioms TmVerif.wireOfTLog_runScript_polling
