/-
How each sub-function of a step treats the membership of one key `k` in the pass-through list,
under a side condition saying `k` is not involved.  Used for C05 (non-interference) and I8.
-/
import TmVerif.Proofs.NoAbs

namespace TmVerif

theorem ram_pass (s : State) (k : Key) (hk : k ∉ s.mapped) {extra : List Key} (h : IInv extra s) :
    k ∈ (releaseActionMappings s).1.pass ↔ k ∈ s.pass := by
  have hsub := (keysToRelease_spec s.mapped [] s.active (by simp) (by simp)).2
  simp only [releaseActionMappings, List.mem_filter]
  constructor
  · exact fun h1 => h1.1
  · intro h1
    refine ⟨h1, ?_⟩
    have : k ∉ keysToRelease s.mapped [] s.active := fun h2 => hk (hsub k h2)
    simpa using this

theorem removeMapping_pass (s : State) (before after : List Mapping) (rk k : Key) (hk : k ∉ s.mapped) :
    k ∈ (removeMapping s before after rk).1.pass ↔ k ∈ s.pass := by
  rw [removeMapping_eq]
  simp only [List.mem_append, List.mem_filter, List.mem_reverse]
  constructor
  · rintro (h1 | h1)
    · exact h1
    · exact absurd h1.1 hk
  · exact fun h1 => Or.inl h1

theorem removeMapping_mapped_sub (s : State) (before after : List Mapping) (rk k : Key)
    (h : k ∈ (removeMapping s before after rk).1.mapped) : k ∈ s.mapped := by
  rw [removeMapping_eq] at h; simp only [List.mem_filter] at h; exact h.1

theorem dropFailing_pass (k0 : Key) (s : State) (rb after : List Mapping) (k : Key) (hk : k ∉ s.mapped) :
    (k ∈ (dropFailing k0 s rb after).1.pass ↔ k ∈ s.pass) ∧ k ∉ (dropFailing k0 s rb after).1.mapped := by
  induction rb generalizing s after with
  | nil => exact ⟨by simp [dropFailing], by simpa [dropFailing] using hk⟩
  | cons m rb ih =>
    simp only [dropFailing]
    split
    · have h1 := removeMapping_pass s rb.reverse after k0 k hk
      have h2 : k ∉ (removeMapping s rb.reverse after k0).1.mapped :=
        fun h3 => hk (removeMapping_mapped_sub s rb.reverse after k0 k h3)
      have h3 := ih (removeMapping s rb.reverse after k0).1 after h2
      exact ⟨h3.1.trans h1, h3.2⟩
    · exact ih s (m :: after) hk

theorem releaseTail_pass (s : State) (k0 k : Key) (hne : k ≠ k0) (hnd : s.pass.Nodup) :
    (k ∈ (releaseTail s k0).1.pass ↔ k ∈ s.pass) ∧ (releaseTail s k0).1.mapped = s.mapped := by
  unfold releaseTail
  by_cases hc : s.pass.contains k0 = true
  · simp only [hc, if_true]
    refine ⟨?_, by simp⟩
    rw [mem_removeLast k0 k hnd]
    exact ⟨fun h => h.1, fun h => ⟨h, hne⟩⟩
  · simp only [hc]; exact ⟨by simp, by simp⟩

theorem releaseKey_pass {extra : List Key} (s : State) (k0 k : Key) (hne : k ≠ k0) (hk : k ∉ s.mapped)
    (h : IInv extra s) :
    (k ∈ (releaseKey s k0).1.pass ↔ k ∈ s.pass) ∧ k ∉ (releaseKey s k0).1.mapped := by
  rw [releaseKey_eq]
  have h1 := dropFailing_pass k0 s s.active.reverse [] k hk
  have hi := (dropFailing_spec k0 s s.active.reverse [] h (by simp) (by simp)).1
  have h2 := releaseTail_pass (dropFailing k0 s s.active.reverse []).1 k0 k hne hi.ndPass
  refine ⟨h2.1.trans h1.1, ?_⟩
  simp only; rw [h2.2]; exact h1.2

theorem releaseAbsorbedLoop_pass {extra : List Key} (s : State) (ks : List Key) (k : Key) (hks : k ∉ ks)
    (hk : k ∉ s.mapped) (h : IInv extra s) :
    (k ∈ (releaseAbsorbedLoop s ks).1.pass ↔ k ∈ s.pass) ∧ k ∉ (releaseAbsorbedLoop s ks).1.mapped := by
  induction ks generalizing s with
  | nil => exact ⟨Iff.rfl, hk⟩
  | cons k0 ks ih =>
    rw [releaseAbsorbedLoop_cons]
    have hne : k ≠ k0 := fun e => hks (by simp [e])
    have h1 := releaseKey_pass s k0 k hne hk h
    have hi := (releaseKey_spec k0 h).1
    have h2 := ih (releaseKey s k0).1 (fun hm => hks (by simp [hm])) h1.2 hi
    exact ⟨h2.1.trans h1.1, h2.2⟩

theorem releaseAbsorbedKeys_pass {extra : List Key} (s : State) (k : Key) (hks : k ∉ s.absorbed)
    (hk : k ∉ s.mapped) (h : IInv extra s) :
    (k ∈ (releaseAbsorbedKeys s).1.pass ↔ k ∈ s.pass) ∧ k ∉ (releaseAbsorbedKeys s).1.mapped := by
  unfold releaseAbsorbedKeys
  exact releaseAbsorbedLoop_pass _ s.absorbed k hks hk
    ⟨h.ndPass, h.ndMapped, h.disj, h.passInp, h.actInp, h.mappedAct⟩

theorem afterConsume_pass (s : State) (m : Mapping) (k : Key) (h1 : k ∉ m.frm) (h2 : k ∉ m.to) :
    (k ∈ (afterConsume s m).pass ↔ k ∈ s.pass) ∧ (k ∈ (afterConsume s m).mapped ↔ k ∈ s.mapped) := by
  simp only [afterConsume, consume_eq, List.mem_filter, List.mem_append]
  constructor
  · constructor
    · exact fun h => h.1
    · intro h; exact ⟨h, by simp [h1, h2]⟩
  · constructor
    · rintro (h | h)
      · exact h
      · simp [h2] at h
    · exact fun h => Or.inl h

theorem pressOne_pass (s : State) (y k : Key) (hne : k ≠ y) :
    (k ∈ (pressOne s y).1.pass ↔ k ∈ s.pass) ∧ (k ∈ (pressOne s y).1.mapped ↔ k ∈ s.mapped) := by
  unfold pressOne
  split
  · split
    · exact ⟨Iff.rfl, Iff.rfl⟩
    · split
      · simp [hne]
      · simp [hne]
  · split
    · simp [hne]
    · exact ⟨Iff.rfl, Iff.rfl⟩

theorem pressAll_pass (s : State) (ys : List Key) (k : Key) (hk : k ∉ ys) :
    (k ∈ (pressAll s ys).1.pass ↔ k ∈ s.pass) ∧ (k ∈ (pressAll s ys).1.mapped ↔ k ∈ s.mapped) := by
  induction ys generalizing s with
  | nil => exact ⟨Iff.rfl, Iff.rfl⟩
  | cons y ys ih =>
    rw [pressAll_cons]
    have h1 := pressOne_pass s y k (fun e => hk (by simp [e]))
    have h2 := ih (pressOne s y).1 (fun hm => hk (by simp [hm]))
    exact ⟨h2.1.trans h1.1, h2.2.trans h1.2⟩

theorem raak_pass (s : State) (k : Key) :
    (k ∈ (releaseAllActionKeys s).1.pass ↔ k ∈ s.pass ∧ isActionKey k = false) ∧
    (k ∈ (releaseAllActionKeys s).1.mapped ↔ k ∈ s.mapped ∧ isActionKey k = false) := by
  simp [releaseAllActionKeys]

end TmVerif
