/-
C13_spec, layer B: row mappings.  The character loop of `convert_row` (indices, a repeat template,
`convert_row_to` called twice) computes the specification's "one mapping per non-space letter".
Consequence: `convert_row = expandRow`.
-/
import TmVerif.Proofs.LoadExpandA

namespace TmVerif
namespace Convert
open Outcome Fancy Expand TmVerif.Tables

theorem physicalRow_eq (r : Row) : physicalRow r = some (rowKeys r) := by
  cases r <;> decide

theorem charAccessIn_eq (n : Nat) (tbl : List (Nat × Bool × Nat)) :
    charAccessIn n tbl = (tbl.find? fun e => e.1 == n).map (·.2) := by
  induction tbl with
  | nil => rfl
  | cons e rest ih =>
    obtain ⟨ch, sh, k⟩ := e
    simp only [charAccessIn, List.find?_cons]
    by_cases h : ch = n
    · simp [h]
    · have h' : (ch == n) = false := by simpa using h
      simp [h', ih]

theorem charAccess_eq (c : Char) : charAccess c = charKey c := charAccessIn_eq _ _

/-- `convert_row_to` is "the keys that type the letter at position `i`" -/
theorem convertRowTo_eq (trig ms : List Key) (term : List Char) (i : Nat) :
    convertRowTo (findRightShift trig) ms term i =
      (match term[i]? with
       | none => ok none
       | some c => letterKeys trig ms c) := by
  unfold convertRowTo
  split
  · rename_i h
    rw [List.getElem?_eq_none (by omega)]
  · rename_i h
    have hi : i < term.length := by omega
    simp only [List.getElem?_eq_getElem hi, unwrapO_some, bind_ok, letterKeys, charAccess_eq]
    have hsp : (term[i].toNat == 32) = true ↔ term[i] = ' ' := by
      simp only [beq_iff_eq]
      constructor
      · intro h'; rw [← Char.ofNat_toNat term[i], h']
      · intro h'; rw [h']; rfl
    by_cases hc : term[i] = ' '
    · simp [hc]
    · have : ¬ (term[i].toNat == 32) = true := fun h' => hc (hsp.1 h')
      simp only [this, if_false, hc]
      cases charKey term[i] with
      | none => rfl
      | some p =>
        obtain ⟨sh, k⟩ := p
        simp only [shiftFor, findRightShift, RIGHTSHIFT, LEFTSHIFT]
        cases sh <;> simp <;> split <;> simp_all

/-- the repeat template of the model, as a function of the reified repeat modifiers -/
def templateOf : RowRepeat → List Key → RowRepeatTemplate
  | RowRepeat.normal, _ => RowRepeatTemplate.normal
  | RowRepeat.disabled, _ => RowRepeatTemplate.disabled
  | RowRepeat.special keys d i, rmods => RowRepeatTemplate.special rmods keys.terminal d i

theorem rowRepeatTemplate_eq {F : Fancy.Layout} {c : Comb} (hc : CombOK F c) {t : List Nat} (ht : TupleOK c t)
    (hamap : ∀ n, lookupAlias n c.aliasMap = lastIdx (slots c.modifiers) 0 n) (r : RowMapping)
    (hm : c.modifiers = r.frm.modifiers) :
    rowRepeatTemplate c t r = (rowRepeatMods r (pick c.found t)).bind fun rmods => ok (templateOf r.rep rmods) := by
  unfold rowRepeatTemplate rowRepeatMods
  cases hr : r.rep with
  | normal => rfl
  | disabled => rfl
  | special keys d i =>
    simp only [templateOf]
    split
    · rfl
    · rw [reifyModifiers_eq hc ht hamap, hm]

theorem rowRepeatAt_eq (trig rmods : List Key) (rep : RowRepeat) (i : Nat) :
    Convert.rowRepeatAt (findRightShift trig) (templateOf rep rmods) i = Expand.rowRepeatAt trig rmods rep i := by
  cases rep with
  | normal => rfl
  | disabled => rfl
  | special keys d iv =>
    simp only [Convert.rowRepeatAt, Expand.rowRepeatAt, templateOf, convertRowTo_eq]
    cases keys.terminal[i]? with
    | none => rfl
    | some c => rfl

/-- the character loop is the comprehension over (position, letter) -/
theorem rowCharLoop_eq {F : Fancy.Layout} {c : Comb} (hc : CombOK F c) {t : List Nat} (ht : TupleOK c t)
    (hamap : ∀ n, lookupAlias n c.aliasMap = lastIdx (slots c.modifiers) 0 n) (r : RowMapping)
    (hm : c.modifiers = r.frm.modifiers) (trig tm rmods : List Key) :
    ∀ (n i : Nat), i + n = r.to.terminal.length →
      rowCharLoop c t r trig tm (templateOf r.rep rmods) (rowKeys r.frm.row) (findRightShift trig) n i =
        (mapM (expandRowAt r (pick c.found t) trig tm rmods) ((List.range' i n).zip (r.to.terminal.drop i))).bind
          fun ms => ok ms.flatten := by
  intro n
  induction n with
  | zero => intro i _; simp [rowCharLoop, mapM]
  | succ n ih =>
    intro i hi
    have hlt : i < r.to.terminal.length := by omega
    have hdrop : r.to.terminal.drop i = r.to.terminal[i] :: r.to.terminal.drop (i + 1) :=
      List.drop_eq_getElem_cons hlt
    simp only [rowCharLoop, List.range'_succ, hdrop, List.zip_cons_cons, mapM, expandRowAt]
    rw [ih (i + 1) (by omega)]
    by_cases hp : i ≥ (rowKeys r.frm.row).length
    · simp only [hp, if_true]
      rw [List.getElem?_eq_none hp]
      rfl
    · have hp' : i < (rowKeys r.frm.row).length := by omega
      simp only [hp, if_false, List.getElem?_eq_getElem hp', convertRowTo_eq, List.getElem?_eq_getElem hlt,
        unwrapO_some, bind_ok, rowRepeatAt_eq, reifyModifiers_eq hc ht hamap, hm]
      cases letterKeys trig tm r.to.terminal[i] with
      | error => rfl
      | panic => rfl
      | ok to =>
        cases to with
        | none =>
          simp only [bind_ok]
          cases mapM (expandRowAt r (pick c.found t) trig tm rmods)
              ((List.range' (i + 1) n).zip (r.to.terminal.drop (i + 1))) <;> simp
        | some to =>
          simp only [bind_ok]
          cases Expand.rowRepeatAt trig rmods r.rep i with
          | error => rfl
          | panic => rfl
          | ok rep =>
            simp only [bind_ok]
            cases outMods r.frm.modifiers (pick c.found t) r.absorbing with
            | error => rfl
            | panic => rfl
            | ok abs =>
              simp only [bind_ok]
              cases mapM (expandRowAt r (pick c.found t) trig tm rmods)
                  ((List.range' (i + 1) n).zip (r.to.terminal.drop (i + 1))) <;> simp

/-- C13_spec for one row mapping -/
theorem convertRow_eq (F : Fancy.Layout) (r : RowMapping) : convertRow F r = expandRow F r := by
  unfold convertRow expandRow
  have hb := buildCombinations_eq F r.frm.modifiers
  cases hs : slotDefs F (slots r.frm.modifiers) with
  | none => rw [hs] at hb; simp [hb]
  | some ds =>
    rw [hs] at hb
    obtain ⟨amap, hb, hamap⟩ := hb
    have hc := (buildCombinations_ok hb).1
    simp only [hb, bind_ok, hc.multiply]
    congr 1
    refine mapM_tuples hc _ _ fun t ht => ?_
    unfold convertRowOne expandRowOne
    rw [fromModifiers_eq hc ht]
    simp only [bind_ok, reifyModifiers_eq hc ht hamap, rowRepeatTemplate_eq hc ht hamap r rfl, physicalRow_eq, ofOption]
    cases outMods r.frm.modifiers (pick ds t) r.to.initial with
    | error => rfl
    | panic => rfl
    | ok tm =>
      simp only [bind_ok]
      cases rowRepeatMods r (pick ds t) with
      | error => rfl
      | panic => rfl
      | ok rmods =>
        simp only [bind_ok]
        have := rowCharLoop_eq hc ht hamap r rfl (trigger r.frm.modifiers (pick ds t)) tm rmods
          r.to.terminal.length 0 (by omega)
        simp only [List.drop_zero, ← List.range_eq_range'] at this
        exact this

end Convert
end TmVerif
