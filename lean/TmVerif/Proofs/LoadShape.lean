/-
The shape of what `convert_single`, `convert_row` and `convert_alias` return (used by `load_wf`
in C14 and by `load_saveable` in C15), and the fact about parsed layouts that `load_wf` needs.
-/
import TmVerif.Proofs.LoadConvert

namespace TmVerif
namespace Convert
open Outcome Fancy

theorem convertSingleOne_shape {c : Comb} {s : SingleMapping} {t : List Nat} {m : TmVerif.Mapping}
    (h : convertSingleOne c s t = ok m) :
    ∃ fm to rep abs, fromModifiers c t = ok fm ∧ translateSingleToKeys c t s.to = ok to ∧
      singleRepeat c t s.rep = ok rep ∧ reifyModifiers c t s.absorbing = ok abs ∧
      m = ⟨fm ++ [s.frm.key], to, rep, abs⟩ := by
  simp only [convertSingleOne, bind_eq_ok] at h
  obtain ⟨fm, hfm, to, hto, rep, hrep, abs, habs, h⟩ := h
  simp at h
  exact ⟨fm, to, rep, abs, hfm, hto, hrep, habs, h.symm⟩

theorem rowCharLoop_shape {c : Comb} {t : List Nat} {r : RowMapping} {fm tm : List Key}
    {tpl : RowRepeatTemplate} {phys : List Key} {rs : Bool} :
    ∀ (n i : Nat) (ms : List TmVerif.Mapping), rowCharLoop c t r fm tm tpl phys rs n i = ok ms →
      ∀ m ∈ ms, ∃ j key to rep abs, phys[j]? = some key ∧
        convertRowTo rs tm r.to.terminal j = ok (some to) ∧ rowRepeatAt rs tpl j = ok rep ∧
        reifyModifiers c t r.absorbing = ok abs ∧ m = ⟨fm ++ [key], to, rep, abs⟩ := by
  intro n
  induction n with
  | zero => intro i ms h; simp [rowCharLoop] at h; subst h; intro m hm; cases hm
  | succ n ih =>
    intro i ms h
    simp only [rowCharLoop] at h
    split at h
    · cases h
    · obtain ⟨to, hto, h⟩ := bind_eq_ok.1 h
      cases to with
      | none => exact ih _ ms h
      | some to =>
        simp only [bind_eq_ok, unwrapO_eq_ok] at h
        obtain ⟨key, hkey, rep, hrep, abs, habs, rest, hrest, h⟩ := h
        simp at h; subst h
        intro m hm
        rcases List.mem_cons.1 hm with rfl | hm
        · exact ⟨i, key, to, rep, abs, hkey, hto, hrep, habs, rfl⟩
        · exact ih _ rest hrest m hm

theorem convertRowOne_shape {c : Comb} {r : RowMapping} {t : List Nat} {ms : List TmVerif.Mapping}
    (h : convertRowOne c r t = ok ms) :
    ∃ fm tm tpl phys, fromModifiers c t = ok fm ∧ reifyModifiers c t r.to.initial = ok tm ∧
      rowRepeatTemplate c t r = ok tpl ∧ physicalRow r.frm.row = some phys ∧
      ∀ m ∈ ms, ∃ j key to rep abs, phys[j]? = some key ∧
        convertRowTo (findRightShift fm) tm r.to.terminal j = ok (some to) ∧
        rowRepeatAt (findRightShift fm) tpl j = ok rep ∧
        reifyModifiers c t r.absorbing = ok abs ∧ m = ⟨fm ++ [key], to, rep, abs⟩ := by
  simp only [convertRowOne, bind_eq_ok, ofOption_eq_ok] at h
  obtain ⟨fm, hfm, tm, htm, tpl, htpl, phys, hphys, h⟩ := h
  exact ⟨fm, tm, tpl, phys, hfm, htm, htpl, hphys, rowCharLoop_shape _ _ ms h⟩

/-- every mapping `convert_single` returns comes from one tuple of the odometer -/
theorem convertSingle_shape {F : Fancy.Layout} {s : SingleMapping} {sms : List TmVerif.Mapping}
    (h : convertSingle F s = ok sms) :
    ∃ c, buildCombinations F s.frm.modifiers = ok c ∧
      ∀ m ∈ sms, ∃ t ∈ cart c.quantities, convertSingleOne c s t = ok m := by
  simp only [convertSingle, bind_eq_ok] at h
  obtain ⟨c, hc, tuples, ht, h⟩ := h
  have hok := (buildCombinations_ok hc).1
  rw [hok.multiply] at ht
  simp at ht; subst ht
  exact ⟨c, hc, fun m hm => mapM_mem h hm⟩

theorem convertRow_shape {F : Fancy.Layout} {r : RowMapping} {sms : List TmVerif.Mapping}
    (h : convertRow F r = ok sms) :
    ∃ c, buildCombinations F r.frm.modifiers = ok c ∧
      ∀ m ∈ sms, ∃ t ∈ cart c.quantities, ∃ ms, convertRowOne c r t = ok ms ∧ m ∈ ms := by
  simp only [convertRow, bind_eq_ok] at h
  obtain ⟨c, hc, tuples, ht, groups, hg, h⟩ := h
  have hok := (buildCombinations_ok hc).1
  rw [hok.multiply] at ht
  simp at ht; subst ht
  simp at h; subst h
  refine ⟨c, hc, ?_⟩
  intro m hm
  obtain ⟨ms, hms, hm⟩ := List.mem_flatten.1 hm
  obtain ⟨t, ht, hc⟩ := mapM_mem hg hms
  exact ⟨t, ht, ms, hc, hm⟩

theorem hasRepeatedKey_eq_false {l : List Key} : hasRepeatedKey l = false ↔ l.Nodup := by
  induction l with
  | nil => simp [hasRepeatedKey]
  | cons k ks ih => simp [hasRepeatedKey, ih]

end Convert

/-- what `load_wf` needs of a fancy layout, and `parse_layout_from_json` guarantees: an alias
definition has at least one trigger key (`single_to_alias_from` always pushes `from.key`) -/
def Fancy.aliasFromNonempty (F : Fancy.Layout) : Bool :=
  F.all fun m =>
    match m with
    | Fancy.Mapping.alias a => !a.frm.keys.isEmpty
    | _ => true

namespace Parse
open Outcome Fancy

theorem singleToAliasFrom_ne_nil {f : SingleFromKeys} {af : AliasFromKeys}
    (h : singleToAliasFrom f = ok af) : af.keys ≠ [] := by
  simp only [singleToAliasFrom, bind_eq_ok] at h
  obtain ⟨ks, _, h⟩ := h
  simp at h; subst h; simp

theorem ite_error_left {α : Type} {c : Prop} [Decidable c] {x : Outcome α} {y : α}
    (h : (if c then error else x) = ok y) : x = ok y := by
  split at h
  · cases h
  · exact h

theorem parseMappingFromJson_alias {v : Json} {a : AliasMapping}
    (h : parseMappingFromJson v = ok (Mapping.alias a)) : a.frm.keys ≠ [] := by
  unfold parseMappingFromJson at h
  split at h
  · split at h
    · obtain ⟨fv, _, h⟩ := bind_eq_ok.1 h
      obtain ⟨frm, _, h⟩ := bind_eq_ok.1 h
      split at h
      · obtain ⟨tv, _, h⟩ := bind_eq_ok.1 h
        obtain ⟨to, _, h⟩ := bind_eq_ok.1 h
        split at h
        · obtain ⟨_, _, h⟩ := bind_eq_ok.1 h
          obtain ⟨_, _, h⟩ := bind_eq_ok.1 h
          split at h <;> simp at h
        · split at h
          · cases h
          · split at h
            · cases h
            · obtain ⟨af, haf, h⟩ := bind_eq_ok.1 h
              have := singleToAliasFrom_ne_nil haf
              simp at h; subst h; exact this
      · obtain ⟨_, _, h⟩ := bind_eq_ok.1 h
        obtain ⟨_, _, h⟩ := bind_eq_ok.1 h
        obtain ⟨_, _, h⟩ := bind_eq_ok.1 h
        have h := ite_error_left h
        obtain ⟨_, _, h⟩ := bind_eq_ok.1 h
        split at h <;> simp at h
    · split at h
      · obtain ⟨_, _, h⟩ := bind_eq_ok.1 h
        obtain ⟨_, _, h⟩ := bind_eq_ok.1 h
        split at h
        · obtain ⟨_, _, h⟩ := bind_eq_ok.1 h
          simp at h
        · cases h
      · cases h
  · cases h

end Parse

open Outcome in
/-- `parse_layout_from_json` only produces alias definitions with at least one trigger key -/
theorem parse_aliasFromNonempty {j : Json} {F : Fancy.Layout} (h : parseLayoutFromJson j = ok F) :
    Fancy.aliasFromNonempty F = true := by
  unfold parseLayoutFromJson at h
  split at h
  · split at h
    · simp only [bind_eq_ok] at h
      obtain ⟨mv, _, h⟩ := h
      split at h
      · simp only [bind_eq_ok] at h
        obtain ⟨ms, hms, h⟩ := h
        split at h
        · simp at h; subst h
          simp only [Fancy.aliasFromNonempty, List.all_eq_true]
          intro m hm
          obtain ⟨v, _, hv⟩ := mapM_mem hms hm
          cases m with
          | alias a => simpa using Parse.parseMappingFromJson_alias hv
          | single _ => rfl
          | row _ => rfl
          | repeatOnly _ => rfl
        · cases h
      · cases h
    · cases h
  · cases h

end TmVerif
