/-
Helper lemmas for the wire-level composition (`Model/EndToEnd.lean`): the tablet-switch reader on
streams of whole records, and `wireOfLog` as the byte image of the loop's sends.
-/
import TmVerif.Model.EndToEnd
import TmVerif.Proofs.Bytes
import TmVerif.Proofs.LoopEnv

namespace TmVerif

/-! ## the tablet-switch reader -/

theorem TabletEv.mode_eq (t : TabletEv) : t.mode = tabMode t := by cases t <;> rfl

/-- a tablet-mode record from the kernel (any time stamp) is returned -/
theorem decodeTabletRecord_enc (s u : Nat) (t : TabletEv) :
    decodeTabletRecord (encodeRecordAt s u 5 1 (if t.mode then 1 else 0)) = some t := by
  unfold decodeTabletRecord
  rw [recType_encodeRecordAt, recCode_encodeRecordAt, recValueU_encodeRecordAt]
  cases t <;> simp [TabletEv.mode]

theorem decodeTabletRecord_encodeTabletEv (t : TabletEv) : decodeTabletRecord (encodeTabletEv t) = some t := by
  cases t <;> decide

/-- records of another event type are skipped -/
theorem decodeTabletRecord_other_type (rec : List Nat) (h : recType rec ≠ 5) : decodeTabletRecord rec = none := by
  simp [decodeTabletRecord, h]

/-- other switches (lid, headphone, …) are skipped -/
theorem decodeTabletRecord_other_code (rec : List Nat) (h : recCode rec ≠ 1) : decodeTabletRecord rec = none := by
  simp [decodeTabletRecord, h]

/-- a value other than 0 / 1 is skipped -/
theorem decodeTabletRecord_other_value (rec : List Nat) (h1 : recValueU rec ≠ 1) (h0 : recValueU rec ≠ 0) :
    decodeTabletRecord rec = none := by
  simp [decodeTabletRecord, h1, h0]

/-- exactly the two records `(5, 1, 1)` and `(5, 1, 0)` are returned -/
theorem decodeTabletRecord_some (rec : List Nat) (t : TabletEv) (h : decodeTabletRecord rec = some t) :
    recType rec = 5 ∧ recCode rec = 1 ∧ recValueU rec = (if t.mode then 1 else 0) := by
  unfold decodeTabletRecord at h
  by_cases ht : recType rec = 5 <;> by_cases hc : recCode rec = 1 <;>
    by_cases h1 : recValueU rec = 1 <;> by_cases h0 : recValueU rec = 0 <;>
    simp [ht, hc, h1, h0] at h <;> subst h <;> simp [TabletEv.mode, h1, h0, ht, hc]

theorem decodeTabletStream_short (bytes : List Nat) (h : bytes.length < 24) : decodeTabletStream bytes = [] := by
  have : bytes.length / 24 = 0 := by omega
  simp [decodeTabletStream, this, decodeTabletRecs]

theorem decodeTabletStream_record_append (r rest : List Nat) (h : r.length = 24) :
    decodeTabletStream (r ++ rest) = (decodeTabletRecord r).toList ++ decodeTabletStream rest := by
  have hl : (r ++ rest).length / 24 = rest.length / 24 + 1 := by
    rw [List.length_append, h]; omega
  unfold decodeTabletStream
  rw [hl, decodeTabletRecs]
  have ht : (r ++ rest).take 24 = r := by rw [← h]; exact List.take_left
  have hd : (r ++ rest).drop 24 = rest := by rw [← h]; exact List.drop_left
  rw [ht, hd]

theorem decodeTabletStream_flatten_append (recs : List (List Nat)) (rest : List Nat)
    (h : ∀ r ∈ recs, r.length = 24) :
    decodeTabletStream (recs.flatten ++ rest) = recs.filterMap decodeTabletRecord ++ decodeTabletStream rest := by
  induction recs with
  | nil => simp
  | cons r rs ih =>
    have hr : r.length = 24 := h r (List.mem_cons_self ..)
    have hrs : ∀ r ∈ rs, r.length = 24 := fun x hx => h x (List.mem_cons_of_mem _ hx)
    rw [List.flatten_cons, List.append_assoc, decodeTabletStream_record_append _ _ hr, ih hrs]
    cases hd : decodeTabletRecord r <;> simp [hd]

theorem decodeTabletStream_flatten (recs : List (List Nat)) (h : ∀ r ∈ recs, r.length = 24) :
    decodeTabletStream recs.flatten = recs.filterMap decodeTabletRecord := by
  have := decodeTabletStream_flatten_append recs [] h
  simpa [decodeTabletStream_short] using this

/-- the tablet-switch reader is compositional at record boundaries -/
theorem decodeTabletStream_append (a b : List Nat) (h : a.length % 24 = 0) :
    decodeTabletStream (a ++ b) = decodeTabletStream a ++ decodeTabletStream b := by
  obtain ⟨recs, h1, h2⟩ := Bytes.exists_records (a.length / 24) a (by omega)
  subst h1
  rw [decodeTabletStream_flatten_append _ _ h2, decodeTabletStream_flatten _ h2]

theorem encodeTabletEv_length (t : TabletEv) : (encodeTabletEv t).length = 24 := by cases t <;> decide

/-- reader ∘ kernel: a stream of tablet-mode records reads back as the switch events -/
theorem decodeTabletStream_roundtrip (ts : List TabletEv) :
    decodeTabletStream (ts.flatMap encodeTabletEv) = ts := by
  induction ts with
  | nil => exact decodeTabletStream_short [] (by decide)
  | cons t ts ih =>
    rw [List.flatMap_cons, decodeTabletStream_record_append _ _ (encodeTabletEv_length t),
      decodeTabletRecord_encodeTabletEv, ih]
    rfl

/-! ## `wireOfLog` is the byte image of the sends -/

theorem wireBatch_eq (evs : List Event) :
    wireBatch evs = (if evs.isEmpty then [] else [evs]).flatMap encodeBatch := by
  unfold wireBatch
  split <;> simp

/-- the bytes of `wireOfLog` are the `encodeBatch` images of the non-empty mapper outputs for the
operations of the log, in order -/
theorem wireOfLog_eq (L : Layout) (x : Sys) (b : Bool) (lg : List Item) :
    wireOfLog L x.s b lg = (nonEmptyOuts L x (opsOfLog b lg)).flatMap encodeBatch := by
  induction lg generalizing x b with
  | nil => simp [wireOfLog, opsOfLog, nonEmptyOuts]
  | cons i is ih =>
    cases i with
    | kbd ev =>
      cases b with
      | true =>
        have := ih x true
        simpa [wireOfLog, opsOfLog] using this
      | false =>
        have this : wireOfLog L (step L x.s ev).1 false is =
            (nonEmptyOuts L (x.next L (Op.ev ev)) (opsOfLog false is)).flatMap encodeBatch :=
          ih (x.next L (Op.ev ev)) false
        simp only [wireOfLog, opsOfLog, Bool.false_eq_true, if_false, List.singleton_append, nonEmptyOuts,
          List.flatMap_append, Sys.out, this, wireBatch_eq]
        rfl
    | tab tev =>
      have this : wireOfLog L (releaseAll L x.s).1 (tabMode tev) is =
          (nonEmptyOuts L (x.next L Op.relAll) (opsOfLog (tabMode tev) is)).flatMap encodeBatch :=
        ih (x.next L Op.relAll) (tabMode tev)
      simp only [wireOfLog, opsOfLog, nonEmptyOuts, List.flatMap_append, Sys.out, TabletEv.mode_eq, this,
        wireBatch_eq]
      rfl

/-- the number of sends behind `wireOfLog` -/
theorem sendsOfLog_eq (L : Layout) (x : Sys) (b : Bool) (lg : List Item) :
    sendsOfLog L x.s b lg = (nonEmptyOuts L x (opsOfLog b lg)).length := by
  induction lg generalizing x b with
  | nil => simp [sendsOfLog, opsOfLog, nonEmptyOuts]
  | cons i is ih =>
    cases i with
    | kbd ev =>
      cases b with
      | true =>
        have := ih x true
        simpa [sendsOfLog, opsOfLog] using this
      | false =>
        have this : sendsOfLog L (step L x.s ev).1 false is =
            (nonEmptyOuts L (x.next L (Op.ev ev)) (opsOfLog false is)).length :=
          ih (x.next L (Op.ev ev)) false
        simp only [sendsOfLog, opsOfLog, Bool.false_eq_true, if_false, List.singleton_append, nonEmptyOuts,
          List.length_append, Sys.out, this]
        by_cases h : (step L x.s ev).2.events = [] <;> simp [h]
    | tab tev =>
      have this : sendsOfLog L (releaseAll L x.s).1 (tabMode tev) is =
          (nonEmptyOuts L (x.next L Op.relAll) (opsOfLog (tabMode tev) is)).length :=
        ih (x.next L Op.relAll) (tabMode tev)
      simp only [sendsOfLog, opsOfLog, nonEmptyOuts, List.length_append, Sys.out, TabletEv.mode_eq, this]
      by_cases h : (releaseAll L x.s).2 = [] <;> simp [h]

/-- a log without tablet-switch events is its keyboard events -/
theorem log_kbdOnly (lg : List Item) (h : tabOf lg = []) : lg = (kbdOf lg).map Item.kbd := by
  induction lg with
  | nil => rfl
  | cons i is ih =>
    cases i with
    | kbd ev => simp only [kbdOf, List.map_cons]; rw [← ih (by simpa [tabOf] using h)]
    | tab tev => simp [tabOf] at h

/-! ## the byte streams of a list of chunks, per device -/

def kbdBytes : List Chunk → List Nat
  | [] => []
  | Chunk.kbd b :: cs => b ++ kbdBytes cs
  | Chunk.tab _ :: cs => kbdBytes cs

def tabBytes : List Chunk → List Nat
  | [] => []
  | Chunk.kbd _ :: cs => tabBytes cs
  | Chunk.tab b :: cs => b ++ tabBytes cs

def Chunk.bytes : Chunk → List Nat
  | Chunk.kbd b => b
  | Chunk.tab b => b

/-- every chunk consists of whole records -/
def Aligned (chunks : List Chunk) : Prop := ∀ c ∈ chunks, c.bytes.length % 24 = 0

theorem kbdHist_chunks (chunks : List Chunk) (h : Aligned chunks) :
    kbdHist (chunks.map Chunk.arrival) = decodeStream (kbdBytes chunks) := by
  induction chunks with
  | nil => exact (decodeStream_short [] (by decide)).symm
  | cons c cs ih =>
    have hc := h c (List.mem_cons_self ..)
    have hcs : Aligned cs := fun x hx => h x (List.mem_cons_of_mem _ hx)
    cases c with
    | kbd b =>
      simp only [Chunk.bytes] at hc
      simp only [List.map_cons, Chunk.arrival, kbdHist, kbdBytes, ih hcs]; rw [decodeStream_append _ _ hc]
    | tab b => simp only [List.map_cons, Chunk.arrival, kbdHist, kbdBytes, ih hcs]

theorem tabHist_chunks (chunks : List Chunk) (h : Aligned chunks) :
    tabHist (chunks.map Chunk.arrival) = decodeTabletStream (tabBytes chunks) := by
  induction chunks with
  | nil => exact (decodeTabletStream_short [] (by decide)).symm
  | cons c cs ih =>
    have hc := h c (List.mem_cons_self ..)
    have hcs : Aligned cs := fun x hx => h x (List.mem_cons_of_mem _ hx)
    cases c with
    | kbd b => simp only [List.map_cons, Chunk.arrival, tabHist, tabBytes, ih hcs]
    | tab b =>
      simp only [Chunk.bytes] at hc
      simp only [List.map_cons, Chunk.arrival, tabHist, tabBytes, ih hcs]; rw [decodeTabletStream_append _ _ hc]

end TmVerif
