/-
I8 (layouts without absorbing): no trigger key and no output key of a mapping in effect is in the
pass-through list ("consumed").  Gives C02(d) and the second release clause of C05.
-/
import TmVerif.Proofs.Foreign

namespace TmVerif

def Consumed (s : State) : Prop :=
  ∀ m, m ∈ s.active → ∀ k, (k ∈ m.frm ∨ k ∈ m.to) → k ∉ s.pass

theorem pressOne_pass_sub (s : State) (y x : Key) (hx : x ∈ (pressOne s y).1.pass) : x ∈ s.pass := by
  unfold pressOne at hx
  split at hx
  · split at hx
    · exact hx
    · split at hx
      · simp at hx; exact hx.1
      · exact hx
  · split at hx <;> exact hx

theorem pressAll_pass_sub (s : State) (ys : List Key) (x : Key) (hx : x ∈ (pressAll s ys).1.pass) : x ∈ s.pass := by
  induction ys generalizing s with
  | nil => exact hx
  | cons y ys ih => rw [pressAll_cons] at hx; exact pressOne_pass_sub s y x (ih _ hx)

theorem addPhase3_pass_eq (s : State) (k : Key) (m : Mapping) :
    (addPhase3 s k m).1.pass = (pressAll s m.to).1.pass := by
  unfold addPhase3; split <;> rfl

theorem addPhase4_pass_sub (s : State) (k : Key) (m : Mapping) (x : Key)
    (hx : x ∈ (addPhase4 s k m).1.pass) : x ∈ s.pass := by
  unfold addPhase4 at hx
  cases hr : m.rep <;> simp [hr, releaseAllActionKeys] at hx
  · exact hx
  · exact hx.1
  · exact hx.1

theorem ram_pass_sub (s : State) (x : Key) (hx : x ∈ (releaseActionMappings s).1.pass) : x ∈ s.pass := by
  simp [releaseActionMappings] at hx; exact hx.1

/-- in a clean state, firing `m` only shrinks pass-through, and removes every key `m` mentions -/
theorem addNewMapping_clean_pass {s : State} (k0 : Key) (m : Mapping) (hc : Clean s) (x : Key)
    (hx : x ∈ (addNewMapping s k0 m).1.pass) : x ∈ s.pass ∧ x ∉ m.frm ∧ x ∉ m.to := by
  rw [addNewMapping_eq] at hx
  simp only [addPhase1_eq] at hx
  have h4 := addPhase4_pass_sub _ k0 m x hx
  rw [addPhase3_pass_eq] at h4
  have h3 := pressAll_pass_sub _ _ x h4
  have hc1 : Clean (afterConsume s m) := ⟨hc.abs, hc.trig⟩
  rw [addPhase2_clean k0 m hc1] at h3
  have h2 : x ∈ (afterConsume s m).pass := by
    cases ham : isActionMapping m
    · simpa [ham] using h3
    · simp only [ham, if_true] at h3; exact ram_pass_sub _ x h3
  simp only [afterConsume, consume_eq, List.mem_filter] at h2
  simpa using h2

theorem passThrough_clean_pass {s : State} (k0 : Key) (hc : Clean s) (x : Key)
    (hx : x ∈ (passThrough s k0).1.pass) : x ∈ s.pass ∨ x = k0 := by
  unfold passThrough at hx
  cases ha : isActionKey k0
  · simpa [ha] using hx
  · simp only [ha, if_true, releaseAbsorbedKeys_clean (releaseActionMappings_clean hc), List.mem_append,
      List.mem_singleton] at hx
    rcases hx with hx | hx
    · exact Or.inl (ram_pass_sub s x hx)
    · exact Or.inr hx

/-- the drop loop hands a key over to pass-through only if no mapping that stays mentions it -/
theorem dropFailing_pass_new (k : Key) (s : State) (rb after : List Mapping) (x : Key)
    (hx : x ∈ (dropFailing k s rb after).1.pass) :
    x ∈ s.pass ∨ ∀ m, m ∈ (dropFailing k s rb after).1.active → x ∉ m.frm ∧ x ∉ m.to := by
  induction rb generalizing s after with
  | nil => left; simpa [dropFailing] using hx
  | cons m rb ih =>
    simp only [dropFailing] at hx ⊢
    split
    · rename_i hf
      simp only [hf, if_true] at hx
      rcases ih (removeMapping s rb.reverse after k).1 after hx with h1 | h1
      · rw [removeMapping_eq] at h1
        simp only [List.mem_append, List.mem_filter, List.mem_reverse] at h1
        rcases h1 with h1 | h1
        · exact Or.inl h1
        · right
          -- handed over at this removal: not used / shadowed by the others, which contain all that stays
          have hsub : ∀ m', m' ∈ (dropFailing k (removeMapping s rb.reverse after k).1 rb after).1.active →
              m' ∈ rb.reverse ++ after := by
            intro m' hm'
            exact dropFailing_active_sub k (removeMapping s rb.reverse after k).1 rb after m' hm'
          intro m' hm'
          have hm'' := hsub m' hm'
          have hho := h1.2
          simp only [hoP, Bool.and_eq_true, Bool.not_eq_eq_eq_not, Bool.not_true] at hho
          have hu : usedBy (rb.reverse ++ after) x = false := hho.1.1
          have hsh : shadowedBy (rb.reverse ++ after) x = false := hho.2
          constructor
          · intro hxf
            have : shadowedBy (rb.reverse ++ after) x = true := (shadowedBy_iff _ _).mpr ⟨m', hm'', hxf⟩
            rw [hsh] at this; simp at this
          · intro hxt
            have : usedBy (rb.reverse ++ after) x = true := (usedBy_iff _ _).mpr ⟨m', hm'', hxt⟩
            rw [hu] at this; simp at this
      · exact Or.inr h1
    · rename_i hf
      simp only [hf] at hx
      exact ih s (m :: after) hx
where
  dropFailing_active_sub (k : Key) (s : State) (rb after : List Mapping) (m' : Mapping)
      (h : m' ∈ (dropFailing k s rb after).1.active) : m' ∈ rb.reverse ++ after := by
    induction rb generalizing s after with
    | nil => simpa [dropFailing] using h
    | cons m rb ih =>
      simp only [dropFailing] at h
      split at h
      · have := ih _ after h; simp at this ⊢; rcases this with h1 | h1
        · exact Or.inl h1
        · exact Or.inr (Or.inr h1)
      · have := ih s (m :: after) h; simp at this ⊢
        rcases this with h1 | h1 | h1
        · exact Or.inl h1
        · exact Or.inr (Or.inl h1)
        · exact Or.inr (Or.inr h1)

theorem releaseTail_pass_sub (s : State) (k0 x : Key) (hnd : s.pass.Nodup)
    (hx : x ∈ (releaseTail s k0).1.pass) : x ∈ s.pass := by
  by_cases hc : s.pass.contains k0 = true
  · simp only [releaseTail, hc, if_true] at hx
    exact ((mem_removeLast k0 x hnd).mp hx).1
  · have hc' : k0 ∉ s.pass := by simpa using hc
    simpa [releaseTail, hc'] using hx

theorem Consumed.step {L : Layout} {P : List Key} {s : State} (h : Inv L P s) (hcl : Clean s)
    (hc : Consumed s) (e : Event) : Consumed (TmVerif.step L s e).1 := by
  cases e with
  | pressed k0 =>
    by_cases hk0 : k0 ∈ s.inp
    · rw [step_pressed_ignored L s k0 hk0]; exact hc
    · rw [step_pressed_accepted L s k0 hk0]
      have hc0 : Clean (pressPrep s k0) := ⟨by simp [pressPrep, hcl.abs], hcl.trig⟩
      cases hf : findMapping L s k0 with
      | some m =>
        rw [newlyPress_fire hf]
        have a := addNewMapping_spec (pressPrep s k0) k0 m (pressPrep_iinv k0 h.i) (findMapping_some hf).2.2
        obtain ⟨act, hact, hsub⟩ := a.2.2.2.1
        intro m' hm' x hx hxp
        have hp := addNewMapping_clean_pass k0 m hc0 x hxp
        simp only [hact, List.mem_append, List.mem_singleton] at hm'
        rcases hm' with hm' | hm'
        · exact hc m' (hsub m' hm') x hx hp.1
        · subst hm'
          rcases hx with hx | hx
          · exact hp.2.1 hx
          · exact hp.2.2 hx
      | none =>
        cases hn : noHit s k0 with
        | true =>
          rw [newlyPress_pass hf hn]
          have pc := passThrough_clean k0 hc0
          intro m' hm' x hx hxp
          simp only at hm' hxp
          rw [pc.2.2] at hm'
          rcases passThrough_clean_pass k0 hc0 x hxp with h1 | h1
          · exact hc m' hm' x hx h1
          · subst h1
            have := ((noHit_iff s x).mp hn).1 m' hm'
            rcases hx with hx | hx
            · exact this.1 hx
            · exact this.2 hx
        | false => rw [newlyPress_skip hf hn]; exact hc
  | released k0 =>
    by_cases hk0 : k0 ∈ s.inp
    · rw [step_released_accepted L s k0 hk0]
      have hst : (newlyRelease s k0).1 = (releaseKey s k0).1 := rfl
      rw [hst, releaseKey_eq]
      intro m' hm' x hx hxp
      simp only at hm' hxp
      have hdf := dropFailing_spec k0 s s.active.reverse [] h.i (by simp) (by simp)
      have hrt := releaseTail_spec k0 hdf.1 hdf.2.2.1
      rw [hrt.2.2.2.1] at hm'
      have hxp' : x ∈ (dropFailing k0 s s.active.reverse []).1.pass :=
        releaseTail_pass_sub _ k0 x hdf.1.ndPass hxp
      rcases dropFailing_pass_new k0 s s.active.reverse [] x hxp' with h1 | h1
      · exact hc m' (hdf.2.1.actSub m' hm') x hx h1
      · have := h1 m' hm'
        rcases hx with hx | hx
        · exact this.1 hx
        · exact this.2 hx
    · rw [step_released_ignored L s k0 hk0]; exact hc

theorem ReachableEv.consumed {L : Layout} (hL : NoAbs L) {x : Sys} (h : ReachableEv L x) : Consumed x.s := by
  obtain ⟨evs, rfl⟩ := h
  suffices ∀ (y : Sys), SInv L y → NAInv y.P y.s → Consumed y.s → Consumed (Sys.run L y (evs.map Op.ev)).s from
    this Sys.init (SInv.init L) NAInv.init (by intro m hm; simp [Sys.init, State.init] at hm)
  induction evs with
  | nil => exact fun y _ _ hc => hc
  | cons e es ih =>
    intro y hy hn hc
    simp only [List.map_cons, Sys.run, List.foldl_cons]
    exact ih _ (hy.next (Op.ev e)).1 (NAInv.step hL hy.inv hn e) (Consumed.step hy.inv hn.clean hc e)

end TmVerif
