/-
I8 (every layout, since the D5 fix — `consume_pass_through_keys` runs once more after
`release_absorbed_keys`): no trigger key and no output key of a mapping in effect is in the
pass-through list ("consumed").  Gives C02(d) and the second release clause of C05.
-/
import TmVerif.Proofs.Foreign

namespace TmVerif

def Consumed (s : State) : Prop :=
  ∀ m, m ∈ s.active → ∀ k, (k ∈ m.frm ∨ k ∈ m.to) → k ∉ s.pass

theorem pressOne_pass_sub (s : State) (y x : Key) (hx : x ∈ (pressOne s y).1.pass) : x ∈ s.pass := by
  unfold pressOne at hx
  split at hx
  · split at hx
    · exact hx
    · split at hx
      · simp at hx; exact hx.1
      · exact hx
  · split at hx <;> exact hx

theorem pressAll_pass_sub (s : State) (ys : List Key) (x : Key) (hx : x ∈ (pressAll s ys).1.pass) : x ∈ s.pass := by
  induction ys generalizing s with
  | nil => exact hx
  | cons y ys ih => rw [pressAll_cons] at hx; exact pressOne_pass_sub s y x (ih _ hx)

theorem addPhase3_pass_eq (s : State) (k : Key) (m : Mapping) :
    (addPhase3 s k m).1.pass = (pressAll s m.to).1.pass := by
  unfold addPhase3; split <;> rfl

theorem addPhase4_pass_sub (s : State) (k : Key) (m : Mapping) (x : Key)
    (hx : x ∈ (addPhase4 s k m).1.pass) : x ∈ s.pass := by
  unfold addPhase4 at hx
  cases hr : m.rep <;> simp [hr, releaseAllActionKeys] at hx
  · exact hx
  · exact hx.1
  · exact hx.1

theorem ram_pass_sub (s : State) (x : Key) (hx : x ∈ (releaseActionMappings s).1.pass) : x ∈ s.pass := by
  simp [releaseActionMappings] at hx; exact hx.1

/-- in a clean state, firing `m` only shrinks pass-through, and removes every key `m` mentions -/
theorem addNewMapping_clean_pass {s : State} (k0 : Key) (m : Mapping) (hc : Clean s) (x : Key)
    (hx : x ∈ (addNewMapping s k0 m).1.pass) : x ∈ s.pass ∧ x ∉ m.frm ∧ x ∉ m.to := by
  rw [addNewMapping_eq] at hx
  simp only [addPhase1_eq] at hx
  have h4 := addPhase4_pass_sub _ k0 m x hx
  rw [addPhase3_pass_eq] at h4
  have h3 := pressAll_pass_sub _ _ x h4
  have hc1 : Clean (afterConsume s m) := ⟨hc.abs, hc.trig⟩
  rw [addPhase2_clean k0 m hc1 (afterConsume_clear s m)] at h3
  have h2 : x ∈ (afterConsume s m).pass := by
    cases ham : producesActionKey m
    · simpa [ham] using h3
    · simp only [ham, if_true] at h3; exact ram_pass_sub _ x h3
  simp only [afterConsume, consume_eq, List.mem_filter] at h2
  simpa using h2

theorem passThrough_clean_pass {s : State} (k0 : Key) (hc : Clean s) (x : Key)
    (hx : x ∈ (passThrough s k0).1.pass) : x ∈ s.pass ∨ x = k0 := by
  unfold passThrough at hx
  cases ha : isActionKey k0
  · simpa [ha] using hx
  · simp only [ha, if_true, releaseAbsorbedKeys_clean (releaseActionMappings_clean hc), List.mem_append,
      List.mem_singleton] at hx
    rcases hx with hx | hx
    · exact Or.inl (ram_pass_sub s x hx)
    · exact Or.inr hx

/-- the drop loop hands a key over to pass-through only if no mapping that stays mentions it -/
theorem dropFailing_pass_new (k : Key) (s : State) (rb after : List Mapping) (x : Key)
    (hx : x ∈ (dropFailing k s rb after).1.pass) :
    x ∈ s.pass ∨ ∀ m, m ∈ (dropFailing k s rb after).1.active → x ∉ m.frm ∧ x ∉ m.to := by
  induction rb generalizing s after with
  | nil => left; simpa [dropFailing] using hx
  | cons m rb ih =>
    simp only [dropFailing] at hx ⊢
    split
    · rename_i hf
      simp only [hf, if_true] at hx
      rcases ih (removeMapping s rb.reverse after k).1 after hx with h1 | h1
      · rw [removeMapping_eq] at h1
        simp only [List.mem_append, List.mem_filter, List.mem_reverse] at h1
        rcases h1 with h1 | h1
        · exact Or.inl h1
        · right
          -- handed over at this removal: not used / shadowed by the others, which contain all that stays
          have hsub : ∀ m', m' ∈ (dropFailing k (removeMapping s rb.reverse after k).1 rb after).1.active →
              m' ∈ rb.reverse ++ after := by
            intro m' hm'
            exact dropFailing_active_sub k (removeMapping s rb.reverse after k).1 rb after m' hm'
          intro m' hm'
          have hm'' := hsub m' hm'
          have hho := h1.2
          simp only [hoP, Bool.and_eq_true, Bool.not_eq_eq_eq_not, Bool.not_true] at hho
          have hu : usedBy (rb.reverse ++ after) x = false := hho.1.1
          have hsh : shadowedBy (rb.reverse ++ after) x = false := hho.2
          constructor
          · intro hxf
            have : shadowedBy (rb.reverse ++ after) x = true := (shadowedBy_iff _ _).mpr ⟨m', hm'', hxf⟩
            rw [hsh] at this; simp at this
          · intro hxt
            have : usedBy (rb.reverse ++ after) x = true := (usedBy_iff _ _).mpr ⟨m', hm'', hxt⟩
            rw [hu] at this; simp at this
      · exact Or.inr h1
    · rename_i hf
      simp only [hf] at hx
      exact ih s (m :: after) hx
where
  dropFailing_active_sub (k : Key) (s : State) (rb after : List Mapping) (m' : Mapping)
      (h : m' ∈ (dropFailing k s rb after).1.active) : m' ∈ rb.reverse ++ after := by
    induction rb generalizing s after with
    | nil => simpa [dropFailing] using h
    | cons m rb ih =>
      simp only [dropFailing] at h
      split at h
      · have := ih _ after h; simp at this ⊢; rcases this with h1 | h1
        · exact Or.inl h1
        · exact Or.inr (Or.inr h1)
      · have := ih s (m :: after) h; simp at this ⊢
        rcases this with h1 | h1 | h1
        · exact Or.inl h1
        · exact Or.inr (Or.inl h1)
        · exact Or.inr (Or.inr h1)

theorem releaseTail_pass_sub (s : State) (k0 x : Key) (hnd : s.pass.Nodup)
    (hx : x ∈ (releaseTail s k0).1.pass) : x ∈ s.pass := by
  by_cases hc : s.pass.contains k0 = true
  · simp only [releaseTail, hc, if_true] at hx
    exact ((mem_removeLast k0 x hnd).mp hx).1
  · have hc' : k0 ∉ s.pass := by simpa using hc
    simpa [releaseTail, hc'] using hx

/-! ### the sub-functions of a step preserve `Consumed` (every layout) -/

/-- no key `m` mentions is in the pass-through list -/
def ConsumedFor (s : State) (m : Mapping) : Prop :=
  ∀ k, (k ∈ m.frm ∨ k ∈ m.to) → k ∉ s.pass

theorem Consumed.of_sub {s t : State} (hc : Consumed s) (hact : ∀ m, m ∈ t.active → m ∈ s.active)
    (hpass : ∀ x, x ∈ t.pass → x ∈ s.pass) : Consumed t :=
  fun m hm k hk hkp => hc m (hact m hm) k hk (hpass k hkp)

theorem ConsumedFor.of_sub {s t : State} {m : Mapping} (hc : ConsumedFor s m)
    (hpass : ∀ x, x ∈ t.pass → x ∈ s.pass) : ConsumedFor t m :=
  fun k hk hkp => hc k hk (hpass k hkp)

theorem ram_consumed {s : State} (hc : Consumed s) : Consumed (releaseActionMappings s).1 :=
  hc.of_sub (fun m hm => by rw [(releaseActionMappings_frame s).2.1] at hm; exact hm) (ram_pass_sub s)

/-- releasing one key: a mapping that stays mentions no pass-through key — old ones by hypothesis,
handed-over ones because `remove_mapping` only hands over keys the remaining mappings do not mention -/
theorem releaseKey_consumed {extra : List Key} {s : State} (k0 : Key) (h : IInv extra s) (hc : Consumed s) :
    Consumed (releaseKey s k0).1 := by
  rw [releaseKey_eq]
  intro m' hm' x hx hxp
  simp only at hm' hxp
  have hdf := dropFailing_spec k0 s s.active.reverse [] h (by simp) (by simp)
  have hrt := releaseTail_spec k0 hdf.1 hdf.2.2.1
  rw [hrt.2.2.2.1] at hm'
  have hxp' : x ∈ (dropFailing k0 s s.active.reverse []).1.pass :=
    releaseTail_pass_sub _ k0 x hdf.1.ndPass hxp
  rcases dropFailing_pass_new k0 s s.active.reverse [] x hxp' with h1 | h1
  · exact hc m' (hdf.2.1.actSub m' hm') x hx h1
  · have := h1 m' hm'
    rcases hx with hx | hx
    · exact this.1 hx
    · exact this.2 hx

theorem releaseAbsorbedLoop_consumed {extra : List Key} (s : State) (ks : List Key) (h : IInv extra s)
    (hc : Consumed s) : Consumed (releaseAbsorbedLoop s ks).1 := by
  induction ks generalizing s with
  | nil => exact hc
  | cons k ks ih =>
    rw [releaseAbsorbedLoop_cons]
    exact ih (releaseKey s k).1 (releaseKey_spec k h).1 (releaseKey_consumed k h hc)

theorem releaseAbsorbedKeys_consumed {extra : List Key} (s : State) (h : IInv extra s) (hc : Consumed s) :
    Consumed (releaseAbsorbedKeys s).1 := by
  unfold releaseAbsorbedKeys
  exact releaseAbsorbedLoop_consumed _ s.absorbed
    ⟨h.ndPass, h.ndMapped, h.disj, h.passInp, h.actInp, h.mappedAct⟩ hc

/-- the second part of `add_new_mapping`: with the D5 fix the keys of `m` are out of pass-through at the
end, whatever `release_absorbed_keys` handed back -/
theorem addPhase2_consumed (s : State) (k : Key) (m : Mapping) (h : IInv m.to s) (hc : Consumed s)
    (hm : ConsumedFor s m) :
    Consumed (addPhase2 s k m).1 ∧ ConsumedFor (addPhase2 s k m).1 m := by
  have hc0 : Consumed (ramIf m s).1 :=
    hc.of_sub (fun m' hm' => by rw [(ramIf_frame m s).2.1] at hm'; exact hm') (ramIf_pass_sub m s)
  cases hb : absorbsNow s k m
  · rw [addPhase2_skip s k m hb]
    exact ⟨hc0, hm.of_sub (ramIf_pass_sub m s)⟩
  · rw [addPhase2_run s k m hb]
    have h1 := ramIf_spec m h
    have c2 := releaseAbsorbedKeys_consumed _ h1.1 hc0
    refine ⟨c2.of_sub (fun _ hx => hx) (fun x hx => (afterConsume_pass_clear _ m x hx).1), ?_⟩
    intro x hx hxp
    have := (afterConsume_pass_clear _ m x hxp).2
    rcases hx with hx | hx
    · exact this.1 hx
    · exact this.2 hx

/-- firing a mapping -/
theorem addNewMapping_consumed (s : State) (k0 : Key) (m : Mapping) (h : IInv [] s) (hc : Consumed s) :
    Consumed (addNewMapping s k0 m).1 := by
  have c1 := (consume_spec s m h).1
  simp only [List.nil_append] at c1
  have hc1 : Consumed (afterConsume s m) :=
    hc.of_sub (fun _ hx => hx) (fun x hx => (afterConsume_pass_clear s m x hx).1)
  have hm1 : ConsumedFor (afterConsume s m) m := by
    intro x hx hxp
    have := (afterConsume_pass_clear s m x hxp).2
    rcases hx with hx | hx
    · exact this.1 hx
    · exact this.2 hx
  have p2 := addPhase2_consumed (afterConsume s m) k0 m c1 hc1 hm1
  have d1 := (addPhase2_spec (afterConsume s m) k0 m c1).1
  have pa := pressAll_spec (addPhase2 (afterConsume s m) k0 m).1 m.to d1 (fun _ hx => hx)
  have hact3 : (addPhase3 (addPhase2 (afterConsume s m) k0 m).1 k0 m).1.active =
      (addPhase2 (afterConsume s m) k0 m).1.active ++ [m] := by
    have : (addPhase3 (addPhase2 (afterConsume s m) k0 m).1 k0 m).1.active =
        (pressAll (addPhase2 (afterConsume s m) k0 m).1 m.to).1.active ++ [m] := by
      unfold addPhase3; split <;> rfl
    rw [this, pa.2.2.2.2.2.2.2.2.2.1]
  rw [addNewMapping_eq]
  simp only [addPhase1_eq]
  intro m' hm' x hx hxp
  have h4 := addPhase4_pass_sub _ k0 m x hxp
  rw [addPhase3_pass_eq] at h4
  have h3 := pressAll_pass_sub _ _ x h4
  rw [(addPhase4_frame _ k0 m).2.2.2, hact3] at hm'
  simp only [List.mem_append, List.mem_singleton] at hm'
  rcases hm' with hm' | hm'
  · exact p2.1 m' hm' x hx h3
  · subst hm'; exact p2.2 x hx h3

/-- passing a key through that no mapping in effect mentions -/
theorem passThrough_consumed (s : State) (k0 : Key) (h : IInv [] s) (hc : Consumed s)
    (hnohit : ∀ m, m ∈ s.active → k0 ∉ m.frm ∧ k0 ∉ m.to) : Consumed (passThrough s k0).1 := by
  have key : ∃ s1, (passThrough s k0).1 = { s1 with pass := s1.pass ++ [k0] } ∧
      Consumed s1 ∧ ∀ m, m ∈ s1.active → m ∈ s.active := by
    unfold passThrough
    cases ha : isActionKey k0
    · exact ⟨s, by simp, hc, fun _ hm => hm⟩
    · have h1 := releaseActionMappings_spec h
      have h2 := releaseAbsorbedKeys_spec _ h1.1
      exact ⟨_, by simp, releaseAbsorbedKeys_consumed _ h1.1 (ram_consumed hc), (h1.2.trans h2.2.1).actSub⟩
  obtain ⟨s1, heq, hc1, hsub⟩ := key
  rw [heq]
  intro m' hm' x hx hxp
  simp only [List.mem_append, List.mem_singleton] at hm' hxp
  rcases hxp with hxp | hxp
  · exact hc1 m' hm' x hx hxp
  · subst hxp
    have := hnohit m' (hsub m' hm')
    rcases hx with hx | hx
    · exact this.1 hx
    · exact this.2 hx

theorem Consumed.step {L : Layout} {P : List Key} {s : State} (h : Inv L P s)
    (hc : Consumed s) (e : Event) : Consumed (TmVerif.step L s e).1 := by
  cases e with
  | pressed k0 =>
    by_cases hk0 : k0 ∈ s.inp
    · rw [step_pressed_ignored L s k0 hk0]; exact hc
    · rw [step_pressed_accepted L s k0 hk0]
      have hc0 : Consumed (pressPrep s k0) := hc
      cases hf : findMapping L s k0 with
      | some m =>
        rw [newlyPress_fire hf]
        exact addNewMapping_consumed (pressPrep s k0) k0 m (pressPrep_iinv k0 h.i) hc0
      | none =>
        cases hn : noHit s k0 with
        | true =>
          rw [newlyPress_pass hf hn]
          exact passThrough_consumed (pressPrep s k0) k0 (pressPrep_iinv k0 h.i) hc0 ((noHit_iff s k0).mp hn).1
        | false => rw [newlyPress_skip hf hn]; exact hc
  | released k0 =>
    by_cases hk0 : k0 ∈ s.inp
    · rw [step_released_accepted L s k0 hk0]
      exact releaseKey_consumed k0 h.i hc
    · rw [step_released_ignored L s k0 hk0]; exact hc

/-- I8 for every layout: over every history of key events no key a mapping in effect mentions is passed through -/
theorem ReachableEv.consumed {L : Layout} {x : Sys} (h : ReachableEv L x) : Consumed x.s := by
  obtain ⟨evs, rfl⟩ := h
  suffices ∀ (y : Sys), SInv L y → Consumed y.s → Consumed (Sys.run L y (evs.map Op.ev)).s from
    this Sys.init (SInv.init L) (by intro m hm; simp [Sys.init, State.init] at hm)
  induction evs with
  | nil => exact fun y _ hc => hc
  | cons e es ih =>
    intro y hy hc
    simp only [List.map_cons, Sys.run, List.foldl_cons]
    exact ih _ (hy.next (Op.ev e)).1 (Consumed.step hy.inv hc e)

/-- the release-all loop is a sequence of release steps: it preserves I8 -/
theorem releaseAllLoop_consumed (L : Layout) (P : List Key) (s : State) (ks : List Key) (h : Inv L P s)
    (hc : Consumed s) : Consumed (releaseAllLoop L s ks).1 := by
  induction ks generalizing s with
  | nil => exact hc
  | cons k ks ih =>
    have heq : (releaseAllLoop L s (k :: ks)).1 = (releaseAllLoop L (TmVerif.step L s (Event.released k)).1 ks).1 := rfl
    rw [heq]
    have hi : Inv L P (TmVerif.step L s (Event.released k)).1 :=
      (step_inv L P s (Event.released k) h).1.monoP (by intro x hx; simp only [applyEv, List.mem_filter] at hx; exact hx.1)
    exact ih _ hi (Consumed.step h hc (Event.released k))

/-- I8 for every layout and every history of key events AND release-all calls -/
theorem Reachable.consumed {L : Layout} {x : Sys} (h : Reachable L x) : Consumed x.s := by
  obtain ⟨ops, rfl⟩ := h
  suffices ∀ (y : Sys), SInv L y → Consumed y.s → Consumed (Sys.run L y ops).s from
    this Sys.init (SInv.init L) (by intro m hm; simp [Sys.init, State.init] at hm)
  induction ops with
  | nil => exact fun y _ hc => hc
  | cons op ops ih =>
    intro y hy hc
    simp only [Sys.run, List.foldl_cons]
    apply ih _ (hy.next op).1
    cases op with
    | ev e => exact Consumed.step hy.inv hc e
    | relAll => exact releaseAllLoop_consumed L y.P y.s y.s.inp hy.inv hc

end TmVerif
