/-
`load_saveable`, part 1: what `parse_layout_from_json` guarantees about the fancy layout it
returns (`Fancy.layoutOK`): every key is one of the 484 key codes, delays are `i32` values, absorbed
modifiers occur among the trigger's modifiers.
-/
import TmVerif.Proofs.LoadSave

namespace TmVerif
open Outcome Parse Fancy TmVerif.Tables

namespace Fancy

def modOK : Modifier → Bool
  | Modifier.key k => isKnownKey k
  | Modifier.alias _ => true

def modsOK (ms : List Modifier) : Bool := ms.all modOK

def termOK : Terminal → Bool
  | Terminal.physical k => isKnownKey k
  | Terminal.null => true

def stkOK (t : SingleToKeys) : Bool := modsOK t.initial && termOK t.terminal

def srepOK : SingleRepeat → Bool
  | SingleRepeat.special keys d i => stkOK keys && inI32 d && inI32 i
  | _ => true

def rrepOK : RowRepeat → Bool
  | RowRepeat.special keys d i => modsOK keys.initial && inI32 d && inI32 i
  | _ => true

def mappingOK : Fancy.Mapping → Bool
  | Mapping.single s =>
    modsOK s.frm.modifiers && isKnownKey s.frm.key && stkOK s.to && srepOK s.rep && modsOK s.absorbing &&
      absorbingOk s.absorbing s.frm.modifiers
  | Mapping.alias a => keysKnown a.frm.keys && keysKnown a.to.initial
  | Mapping.row r =>
    modsOK r.frm.modifiers && modsOK r.to.initial && rrepOK r.rep && modsOK r.absorbing &&
      absorbingOk r.absorbing r.frm.modifiers
  | Mapping.repeatOnly s => modsOK s.frm.modifiers && isKnownKey s.frm.key && srepOK s.rep

/-- what the parser guarantees about every mapping of the layout it returns -/
def layoutOK (F : Fancy.Layout) : Bool := F.all mappingOK

end Fancy

/-! ## keys -/

theorem lookupVariantIn_known {name : List Nat} {tbl : List (Nat × List Nat × List Nat)} {d : Key}
    (h : lookupVariantIn name tbl = some d) : (serdeNameIn d tbl).isSome = true := by
  induction tbl with
  | nil => cases h
  | cons r rest ih =>
    obtain ⟨d', v, s⟩ := r
    simp only [lookupVariantIn] at h
    simp only [serdeNameIn]
    split at h
    · simp at h; subst h; simp
    · split
      · rfl
      · exact ih h

theorem parseKeyCode_known {n : List Char} {k : Key} (h : parseKeyCode n = some k) : isKnownKey k = true := by
  unfold parseKeyCode parseKeyCodeN at h
  simp only [isKnownKey, serdeNameN]
  split at h
  · cases h
  all_goals exact lookupVariantIn_known h

theorem parseKeyCodeO_known {t : List Char} {k : Key} (h : parseKeyCodeO t = ok k) : isKnownKey k = true :=
  parseKeyCode_known (ofOption_eq_ok.1 h)

namespace Parse

theorem modifier_text_ok {t : List Char} {m : Modifier}
    (h : (if startsWithAt t then ok (Modifier.alias t)
          else (parseKeyCodeO t).bind fun k => ok (Modifier.key k)) = ok m) : modOK m = true := by
  split at h
  · simp at h; subst h; rfl
  · obtain ⟨k, hk, h⟩ := bind_eq_ok.1 h
    simp at h; subst h
    exact parseKeyCodeO_known hk

theorem parseModifier_ok {t : List Char} {m : Modifier} (h : parseModifier t = ok m) : modOK m = true :=
  modifier_text_ok h

theorem parseFromModifier_ok {v : Json} {m : Modifier} (h : parseFromModifier v = ok m) : modOK m = true := by
  unfold parseFromModifier at h
  split at h
  · exact modifier_text_ok h
  · cases h

theorem parseToInitialElem_ok {v : Json} {m : Modifier} (h : parseToInitialElem v = ok m) : modOK m = true := by
  unfold parseToInitialElem at h
  split at h
  · exact modifier_text_ok h
  · cases h

theorem parseAbsorbingElem_ok {v : Json} {m : Modifier} (h : parseAbsorbingElem v = ok m) : modOK m = true := by
  unfold parseAbsorbingElem at h
  split at h
  · exact parseModifier_ok h
  · cases h

theorem mapM_modsOK {f : Json → Outcome Modifier} (hf : ∀ v m, f v = ok m → modOK m = true)
    {vs : List Json} {ms : List Modifier} (h : mapM f vs = ok ms) : modsOK ms = true := by
  simp only [modsOK, List.all_eq_true]
  intro m hm
  obtain ⟨v, _, hv⟩ := mapM_mem h hm
  exact hf v m hv

theorem parseFromModifiers_ok {vs : List Json} {ms : List Modifier} (h : parseFromModifiers vs = ok ms) :
    modsOK ms = true := mapM_modsOK (fun _ _ => parseFromModifier_ok) h

theorem parseToInitial_ok {vs : List Json} {ms : List Modifier} (h : parseToInitial vs = ok ms) :
    modsOK ms = true := mapM_modsOK (fun _ _ => parseToInitialElem_ok) h

theorem parseAliasToInitial_ok {vs : List Json} {ks : List Key} (h : parseAliasToInitial vs = ok ks) :
    keysKnown ks = true := by
  simp only [keysKnown, List.all_eq_true]
  intro k hk
  obtain ⟨v, _, hv⟩ := mapM_mem h hk
  unfold parseKeyCodeJ at hv
  split at hv
  · exact parseKeyCodeO_known hv
  · cases hv

theorem parseFromRow_row {e : List (List Char × Json)} {r : FromKey} (h : parseFromRow e = ok r) :
    ∃ rw, r = FromKey.row rw := by
  unfold parseFromRow at h
  split at h
  · obtain ⟨_, _, h⟩ := bind_eq_ok.1 h
    split at h
    · obtain ⟨rw, _, h⟩ := bind_eq_ok.1 h
      simp at h
      exact ⟨rw, h.symm⟩
    · cases h
  · cases h

theorem parseFromKey_single {v : Json} {k : Key} (h : parseFromKey v = ok (FromKey.single k)) :
    isKnownKey k = true := by
  unfold parseFromKey at h
  split at h
  · obtain ⟨k', hk', h⟩ := bind_eq_ok.1 h
    simp at h; subst h
    exact parseKeyCodeO_known hk'
  · unfold parseFromKeyObj at h
    split at h
    · obtain ⟨rw, hrw⟩ := parseFromRow_row h
      cases hrw
    · cases h
  · cases h

/-- the shared tail of both branches of `parse_from` -/
theorem parseFrom_tail {modifiers : List Modifier} {last : Json} {r : FromKeys}
    (h : ((parseFromKey last).bind fun key =>
          match key with
          | FromKey.single k => ok (FromKeys.single ⟨modifiers, k⟩)
          | FromKey.row rw => ok (FromKeys.row ⟨modifiers, rw⟩)) = ok r) :
    (∃ k, isKnownKey k = true ∧ r = FromKeys.single ⟨modifiers, k⟩) ∨ (∃ rw, r = FromKeys.row ⟨modifiers, rw⟩) := by
  obtain ⟨key, hkey, h⟩ := bind_eq_ok.1 h
  cases key with
  | single k => simp at h; exact Or.inl ⟨k, parseFromKey_single hkey, h.symm⟩
  | row rw => simp at h; exact Or.inr ⟨rw, h.symm⟩

/-- `parse_from`: the modifiers are known keys or aliases; a final key is a known key -/
theorem parseFrom_ok {v : Json} {r : FromKeys} (h : parseFrom v = ok r) :
    (∃ f, r = FromKeys.single f ∧ modsOK f.modifiers = true ∧ isKnownKey f.key = true) ∨
    (∃ f, r = FromKeys.row f ∧ modsOK f.modifiers = true) := by
  unfold parseFrom at h
  split at h
  · split at h
    · cases h
    · obtain ⟨ms, hms, h⟩ := bind_eq_ok.1 h
      obtain ⟨last, _, h⟩ := bind_eq_ok.1 h
      rcases parseFrom_tail h with ⟨k, hk, rfl⟩ | ⟨rw, rfl⟩
      · exact Or.inl ⟨_, rfl, parseFromModifiers_ok hms, hk⟩
      · exact Or.inr ⟨_, rfl, parseFromModifiers_ok hms⟩
  · rcases parseFrom_tail h with ⟨k, hk, rfl⟩ | ⟨rw, rfl⟩
    · exact Or.inl ⟨_, rfl, rfl, hk⟩
    · exact Or.inr ⟨_, rfl, rfl⟩

theorem parseSingleToTerminal_ok {v : Json} {t : Terminal} (h : parseSingleToTerminal v = ok t) :
    termOK t = true := by
  unfold parseSingleToTerminal parseSingleToText at h
  split at h
  · split at h
    · cases h
    · obtain ⟨k, hk, h⟩ := bind_eq_ok.1 h
      simp at h; subst h
      exact parseKeyCodeO_known hk
  · cases h
  · cases h

theorem parseSingleTo_ok {v : Json} {t : SingleToKeys} (h : parseSingleTo v = ok t) : stkOK t = true := by
  unfold parseSingleTo at h
  split at h
  · unfold parseSingleToArray at h
    split at h
    · simp at h; subst h; rfl
    · obtain ⟨ms, hms, h⟩ := bind_eq_ok.1 h
      obtain ⟨last, _, h⟩ := bind_eq_ok.1 h
      obtain ⟨term, hterm, h⟩ := bind_eq_ok.1 h
      simp at h; subst h
      simp [stkOK, parseToInitial_ok hms, parseSingleToTerminal_ok hterm]
  · obtain ⟨term, hterm, h⟩ := bind_eq_ok.1 h
    simp at h; subst h
    simp [stkOK, modsOK, parseSingleToTerminal_ok hterm]

theorem parseSingleOrAliasToTerminal_single {v : Json} {t : Terminal}
    (h : parseSingleOrAliasToTerminal v = ok (SingleOrAliasToTerminal.single t)) : termOK t = true := by
  unfold parseSingleOrAliasToTerminal parseSingleOrAliasToText at h
  split at h
  · split at h
    · simp at h
    · obtain ⟨k, hk, h⟩ := bind_eq_ok.1 h
      simp at h; subst h
      exact parseKeyCodeO_known hk
  · cases h
  · cases h

/-- `parse_single_or_alias_to` -/
theorem parseSingleOrAliasTo_ok {v : Json} {r : SingleOrAliasToKeys} (h : parseSingleOrAliasTo v = ok r) :
    (∃ t, r = SingleOrAliasToKeys.single t ∧ stkOK t = true) ∨
    (∃ t, r = SingleOrAliasToKeys.alias t ∧ keysKnown t.initial = true) := by
  unfold parseSingleOrAliasTo at h
  split at h
  · unfold parseSingleOrAliasToArray at h
    split at h
    · simp at h; subst h; exact Or.inl ⟨_, rfl, rfl⟩
    · obtain ⟨last, _, h⟩ := bind_eq_ok.1 h
      obtain ⟨term, hterm, h⟩ := bind_eq_ok.1 h
      cases term with
      | single t =>
        obtain ⟨ms, hms, h⟩ := bind_eq_ok.1 h
        simp at h; subst h
        exact Or.inl ⟨_, rfl, by simp [stkOK, parseToInitial_ok hms, parseSingleOrAliasToTerminal_single hterm]⟩
      | alias n =>
        obtain ⟨ks, hks, h⟩ := bind_eq_ok.1 h
        simp at h; subst h
        exact Or.inr ⟨_, rfl, parseAliasToInitial_ok hks⟩
  · obtain ⟨term, hterm, h⟩ := bind_eq_ok.1 h
    cases term with
    | single t =>
      simp at h; subst h
      exact Or.inl ⟨_, rfl, by simp [stkOK, modsOK, parseSingleOrAliasToTerminal_single hterm]⟩
    | alias n =>
      simp at h; subst h
      exact Or.inr ⟨_, rfl, rfl⟩

theorem parseRowTo_ok {v : Json} {t : RowToKeys} (h : parseRowTo v = ok t) : modsOK t.initial = true := by
  unfold parseRowTo at h
  split at h
  · unfold parseRowToArray at h
    split at h
    · cases h
    · obtain ⟨ms, hms, h⟩ := bind_eq_ok.1 h
      obtain ⟨last, _, h⟩ := bind_eq_ok.1 h
      obtain ⟨term, _, h⟩ := bind_eq_ok.1 h
      simp at h; subst h
      exact parseToInitial_ok hms
  · obtain ⟨term, _, h⟩ := bind_eq_ok.1 h
    simp at h; subst h
    rfl

theorem inI32_toI32 (i : Int) : inI32 (toI32 i) = true := by
  have h1 := Int.emod_nonneg (i + 2147483648) (b := 4294967296) (by decide)
  have h2 := Int.emod_lt_of_pos (i + 2147483648) (b := 4294967296) (by decide)
  unfold inI32 toI32
  generalize (i + 2147483648) % 4294967296 = r at h1 h2 ⊢
  simp only [Bool.and_eq_true, decide_eq_true_eq]
  omega

theorem parseRepeatMs_ok {v : Json} {d : Int} (h : parseRepeatMs v = ok d) : inI32 d = true := by
  unfold parseRepeatMs at h
  split at h
  · obtain ⟨i, _, h⟩ := bind_eq_ok.1 h
    simp at h; subst h
    exact inI32_toI32 i
  · cases h

theorem parseSingleRepeat_ok {v : Option Json} {r : SingleRepeat} (h : parseSingleRepeat v = ok r) :
    srepOK r = true := by
  unfold parseSingleRepeat at h
  split at h
  · split at h
    · simp at h; subst h; rfl
    · split at h
      · simp at h; subst h; rfl
      · cases h
  · split at h
    · obtain ⟨sp, _, h⟩ := bind_eq_ok.1 h
      split at h
      · split at h
        · obtain ⟨_, _, h⟩ := bind_eq_ok.1 h
          obtain ⟨_, _, h⟩ := bind_eq_ok.1 h
          obtain ⟨_, _, h⟩ := bind_eq_ok.1 h
          obtain ⟨keys, hkeys, h⟩ := bind_eq_ok.1 h
          obtain ⟨d, hd, h⟩ := bind_eq_ok.1 h
          obtain ⟨i, hi, h⟩ := bind_eq_ok.1 h
          simp at h; subst h
          simp [srepOK, parseSingleTo_ok hkeys, parseRepeatMs_ok hd, parseRepeatMs_ok hi]
        · cases h
      · cases h
    · cases h
  · cases h
  · simp at h; subst h; rfl

theorem parseRowRepeat_ok {v : Option Json} {r : RowRepeat} (h : parseRowRepeat v = ok r) :
    rrepOK r = true := by
  unfold parseRowRepeat at h
  split at h
  · split at h
    · simp at h; subst h; rfl
    · split at h
      · simp at h; subst h; rfl
      · cases h
  · split at h
    · obtain ⟨sp, _, h⟩ := bind_eq_ok.1 h
      split at h
      · split at h
        · obtain ⟨_, _, h⟩ := bind_eq_ok.1 h
          obtain ⟨_, _, h⟩ := bind_eq_ok.1 h
          obtain ⟨_, _, h⟩ := bind_eq_ok.1 h
          obtain ⟨keys, hkeys, h⟩ := bind_eq_ok.1 h
          obtain ⟨d, hd, h⟩ := bind_eq_ok.1 h
          obtain ⟨i, hi, h⟩ := bind_eq_ok.1 h
          simp at h; subst h
          simp [rrepOK, parseRowTo_ok hkeys, parseRepeatMs_ok hd, parseRepeatMs_ok hi]
        · cases h
      · cases h
    · cases h
  · cases h
  · simp at h; subst h; rfl

theorem parseAbsorbing_ok {v : Option Json} {ms : List Modifier} (h : parseAbsorbing v = ok ms) :
    modsOK ms = true := by
  unfold parseAbsorbing at h
  split at h
  · exact mapM_modsOK (fun _ _ => parseAbsorbingElem_ok) h
  · obtain ⟨m, hm, h⟩ := bind_eq_ok.1 h
    simp at h; subst h
    simp [modsOK, parseModifier_ok hm]
  · cases h
  · simp at h; subst h; rfl

theorem modifierKeys_ok {ms : List Modifier} {ks : List Key} (h : modifierKeys ms = ok ks)
    (hms : modsOK ms = true) : keysKnown ks = true := by
  induction ms generalizing ks with
  | nil => simp [modifierKeys] at h; subst h; rfl
  | cons m ms ih =>
    cases m with
    | alias n => simp [modifierKeys] at h
    | key k =>
      simp only [modifierKeys] at h
      obtain ⟨ks', hks', h⟩ := bind_eq_ok.1 h
      simp at h; subst h
      simp only [modsOK, List.all_cons, Bool.and_eq_true] at hms
      have := ih hks' hms.2
      simp only [keysKnown, List.all_cons, Bool.and_eq_true]
      exact ⟨hms.1, this⟩

theorem singleToAliasFrom_ok {f : SingleFromKeys} {af : AliasFromKeys} (h : singleToAliasFrom f = ok af)
    (hm : modsOK f.modifiers = true) (hk : isKnownKey f.key = true) : keysKnown af.keys = true := by
  simp only [singleToAliasFrom] at h
  obtain ⟨ks, hks, h⟩ := bind_eq_ok.1 h
  simp at h; subst h
  have := modifierKeys_ok hks hm
  simp only [keysKnown, List.all_append, List.all_cons, List.all_nil, Bool.and_true, Bool.and_eq_true] at this ⊢
  exact ⟨this, hk⟩

/-- `parse_mapping_from_json` only returns mappings satisfying `mappingOK` -/
theorem parseMappingFromJson_ok {v : Json} {m : Fancy.Mapping} (h : parseMappingFromJson v = ok m) :
    mappingOK m = true := by
  unfold parseMappingFromJson at h
  split at h
  · split at h
    · obtain ⟨fv, _, h⟩ := bind_eq_ok.1 h
      obtain ⟨frm, hfrm, h⟩ := bind_eq_ok.1 h
      rcases parseFrom_ok hfrm with ⟨f, rfl, hf1, hf2⟩ | ⟨f, rfl, hf1⟩
      · simp only at h
        obtain ⟨tv, _, h⟩ := bind_eq_ok.1 h
        obtain ⟨to, hto, h⟩ := bind_eq_ok.1 h
        rcases parseSingleOrAliasTo_ok hto with ⟨t, rfl, ht⟩ | ⟨t, rfl, ht⟩
        · simp only at h
          obtain ⟨rep, hrep, h⟩ := bind_eq_ok.1 h
          obtain ⟨abs, habs, h⟩ := bind_eq_ok.1 h
          split at h
          · rename_i hao
            simp at h; subst h
            simp [mappingOK, hf1, hf2, ht, parseSingleRepeat_ok hrep, parseAbsorbing_ok habs, hao]
          · cases h
        · simp only at h
          split at h
          · cases h
          · split at h
            · cases h
            · obtain ⟨af, haf, h⟩ := bind_eq_ok.1 h
              simp at h; subst h
              simp [mappingOK, singleToAliasFrom_ok haf hf1 hf2, ht]
      · simp only at h
        obtain ⟨tv, _, h⟩ := bind_eq_ok.1 h
        obtain ⟨to, hto, h⟩ := bind_eq_ok.1 h
        obtain ⟨rep, hrep, h⟩ := bind_eq_ok.1 h
        have h := ite_error_left h
        obtain ⟨abs, habs, h⟩ := bind_eq_ok.1 h
        split at h
        · rename_i hao
          simp at h; subst h
          simp [mappingOK, hf1, parseRowTo_ok hto, parseRowRepeat_ok hrep, parseAbsorbing_ok habs, hao]
        · cases h
    · split at h
      · obtain ⟨fv, _, h⟩ := bind_eq_ok.1 h
        obtain ⟨frm, hfrm, h⟩ := bind_eq_ok.1 h
        rcases parseFrom_ok hfrm with ⟨f, rfl, hf1, hf2⟩ | ⟨f, rfl, hf1⟩
        · simp only at h
          obtain ⟨rep, hrep, h⟩ := bind_eq_ok.1 h
          simp at h; subst h
          simp [mappingOK, hf1, hf2, parseSingleRepeat_ok hrep]
        · cases h
      · cases h
  · cases h

end Parse

open Outcome in
/-- `parse_layout_from_json` only returns layouts satisfying `layoutOK` -/
theorem parse_layoutOK {j : Json} {F : Fancy.Layout} (h : parseLayoutFromJson j = ok F) :
    Fancy.layoutOK F = true := by
  unfold parseLayoutFromJson at h
  split at h
  · split at h
    · obtain ⟨mv, _, h⟩ := bind_eq_ok.1 h
      split at h
      · obtain ⟨ms, hms, h⟩ := bind_eq_ok.1 h
        split at h
        · simp at h; subst h
          simp only [Fancy.layoutOK, List.all_eq_true]
          intro m hm
          obtain ⟨v, _, hv⟩ := mapM_mem hms hm
          exact Parse.parseMappingFromJson_ok hv
        · cases h
      · cases h
    · cases h
  · cases h

end TmVerif
