/-
Helper lemmas for the loader proofs (C13, C14, C15): the `Outcome` monad, key lookup in JSON
objects, and panic-freedom of every function of `Model/Parse.lean`.
-/
import TmVerif.Model.Load

namespace TmVerif
namespace Outcome

@[simp] theorem bind_ok {α β : Type} (a : α) (f : α → Outcome β) : (ok a).bind f = f a := rfl
@[simp] theorem bind_error {α β : Type} (f : α → Outcome β) : (error : Outcome α).bind f = error := rfl
@[simp] theorem bind_panic {α β : Type} (f : α → Outcome β) : (panic : Outcome α).bind f = panic := rfl

theorem bind_ne_panic {α β : Type} {x : Outcome α} {f : α → Outcome β}
    (hx : x ≠ panic) (hf : ∀ a, x = ok a → f a ≠ panic) : x.bind f ≠ panic := by
  cases x with
  | ok a => exact hf a rfl
  | error => simp
  | panic => exact absurd rfl hx

theorem bind_eq_ok {α β : Type} {x : Outcome α} {f : α → Outcome β} {b : β} :
    x.bind f = ok b ↔ ∃ a, x = ok a ∧ f a = ok b := by
  cases x <;> simp

@[simp] theorem ofOption_ne_panic {α : Type} (o : Option α) : ofOption o ≠ panic := by
  cases o <;> simp [ofOption]

theorem ofOption_eq_ok {α : Type} {o : Option α} {a : α} : ofOption o = ok a ↔ o = some a := by
  cases o <;> simp [ofOption]

@[simp] theorem unwrapO_some {α : Type} (a : α) : unwrapO (some a) = ok a := rfl

theorem unwrapO_eq_ok {α : Type} {o : Option α} {a : α} : unwrapO o = ok a ↔ o = some a := by
  cases o <;> simp [unwrapO]

theorem mapM_ne_panic {α β : Type} {f : α → Outcome β} (l : List α) (h : ∀ x ∈ l, f x ≠ panic) :
    mapM f l ≠ panic := by
  induction l with
  | nil => simp [mapM]
  | cons x xs ih =>
    simp only [mapM]
    apply bind_ne_panic (h x (List.mem_cons_self ..))
    intro y _
    apply bind_ne_panic (ih fun z hz => h z (List.mem_cons_of_mem _ hz))
    intro ys _
    simp

theorem mapM_cons_eq_ok {α β : Type} {f : α → Outcome β} {x : α} {xs : List α} {ys : List β} :
    mapM f (x :: xs) = ok ys ↔ ∃ y ys', f x = ok y ∧ mapM f xs = ok ys' ∧ ys = y :: ys' := by
  simp only [mapM, bind_eq_ok]
  constructor
  · rintro ⟨y, hy, ys', hys', h⟩
    simp at h
    exact ⟨y, ys', hy, hys', h.symm⟩
  · rintro ⟨y, ys', hy, hys', h⟩
    exact ⟨y, hy, ys', hys', by simp [h]⟩

/-- every result of `mapM` is the result of an element -/
theorem mapM_mem {α β : Type} {f : α → Outcome β} {l : List α} {ys : List β} (h : mapM f l = ok ys)
    {y : β} (hy : y ∈ ys) : ∃ x ∈ l, f x = ok y := by
  induction l generalizing ys with
  | nil => simp [mapM] at h; subst h; cases hy
  | cons x xs ih =>
    obtain ⟨y', ys', hy', hys', rfl⟩ := mapM_cons_eq_ok.1 h
    rcases List.mem_cons.1 hy with rfl | hy
    · exact ⟨x, List.mem_cons_self .., hy'⟩
    · obtain ⟨z, hz, hfz⟩ := ih hys' hy
      exact ⟨z, List.mem_cons_of_mem _ hz, hfz⟩

/-- `mapM` of a function that succeeds on every element is `map` -/
theorem mapM_eq_map {α β : Type} {f : α → Outcome β} {g : α → β} (l : List α)
    (h : ∀ x ∈ l, f x = ok (g x)) : mapM f l = ok (l.map g) := by
  induction l with
  | nil => rfl
  | cons x xs ih =>
    simp [mapM, h x (List.mem_cons_self ..), ih fun z hz => h z (List.mem_cons_of_mem _ hz)]

end Outcome

open Outcome

/-! ## object keys -/

theorem mem_insertStr {x s : List Char} {l : List (List Char)} : x ∈ insertStr s l ↔ x = s ∨ x ∈ l := by
  induction l with
  | nil => simp [insertStr]
  | cons t ts ih =>
    simp only [insertStr]
    split
    · simp [ih]; constructor
      · rintro (h | h | h) <;> simp [h]
      · rintro (h | h | h) <;> simp [h]
    · simp

theorem mem_sortStrs {x : List Char} {l : List (List Char)} : x ∈ sortStrs l ↔ x ∈ l := by
  induction l with
  | nil => simp [sortStrs]
  | cons t ts ih => simp [sortStrs, mem_insertStr, ih]

theorem lookup_of_mem_keys {k : List Char} {kvs : List (List Char × Json)} (h : k ∈ kvs.map (·.1)) :
    ∃ v, Json.lookup k kvs = some v := by
  induction kvs with
  | nil => cases h
  | cons kv rest ih =>
    obtain ⟨k', v⟩ := kv
    simp only [Json.lookup]
    by_cases hk : k' = k
    · simp [hk]
    · simp only [beq_iff_eq, hk, if_false]
      apply ih
      simp only [List.map_cons, List.mem_cons] at h
      rcases h with h | h
      · exact absurd h.symm hk
      · exact h

theorem lookup_of_hasExactlyKeys {kvs : List (List Char × Json)} {check : List (List Char)}
    (h : hasExactlyKeys kvs check = true) {k : List Char} (hk : k ∈ check) :
    ∃ v, Json.lookup k kvs = some v := by
  apply lookup_of_mem_keys
  have : sortStrs (kvs.map (·.1)) = sortStrs check := by simpa [hasExactlyKeys] using h
  rw [← mem_sortStrs, this, mem_sortStrs]
  exact hk

theorem lookup_of_hasAtLeastKeys {kvs : List (List Char × Json)} {check : List (List Char)}
    (h : hasAtLeastKeys kvs check = true) {k : List Char} (hk : k ∈ check) :
    ∃ v, Json.lookup k kvs = some v := by
  simp only [hasAtLeastKeys, List.all_eq_true] at h
  have := h k hk
  simp only [Json.hasKey, Option.isSome_iff_exists] at this
  exact this

theorem getLast?_of_length_ne_zero {α : Type} {l : List α} (h : (l.length == 0) = false) :
    ∃ x, l.getLast? = some x := by
  cases l with
  | nil => simp at h
  | cons a as => exact ⟨_, List.getLast?_eq_some_getLast (List.cons_ne_nil a as)⟩

end TmVerif
