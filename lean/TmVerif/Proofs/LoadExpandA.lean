/-
C13_spec, layer A: alias combinations.  The tuples of indices the odometer yields correspond, in
order, to the choices of definitions of the declarative expansion (`pick`); for a tuple `t` and its
choice `pick found t` the imperative `from_modifiers` / `reify_modifiers` / `translate_single_to_keys`
compute `trigger` / `outMods` / `outKeys`.  Consequence: `convert_single = expandSingle`.
-/
import TmVerif.Proofs.LoadConvert
import TmVerif.Model.Expand

namespace TmVerif
namespace Convert
open Outcome Fancy Expand

/-! ### alias definitions -/

theorem aliasMappingsFor_eq (F : Fancy.Layout) (n : List Char) : aliasMappingsFor F n = defsOf F n := by
  unfold aliasMappingsFor defsOf
  congr 1
  funext m
  cases m with
  | alias a => simp only [beq_iff_eq]
  | single _ => rfl
  | row _ => rfl
  | repeatOnly _ => rfl

theorem getAlias_eq (F : Fancy.Layout) (n : List Char) :
    getAlias F n = (match defsOf F n with | [] => none | d :: ds => some (d :: ds)) := by
  unfold getAlias
  rw [aliasMappingsFor_eq]
  cases defsOf F n <;> rfl

theorem aliasCount_eq_slots (ms : List Modifier) : aliasCount ms = (slots ms).length := by
  induction ms with
  | nil => rfl
  | cons m ms ih => cases m <;> simp [aliasCount, slots, ih]

/-- the index of the LAST slot named `n`, counting from `start` -/
def lastIdx : List (List Char) → Nat → List Char → Option Nat
  | [], _, _ => none
  | n' :: names, start, n =>
    match lastIdx names (start + 1) n with
    | some i => some i
    | none => if n' = n then some start else none

/-- `build_combinations` in terms of the specification's `slotDefs`: it fails iff some alias has no
definition; otherwise it appends the definition lists of the slots, and `alias_map` answers with the
index of the last slot of a name -/
theorem buildLoop_eq (F : Fancy.Layout) :
    ∀ (ms : List Modifier) (qs : List Nat) (found : List (List AliasMapping)) (amap : List (List Char × Nat)),
      qs.length = found.length →
      match slotDefs F (slots ms) with
      | none => buildLoop F ms qs found amap = error
      | some ds => ∃ amap', buildLoop F ms qs found amap = ok (qs ++ ds.map List.length, found ++ ds, amap') ∧
          ∀ n, lookupAlias n amap' =
            (match lastIdx (slots ms) found.length n with | some i => some i | none => lookupAlias n amap) := by
  intro ms
  induction ms with
  | nil =>
    intro qs found amap _
    simp only [slots, slotDefs]
    exact ⟨amap, by simp [buildLoop], fun n => by simp [lastIdx]⟩
  | cons m ms ih =>
    intro qs found amap hlen
    cases m with
    | key k =>
      simp only [slots, buildLoop]
      exact ih qs found amap hlen
    | alias n' =>
      simp only [slots, slotDefs, buildLoop, getAlias_eq]
      cases hd : defsOf F n' with
      | nil => simp [ofOption]
      | cons d ds0 =>
        simp only [ofOption, bind_ok]
        have := ih (qs ++ [(d :: ds0).length]) (found ++ [d :: ds0]) ((n', qs.length) :: amap) (by simp [hlen])
        cases hs : slotDefs F (slots ms) with
        | none => rw [hs] at this; simpa using this
        | some rest =>
          rw [hs] at this
          obtain ⟨amap', h1, h2⟩ := this
          refine ⟨amap', by rw [h1]; simp, ?_⟩
          intro n
          rw [h2 n]
          simp only [lastIdx, List.length_append, List.length_singleton, lookupAlias, hlen]
          cases lastIdx (slots ms) (found.length + 1) n with
          | some i => rfl
          | none =>
            by_cases hn : n' = n
            · simp [hn]
            · simp [hn]

/-- `build_combinations` -/
theorem buildCombinations_eq (F : Fancy.Layout) (ms : List Modifier) :
    match slotDefs F (slots ms) with
    | none => buildCombinations F ms = error
    | some ds => ∃ amap, buildCombinations F ms = ok ⟨ms, ds.map List.length, ds, amap⟩ ∧
        ∀ n, lookupAlias n amap = lastIdx (slots ms) 0 n := by
  have := buildLoop_eq F ms [] [] [] rfl
  unfold buildCombinations
  cases hs : slotDefs F (slots ms) with
  | none => rw [hs] at this; simp [this]
  | some ds =>
    rw [hs] at this
    obtain ⟨amap', h1, h2⟩ := this
    refine ⟨amap', by simp [h1], ?_⟩
    intro n
    rw [h2 n]
    simp only [List.length_nil, lookupAlias]
    cases lastIdx (slots ms) 0 n <;> rfl

/-! ### tuples and choices -/

/-- the definitions a tuple of indices selects -/
def pick {α : Type} : List (List α) → List Nat → List α
  | ds :: rest, i :: t => (ds[i]?).toList ++ pick rest t
  | _, _ => []

theorem map_range_getElem?_toList {α : Type} (ds : List α) :
    (List.range ds.length).map (fun i => (ds[i]?).toList) = ds.map fun d => [d] := by
  induction ds with
  | nil => rfl
  | cons d ds ih =>
    rw [List.length_cons, List.range_succ_eq_map, List.map_cons, List.map_map]
    simp only [List.getElem?_cons_zero, Option.toList_some, List.map_cons, List.cons.injEq, true_and]
    rw [← ih]
    apply List.map_congr_left
    intro i _
    simp

theorem flatMap_congr' {α β : Type} {l : List α} {f g : α → List β} (h : ∀ x ∈ l, f x = g x) :
    l.flatMap f = l.flatMap g := by
  induction l with
  | nil => rfl
  | cons x xs ih =>
    simp only [List.flatMap_cons, h x (List.mem_cons_self ..), ih fun y hy => h y (List.mem_cons_of_mem _ hy)]

/-- the choices of the specification are the tuples of the odometer, in the same order -/
theorem choices_eq_cart {α : Type} (found : List (List α)) :
    choices found = (cart (found.map List.length)).map (pick found) := by
  induction found with
  | nil => rfl
  | cons ds rest ih =>
    simp only [choices, List.map_cons, cart, ih, List.flatMap_map, List.map_flatMap, List.map_map]
    apply flatMap_congr'
    intro t _
    have := map_range_getElem?_toList ds
    have h2 : List.map (fun d => d :: pick rest t) ds = (ds.map fun d => [d]).map (fun l => l ++ pick rest t) := by
      simp [List.map_map]
    rw [h2, ← this, List.map_map]
    apply List.map_congr_left
    intro i _
    simp [pick]

/-- the element of a choice at a slot is the selected definition of that slot -/
theorem pick_getElem? {α : Type} {found : List (List α)} {t : List Nat}
    (ht : ∀ (i : Nat) (l : List α), found[i]? = some l → ∃ n : Nat, t[i]? = some n ∧ n < l.length) :
    ∀ (i : Nat) (l : List α), found[i]? = some l → ∃ (n : Nat) (d : α), t[i]? = some n ∧ l[n]? = some d ∧
      (pick found t)[i]? = some d := by
  induction found generalizing t with
  | nil => intro i l h; simp at h
  | cons ds rest ih =>
    intro i l h
    obtain ⟨n0, hn0, hlt0⟩ := ht 0 ds (by simp)
    cases t with
    | nil => simp at hn0
    | cons i0 t' =>
      simp at hn0; subst hn0
      have hd : ds[i0]? = some ds[i0] := List.getElem?_eq_getElem hlt0
      cases i with
      | zero =>
        simp at h; subst h
        exact ⟨i0, ds[i0], by simp, hd, by simp [pick, hd]⟩
      | succ i =>
        simp at h
        obtain ⟨n, d, h1, h2, h3⟩ := ih (t := t') (fun j l' hj => by simpa using ht (j + 1) l' (by simpa using hj)) i l h
        exact ⟨n, d, by simpa using h1, h2, by simpa [pick, hd] using h3⟩

theorem length_pick {α : Type} {found : List (List α)} {t : List Nat}
    (ht : ∀ (i : Nat) (l : List α), found[i]? = some l → ∃ n : Nat, t[i]? = some n ∧ n < l.length) :
    (pick found t).length = found.length := by
  induction found generalizing t with
  | nil => cases t <;> rfl
  | cons ds rest ih =>
    obtain ⟨n0, hn0, hlt0⟩ := ht 0 ds (by simp)
    cases t with
    | nil => simp at hn0
    | cons i0 t' =>
      simp at hn0; subst hn0
      have hd : ds[i0]? = some ds[i0] := List.getElem?_eq_getElem hlt0
      simp [pick, hd, ih (t := t') (fun j l' hj => by simpa using ht (j + 1) l' (by simpa using hj))]

/-- `alias_found_mappings[i][tuple[i]].from.keys` is the keys of the choice's element at slot `i` -/
theorem chosenKeys_pick {c : Comb} {t : List Nat} (ht : TupleOK c t) {i : Nat} (hi : i < c.found.length) :
    ∃ d, (pick c.found t)[i]? = some d ∧ chosenKeys c t i = ok d.frm.keys := by
  have hl : c.found[i]? = some c.found[i] := List.getElem?_eq_getElem hi
  obtain ⟨n, d, h1, h2, h3⟩ := pick_getElem? ht i _ hl
  exact ⟨d, h3, by simp [chosenKeys, hl, h1, h2]⟩

/-- `from_modifiers` computes the specification's `trigger` -/
theorem fromModifiersLoop_eq {c : Comb} {t : List Nat} (ht : TupleOK c t) :
    ∀ (ms : List Modifier) (j : Nat), j + aliasCount ms ≤ c.found.length →
      fromModifiersLoop c t ms j = ok (trigger ms ((pick c.found t).drop j)) := by
  intro ms
  induction ms with
  | nil => intro j _; rfl
  | cons m ms ih =>
    intro j hj
    cases m with
    | key k =>
      simp only [fromModifiersLoop, trigger]
      rw [ih j (by simpa [aliasCount] using hj)]
      rfl
    | alias n =>
      simp only [aliasCount] at hj
      obtain ⟨d, hd, hck⟩ := chosenKeys_pick ht (i := j) (by omega)
      have hdrop : (pick c.found t).drop j = d :: (pick c.found t).drop (j + 1) := by
        have hlt : j < (pick c.found t).length := by
          rcases Nat.lt_or_ge j (pick c.found t).length with h | h
          · exact h
          · rw [List.getElem?_eq_none h] at hd; cases hd
        rw [List.drop_eq_getElem_cons hlt]
        congr 1
        rw [List.getElem?_eq_getElem hlt] at hd
        exact Option.some.inj hd
      simp only [fromModifiersLoop, hck, bind_ok, hdrop, trigger]
      rw [ih (j + 1) (by omega)]
      rfl

theorem lastIdx_ge {names : List (List Char)} {start : Nat} {n : List Char} {i : Nat}
    (h : lastIdx names start n = some i) : start ≤ i ∧ i < start + names.length := by
  induction names generalizing start with
  | nil => cases h
  | cons n' names ih =>
    simp only [lastIdx] at h
    cases h1 : lastIdx names (start + 1) n with
    | some i' =>
      rw [h1] at h; simp at h; subst h
      have := ih h1
      simp; omega
    | none =>
      rw [h1] at h
      simp only at h
      split at h
      · simp at h; subst h; simp
      · cases h

/-- the last slot's index, and the definition chosen for the last slot -/
theorem lastChosen_eq {names : List (List Char)} {ch : List AliasMapping} (hlen : ch.length = names.length)
    (start : Nat) (n : List Char) :
    lastChosen names ch n = (match lastIdx names start n with | some i => ch[i - start]? | none => none) := by
  induction names generalizing ch start with
  | nil => cases ch <;> rfl
  | cons n' names ih =>
    cases ch with
    | nil => simp at hlen
    | cons d ch =>
      simp only [lastChosen, lastIdx]
      rw [ih (by simpa using hlen) (start + 1)]
      cases h1 : lastIdx names (start + 1) n with
      | some i =>
        have := lastIdx_ge h1
        have e : i - start = (i - (start + 1)) + 1 := by omega
        simp only [e, List.getElem?_cons_succ]
        cases hh : ch[i - (start + 1)]? with
        | some d' => rfl
        | none =>
          have : i - (start + 1) < ch.length := by simp at hlen; omega
          rw [List.getElem?_eq_getElem this] at hh; cases hh
      | none =>
        simp only
        split
        · simp
        · rfl

/-- `reify_modifiers` computes the specification's `outMods` -/
theorem reifyModifiers_eq {F : Fancy.Layout} {c : Comb} (hc : CombOK F c) {t : List Nat} (ht : TupleOK c t)
    (hamap : ∀ n, lookupAlias n c.aliasMap = lastIdx (slots c.modifiers) 0 n) :
    ∀ (ms : List Modifier), reifyModifiers c t ms = outMods c.modifiers (pick c.found t) ms := by
  have hlen : (pick c.found t).length = (slots c.modifiers).length := by
    rw [length_pick ht, ← hc.count, aliasCount_eq_slots]
  intro ms
  induction ms with
  | nil => rfl
  | cons m ms ih =>
    cases m with
    | key k => simp only [reifyModifiers, outMods, ih]
    | alias n =>
      simp only [reifyModifiers, outMods, chosen]
      rw [lastChosen_eq hlen 0 n, hamap n]
      cases hl : lastIdx (slots c.modifiers) 0 n with
      | none => rfl
      | some i =>
        have hi : i < c.found.length := by
          have := (lastIdx_ge hl).2
          rw [← aliasCount_eq_slots, hc.count] at this; omega
        obtain ⟨d, hd, hck⟩ := chosenKeys_pick ht hi
        simp only [ofOption, bind_ok, Nat.sub_zero, hd, hck, ih]

theorem translateSingleToKeys_eq {F : Fancy.Layout} {c : Comb} (hc : CombOK F c) {t : List Nat} (ht : TupleOK c t)
    (hamap : ∀ n, lookupAlias n c.aliasMap = lastIdx (slots c.modifiers) 0 n) (to : SingleToKeys) :
    translateSingleToKeys c t to = outKeys c.modifiers (pick c.found t) to := by
  unfold translateSingleToKeys outKeys
  cases to.terminal with
  | null => rfl
  | physical k => simp only [reifyModifiers_eq hc ht hamap]

theorem singleRepeat_eq {F : Fancy.Layout} {c : Comb} (hc : CombOK F c) {t : List Nat} (ht : TupleOK c t)
    (hamap : ∀ n, lookupAlias n c.aliasMap = lastIdx (slots c.modifiers) 0 n) (r : SingleRepeat) :
    singleRepeat c t r = outRepeat c.modifiers (pick c.found t) r := by
  cases r with
  | normal => rfl
  | disabled => rfl
  | special keys d i => simp only [singleRepeat, outRepeat, translateSingleToKeys_eq hc ht hamap]

theorem fromModifiers_eq {F : Fancy.Layout} {c : Comb} (hc : CombOK F c) {t : List Nat} (ht : TupleOK c t) :
    fromModifiers c t = ok (trigger c.modifiers (pick c.found t)) := by
  unfold fromModifiers
  rw [fromModifiersLoop_eq ht _ 0 (by rw [hc.count]; omega)]
  rfl

/-- a loop over the odometer's tuples is a loop over the specification's choices -/
theorem mapM_tuples {β : Type} {F : Fancy.Layout} {c : Comb} (hc : CombOK F c) (f : List Nat → Outcome β)
    (g : List AliasMapping → Outcome β) (hfg : ∀ t, TupleOK c t → f t = g (pick c.found t)) :
    mapM f (cart c.quantities) = mapM g (choices c.found) := by
  rw [choices_eq_cart, ← hc.quant]
  have : ∀ (l : List (List Nat)), (∀ t ∈ l, TupleOK c t) → mapM f l = mapM g (l.map (pick c.found)) := by
    intro l
    induction l with
    | nil => intro _; rfl
    | cons t l ih =>
      intro h
      simp only [List.map_cons, mapM, hfg t (h t (List.mem_cons_self ..)),
        ih fun t' ht' => h t' (List.mem_cons_of_mem _ ht')]
  exact this _ fun t ht => hc.tupleOK ht

/-- C13_spec for one single mapping -/
theorem convertSingle_eq (F : Fancy.Layout) (s : SingleMapping) : convertSingle F s = expandSingle F s := by
  unfold convertSingle expandSingle
  have hb := buildCombinations_eq F s.frm.modifiers
  cases hs : slotDefs F (slots s.frm.modifiers) with
  | none => rw [hs] at hb; simp [hb]
  | some ds =>
    rw [hs] at hb
    obtain ⟨amap, hb, hamap⟩ := hb
    have hc := (buildCombinations_ok hb).1
    simp only [hb, bind_ok, hc.multiply]
    refine mapM_tuples hc _ _ fun t ht => ?_
    unfold convertSingleOne expandSingleOne
    rw [fromModifiers_eq hc ht]
    simp only [bind_ok, translateSingleToKeys_eq hc ht hamap, singleRepeat_eq hc ht hamap, reifyModifiers_eq hc ht hamap]

end Convert
end TmVerif
