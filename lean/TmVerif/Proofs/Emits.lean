/-
Helper lemmas about event legality (`legal`) and the fold of events into a held-set (`foldEvs`).
`Emits V evs V'`: from held-set `V` the events are all legal and lead to a set with the members of `V'`.
-/
import TmVerif.Monitors

namespace TmVerif

@[simp] theorem mem_applyEv_pressed (H : List Key) (k x : Key) :
    x ∈ applyEv H (Event.pressed k) ↔ x ∈ H ∨ x = k := by
  simp only [applyEv]
  split
  · constructor
    · intro h; exact Or.inl h
    · rintro (h | h)
      · exact h
      · subst h; simp_all
  · simp

@[simp] theorem mem_applyEv_released (H : List Key) (k x : Key) :
    x ∈ applyEv H (Event.released k) ↔ x ∈ H ∧ x ≠ k := by
  simp [applyEv]

theorem mem_applyEv_congr {V W : List Key} (h : ∀ k, k ∈ V ↔ k ∈ W) (e : Event) (x : Key) :
    x ∈ applyEv V e ↔ x ∈ applyEv W e := by
  cases e <;> simp [h]

theorem mem_foldEvs_congr {V W : List Key} (h : ∀ k, k ∈ V ↔ k ∈ W) (evs : List Event) (x : Key) :
    x ∈ foldEvs V evs ↔ x ∈ foldEvs W evs := by
  induction evs generalizing V W with
  | nil => simpa [foldEvs] using h x
  | cons e es ih =>
    simp only [foldEvs, List.foldl_cons] at *
    exact ih (fun k => mem_applyEv_congr h e k)

@[simp] theorem foldEvs_nil (V : List Key) : foldEvs V [] = V := rfl

@[simp] theorem foldEvs_cons (V : List Key) (e : Event) (es : List Event) :
    foldEvs V (e :: es) = foldEvs (applyEv V e) es := rfl

theorem foldEvs_append (V : List Key) (a b : List Event) :
    foldEvs V (a ++ b) = foldEvs (foldEvs V a) b := by
  simp [foldEvs, List.foldl_append]

theorem contains_congr {V W : List Key} (h : ∀ k, k ∈ V ↔ k ∈ W) (k : Key) :
    V.contains k = W.contains k := by
  have := h k
  by_cases h1 : k ∈ V
  · have h2 := this.mp h1; simp [h1, h2]
  · have h2 : k ∉ W := fun h3 => h1 (this.mpr h3); simp [h1, h2]

theorem legal_congr {V W : List Key} (h : ∀ k, k ∈ V ↔ k ∈ W) (evs : List Event) :
    legal V evs = legal W evs := by
  induction evs generalizing V W with
  | nil => rfl
  | cons e es ih =>
    cases e with
    | pressed k =>
      simp only [legal, contains_congr h k]
      congr 1
      apply ih; intro x; simp [h]
    | released k =>
      simp only [legal, contains_congr h k]
      congr 1
      apply ih; intro x; simp [h]

theorem legal_cons_eq (V : List Key) (e : Event) (es : List Event) :
    legal V (e :: es) = (legal V [e] && legal (applyEv V e) es) := by
  cases e with
  | pressed k =>
    by_cases hk : k ∈ V
    · simp [legal, hk]
    · simp only [legal, Bool.and_true]
      congr 1
      apply legal_congr; intro x; simp
  | released k =>
    simp only [legal, Bool.and_true]
    congr 1

theorem legal_append (V : List Key) (a b : List Event) :
    legal V (a ++ b) = (legal V a && legal (foldEvs V a) b) := by
  induction a generalizing V with
  | nil => simp [legal]
  | cons e es ih =>
    rw [List.cons_append, legal_cons_eq, ih, legal_cons_eq V e es, foldEvs_cons, Bool.and_assoc]

/-- From held-set `V`, `evs` are legal and end in a set with exactly the members of `V'`. -/
def Emits (V : List Key) (evs : List Event) (V' : List Key) : Prop :=
  legal V evs = true ∧ ∀ k, k ∈ foldEvs V evs ↔ k ∈ V'

theorem Emits.nil {V V' : List Key} (h : ∀ k, k ∈ V ↔ k ∈ V') : Emits V [] V' :=
  ⟨rfl, by simpa using h⟩

theorem Emits.trans {V V1 V2 : List Key} {a b : List Event}
    (h1 : Emits V a V1) (h2 : Emits V1 b V2) : Emits V (a ++ b) V2 := by
  refine ⟨?_, ?_⟩
  · rw [legal_append, h1.1, Bool.true_and, legal_congr h1.2]; exact h2.1
  · intro k; rw [foldEvs_append, mem_foldEvs_congr h1.2]; exact h2.2 k

theorem Emits.congr_left {V W V' : List Key} {evs : List Event}
    (h : ∀ k, k ∈ V ↔ k ∈ W) (h1 : Emits V evs V') : Emits W evs V' :=
  ⟨by rw [← legal_congr h]; exact h1.1, fun k => by rw [← mem_foldEvs_congr h]; exact h1.2 k⟩

theorem Emits.congr_right {V V' W' : List Key} {evs : List Event}
    (h : ∀ k, k ∈ V' ↔ k ∈ W') (h1 : Emits V evs V') : Emits V evs W' :=
  ⟨h1.1, fun k => (h1.2 k).trans (h k)⟩

theorem Emits.release {V V' : List Key} {k : Key} (hk : k ∈ V)
    (h : ∀ x, x ∈ V' ↔ x ∈ V ∧ x ≠ k) : Emits V [Event.released k] V' := by
  refine ⟨by simp [legal, hk], ?_⟩
  intro x; simp [h]

theorem Emits.press {V V' : List Key} {k : Key} (hk : k ∉ V)
    (h : ∀ x, x ∈ V' ↔ x ∈ V ∨ x = k) : Emits V [Event.pressed k] V' := by
  refine ⟨by simp [legal, hk], ?_⟩
  intro x; simp [h]

/-- releasing a duplicate-free list of held keys -/
theorem Emits.releases {V V' : List Key} {ks : List Key} (hnd : ks.Nodup) (hsub : ∀ k ∈ ks, k ∈ V)
    (h : ∀ x, x ∈ V' ↔ x ∈ V ∧ x ∉ ks) : Emits V (ks.map Event.released) V' := by
  induction ks generalizing V with
  | nil => exact Emits.nil (by simpa using fun x => (h x).symm)
  | cons k ks ih =>
    rw [List.map_cons, ← List.singleton_append]
    have hnd' := List.nodup_cons.mp hnd
    apply Emits.trans (V1 := V.filter (fun x => x != k))
    · apply Emits.release (hsub k (by simp))
      intro x; simp
    · apply ih hnd'.2
      · intro x hx
        have : x ≠ k := fun e => hnd'.1 (e ▸ hx)
        simp [hsub x (by simp [hx]), this]
      · intro x; rw [h x]; simp [and_assoc]

end TmVerif
