/-
Lemmas about the line loops of `TmVerif.Model.Listing` (property C16): splitting / joining lines,
the accumulator of a loop is append-only, an `I:` line resets the working state, and the step-wise
correspondence between the two copies.
-/
import TmVerif.Model.Listing

namespace TmVerif.Listing

theorem flatMap_congr_mem {α β : Type} (l : List α) (f g : α → List β) (h : ∀ x ∈ l, f x = g x) :
    l.flatMap f = l.flatMap g := by
  induction l with
  | nil => rfl
  | cons a rest ih =>
    simp only [List.flatMap_cons]
    rw [h a (by simp), ih (fun x hx => h x (List.mem_cons_of_mem _ hx))]

/-! ## splitting and joining -/

theorem splitOnChar_ne_nil (sep : Char) (s : List Char) : splitOnChar sep s ≠ [] := by
  induction s with
  | nil => simp [splitOnChar]
  | cons c cs ih =>
    unfold splitOnChar
    split
    · simp
    · split <;> simp

theorem splitOnChar_cons_ne (sep c : Char) (cs : List Char) (h : c ≠ sep) :
    ∃ l ls, splitOnChar sep cs = l :: ls ∧ splitOnChar sep (c :: cs) = (c :: l) :: ls := by
  cases hs : splitOnChar sep cs with
  | nil => exact absurd hs (splitOnChar_ne_nil sep cs)
  | cons l ls => exact ⟨l, ls, rfl, by simp [splitOnChar, h, hs]⟩

theorem splitOnChar_append_sep (sep : Char) (a b : List Char) :
    splitOnChar sep (a ++ sep :: b) = splitOnChar sep a ++ splitOnChar sep b := by
  induction a with
  | nil => simp [splitOnChar]
  | cons c cs ih =>
    by_cases h : c = sep
    · simp [splitOnChar, h, ih]
    · obtain ⟨l, ls, h1, h2⟩ := splitOnChar_cons_ne sep c cs h
      rw [h2]
      simp only [List.cons_append]
      rw [splitOnChar]
      simp [h, ih, h1]

theorem splitOnChar_of_not_mem (sep : Char) (s : List Char) (h : sep ∉ s) : splitOnChar sep s = [s] := by
  induction s with
  | nil => simp [splitOnChar]
  | cons c cs ih =>
    simp only [List.mem_cons, not_or] at h
    have hc : c ≠ sep := fun e => h.1 e.symm
    simp [splitOnChar, hc, ih h.2]

/-- `splitLines` undoes `joinLines` on a non-empty list of newline-free lines. -/
theorem splitLines_joinLines (ls : List (List Char)) (hne : ls ≠ []) (h : ∀ l ∈ ls, '\n' ∉ l) :
    splitLines (joinLines ls) = ls := by
  induction ls with
  | nil => exact absurd rfl hne
  | cons l rest ih =>
    cases rest with
    | nil => simpa [joinLines, splitLines] using splitOnChar_of_not_mem '\n' l (h l (by simp))
    | cons l2 rest2 =>
      have h1 := splitOnChar_of_not_mem '\n' l (h l (by simp))
      have h2 := ih (by simp) (fun x hx => h x (List.mem_cons_of_mem _ hx))
      simp only [joinLines, splitLines] at h2 ⊢
      rw [splitOnChar_append_sep, h1, h2]
      rfl

/-- Texts joined by `'\n'` split into the lines of the parts. -/
theorem splitLines_joinLines_texts (ts : List (List Char)) (hne : ts ≠ []) :
    splitLines (joinLines ts) = ts.flatMap splitLines := by
  induction ts with
  | nil => exact absurd rfl hne
  | cons t rest ih =>
    cases rest with
    | nil => simp [joinLines]
    | cons t2 rest2 =>
      have h2 := ih (by simp)
      simp only [joinLines, splitLines] at h2 ⊢
      rw [splitOnChar_append_sep, h2]
      simp [List.flatMap_cons, splitLines]

/-- A text that starts with `I:` has a first line that starts with `I:`. -/
theorem splitLines_of_startsWith_I (t : List Char) (h : startsWith pfxI t = true) :
    ∃ l ls, splitLines t = l :: ls ∧ startsWith pfxI l = true := by
  match t, h with
  | c1 :: c2 :: rest, h =>
    simp only [pfxI, startsWith, Bool.and_true, Bool.and_eq_true, beq_iff_eq] at h
    obtain ⟨e1, e2⟩ := h
    subst e1 e2
    obtain ⟨l, ls, _, h2⟩ := splitOnChar_cons_ne '\n' ':' rest (by decide)
    obtain ⟨l', ls', h3, h4⟩ := splitOnChar_cons_ne '\n' 'I' (':' :: rest) (by decide)
    rw [h2] at h3
    injection h3 with h3a h3b
    subst h3a h3b
    exact ⟨_, _, h4, by simp [pfxI, startsWith]⟩
  | [], h => simp [pfxI, startsWith] at h
  | [_], h => simp [pfxI, startsWith] at h

/-! ## loops whose accumulator is append-only and whose state is reset by an `I:` line -/

/-- What the locality argument needs to know about one loop iteration. -/
structure LoopLike {α : Type} (step : Work × List α → List Char → Work × List α) : Prop where
  /-- the result vector is only ever appended to, and what is appended and the next working state
  do not depend on what is already in it -/
  acc : ∀ w res l, step (w, res) l = ((step (w, []) l).1, res ++ (step (w, []) l).2)
  /-- a line starting with `I:` resets the working state, whatever it was, and emits nothing -/
  reset : ∀ w res l, startsWith pfxI l = true → step (w, res) l = (Work.init, res)

namespace LoopLike
variable {α : Type} {step : Work × List α → List Char → Work × List α}

/-- output of the loop on `ls` from working state `w` -/
def run (step : Work × List α → List Char → Work × List α) (w : Work) (ls : List (List Char)) : List α :=
  (ls.foldl step (w, [])).2
/-- working state after the loop on `ls` from `w` -/
def fin (step : Work × List α → List Char → Work × List α) (w : Work) (ls : List (List Char)) : Work :=
  (ls.foldl step (w, [])).1

theorem foldl_eq (h : LoopLike step) (ls : List (List Char)) (w : Work) (res : List α) :
    ls.foldl step (w, res) = (fin step w ls, res ++ run step w ls) := by
  induction ls generalizing w res with
  | nil => simp [fin, run]
  | cons l ls ih =>
    have e : step (w, []) l = ((step (w, []) l).1, (step (w, []) l).2) := rfl
    have lhs : (l :: ls).foldl step (w, res) = (fin step (step (w, []) l).1 ls,
        (res ++ (step (w, []) l).2) ++ run step (step (w, []) l).1 ls) := by
      rw [List.foldl_cons, h.acc w res l, ih]
    have r1 : (l :: ls).foldl step (w, []) = (fin step (step (w, []) l).1 ls,
        (step (w, []) l).2 ++ run step (step (w, []) l).1 ls) := by
      rw [List.foldl_cons, e, ih]
    rw [lhs]
    show _ = (((l :: ls).foldl step (w, [])).1, res ++ ((l :: ls).foldl step (w, [])).2)
    rw [r1]
    simp [List.append_assoc]

/-- fold-append: processing `l1 ++ l2` from `w` = processing `l2` from the state after `l1`. -/
theorem run_append (h : LoopLike step) (w : Work) (l1 l2 : List (List Char)) :
    run step w (l1 ++ l2) = run step w l1 ++ run step (fin step w l1) l2 := by
  simp only [run, List.foldl_append]
  rw [h.foldl_eq l1 w [], h.foldl_eq l2 (fin step w l1) ([] ++ run step w l1)]
  simp [run]

/-- After an `I:` line nothing of the previous working state is left. -/
theorem run_cons_I (h : LoopLike step) (w : Work) (l : List Char) (ls : List (List Char))
    (hl : startsWith pfxI l = true) : run step w (l :: ls) = run step Work.init ls := by
  simp only [run, List.foldl_cons]
  rw [h.reset w [] l hl]

theorem run_entry_any_state (h : LoopLike step) (w w' : Work) (e : List (List Char))
    (he : ∃ l ls, e = l :: ls ∧ startsWith pfxI l = true) : run step w e = run step w' e := by
  obtain ⟨l, ls, rfl, hl⟩ := he
  rw [h.run_cons_I w l ls hl, h.run_cons_I w' l ls hl]

/-- Locality on lists of lines: if every entry begins with an `I:` line, the loop over all lines
is the concatenation of the loop over each entry on its own. -/
theorem run_flatten (h : LoopLike step) (entries : List (List (List Char)))
    (he : ∀ e ∈ entries, ∃ l ls, e = l :: ls ∧ startsWith pfxI l = true) (w : Work) :
    run step w entries.flatten = entries.flatMap (run step Work.init) := by
  induction entries generalizing w with
  | nil => simp [run]
  | cons e rest ih =>
    simp only [List.flatten_cons, List.flatMap_cons]
    rw [h.run_append, ih (fun x hx => he x (List.mem_cons_of_mem _ hx))]
    rw [h.run_entry_any_state w Work.init e (he e (by simp))]

end LoopLike

/-! ## the two copies are such loops -/

theorem kbdStep_loopLike : LoopLike kbdStep where
  acc := by
    intro w res l
    simp only [kbdStep]
    repeat' split
    all_goals simp
  reset := by
    intro w res l hl
    simp [kbdStep, hl, Work.init]

theorem devStep_loopLike : LoopLike devStep where
  acc := by
    intro w res l
    simp only [devStep]
    repeat' split
    all_goals simp
  reset := by
    intro w res l hl
    simp [devStep, hl, Work.init]

theorem kbdRun_eq (w : Work) (ls : List (List Char)) : kbdRun w ls = LoopLike.run kbdStep w ls := rfl
theorem devRun_eq (w : Work) (ls : List (List Char)) : devRun w ls = LoopLike.run devStep w ls := rfl

/-! ## copy 1 = copy 2 filtered by the flag -/

/-- the keyboards among device records, as copy 1 would report them -/
def keyboardsOf (devs : List DevRec) : List KbdRec :=
  (devs.filter fun d => d.2.2).map fun d => (d.1, d.2.1)

theorem keyboardsOf_append (a b : List DevRec) : keyboardsOf (a ++ b) = keyboardsOf a ++ keyboardsOf b := by
  simp [keyboardsOf]

/-- One iteration of copy 1 on the projected accumulator = projection of one iteration of copy 2. -/
theorem kbdStep_devStep (w : Work) (res : List DevRec) (l : List Char) :
    kbdStep (w, keyboardsOf res) l = ((devStep (w, res) l).1, keyboardsOf (devStep (w, res) l).2) := by
  simp only [kbdStep, devStep]
  split
  · simp
  split
  · simp
  split
  · simp
  split
  · simp
  split
  · cases hs : w.sysfs with
    | none => simp
    | some p =>
      cases hc : classify (match w.name with | none => [] | some n => n) w.ev (List.drop 7 l) <;>
        simp [keyboardsOf]
  · simp

theorem foldl_kbdStep_devStep (ls : List (List Char)) (w : Work) (res : List DevRec) :
    ls.foldl kbdStep (w, keyboardsOf res) =
      ((ls.foldl devStep (w, res)).1, keyboardsOf (ls.foldl devStep (w, res)).2) := by
  induction ls generalizing w res with
  | nil => simp
  | cons l ls ih =>
    simp only [List.foldl_cons]
    rw [kbdStep_devStep]
    have e : devStep (w, res) l = ((devStep (w, res) l).1, (devStep (w, res) l).2) := rfl
    rw [e, ih]

theorem kbdRun_eq_keyboardsOf_devRun (w : Work) (ls : List (List Char)) :
    kbdRun w ls = keyboardsOf (devRun w ls) := by
  have h := foldl_kbdStep_devStep ls w []
  simp only [kbdRun, devRun]
  have e : keyboardsOf ([] : List DevRec) = [] := rfl
  rw [e] at h
  rw [h]

end TmVerif.Listing
