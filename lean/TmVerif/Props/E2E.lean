/-
The wire level: bytes in on the keyboard / tablet-switch descriptors, bytes out on the uinput
descriptor (`Model/EndToEnd.lean`).  These theorems compose what the other property files prove
piece by piece — the readers and the writer (C18), the loop in its edge-triggered environment (C10
closed, C12) and the mapper — into statements about what a user's uinput device receives:

  * `E2E_closed` — for every layout, every list of chunks of WHOLE records arriving on the two
    descriptors in any order and at any time, and every run of the closed system that has delivered
    them all and come to rest: the loop has read exactly the events the two readers decode from the
    two byte streams (each in order), and the bytes it has written are exactly `wireOfLog` of what it
    read: per event read outside tablet mode one report (`encodeBatch`) with the mapper's step output
    if that is non-empty, per tablet-switch event one report with the release-all output if non-empty —
    nothing else, nothing twice, nothing reordered;
  * `E2E_kbd` / `E2E_chunking` — without tablet-switch events the bytes written are a function of the
    CONCATENATED input bytes only: however the kernel cuts the stream into readiness notifications,
    the uinput device sees the same bytes (C10 at the wire level);
  * `E2E_reads_back` — what is written reads back (by the same record format the kernel uses) as the
    concatenation of the batches sent;
  * `E2E_tablet_reader_*` — the tablet-switch reader returns exactly the `SW_TABLET_MODE` records with
    value 1 / 0 and skips everything else; streams are read record by record.

Tie: suite `e2e` drives the REAL `RealDriver` (mio/epoll, `DevInputReader`, `TabletModeSwitchReader`,
`DevInputWriter`) around the real loop over pipes and compares the bytes with `wireOut`.
-/
import TmVerif.Proofs.EndToEnd
import TmVerif.Proofs.EndToEndAny
import TmVerif.Proofs.EndToEndTimed
import TmVerif.Proofs.EndToEndNoSpecial
import TmVerif.Props.C10Closed
import TmVerif.Props.C18

namespace TmVerif

/-- E2E (closed system, wire level). -/
theorem E2E_closed (L : Layout) (x0 : Machine) (h0 : Machine.init L = some x0) (chunks : List Chunk)
    (hal : Aligned chunks) (ms : List Move) (x : Machine) (e : Env)
    (hrun : crun L (x0, Env.init (chunks.map Chunk.arrival)) ms = some (x, e)) (hrest : AtRest (x, e)) :
    kbdOf (runLog L x0 [] (answers ms)) = decodeStream (kbdBytes chunks) ∧
    tabOf (runLog L x0 [] (answers ms)) = decodeTabletStream (tabBytes chunks) ∧
    (callsSends (runScript L x0 (answers ms)).1).flatMap encodeBatch =
      wireOfLog L State.init false (runLog L x0 [] (answers ms)) := by
  obtain ⟨hk, ht, _, hc, _⟩ := C10_closed L x0 h0 _ ms x e hrun hrest
  refine ⟨by rw [hk, kbdHist_chunks _ hal], by rw [ht, tabHist_chunks _ hal], ?_⟩
  rw [hc]
  exact (wireOfLog_eq L Sys.init false _).symm

/-- all chunks are keyboard chunks -/
def KbdOnly (chunks : List Chunk) : Prop := ∀ c ∈ chunks, ∃ b, c = Chunk.kbd b

theorem tabBytes_kbdOnly (chunks : List Chunk) (h : KbdOnly chunks) : tabBytes chunks = [] := by
  induction chunks with
  | nil => rfl
  | cons c cs ih =>
    obtain ⟨b, rfl⟩ := h c (List.mem_cons_self ..)
    simp only [tabBytes]
    exact ih (fun x hx => h x (List.mem_cons_of_mem _ hx))

/-- E2E, keyboard only: the bytes written to the uinput descriptor are `wireOut` of the concatenated
keyboard bytes, whatever the chunking, the timing of the arrivals, spurious time-outs and interruptions. -/
theorem E2E_kbd (L : Layout) (x0 : Machine) (h0 : Machine.init L = some x0) (chunks : List Chunk)
    (hal : Aligned chunks) (hk : KbdOnly chunks) (ms : List Move) (x : Machine) (e : Env)
    (hrun : crun L (x0, Env.init (chunks.map Chunk.arrival)) ms = some (x, e)) (hrest : AtRest (x, e)) :
    (callsSends (runScript L x0 (answers ms)).1).flatMap encodeBatch = wireOut L [Chunk.kbd (kbdBytes chunks)] := by
  obtain ⟨h1, h2, h3⟩ := E2E_closed L x0 h0 chunks hal ms x e hrun hrest
  rw [tabBytes_kbdOnly _ hk, decodeTabletStream_short [] (by decide)] at h2
  have hlog := log_kbdOnly _ h2
  rw [h1] at hlog
  rw [h3, hlog]
  simp [wireOut, Chunk.items]

/-- E2E, chunking independence at the wire level: two runs over the same keyboard byte stream, cut into
chunks of whole records in two different ways and scheduled in two different ways, write the same bytes. -/
theorem E2E_chunking (L : Layout) (x0 : Machine) (h0 : Machine.init L = some x0) (c1 c2 : List Chunk)
    (hal1 : Aligned c1) (hal2 : Aligned c2) (hk1 : KbdOnly c1) (hk2 : KbdOnly c2)
    (hsame : kbdBytes c1 = kbdBytes c2)
    (ms1 ms2 : List Move) (x1 x2 : Machine) (e1 e2 : Env)
    (hrun1 : crun L (x0, Env.init (c1.map Chunk.arrival)) ms1 = some (x1, e1)) (hrest1 : AtRest (x1, e1))
    (hrun2 : crun L (x0, Env.init (c2.map Chunk.arrival)) ms2 = some (x2, e2)) (hrest2 : AtRest (x2, e2)) :
    (callsSends (runScript L x0 (answers ms1)).1).flatMap encodeBatch =
      (callsSends (runScript L x0 (answers ms2)).1).flatMap encodeBatch := by
  rw [E2E_kbd L x0 h0 c1 hal1 hk1 ms1 x1 e1 hrun1 hrest1, E2E_kbd L x0 h0 c2 hal2 hk2 ms2 x2 e2 hrun2 hrest2, hsame]

/-- E2E: what was written reads back, record by record, as the concatenation of the batches sent (for
batches over key codes of the table — every key a layout or a keyboard can name). -/
theorem E2E_reads_back (sends : List (List Event)) (h : ∀ evs ∈ sends, ∀ ev ∈ evs, knownCode ev.code = true) :
    decodeStream (sends.flatMap encodeBatch) = sends.flatten :=
  C18_roundtrip_batches sends h

/-- the number of SYN_REPORT-terminated reports in `wireOfLog` is `sendsOfLog` -/
theorem E2E_sends (L : Layout) (b : Bool) (lg : List Item) :
    sendsOfLog L State.init b lg = (nonEmptyOuts L Sys.init (opsOfLog b lg)).length :=
  sendsOfLog_eq L Sys.init b lg

/-! ### the tablet-switch reader -/

/-- the reader returns the two tablet-mode records, with any time stamp -/
theorem E2E_tablet_reader_accepts (s u : Nat) (t : TabletEv) :
    decodeTabletRecord (encodeRecordAt s u 5 1 (if t.mode then 1 else 0)) = some t :=
  decodeTabletRecord_enc s u t

/-- and only those: a returned event comes from a record `(EV_SW, SW_TABLET_MODE, 1 / 0)` -/
theorem E2E_tablet_reader_only (rec : List Nat) (t : TabletEv) (h : decodeTabletRecord rec = some t) :
    recType rec = 5 ∧ recCode rec = 1 ∧ recValueU rec = (if t.mode then 1 else 0) :=
  decodeTabletRecord_some rec t h

/-- a stream of tablet-mode records reads back as the switch events, in order -/
theorem E2E_tablet_reader_roundtrip (ts : List TabletEv) : decodeTabletStream (ts.flatMap encodeTabletEv) = ts :=
  decodeTabletStream_roundtrip ts

/-- inserting whole foreign records (another event type, another switch, another value) anywhere in a
stream of whole records does not change what the tablet-switch reader returns -/
theorem E2E_tablet_reader_skip (a junk b : List Nat) (ha : a.length % 24 = 0) (hj : junk.length = 24)
    (hskip : decodeTabletRecord junk = none) :
    decodeTabletStream (a ++ junk ++ b) = decodeTabletStream (a ++ b) := by
  rw [List.append_assoc, decodeTabletStream_append _ _ ha, decodeTabletStream_record_append _ _ hj, hskip,
    decodeTabletStream_append _ _ ha]
  rfl

/-! ### Non-vacuity: the layout of `Props/C10.lean` (`58` alone maps to nothing, `58+36` to `105`) -/

/-- the chunks of the schedule `c10cSched`: two keyboard chunks of whole records (the second one with
a SYN_REPORT and an autorepeat record, which the reader skips) -/
def e2eChunks : List Chunk :=
  [Chunk.kbd (encodeEvent (Event.pressed 58) ++ encodeEvent (Event.pressed 36)),
   Chunk.kbd (synReport ++ encodeRecord 1 36 2 ++ encodeEvent (Event.released 36))]

/-- the hypotheses of `E2E_closed` / `E2E_kbd` are met by the run `c10cMoves`, and the conclusion
computed: two reports, `pressed 105` and `released 105` -/
example :
    e2eChunks.map Chunk.arrival = c10cSched ∧
    (e2eChunks.all fun c => c.bytes.length % 24 == 0) = true ∧
    (crunInit c10Layout (e2eChunks.map Chunk.arrival) c10cMoves).map (fun s => decide (AtRest s)) = some true ∧
    wireOut c10Layout e2eChunks = encodeBatch [Event.pressed 105] ++ encodeBatch [Event.released 105] ∧
    wireOut c10Layout [Chunk.kbd (kbdBytes e2eChunks)] = wireOut c10Layout e2eChunks := by
  decide +kernel

/-- with the tablet switch: `On` releases what is held and silences the keyboard, `Off` resumes -/
example :
    wireOut c10Layout
      [Chunk.kbd (encodeEvent (Event.pressed 30)), Chunk.tab (encodeTabletEv TabletEv.on),
       Chunk.kbd (encodeEvent (Event.pressed 31)), Chunk.tab (encodeRecord 5 0 1 ++ encodeTabletEv TabletEv.off),
       Chunk.kbd (encodeEvent (Event.pressed 32))] =
      encodeBatch [Event.pressed 30] ++ encodeBatch [Event.released 30] ++ encodeBatch [Event.pressed 32] := by
  decide +kernel

end TmVerif

#print axioms TmVerif.E2E_closed
#print axioms TmVerif.E2E_kbd
#print axioms TmVerif.E2E_chunking
#print axioms TmVerif.E2E_reads_back
#print axioms TmVerif.E2E_sends
#print axioms TmVerif.E2E_tablet_reader_accepts
#print axioms TmVerif.E2E_tablet_reader_only
#print axioms TmVerif.E2E_tablet_reader_roundtrip
#print axioms TmVerif.E2E_tablet_reader_skip

/-! ### Two devices readable at once (appended: the acceptor of the concurrent runs of suite e2e) -/

namespace TmVerif

/-- E2E, two devices at once: `wireAccepts` (request `E2EANY`) says yes EXACTLY when the bytes are
`wireOfLog` of some read log whose keyboard part is what `DevInputReader` decodes from the keyboard
bytes and whose tablet part is what `TabletModeSwitchReader` decodes from the tablet-switch bytes — i.e.
of some interleaving of the two per-device logs.  By `E2E_closed` every run of the closed system at rest
writes such bytes, so a conforming implementation is never flagged; and bytes that are accepted are
explained by an order of reading. -/
theorem E2E_any (L : Layout) (kb tb out : List Nat) :
    wireAccepts L kb tb out = true ↔
      ∃ lg : List Item, kbdOf lg = decodeStream kb ∧ tabOf lg = decodeTabletStream tb ∧
        wireOfLog L State.init false lg = out :=
  acceptsAny_iff L State.init false _ _ out

/-- every run of the closed system at rest is accepted by `wireAccepts` for the bytes that arrived -/
theorem E2E_closed_accepted (L : Layout) (x0 : Machine) (h0 : Machine.init L = some x0) (chunks : List Chunk)
    (hal : Aligned chunks) (ms : List Move) (x : Machine) (e : Env)
    (hrun : crun L (x0, Env.init (chunks.map Chunk.arrival)) ms = some (x, e)) (hrest : AtRest (x, e)) :
    wireAccepts L (kbdBytes chunks) (tabBytes chunks)
      ((callsSends (runScript L x0 (answers ms)).1).flatMap encodeBatch) = true := by
  obtain ⟨h1, h2, h3⟩ := E2E_closed L x0 h0 chunks hal ms x e hrun hrest
  exact (E2E_any L _ _ _).2 ⟨_, h1, h2, h3.symm⟩

/-- the acceptor is not trivially true: a press written while tablet mode is on is rejected, the two
legitimate orders of one key press and one `On` are accepted -/
example :
    wireAccepts c10Layout (encodeEvent (Event.pressed 30)) (encodeTabletEv TabletEv.on)
      (encodeBatch [Event.pressed 30] ++ encodeBatch [Event.released 30]) = true ∧
    wireAccepts c10Layout (encodeEvent (Event.pressed 30)) (encodeTabletEv TabletEv.on) [] = true ∧
    wireAccepts c10Layout (encodeEvent (Event.pressed 30)) (encodeTabletEv TabletEv.on)
      (encodeBatch [Event.pressed 30]) = false := by
  decide +kernel

end TmVerif

#print axioms TmVerif.E2E_any
#print axioms TmVerif.E2E_closed_accepted

/-! ### With the repeat timer (appended: what the timed runs of suite e2e compare with) -/

namespace TmVerif

/-- E2E with the timer, for the OPEN loop model: every layout, every script of driver answers without an
error answer (any batching, any clock readings, time-outs at any moment, interruptions, tablet-switch
events), as long as the machine is not `bad` (an ill-typed answer): the bytes of ALL sends the loop has
made — step outputs, release-all outputs AND repeat chords — in order, followed by the bytes of a send
that is still pending, are exactly `wireOfTLog` of the timed read log `tlogOf` (the events read, with a
tick wherever `poll` timed out with a repeat armed outside tablet mode).  In particular `wireOfTLog` is
never `none` on a log the loop produces: a chord is only ever written with a repeat armed, with the
keys armed by the last step result (`armAfter`), filtered by what is held (`chordOf`). -/
theorem E2E_timed (L : Layout) (x0 : Machine) (h0 : Machine.init L = some x0) (rs : List Resp)
    (hne : noErr rs = true) (hok : (runScript L x0 rs).2.c ≠ Ctl.bad) :
    wireOfTLog L State.init none false (tlogOf L x0 rs) =
      some ((allSends (runScript L x0 rs).1).flatMap encodeBatch ++ owedBytes (runScript L x0 rs).2) :=
  wireOfTLog_runScript L x0 h0 rs hne hok

/-- … and when the loop is back at `poll` nothing is owed -/
theorem E2E_timed_polling (L : Layout) (x0 : Machine) (h0 : Machine.init L = some x0) (rs : List Resp)
    (hne : noErr rs = true) (t : Option Nat) (hpoll : (runScript L x0 rs).2.c = Ctl.polling t) :
    wireOfTLog L State.init none false (tlogOf L x0 rs) =
      some ((allSends (runScript L x0 rs).1).flatMap encodeBatch) :=
  wireOfTLog_runScript_polling L x0 h0 rs hne t hpoll

/-- without ticks `wireOfTLog` is `wireOfLog` -/
theorem wireOfTLog_noTicks (L : Layout) (s : State) (rep : Option (List Key)) (b : Bool) (lg : List Item) :
    wireOfTLog L s rep b (lg.map TItem.item) = some (wireOfLog L s b lg) := by
  induction lg generalizing s rep b with
  | nil => rfl
  | cons i is ih =>
    cases i with
    | kbd ev =>
      cases b with
      | true => simpa [wireOfTLog, wireOfLog] using ih s rep true
      | false => simp [wireOfTLog, wireOfLog, ih]
    | tab tev => simp [wireOfTLog, wireOfLog, ih]

/-- a tick with nothing armed is impossible; a Special-repeat key held: the chord is written at each tick -/
example :
    wireOfTLog [] State.init none false [TItem.tick] = none ∧
    wireOfTLog [⟨[30], [48], Repeat.special [29, 190] 25 12, []⟩] State.init none false
      [TItem.item (Item.kbd (Event.pressed 30)), TItem.tick, TItem.tick, TItem.item (Item.kbd (Event.released 30)), TItem.tick] = none ∧
    wireOfTLog [⟨[30], [48], Repeat.special [29, 190] 25 12, []⟩] State.init none false
      [TItem.item (Item.kbd (Event.pressed 30)), TItem.tick, TItem.item (Item.kbd (Event.released 30))] =
      some (encodeBatch [Event.pressed 48, Event.released 48] ++
            encodeBatch [Event.pressed 29, Event.pressed 190, Event.released 190, Event.released 29]) := by
  decide +kernel

end TmVerif

#print axioms TmVerif.E2E_timed
#print axioms TmVerif.E2E_timed_polling
#print axioms TmVerif.wireOfTLog_noTicks

/-! ### All bytes of a closed run (appended after the audit of §14.6: `callsSends` leaves the chords out) -/

namespace TmVerif

/-- the items of a timed log, ticks dropped -/
def itemsOf : List TItem → List Item
  | [] => []
  | TItem.item i :: is => i :: itemsOf is
  | TItem.tick :: is => itemsOf is

theorem itemsOf_append (a b : List TItem) : itemsOf (a ++ b) = itemsOf a ++ itemsOf b := by
  induction a with
  | nil => rfl
  | cons t ts ih => cases t <;> simp [itemsOf, ih]

theorem itemsOf_tlogStep (x : Machine) (r : Resp) (lg : List Item) :
    logStep x r lg = lg ++ itemsOf (tlogStep x r) := by
  obtain ⟨v, c⟩ := x
  cases c <;> cases r <;> simp [logStep, tlogStep, itemsOf]
  · rename_i t p
    cases p <;> simp [itemsOf]
    cases v.rep <;> simp [itemsOf]
    split <;> simp [itemsOf]
  · rename_i rest n
    cases n <;> simp [itemsOf]
  · rename_i rest n
    cases n <;> simp [itemsOf]

/-- the timed read log without its ticks is the read log -/
theorem itemsOf_tlogOf (L : Layout) (x : Machine) (lg : List Item) (rs : List Resp) :
    runLog L x lg rs = lg ++ itemsOf (tlogOf L x rs) := by
  induction rs generalizing x lg with
  | nil => simp [runLog, tlogOf, itemsOf]
  | cons r rs ih =>
    simp only [runLog, tlogOf]
    cases hp : pending x with
    | none => simp [itemsOf]
    | some c =>
      simp only []
      rw [ih, itemsOf_append, itemsOf_tlogStep, List.append_assoc]

/-- E2E, ALL bytes of a closed run: for every layout (Special repeats included), every list of chunks of
whole records, every run of the closed system — with time-outs at any moment, so with repeat chords —
that has delivered the chunks and come to rest at `poll`: the bytes of ALL sends (`allSends`: step,
release-all and chord sends) are `wireOfTLog` of a timed log whose items, ticks dropped, are a read log
with exactly the decoded keyboard stream and exactly the decoded tablet-switch stream. -/
theorem E2E_closed_all (L : Layout) (x0 : Machine) (h0 : Machine.init L = some x0) (chunks : List Chunk)
    (hal : Aligned chunks) (ms : List Move) (x : Machine) (e : Env)
    (hrun : crun L (x0, Env.init (chunks.map Chunk.arrival)) ms = some (x, e)) (hq : Quiescent (x, e))
    (hall : e.rest = []) :
    ∃ tl : List TItem,
      kbdOf (itemsOf tl) = decodeStream (kbdBytes chunks) ∧
      tabOf (itemsOf tl) = decodeTabletStream (tabBytes chunks) ∧
      wireOfTLog L State.init none false tl =
        some ((allSends (runScript L x0 (answers ms)).1).flatMap encodeBatch) := by
  have hrest : AtRest (x, e) := ⟨hall, Or.inl hq⟩
  obtain ⟨h1, h2, _⟩ := E2E_closed L x0 h0 chunks hal ms x e hrun hrest
  have hlog := itemsOf_tlogOf L x0 [] (answers ms)
  simp only [List.nil_append] at hlog
  have hinv := crun_inv ms x0 (Env.init (chunks.map Chunk.arrival)) Ghost.init [] x e (EnvInv.init h0 _) (FifoInv.init h0 _) hrun
  have hne : noErr (answers ms) = true := hinv.2.2.2
  have hx : (runScript L x0 (answers ms)).2 = x := by
    rw [← runG_machine]; rw [hinv.1]
  obtain ⟨hp, _, _⟩ := hq
  simp only at hp
  cases hc : x.c <;> simp [hc, Ctl.isPolling] at hp
  rename_i t
  refine ⟨tlogOf L x0 (answers ms), by rw [← hlog]; exact h1, by rw [← hlog]; exact h2, ?_⟩
  exact E2E_timed_polling L x0 h0 (answers ms) hne t (by rw [hx]; exact hc)

end TmVerif

#print axioms TmVerif.itemsOf_tlogOf
#print axioms TmVerif.E2E_closed_all

/-! ### Layouts without Special repeats: the step bytes ARE all bytes (appended) -/

namespace TmVerif

/-- E2E, keyboard only, ALL bytes: for a layout without Special-repeat mappings the loop never writes a chord
(`allSends_eq_callsSends_noSpecial`: for EVERY script), so the bytes of ALL its writes are `wireOut` of the
concatenated keyboard bytes, whatever the chunking, the timing, spurious time-outs and interruptions. -/
theorem E2E_kbd_all (L : Layout) (hL : NoSpecial L) (x0 : Machine) (h0 : Machine.init L = some x0)
    (chunks : List Chunk) (hal : Aligned chunks) (hk : KbdOnly chunks) (ms : List Move) (x : Machine) (e : Env)
    (hrun : crun L (x0, Env.init (chunks.map Chunk.arrival)) ms = some (x, e)) (hrest : AtRest (x, e)) :
    (allSends (runScript L x0 (answers ms)).1).flatMap encodeBatch = wireOut L [Chunk.kbd (kbdBytes chunks)] := by
  rw [allSends_eq_callsSends_noSpecial L hL x0 h0]
  exact E2E_kbd L x0 h0 chunks hal hk ms x e hrun hrest

/-- E2E, both devices, ALL bytes, layouts without Special repeats -/
theorem E2E_closed_noSpecial (L : Layout) (hL : NoSpecial L) (x0 : Machine) (h0 : Machine.init L = some x0)
    (chunks : List Chunk) (hal : Aligned chunks) (ms : List Move) (x : Machine) (e : Env)
    (hrun : crun L (x0, Env.init (chunks.map Chunk.arrival)) ms = some (x, e)) (hrest : AtRest (x, e)) :
    (allSends (runScript L x0 (answers ms)).1).flatMap encodeBatch =
      wireOfLog L State.init false (runLog L x0 [] (answers ms)) := by
  rw [allSends_eq_callsSends_noSpecial L hL x0 h0]
  exact (E2E_closed L x0 h0 chunks hal ms x e hrun hrest).2.2

/-- the layout of the examples has no Special repeat -/
example : NoSpecial c10Layout := by
  intro m hm ks d i
  simp [c10Layout] at hm
  rcases hm with rfl | rfl <;> simp

end TmVerif

#print axioms TmVerif.E2E_kbd_all
#print axioms TmVerif.E2E_closed_noSpecial
