/-
C05, monitor form: the Bool monitors `monC05foreign`, `monC05empty`, `monC05release`, `monC05keep`
(and their conjunction `monC05`) return `true` on every transition of the model from every reachable
state.
-/
import TmVerif.Props.C05b
import TmVerif.Props.C03

namespace TmVerif

/-! ### observation record: projections -/

theorem obs_V' (L : Layout) (x : Sys) (e : Event) : (x.obs L e).V' = (x.next L (Op.ev e)).V := rfl

theorem obs_accepted_pressed (L : Layout) (x : Sys) (k : Key) :
    (x.obs L (Event.pressed k)).accepted = !x.s.inp.contains k := rfl

theorem obs_accepted_released (L : Layout) (x : Sys) (k : Key) :
    (x.obs L (Event.released k)).accepted = x.s.inp.contains k := rfl

/-- an ignored event changes nothing and emits nothing -/
theorem step_ignored (L : Layout) (x : Sys) (e : Event) (h : (x.obs L e).accepted = false) :
    step L x.s e = (x.s, ⟨[], RRepeat.noChange⟩) := by
  cases e with
  | pressed k =>
    have hk : k ∈ x.s.inp := by simpa [obs_accepted_pressed] using h
    exact step_pressed_ignored L x.s k hk
  | released k =>
    have hk : k ∉ x.s.inp := by simpa [obs_accepted_released] using h
    exact step_released_ignored L x.s k hk

/-! ### foreign keys -/

theorem C05foreign_monitor (L : Layout) (x : Sys) (hx : Reachable L x) (e : Event) :
    monC05foreign (x.obs L e) = true := by
  have hs := hx.sinv
  unfold monC05foreign
  dsimp only
  refine Bool.and_eq_true_iff.mpr ⟨?_, ?_⟩
  · -- the event's own key
    split
    · rename_i hc
      rw [Bool.and_eq_true_iff] at hc
      obtain ⟨hf, hacc⟩ := hc
      cases e with
      | pressed k =>
        have hf' : foreign L k = true := hf
        have hk : k ∉ x.s.inp := by simpa [obs_accepted_pressed] using hacc
        have c := C05_foreign_press L x hx k hf' hk
        have h1 : (x.obs L (Event.pressed k)).evs.getLast? = some (Event.pressed k) := c.1
        have h2 : k ∈ (x.obs L (Event.pressed k)).V' := c.2
        have hkey : (x.obs L (Event.pressed k)).e = Event.pressed k := rfl
        simp only [hkey, Event.key, h1, beq_self_eq_true, Bool.true_and]
        simpa using h2
      | released k =>
        have hf' : foreign L k = true := hf
        have hk : k ∈ x.s.inp := by simpa [obs_accepted_released] using hacc
        have c := C05_foreign_release L x hx k hf' hk
        have h2 : k ∉ (x.obs L (Event.released k)).V' := c
        have hkey : (x.obs L (Event.released k)).e = Event.released k := rfl
        simp only [hkey, Event.key]
        simpa using h2
    · rfl
  · -- every other foreign key
    rw [List.all_eq_true]
    intro y _
    split
    · rename_i hc
      rw [Bool.and_eq_true_iff] at hc
      obtain ⟨hf, hoth⟩ := hc
      have hf' : foreign L y = true := hf
      have hother : e.key ≠ y ∨ (x.obs L e).accepted = false := by
        have he : (x.obs L e).e = e := rfl
        rw [he] at hoth
        cases hacc : (x.obs L e).accepted with
        | false => exact Or.inr rfl
        | true =>
          left
          intro heq
          simp [hacc, heq] at hoth
      have c := C05_foreign_other L x hx y hf' e hother
      have hnp : pressedIn (x.obs L e).evs y = false := by
        have : Event.pressed y ∉ (x.obs L e).evs := c.1
        simpa [pressedIn] using this
      have hV : (x.obs L e).V = x.V := rfl
      simp only [hnp, Bool.not_false, Bool.true_and, obs_V', hV, Bool.or_eq_true, Bool.and_eq_true]
      rcases c.2 with h | ⟨h1, h2, h3, k0, m, he, hfm, hrep⟩
      · left
        by_cases hyV : y ∈ x.V
        · simp [hyV, h.mpr hyV]
        · have : y ∉ (x.next L (Op.ev e)).V := fun hh => hyV (h.mp hh)
          simp [hyV, this]
      · right
        subst he
        have hk0 : k0 ∉ x.s.inp := by
          intro hk0
          apply h2
          simp only [Sys.next, step_pressed_ignored L x.s k0 hk0, foldEvs_nil]
          exact h1
        have hfired : (x.obs L (Event.pressed k0)).firedNoRepeat = true := by
          simp only [Obs.firedNoRepeat, fired_eq hs k0 hk0, hfm, hrep, Bool.not_false]
        refine ⟨⟨⟨?_, ?_⟩, h3⟩, hfired⟩
        · simpa using h1
        · simpa using h2
    · rfl

theorem C05foreign_monitor_ev (L : Layout) (x : Sys) (hx : ReachableEv L x) (e : Event) :
    monC05foreign (x.obs L e) = true := C05foreign_monitor L x hx.reachable e

/-! ### empty layout -/

theorem C05empty_monitor (L : Layout) (x : Sys) (hx : Reachable L x) (e : Event) :
    monC05empty (x.obs L e) = true := by
  unfold monC05empty
  cases hL : (x.obs L e).L.isEmpty with
  | false => simp
  | true =>
    have hL0 : L.isEmpty = true := hL
    have hL' : L = [] := by simpa [List.isEmpty_iff] using hL0
    subst hL'
    have c := C05_empty x hx e
    have hevs : (x.obs [] e).evs = (step [] x.s e).2.events := rfl
    have he : (x.obs [] e).e = e := rfl
    simp only [if_true, hevs, he, c]
    cases (x.obs [] e).accepted <;> simp

theorem C05empty_monitor_ev (L : Layout) (x : Sys) (hx : ReachableEv L x) (e : Event) :
    monC05empty (x.obs L e) = true := C05empty_monitor L x hx.reachable e

/-! ### releases -/

theorem C05release_monitor (L : Layout) (x : Sys) (hx : ReachableEv L x) (e : Event) :
    monC05release (x.obs L e) = true := by
  have hs := hx.reachable.sinv
  unfold monC05release
  cases e with
  | pressed k => rfl
  | released k =>
    have he : (x.obs L (Event.released k)).e = Event.released k := rfl
    simp only [he]
    cases hacc : (x.obs L (Event.released k)).accepted with
    | false => simp
    | true =>
      simp only [Bool.not_true, Bool.false_eq_true, if_false, List.all_eq_true]
      have hk : k ∈ x.s.inp := by simpa [obs_accepted_released] using hacc
      intro ev hev
      have hev' : ev ∈ (step L x.s (Event.released k)).2.events := hev
      cases ev with
      | pressed y =>
        exfalso
        rw [step_released_accepted L x.s k hk] at hev'
        have := (newlyRelease_spec L x.P x.s k hs.inv).2.1.allRel _ hev'
        simp [Event.isRelease] at this
      | released y =>
        simp only [Bool.and_eq_true, Bool.or_eq_true]
        refine ⟨?_, ?_⟩
        · rcases C05_release L x hx.reachable k hk y hev' with h | ⟨m, hm, hkm, hym⟩
          · left; simpa using h
          · right
            have hact : (x.obs L (Event.released k)).s.active = x.s.active := rfl
            simp only [hact, List.any_eq_true, Bool.and_eq_true, List.contains_eq_mem, decide_eq_true_eq]
            exact ⟨m, hm, hkm, hym⟩
        · cases hL : noAbsLayout (x.obs L (Event.released k)).L with
          | false => left; rfl
          | true =>
            right
            have hL' : NoAbs L := (noAbsLayout_iff L).mp hL
            have c := C05_release_keeps L hL' x hx k hk y hev'
            have hact : (x.obs L (Event.released k)).s'.active = (step L x.s (Event.released k)).1.active := rfl
            simp only [hact, Bool.not_eq_eq_eq_not, Bool.not_true, List.any_eq_false, List.contains_eq_mem,
              decide_eq_true_eq]
            exact c

/-! ### in-effect mappings -/

theorem exclusive_iff (L : Layout) (m : Mapping) (y : Key) :
    exclusive L m y = true ↔ ∀ m2, m2 ∈ L → y ∈ m2.to → m2 = m := by
  simp only [exclusive, Bool.not_eq_eq_eq_not, Bool.not_true, List.any_eq_false, Bool.and_eq_true,
    bne_iff_ne, ne_eq, List.contains_eq_mem, decide_eq_true_eq, not_and]
  constructor
  · intro h m2 hm2 hy
    cases Classical.em (m2 = m) with
    | inl h1 => exact h1
    | inr h1 => exact absurd hy (h m2 hm2 h1)
  · intro h m2 hm2 hne hy
    exact hne (h m2 hm2 hy)

theorem C05keep_monitor (L : Layout) (x : Sys) (hx : ReachableEv L x) (e : Event) :
    monC05keep (x.obs L e) = true := by
  have hs := hx.reachable.sinv
  unfold monC05keep
  cases hL : noAbsLayout (x.obs L e).L with
  | false => simp
  | true =>
    have hL' : NoAbs L := (noAbsLayout_iff L).mp hL
    simp only [Bool.not_true, Bool.false_eq_true, if_false, List.all_eq_true]
    intro m hm
    have hm0 : m ∈ x.s.active := hm
    cases hc1 : (!(x.obs L e).s'.active.contains m || m.frm.contains (x.obs L e).e.key) with
    | true => simp
    | false =>
      simp only [Bool.false_eq_true, if_false]
      simp only [Bool.or_eq_false_iff, Bool.not_eq_eq_eq_not, Bool.not_false, List.contains_eq_mem,
        decide_eq_true_eq, decide_eq_false_iff_not] at hc1
      obtain ⟨hm1, hek⟩ := hc1
      have hm' : m ∈ (step L x.s e).1.active := hm1
      have hek' : e.key ∉ m.frm := hek
      rw [List.all_eq_true]
      intro y hy
      cases hc2 : (!exclusive (x.obs L e).L m y || !(x.obs L e).V.contains y) with
      | true => simp
      | false =>
        simp only [Bool.false_eq_true, if_false]
        simp only [Bool.or_eq_false_iff, Bool.not_eq_eq_eq_not, Bool.not_false, List.contains_eq_mem,
          decide_eq_true_eq] at hc2
        obtain ⟨hex0, hV0⟩ := hc2
        have hex : ∀ m2, m2 ∈ L → y ∈ m2.to → m2 = m := (exclusive_iff L m y).mp hex0
        have hV : y ∈ x.V := hV0
        -- what is to be shown in both non-trivial cases
        have goalOf : (y ∈ (x.next L (Op.ev e)).V ∧ Event.released y ∉ (step L x.s e).2.events) →
            ((x.obs L e).V'.contains y && !releasedIn (x.obs L e).evs y) = true := by
          intro ⟨h1, h2⟩
          have h2' : Event.released y ∉ (x.obs L e).evs := h2
          simp only [obs_V', Bool.and_eq_true, List.contains_eq_mem, decide_eq_true_eq, releasedIn,
            Bool.not_eq_eq_eq_not, Bool.not_true, decide_eq_false_iff_not]
          exact ⟨h1, h2'⟩
        cases ham : isActionMapping m with
        | false =>
          simp only [Bool.not_false, if_true]
          cases hay : isActionKey y with
          | true => simp
          | false =>
            simp only [Bool.false_eq_true, if_false]
            exact goalOf (C05_keep L hL' x hx e m hm0 hm' hek' y hy hex hV (Or.inl ⟨ham, hay⟩))
        | true =>
          simp only [Bool.not_true, Bool.false_eq_true, if_false]
          cases hc3 : (m.rep.isNormal && !isAnyModifier m.to) with
          | false => simp
          | true =>
            simp only [if_true, Bool.or_eq_true]
            simp only [Bool.and_eq_true, Bool.not_eq_eq_eq_not, Bool.not_true] at hc3
            cases hfn : (x.obs L e).firedNoRepeat with
            | true => left; rfl
            | false =>
              right
              cases hacc : (x.obs L e).accepted with
              | false =>
                -- an ignored event: nothing happens
                have hst := step_ignored L x e hacc
                apply goalOf
                simp only [Sys.next, hst, foldEvs_nil]
                exact ⟨hV, by simp⟩
              | true =>
                apply goalOf
                apply C05_keep L hL' x hx e m hm0 hm' hek' y hy hex hV
                right
                refine ⟨hc3.2, ?_⟩
                intro k fm he hfm
                subst he
                have hk : k ∉ x.s.inp := by simpa [obs_accepted_pressed] using hacc
                have : (x.obs L (Event.pressed k)).firedNoRepeat = !fm.rep.isNormal := by
                  simp only [Obs.firedNoRepeat, fired_eq hs k hk, hfm]
                rw [this] at hfn
                simpa using hfn

/-! ### the conjunction -/

theorem C05_monitor (L : Layout) (x : Sys) (hx : ReachableEv L x) (e : Event) :
    monC05 (x.obs L e) = true := by
  simp only [monC05, Bool.and_eq_true]
  exact ⟨⟨⟨C05foreign_monitor L x hx.reachable e, C05empty_monitor L x hx.reachable e⟩,
    C05release_monitor L x hx e⟩, C05keep_monitor L x hx e⟩

end TmVerif
