/-
C18 — Events written to uinput are well-formed kernel input_event records.

"For every batch of output events, the bytes written to the virtual keyboard are one struct
input_event sized record per event with type EV_KEY, the key's kernel code and value 1 for press or
0 for release, in order, followed by exactly one SYN_REPORT record.  Decoding those bytes with the
tool's own device reader returns the same events, and the reader skips auto-repeat (value 2),
non-key and unknown-code records."

Quantifier: every batch of events (any length, the empty batch included) over every key code the
tool knows (the rows of the generated key table; the shape clause even holds for every `Nat` key);
on the read side every stream of whole records with foreign records interleaved anywhere.

Model: `Model/InputEvent.lean` (`encodeBatch` = `DevInputWriter::send`, `decodeStream` =
`DevInputReader::next` called until the stream is drained).  That the model writes/reads the bytes
the real code writes/reads — for every known code, both directions, and under interleaved foreign
records — is what the correspondence suite `bytes` checks through a pipe.
-/
import TmVerif.Proofs.Bytes
import TmVerif.Monitors

namespace TmVerif

/-- `Event.code` (used by the byte model, which does not import the monitors) is `Event.key` -/
theorem Event.code_eq_key (e : Event) : e.code = e.key := by cases e <;> rfl

/-! ## shape of what `send` writes -/

/-- The batch is the records of the events, in order, followed by one all-zero record
(type EV_SYN = 0, code SYN_REPORT = 0, value 0, time 0); `recordOf` is, by definition,
16 zero bytes ++ `[1, 0]` ++ the low 16 bits of the key as two little-endian bytes ++
`[1, 0, 0, 0]` (press) or `[0, 0, 0, 0]` (release). -/
theorem C18_shape_eq (evs : List Event) :
    encodeBatch evs = evs.flatMap recordOf ++ List.replicate 24 0 := by
  unfold encodeBatch
  rw [synReport_eq]
  congr 1
  induction evs with
  | nil => rfl
  | cons e es ih => rw [List.flatMap_cons, List.flatMap_cons, ih, encodeEvent_eq_recordOf]

theorem recordOf_pressed (k : Key) :
    recordOf (Event.pressed k) =
      [0,0,0,0,0,0,0,0, 0,0,0,0,0,0,0,0, 1,0, k % 65536 % 256, k % 65536 / 256, 1,0,0,0] := rfl

theorem recordOf_released (k : Key) :
    recordOf (Event.released k) =
      [0,0,0,0,0,0,0,0, 0,0,0,0,0,0,0,0, 1,0, k % 65536 % 256, k % 65536 / 256, 0,0,0,0] := rfl

/-- for a key the tool knows the `as u16` cast loses nothing: the code bytes are `k` itself, little-endian -/
theorem recordOf_known (e : Event) (h : knownCode e.code = true) :
    recordOf e = List.replicate 16 0 ++ [1, 0] ++ [e.code % 256, e.code / 256] ++ [e.value, 0, 0, 0] ∧
    e.code % 256 + 256 * (e.code / 256) = e.code ∧ e.code / 256 < 256 := by
  have := knownCode_lt h
  have hm : e.code % 65536 = e.code := Nat.mod_eq_of_lt this
  cases e <;> simp only [Event.code] at hm this <;> simp [recordOf, Event.code, Event.value, hm] <;>
    constructor <;> omega

theorem recordOf_length (e : Event) : (recordOf e).length = 24 := by cases e <;> rfl

/-- C18, shape: `24 * (n + 1)` bytes; every element is a byte; record `i` is 16 zero bytes, then
`EV_KEY` (`[1, 0]`), then the key's code little-endian, then `[1,0,0,0]` for a press or `[0,0,0,0]`
for a release; the last record is 24 zero bytes (SYN_REPORT), and there is nothing after it. -/
theorem C18_shape (evs : List Event) :
    (encodeBatch evs).length = 24 * (evs.length + 1) ∧
    (∀ b ∈ encodeBatch evs, b < 256) ∧
    (∀ (i : Nat) (h : i < evs.length),
      ((encodeBatch evs).drop (24 * i)).take 24 =
        match evs[i] with
        | Event.pressed k =>
          List.replicate 16 0 ++ [1, 0] ++ [k % 65536 % 256, k % 65536 / 256] ++ [1, 0, 0, 0]
        | Event.released k =>
          List.replicate 16 0 ++ [1, 0] ++ [k % 65536 % 256, k % 65536 / 256] ++ [0, 0, 0, 0]) ∧
    (encodeBatch evs).drop (24 * evs.length) = List.replicate 24 0 := by
  refine ⟨?_, ?_, ?_, ?_⟩
  · rw [C18_shape_eq, List.length_append, Bytes.flatMap_length_const recordOf 24 recordOf_length]
    simp; omega
  · intro b hb
    simp only [encodeBatch, List.mem_append, List.mem_flatMap] at hb
    rcases hb with ⟨e, _, hb⟩ | hb
    · exact encodeRecordAt_lt _ _ _ _ _ b hb
    · exact encodeRecordAt_lt _ _ _ _ _ b hb
  · intro i h
    rw [C18_shape_eq, Bytes.flatMap_chunk recordOf 24 recordOf_length evs _ i h]
    cases evs[i] <;> rfl
  · rw [C18_shape_eq, Bytes.flatMap_drop_all recordOf 24 recordOf_length]

/-- the executable shape check accepts exactly the bytes of the shape equation -/
theorem shapeOk_iff (evs : List Event) (bytes : List Nat) :
    shapeOk evs bytes = true ↔ bytes = evs.flatMap recordOf ++ List.replicate 24 0 := by
  induction evs generalizing bytes with
  | nil => simp [shapeOk]
  | cons e es ih =>
    simp only [shapeOk, Bool.and_eq_true, beq_iff_eq, ih, List.flatMap_cons, List.append_assoc]
    constructor
    · rintro ⟨h1, h2⟩
      rw [← h1, ← h2, List.take_append_drop]
    · intro h
      have hl := recordOf_length e
      subst h
      constructor
      · rw [← hl]; exact List.take_left
      · rw [← hl]; exact List.drop_left

/-! ## reader ∘ writer -/

/-- C18, round trip: the tool's own reader returns exactly the events that were sent
(the SYN_REPORT record is skipped). -/
theorem C18_roundtrip (evs : List Event) (h : ∀ e ∈ evs, knownCode e.code = true) :
    decodeStream (encodeBatch evs) = evs := by
  induction evs with
  | nil =>
    show decodeStream ([] ++ synReport) = []
    rw [List.nil_append]
    have := decodeStream_record_append synReport [] synReport_length
    rw [List.append_nil] at this
    rw [this, decodeRecord_synReport, decodeStream_short [] (by decide)]
    rfl
  | cons e es ih =>
    have he := h e (List.mem_cons_self ..)
    have hes := fun x hx => h x (List.mem_cons_of_mem _ hx)
    show decodeStream ((e :: es).flatMap encodeEvent ++ synReport) = e :: es
    rw [List.flatMap_cons, List.append_assoc,
      decodeStream_record_append _ _ (encodeEvent_length e), decodeRecord_encodeEvent e he]
    show e :: decodeStream (encodeBatch es) = e :: es
    rw [ih hes]

/-- the same, stated with the monitors' `Event.key` -/
theorem C18_roundtrip' (evs : List Event) (h : ∀ e ∈ evs, knownCode e.key = true) :
    decodeStream (encodeBatch evs) = evs :=
  C18_roundtrip evs fun e he => by rw [Event.code_eq_key]; exact h e he

/-- several batches written one after the other (as the remapping loop does) read back as the
concatenation of the batches -/
theorem C18_roundtrip_batches (batches : List (List Event))
    (h : ∀ evs ∈ batches, ∀ e ∈ evs, knownCode e.code = true) :
    decodeStream (batches.flatMap encodeBatch) = batches.flatten := by
  induction batches with
  | nil => exact decodeStream_short [] (by decide)
  | cons b bs ih =>
    have hb := h b (List.mem_cons_self ..)
    have hbs := fun x hx => h x (List.mem_cons_of_mem _ hx)
    rw [List.flatMap_cons, List.flatten_cons, decodeStream_append, C18_roundtrip b hb, ih hbs]
    rw [(C18_shape b).1]; omega

/-- the encoding identifies the batch: different batches of known keys give different bytes -/
theorem C18_encode_injective (evs₁ evs₂ : List Event)
    (h₁ : ∀ e ∈ evs₁, knownCode e.code = true) (h₂ : ∀ e ∈ evs₂, knownCode e.code = true)
    (h : encodeBatch evs₁ = encodeBatch evs₂) : evs₁ = evs₂ := by
  rw [← C18_roundtrip evs₁ h₁, ← C18_roundtrip evs₂ h₂, h]

/-! ## what the reader skips -/

/-- C18, skipping: foreign records — any number of 24-byte records each of which one iteration of
`next` loops over — inserted at any record boundary of any stream do not change what is read.
`decodeRecord_autorepeat`, `decodeRecord_nonkey`, `decodeRecord_unknown` (in `Proofs/Bytes.lean`)
show that value-2, non-key and unknown-code records are such records whatever their other fields
(time stamp included) hold; `decodeRecord_isSome_iff` shows there are no others besides
value ∉ {0, 1} in general (`decodeRecord_badvalue`). -/
theorem C18_skip (a b : List Nat) (junk : List (List Nat)) (ha : a.length % 24 = 0)
    (hlen : ∀ r ∈ junk, r.length = 24) (hnone : ∀ r ∈ junk, decodeRecord r = none) :
    decodeStream (a ++ junk.flatten ++ b) = decodeStream (a ++ b) := by
  have hj : junk.filterMap decodeRecord = [] := by
    rw [List.filterMap_eq_nil_iff]; exact hnone
  rw [List.append_assoc, decodeStream_append a _ ha, decodeStream_flatten_append junk b hlen, hj,
    decodeStream_append a b ha]
  rfl

/-- every interleaving at once: a stream of whole records reads as the stream with all skipped
records removed, i.e. as the sub-sequence of returned records -/
theorem C18_skip_interleaved (recs : List (List Nat)) (hlen : ∀ r ∈ recs, r.length = 24) :
    decodeStream recs.flatten =
      decodeStream (recs.filter fun r => (decodeRecord r).isSome).flatten ∧
    decodeStream recs.flatten = recs.filterMap decodeRecord := by
  have h2 := decodeStream_flatten recs hlen
  refine ⟨?_, h2⟩
  rw [h2, decodeStream_flatten _ (fun r hr => hlen r (List.mem_filter.mp hr).1),
    List.filterMap_filter]
  congr 1
  funext r
  cases decodeRecord r <;> rfl

/-- a sent batch read back with foreign records interleaved between its records, before it and
after it still yields the batch: `mix` is any list of records whose sub-list of returned records
is exactly the key records of the batch -/
theorem C18_roundtrip_interleaved (evs : List Event) (h : ∀ e ∈ evs, knownCode e.code = true)
    (mix : List (List Nat)) (hlen : ∀ r ∈ mix, r.length = 24)
    (hmix : (mix.filter fun r => (decodeRecord r).isSome) = evs.map encodeEvent) :
    decodeStream mix.flatten = evs := by
  rw [(C18_skip_interleaved mix hlen).1, hmix]
  have : (evs.map encodeEvent).flatten = evs.flatMap encodeEvent := by
    rw [List.flatMap_def]
  rw [this]
  have h3 := C18_roundtrip evs h
  unfold encodeBatch at h3
  rw [decodeStream_append _ _ (by
    rw [Bytes.flatMap_length_const encodeEvent 24 encodeEvent_length]; omega)] at h3
  have h4 : decodeStream synReport = [] := by
    have := decodeStream_record_append synReport [] synReport_length
    rw [List.append_nil] at this
    rw [this, decodeRecord_synReport, decodeStream_short [] (by decide)]; rfl
  rw [h4, List.append_nil] at h3
  exact h3

/-! ## the key table -/

/-- C18, codes: the discriminants of the generated key table are pairwise distinct (they are even
strictly increasing) and all fit the u16 `code` field — computed over the whole table. -/
theorem C18_codes :
    (Tables.keyTable.map (·.1)).Nodup ∧
    (Tables.keyTable.map (·.1)).Pairwise (· < ·) ∧
    (∀ c, knownCode c = true → c < 65536) := by
  have hp := Bytes.pairwise_of_increasingB _ Bytes.keyTable_increasing
  exact ⟨hp.imp (fun h => Nat.ne_of_lt h), hp, fun _ h => knownCode_lt h⟩

/-- hence distinct known keys get distinct records, and a record names its key -/
theorem C18_record_injective (e₁ e₂ : Event) (h₁ : knownCode e₁.code = true)
    (h₂ : knownCode e₂.code = true) (h : encodeEvent e₁ = encodeEvent e₂) : e₁ = e₂ := by
  have := decodeRecord_encodeEvent e₁ h₁
  rw [h, decodeRecord_encodeEvent e₂ h₂] at this
  exact (Option.some.inj this).symm

/-! ## the executable statement the driver evaluates on the implementation's bytes -/

/-- the monitor `monC18` holds on the model's own bytes, behind any prefix of skipped records -/
theorem C18_monitor (evs : List Event) (h : ∀ e ∈ evs, knownCode e.code = true)
    (junk : List (List Nat)) (hlen : ∀ r ∈ junk, r.length = 24)
    (hnone : ∀ r ∈ junk, decodeRecord r = none) :
    monC18 evs (encodeBatch evs) junk.flatten = true := by
  have hs := C18_shape evs
  have h1 : shapeOk evs (encodeBatch evs) = true := (shapeOk_iff _ _).mpr (C18_shape_eq evs)
  have h2 : (encodeBatch evs).all (· < 256) = true := by
    rw [List.all_eq_true]; intro b hb; simpa using hs.2.1 b hb
  have h3 : decodeStream (junk.flatten ++ encodeBatch evs) = evs := by
    have := C18_skip [] (encodeBatch evs) junk (by decide) hlen hnone
    simp only [List.nil_append] at this
    rw [this, C18_roundtrip evs h]
  simp [monC18, h1, h2, h3, hs.1]

/-! ## non-vacuity: concrete instances, computed -/

/-- Shift+A: press LEFTSHIFT (42), press A (30), release A, release LEFTSHIFT -/
def c18Batch : List Event :=
  [Event.pressed 42, Event.pressed 30, Event.released 30, Event.released 42]

/-- the exact 120 bytes -/
example : encodeBatch c18Batch =
    [0,0,0,0,0,0,0,0, 0,0,0,0,0,0,0,0, 1,0, 42,0, 1,0,0,0,
     0,0,0,0,0,0,0,0, 0,0,0,0,0,0,0,0, 1,0, 30,0, 1,0,0,0,
     0,0,0,0,0,0,0,0, 0,0,0,0,0,0,0,0, 1,0, 30,0, 0,0,0,0,
     0,0,0,0,0,0,0,0, 0,0,0,0,0,0,0,0, 1,0, 42,0, 0,0,0,0,
     0,0,0,0,0,0,0,0, 0,0,0,0,0,0,0,0, 0,0,  0,0, 0,0,0,0] := by decide

example : (encodeBatch c18Batch).length = 120 := by decide

/-- the hypothesis of `C18_roundtrip` is satisfiable -/
example : ∀ e ∈ c18Batch, knownCode e.code = true := by decide +kernel

example : decodeStream (encodeBatch c18Batch) = c18Batch := by decide +kernel

/-- a code above 255 uses the high byte of the u16: FN = 464 = 0x1d0 is written d0 01 -/
example : knownCode 0x1d0 = true ∧
    encodeEvent (Event.pressed 0x1d0) =
      [0,0,0,0,0,0,0,0, 0,0,0,0,0,0,0,0, 1,0, 0xd0,0x01, 1,0,0,0] := by decide +kernel

/-- the empty batch is a lone SYN_REPORT -/
example : encodeBatch [] = List.replicate 24 0 := by decide

/-- foreign records: an auto-repeat of A with a time stamp, an EV_MSC/MSC_SCAN record, a key record
with unknown code 84, a key record with value -1, and a record whose value bytes are 01 00 00 01 -/
def c18Junk : List (List Nat) :=
  [encodeRecordAt 1700000000 123456 1 30 2,
   encodeRecordAt 1700000000 123456 4 4 458756,
   encodeRecordAt 5 6 1 84 1,
   encodeRecordAt 5 6 1 30 4294967295,
   encodeRecordAt 5 6 1 30 16777217]

example : ∀ r ∈ c18Junk, r.length = 24 ∧ decodeRecord r = none := by decide +kernel

/-- the hypotheses of `C18_skip` are satisfiable, and the conclusion computes: junk in the middle of the batch -/
example :
    decodeStream ((encodeBatch c18Batch).take 48 ++ c18Junk.flatten ++ (encodeBatch c18Batch).drop 48)
      = c18Batch := by decide +kernel

/-- a key record from a real keyboard (non-zero time stamp) is returned -/
example : decodeRecord (encodeRecordAt 1700000000 654321 1 30 1) = some (Event.pressed 30) := by
  decide +kernel

/-- the monitor accepts the model's bytes and rejects a batch whose SYN_REPORT is missing,
a batch with a wrong value, and bytes in the wrong order -/
example : monC18 c18Batch (encodeBatch c18Batch) c18Junk.flatten = true := by decide +kernel
example : monC18 c18Batch ((encodeBatch c18Batch).take 96) [] = false := by decide +kernel
example : monC18 [Event.pressed 30] (encodeRecord 1 30 2 ++ synReport) [] = false := by decide +kernel
example : monC18 c18Batch (encodeBatch c18Batch.reverse) [] = false := by decide +kernel

end TmVerif
