/-
C17 — Exclude patterns reach the service's command line unchanged.

"For every non-empty exclude pattern, the ExecStart line written into the systemd unit, when read
back by systemd's documented command-line rules (word splitting, quote removal, C-style unescaping,
% specifier and $ variable expansion), yields the arguments --exclude <pattern> with the pattern
byte-for-byte identical to what the user gave.  The surrounding arguments (--layout-file,
--only-if-keyboard, --dev-file /%I) stay intact."

Quantifier: every list of patterns, every pattern non-empty and without NUL (all other Unicode
scalar values), every instance name.

Model of the writer: `TmVerif/Model/Escape.lean` (checked against the real functions by the harness
suite "escape").  Specification of the reader: `TmVerif/Model/Systemd.lean`.
-/
import TmVerif.Proofs.EscapeRoundTrip
import TmVerif.Proofs.EscapeUnit

namespace TmVerif

/-- the arguments in front of the excludes -/
def fixedArgs : List (List Char) :=
  ["/usr/bin/totalmapper", "remap", "--verbose", "--layout-file", "/etc/totalmapper.json",
   "--only-if-keyboard"].map String.toList

/-- pass 1 on the whole line: the words, `%` and `$` still doubled inside the patterns -/
theorem splitWords_execStartValue (pats : List (List Char))
    (h : ∀ p ∈ pats, p ≠ [] ∧ Char.ofNat 0 ∉ p) :
    splitWords (execStartValue pats)
      = some (fixedArgs ++ excludeArgs dbl pats ++ ["--dev-file".toList, "/%I".toList]) := by
  have hpre : scan (.between []) execPrefix = some (.between fixedArgs) := by
    have e : execPrefix
        = "/usr/bin/totalmapper".toList ++ ' ' :: ("remap".toList ++ ' ' :: ("--verbose".toList ++ ' ' ::
          ("--layout-file".toList ++ ' ' :: ("/etc/totalmapper.json".toList ++ ' ' ::
          ("--only-if-keyboard".toList ++ ' ' :: []))))) := by decide
    rw [e,
      scan_literal' _ "/usr/bin/totalmapper".toList _ '/' "usr/bin/totalmapper".toList rfl (by decide) (by decide),
      scan_literal' _ "remap".toList _ 'r' "emap".toList rfl (by decide) (by decide),
      scan_literal' _ "--verbose".toList _ '-' "-verbose".toList rfl (by decide) (by decide),
      scan_literal' _ "--layout-file".toList _ '-' "-layout-file".toList rfl (by decide) (by decide),
      scan_literal' _ "/etc/totalmapper.json".toList _ '/' "etc/totalmapper.json".toList rfl (by decide) (by decide),
      scan_literal' _ "--only-if-keyboard".toList _ '-' "-only-if-keyboard".toList rfl (by decide) (by decide)]
    rfl
  have e : execStartValue pats
      = execPrefix ++ (buildExcludeText pats ++ ' ' :: ("--dev-file".toList ++ ' ' :: ("/%I".toList ++ []))) := by
    have e2 : execSuffix = ' ' :: ("--dev-file".toList ++ ' ' :: ("/%I".toList ++ [])) := by
      decide
    unfold execStartValue
    rw [e2, List.append_assoc]
  rw [splitWords, e, scan_of_eq _ hpre,
    scan_excludeText pats _ h,
    scan_literal' _ "--dev-file".toList _ '-' "-dev-file".toList rfl (by decide) (by decide),
    show "/%I".toList ++ [] = '/' :: ("%I".toList ++ []) from rfl,
    scan_between _ '/' _ (by decide) (by decide),
    show '/' :: ("%I".toList ++ []) = "/%I".toList ++ [] from rfl,
    scan_plain _ "/%I".toList [] [] (by decide)]
  simp [scan, scanEnd, fixedArgs]

/-- passes 2 and 3 on those words, for an arbitrary instance name: everything in front of the
instance name comes out as intended; the instance name itself goes through systemd's `$` pass -/
theorem C17_anyInstance (pats : List (List Char)) (inst : List Char)
    (h : ∀ p ∈ pats, p ≠ [] ∧ Char.ofNat 0 ∉ p) :
    parseExecStart (execStartValue pats) inst
      = (expandEnv inst).map fun i => intendedArgs pats i := by
  have e : fixedArgs ++ excludeArgs dbl pats ++ ["--dev-file".toList, "/%I".toList]
      = ('/' :: "usr/bin/totalmapper".toList)
        :: (fixedArgs.tail ++ excludeArgs dbl pats ++ ["--dev-file".toList, "/%I".toList]) := rfl
  rw [parseExecStart, splitWords_execStartValue pats h, e]
  simp only []
  rw [← e]
  have h1 : mapOpt (expandWord inst) fixedArgs = some fixedArgs := by
    simp only [fixedArgs, List.map, mapOpt]
    rw [expandWord_literal inst _ (by decide) (by decide),
      expandWord_literal inst _ (by decide) (by decide),
      expandWord_literal inst _ (by decide) (by decide),
      expandWord_literal inst _ (by decide) (by decide),
      expandWord_literal inst _ (by decide) (by decide),
      expandWord_literal inst _ (by decide) (by decide)]
  have h12 := mapOpt_append (expandWord inst) (fixedArgs ++ excludeArgs dbl pats)
    ["--dev-file".toList, "/%I".toList] (fixedArgs ++ excludeArgs id pats)
    (by rw [mapOpt_append _ _ _ _ h1, mapOpt_excludeArgs]; rfl)
  have h3 : mapOpt (expandWord inst) ["--dev-file".toList, "/%I".toList]
      = (expandEnv inst).map fun i => ["--dev-file".toList, '/' :: i] := by
    have : expandWord inst "/%I".toList = (expandEnv inst).map ('/' :: ·) := by
      simp [expandWord, expandSpecifiers, expandEnv_cons_ne]
    simp only [mapOpt]
    rw [expandWord_literal inst _ (by decide) (by decide), this]
    cases expandEnv inst <;> rfl
  show mapOpt (expandWord inst) _ = _
  rw [h12, h3]
  cases expandEnv inst <;> simp [intendedArgs, fixedArgs, excludeArgs]

/-- **C17.**  systemd starts the service with exactly the fixed arguments, then `--exclude p` for
every pattern `p` as the user gave it, then `--dev-file /<instance>`.

The hypothesis on `inst` is not about the exclude patterns: systemd applies `$` expansion (pass 3)
to the text that `%I` produced as well, so an instance name containing `$` would be rewritten by
systemd itself (`C17_anyInstance` is the statement without that hypothesis).  The instance name of
this unit is a kernel device node name (`input/eventN`, from the udev rule's `%N`). -/
theorem C17 (pats : List (List Char)) (inst : List Char)
    (h : ∀ p ∈ pats, p ≠ [] ∧ Char.ofNat 0 ∉ p) (hinst : '$' ∉ inst) :
    parseExecStart (execStartValue pats) inst =
      some (["/usr/bin/totalmapper", "remap", "--verbose", "--layout-file", "/etc/totalmapper.json",
              "--only-if-keyboard"].map String.toList
            ++ pats.flatMap (fun p => ["--exclude".toList, p])
            ++ ["--dev-file".toList, '/' :: inst]) := by
  rw [C17_anyInstance pats inst h, expandEnv_noDollar inst hinst]
  rfl

/-- the same for the unit file as a whole: the `ExecStart=` line of the text that
`build_service_text` produces is located by `unitExecStart` and read back as intended -/
theorem C17_unit (pats : List (List Char)) (inst : List Char)
    (h : ∀ p ∈ pats, p ≠ [] ∧ Char.ofNat 0 ∉ p) (hinst : '$' ∉ inst) :
    parseUnit (buildServiceText pats) inst = some (intendedArgs pats inst) := by
  rw [parseUnit, unitExecStart_buildServiceText]
  exact C17 pats inst h hinst

/-! ### the statement computes, and is not vacuous -/

def nastyPatterns : List (List Char) :=
  ["*Mouse*", "a'b", "50%", "$HOME", ";", "x y", "\x1b[0m", "\\x41 \"q\" %I ${X}"].map String.toList

/-- a concrete nasty pattern list, evaluated from the unit text to the argument vector -/
example : parseUnit (buildServiceText nastyPatterns) "input/event3".toList
    = some (intendedArgs nastyPatterns "input/event3".toList) := by
  decide +kernel

/-- the escaper as it was before the fix: the apostrophe written bare -/
def oldEscapeOneChar (c : Char) : List Char :=
  if c = '\'' then ['\''] else escapeOneChar c

def oldExecStartValue (excludes : List (List Char)) : List Char :=
  execPrefix ++ joinSpace (excludes.map fun p => "--exclude ".toList ++ p.flatMap oldEscapeOneChar)
    ++ execSuffix

/-- `a'b` written bare opens a quoted section that swallows the rest of the line: systemd refuses
the unit -/
example : parseExecStart (oldExecStartValue ["a'b".toList]) "input/event3".toList = none := by
  decide +kernel

/-- `a'b'c` written bare is accepted by systemd, but the program receives `abc` -/
example : parseExecStart (oldExecStartValue ["a'b'c".toList]) "input/event3".toList
    = some (intendedArgs ["abc".toList] "input/event3".toList) := by
  decide +kernel

/-- the hypotheses of C17 are needed: an empty pattern disappears from the command line … -/
example : parseExecStart (execStartValue [[]]) "input/event3".toList
    = some (fixedArgs ++ ["--exclude".toList, "--dev-file".toList, "/input/event3".toList]) := by
  decide +kernel

/-- … and NUL cannot be written at all (`\\x00` is refused) -/
example : parseExecStart (execStartValue [[Char.ofNat 0]]) "input/event3".toList = none := by
  decide +kernel

end TmVerif
