/-
C19 — The output stream contains no redundant events.

"Considering everything written to the virtual keyboard in order, a key is pressed only when it is
currently up and released only when it is currently down, so the mapper's own bookkeeping of what
is held always matches the device.  This holds for every mapper step and every release-all batch."

Quantifier: every layout (no well-formedness needed), every history of key events (ill-formed ones
included) with release-all calls interleaved, unbounded length, any number of keys held.
-/
import TmVerif.Proofs.Fired

namespace TmVerif

/-- every step from every reachable state emits only legal events (monitor form) -/
theorem C19_step (L : Layout) (x : Sys) (hx : Reachable L x) (e : Event) :
    monC19 (x.obs L e) = true :=
  (hx.sinv.next (Op.ev e)).2.1

/-- every release-all batch from every reachable state is legal -/
theorem C19_relAll (L : Layout) (x : Sys) (hx : Reachable L x) :
    legal x.V (releaseAll L x.s).2 = true :=
  (hx.sinv.next Op.relAll).2.1

/-- the concatenated outputs of a whole history, folded from an empty virtual keyboard, are legal -/
theorem C19_history (L : Layout) (ops : List Op) :
    legal [] (Sys.outs L Sys.init ops) = true :=
  (outs_legal (SInv.init L) ops).1

/-- the mapper's bookkeeping (`pass_through_keys ∪ mapped_output_keys`) is exactly what is held on the device,
and no key is recorded twice -/
theorem C19_bookkeeping (L : Layout) (x : Sys) (hx : Reachable L x) :
    (∀ k, k ∈ x.V ↔ (k ∈ x.s.pass ∨ k ∈ x.s.mapped)) ∧
    x.s.pass.Nodup ∧ x.s.mapped.Nodup ∧ (∀ k, k ∈ x.s.pass → k ∉ x.s.mapped) :=
  ⟨fun k => (hx.sinv.vheld k).trans (mem_held x.s k), hx.sinv.inv.i.ndPass, hx.sinv.inv.i.ndMapped,
   hx.sinv.inv.i.disj⟩

/-- the release-all monitor used by the driver holds on every reachable state -/
theorem C19_C06_relAll_monitor (L : Layout) (x : Sys) (hx : Reachable L x) :
    monRelAll x.V (releaseAll L x.s).2 (releaseAll L x.s).1 = [] := by
  have h1 := C19_relAll L x hx
  have h2 := releaseAll_spec L x.P x.s hx.sinv.inv
  have h3 := (hx.sinv.next Op.relAll)
  have hV : foldEvs x.V (releaseAll L x.s).2 = [] := by
    apply List.eq_nil_iff_forall_not_mem.mpr
    intro k hk
    have := (h3.1.vheld k).mp hk
    simp [Sys.next, held, h2.2.2.2.2.1, h2.2.2.2.2.2.2] at this
  simp [monRelAll, h1, hV, h2.2.2.2.1, h2.2.2.2.2.1, h2.2.2.2.2.2.1, h2.2.2.2.2.2.2]

/-! Non-vacuity: a concrete history on a concrete layout that fires chords (the D1 witness: two
active chords share an output key, then a third key is pressed); the statement computes. -/
def exLayout : Layout :=
  [⟨[46], [45], Repeat.normal, []⟩, ⟨[42], [42, 45, 48], Repeat.normal, []⟩, ⟨[46], [29, 48, 45], Repeat.normal, []⟩]

def exOps : List Op := [Op.ev (Event.pressed 46), Op.ev (Event.pressed 42), Op.ev (Event.pressed 33)]

example : Sys.outs exLayout Sys.init exOps =
    [Event.pressed 29, Event.pressed 48, Event.pressed 45,
     Event.released 45, Event.released 48, Event.released 29, Event.pressed 42, Event.pressed 45, Event.pressed 48,
     Event.released 45, Event.released 48, Event.released 42, Event.pressed 33] := by decide

example : legal [] (Sys.outs exLayout Sys.init exOps) = true := by decide

end TmVerif
