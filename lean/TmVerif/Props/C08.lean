/-
C08 — An absorbed modifier applies to one keystroke only.

"After a mapping that absorbs modifier M fires, and for as long as M stays held without being pressed
again, no press of a key other than the one that triggered it fires a mapping requiring M, and
whenever such a press puts a non-modifier key on the virtual keyboard M is not down there (unless a
mapping in effect outputs M).  Pressing the same trigger key again before any other key, with the
same keys held, fires the same mapping again.  M counts again once it has been released and pressed
again."

FULL STATEMENT: the trace monitor `monC08` (Monitors.lean) with ghost obligations `(M, t, m, held, fresh)`
accepts every step of every history of every layout — `C08_statement`.  It is FALSE of the model and
of the code for layouts outside H1 ∧ H2 (known findings D6, D7: `C08_counterexample_D6`,
`C08_counterexample_D7`, kernel-checked).

  H1: in every mapping all output keys before the last are modifiers;
  H2: every mapping with a non-empty absorbing list is key-producing (its last output key is a
      non-modifier).
All built-in layouts, README examples and unit-test layouts satisfy H1 ∧ H2.

PROVED (`C08_partial_i`, under H2 only): clause (i) — while an obligation (M, t) is pending, no accepted
press of a key other than t fires a mapping that has M in its trigger — for every layout satisfying
H2, every history, every pending obligation; via the invariant `OblInv`: a pending obligation's M is
still absorbed with absorbing_trigger = t, or is no longer an input key.
Clauses (ii) and (iii) are evaluated by the monitor on every implementation transition and are not
yet proved (named in the MANIFEST).
-/
import TmVerif.Proofs.Inert

namespace TmVerif

def H1 (L : Layout) : Prop := ∀ m, m ∈ L → ∀ y, y ∈ m.to.dropLast → isActionKey y = false
def H2 (L : Layout) : Prop := ∀ m, m ∈ L → m.absorbing ≠ [] → isActionMapping m = true

/-- mapper + ghost history summary + pending obligations -/
structure Sys8 where
  x : Sys
  obls : List Obl

def Sys8.init : Sys8 := ⟨Sys.init, []⟩

def Sys8.next (L : Layout) (y : Sys8) (e : Event) : Sys8 :=
  ⟨y.x.next L (Op.ev e), nextObls (y.x.obs L e) y.obls⟩

def Sys8.run (L : Layout) (y : Sys8) (evs : List Event) : Sys8 := evs.foldl (Sys8.next L) y

def Reachable8 (L : Layout) (y : Sys8) : Prop := ∃ evs, y = Sys8.run L Sys8.init evs

/-- the full statement -/
def C08_statement : Prop :=
  ∀ (L : Layout) (y : Sys8), Reachable8 L y → ∀ e, monC08 (y.x.obs L e) y.obls = []

theorem Reachable8.reachableEv {L : Layout} {y : Sys8} (h : Reachable8 L y) : ReachableEv L y.x := by
  obtain ⟨evs, rfl⟩ := h
  refine ⟨evs, ?_⟩
  suffices ∀ (z : Sys8), (Sys8.run L z evs).x = Sys.run L z.x (evs.map Op.ev) from this Sys8.init
  induction evs with
  | nil => exact fun _ => rfl
  | cons e es ih => intro z; simp only [Sys8.run, List.foldl_cons, List.map_cons, Sys.run]; exact ih (z.next L e)

/-- the invariant of a pending obligation -/
def OblOk (s : State) (ob : Obl) : Prop :=
  (ob.M ∈ s.absorbed ∧ s.absTrig = some ob.t) ∨ ob.M ∉ s.inp

def OblInv (y : Sys8) : Prop := ∀ ob, ob ∈ y.obls → OblOk y.x.s ob

/-! ### what an accepted press does to the auxiliary fields -/

theorem addPhase2_aux_fields {extra : List Key} (s : State) (k : Key) (m : Mapping) (h : IInv extra s) :
    (isActionMapping m = true ∧ shouldAbsorb s k = true ∧
      (addPhase2 s k m).1.absorbed = [] ∧ (addPhase2 s k m).1.absTrig = none ∧
      (∀ x, x ∈ (addPhase2 s k m).1.inp ↔ x ∈ s.inp ∧ x ∉ s.absorbed)) ∨
    (¬(isActionMapping m = true ∧ shouldAbsorb s k = true) ∧
      (addPhase2 s k m).1.absorbed = s.absorbed ∧ (addPhase2 s k m).1.absTrig = s.absTrig ∧
      (addPhase2 s k m).1.inp = s.inp) := by
  cases ha : isActionMapping m
  · right; rw [addPhase2_nonaction s k m ha]; exact ⟨by simp, rfl, rfl, rfl⟩
  · have f := releaseActionMappings_frame s
    cases hb : shouldAbsorb s k
    · right; rw [addPhase2_noabsorb s k m ha hb]; exact ⟨by simp, f.2.2.1, f.2.2.2.1, f.1⟩
    · left
      rw [addPhase2_absorb s k m ha hb]
      have q := releaseAbsorbedKeys_spec _ (releaseActionMappings_spec h).1
      refine ⟨rfl, rfl, q.2.2.1, q.2.2.2.1, ?_⟩
      intro x; simp only; rw [q.2.2.2.2.2.1 x, f.1, f.2.2.1]

theorem mem_addAbsorbed_left (a b : List Key) (x : Key) (h : x ∈ a) : x ∈ addAbsorbed a b := by
  induction b generalizing a with
  | nil => exact h
  | cons y b ih => simp only [addAbsorbed]; split; exact ih a h; exact ih _ (by simp [h])

theorem mem_addAbsorbed_right (a b : List Key) (x : Key) (h : x ∈ b) : x ∈ addAbsorbed a b := by
  induction b generalizing a with
  | nil => simp at h
  | cons y b ih =>
    simp only [addAbsorbed]
    rcases List.mem_cons.mp h with rfl | h
    · split
      · rename_i hc; exact mem_addAbsorbed_left _ _ _ (by simpa using hc)
      · exact mem_addAbsorbed_left _ _ _ (by simp)
    · split; exact ih a h; exact ih _ h

/-- clause (i) at the level of one state: an absorbed key that is not exempted by the trigger cannot be
required by the mapping a press fires; nor can a key that is not an input key -/
theorem fired_not_requiring {L : Layout} {s : State} {k : Key} {fm : Mapping} (hf : findMapping L s k = some fm)
    (M : Key) (hMk : M ≠ k)
    (h : (M ∈ s.absorbed ∧ s.absTrig ≠ some k) ∨ M ∉ s.inp) : M ∉ fm.frm := by
  intro hM
  rcases (findMapping_some hf).2.2 M hM with h1 | h1
  · rcases h with ⟨ha, ht⟩ | hn
    · have hsa : shouldAbsorb (pressPrep s k) k = true := by
        simp only [shouldAbsorb, pressPrep]
        cases hat : s.absTrig with
        | none => rfl
        | some t => simp only [bne_iff_ne, ne_eq]; intro e; exact ht (by rw [hat, e])
      exact h1.2 hsa (by simp [pressPrep, ha, hMk])
    · exact hn h1.1
  · exact hMk h1

/-- preservation of one obligation's invariant by a step about another key, in a layout satisfying H2 -/
theorem OblOk.step {L : Layout} (h2 : H2 L) {P : List Key} {s : State} (hinv : Inv L P s) (ob : Obl)
    (hok : OblOk s ob) (e : Event) (hne : ob.M ≠ e.key) :
    OblOk (TmVerif.step L s e).1 ob ∨
      -- unless this very step fires a mapping that absorbs M again (then a new obligation replaces it)
      (∃ k fm, e = Event.pressed k ∧ k ∉ s.inp ∧ findMapping L s k = some fm ∧ ob.M ∈ fm.absorbing) := by
  cases e with
  | released k =>
    left
    by_cases hk : k ∈ s.inp
    · rw [step_released_accepted L s k hk]
      have r := releaseKey_spec k hinv.i
      have hst : (newlyRelease s k).1 = (releaseKey s k).1 := rfl
      rw [hst]
      rcases hok with ⟨ha, ht⟩ | hn
      · exact Or.inl ⟨by rw [r.2.2.2.1]; exact ha, by rw [r.2.2.2.2.1]; exact ht⟩
      · exact Or.inr (fun hx => hn ((r.2.2.2.2.2.2 ob.M).mp hx).1)
    · rw [step_released_ignored L s k hk]; exact hok
  | pressed k =>
    have hMk : ob.M ≠ k := hne
    by_cases hk : k ∈ s.inp
    · left; rw [step_pressed_ignored L s k hk]; exact hok
    · rw [step_pressed_accepted L s k hk]
      have h0 := pressPrep_iinv k hinv.i
      -- the obligation at the prepared state
      have hok0 : OblOk (pressPrep s k) ob := by
        rcases hok with ⟨ha, ht⟩ | hn
        · exact Or.inl ⟨by simp [pressPrep, ha, hMk], ht⟩
        · exact Or.inr hn
      cases hf : findMapping L s k with
      | some fm =>
        by_cases hab : ob.M ∈ fm.absorbing
        · exact Or.inr ⟨k, fm, rfl, hk, hf, hab⟩
        · left
          have fin := newlyPress_fire_finish hf
          rw [fin.1]
          have ff := finishFire_fields (addPhase2 (afterConsume (pressPrep s k) fm) k fm).1 k fm
          have c1 := (consume_spec (pressPrep s k) fm h0).1
          have p2 := addPhase2_aux_fields (afterConsume (pressPrep s k) fm) k fm c1
          have hfmL := (findMapping_some hf).1
          rcases p2 with ⟨_, _, _, _, hinp2⟩ | ⟨hnot, habs2, htrig2, hinp2⟩
          · -- release_absorbed_keys ran: M is no longer an input key (if it was absorbed), or never was
            right
            rw [ff.1]
            intro hx
            simp only [List.mem_append, List.mem_singleton] at hx
            rcases hx with hx | hx
            · have := (hinp2 ob.M).mp hx
              rcases hok0 with ⟨ha, _⟩ | hn
              · exact this.2 ha
              · exact hn this.1
            · exact hMk hx
          · rcases hok0 with ⟨ha, ht⟩ | hn
            · left
              refine ⟨by rw [ff.2.2.1, habs2]; exact mem_addAbsorbed_left _ _ _ ha, ?_⟩
              rw [ff.2.2.2, htrig2]
              by_cases hmm : fm.absorbing.length > 0
              · -- an absorbing mapping fired: under H2 it is key-producing, so (as release_absorbed_keys did
                -- not run) the trigger must be the pending one
                have hne' : fm.absorbing ≠ [] := by intro e; simp [e] at hmm
                have hact := h2 fm hfmL hne'
                have hsa : shouldAbsorb (afterConsume (pressPrep s k) fm) k = false := by
                  cases hh : shouldAbsorb (afterConsume (pressPrep s k) fm) k with
                  | false => rfl
                  | true => exact absurd ⟨hact, hh⟩ hnot
                have : (afterConsume (pressPrep s k) fm).absTrig = some k := by
                  simp only [shouldAbsorb] at hsa
                  cases hat : (afterConsume (pressPrep s k) fm).absTrig with
                  | none => simp [hat] at hsa
                  | some t => simp [hat] at hsa; rw [hsa]
                have ht' : (afterConsume (pressPrep s k) fm).absTrig = some ob.t := ht
                simp only [hmm, if_true]
                rw [this] at ht'; exact ht'
              · simp only [hmm, if_false]; exact ht
            · right
              rw [ff.1, hinp2]
              intro hx
              simp only [List.mem_append, List.mem_singleton] at hx
              rcases hx with hx | hx
              · exact hn hx
              · exact hMk hx
      | none =>
        left
        cases hc : noHit s k with
        | false =>
          rw [newlyPress_skip hf hc]
          rcases hok0 with ⟨ha, ht⟩ | hn
          · exact Or.inl ⟨ha, ht⟩
          · exact Or.inr (by intro hx; simp at hx; rcases hx with hx | hx; exact hn hx; exact hMk hx)
        | true =>
          rw [newlyPress_pass hf hc]
          cases hak : isActionKey k with
          | false =>
            rw [passThrough_nonaction _ k hak]
            rcases hok0 with ⟨ha, ht⟩ | hn
            · exact Or.inl ⟨ha, ht⟩
            · exact Or.inr (by intro hx; simp at hx; rcases hx with hx | hx; exact hn hx; exact hMk hx)
          | true =>
            rw [passThrough_action _ k hak]
            right
            have f := releaseActionMappings_frame (pressPrep s k)
            have q := releaseAbsorbedKeys_spec _ (releaseActionMappings_spec h0).1
            intro hx
            simp only [List.mem_append, List.mem_singleton] at hx
            rcases hx with hx | hx
            · have := (q.2.2.2.2.2.1 ob.M).mp hx
              rw [f.1, f.2.2.1] at this
              rcases hok0 with ⟨ha, _⟩ | hn
              · exact this.2 ha
              · exact hn this.1
            · exact hMk hx


/-! ### the invariant over histories and clause (i) -/

theorem mem_nextObls {o : Obs} {obls : List Obl} {ob : Obl} (h : ob ∈ nextObls o obls) :
    (∃ ob0, ob0 ∈ obls ∧ ob0.M = ob.M ∧ ob0.t = ob.t ∧ ob0.M ≠ o.e.key ∧
      (∀ fm, o.fired = some fm → o.accepted = true → (∃ k, o.e = Event.pressed k) → ob.M ∉ fm.absorbing)) ∨
    (∃ k fm, o.e = Event.pressed k ∧ o.accepted = true ∧ o.fired = some fm ∧ ob.M ∈ fm.absorbing ∧ ob.t = k) := by
  unfold nextObls at h
  cases he : o.e with
  | released k =>
    simp only [he] at h
    simp only [List.mem_filter, bne_iff_ne, ne_eq] at h
    exact Or.inl ⟨ob, h.1, rfl, rfl, by simpa [he, Event.key] using h.2, by intro fm _ _ ⟨k', hk'⟩; simp [he] at hk'⟩
  | pressed k =>
    simp only [he] at h
    cases hacc : o.accepted with
    | false =>
      simp only [hacc, Bool.not_false, if_true, List.mem_filter, bne_iff_ne, ne_eq] at h
      exact Or.inl ⟨ob, h.1, rfl, rfl, by simpa [he, Event.key] using h.2, by intro fm _ hc; simp at hc⟩
    | true =>
      simp only [hacc, Bool.not_true, Bool.false_eq_true, if_false] at h
      cases hf : o.fired with
      | none =>
        simp only [hf, List.mem_map, List.mem_filter, bne_iff_ne, ne_eq] at h
        obtain ⟨ob0, ⟨hm, hne⟩, heq⟩ := h
        refine Or.inl ⟨ob0, hm, ?_, ?_, by simpa [he, Event.key] using hne, by intro fm hfm; simp at hfm⟩
        · split at heq <;> (subst heq; rfl)
        · split at heq <;> (subst heq; rfl)
      | some fm =>
        simp only [hf, List.mem_append, List.mem_filter, List.mem_map, bne_iff_ne, ne_eq] at h
        rcases h with ⟨⟨ob0, ⟨hm, hne⟩, heq⟩, hnab⟩ | ⟨M, hM, heq⟩
        · left
          have h1 : ob0.M = ob.M ∧ ob0.t = ob.t := by split at heq <;> (subst heq; exact ⟨rfl, rfl⟩)
          refine ⟨ob0, hm, h1.1, h1.2, by simpa [he, Event.key] using hne, ?_⟩
          intro fm' hfm' _ _
          simp only [Option.some.injEq] at hfm'; subst hfm'
          simpa using hnab
        · right
          subst heq
          exact ⟨k, fm, rfl, rfl, rfl, hM, rfl⟩

theorem OblInv.next {L : Layout} (h2 : H2 L) {y : Sys8} (hy : Reachable8 L y) (hi : OblInv y) (e : Event) :
    OblInv (y.next L e) := by
  intro ob hob
  have hx := hy.reachableEv.reachable
  have hs := hx.sinv
  simp only [Sys8.next] at hob ⊢
  rcases mem_nextObls hob with ⟨ob0, hm0, hM, ht, hne, hnab⟩ | ⟨k, fm, he, hacc, hfired, hab, htk⟩
  · -- an old obligation that survives
    have hok0 := hi ob0 hm0
    have hok : OblOk y.x.s ob := by
      unfold OblOk at hok0 ⊢; rw [← hM, ← ht]; exact hok0
    have hne' : ob.M ≠ e.key := by rw [← hM]; simpa [Sys.obs] using hne
    rcases OblOk.step h2 hs.inv ob hok e hne' with h1 | ⟨k, fm, he, hk, hf, hab⟩
    · exact h1
    · -- the step fires a mapping absorbing M again: impossible for a surviving old obligation
      exfalso
      have hfired : (y.x.obs L e).fired = some fm := by rw [he, fired_eq hs k hk]; exact hf
      have hacc : (y.x.obs L e).accepted = true := by simp [he, Obs.accepted, Sys.obs, hk]
      exact hnab fm hfired hacc ⟨k, by simp [he, Sys.obs]⟩ hab
  · -- a new obligation: M was just absorbed on trigger k
    have he' : e = Event.pressed k := by simpa [Sys.obs] using he
    subst he'
    have hk : k ∉ y.x.s.inp := by simpa [Obs.accepted, Sys.obs] using hacc
    have hf : findMapping L y.x.s k = some fm := by rw [← fired_eq hs k hk]; exact hfired
    left
    simp only [Sys.next, step_pressed_accepted L y.x.s k hk]
    have fin := newlyPress_fire_finish hf
    rw [fin.1]
    have ff := finishFire_fields (addPhase2 (afterConsume (pressPrep y.x.s k) fm) k fm).1 k fm
    refine ⟨by rw [ff.2.2.1]; exact mem_addAbsorbed_right _ _ _ hab, ?_⟩
    rw [ff.2.2.2, htk]
    have : fm.absorbing.length > 0 := by
      cases hh : fm.absorbing with
      | nil => rw [hh] at hab; simp at hab
      | cons a l => simp
    simp [this]

theorem Reachable8.oblInv {L : Layout} (h2 : H2 L) {y : Sys8} (hy : Reachable8 L y) : OblInv y := by
  obtain ⟨evs, rfl⟩ := hy
  suffices ∀ (z : Sys8), Reachable8 L z → OblInv z → OblInv (Sys8.run L z evs) from
    this Sys8.init ⟨[], rfl⟩ (by intro ob hob; simp [Sys8.init] at hob)
  induction evs with
  | nil => exact fun z _ h => h
  | cons e es ih =>
    intro z hz hi
    simp only [Sys8.run, List.foldl_cons]
    have hz' : Reachable8 L (z.next L e) := by
      obtain ⟨evs0, rfl⟩ := hz
      exact ⟨evs0 ++ [e], by simp [Sys8.run, List.foldl_append]⟩
    exact ih _ hz' (OblInv.next h2 hz hi e)

/-- C08 clause (i), for every layout satisfying H2, every history, every pending obligation (M, t):
an accepted press of a key other than t (and other than M) never fires a mapping that has M in its
trigger -/
theorem C08_partial_i (L : Layout) (h2 : H2 L) (y : Sys8) (hy : Reachable8 L y) (ob : Obl) (hob : ob ∈ y.obls)
    (k : Key) (hk : k ∉ y.x.s.inp) (hkt : k ≠ ob.t) (hkM : k ≠ ob.M)
    (fm : Mapping) (hf : findMapping L y.x.s k = some fm) : ob.M ∉ fm.frm := by
  have hok := hy.oblInv h2 ob hob
  apply fired_not_requiring hf ob.M (fun e => hkM e.symm)
  rcases hok with ⟨ha, ht⟩ | hn
  · exact Or.inl ⟨ha, by rw [ht]; intro e; exact hkt (Option.some.inj e).symm⟩
  · exact Or.inr hn

/-- monitor form of clause (i) -/
theorem C08_partial_i_monitor (L : Layout) (h2 : H2 L) (y : Sys8) (hy : Reachable8 L y) (ob : Obl) (hob : ob ∈ y.obls)
    (k : Key) (hk : k ∉ y.x.s.inp) (hkt : k ≠ ob.t) (hkM : k ≠ ob.M) :
    c08i (y.x.obs L (Event.pressed k)) ob = true := by
  unfold c08i
  rw [fired_eq hy.reachableEv.reachable.sinv k hk]
  cases hf : findMapping L y.x.s k with
  | none => rfl
  | some fm =>
    have := C08_partial_i L h2 y hy ob hob k hk hkt hkM fm hf
    simpa using this

/-! ### the full statement is false outside H1 ∧ H2 (known findings D6, D7) -/

def d6Layout : Layout :=
  [⟨[42, 29], [44, 45], Repeat.normal, []⟩, ⟨[42, 46], [29], Repeat.normal, [42]⟩, ⟨[30, 29], [], Repeat.normal, [30]⟩]

def d6History : List Event :=
  [Event.pressed 42, Event.pressed 30, Event.pressed 46, Event.released 46, Event.pressed 29, Event.released 29,
   Event.released 30]

/-- D6: after LEFTSHIFT was absorbed by the `C` chord and never released, re-pressing LEFTCTRL (the latest
absorbing trigger) fires `[LEFTSHIFT, LEFTCTRL] → [Z, X]`, a mapping requiring the absorbed LEFTSHIFT -/
theorem C08_counterexample_D6 :
    let y := Sys8.run d6Layout Sys8.init d6History
    (y.obls.map fun ob => (ob.M, ob.t)) = [(42, 46)] ∧
    monC08 (y.x.obs d6Layout (Event.pressed 29)) y.obls = ["C08:D6"] ∧
    findMapping d6Layout y.x.s 29 = some ⟨[42, 29], [44, 45], Repeat.normal, []⟩ := by
  decide

def d7Layout : Layout :=
  [⟨[30, 46], [21, 30], Repeat.normal, [30]⟩, ⟨[42], [44, 29], Repeat.normal, []⟩]

def d7History : List Event := [Event.pressed 30, Event.pressed 46, Event.released 46]

/-- D7: `[LEFTSHIFT] → [Z, LEFTCTRL]` ends in a modifier, so it is treated as a modifier-remapping and
skips `release_absorbed_keys`: Z goes down while the absorbed A is still down -/
theorem C08_counterexample_D7 :
    let y := Sys8.run d7Layout Sys8.init d7History
    (y.obls.map fun ob => (ob.M, ob.t)) = [(30, 46)] ∧
    monC08 (y.x.obs d7Layout (Event.pressed 42)) y.obls = ["C08:D7"] := by
  decide

theorem C08_statement_false : ¬ C08_statement := by
  intro h
  have := h d7Layout _ ⟨d7History, rfl⟩ (Event.pressed 42)
  rw [C08_counterexample_D7.2] at this
  simp at this

/-! Non-vacuity of the partial theorem: unit-test layout `absorbing_double_press_test_1`
(`[LEFTSHIFT,A]→[LEFTSHIFT,A]`, `[LEFTSHIFT,B]→[LEFTSHIFT,B]`, both absorbing LEFTSHIFT; H1 ∧ H2 hold):
after LEFTSHIFT↓ A↓ the obligation (LEFTSHIFT, A) is pending and pressing B does NOT fire the B chord:
B is passed through after LEFTSHIFT has been lifted. -/
example :
    let L : Layout := [⟨[42, 30], [42, 30], Repeat.normal, [42]⟩, ⟨[42, 48], [42, 48], Repeat.normal, [42]⟩]
    let y := Sys8.run L Sys8.init [Event.pressed 42, Event.pressed 30]
    (y.obls.map fun ob => (ob.M, ob.t)) = [(42, 30)] ∧
    findMapping L y.x.s 48 = none ∧
    (step L y.x.s (Event.pressed 48)).2.events = [Event.released 30, Event.released 42, Event.pressed 48] ∧
    monC08 (y.x.obs L (Event.pressed 48)) y.obls = [] := by
  decide

end TmVerif
