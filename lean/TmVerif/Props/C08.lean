/-
C08 — An absorbed modifier applies to one keystroke only.

"After a mapping that absorbs modifier M fires, and for as long as M stays held without being pressed
again, no press of a key other than the one that triggered it fires a mapping requiring M, and
whenever such a press puts a non-modifier key on the virtual keyboard M is not down there (unless a
mapping in effect outputs M).  Pressing the same trigger key again before any other key, with the
same keys held, fires the same mapping again.  M counts again once it has been released and pressed
again."

FULL STATEMENT: the trace monitor `monC08` (Monitors.lean) with ghost obligations `(M, t, m, held, fresh)`
accepts every step of every history of every layout — `C08_statement` (sentences 1–3 of the property;
sentence 4, "M counts again …", is not in the monitor: it is `C08_pressed_again` /
`C08_absorbed_only_by_firing` / `C08_counts` below).

PROVED IN FULL (`C08_full : C08_statement`) since the fix of finding D6.  D6 was: `absorbing_trigger` is ONE slot
for the whole list `mapped_absorbed_keys`, and `add_new_mapping` ran `release_absorbed_keys` only
`if produces_action_key(m)`; an absorbing mapping that is not key-producing, fired under a different trigger,
overwrote the slot while the previously absorbed key stayed in the list, so re-pressing the NEW trigger exempted
the OLD absorbed key too.  The fix runs `release_absorbed_keys` (and the consumption after it)
`if should_absorb && (produces_action_key(m) || m.absorbing.len() > 0)`; invariant restored: every key in
`mapped_absorbed_keys` was absorbed under the current `absorbing_trigger`.  `C08_d6_fixed` replays the former
counterexample (`d6Layout`, `d6History`): the formerly violating press fires nothing, the monitor accepts.

  H2 (NO LONGER A HYPOTHESIS since the fix of D6; still defined, reported by the driver request `H12`): every
      mapping with a non-empty absorbing list is key-producing (its last output key is a non-modifier).
  H1 (NO LONGER A HYPOTHESIS since the fix of finding D7; still defined and reported by the driver request
      `H12`): a mapping that is not key-producing (its output is empty or ends in a modifier) outputs modifiers
      only — implied by "all output keys before the last are modifiers" (`H1_of_canonical`), and exactly the
      negation of what finding D7 needed.  D7 was: `add_new_mapping` entered its "release action mappings /
      release absorbed keys" block only `if is_action_mapping(m)` (last output key a non-modifier); the fix
      enters it `if produces_action_key(m)` (any output key a non-modifier).  `C08_d7_fixed` replays the former
      counterexample: the monitor accepts, the absorbed key is released before Z goes down.
All built-in layouts, README examples and unit-test layouts satisfy H1 ∧ H2 (nothing changes for them).

The three clauses, each for EVERY layout, every history, every step:
  (i)   `C08_i`: while an obligation (M, t) is pending, no accepted press of a key other
        than t fires a mapping that has M in its trigger; via the invariant `OblInv` (`Reachable8.oblInv'`): a
        pending obligation's M is still absorbed with absorbing_trigger = t, or is no longer an input key;
  (ii)  `C08_ii`: at every press of a non-modifier key by such a step M is not down on
        the virtual keyboard, unless a mapping in effect after the step outputs M;
  (iii) `C08_iii`: re-pressing t before any other key with the same keys held fires the
        same mapping; via the invariant `FreshInv` (`Reachable8.freshInv'`): while the held set is the one of the
        firing, absorbing_trigger = t and the selection predicate of a re-press is the one of the firing.
The former names (`C08_partial'`, `C08_partial`, `C08_partial_i`, `C08_partial_ii'`, `C08_partial_ii`,
`C08_partial_iii`, `OblOk.step`, `OblInv.next`, `fire_suppNow`, `FreshInv.next`, `Reachable8.oblInv`,
`Reachable8.freshInv`) are kept with their signatures as corollaries that ignore `h1` / `h2`.
-/
import TmVerif.Proofs.Inert

namespace TmVerif

def H1 (L : Layout) : Prop := ∀ m, m ∈ L → isActionMapping m = false → ∀ y, y ∈ m.to → isActionKey y = false
def H2 (L : Layout) : Prop := ∀ m, m ∈ L → m.absorbing ≠ [] → isActionMapping m = true

/-- the Bool forms the monitor uses to decide whether a layout is inside the theorem's scope -/
theorem H1_iff (L : Layout) : H1 L ↔ layoutH1 L = true := by
  simp only [H1, layoutH1, List.all_eq_true, Bool.or_eq_true, Bool.not_eq_eq_eq_not, Bool.not_true]
  constructor
  · intro h m hm
    cases ha : isActionMapping m with
    | true => exact Or.inl rfl
    | false => exact Or.inr (fun y hy => h m hm ha y hy)
  · intro h m hm ha y hy
    rcases h m hm with h' | h'
    · rw [ha] at h'; exact absurd h' (by simp)
    · exact h' y hy

/-- the hypothesis as first stated (all output keys before the last are modifiers) implies H1 -/
theorem H1_of_canonical (L : Layout) (h : ∀ m, m ∈ L → ∀ y, y ∈ m.to.dropLast → isActionKey y = false) : H1 L := by
  intro m hm ha y hy
  cases hl : m.to.getLast? with
  | none => have : m.to = [] := List.getLast?_eq_none_iff.mp hl; rw [this] at hy; simp at hy
  | some kl =>
    have hne : m.to ≠ [] := by intro e; simp [e] at hl
    have hkl : isActionKey kl = false := by simpa [isActionMapping, hl] using ha
    have hsplit := List.dropLast_concat_getLast hne
    have hlast : m.to.getLast hne = kl := by
      have := List.getLast?_eq_some_getLast hne; rw [hl] at this; exact (Option.some.inj this).symm
    rw [← hsplit, hlast] at hy
    simp only [List.mem_append, List.mem_singleton] at hy
    rcases hy with h' | h'
    · exact h m hm y h'
    · rw [h']; exact hkl

theorem H2_iff (L : Layout) : H2 L ↔ layoutH2 L = true := by
  simp only [H2, layoutH2, List.all_eq_true, Bool.or_eq_true, List.isEmpty_iff]
  constructor
  · intro h m hm
    by_cases he : m.absorbing = []
    · exact Or.inl he
    · exact Or.inr (h m hm he)
  · intro h m hm hne
    rcases h m hm with h | h
    · exact absurd h hne
    · exact h

/-- mapper + ghost history summary + pending obligations -/
structure Sys8 where
  x : Sys
  obls : List Obl

def Sys8.init : Sys8 := ⟨Sys.init, []⟩

def Sys8.next (L : Layout) (y : Sys8) (e : Event) : Sys8 :=
  ⟨y.x.next L (Op.ev e), nextObls (y.x.obs L e) y.obls⟩

def Sys8.run (L : Layout) (y : Sys8) (evs : List Event) : Sys8 := evs.foldl (Sys8.next L) y

def Reachable8 (L : Layout) (y : Sys8) : Prop := ∃ evs, y = Sys8.run L Sys8.init evs

/-- the full statement -/
def C08_statement : Prop :=
  ∀ (L : Layout) (y : Sys8), Reachable8 L y → ∀ e, monC08 (y.x.obs L e) y.obls = []

theorem Reachable8.reachableEv {L : Layout} {y : Sys8} (h : Reachable8 L y) : ReachableEv L y.x := by
  obtain ⟨evs, rfl⟩ := h
  refine ⟨evs, ?_⟩
  suffices ∀ (z : Sys8), (Sys8.run L z evs).x = Sys.run L z.x (evs.map Op.ev) from this Sys8.init
  induction evs with
  | nil => exact fun _ => rfl
  | cons e es ih => intro z; simp only [Sys8.run, List.foldl_cons, List.map_cons, Sys.run]; exact ih (z.next L e)

/-- the invariant of a pending obligation -/
def OblOk (s : State) (ob : Obl) : Prop :=
  (ob.M ∈ s.absorbed ∧ s.absTrig = some ob.t) ∨ ob.M ∉ s.inp

def OblInv (y : Sys8) : Prop := ∀ ob, ob ∈ y.obls → OblOk y.x.s ob

/-! ### what an accepted press does to the auxiliary fields -/

/-- (restated with the fix of D7: the block of phase 2 runs when `producesActionKey m`, it was
`isActionMapping m`; restated with the fix of D6: `release_absorbed_keys` runs iff `absorbsNow s k m`, i.e.
`should_absorb` and the mapping produces an action key OR is absorbing) -/
theorem addPhase2_aux_fields {extra : List Key} (s : State) (k : Key) (m : Mapping) (h : IInv extra s) :
    (absorbsNow s k m = true ∧ shouldAbsorb s k = true ∧
      (addPhase2 s k m).1.absorbed = [] ∧ (addPhase2 s k m).1.absTrig = none ∧
      (∀ x, x ∈ (addPhase2 s k m).1.inp ↔ x ∈ s.inp ∧ x ∉ s.absorbed)) ∨
    (absorbsNow s k m = false ∧
      (addPhase2 s k m).1.absorbed = s.absorbed ∧ (addPhase2 s k m).1.absTrig = s.absTrig ∧
      (addPhase2 s k m).1.inp = s.inp) := by
  have f := ramIf_frame m s
  cases hb : absorbsNow s k m
  · right; rw [addPhase2_skip s k m hb]; exact ⟨rfl, f.2.2.1, f.2.2.2.1, f.1⟩
  · left
    rw [addPhase2_run s k m hb]
    have q := releaseAbsorbedKeys_spec _ (ramIf_spec m h).1
    refine ⟨rfl, ((absorbsNow_true_iff s k m).mp hb).1, q.2.2.1, q.2.2.2.1, ?_⟩
    intro x
    show x ∈ (releaseAbsorbedKeys (ramIf m s).1).1.inp ↔ _
    rw [q.2.2.2.2.2.1 x, f.1, f.2.2.1]

theorem mem_addAbsorbed_left (a b : List Key) (x : Key) (h : x ∈ a) : x ∈ addAbsorbed a b := by
  induction b generalizing a with
  | nil => exact h
  | cons y b ih => simp only [addAbsorbed]; split; exact ih a h; exact ih _ (by simp [h])

theorem mem_addAbsorbed_right (a b : List Key) (x : Key) (h : x ∈ b) : x ∈ addAbsorbed a b := by
  induction b generalizing a with
  | nil => simp at h
  | cons y b ih =>
    simp only [addAbsorbed]
    rcases List.mem_cons.mp h with rfl | h
    · split
      · rename_i hc; exact mem_addAbsorbed_left _ _ _ (by simpa using hc)
      · exact mem_addAbsorbed_left _ _ _ (by simp)
    · split; exact ih a h; exact ih _ h

/-- clause (i) at the level of one state: an absorbed key that is not exempted by the trigger cannot be
required by the mapping a press fires; nor can a key that is not an input key -/
theorem fired_not_requiring {L : Layout} {s : State} {k : Key} {fm : Mapping} (hf : findMapping L s k = some fm)
    (M : Key) (hMk : M ≠ k)
    (h : (M ∈ s.absorbed ∧ s.absTrig ≠ some k) ∨ M ∉ s.inp) : M ∉ fm.frm := by
  intro hM
  rcases (findMapping_some hf).2.2 M hM with h1 | h1
  · rcases h with ⟨ha, ht⟩ | hn
    · have hsa : shouldAbsorb (pressPrep s k) k = true := by
        simp only [shouldAbsorb, pressPrep]
        cases hat : s.absTrig with
        | none => rfl
        | some t => simp only [bne_iff_ne, ne_eq]; intro e; exact ht (by rw [hat, e])
      exact h1.2 hsa (by simp [pressPrep, ha, hMk])
    · exact hn h1.1
  · exact hMk h1

/-- preservation of one obligation's invariant by a step about another key — EVERY layout (since the fix of D6;
it needed H2 before) -/
theorem OblOk.step' {L : Layout} {P : List Key} {s : State} (hinv : Inv L P s) (ob : Obl)
    (hok : OblOk s ob) (e : Event) (hne : ob.M ≠ e.key) :
    OblOk (TmVerif.step L s e).1 ob ∨
      -- unless this very step fires a mapping that absorbs M again (then a new obligation replaces it)
      (∃ k fm, e = Event.pressed k ∧ k ∉ s.inp ∧ findMapping L s k = some fm ∧ ob.M ∈ fm.absorbing) := by
  cases e with
  | released k =>
    left
    by_cases hk : k ∈ s.inp
    · rw [step_released_accepted L s k hk]
      have r := releaseKey_spec k hinv.i
      have hst : (newlyRelease s k).1 = (releaseKey s k).1 := rfl
      rw [hst]
      rcases hok with ⟨ha, ht⟩ | hn
      · exact Or.inl ⟨by rw [r.2.2.2.1]; exact ha, by rw [r.2.2.2.2.1]; exact ht⟩
      · exact Or.inr (fun hx => hn ((r.2.2.2.2.2.2 ob.M).mp hx).1)
    · rw [step_released_ignored L s k hk]; exact hok
  | pressed k =>
    have hMk : ob.M ≠ k := hne
    by_cases hk : k ∈ s.inp
    · left; rw [step_pressed_ignored L s k hk]; exact hok
    · rw [step_pressed_accepted L s k hk]
      have h0 := pressPrep_iinv k hinv.i
      -- the obligation at the prepared state
      have hok0 : OblOk (pressPrep s k) ob := by
        rcases hok with ⟨ha, ht⟩ | hn
        · exact Or.inl ⟨by simp [pressPrep, ha, hMk], ht⟩
        · exact Or.inr hn
      cases hf : findMapping L s k with
      | some fm =>
        by_cases hab : ob.M ∈ fm.absorbing
        · exact Or.inr ⟨k, fm, rfl, hk, hf, hab⟩
        · left
          have fin := newlyPress_fire_finish hf
          rw [fin.1]
          have ff := finishFire_fields (addPhase2 (afterConsume (pressPrep s k) fm) k fm).1 k fm
          have c1 := (consume_spec (pressPrep s k) fm h0).1
          have p2 := addPhase2_aux_fields (afterConsume (pressPrep s k) fm) k fm c1
          have hfmL := (findMapping_some hf).1
          rcases p2 with ⟨_, _, _, _, hinp2⟩ | ⟨hnot, habs2, htrig2, hinp2⟩
          · -- release_absorbed_keys ran: M is no longer an input key (if it was absorbed), or never was
            right
            rw [ff.1]
            intro hx
            simp only [List.mem_append, List.mem_singleton] at hx
            rcases hx with hx | hx
            · have := (hinp2 ob.M).mp hx
              rcases hok0 with ⟨ha, _⟩ | hn
              · exact this.2 ha
              · exact hn this.1
            · exact hMk hx
          · rcases hok0 with ⟨ha, ht⟩ | hn
            · left
              refine ⟨by rw [ff.2.2.1, habs2]; exact mem_addAbsorbed_left _ _ _ ha, ?_⟩
              rw [ff.2.2.2, htrig2]
              by_cases hmm : fm.absorbing.length > 0
              · -- an absorbing mapping fired and release_absorbed_keys did not run: since the fix of D6 that
                -- happens only if `should_absorb` is false, i.e. the trigger is the pending one
                have hne' : fm.absorbing ≠ [] := by intro e; simp [e] at hmm
                have hsa : shouldAbsorb (afterConsume (pressPrep s k) fm) k = false := by
                  rcases (absorbsNow_false_iff _ _ _).mp hnot with hh | hh
                  · exact hh
                  · exact absurd hh.2 hne'
                have : (afterConsume (pressPrep s k) fm).absTrig = some k := by
                  simp only [shouldAbsorb] at hsa
                  cases hat : (afterConsume (pressPrep s k) fm).absTrig with
                  | none => simp [hat] at hsa
                  | some t => simp [hat] at hsa; rw [hsa]
                have ht' : (afterConsume (pressPrep s k) fm).absTrig = some ob.t := ht
                simp only [hmm, if_true]
                rw [this] at ht'; exact ht'
              · simp only [hmm, if_false]; exact ht
            · right
              rw [ff.1, hinp2]
              intro hx
              simp only [List.mem_append, List.mem_singleton] at hx
              rcases hx with hx | hx
              · exact hn hx
              · exact hMk hx
      | none =>
        left
        cases hc : noHit s k with
        | false =>
          rw [newlyPress_skip hf hc]
          rcases hok0 with ⟨ha, ht⟩ | hn
          · exact Or.inl ⟨ha, ht⟩
          · exact Or.inr (by intro hx; simp at hx; rcases hx with hx | hx; exact hn hx; exact hMk hx)
        | true =>
          rw [newlyPress_pass hf hc]
          cases hak : isActionKey k with
          | false =>
            rw [passThrough_nonaction _ k hak]
            rcases hok0 with ⟨ha, ht⟩ | hn
            · exact Or.inl ⟨ha, ht⟩
            · exact Or.inr (by intro hx; simp at hx; rcases hx with hx | hx; exact hn hx; exact hMk hx)
          | true =>
            rw [passThrough_action _ k hak]
            right
            have f := releaseActionMappings_frame (pressPrep s k)
            have q := releaseAbsorbedKeys_spec _ (releaseActionMappings_spec h0).1
            intro hx
            simp only [List.mem_append, List.mem_singleton] at hx
            rcases hx with hx | hx
            · have := (q.2.2.2.2.2.1 ob.M).mp hx
              rw [f.1, f.2.2.1] at this
              rcases hok0 with ⟨ha, _⟩ | hn
              · exact this.2 ha
              · exact hn this.1
            · exact hMk hx


/-- `OblOk.step'` with its former signature: the hypothesis H2 is no longer used (fix of D6) -/
theorem OblOk.step {L : Layout} (h2 : H2 L) {P : List Key} {s : State} (hinv : Inv L P s) (ob : Obl)
    (hok : OblOk s ob) (e : Event) (hne : ob.M ≠ e.key) :
    OblOk (TmVerif.step L s e).1 ob ∨
      (∃ k fm, e = Event.pressed k ∧ k ∉ s.inp ∧ findMapping L s k = some fm ∧ ob.M ∈ fm.absorbing) :=
  have _ := h2
  OblOk.step' hinv ob hok e hne

/-! ### the invariant over histories and clause (i) -/

theorem mem_nextObls {o : Obs} {obls : List Obl} {ob : Obl} (h : ob ∈ nextObls o obls) :
    (∃ ob0, ob0 ∈ obls ∧ ob0.M = ob.M ∧ ob0.t = ob.t ∧ ob0.M ≠ o.e.key ∧
      (∀ fm, o.fired = some fm → o.accepted = true → (∃ k, o.e = Event.pressed k) → ob.M ∉ fm.absorbing)) ∨
    (∃ k fm, o.e = Event.pressed k ∧ o.accepted = true ∧ o.fired = some fm ∧ ob.M ∈ fm.absorbing ∧ ob.t = k) := by
  unfold nextObls at h
  cases he : o.e with
  | released k =>
    simp only [he] at h
    simp only [List.mem_filter, bne_iff_ne, ne_eq] at h
    exact Or.inl ⟨ob, h.1, rfl, rfl, by simpa [he, Event.key] using h.2, by intro fm _ _ ⟨k', hk'⟩; simp [he] at hk'⟩
  | pressed k =>
    simp only [he] at h
    cases hacc : o.accepted with
    | false =>
      simp only [hacc, Bool.not_false, if_true, List.mem_filter, bne_iff_ne, ne_eq] at h
      exact Or.inl ⟨ob, h.1, rfl, rfl, by simpa [he, Event.key] using h.2, by intro fm _ hc; simp at hc⟩
    | true =>
      simp only [hacc, Bool.not_true, Bool.false_eq_true, if_false] at h
      cases hf : o.fired with
      | none =>
        simp only [hf, List.mem_map, List.mem_filter, bne_iff_ne, ne_eq] at h
        obtain ⟨ob0, ⟨hm, hne⟩, heq⟩ := h
        refine Or.inl ⟨ob0, hm, ?_, ?_, by simpa [he, Event.key] using hne, by intro fm hfm; simp at hfm⟩
        · split at heq <;> (subst heq; rfl)
        · split at heq <;> (subst heq; rfl)
      | some fm =>
        simp only [hf, List.mem_append, List.mem_filter, List.mem_map, bne_iff_ne, ne_eq] at h
        rcases h with ⟨⟨ob0, ⟨hm, hne⟩, heq⟩, hnab⟩ | ⟨M, hM, heq⟩
        · left
          have h1 : ob0.M = ob.M ∧ ob0.t = ob.t := by split at heq <;> (subst heq; exact ⟨rfl, rfl⟩)
          refine ⟨ob0, hm, h1.1, h1.2, by simpa [he, Event.key] using hne, ?_⟩
          intro fm' hfm' _ _
          simp only [Option.some.injEq] at hfm'; subst hfm'
          simpa using hnab
        · right
          subst heq
          exact ⟨k, fm, rfl, rfl, rfl, hM, rfl⟩

theorem OblInv.next' {L : Layout} {y : Sys8} (hy : Reachable8 L y) (hi : OblInv y) (e : Event) :
    OblInv (y.next L e) := by
  intro ob hob
  have hx := hy.reachableEv.reachable
  have hs := hx.sinv
  simp only [Sys8.next] at hob ⊢
  rcases mem_nextObls hob with ⟨ob0, hm0, hM, ht, hne, hnab⟩ | ⟨k, fm, he, hacc, hfired, hab, htk⟩
  · -- an old obligation that survives
    have hok0 := hi ob0 hm0
    have hok : OblOk y.x.s ob := by
      unfold OblOk at hok0 ⊢; rw [← hM, ← ht]; exact hok0
    have hne' : ob.M ≠ e.key := by rw [← hM]; simpa [Sys.obs] using hne
    rcases OblOk.step' hs.inv ob hok e hne' with h1 | ⟨k, fm, he, hk, hf, hab⟩
    · exact h1
    · -- the step fires a mapping absorbing M again: impossible for a surviving old obligation
      exfalso
      have hfired : (y.x.obs L e).fired = some fm := by rw [he, fired_eq hs k hk]; exact hf
      have hacc : (y.x.obs L e).accepted = true := by simp [he, Obs.accepted, Sys.obs, hk]
      exact hnab fm hfired hacc ⟨k, by simp [he, Sys.obs]⟩ hab
  · -- a new obligation: M was just absorbed on trigger k
    have he' : e = Event.pressed k := by simpa [Sys.obs] using he
    subst he'
    have hk : k ∉ y.x.s.inp := by simpa [Obs.accepted, Sys.obs] using hacc
    have hf : findMapping L y.x.s k = some fm := by rw [← fired_eq hs k hk]; exact hfired
    left
    simp only [Sys.next, step_pressed_accepted L y.x.s k hk]
    have fin := newlyPress_fire_finish hf
    rw [fin.1]
    have ff := finishFire_fields (addPhase2 (afterConsume (pressPrep y.x.s k) fm) k fm).1 k fm
    refine ⟨by rw [ff.2.2.1]; exact mem_addAbsorbed_right _ _ _ hab, ?_⟩
    rw [ff.2.2.2, htk]
    have : fm.absorbing.length > 0 := by
      cases hh : fm.absorbing with
      | nil => rw [hh] at hab; simp at hab
      | cons a l => simp
    simp [this]

/-- `OblInv.next'` with its former signature (H2 no longer used) -/
theorem OblInv.next {L : Layout} (h2 : H2 L) {y : Sys8} (hy : Reachable8 L y) (hi : OblInv y) (e : Event) :
    OblInv (y.next L e) :=
  have _ := h2
  OblInv.next' hy hi e

/-- the invariant of the pending obligations holds in every reachable state of EVERY layout (fix of D6) -/
theorem Reachable8.oblInv' {L : Layout} {y : Sys8} (hy : Reachable8 L y) : OblInv y := by
  obtain ⟨evs, rfl⟩ := hy
  suffices ∀ (z : Sys8), Reachable8 L z → OblInv z → OblInv (Sys8.run L z evs) from
    this Sys8.init ⟨[], rfl⟩ (by intro ob hob; simp [Sys8.init] at hob)
  induction evs with
  | nil => exact fun z _ h => h
  | cons e es ih =>
    intro z hz hi
    simp only [Sys8.run, List.foldl_cons]
    have hz' : Reachable8 L (z.next L e) := by
      obtain ⟨evs0, rfl⟩ := hz
      exact ⟨evs0 ++ [e], by simp [Sys8.run, List.foldl_append]⟩
    exact ih _ hz' (OblInv.next' hz hi e)

/-- `Reachable8.oblInv'` with its former signature (H2 no longer used) -/
theorem Reachable8.oblInv {L : Layout} (h2 : H2 L) {y : Sys8} (hy : Reachable8 L y) : OblInv y :=
  have _ := h2
  hy.oblInv'

/-- C08 clause (i), for EVERY layout (since the fix of D6), every history, every pending obligation (M, t):
an accepted press of a key other than t (and other than M) never fires a mapping that has M in its
trigger -/
theorem C08_i (L : Layout) (y : Sys8) (hy : Reachable8 L y) (ob : Obl) (hob : ob ∈ y.obls)
    (k : Key) (hk : k ∉ y.x.s.inp) (hkt : k ≠ ob.t) (hkM : k ≠ ob.M)
    (fm : Mapping) (hf : findMapping L y.x.s k = some fm) : ob.M ∉ fm.frm := by
  have hok := hy.oblInv' ob hob
  apply fired_not_requiring hf ob.M (fun e => hkM e.symm)
  rcases hok with ⟨ha, ht⟩ | hn
  · exact Or.inl ⟨ha, by rw [ht]; intro e; exact hkt (Option.some.inj e).symm⟩
  · exact Or.inr hn

/-- `C08_i` with the former name and signature (H2 no longer used) -/
theorem C08_partial_i (L : Layout) (h2 : H2 L) (y : Sys8) (hy : Reachable8 L y) (ob : Obl) (hob : ob ∈ y.obls)
    (k : Key) (hk : k ∉ y.x.s.inp) (hkt : k ≠ ob.t) (hkM : k ≠ ob.M)
    (fm : Mapping) (hf : findMapping L y.x.s k = some fm) : ob.M ∉ fm.frm :=
  have _ := h2
  C08_i L y hy ob hob k hk hkt hkM fm hf

/-- monitor form of clause (i) -/
theorem C08_i_monitor (L : Layout) (y : Sys8) (hy : Reachable8 L y) (ob : Obl) (hob : ob ∈ y.obls)
    (k : Key) (hk : k ∉ y.x.s.inp) (hkt : k ≠ ob.t) (hkM : k ≠ ob.M) :
    c08i (y.x.obs L (Event.pressed k)) ob = true := by
  unfold c08i
  rw [fired_eq hy.reachableEv.reachable.sinv k hk]
  cases hf : findMapping L y.x.s k with
  | none => rfl
  | some fm =>
    have := C08_i L y hy ob hob k hk hkt hkM fm hf
    simpa using this

theorem C08_partial_i_monitor (L : Layout) (h2 : H2 L) (y : Sys8) (hy : Reachable8 L y) (ob : Obl) (hob : ob ∈ y.obls)
    (k : Key) (hk : k ∉ y.x.s.inp) (hkt : k ≠ ob.t) (hkM : k ≠ ob.M) :
    c08i (y.x.obs L (Event.pressed k)) ob = true :=
  have _ := h2
  C08_i_monitor L y hy ob hob k hk hkt hkM

/-! ### clause (ii) (every layout since the fixes of D7 and D6; the variants with `H1` / `H2` arguments no longer use them) -/

theorem noMAtPresses_append (M : Key) (V : List Key) (outM : Bool) (a b : List Event) :
    noMAtPresses M V outM (a ++ b) = (noMAtPresses M V outM a && noMAtPresses M (foldEvs V a) outM b) := by
  induction a generalizing V with
  | nil => simp [noMAtPresses]
  | cons e es ih =>
    cases e with
    | pressed x => simp only [List.cons_append, noMAtPresses, ih, foldEvs_cons, Bool.and_assoc]
    | released x => simp only [List.cons_append, noMAtPresses, ih, foldEvs_cons]

theorem noMAtPresses_releases (M : Key) (V : List Key) (outM : Bool) (evs : List Event)
    (h : ∀ e, e ∈ evs → e.isRelease = true) : noMAtPresses M V outM evs = true := by
  induction evs generalizing V with
  | nil => rfl
  | cons e es ih =>
    cases e with
    | pressed x => have := h (Event.pressed x) (by simp); simp [Event.isRelease] at this
    | released x => simp only [noMAtPresses]; exact ih _ (fun e he => h e (by simp [he]))

theorem noMAtPresses_congr (M : Key) {V W : List Key} (h : ∀ k, k ∈ V ↔ k ∈ W) (outM : Bool) (evs : List Event) :
    noMAtPresses M V outM evs = noMAtPresses M W outM evs := by
  induction evs generalizing V W with
  | nil => rfl
  | cons e es ih =>
    cases e with
    | pressed x =>
      simp only [noMAtPresses, contains_congr h M]
      congr 1
      exact ih (fun k => mem_applyEv_congr h _ k)
    | released x =>
      simp only [noMAtPresses]
      exact ih (fun k => mem_applyEv_congr h _ k)

/-- only modifiers are pressed: clause (ii) is vacuous -/
theorem noMAtPresses_modifiers (M : Key) (V : List Key) (outM : Bool) (evs : List Event)
    (h : ∀ x, Event.pressed x ∈ evs → isActionKey x = false) : noMAtPresses M V outM evs = true := by
  induction evs generalizing V with
  | nil => rfl
  | cons e es ih =>
    cases e with
    | pressed x =>
      simp only [noMAtPresses, h x (by simp), Bool.not_false, Bool.true_or, Bool.true_and]
      exact ih _ (fun y hy => h y (by simp [hy]))
    | released x => simp only [noMAtPresses]; exact ih _ (fun y hy => h y (by simp [hy]))

/-- the press loop: if M is down (before or by the loop) only when a mapping in effect outputs it,
clause (ii) holds at every press of the loop -/
theorem pressAll_noM {extra : List Key} (M : Key) (outM : Bool) (s : State) (ks : List Key) (V : List Key)
    (h : IInv extra s) (hk : ∀ k, k ∈ ks → k ∈ extra) (hV : ∀ y, y ∈ V ↔ y ∈ held s)
    (hM : M ∈ held s → outM = true) (hks : M ∈ ks → outM = true) :
    noMAtPresses M V outM (pressAll s ks).2 = true := by
  induction ks generalizing s V with
  | nil => rfl
  | cons k ks ih =>
    rw [pressAll_cons, noMAtPresses_append]
    have p := pressOne_spec s k h (hk k (by simp))
    obtain ⟨p1, p2, p3, _, _, _, _, _, _⟩ := p
    have hMV : M ∈ V → outM = true := fun hm => hM ((hV M).mp hm)
    have h1 : noMAtPresses M V outM (pressOne s k).2 = true := by
      unfold pressOne
      split
      · split
        · simp only [noMAtPresses, Bool.and_true]
          by_cases hm : M ∈ V
          · simp [hMV hm]
          · simp [hm]
        · split
          · simp only [noMAtPresses, Bool.and_true]
            by_cases hm : M ∈ V
            · simp [hMV hm]
            · simp [hm]
          · simp only [noMAtPresses, Bool.and_true]
            by_cases hm : M ∈ V
            · simp [hMV hm]
            · simp [hm]
      · split
        · simp only [noMAtPresses, Bool.and_true]
          by_cases hm : M ∈ V
          · simp [hMV hm]
          · simp [hm]
        · rfl
    rw [h1, Bool.true_and]
    have hV1 : ∀ y, y ∈ foldEvs V (pressOne s k).2 ↔ y ∈ held (pressOne s k).1 :=
      (p2.congr_left (fun y => (hV y).symm)).2
    apply ih (pressOne s k).1 _ p1 (fun x hx => hk x (by simp [hx])) hV1
    · intro hm
      rcases (p3 M).mp hm with h2 | h2
      · exact hM h2
      · exact hks (by simp [h2])
    · intro hm; exact hks (by simp [hm])

/-- C08 clause (ii), for EVERY layout (since the fix of D6), every history, every pending obligation (M, t):
in a step about another key, whenever a non-modifier key is pressed on the virtual keyboard, M is not
down there — unless a mapping in effect after the step outputs M.
(Since the fix of D7 without H1: a fired mapping that outputs ANY non-modifier key runs the
"release action mappings / release absorbed keys" block, so an absorbed M has been released as input before
the press loop; a fired mapping that outputs modifiers only presses modifiers only.) -/
theorem C08_ii (L : Layout) (y : Sys8) (hy : Reachable8 L y) (ob : Obl) (hob : ob ∈ y.obls)
    (k : Key) (hk : k ∉ y.x.s.inp) (hkt : k ≠ ob.t) (hkM : k ≠ ob.M) :
    c08ii (y.x.obs L (Event.pressed k)) ob = true := by
  have hx := hy.reachableEv.reachable
  have hs := hx.sinv
  have hok := hy.oblInv' ob hob
  have h0 := pressPrep_iinv k hs.inv.i
  have hV0 : ∀ z, z ∈ y.x.V ↔ z ∈ held (pressPrep y.x.s k) := fun z => hs.vheld z
  unfold c08ii
  simp only [Sys.obs, step_pressed_accepted L y.x.s k hk]
  -- the obligation at the prepared state
  have hok0 : (ob.M ∈ (pressPrep y.x.s k).absorbed ∧ shouldAbsorb (pressPrep y.x.s k) k = true) ∨
      ob.M ∉ (pressPrep y.x.s k).inp := by
    rcases hok with ⟨ha, ht⟩ | hn
    · left
      refine ⟨by simp [pressPrep, ha, Ne.symm hkM], ?_⟩
      simp only [shouldAbsorb, pressPrep, ht, bne_iff_ne, ne_eq]
      exact fun e => hkt e.symm
    · exact Or.inr hn
  cases hf : findMapping L y.x.s k with
  | some fm =>
    have fin := newlyPress_fire_finish hf
    rw [fin.2.1]
    have hfmL := (findMapping_some hf).1
    have c := consume_spec (pressPrep y.x.s k) fm h0
    simp only [List.nil_append] at c
    obtain ⟨c1, c2, c3, _, _, _⟩ := c
    have d := addPhase2_spec (afterConsume (pressPrep y.x.s k) fm) k fm c1
    obtain ⟨d1, d2, _, _⟩ := d
    have hact' : (newlyPress L y.x.s k).1.active = (addPhase2 (afterConsume (pressPrep y.x.s k) fm) k fm).1.active ++ [fm] := by
      rw [fin.1]; exact (finishFire_fields _ k fm).2.1
    rw [hact']
    generalize houtM : ((addPhase2 (afterConsume (pressPrep y.x.s k) fm) k fm).1.active ++ [fm]).any
      (fun m => m.to.contains ob.M) = outM
    have hout_fm : ob.M ∈ fm.to → outM = true := by
      intro h; rw [← houtM]; simp only [List.any_eq_true]; exact ⟨fm, by simp, by simpa using h⟩
    have hout_act : ∀ m', m' ∈ (addPhase2 (afterConsume (pressPrep y.x.s k) fm) k fm).1.active → ob.M ∈ m'.to → outM = true := by
      intro m' hm' h; rw [← houtM]; simp only [List.any_eq_true]; exact ⟨m', by simp [hm'], by simpa using h⟩
    -- release-only prefix and suffix
    have e4 : ∀ e, e ∈ (addPhase4 (addPhase3 (addPhase2 (afterConsume (pressPrep y.x.s k) fm) k fm).1 k fm).1 k fm).2.1 →
        e.isRelease = true := by
      intro e he
      unfold addPhase4 at he
      cases hr : fm.rep <;> simp [hr, releaseAllActionKeys] at he
      all_goals (rcases he with ⟨a, _, rfl⟩ | ⟨a, _, rfl⟩ <;> rfl)
    rw [noMAtPresses_append, noMAtPresses_append, noMAtPresses_append,
      noMAtPresses_releases _ _ _ _ c3, noMAtPresses_releases _ _ _ _ d2.allRel, noMAtPresses_releases _ _ _ _ e4]
    simp only [Bool.true_and, Bool.and_true]
    have hev3 : (addPhase3 (addPhase2 (afterConsume (pressPrep y.x.s k) fm) k fm).1 k fm).2 =
        (pressAll (addPhase2 (afterConsume (pressPrep y.x.s k) fm) k fm).1 fm.to).2 := rfl
    rw [hev3]
    have em2 := (c2.trans d2.emits).congr_left (fun z => (hV0 z).symm)
    have hV2 : ∀ z, z ∈ foldEvs y.x.V ((consume fm (pressPrep y.x.s k).pass).2.2 ++
        (addPhase2 (afterConsume (pressPrep y.x.s k) fm) k fm).2) ↔
        z ∈ held (addPhase2 (afterConsume (pressPrep y.x.s k) fm) k fm).1 := em2.2
    cases hact : producesActionKey fm with
    | false =>
      -- the fired mapping outputs modifiers only: only modifiers are pressed
      apply noMAtPresses_modifiers
      intro x hx
      have hxto : x ∈ fm.to := (pressAll_spec _ fm.to d1 (fun _ h => h)).2.2.2.2.2.1 x hx
      exact (producesActionKey_false_iff fm).mp hact x hxto
    | true =>
      -- it outputs a non-modifier key (fix of D7: wherever that key stands in the output), so the block of
      -- phase 2 ran: if M was absorbed, release_absorbed_keys has removed it as input
      have hMinp : ob.M ∉ (addPhase2 (afterConsume (pressPrep y.x.s k) fm) k fm).1.inp := by
        rcases hok0 with ⟨ha, hsa⟩ | hn
        · rcases addPhase2_aux_fields (afterConsume (pressPrep y.x.s k) fm) k fm c1 with ⟨_, _, _, _, hinp⟩ | ⟨hnot, _⟩
          · intro hx; exact ((hinp ob.M).mp hx).2 ha
          · have hrun : absorbsNow (afterConsume (pressPrep y.x.s k) fm) k fm = true :=
              (absorbsNow_true_iff _ _ _).mpr ⟨hsa, Or.inl hact⟩
            rw [hrun] at hnot; cases hnot
        · exact fun hx => hn (d2.inpSub ob.M hx)
      apply pressAll_noM ob.M outM _ fm.to _ d1 (fun _ h => h) hV2
      · intro hm
        rcases (mem_held _ ob.M).mp hm with hp | hmp
        · exact absurd (d1.passInp ob.M hp) hMinp
        · rcases d1.mappedAct ob.M hmp with h3 | ⟨m', hm', h3⟩
          · exact hout_fm h3
          · exact hout_act m' hm' h3
      · exact hout_fm
  | none =>
    cases hcn : noHit y.x.s k with
    | false => rw [newlyPress_skip hf hcn]; rfl
    | true =>
      rw [newlyPress_pass hf hcn]
      cases hak : isActionKey k with
      | false =>
        rw [passThrough_nonaction _ k hak]
        simp [noMAtPresses, hak]
      | true =>
        rw [passThrough_action _ k hak]
        have r1 := releaseActionMappings_spec h0
        have q := releaseAbsorbedKeys_spec _ r1.1
        simp only
        rw [noMAtPresses_append, noMAtPresses_append, noMAtPresses_releases _ _ _ _ r1.2.allRel,
          noMAtPresses_releases _ _ _ _ q.2.1.allRel]
        simp only [Bool.true_and, noMAtPresses, Bool.and_true, hak, Bool.not_true, Bool.false_or,
          Bool.or_eq_true, Bool.not_eq_eq_eq_not, Bool.not_true]
        have em := (r1.2.emits.trans q.2.1.emits).congr_left (fun z => (hV0 z).symm)
        by_cases hm : ob.M ∈ foldEvs y.x.V ((releaseActionMappings (pressPrep y.x.s k)).2 ++
            (releaseAbsorbedKeys (releaseActionMappings (pressPrep y.x.s k)).1).2)
        · right
          have hmh := (em.2 ob.M).mp hm
          have f := releaseActionMappings_frame (pressPrep y.x.s k)
          have hMinp : ob.M ∉ (releaseAbsorbedKeys (releaseActionMappings (pressPrep y.x.s k)).1).1.inp := by
            intro hx
            have := (q.2.2.2.2.2.1 ob.M).mp hx
            rw [f.1, f.2.2.1] at this
            rcases hok0 with ⟨ha, _⟩ | hn
            · exact this.2 ha
            · exact hn this.1
          rcases (mem_held _ ob.M).mp hmh with hp | hmp
          · exact absurd (q.1.passInp ob.M hp) hMinp
          · rcases q.1.mappedAct ob.M hmp with h3 | ⟨m', hm', h3⟩
            · simp at h3
            · simp only [List.any_eq_true]; exact ⟨m', hm', by simpa using h3⟩
        · left; simpa using hm

/-- `C08_ii` with the former name and signature: the hypothesis H2 is no longer used (fix of D6) -/
theorem C08_partial_ii' (L : Layout) (h2 : H2 L) (y : Sys8) (hy : Reachable8 L y) (ob : Obl) (hob : ob ∈ y.obls)
    (k : Key) (hk : k ∉ y.x.s.inp) (hkt : k ≠ ob.t) (hkM : k ≠ ob.M) :
    c08ii (y.x.obs L (Event.pressed k)) ob = true :=
  have _ := h2
  C08_ii L y hy ob hob k hk hkt hkM

/-- `C08_partial_ii'` with its former signature: the hypothesis H1 is no longer used (fix of D7) -/
theorem C08_partial_ii (L : Layout) (h1 : H1 L) (h2 : H2 L) (y : Sys8) (hy : Reachable8 L y) (ob : Obl) (hob : ob ∈ y.obls)
    (k : Key) (hk : k ∉ y.x.s.inp) (hkt : k ≠ ob.t) (hkM : k ≠ ob.M) :
    c08ii (y.x.obs L (Event.pressed k)) ob = true :=
  have _ := h1
  C08_partial_ii' L h2 y hy ob hob k hk hkt hkM

/-! ### clause (iii) (the variants with an `H2` argument no longer use it) -/

/-- the mapping a press of `t` fires when nothing is treated as absorbed (the case of a re-press of the
absorbing trigger) -/
def suppNow (L : Layout) (s : State) (t : Key) : Option Mapping :=
  (group L t).reverse.find? (fun m' => isSupported m'.frm s.inp [] t)

theorem isSupported_congr (frm : List Key) (i i' a a' : List Key) (t : Key)
    (h : ∀ x, ((x ∈ i ∧ x ∉ a) ∨ x = t) ↔ ((x ∈ i' ∧ x ∉ a') ∨ x = t)) :
    isSupported frm i a t = isSupported frm i' a' t := by
  unfold isSupported
  apply List.all_congr rfl
  intro x
  have := h x
  rw [Bool.eq_iff_iff]
  simpa using this

theorem suppNow_congr (L : Layout) (s s' : State) (t : Key)
    (h : ∀ x, (x ∈ s.inp ∨ x = t) ↔ (x ∈ s'.inp ∨ x = t)) : suppNow L s t = suppNow L s' t := by
  unfold suppNow
  congr 1
  funext m'
  exact isSupported_congr _ _ _ _ _ _ (by intro x; simpa using h x)

theorem findMapping_of_absTrig (L : Layout) (s : State) (t : Key) (h : s.absTrig = some t) :
    findMapping L s t = suppNow L s t := by
  unfold findMapping suppNow
  have : shouldAbsorb (pressPrep s t) t = false := by simp [shouldAbsorb, pressPrep, h]
  simp only [this, Bool.false_eq_true, if_false]
  rfl

/-- the invariant of a fresh obligation: nothing but (possibly) the trigger has been released since the
mapping fired and no other key has been pressed; while the held set is still the one of the firing,
`absorbing_trigger` is still `t` and the re-press would select the same mapping -/
def FreshOk (L : Layout) (P : List Key) (s : State) (ob : Obl) : Prop :=
  ob.fresh = true →
    (∀ x, x ∈ P → x ∈ ob.held) ∧ ob.t ∈ ob.held ∧ ob.M ∈ ob.m.absorbing ∧
    ((∀ x, x ∈ ob.held → x ∈ P ∨ x = ob.t) → s.absTrig = some ob.t ∧ suppNow L s ob.t = some ob.m)

def FreshInv (L : Layout) (y : Sys8) : Prop := ∀ ob, ob ∈ y.obls → FreshOk L y.x.P y.x.s ob

theorem mem_nextObls_fresh {o : Obs} {obls : List Obl} {ob : Obl} (h : ob ∈ nextObls o obls) (hfr : ob.fresh = true) :
    (ob ∈ obls ∧ ob.M ≠ o.e.key ∧
      (∀ k, o.e = Event.pressed k → o.accepted = true →
        ob.t = k ∧ ∀ fm, o.fired = some fm → ob.M ∉ fm.absorbing)) ∨
    (∃ k fm, o.e = Event.pressed k ∧ o.accepted = true ∧ o.fired = some fm ∧ ob.M ∈ fm.absorbing ∧
      ob.t = k ∧ ob.m = fm ∧ ob.held = o.P') := by
  unfold nextObls at h
  cases he : o.e with
  | released k =>
    simp only [he] at h
    simp only [List.mem_filter, bne_iff_ne, ne_eq] at h
    exact Or.inl ⟨h.1, by simpa [he, Event.key] using h.2, by intro k' hk'; simp at hk'⟩
  | pressed k =>
    simp only [he] at h
    cases hacc : o.accepted with
    | false =>
      simp only [hacc, Bool.not_false, if_true, List.mem_filter, bne_iff_ne, ne_eq] at h
      exact Or.inl ⟨h.1, by simpa [he, Event.key] using h.2, by intro k' _ hc; simp at hc⟩
    | true =>
      simp only [hacc, Bool.not_true, Bool.false_eq_true, if_false] at h
      cases hf : o.fired with
      | none =>
        simp only [hf, List.mem_map, List.mem_filter, bne_iff_ne, ne_eq] at h
        obtain ⟨ob0, ⟨hm, hne⟩, heq⟩ := h
        left
        by_cases hc : (ob0.t == (Event.pressed k).key) = true
        · rw [if_pos hc] at heq
          subst heq
          have ht : ob0.t = k := by simpa [Event.key] using hc
          exact ⟨hm, by simpa [he, Event.key] using hne,
            by intro k' hk' _; simp only [Event.pressed.injEq] at hk'; subst hk'; exact ⟨ht, by intro fm hfm; simp at hfm⟩⟩
        · rw [if_neg hc] at heq
          subst heq; simp at hfr
      | some fm =>
        simp only [hf, List.mem_append, List.mem_filter, List.mem_map, bne_iff_ne, ne_eq] at h
        rcases h with ⟨⟨ob0, ⟨hm, hne⟩, heq⟩, hnab⟩ | ⟨M, hM, heq⟩
        · left
          by_cases hc : (ob0.t == (Event.pressed k).key) = true
          · rw [if_pos hc] at heq
            subst heq
            have ht : ob0.t = k := by simpa [Event.key] using hc
            refine ⟨hm, by simpa [he, Event.key] using hne, ?_⟩
            intro k' hk' _
            simp only [Event.pressed.injEq] at hk'; subst hk'
            refine ⟨ht, ?_⟩
            intro fm' hfm'
            simp only [Option.some.injEq] at hfm'; subst hfm'
            simpa using hnab
          · rw [if_neg hc] at heq
            subst heq; simp at hfr
        · right
          subst heq
          exact ⟨k, fm, rfl, rfl, rfl, hM, rfl, rfl, rfl⟩

/-- what a firing of an absorbing mapping leaves behind, in EVERY layout (since the fix of D6; it needed H2
before): `absorbing_trigger` is the pressed key and a re-press would select the same mapping -/
theorem fire_suppNow' {L : Layout} {P : List Key} {s : State} (hinv : Inv L P s) {k : Key} {fm : Mapping}
    (hf : findMapping L s k = some fm) (hab : fm.absorbing ≠ []) :
    (newlyPress L s k).1.absTrig = some k ∧ suppNow L (newlyPress L s k).1 k = some fm := by
  have h0 := pressPrep_iinv k hinv.i
  have fin := newlyPress_fire_finish hf
  rw [fin.1]
  have ff := finishFire_fields (addPhase2 (afterConsume (pressPrep s k) fm) k fm).1 k fm
  have c1 := (consume_spec (pressPrep s k) fm h0).1
  have p2 := addPhase2_aux_fields (afterConsume (pressPrep s k) fm) k fm c1
  have hlen : fm.absorbing.length > 0 := by
    cases hh : fm.absorbing with
    | nil => exact absurd hh hab
    | cons a l => simp
  refine ⟨by rw [ff.2.2.2]; simp [hlen], ?_⟩
  rw [← hf]
  unfold suppNow findMapping
  congr 1
  funext m'
  apply isSupported_congr
  intro x
  rw [ff.1]
  have hsa : shouldAbsorb (afterConsume (pressPrep s k) fm) k = shouldAbsorb (pressPrep s k) k := rfl
  rcases p2 with ⟨_, hsh, _, _, hinp2⟩ | ⟨hnot, _, _, hinp2⟩
  · rw [hsa] at hsh
    simp only [hsh, if_true, List.mem_append, List.mem_singleton, hinp2 x]
    have e1 : (afterConsume (pressPrep s k) fm).inp = (pressPrep s k).inp := rfl
    have e2 : (afterConsume (pressPrep s k) fm).absorbed = (pressPrep s k).absorbed := rfl
    rw [e1, e2]
    simp
  · have hsh : shouldAbsorb (pressPrep s k) k = false := by
      cases hh : shouldAbsorb (pressPrep s k) k with
      | false => rfl
      | true =>
        rw [← hsa] at hh
        have hrun : absorbsNow (afterConsume (pressPrep s k) fm) k fm = true :=
          (absorbsNow_true_iff _ _ _).mpr ⟨hh, Or.inr hab⟩
        rw [hrun] at hnot; cases hnot
    simp only [hsh, Bool.false_eq_true, if_false, List.mem_append, List.mem_singleton, hinp2]
    have e1 : (afterConsume (pressPrep s k) fm).inp = (pressPrep s k).inp := rfl
    rw [e1]
    simp

/-- `fire_suppNow'` with its former signature (H2 no longer used) -/
theorem fire_suppNow {L : Layout} (h2 : H2 L) {P : List Key} {s : State} (hinv : Inv L P s) {k : Key} {fm : Mapping}
    (hf : findMapping L s k = some fm) (hab : fm.absorbing ≠ []) :
    (newlyPress L s k).1.absTrig = some k ∧ suppNow L (newlyPress L s k).1 k = some fm :=
  have _ := h2
  fire_suppNow' hinv hf hab

theorem FreshInv.next' {L : Layout} {y : Sys8} (hy : Reachable8 L y) (hi : FreshInv L y) (e : Event) :
    FreshInv L (y.next L e) := by
  intro ob hob hfr
  have hx := hy.reachableEv.reachable
  have hs := hx.sinv
  simp only [Sys8.next] at hob ⊢
  rcases mem_nextObls_fresh hob hfr with ⟨hm0, hne, hpr⟩ | ⟨k, fm, he, hacc, hfired, hab, htk, hmfm, hheld⟩
  · -- an old fresh obligation that survives unchanged
    obtain ⟨hP, htH, hMab, hg⟩ := hi ob hm0 hfr
    cases e with
    | released r =>
      have hP' : ∀ x, x ∈ applyEv y.x.P (Event.released r) → x ∈ y.x.P := by
        intro x hx'; simp only [applyEv, List.mem_filter] at hx'; exact hx'.1
      refine ⟨fun x hx' => hP x (hP' x hx'), htH, hMab, ?_⟩
      intro hg'
      simp only [Sys.next] at hg' ⊢
      by_cases hrt : r = ob.t
      · subst hrt
        have hgd : ∀ x, x ∈ ob.held → x ∈ y.x.P ∨ x = ob.t := by
          intro x hx'; rcases hg' x hx' with h | h
          · exact Or.inl (hP' x h)
          · exact Or.inr h
        obtain ⟨hat, hsn⟩ := hg hgd
        by_cases hin : ob.t ∈ y.x.s.inp
        · rw [step_released_accepted L y.x.s ob.t hin]
          have r := releaseKey_spec ob.t hs.inv.i
          have hst : (newlyRelease y.x.s ob.t).1 = (releaseKey y.x.s ob.t).1 := rfl
          rw [hst]
          refine ⟨by rw [r.2.2.2.2.1]; exact hat, ?_⟩
          rw [← hsn]
          apply suppNow_congr
          intro x; rw [r.2.2.2.2.2.2 x]
          by_cases hxt : x = ob.t <;> simp [hxt]
        · rw [step_released_ignored L y.x.s ob.t hin]; exact ⟨hat, hsn⟩
      · -- another key is released: if it was held the held set has shrunk for good
        by_cases hrP : r ∈ y.x.P
        · exfalso
          rcases hg' r (hP r hrP) with h | h
          · simp [applyEv] at h
          · exact hrt h
        · have hin : r ∉ y.x.s.inp := fun h => hrP (hs.inv.inpP r h)
          rw [step_released_ignored L y.x.s r hin]
          apply hg
          intro x hx'; rcases hg' x hx' with h | h
          · exact Or.inl (hP' x h)
          · exact Or.inr h
    | pressed k =>
      by_cases hk : k ∈ y.x.s.inp
      · -- ignored press
        have hkP : k ∈ y.x.P := hs.inv.inpP k hk
        have hPe : applyEv y.x.P (Event.pressed k) = y.x.P := by simp [applyEv, hkP]
        simp only [Sys.next, hPe, step_pressed_ignored L y.x.s k hk]
        exact ⟨hP, htH, hMab, hg⟩
      · have hacc : (y.x.obs L (Event.pressed k)).accepted = true := by simp [Obs.accepted, Sys.obs, hk]
        obtain ⟨htk, hnab⟩ := hpr k rfl hacc
        have hP' : ∀ x, x ∈ applyEv y.x.P (Event.pressed k) → x ∈ y.x.P ∨ x = ob.t := by
          intro x hx'; simp only [applyEv] at hx'
          split at hx'
          · exact Or.inl hx'
          · simp only [List.mem_append, List.mem_singleton] at hx'
            rcases hx' with h | h
            · exact Or.inl h
            · exact Or.inr (by rw [h, htk])
        refine ⟨?_, htH, hMab, ?_⟩
        · intro x hx'; rcases hP' x hx' with h | h
          · exact hP x h
          · rw [h]; exact htH
        · intro hg'
          exfalso
          have hgd : ∀ x, x ∈ ob.held → x ∈ y.x.P ∨ x = ob.t := by
            intro x hx'; rcases hg' x hx' with h | h
            · exact hP' x h
            · exact Or.inr h
          obtain ⟨hat, hsn⟩ := hg hgd
          have hf : findMapping L y.x.s k = some ob.m := by
            rw [← htk, findMapping_of_absTrig L y.x.s ob.t hat]; exact hsn
          have hfired : (y.x.obs L (Event.pressed k)).fired = some ob.m := by rw [fired_eq hs k hk]; exact hf
          exact hnab ob.m hfired hMab
  · -- a new obligation
    have he' : e = Event.pressed k := by simpa [Sys.obs] using he
    subst he'
    have hk : k ∉ y.x.s.inp := by simpa [Obs.accepted, Sys.obs] using hacc
    have hf : findMapping L y.x.s k = some fm := by rw [← fired_eq hs k hk]; exact hfired
    have hne : fm.absorbing ≠ [] := by intro e; rw [e] at hab; simp at hab
    have fs := fire_suppNow' hs.inv hf hne
    have hP'eq : (y.x.obs L (Event.pressed k)).P' = applyEv y.x.P (Event.pressed k) := rfl
    simp only [Sys.next, step_pressed_accepted L y.x.s k hk]
    refine ⟨?_, ?_, by rw [hmfm]; exact hab, ?_⟩
    · intro x hx'; rw [hheld, hP'eq]; exact hx'
    · rw [hheld, hP'eq, htk]; simp only [applyEv]; split
      · rename_i hc; simpa using hc
      · simp
    · intro _; rw [htk, hmfm]; exact fs

/-- `FreshInv.next'` with its former signature (H2 no longer used) -/
theorem FreshInv.next {L : Layout} (h2 : H2 L) {y : Sys8} (hy : Reachable8 L y) (hi : FreshInv L y) (e : Event) :
    FreshInv L (y.next L e) :=
  have _ := h2
  FreshInv.next' hy hi e

/-- the invariant of the fresh obligations holds in every reachable state of EVERY layout (fix of D6) -/
theorem Reachable8.freshInv' {L : Layout} {y : Sys8} (hy : Reachable8 L y) : FreshInv L y := by
  obtain ⟨evs, rfl⟩ := hy
  suffices ∀ (z : Sys8), Reachable8 L z → FreshInv L z → FreshInv L (Sys8.run L z evs) from
    this Sys8.init ⟨[], rfl⟩ (by intro ob hob; simp [Sys8.init] at hob)
  induction evs with
  | nil => exact fun z _ h => h
  | cons e es ih =>
    intro z hz hi
    simp only [Sys8.run, List.foldl_cons]
    have hz' : Reachable8 L (z.next L e) := by
      obtain ⟨evs0, rfl⟩ := hz
      exact ⟨evs0 ++ [e], by simp [Sys8.run, List.foldl_append]⟩
    exact ih _ hz' (FreshInv.next' hz hi e)

/-- `Reachable8.freshInv'` with its former signature (H2 no longer used) -/
theorem Reachable8.freshInv {L : Layout} (h2 : H2 L) {y : Sys8} (hy : Reachable8 L y) : FreshInv L y :=
  have _ := h2
  hy.freshInv'

/-- C08 clause (iii), for EVERY layout (since the fix of D6), every history, every pending obligation
(M, t, m, held) that is still fresh (no other key pressed since m fired): an accepted re-press of t with
the same keys held fires the same mapping m again -/
theorem C08_iii (L : Layout) (y : Sys8) (hy : Reachable8 L y) (ob : Obl) (hob : ob ∈ y.obls)
    (hfr : ob.fresh = true) (hk : ob.t ∉ y.x.s.inp)
    (hsame : sameSet (y.x.obs L (Event.pressed ob.t)).P' ob.held = true) :
    c08iii (y.x.obs L (Event.pressed ob.t)) ob = true := by
  have hs := hy.reachableEv.reachable.sinv
  obtain ⟨_, _, _, hg⟩ := hy.freshInv' ob hob hfr
  have hgd : ∀ x, x ∈ ob.held → x ∈ y.x.P ∨ x = ob.t := by
    intro x hx
    simp only [sameSet, Bool.and_eq_true, List.all_eq_true, List.contains_eq_mem, decide_eq_true_eq] at hsame
    have := hsame.2 x hx
    have hP'eq : (y.x.obs L (Event.pressed ob.t)).P' = applyEv y.x.P (Event.pressed ob.t) := rfl
    rw [hP'eq] at this
    simp only [applyEv] at this
    split at this
    · exact Or.inl this
    · simp only [List.mem_append, List.mem_singleton] at this; exact this
  obtain ⟨hat, hsn⟩ := hg hgd
  unfold c08iii
  rw [fired_eq hs ob.t hk, findMapping_of_absTrig L y.x.s ob.t hat, hsn]
  simp

/-- `C08_iii` with the former name and signature (H2 no longer used) -/
theorem C08_partial_iii (L : Layout) (h2 : H2 L) (y : Sys8) (hy : Reachable8 L y) (ob : Obl) (hob : ob ∈ y.obls)
    (hfr : ob.fresh = true) (hk : ob.t ∉ y.x.s.inp)
    (hsame : sameSet (y.x.obs L (Event.pressed ob.t)).P' ob.held = true) :
    c08iii (y.x.obs L (Event.pressed ob.t)) ob = true :=
  have _ := h2
  C08_iii L y hy ob hob hfr hk hsame

/-! ### the full statement: every layout -/

/-- C08 for EVERY layout: the trace monitor accepts every step of every history
(since the fix of D7 the hypothesis H1 is gone, since the fix of D6 the hypothesis H2 as well) -/
theorem C08_full : C08_statement := by
  intro L y hy e
  unfold monC08
  cases e with
  | released k => rfl
  | pressed k =>
    have he : (y.x.obs L (Event.pressed k)).e = Event.pressed k := rfl
    simp only [he]
    cases hacc : (y.x.obs L (Event.pressed k)).accepted with
    | false => rfl
    | true =>
      have hk : k ∉ y.x.s.inp := by simpa [Obs.accepted, Sys.obs] using hacc
      simp only [Bool.not_true, Bool.false_eq_true, if_false, List.flatMap_eq_nil_iff, List.mem_filter,
        bne_iff_ne, ne_eq]
      intro ob ⟨hob, hMk⟩
      have hkM : k ≠ ob.M := fun e => hMk e.symm
      by_cases hkt : ob.t = k
      · rw [if_neg (fun hn => hn hkt)]
        cases hc : (ob.fresh && sameSet (y.x.obs L (Event.pressed k)).P' ob.held) with
        | false => rfl
        | true =>
          simp only [if_true]
          simp only [Bool.and_eq_true] at hc
          subst hkt
          rw [C08_iii L y hy ob hob hc.1 hk hc.2]
          rfl
      · have hkt' : k ≠ ob.t := fun e => hkt e.symm
        rw [if_pos hkt]
        simp only [C08_i_monitor L y hy ob hob k hk hkt' hkM,
          C08_ii L y hy ob hob k hk hkt' hkM, if_true, List.append_nil]

/-- `C08_full` restricted to layouts satisfying H2 (former name and signature; H2 is no longer used) -/
theorem C08_partial' (L : Layout) (h2 : H2 L) (y : Sys8) (hy : Reachable8 L y) (e : Event) :
    monC08 (y.x.obs L e) y.obls = [] :=
  have _ := h2
  C08_full L y hy e

/-- `C08_partial'` with its former signature: the hypothesis H1 is no longer used (fix of D7) -/
theorem C08_partial (L : Layout) (h1 : H1 L) (h2 : H2 L) (y : Sys8) (hy : Reachable8 L y) (e : Event) :
    monC08 (y.x.obs L e) y.obls = [] :=
  have _ := h1
  C08_partial' L h2 y hy e

/-! ### "M counts again once it has been released and pressed again" (every layout, no hypothesis) -/

/-- a key becomes absorbed only by a step that fires a mapping listing it in its absorbing list, and an
accepted press of a key un-absorbs that very key first -/
theorem C08_absorbed_only_by_firing {L : Layout} {P : List Key} {s : State} (h : Inv L P s) (e : Event) (x : Key)
    (hx : x ∈ (step L s e).1.absorbed) :
    (x ∈ s.absorbed ∧ ¬(e = Event.pressed x ∧ x ∉ s.inp)) ∨
    ∃ k fm, e = Event.pressed k ∧ k ∉ s.inp ∧ findMapping L s k = some fm ∧ x ∈ fm.absorbing := by
  cases e with
  | released k =>
    left
    by_cases hk : k ∈ s.inp
    · rw [step_released_accepted L s k hk] at hx
      have : (newlyRelease s k).1.absorbed = s.absorbed := (releaseKey_spec k h.i).2.2.2.1
      rw [this] at hx; exact ⟨hx, by simp⟩
    · rw [step_released_ignored L s k hk] at hx; exact ⟨hx, by simp⟩
  | pressed k =>
    by_cases hk : k ∈ s.inp
    · left; rw [step_pressed_ignored L s k hk] at hx; exact ⟨hx, by intro hc; exact hc.2 (by rw [← (Event.pressed.inj hc.1)]; exact hk)⟩
    · rw [step_pressed_accepted L s k hk] at hx
      have h0 := pressPrep_iinv k h.i
      have hp : ∀ y, y ∈ (pressPrep s k).absorbed → y ∈ s.absorbed ∧ y ≠ k := by
        intro y hy; simpa [pressPrep] using hy
      have hleft : x ∈ (pressPrep s k).absorbed → (x ∈ s.absorbed ∧ ¬(Event.pressed k = Event.pressed x ∧ x ∉ s.inp)) := by
        intro hy
        refine ⟨(hp x hy).1, ?_⟩
        intro hc
        exact (hp x hy).2 (Event.pressed.inj hc.1).symm
      cases hf : findMapping L s k with
      | some m =>
        rw [newlyPress_fire hf] at hx
        rcases addNewMapping_absorbed_sub _ k m h0 x hx with h1 | h1
        · exact Or.inl (hleft h1)
        · exact Or.inr ⟨k, m, rfl, hk, hf, h1⟩
      | none =>
        cases hc : noHit s k with
        | true =>
          rw [newlyPress_pass hf hc] at hx
          exact Or.inl (hleft (passThrough_absorbed_sub _ k h0 x hx))
        | false =>
          rw [newlyPress_skip hf hc] at hx
          exact Or.inl (hleft hx)

/-- C08, last sentence, first half: once M has been released (so that its next press is accepted) and is
pressed again, it is an input key again and it is NOT absorbed any more — unless this very press fires a
mapping that lists M in its own absorbing list.  Every layout, every state satisfying the invariant. -/
theorem C08_pressed_again {L : Layout} {P : List Key} {s : State} (h : Inv L P s) (M : Key) (hM : M ∉ s.inp) :
    M ∈ (step L s (Event.pressed M)).1.inp ∧
    (M ∈ (step L s (Event.pressed M)).1.absorbed → ∃ fm, findMapping L s M = some fm ∧ M ∈ fm.absorbing) := by
  constructor
  · have := (step_inv L P s (Event.pressed M) h).1
    rw [step_pressed_accepted L s M hM]
    cases hf : findMapping L s M with
    | some m => rw [newlyPress_fire hf]; simp
    | none =>
      cases hc : noHit s M with
      | true => rw [newlyPress_pass hf hc]; simp
      | false => rw [newlyPress_skip hf hc]; simp
  · intro hx
    rcases C08_absorbed_only_by_firing h (Event.pressed M) M hx with ⟨_, hno⟩ | ⟨k, fm, he, _, hf, hab⟩
    · exact absurd ⟨rfl, hM⟩ hno
    · have : M = k := Event.pressed.inj he
      subst this; exact ⟨fm, hf, hab⟩

/-- C08, last sentence, second half: a held key that is not absorbed COUNTS — for a press of any other key k
it passes the per-key test of `is_supported` (held and not treated as absorbed), so a mapping requiring M is
selected exactly as if M had never been absorbed (`findMapping` is the last-listed mapping all of whose trigger
keys pass that test).  It stays so until a mapping absorbing M fires (`C08_absorbed_only_by_firing`). -/
theorem C08_counts (s : State) (k M : Key) (hMi : M ∈ s.inp) (hMa : M ∉ s.absorbed) :
    ((pressPrep s k).inp.contains M &&
      !(if shouldAbsorb (pressPrep s k) k then (pressPrep s k).absorbed else []).contains M) = true := by
  have h1 : (pressPrep s k).inp = s.inp := rfl
  have h2 : M ∉ (pressPrep s k).absorbed := by simp [pressPrep, hMa]
  rw [h1]
  split <;> simp [hMi, h2]

/-- … and so, with M counted, a mapping whose other trigger keys are all held and unabsorbed is supported -/
theorem C08_counts_supported (s : State) (k : Key) (m : Mapping)
    (hall : ∀ x, x ∈ m.frm → x = k ∨ (x ∈ s.inp ∧ x ∉ s.absorbed)) :
    isSupported m.frm (pressPrep s k).inp
      (if shouldAbsorb (pressPrep s k) k then (pressPrep s k).absorbed else []) k = true := by
  unfold isSupported
  rw [List.all_eq_true]
  intro x hx
  rcases hall x hx with h | ⟨h1, h2⟩
  · simp [h]
  · rw [C08_counts s k x h1 h2]; simp

/-! Non-vacuity of the last sentence: after LEFTSHIFT↓ A↓ A↑ LEFTSHIFT↑ LEFTSHIFT↓ no obligation is pending,
LEFTSHIFT is an input key and not absorbed, and a press of B fires the LEFTSHIFT+B chord (whereas without the
release and re-press it does not: see the example at the end of this file). -/
example :
    let L : Layout := [⟨[42, 30], [42, 30], Repeat.normal, [42]⟩, ⟨[42, 48], [42, 48], Repeat.normal, [42]⟩]
    let y := Sys8.run L Sys8.init
      [Event.pressed 42, Event.pressed 30, Event.released 30, Event.released 42, Event.pressed 42]
    y.obls = [] ∧ 42 ∈ y.x.s.inp ∧ 42 ∉ y.x.s.absorbed ∧
    findMapping L y.x.s 48 = some ⟨[42, 48], [42, 48], Repeat.normal, [42]⟩ := by
  decide

/-! ### former findings D6 and D7 are fixed: regressions -/

def d6Layout : Layout :=
  [⟨[42, 29], [44, 45], Repeat.normal, []⟩, ⟨[42, 46], [29], Repeat.normal, [42]⟩, ⟨[30, 29], [], Repeat.normal, [30]⟩]

def d6History : List Event :=
  [Event.pressed 42, Event.pressed 30, Event.pressed 46, Event.released 46, Event.pressed 29, Event.released 29,
   Event.released 30]

/-- Regression for former finding D6 (FIXED in `add_new_mapping`: `release_absorbed_keys` runs
`if should_absorb && (produces_action_key(m) || m.absorbing.len() > 0)`).  The layout is outside H2
(`[A, LEFTCTRL] → []` absorbs A and is not key-producing).  Before the fix: LEFTSHIFT was absorbed by the `C` chord
(trigger C) and never released; the press of LEFTCTRL fired `[A, LEFTCTRL] → [] absorbing A`, which overwrote
`absorbing_trigger` with LEFTCTRL while LEFTSHIFT stayed in `mapped_absorbed_keys`; re-pressing LEFTCTRL — the press
below — then exempted LEFTSHIFT too and fired `[LEFTSHIFT, LEFTCTRL] → [Z, X]` (the monitor returned `["C08:D6"]`).
Now the firing of `[A, LEFTCTRL] → []` lets go of LEFTSHIFT first (it is no longer an input key, the only absorbed key
is A, absorbed under the current trigger LEFTCTRL): the same press fires nothing, LEFTCTRL is passed through, and the
monitor accepts. -/
theorem C08_d6_fixed :
    let y := Sys8.run d6Layout Sys8.init d6History
    layoutH2 d6Layout = false ∧
    (y.obls.map fun ob => (ob.M, ob.t)) = [(42, 46)] ∧
    monC08 (y.x.obs d6Layout (Event.pressed 29)) y.obls = [] ∧
    findMapping d6Layout y.x.s 29 = none ∧
    (step d6Layout y.x.s (Event.pressed 29)).2.events = [Event.pressed 29] ∧
    -- the state right after the first press of LEFTCTRL (which fires `[A, LEFTCTRL] → [] absorbing A`):
    (let z := Sys8.run d6Layout Sys8.init (d6History.take 5)
     z.x.s.absorbed = [30] ∧ z.x.s.absTrig = some 29 ∧ 42 ∉ z.x.s.inp) := by
  decide

/-! What the fix of D6 changes inside the firing step itself (only possible in layouts with an absorbing mapping
that is not key-producing): `[LEFTSHIFT, C] → [LEFTALT] absorbing LEFTSHIFT` is in effect (C still held) when
`[A, LEFTCTRL] → [] absorbing A` fires under the other trigger LEFTCTRL.  The absorbed LEFTSHIFT is let go now, which
ends the `C` chord that requires it: the step's events are `[A↑, LEFTALT↑]` (before the fix: `[A↑]`, LEFTALT stayed
down and LEFTSHIFT stayed in `mapped_absorbed_keys` under the overwritten trigger). -/
example :
    let L : Layout := [⟨[42, 46], [56], Repeat.normal, [42]⟩, ⟨[30, 29], [], Repeat.normal, [30]⟩]
    let r := run L State.init [Event.pressed 42, Event.pressed 30, Event.pressed 46, Event.pressed 29]
    r.2.map (·.events) =
      [[Event.pressed 42], [Event.pressed 30], [Event.released 42, Event.pressed 56],
       [Event.released 30, Event.released 56]] ∧
    r.1.absorbed = [30] ∧ r.1.absTrig = some 29 ∧ r.1.inp = [30, 46, 29] := by
  decide

def d7Layout : Layout :=
  [⟨[30, 46], [21, 30], Repeat.normal, [30]⟩, ⟨[42], [44, 29], Repeat.normal, []⟩]

def d7History : List Event := [Event.pressed 30, Event.pressed 46, Event.released 46]

/-- Regression for former finding D7 (FIXED in `add_new_mapping`: the block is entered on
`produces_action_key(m)`): `[LEFTSHIFT] → [Z, LEFTCTRL]` ends in a modifier (the layout is outside H1, inside
H2); before the fix it was treated as a modifier-remapping and skipped `release_absorbed_keys`, so Z went
down while the absorbed A was still down and the monitor returned `["C08:D7"]` on this very step.  Now the
monitor accepts the step, and the step's events release the absorbed A before Z goes down. -/
theorem C08_d7_fixed :
    let y := Sys8.run d7Layout Sys8.init d7History
    layoutH1 d7Layout = false ∧ layoutH2 d7Layout = true ∧
    (y.obls.map fun ob => (ob.M, ob.t)) = [(30, 46)] ∧
    y.x.V = [30] ∧
    monC08 (y.x.obs d7Layout (Event.pressed 42)) y.obls = [] ∧
    (step d7Layout y.x.s (Event.pressed 42)).2.events =
      [Event.released 30, Event.pressed 44, Event.pressed 29] := by
  decide

/-! Non-vacuity (written for the former partial theorem, equally an instance of `C08_full`): unit-test layout `absorbing_double_press_test_1`
(`[LEFTSHIFT,A]→[LEFTSHIFT,A]`, `[LEFTSHIFT,B]→[LEFTSHIFT,B]`, both absorbing LEFTSHIFT; H1 ∧ H2 hold):
after LEFTSHIFT↓ A↓ the obligation (LEFTSHIFT, A) is pending and pressing B does NOT fire the B chord:
B is passed through after LEFTSHIFT has been lifted. -/
example :
    let L : Layout := [⟨[42, 30], [42, 30], Repeat.normal, [42]⟩, ⟨[42, 48], [42, 48], Repeat.normal, [42]⟩]
    let y := Sys8.run L Sys8.init [Event.pressed 42, Event.pressed 30]
    (y.obls.map fun ob => (ob.M, ob.t)) = [(42, 30)] ∧
    findMapping L y.x.s 48 = none ∧
    (step L y.x.s (Event.pressed 48)).2.events = [Event.released 30, Event.released 42, Event.pressed 48] ∧
    monC08 (y.x.obs L (Event.pressed 48)) y.obls = [] := by
  decide

end TmVerif

namespace TmVerif

/-! Non-vacuity of `C08_partial` and its clauses (iii) and (ii), on the unit-test layout
`absorbing_double_press_test_1` extended by a plain mapping: the layout is inside H1 ∧ H2; after
LEFTSHIFT↓ A↓ A↑ a FRESH obligation (LEFTSHIFT, A) is pending, the re-press of A fires the same
mapping again (clause iii), and a press of C (no mapping) lifts LEFTSHIFT before C goes down
(clause ii). -/
example :
    let L : Layout := [⟨[42, 30], [42, 30], Repeat.normal, [42]⟩, ⟨[42, 48], [42, 48], Repeat.normal, [42]⟩, ⟨[46], [45], Repeat.normal, []⟩]
    let y := Sys8.run L Sys8.init [Event.pressed 42, Event.pressed 30, Event.released 30]
    layoutH1 L = true ∧ layoutH2 L = true ∧
    (y.obls.map fun ob => (ob.M, ob.t, ob.fresh)) = [(42, 30, true)] ∧
    findMapping L y.x.s 30 = some ⟨[42, 30], [42, 30], Repeat.normal, [42]⟩ ∧
    (step L y.x.s (Event.pressed 46)).2.events = [Event.released 42, Event.pressed 45] ∧
    monC08 (y.x.obs L (Event.pressed 30)) y.obls = [] ∧ monC08 (y.x.obs L (Event.pressed 46)) y.obls = [] := by
  decide

end TmVerif
