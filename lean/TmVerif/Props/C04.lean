/-
C04 — Output modifiers are exact when a mapped key goes down (no stale modifiers).

"At the instant a mapping's final output key is pressed on the virtual keyboard, every modifier
listed in that mapping's output is already down.  Any other modifier down at that instant is either
physically held and not part of the mapping's trigger, or is the output of a held
modifier-remapping (a mapping whose output ends in a modifier); in particular modifiers pressed by
an earlier key-producing mapping have been released first."

Quantifier: every layout without absorbing mappings, every history of key events, every step that
fires a key-producing mapping (output ends in a non-modifier key).  For a fired mapping whose
output ends in a modifier nothing is claimed (as the property's anchor says).
-/
import TmVerif.Proofs.Consumed

namespace TmVerif

theorem collectKeys_mono (mapped acc ks : List Key) (x : Key) (hx : x ∈ acc) : x ∈ collectKeys mapped acc ks := by
  induction ks generalizing acc with
  | nil => exact hx
  | cons k ks ih =>
    simp only [collectKeys]; split
    · exact ih _ (by simp [hx])
    · exact ih _ hx

theorem collectKeys_complete (mapped acc ks : List Key) (x : Key) (hx : x ∈ ks) (hm : x ∈ mapped) :
    x ∈ collectKeys mapped acc ks := by
  induction ks generalizing acc with
  | nil => simp at hx
  | cons k ks ih =>
    simp only [collectKeys]
    rcases List.mem_cons.mp hx with rfl | hx
    · by_cases hacc : x ∈ acc
      · split
        · exact collectKeys_mono _ _ _ _ (by simp [hacc])
        · exact collectKeys_mono _ _ _ _ hacc
      · have : (mapped.contains x && !acc.contains x) = true := by simp [hm, hacc]
        simp only [this, if_true]
        exact collectKeys_mono _ _ _ _ (by simp)
    · split
      · exact ih _ hx
      · exact ih _ hx

theorem keysToRelease_mono (mapped acc : List Key) (ms : List Mapping) (x : Key) (hx : x ∈ acc) :
    x ∈ keysToRelease mapped acc ms := by
  induction ms generalizing acc with
  | nil => exact hx
  | cons m ms ih =>
    simp only [keysToRelease]; split
    · exact ih _ (collectKeys_mono _ _ _ _ hx)
    · exact ih _ hx

/-- `release_action_mappings` collects every mapped output key of every active key-producing mapping
that has more than one output key and carries a modifier -/
theorem keysToRelease_complete (mapped acc : List Key) (ms : List Mapping) (m : Mapping) (x : Key)
    (hm : m ∈ ms) (ha : isActionMapping m = true) (hl : m.to.length > 1) (hmod : isAnyModifier m.to = true)
    (hx : x ∈ m.to) (hmp : x ∈ mapped) : x ∈ keysToRelease mapped acc ms := by
  induction ms generalizing acc with
  | nil => simp at hm
  | cons m' ms ih =>
    simp only [keysToRelease]
    rcases List.mem_cons.mp hm with rfl | hm
    · have : (isActionMapping m && decide (m.to.length > 1) && isAnyModifier m.to) = true := by simp [ha, hl, hmod]
      simp only [this, if_true]
      exact keysToRelease_mono _ _ _ _ (collectKeys_complete _ _ _ _ (by simp [hx]) hmp)
    · split
      · exact ih _ hm
      · exact ih _ hm

theorem pressAll_append (s : State) (a b : List Key) :
    pressAll s (a ++ b) =
      ((pressAll (pressAll s a).1 b).1, (pressAll s a).2 ++ (pressAll (pressAll s a).1 b).2) := by
  induction a generalizing s with
  | nil => simp [pressAll]
  | cons k ks ih => simp only [List.cons_append, pressAll_cons, ih, List.append_assoc]

/-- the modifiers held at the instant described by C04, as a predicate on the held-set `W` then -/
structure C04At (L : Layout) (x : Sys) (m : Mapping) (W : List Key) : Prop where
  own : ∀ y, y ∈ m.to → isActionKey y = false → y ∈ W
  other : ∀ y, y ∈ W → isActionKey y = false → y ∉ m.to →
    (y ∈ x.P ∧ y ∉ m.frm) ∨ ∃ m2, m2 ∈ x.s.active ∧ isActionMapping m2 = false ∧ y ∈ m2.to

/-- C04: in a layout without absorbing, when a step fires a key-producing mapping `m` with final
output key `kl`, the step's events split as `pre ++ [Pressed kl] ++ post` with no further press of
`kl` in `post`, and the keys held on the virtual keyboard right before that press (`V` folded with
`pre`) satisfy both clauses. -/
theorem C04 (L : Layout) (hL : NoAbs L) (x : Sys) (hx : ReachableEv L x) (k : Key) (hk : k ∉ x.s.inp)
    (m : Mapping) (hm : findMapping L x.s k = some m) (hact : isActionMapping m = true) :
    ∃ kl pre post, m.to.getLast? = some kl ∧
      (step L x.s (Event.pressed k)).2.events = pre ++ [Event.pressed kl] ++ post ∧
      Event.pressed kl ∉ post ∧
      C04At L x m (foldEvs x.V pre) := by
  have hs := hx.reachable.sinv
  have hn := hx.nainv hL
  have hc0 : Clean (pressPrep x.s k) := ⟨by simp [pressPrep, hn.clean.abs], hn.clean.trig⟩
  have h0 := pressPrep_iinv k hs.inv.i
  -- m.to = ini ++ [kl]
  obtain ⟨kl, hkl⟩ : ∃ kl, m.to.getLast? = some kl := by
    unfold isActionMapping at hact; cases h : m.to.getLast? with
    | none => simp [h] at hact
    | some kl => exact ⟨kl, rfl⟩
  have hkla : isActionKey kl = true := by simpa [isActionMapping, hkl] using hact
  obtain ⟨ini, hto⟩ : ∃ ini, m.to = ini ++ [kl] := by
    have hne : m.to ≠ [] := by intro h; simp [h] at hkl
    refine ⟨m.to.dropLast, ?_⟩
    have h1 := List.dropLast_concat_getLast hne
    have h2 : m.to.getLast hne = kl := by
      have := List.getLast?_eq_some_getLast hne
      rw [hkl] at this; exact (Option.some.inj this).symm
    rw [h2] at h1; exact h1.symm
  rw [step_pressed_accepted L x.s k hk, newlyPress_fire hm]
  simp only [addNewMapping_eq, addPhase1_eq]
  have f0 : (pressPrep x.s k).pass = x.s.pass ∧ (pressPrep x.s k).mapped = x.s.mapped ∧
      (pressPrep x.s k).active = x.s.active := ⟨rfl, rfl, rfl⟩
  generalize hs0 : pressPrep x.s k = s0 at *
  have hc1 : Clean (afterConsume s0 m) := ⟨hc0.abs, hc0.trig⟩
  rw [addPhase2_clean k m hc1 (afterConsume_clear s0 m)]
  -- (fix of D7) the block runs when `m` outputs any non-modifier key; the last key of `m` is one
  simp only [producesActionKey_of_isActionMapping m hact, if_true]
  -- the states along the way
  have c := consume_spec s0 m h0
  simp only [List.nil_append] at c
  obtain ⟨c1, c2, c3, c4, c5, c6⟩ := c
  have r := releaseActionMappings_spec c1
  have f1 : (afterConsume s0 m).active = s0.active := rfl
  generalize hs1 : afterConsume s0 m = s1 at *
  have f2 : ∀ y, y ∈ (releaseActionMappings s1).1.pass → y ∈ s1.pass := ram_pass_sub s1
  have f2m : ∀ y, y ∈ keysToRelease s1.mapped [] s1.active → y ∉ (releaseActionMappings s1).1.mapped := by
    intro y hy
    simp only [releaseActionMappings, List.mem_filter, not_and, Bool.not_eq_eq_eq_not,
      Bool.not_true, List.contains_eq_mem, decide_eq_false_iff_not, Classical.not_not]
    exact fun _ => hy
  generalize hs2 : (releaseActionMappings s1).1 = s2 at *
  have hev3 : (addPhase3 s2 k m).2 = (pressAll s2 m.to).2 := rfl
  rw [hev3, hto, pressAll_append]
  simp only [pressAll, List.append_nil]
  have pa := pressAll_spec s2 ini r.1 (by intro y hy; rw [hto]; simp [hy])
  generalize hs3 : (pressAll s2 ini).1 = s3 at *
  -- emits up to s3
  have em : Emits (held s0) ((consume m s0.pass).2.2 ++ (releaseActionMappings s1).2 ++ (pressAll s2 ini).2) (held s3) :=
    (c2.trans r.2.emits).trans pa.2.1
  have hV0 : ∀ y, y ∈ x.V ↔ y ∈ held s0 := by
    intro y; rw [hs.vheld y, mem_held, mem_held, f0.1, f0.2.1]
  have em' := em.congr_left (fun y => (hV0 y).symm)
  -- facts about the held set at s3
  have at3 : C04At L x m (held s3) := by
    constructor
    · intro y hy hay
      rw [hto] at hy
      simp only [List.mem_append, List.mem_singleton] at hy
      rcases hy with hy | hy
      · exact (pa.2.2.1 y).mpr (Or.inr hy)
      · subst hy; rw [hkla] at hay; simp at hay
    · intro y hy hay hyto
      have hyini : y ∉ ini := fun h => hyto (by rw [hto]; simp [h])
      have h2 : y ∈ held s2 := ((pa.2.2.1 y).mp hy).resolve_right hyini
      rcases (mem_held s2 y).mp h2 with hp | hmp
      · left
        have hp1 : y ∈ s1.pass := f2 y hp
        have := (c5 y).mp hp1
        exact ⟨hs.inv.inpP y (hs.inv.i.passInp y (f0.1 ▸ this.1)), this.2.1⟩
      · right
        have hm1 : y ∈ s1.mapped := r.2.mappedSub y hmp
        have hm0 : y ∈ x.s.mapped := by
          rcases (c6 y).mp hm1 with h | h
          · exact f0.2.1 ▸ h
          · exact absurd h.2 hyto
        rcases hs.inv.i.mappedAct y hm0 with h | ⟨m2, hm2, hy2⟩
        · simp at h
        · refine ⟨m2, hm2, ?_, hy2⟩
          cases ha2 : isActionMapping m2 with
          | false => rfl
          | true =>
            exfalso
            -- y would have been collected and released
            obtain ⟨kl2, hkl2⟩ : ∃ kl2, m2.to.getLast? = some kl2 := by
              unfold isActionMapping at ha2; cases h : m2.to.getLast? with
              | none => simp [h] at ha2
              | some kl2 => exact ⟨kl2, rfl⟩
            have hkl2a : isActionKey kl2 = true := by simpa [isActionMapping, hkl2] using ha2
            have hne2 : y ≠ kl2 := by intro e; rw [e, hkl2a] at hay; simp at hay
            have hlen : m2.to.length > 1 := by
              have h1 : kl2 ∈ m2.to := List.mem_of_getLast? hkl2
              match hmt : m2.to, hy2, h1 with
              | [a], hy2, h1 => simp at hy2 h1; exact absurd (hy2.trans h1.symm) hne2
              | a :: b :: rest, _, _ => simp
            have hmod : isAnyModifier m2.to = true := by
              simp only [isAnyModifier, List.any_eq_true]
              exact ⟨y, hy2, by simp [hay]⟩
            have hm2' : m2 ∈ s1.active := by rw [f1, f0.2.2]; exact hm2
            have hin : y ∈ keysToRelease s1.mapped [] s1.active :=
              keysToRelease_complete _ _ _ m2 y hm2' ha2 hlen hmod hy2 hm1
            exact f2m y hin hmp
  -- now split on how the final key is pressed
  have hpo : (pressOne s3 kl).2 = [Event.pressed kl] ∨ (pressOne s3 kl).2 = [Event.released kl, Event.pressed kl] := by
    unfold pressOne; simp only [hkla, if_true]
    split
    · exact Or.inr rfl
    · split
      · exact Or.inr rfl
      · exact Or.inl rfl
  have hpost : ∀ e, e ∈ (addPhase4 (addPhase3 s2 k m).1 k m).2.1 → e.isRelease = true := by
    intro e he
    have : ∀ (s : State) (e : Event), e ∈ (addPhase4 s k m).2.1 → e.isRelease = true := by
      intro s e he
      unfold addPhase4 at he
      cases hr : m.rep <;> simp [hr, releaseAllActionKeys] at he
      all_goals (rcases he with ⟨a, _, rfl⟩ | ⟨a, _, rfl⟩ <;> rfl)
    exact this _ e he
  have hnot : Event.pressed kl ∉ (addPhase4 (addPhase3 s2 k m).1 k m).2.1 := by
    intro h; have := hpost _ h; simp [Event.isRelease] at this
  rcases hpo with hpo | hpo
  · refine ⟨kl, (consume m s0.pass).2.2 ++ (releaseActionMappings s1).2 ++ (pressAll s2 ini).2,
      (addPhase4 (addPhase3 s2 k m).1 k m).2.1, by simp, ?_, hnot, ?_⟩
    · rw [hpo]; simp [List.append_assoc]
    · exact ⟨fun y hy hay => (em'.2 y).mpr (at3.own y hy hay),
             fun y hy hay hyto => at3.other y ((em'.2 y).mp hy) hay hyto⟩
  · refine ⟨kl, (consume m s0.pass).2.2 ++ (releaseActionMappings s1).2 ++ (pressAll s2 ini).2 ++ [Event.released kl],
      (addPhase4 (addPhase3 s2 k m).1 k m).2.1, by simp, ?_, hnot, ?_⟩
    · rw [hpo]; simp [List.append_assoc]
    · have hiff : ∀ y, y ∈ foldEvs x.V ((consume m s0.pass).2.2 ++ (releaseActionMappings s1).2 ++ (pressAll s2 ini).2 ++
          [Event.released kl]) ↔ y ∈ held s3 ∧ y ≠ kl := by
        intro y
        rw [foldEvs_append]
        simp only [foldEvs_cons, foldEvs_nil, mem_applyEv_released]
        rw [em'.2 y]
      constructor
      · intro y hy hay
        refine (hiff y).mpr ⟨at3.own y hy hay, ?_⟩
        intro e; rw [e, hkla] at hay; simp at hay
      · intro y hy hay hyto
        exact at3.other y ((hiff y).mp hy).1 hay hyto

/-! Non-vacuity: unit test `test_multi_key_overlap`: `A → [LEFTSHIFT, B]`, `C → D`; with A held,
pressing C releases B and LEFTSHIFT before D goes down (no stale Shift on D). -/
example :
    let L : Layout := [⟨[30], [42, 48], Repeat.normal, []⟩, ⟨[46], [32], Repeat.normal, []⟩]
    let x := Sys.run L Sys.init [Op.ev (Event.pressed 30)]
    x.V = [42, 48] ∧
    (step L x.s (Event.pressed 46)).2.events = [Event.released 48, Event.released 42, Event.pressed 32] := by
  decide

end TmVerif
