/-
C04, monitor form: the Bool monitor `monC04` returns `true` on every transition of the model from every
state reachable by key events.
-/
import TmVerif.Props.C04
import TmVerif.Props.C03

namespace TmVerif

theorem beforeLast_none (ev : Event) (l : List Event) (h : ev ∉ l) : beforeLast ev l = none := by
  induction l with
  | nil => rfl
  | cons e es ih =>
    have h1 : ev ∉ es := fun hh => h (by simp [hh])
    have h2 : e ≠ ev := fun hh => h (by simp [hh])
    simp [beforeLast, ih h1, h2]

/-- `beforeLast` finds the split at the last occurrence -/
theorem beforeLast_split (ev : Event) (pre post : List Event) (h : ev ∉ post) :
    beforeLast ev (pre ++ [ev] ++ post) = some pre := by
  induction pre with
  | nil => simp [beforeLast, beforeLast_none ev post h]
  | cons e es ih =>
    have : (e :: es) ++ [ev] ++ post = e :: (es ++ [ev] ++ post) := by simp
    rw [this]
    simp only [beforeLast, ih]

/-- monitor form of C04 -/
theorem C04_monitor (L : Layout) (x : Sys) (hx : ReachableEv L x) (e : Event) :
    monC04 (x.obs L e) = true := by
  unfold monC04
  cases hL : noAbsLayout (x.obs L e).L with
  | false => simp
  | true =>
    have hL' : NoAbs L := (noAbsLayout_iff L).mp hL
    simp only [Bool.not_true, Bool.false_eq_true, if_false]
    have hs := hx.reachable.sinv
    cases e with
    | released k => rw [fired_released]
    | pressed k =>
      by_cases hk : k ∈ x.s.inp
      · rw [fired_ignored L x k hk]
      · rw [fired_eq hs k hk]
        cases hf : findMapping L x.s k with
        | none => rfl
        | some m =>
          simp only
          cases hact : isActionMapping m with
          | false => simp
          | true =>
            obtain ⟨kl, pre, post, hkl, hev, hnp, hat⟩ := C04 L hL' x hx k hk m hf hact
            have hevs : (x.obs L (Event.pressed k)).evs = pre ++ [Event.pressed kl] ++ post := hev
            have hV : (x.obs L (Event.pressed k)).V = x.V := rfl
            have hP' : (x.obs L (Event.pressed k)).P' = applyEv x.P (Event.pressed k) := rfl
            have hact' : (x.obs L (Event.pressed k)).s.active = x.s.active := rfl
            simp only [Bool.not_true, Bool.false_eq_true, if_false, hkl, hevs,
              beforeLast_split _ pre post hnp, hV, hP', hact']
            simp only [Bool.and_eq_true, List.all_eq_true, Bool.or_eq_true]
            refine ⟨?_, ?_⟩
            · intro y hy
              cases hay : isActionKey y with
              | true => left; rfl
              | false => right; simpa using hat.own y hy hay
            · intro y hy
              cases hay : isActionKey y with
              | true => left; left; left; rfl
              | false =>
                by_cases hyto : y ∈ m.to
                · left; left; right; simpa using hyto
                · rcases hat.other y hy hay hyto with ⟨h1, h2⟩ | ⟨m2, hm2, ha2, hy2⟩
                  · left; right
                    simp only [List.contains_eq_mem, decide_eq_true_eq,
                      Bool.not_eq_eq_eq_not, Bool.not_true, decide_eq_false_iff_not]
                    exact ⟨(mem_applyEv_pressed x.P k y).mpr (Or.inl h1), h2⟩
                  · right
                    simp only [List.any_eq_true, Bool.and_eq_true, Bool.not_eq_eq_eq_not, Bool.not_true,
                      List.contains_eq_mem, decide_eq_true_eq]
                    exact ⟨m2, hm2, ha2, hy2⟩

end TmVerif
