/-
C15 — The layout saved for the systemd service reloads as the same layout.

"Writing any converted layout in the JSON form that add_systemd_service saves to
/etc/totalmapper.json (serde_json::to_writer_pretty of keys::Layout) and loading that file the way
the service does (load_layout_from_file = serde_json::from_reader → parse_layout_from_json →
convert) yields exactly the same list of mappings, in the same order, with the same triggers,
outputs, repeat settings and absorbing lists.  Every key name the tool can write is read back as the
same key, for all key codes (484)."

Model: `serialize` (`Model/Load.lean`) = `serde_json::to_value(&keys::Layout)` by the serde derives
of `src/keys.rs` / `src/key_codes.rs`; `load` = parse + convert on a `serde_json::Value`.
Outside the model (checked by suite `load`, part d, on every accepted layout): that
`to_writer_pretty` followed by `from_reader` reproduces the `Value` (serde_json's own text round
trip), and that `serialize` is what `serde_json::to_value` produces.

`Saveable` (`Proofs/LoadSave.lean`) states exactly what the round trip needs of a basic layout;
`load_saveable` shows that every layout the loader can produce has it, so the theorem covers every
layout `add_systemd_service` can be handed (`C15_loaded`).
-/
import TmVerif.Proofs.LoadSaveable2

namespace TmVerif
open TmVerif.Tables

/-- adjacent elements strictly ascending (a linear check; `List.Pairwise` is quadratic) -/
def ascending : List Nat → Bool
  | a :: b :: rest => decide (a < b) && ascending (b :: rest)
  | _ => true

theorem pairwise_of_ascending : ∀ {l : List Nat}, ascending l = true → l.Pairwise (· < ·)
  | [], _ => List.Pairwise.nil
  | [a], _ => by simp
  | a :: b :: rest, h => by
    simp only [ascending, Bool.and_eq_true, decide_eq_true_eq] at h
    have ih := pairwise_of_ascending h.2
    rw [List.pairwise_cons] at ih ⊢
    refine ⟨?_, List.pairwise_cons.2 ih⟩
    intro c hc
    rcases List.mem_cons.1 hc with rfl | hc
    · exact h.1
    · exact Nat.lt_trans h.1 (ih.1 c hc)

/-- the key table is sorted by discriminant -/
theorem keyTable_ascending : ascending (keyTable.map (·.1)) = true := by decide +kernel

/-- C15, key names: for EVERY row `(discriminant, variant name, serde name)` of the key table
regenerated from the real enum (484 rows): `parse_key_code` reads the serde name back as that key,
the name does not start with `@` (it cannot be taken for an alias), and the key is written under
that name.  Checked by `decide +kernel` on the table (`Proofs/LoadKeys.lean`). -/
theorem C15_keys :
    (∀ r ∈ keyTable, parseKeyCodeN r.2.2 = some r.1 ∧ r.2.2.head? ≠ some 64 ∧ serdeNameN r.1 = some r.2.2) ∧
    (keyTable.map (·.2.2)).Nodup := by
  have hrow : ∀ r ∈ keyTable, parseKeyCodeN r.2.2 = some r.1 ∧ r.2.2.head? ≠ some 64 ∧ serdeNameN r.1 = some r.2.2 := by
    intro r hr
    have := keyTable_rowOk hr
    simp only [rowOk, Bool.and_eq_true, beq_iff_eq, bne_iff_ne, ne_eq] at this
    exact ⟨this.1.1.1.1.1, this.1.1.1.2, this.1.1.1.1.2⟩
  refine ⟨hrow, ?_⟩
  -- serde names are pairwise distinct: two rows with the same serde name have the same
  -- discriminant (both are what `parse_key_code` returns), hence the same serde name row
  have hinj : ∀ r ∈ keyTable, ∀ r' ∈ keyTable, r.2.2 = r'.2.2 → r.1 = r'.1 := by
    intro r hr r' hr' h
    have h1 := (hrow r hr).1
    have h2 := (hrow r' hr').1
    rw [h] at h1
    exact Option.some.inj (h1.symm.trans h2)
  have hdisc : (keyTable.map (·.1)).Pairwise (· < ·) := pairwise_of_ascending keyTable_ascending
  generalize keyTable = T at hinj hdisc
  induction T with
  | nil => simp
  | cons r T ih =>
    simp only [List.map_cons, List.pairwise_cons, List.nodup_cons, List.mem_map] at hdisc ⊢
    refine ⟨?_, ih (fun a ha b hb => hinj a (List.mem_cons_of_mem _ ha) b (List.mem_cons_of_mem _ hb)) hdisc.2⟩
    rintro ⟨r', hr', heq⟩
    have := hinj r (List.mem_cons_self ..) r' (List.mem_cons_of_mem _ hr') heq.symm
    have hlt := hdisc.1 r'.1 ⟨r', hr', rfl⟩
    omega

/-- C15, key names, in terms of the functions the loader and the writer use: a key that can be
written (it has a serde name) is read back as the same key -/
theorem C15_key_roundtrip {k : Key} {name : List Char} (h : serdeName k = some name) :
    parseKeyCode name = some k ∧ Parse.startsWithAt name = false := by
  have hk : isKnownKey k = true := by
    simp only [serdeName, Option.map_eq_some_iff] at h
    obtain ⟨s, hs, _⟩ := h
    simp [isKnownKey, hs]
  have := known_roundtrip hk
  rw [serdeName_of_known hk] at h
  simp at h; subst h; exact this

/-- C15: a saveable layout is written as some JSON value, and loading that value gives exactly the
same layout (same mappings, same order, same triggers, outputs, repeats, absorbing lists).
Hypothesis `Saveable L` (see `Mapping.saveable`): well-formed triggers/outputs, all keys among the
484 key codes, absorbed keys among the trigger's modifiers, `i32` delays — each is needed:
see the examples below. -/
theorem C15 {L : Layout} (h : Saveable L = true) :
    ∃ j, serialize L = some j ∧ load j = Outcome.ok L := by
  obtain ⟨j, hj, hp⟩ := serialize_parse h
  refine ⟨j, hj, ?_⟩
  have hwf : Layout.wf L = true := by
    simp only [Saveable, List.all_eq_true] at h
    simp only [Layout.wf, List.all_eq_true]
    intro m hm
    have := h m hm
    simp only [Mapping.saveable, Bool.and_eq_true] at this
    exact this.1.1.1.1.1
  simp [load, hp, Convert.convert_toFancy hwf]

/-- `Saveable` is not a restriction in practice: every layout the loader produces has it
(`load_saveable`, `Proofs/LoadSaveable2.lean`).  So: whatever layout file the user gave to
`add_systemd_service`, the converted layout is written as a file that loads as exactly the same
layout. -/
theorem C15_loaded {j : Json} {L : Layout} (h : load j = Outcome.ok L) :
    ∃ j', serialize L = some j' ∧ load j' = Outcome.ok L := C15 (load_saveable h)

/-! ## the hypotheses are met by a concrete instance, and each is needed -/

/-- the easy-symbols fragment of `Props/C14.lean` loads (to 19 mappings), so its saved form reloads -/
example : ∃ L j', load easySymbolsFragment = Outcome.ok L ∧ L.length = 19 ∧
    serialize L = some j' ∧ load j' = Outcome.ok L := by
  cases h : load easySymbolsFragment with
  | ok L =>
    obtain ⟨j', h1, h2⟩ := C15_loaded h
    have hlen : (match load easySymbolsFragment with | Outcome.ok L => L.length | _ => 0) = 19 := by decide +kernel
    rw [h] at hlen
    exact ⟨L, j', rfl, hlen, h1, h2⟩
  | error => exact absurd h (by decide +kernel)
  | panic => exact absurd h (C14_load _)


/-- the first four mappings of the converted easy-symbols fragment of `Props/C14.lean`, one with a
special repeat and an absorbing list added -/
def c15Example : Layout := [
  ⟨[58], [], Repeat.normal, []⟩,
  ⟨[58, 17], [42, 26], Repeat.normal, []⟩,
  ⟨[42, 58, 18], [42, 27], Repeat.special [29, 194] 180 (-30), [42, 58]⟩,
  ⟨[100, 19], [42, 6], Repeat.disabled, []⟩]

example : Saveable c15Example = true := by decide +kernel
example : ∃ j, serialize c15Example = some j ∧ load j = Outcome.ok c15Example := C15 (by decide +kernel)

/-- a key number that is no key code cannot be written -/
example : serialize [⟨[0], [], Repeat.normal, []⟩] = none := by decide +kernel
/-- an absorbed key that is the trigger's FINAL key is rejected on reload -/
example : (serialize [⟨[42, 30], [], Repeat.normal, [30]⟩]).map load = some Outcome.error := by decide +kernel
/-- an empty trigger is rejected on reload -/
example : (serialize [⟨[], [30], Repeat.normal, []⟩]).map load = some Outcome.error := by decide +kernel
/-- a delay outside `i32` (impossible in Rust) would come back wrapped -/
example : (serialize [⟨[30], [], Repeat.special [] 4294967301 0, []⟩]).map load =
    some (Outcome.ok [⟨[30], [], Repeat.special [] 5 0, []⟩]) := by decide +kernel

end TmVerif
