/-
C03 — Pressing a chord fires exactly the last-listed satisfied mapping.

"In a layout without absorbing mappings, when a key goes down the mapping that takes effect is the
last-listed mapping whose final trigger key is that key and whose other trigger keys are all held;
by the end of that step every one of its output keys has been pressed (a non-modifier output key by
an actual press event in that step); with normal repeat they are all held at the end of that step.
If no mapping qualifies, the key itself is passed through unchanged as the last event of the step,
unless a mapping currently in effect mentions it, in which case nothing is emitted."

Quantifier: every layout without absorbing lists, every history of key events, i.e. from every
reachable state (not only from rest).  The fired mapping is observed directly (it becomes the last
entry of the mapper's active list), which is stronger than the "distinguishable outputs" device.
-/
import TmVerif.Proofs.NoAbs

namespace TmVerif

theorem reverse_find?_eq_filter_getLast? {α : Type} (p : α → Bool) (l : List α) :
    l.reverse.find? p = (l.filter p).getLast? := by
  induction l with
  | nil => rfl
  | cons a l ih =>
    simp only [List.reverse_cons, List.find?_append, List.filter_cons, ih]
    cases hp : p a
    · simp [hp]
    · simp only [if_true, List.find?_cons, hp, List.find?_nil]
      cases hl : (l.filter p).getLast? with
      | none =>
        have : l.filter p = [] := List.getLast?_eq_none_iff.mp hl
        simp [this]
      | some b =>
        have hne : l.filter p ≠ [] := by intro h; simp [h] at hl
        rw [List.getLast?_cons_of_ne_nil hne]
        simp [hl]

/-- in a clean state whose input list is the physically held set, the mapping `newly_press` picks is
the last candidate -/
theorem findMapping_eq_candidates {L : Layout} {x : Sys} (hn : NAInv x.P x.s) (hs : SInv L x)
    (k : Key) (hk : k ∉ x.P) :
    findMapping L x.s k = (candidates L (applyEv x.P (Event.pressed k)) k).getLast? := by
  unfold findMapping candidates
  rw [reverse_find?_eq_filter_getLast?]
  have habs : (pressPrep x.s k).absorbed = [] := by simp [pressPrep, hn.clean.abs]
  simp only [habs, ite_self, group, List.filter_filter]
  congr 1
  apply List.filter_congr
  intro m _
  rw [Bool.and_comm]
  congr 1
  simp only [isSupported, pressPrep]
  apply List.all_congr rfl
  intro t
  have : (applyEv x.P (Event.pressed k)).contains t = (x.P.contains t || t == k) := by
    have h1 : ∀ t, t ∈ applyEv x.P (Event.pressed k) ↔ t ∈ x.P ∨ t = k := fun t => mem_applyEv_pressed x.P k t
    by_cases ht : t ∈ x.P <;> by_cases htk : t = k <;> simp [List.contains_eq_mem, h1, ht, htk]
  rw [this]
  have hinp : x.s.inp.contains t = x.P.contains t := by
    by_cases ht : t ∈ x.P
    · simp [ht, hn.pInp t ht]
    · have : t ∉ x.s.inp := fun h => ht (hs.inv.inpP t h)
      simp [ht, this]
  simp only [List.contains_eq_mem] at hinp
  simp [hinp]

/-- a qualifying mapping exists: the LAST one fires, and its output keys are pressed / held -/
theorem C03_fire (L : Layout) (hL : NoAbs L) (x : Sys) (hx : ReachableEv L x) (k : Key) (hk : k ∉ x.P)
    (m : Mapping) (hm : (candidates L (applyEv x.P (Event.pressed k)) k).getLast? = some m) :
    findMapping L x.s k = some m ∧
    (x.next L (Op.ev (Event.pressed k))).s.active.getLast? = some m ∧
    (∀ y, y ∈ m.to → isActionKey y = true → Event.pressed y ∈ (step L x.s (Event.pressed k)).2.events) ∧
    (∀ y, y ∈ m.to → isActionKey y = false → y ∈ (x.next L (Op.ev (Event.pressed k))).V) ∧
    (m.rep.isNormal = true → ∀ y, y ∈ m.to → y ∈ (x.next L (Op.ev (Event.pressed k))).V) := by
  have hs := hx.reachable.sinv
  have hn := hx.nainv hL
  have hki : k ∉ x.s.inp := fun h => hk (hs.inv.inpP k h)
  have hf : findMapping L x.s k = some m := by rw [findMapping_eq_candidates hn hs k hk]; exact hm
  have np := (newlyPress_spec L x.P x.s k hs.inv hki).2.2.2.1 m hf
  obtain ⟨_, _, ⟨act, hact, _⟩, _, n2, n3, n4, _, _⟩ := np
  have hnext := (hx.reachable.next (Op.ev (Event.pressed k))).sinv
  simp only [Sys.next, step_pressed_accepted L x.s k hki] at hnext ⊢
  refine ⟨hf, by simp [hact], n2, ?_, ?_⟩
  · intro y hy hay; exact (hnext.vheld y).mpr (n3 y hy hay)
  · intro hr y hy; exact (hnext.vheld y).mpr (n4 hr y hy)

/-- no mapping qualifies: pass-through as the last event, or nothing if a mapping in effect mentions the key -/
theorem C03_pass (L : Layout) (hL : NoAbs L) (x : Sys) (hx : ReachableEv L x) (k : Key) (hk : k ∉ x.P)
    (hnone : candidates L (applyEv x.P (Event.pressed k)) k = []) :
    findMapping L x.s k = none ∧
    ((∃ m, m ∈ x.s.active ∧ (k ∈ m.frm ∨ k ∈ m.to)) → (step L x.s (Event.pressed k)).2.events = []) ∧
    ((∀ m, m ∈ x.s.active → k ∉ m.frm ∧ k ∉ m.to) →
      (step L x.s (Event.pressed k)).2.events.getLast? = some (Event.pressed k)) := by
  have hs := hx.reachable.sinv
  have hn := hx.nainv hL
  have hki : k ∉ x.s.inp := fun h => hk (hs.inv.inpP k h)
  have hf : findMapping L x.s k = none := by rw [findMapping_eq_candidates hn hs k hk, hnone]; rfl
  have hkp : k ∉ x.s.pass := fun h => hki (hs.inv.i.passInp k h)
  rw [step_pressed_accepted L x.s k hki]
  refine ⟨hf, ?_, ?_⟩
  · rintro ⟨m, hm, hmk⟩
    have hc : noHit x.s k = false := by
      cases h : noHit x.s k with
      | false => rfl
      | true =>
        have := ((noHit_iff x.s k).mp h).1 m hm
        rcases hmk with h1 | h1
        · exact absurd h1 this.1
        · exact absurd h1 this.2
    rw [newlyPress_skip hf hc]
  · intro hno
    have hc : noHit x.s k = true := (noHit_iff x.s k).mpr ⟨hno, hkp⟩
    rw [newlyPress_pass hf hc]
    exact (passThrough_spec (pressPrep x.s k) k (pressPrep_iinv k hs.inv.i) hkp hno).2.2.2.2.2.2.1

theorem noAbsLayout_iff (L : Layout) : noAbsLayout L = true ↔ NoAbs L := by
  simp [noAbsLayout, NoAbs, List.isEmpty_iff]

/-- monitor form -/
theorem C03_monitor (L : Layout) (x : Sys) (hx : ReachableEv L x) (e : Event) :
    monC03 (x.obs L e) = true := by
  unfold monC03
  cases hL : noAbsLayout (x.obs L e).L with
  | false => simp
  | true =>
    have hL' : NoAbs L := (noAbsLayout_iff L).mp hL
    simp only [Bool.not_true, Bool.false_eq_true, if_false]
    cases e with
    | released _ => rfl
    | pressed k =>
      simp only [Sys.obs]
      by_cases hk : k ∈ x.P
      · simp [hk]
      · have hkc : x.P.contains k = false := by simpa using hk
        simp only [hkc, Bool.false_eq_true, if_false]
        have hP' : (x.obs L (Event.pressed k)).P' = applyEv x.P (Event.pressed k) := rfl
        simp only [Sys.obs] at hP'
        rw [hP']
        have hs := hx.reachable.sinv
        have hki : k ∉ x.s.inp := fun h => hk (hs.inv.inpP k h)
        cases hc : (candidates L (applyEv x.P (Event.pressed k)) k).getLast? with
        | some m =>
          have c := C03_fire L hL' x hx k hk m hc
          have hfired := fired_eq hs k hki
          simp only [Sys.obs] at hfired
          simp only [hfired, c.1, beq_self_eq_true, Bool.true_and, Bool.and_eq_true, List.all_eq_true,
            Bool.or_eq_true, Bool.not_eq_eq_eq_not, Bool.not_true]
          refine ⟨?_, ?_⟩
          · intro y hy
            cases hay : isActionKey y with
            | true => simp only [if_true]; simpa [pressedIn] using c.2.2.1 y hy hay
            | false =>
              simp only [Bool.false_eq_true, if_false]
              simpa [Obs.V', Sys.next] using c.2.2.2.1 y hy hay
          · cases hr : m.rep.isNormal with
            | false => left; rfl
            | true =>
              right; intro y hy
              simpa [Obs.V', Sys.next] using c.2.2.2.2 hr y hy
        | none =>
          have hnil : candidates L (applyEv x.P (Event.pressed k)) k = [] := List.getLast?_eq_none_iff.mp hc
          have c := C03_pass L hL' x hx k hk hnil
          simp only
          by_cases hany : (x.s.active.any fun m => m.frm.contains k || m.to.contains k) = true
          · simp only [hany, if_true]
            have : ∃ m, m ∈ x.s.active ∧ (k ∈ m.frm ∨ k ∈ m.to) := by simpa using hany
            simp [c.2.1 this]
          · simp only [hany, Bool.false_eq_true, if_false]
            have : ∀ m, m ∈ x.s.active → k ∉ m.frm ∧ k ∉ m.to := by simpa using hany
            simp [c.2.2 this]

/-! Non-vacuity: unit-test layout `allowed_overlapping`: with CAPSLOCK held, pressing M has two
candidates? no — one; here a layout where two mappings qualify and the LAST listed one fires. -/
example :
    let L : Layout := [⟨[30], [45], Repeat.normal, []⟩, ⟨[42, 30], [46], Repeat.normal, []⟩, ⟨[30], [29, 44], Repeat.normal, []⟩]
    let x := Sys.run L Sys.init [Op.ev (Event.pressed 42)]
    (candidates L (applyEv x.P (Event.pressed 30)) 30).length = 3 ∧
    findMapping L x.s 30 = some ⟨[30], [29, 44], Repeat.normal, []⟩ ∧
    (step L x.s (Event.pressed 30)).2.events = [Event.pressed 29, Event.pressed 44] := by
  decide

end TmVerif
