/-
The specification automaton of C10 / C11 / C12 / C20 (`LoopMonitors.lean`) accepts every transcript
that the loop model itself produces (`Driver/LoopCmd.runAnnotated`: hidden `Instant::now()` answered
with the stamp of the previous answer, hidden `thread::sleep`), for EVERY tolerance (so also `tol = 0`).

Hypotheses:
* `Machine.init L = some x0`     — the layout is accepted by `Mapper::for_layout` (`Layout.wf`);
* the final machine is not `bad` — every answer of the script has the type its call expects
  (`bad` is absorbing, so this says that no ill-typed answer occurred); without it the automaton
  raises exactly "ill-typed-answer" (`spec_flags_only_ill_typed`).
No hypothesis on the clock stamps (they need not be monotone) and none about overflow: the model's
timeout arithmetic is on `Nat` and the automaton's `dueTimeout` is the same expression.  No hypothesis
on the repeat keys either: the automaton demands legality of the step / release-all batches only, of
a timer chord it demands shape and transience (`C11_transient`, which needs no `Nodup`); a Special
repeat that lists a key twice is accepted (`dup_repeat_key_is_accepted`).
-/
import TmVerif.Proofs.LoopSpecSim

namespace TmVerif
open TmVerif.LoopCmd (runAnnotated runLoop)

/-! ### `runAnnotated`, case by case -/

section ra
variable (L : Layout) (fuel : Nat) (x : Machine) (lastT : Nat)

theorem runAnnotated_zero (script : List (Resp × Nat)) : runAnnotated L 0 x lastT script = ([], x) := by
  simp [runAnnotated]

theorem runAnnotated_none (script : List (Resp × Nat)) (hp : pending x = none) :
    runAnnotated L (fuel + 1) x lastT script = ([], x) := by
  simp [runAnnotated, hp]

theorem runAnnotated_now (script : List (Resp × Nat)) (hp : pending x = some Call.now) :
    runAnnotated L (fuel + 1) x lastT script = runAnnotated L fuel (advance L x (Resp.time lastT)) lastT script := by
  simp [runAnnotated, hp]

theorem runAnnotated_sleep (script : List (Resp × Nat)) (ms : Nat) (hp : pending x = some (Call.sleep ms)) :
    runAnnotated L (fuel + 1) x lastT script = runAnnotated L fuel (advance L x Resp.unit) lastT script := by
  simp [runAnnotated, hp]

theorem runAnnotated_vis_nil (c : Call) (hp : pending x = some c) (hv : c.isVisible = true) :
    runAnnotated L (fuel + 1) x lastT [] = ([], x) := by
  cases c <;> simp [Call.isVisible] at hv <;> simp [runAnnotated, hp]

theorem runAnnotated_vis_cons (c : Call) (hp : pending x = some c) (hv : c.isVisible = true)
    (r : Resp) (t : Nat) (rest : List (Resp × Nat)) :
    runAnnotated L (fuel + 1) x lastT ((r, t) :: rest) =
      (c :: (runAnnotated L fuel (advance L x r) t rest).1, (runAnnotated L fuel (advance L x r) t rest).2) := by
  cases c <;> simp [Call.isVisible] at hv <;> simp [runAnnotated, hp]

/-- a machine that is not blocked on a call stays as it is -/
theorem runAnnotated_stopped (script : List (Resp × Nat)) (hp : pending x = none) :
    runAnnotated L fuel x lastT script = ([], x) := by
  cases fuel with
  | zero => exact runAnnotated_zero L x lastT script
  | succ n => exact runAnnotated_none L n x lastT script hp

end ra

theorem pending_of_bad {x : Machine} (h : x.c = Ctl.bad) : pending x = none := by
  obtain ⟨v, c⟩ := x; cases h; rfl

theorem pending_of_isDone {x : Machine} (h : x.c.isDone = true) : pending x = none := by
  obtain ⟨v, c⟩ := x; cases c <;> simp [Ctl.isDone] at h; rfl

@[simp] theorem transcriptOf_nil (script : List (Resp × Nat)) : transcriptOf [] script = [] := by
  simp [transcriptOf]

@[simp] theorem transcriptOf_cons (c : Call) (cs : List Call) (r : Resp) (t : Nat) (rs : List (Resp × Nat)) :
    transcriptOf (c :: cs) ((r, t) :: rs) = ⟨c.toV, r, t⟩ :: transcriptOf cs rs := rfl

/-! ### the automaton accepts the model's transcripts -/

/-- from any related pair of states: running the model and feeding its visible transcript to the
automaton raises no tag -/
theorem specRun_of_sim {L : Layout} (tol : Nat) :
    ∀ (fuel : Nat) (x : Machine) (lastT : Nat) (script : List (Resp × Nat)) (S : Spec) (pb : Bool),
      SimR L x lastT S pb →
      (runAnnotated L fuel x lastT script).2.c ≠ Ctl.bad →
      (specRun L tol S pb (transcriptOf (runAnnotated L fuel x lastT script).1 script)).viol = [] := by
  intro fuel
  induction fuel with
  | zero =>
    intro x lastT script S pb h _
    rw [runAnnotated_zero]; simp only [transcriptOf_nil, specRun_nil]; exact h.viol
  | succ fuel ih =>
    intro x lastT script S pb h hnb
    cases hp : pending x with
    | none => rw [runAnnotated_none L fuel x lastT script hp]; simp only [transcriptOf_nil, specRun_nil]; exact h.viol
    | some c =>
      by_cases hv : c.isVisible = true
      · cases script with
        | nil => rw [runAnnotated_vis_nil L fuel x lastT c hp hv]; simp only [transcriptOf_nil, specRun_nil]; exact h.viol
        | cons rt rest =>
          obtain ⟨r, t⟩ := rt
          rw [runAnnotated_vis_cons L fuel x lastT c hp hv r t rest] at hnb ⊢
          simp only [transcriptOf_cons, specRun_cons] at hnb ⊢
          by_cases hb : (advance L x r).c = Ctl.bad
          · rw [runAnnotated_stopped L fuel _ t rest (pending_of_bad hb)] at hnb
            exact absurd hb hnb
          · have hs := h.visible tol c hp hv r t hb
            by_cases hd : (advance L x r).c.isDone = true
            · rw [runAnnotated_stopped L fuel _ t rest (pending_of_isDone hd)]
              simp only [transcriptOf_nil, specRun_nil]; exact hs.1
            · exact ih _ t rest _ _ (hs.2 (by simpa using hd)) hnb
      · cases c <;> simp [Call.isVisible] at hv
        · rw [runAnnotated_now L fuel x lastT script hp] at hnb ⊢
          exact ih _ lastT script S pb (h.now hp) hnb
        · rename_i ms
          rw [runAnnotated_sleep L fuel x lastT script ms hp] at hnb ⊢
          exact ih _ lastT script S pb (h.sleep ms hp) hnb

/-- **The specification automaton accepts every transcript of the loop model**, for every tolerance:
run the model from its initial state against any annotated script; if no answer was ill-typed
(the final machine is not `bad`), the automaton run over the visible transcript raises no tag. -/
theorem spec_accepts_model (L : Layout) (x0 : Machine) (h0 : Machine.init L = some x0)
    (tol fuel : Nat) (script : List (Resp × Nat))
    (hty : (runAnnotated L fuel x0 0 script).2.c ≠ Ctl.bad) :
    (specRun L tol Spec.init false (transcriptOf (runAnnotated L fuel x0 0 script).1 script)).viol = [] :=
  specRun_of_sim tol fuel x0 0 script Spec.init false (SimR.init h0) hty

/-- the loop's initial state (what `Machine.init` returns for a layout `Mapper::for_layout` accepts) -/
def Machine.start : Machine := ⟨⟨State.init, WorkingRepeat.idle, false, 0⟩, Ctl.start⟩

theorem Machine.init_of_wf (L : Layout) (hL : Layout.wf L = true) : Machine.init L = some Machine.start := by
  simp [Machine.init, forLayout, hL, Machine.start]

/-- the same, with the hypotheses spelled out on the layout: `Layout.wf` (what `make_hashed_layout`
insists on) -/
theorem spec_accepts_model_wf (L : Layout) (hL : Layout.wf L = true)
    (tol fuel : Nat) (script : List (Resp × Nat))
    (hty : (runAnnotated L fuel Machine.start 0 script).2.c ≠ Ctl.bad) :
    (specRun L tol Spec.init false (transcriptOf (runAnnotated L fuel Machine.start 0 script).1 script)).viol = [] :=
  spec_accepts_model L Machine.start (Machine.init_of_wf L hL) tol fuel script hty

/-! ### the verdict form: the end-of-transcript checks against the model's final status -/

/-- the status text `specVerdict` is given (`LoopCmd.showStatus`, with the error message in clear as
`LoopCmd.normStatus` makes it) -/
def statusOf (x : Machine) : String :=
  match x.c with
  | Ctl.done none => "ok"
  | Ctl.done (some msg) => "err:" ++ msg
  | Ctl.bad => "bad"
  | _ => "running"

/-- what an answer means for the loop's result: `some res` = the loop returns `res`, `none` = it goes on -/
def respStatus : Resp → Option (Option String)
  | Resp.err msg => some (some msg)
  | Resp.kbd Next.end_ => some none
  | Resp.tab Next.end_ => some none
  | _ => none

def statusRel (k : Option (Option String)) (x : Machine) : Prop :=
  match k with
  | some res => x.c = Ctl.done res
  | none => x.c.isDone = false

theorem toPollTop_isDone (v : LoopVars) : (toPollTop v).c.isDone = false := by
  unfold toPollTop; cases v.rep <;> rfl

theorem drain_isDone (v : LoopVars) (devs : List Dev) : (drain v devs).c.isDone = false := by
  cases devs with
  | nil => exact toPollTop_isDone v
  | cons d rest => cases d <;> rfl

theorem afterStep_isDone (v : LoopVars) (rest : List Dev) (rr : RRepeat) : (afterStep v rest rr).c.isDone = false := by
  cases rr <;> rfl

/-- the loop returns exactly on a failure (with that error) and on `End` (with `Ok`) -/
theorem advance_status (L : Layout) (x : Machine) (c : Call) (hp : pending x = some c) (hv : c.isVisible = true)
    (r : Resp) (hok : (advance L x r).c ≠ Ctl.bad) : statusRel (respStatus r) (advance L x r) := by
  cases r with
  | err msg =>
    have hd : x.c.isDriverCall = true := by
      obtain ⟨v, ct⟩ := x
      cases ct <;> simp only [pending, Option.some.injEq, reduceCtorEq] at hp <;> subst hp <;>
        simp [Call.isVisible] at hv <;> rfl
    rw [C20_returns L x hd msg]; rfl
  | unit =>
    obtain ⟨v, ct⟩ := x
    cases ct <;> simp only [pending, Option.some.injEq, reduceCtorEq] at hp <;> subst hp <;>
      simp only [Call.isVisible, Bool.false_eq_true] at hv <;> try (exact absurd rfl hok)
    · rw [adv_start]; exact toPollTop_isDone v
    · rw [adv_sendChord]; exact toPollTop_isDone v
    · rw [adv_sendStep]; exact afterStep_isDone v _ _
    · rw [adv_sendRel]; rfl
  | time n =>
    obtain ⟨v, ct⟩ := x
    cases ct <;> simp only [pending, Option.some.injEq, reduceCtorEq] at hp <;> subst hp <;>
      simp only [Call.isVisible, Bool.false_eq_true] at hv <;> exact absurd rfl hok
  | poll pr =>
    obtain ⟨v, ct⟩ := x
    cases ct <;> simp only [pending, Option.some.injEq, reduceCtorEq] at hp <;> subst hp <;>
      simp only [Call.isVisible, Bool.false_eq_true] at hv <;> try (exact absurd rfl hok)
    rename_i tm
    cases pr with
    | timedOut =>
      cases hrep : v.rep with
      | idle => rw [adv_timedOut_idle L v hrep]; exact toPollTop_isDone v
      | repeating keys nw iv =>
        cases hit : v.inTablet with
        | true => rw [adv_timedOut_tablet L v hrep hit]; exact toPollTop_isDone _
        | false =>
          rw [adv_timedOut_chord L v hrep hit]
          split
          · exact toPollTop_isDone _
          · rfl
    | interrupted =>
      rw [adv_interrupted]
      split
      · rfl
      · exact toPollTop_isDone _
    | deviceEvent devs => rw [adv_deviceEvent]; exact drain_isDone _ devs
  | kbd n =>
    obtain ⟨v, ct⟩ := x
    cases ct <;> simp only [pending, Option.some.injEq, reduceCtorEq] at hp <;> subst hp <;>
      simp only [Call.isVisible, Bool.false_eq_true] at hv <;> try (exact absurd rfl hok)
    rename_i rest
    cases n with
    | busy => rw [adv_kbd_busy]; exact drain_isDone v rest
    | end_ => rw [adv_kbd_end]; rfl
    | one ev =>
      cases hit : v.inTablet with
      | true => rw [adv_kbd_one_tablet L v hit]; rfl
      | false =>
        rw [adv_kbd_one L v hit]
        split
        · exact afterStep_isDone _ rest _
        · rfl
  | tab n =>
    obtain ⟨v, ct⟩ := x
    cases ct <;> simp only [pending, Option.some.injEq, reduceCtorEq] at hp <;> subst hp <;>
      simp only [Call.isVisible, Bool.false_eq_true] at hv <;> try (exact absurd rfl hok)
    rename_i rest
    cases n with
    | busy => rw [adv_tab_busy]; exact drain_isDone v rest
    | end_ => rw [adv_tab_end]; rfl
    | one tev => rw [adv_tab_one]; split <;> rfl

/-- the result the last transcript entry announces (`k` if there is no entry) -/
def lastStatus (k : Option (Option String)) (tr : List Entry) : Option (Option String) :=
  match tr.getLast? with
  | some e => respStatus e.resp
  | none => k

theorem lastStatus_cons (k : Option (Option String)) (e : Entry) (tr : List Entry) :
    lastStatus k (e :: tr) = lastStatus (respStatus e.resp) tr := by
  cases tr with
  | nil => simp [lastStatus]
  | cons e' tr' =>
    simp only [lastStatus, List.getLast?_cons_cons]
    cases h : (e' :: tr').getLast? with
    | none => simp at h
    | some l => rfl

theorem statusRel_of_pending {k : Option (Option String)} {x : Machine} {c : Call} (h : statusRel k x)
    (hp : pending x = some c) : k = none := by
  cases k with
  | none => rfl
  | some res =>
    simp only [statusRel] at h
    obtain ⟨v, ct⟩ := x
    simp only at h; subst h
    simp [pending] at hp

/-- the model's final state is what the last transcript entry announces -/
theorem runAnnotated_status (L : Layout) :
    ∀ (fuel : Nat) (x : Machine) (lastT : Nat) (script : List (Resp × Nat)) (k : Option (Option String)),
      statusRel k x →
      (runAnnotated L fuel x lastT script).2.c ≠ Ctl.bad →
      statusRel (lastStatus k (transcriptOf (runAnnotated L fuel x lastT script).1 script))
        (runAnnotated L fuel x lastT script).2 := by
  intro fuel
  induction fuel with
  | zero =>
    intro x lastT script k h _
    rw [runAnnotated_zero]; simpa [lastStatus] using h
  | succ fuel ih =>
    intro x lastT script k h hnb
    cases hp : pending x with
    | none => rw [runAnnotated_none L fuel x lastT script hp]; simpa [lastStatus] using h
    | some c =>
      have hk := statusRel_of_pending h hp
      subst hk
      by_cases hv : c.isVisible = true
      · cases script with
        | nil => rw [runAnnotated_vis_nil L fuel x lastT c hp hv]; simpa [lastStatus] using h
        | cons rt rest =>
          obtain ⟨r, t⟩ := rt
          rw [runAnnotated_vis_cons L fuel x lastT c hp hv r t rest] at hnb ⊢
          simp only [transcriptOf_cons, lastStatus_cons] at hnb ⊢
          by_cases hb : (advance L x r).c = Ctl.bad
          · rw [runAnnotated_stopped L fuel _ t rest (pending_of_bad hb)] at hnb
            exact absurd hb hnb
          · exact ih _ t rest _ (advance_status L x c hp hv r hb) hnb
      · cases c <;> simp [Call.isVisible] at hv
        · rw [runAnnotated_now L fuel x lastT script hp] at hnb ⊢
          refine ih _ lastT script none ?_ hnb
          obtain ⟨v, ct⟩ := x
          cases ct <;> simp [pending] at hp
          · cases hrep : v.rep with
            | idle => rw [adv_pollNow_idle L v hrep]; rfl
            | repeating keys nw iv => rw [adv_pollNow L v hrep]; rfl
          · rfl
        · rename_i ms
          rw [runAnnotated_sleep L fuel x lastT script ms hp] at hnb ⊢
          refine ih _ lastT script none ?_ hnb
          obtain ⟨v, ct⟩ := x
          cases ct <;> simp [pending] at hp
          rw [adv_sleeping]; exact toPollTop_isDone v

/-- **Verdict form**: `specVerdict` — the automaton plus the end-of-transcript checks of C20 / C10 —
returns no tag on the model's transcript together with the model's own final status. -/
theorem spec_verdict_model (L : Layout) (x0 : Machine) (h0 : Machine.init L = some x0)
    (tol fuel : Nat) (script : List (Resp × Nat))
    (hty : (runAnnotated L fuel x0 0 script).2.c ≠ Ctl.bad) :
    specVerdict L tol (transcriptOf (runAnnotated L fuel x0 0 script).1 script)
      (statusOf (runAnnotated L fuel x0 0 script).2) = [] := by
  have hv := spec_accepts_model L x0 h0 tol fuel script hty
  have h0' : statusRel none x0 := by
    unfold Machine.init at h0
    cases hf : forLayout L with
    | none => simp [hf] at h0
    | some s => simp only [hf, Option.some.injEq] at h0; subst h0; rfl
  have hst := runAnnotated_status L fuel x0 0 script none h0' hty
  generalize (runAnnotated L fuel x0 0 script).2 = x' at *
  generalize transcriptOf (runAnnotated L fuel x0 0 script).1 script = tr at *
  unfold specVerdict
  simp only [lastStatus] at hst
  cases hl : tr.getLast? with
  | none =>
    rw [hl] at hst
    simp only [statusRel] at hst
    have hrun : statusOf x' = "running" := by
      obtain ⟨v', c'⟩ := x'
      cases c' <;> first | (exact absurd rfl hty) | rfl | (simp [Ctl.isDone] at hst)
    simp only [hrun, beq_self_eq_true, if_true]
    exact hv
  | some e =>
    rw [hl] at hst
    simp only at hst ⊢
    obtain ⟨v', c'⟩ := x'
    cases hr : e.resp with
    | err msg =>
      rw [hr] at hst; simp only [respStatus, statusRel] at hst; subst hst
      simpa [statusOf] using hv
    | kbd n =>
      rw [hr] at hst
      cases n with
      | end_ =>
        simp only [respStatus, statusRel] at hst; subst hst
        simpa [statusOf] using hv
      | busy =>
        simp only [respStatus, statusRel] at hst
        cases c' <;> simp [Ctl.isDone] at hst <;> first | (exact absurd rfl hty) | (simpa [statusOf] using hv)
      | one ev =>
        simp only [respStatus, statusRel] at hst
        cases c' <;> simp [Ctl.isDone] at hst <;> first | (exact absurd rfl hty) | (simpa [statusOf] using hv)
    | tab n =>
      rw [hr] at hst
      cases n with
      | end_ =>
        simp only [respStatus, statusRel] at hst; subst hst
        simpa [statusOf] using hv
      | busy =>
        simp only [respStatus, statusRel] at hst
        cases c' <;> simp [Ctl.isDone] at hst <;> first | (exact absurd rfl hty) | (simpa [statusOf] using hv)
      | one ev =>
        simp only [respStatus, statusRel] at hst
        cases c' <;> simp [Ctl.isDone] at hst <;> first | (exact absurd rfl hty) | (simpa [statusOf] using hv)
    | unit =>
      rw [hr] at hst
      simp only [respStatus, statusRel] at hst
      cases c' <;> simp [Ctl.isDone] at hst <;> first | (exact absurd rfl hty) | (simpa [statusOf] using hv)
    | time n =>
      rw [hr] at hst
      simp only [respStatus, statusRel] at hst
      cases c' <;> simp [Ctl.isDone] at hst <;> first | (exact absurd rfl hty) | (simpa [statusOf] using hv)
    | poll pr =>
      rw [hr] at hst
      simp only [respStatus, statusRel] at hst
      cases c' <;> simp [Ctl.isDone] at hst <;> first | (exact absurd rfl hty) | (simpa [statusOf] using hv)

/-! ### the typing hypothesis is sharp: an ill-typed answer raises exactly "ill-typed-answer" -/

/-- the answer has the type the pending driver call expects (`Err` fits every driver call) -/
def wellTyped : Ctl → Resp → Bool
  | Ctl.start, Resp.unit => true
  | Ctl.polling _, Resp.poll _ => true
  | Ctl.sendChord _, Resp.unit => true
  | Ctl.readKbd _, Resp.kbd _ => true
  | Ctl.sendStep _ _ _, Resp.unit => true
  | Ctl.readTab _, Resp.tab _ => true
  | Ctl.sendRel _ _, Resp.unit => true
  | c, Resp.err _ => c.isDriverCall
  | _, _ => false

theorem toPollTop_ne_bad (v : LoopVars) : (toPollTop v).c ≠ Ctl.bad := (toPollTop_pendingOut v).2.2.1
theorem drain_ne_bad (v : LoopVars) (devs : List Dev) : (drain v devs).c ≠ Ctl.bad := (drain_pendingOut v devs).2.2.1
theorem afterStep_ne_bad (v : LoopVars) (rest : List Dev) (rr : RRepeat) : (afterStep v rest rr).c ≠ Ctl.bad :=
  (afterStep_pendingOut v rest rr).2.2.1

/-- a well-typed answer never leads to `bad` -/
theorem advance_ne_bad_of_wellTyped (L : Layout) (x : Machine) (r : Resp) (hw : wellTyped x.c r = true) :
    (advance L x r).c ≠ Ctl.bad := by
  obtain ⟨v, ct⟩ := x
  cases r with
  | err msg =>
    have hd : ct.isDriverCall = true := by cases ct <;> simpa [wellTyped] using hw
    rw [adv_err L v ct hd msg]; simp
  | unit =>
    cases ct <;> simp [wellTyped] at hw
    · rw [adv_start]; exact toPollTop_ne_bad v
    · rw [adv_sendChord]; exact toPollTop_ne_bad v
    · rw [adv_sendStep]; exact afterStep_ne_bad v _ _
    · rw [adv_sendRel]; simp
  | time n => cases ct <;> simp [wellTyped] at hw
  | poll pr =>
    cases ct <;> simp [wellTyped] at hw
    rename_i tm
    cases pr with
    | timedOut =>
      cases hrep : v.rep with
      | idle => rw [adv_timedOut_idle L v hrep]; exact toPollTop_ne_bad v
      | repeating keys nw iv =>
        cases hit : v.inTablet with
        | true => rw [adv_timedOut_tablet L v hrep hit]; exact toPollTop_ne_bad _
        | false =>
          rw [adv_timedOut_chord L v hrep hit]
          split
          · exact toPollTop_ne_bad _
          · simp
    | interrupted =>
      rw [adv_interrupted]
      split
      · simp
      · exact toPollTop_ne_bad _
    | deviceEvent devs => rw [adv_deviceEvent]; exact drain_ne_bad _ devs
  | kbd n =>
    cases ct <;> simp [wellTyped] at hw
    rename_i rest
    cases n with
    | busy => rw [adv_kbd_busy]; exact drain_ne_bad v rest
    | end_ => rw [adv_kbd_end]; simp
    | one ev =>
      cases hit : v.inTablet with
      | true => rw [adv_kbd_one_tablet L v hit]; simp
      | false =>
        rw [adv_kbd_one L v hit]
        split
        · exact afterStep_ne_bad _ rest _
        · simp
  | tab n =>
    cases ct <;> simp [wellTyped] at hw
    rename_i rest
    cases n with
    | busy => rw [adv_tab_busy]; exact drain_ne_bad v rest
    | end_ => rw [adv_tab_end]; simp
    | one tev => rw [adv_tab_one]; split <;> simp

theorem adjustBase_viol (pb : Bool) (c : VCall) (r : Resp) (ts : Nat) (x2 : Spec) :
    (adjustBase pb c r ts x2).viol = x2.viol := by
  unfold adjustBase; split <;> rfl

/-- an ill-typed answer to a visible call: the automaton says so -/
theorem applyResp_illTyped (L : Layout) (S : Spec) (x : Machine) (c : Call) (hp : pending x = some c)
    (hv : c.isVisible = true) (r : Resp) (t : Nat) (hw : wellTyped x.c r = false) :
    applyResp L S c.toV r t = ({ S with lastTs := t } : Spec).flag "ill-typed-answer" := by
  obtain ⟨v, ct⟩ := x
  cases ct <;> simp only [pending, Option.some.injEq, reduceCtorEq] at hp <;> subst hp <;>
    simp only [Call.isVisible, Bool.false_eq_true] at hv <;>
    cases r <;> simp [wellTyped, Ctl.isDriverCall] at hw <;>
    first
      | rfl
      | (rename_i pr; cases pr <;> rfl)
      | (rename_i n; cases n <;> rfl)

/-- an ill-typed answer: the automaton raises exactly "ill-typed-answer" at that entry -/
theorem SimR.visible_bad {L : Layout} {x : Machine} {lastT : Nat} {S : Spec} {pb : Bool}
    (h : SimR L x lastT S pb) (tol : Nat) (c : Call) (hp : pending x = some c) (hv : c.isVisible = true)
    (r : Resp) (t : Nat) (hb : (advance L x r).c = Ctl.bad) :
    (specStep L tol S pb ⟨c.toV, r, t⟩).1.viol = ["ill-typed-answer"] := by
  have hw : wellTyped x.c r = false := by
    cases hw : wellTyped x.c r with
    | false => rfl
    | true => exact absurd hb (advance_ne_bad_of_wellTyped L x r hw)
  simp only [specStep, adjustBase_viol]
  rw [h.checkCall tol c hp hv, applyResp_illTyped L _ x c hp hv r t hw]
  have : (S.afterCall c).viol = [] := by rw [Spec.afterCall_viol]; exact h.viol
  simp [Spec.flag, this]

/-- from any related pair of states: if an answer was ill-typed (the model ends in `bad`), the
automaton raises exactly "ill-typed-answer" -/
theorem specRun_of_sim_bad {L : Layout} (tol : Nat) :
    ∀ (fuel : Nat) (x : Machine) (lastT : Nat) (script : List (Resp × Nat)) (S : Spec) (pb : Bool),
      SimR L x lastT S pb → x.c ≠ Ctl.bad →
      (runAnnotated L fuel x lastT script).2.c = Ctl.bad →
      (specRun L tol S pb (transcriptOf (runAnnotated L fuel x lastT script).1 script)).viol = ["ill-typed-answer"] := by
  intro fuel
  induction fuel with
  | zero =>
    intro x lastT script S pb h hx hbad
    rw [runAnnotated_zero] at hbad; exact absurd hbad hx
  | succ fuel ih =>
    intro x lastT script S pb h hx hbad
    cases hp : pending x with
    | none => rw [runAnnotated_none L fuel x lastT script hp] at hbad; exact absurd hbad hx
    | some c =>
      by_cases hv : c.isVisible = true
      · cases script with
        | nil => rw [runAnnotated_vis_nil L fuel x lastT c hp hv] at hbad; exact absurd hbad hx
        | cons rt rest =>
          obtain ⟨r, t⟩ := rt
          rw [runAnnotated_vis_cons L fuel x lastT c hp hv r t rest] at hbad ⊢
          simp only [transcriptOf_cons, specRun_cons] at hbad ⊢
          by_cases hb : (advance L x r).c = Ctl.bad
          · rw [runAnnotated_stopped L fuel _ t rest (pending_of_bad hb)]
            simp only [transcriptOf_nil, specRun_nil]
            exact h.visible_bad tol c hp hv r t hb
          · have hs := h.visible tol c hp hv r t hb
            by_cases hd : (advance L x r).c.isDone = true
            · rw [runAnnotated_stopped L fuel _ t rest (pending_of_isDone hd)] at hbad
              exact absurd hbad hb
            · exact ih _ t rest _ _ (hs.2 (by simpa using hd)) hb hbad
      · cases c <;> simp [Call.isVisible] at hv
        · rw [runAnnotated_now L fuel x lastT script hp] at hbad ⊢
          have h' := h.now hp
          refine ih _ lastT script S pb h' ?_ hbad
          obtain ⟨v, ct⟩ := x
          cases ct <;> simp [pending] at hp
          · have ht := h.timer
            simp only [ctlTimer] at ht
            cases hrep : v.rep with
            | idle => exact absurd hrep ht
            | repeating keys nw iv => rw [adv_pollNow L v hrep]; simp
          · rw [adv_stepNow]; simp
        · rename_i ms
          rw [runAnnotated_sleep L fuel x lastT script ms hp] at hbad ⊢
          refine ih _ lastT script S pb (h.sleep ms hp) ?_ hbad
          obtain ⟨v, ct⟩ := x
          cases ct <;> simp [pending] at hp
          rw [adv_sleeping]; exact toPollTop_ne_bad v

/-- **Without the typing hypothesis**: the only tag the automaton can raise on a transcript of the
model is "ill-typed-answer", and it raises it exactly when the model ended in `bad`. -/
theorem spec_flags_only_ill_typed (L : Layout) (x0 : Machine) (h0 : Machine.init L = some x0)
    (tol fuel : Nat) (script : List (Resp × Nat)) :
    (specRun L tol Spec.init false (transcriptOf (runAnnotated L fuel x0 0 script).1 script)).viol =
      if (runAnnotated L fuel x0 0 script).2.c = Ctl.bad then ["ill-typed-answer"] else [] := by
  split
  · rename_i hb
    refine specRun_of_sim_bad tol fuel x0 0 script Spec.init false (SimR.init h0) ?_ hb
    unfold Machine.init at h0
    cases hf : forLayout L with
    | none => simp [hf] at h0
    | some s => simp only [hf, Option.some.injEq] at h0; subst h0; simp
  · rename_i hb
    exact spec_accepts_model L x0 h0 tol fuel script hb

/-! ### the driver's own entry points (`LoopCmd.runLoop`, `LoopCmd.zipEntries`) -/

/-- `LOOP`'s run (`runLoop`: fuel `3·|script| + 6`) followed by `LOOPMON`'s verdict on the model's own
calls and status: no tag, for every tolerance -/
theorem spec_verdict_runLoop (L : Layout) (tol : Nat) (script : List (Resp × Nat))
    (calls : List Call) (x' : Machine) (hrun : runLoop L script = some (calls, x')) (hty : x'.c ≠ Ctl.bad) :
    specVerdict L tol (transcriptOf calls script) (statusOf x') = [] := by
  unfold runLoop at hrun
  cases h0 : Machine.init L with
  | none => simp [h0] at hrun
  | some x0 =>
    simp only [h0, Option.map_some, Option.some.injEq] at hrun
    have := spec_verdict_model L x0 h0 tol (3 * script.length + 6) script (by rw [hrun]; exact hty)
    rw [hrun] at this
    exact this

/-- the model never makes more visible calls than the script has answers -/
theorem runAnnotated_length (L : Layout) :
    ∀ (fuel : Nat) (x : Machine) (lastT : Nat) (script : List (Resp × Nat)),
      (runAnnotated L fuel x lastT script).1.length ≤ script.length := by
  intro fuel
  induction fuel with
  | zero => intro x lastT script; rw [runAnnotated_zero]; simp
  | succ fuel ih =>
    intro x lastT script
    cases hp : pending x with
    | none => rw [runAnnotated_none L fuel x lastT script hp]; simp
    | some c =>
      by_cases hv : c.isVisible = true
      · cases script with
        | nil => rw [runAnnotated_vis_nil L fuel x lastT c hp hv]; simp
        | cons rt rest =>
          obtain ⟨r, t⟩ := rt
          rw [runAnnotated_vis_cons L fuel x lastT c hp hv r t rest]
          simp only [List.length_cons]
          exact Nat.succ_le_succ (ih _ t rest)
      · cases c <;> simp [Call.isVisible] at hv
        · rw [runAnnotated_now L fuel x lastT script hp]; exact ih _ lastT script
        · rename_i ms
          rw [runAnnotated_sleep L fuel x lastT script ms hp]; exact ih _ lastT script

/-- `transcriptOf` is `LOOPMON`'s `zipEntries` of the visible calls with the answers consumed -/
theorem zipEntries_transcriptOf (calls : List Call) (script : List (Resp × Nat)) (hlen : calls.length ≤ script.length) :
    LoopCmd.zipEntries (calls.map Call.toV) (script.take calls.length) = some (transcriptOf calls script) := by
  induction calls generalizing script with
  | nil => simp [LoopCmd.zipEntries]
  | cons c cs ih =>
    cases script with
    | nil => simp at hlen
    | cons rt rest =>
      obtain ⟨r, t⟩ := rt
      simp only [List.length_cons, Nat.add_le_add_iff_right] at hlen
      simp [LoopCmd.zipEntries, ih rest hlen]

/-! ### Non-vacuity, and the finding -/

/-- Non-vacuity: the D2 witness layout of C11 (`B → B`, Special [LEFTCTRL, C], 130 ms, 30 ms): a step
with output and a repeat request, the relative deadline completed by the send's stamp, two chords on
schedule; the automaton accepts with tolerance 0. -/
example :
    let L : Layout := [⟨[48], [48], Repeat.special [29, 46] 130 30, []⟩]
    let script : List (Resp × Nat) :=
      [(Resp.unit, 0), (Resp.poll (PollRes.deviceEvent [Dev.keyboard]), 500), (Resp.kbd (Next.one (Event.pressed 48)), 700),
       (Resp.unit, 1000), (Resp.kbd Next.busy, 5000), (Resp.poll PollRes.timedOut, 130002000), (Resp.unit, 130002500),
       (Resp.poll PollRes.timedOut, 160001000), (Resp.unit, 160001700)]
    (runLoop L script).map (fun p => (p.1, statusOf p.2, specVerdict L 0 (transcriptOf p.1 script) (statusOf p.2))) =
      some ([Call.registerPoll, Call.poll none, Call.nextKeyboard, Call.send SendKind.step [Event.pressed 48, Event.released 48],
             Call.nextKeyboard, Call.poll (some 129996000),
             Call.send SendKind.chord [Event.pressed 29, Event.pressed 46, Event.released 46, Event.released 29],
             Call.poll (some 29998500),
             Call.send SendKind.chord [Event.pressed 29, Event.pressed 46, Event.released 46, Event.released 29]],
            "running", []) := by
  decide

/-- every Special repeat of the layout lists each repeat key once (NOT a hypothesis of the theorems above;
only used to say what the example below is about) -/
def Layout.repNodup (L : Layout) : Bool :=
  L.all fun m => match m.rep with
    | Repeat.special keys _ _ => decide keys.Nodup
    | _ => true

/-- A layout that `Mapper::for_layout` accepts (`Layout.wf`) whose Special repeat lists a key twice.  The
loop model's chord is `P46 P46 R46 R46` (the Rust filters `is_output_held` against the mapper state,
which the chord does not change, so the second press is not filtered).  C11 fixes the chord's shape
and its transience only (`C11_shape`, `C11_transient` need no `Nodup`), so the automaton accepts the
model's transcript.  (An earlier version of the automaton demanded C19-style legality of every send and
raised "C11/illegal-event-in-send" here.) -/
theorem dup_repeat_key_is_accepted :
    let L : Layout := [⟨[48], [48], Repeat.special [46, 46] 130 30, []⟩]
    let script : List (Resp × Nat) :=
      [(Resp.unit, 0), (Resp.poll (PollRes.deviceEvent [Dev.keyboard]), 10), (Resp.kbd (Next.one (Event.pressed 48)), 20),
       (Resp.unit, 30), (Resp.kbd Next.busy, 40), (Resp.poll PollRes.timedOut, 130000040), (Resp.unit, 130000050)]
    Layout.wf L = true ∧ L.repNodup = false ∧
    (runLoop L script).map (fun p => (p.1, statusOf p.2, specVerdict L 0 (transcriptOf p.1 script) (statusOf p.2))) =
      some ([Call.registerPoll, Call.poll none, Call.nextKeyboard, Call.send SendKind.step [Event.pressed 48, Event.released 48],
             Call.nextKeyboard, Call.poll (some 129999990),
             Call.send SendKind.chord [Event.pressed 46, Event.pressed 46, Event.released 46, Event.released 46]],
            "running", []) := by
  decide

end TmVerif
