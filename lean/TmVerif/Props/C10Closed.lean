/-
C10 for the CLOSED system — the loop model composed with an edge-triggered readiness environment
(`Model/LoopEnv.lean`).

The open-model theorems (`Props/C10.lean`) hold for every script of driver answers, but a script
cannot express that every event that ARRIVES is eventually READ.  Here the answers come from an
environment with FIFO queues and edge-triggered readiness flags (set by every arrival, cleared only
when `poll` reports the device), arrivals happen at any time, and we prove:

  * `C10_never_waits_with_unread` — whenever the loop is blocked on `poll` with no flag set, both
    queues are empty and no end-of-device is unreported: no arrived event is ever stranded;
  * `C10_closed` — when the whole schedule has been delivered and the loop waits with no flag set
    (or has returned on end-of-device with empty queues), what it has read is exactly the keyboard
    history and exactly the tablet-switch history, each in arrival order, and the step / release-all
    sends are exactly the non-empty mapper outputs for the operations of that read log, once each, in
    order.  The relative order of keyboard and tablet-switch events is NOT determined by the arrival
    order (two devices, two queues; the loop drains one device at a time): the read log is an
    interleaving of the two histories.  `C10_closed_kbd` is the keyboard-only case, where the
    operations are exactly `h.map Op.ev` for every splitting of `h` into batches;
  * `C10_quiesces` — from every reachable state the loop can, and (`C10_quiesces_all`) on every
    continuation without further arrivals must, reach such a quiescent `poll` (or return) within
    `cmeasure` answers.

Timer chords are not part of the statement: `callsSends` collects the `step` and `relAll` sends only
(chords are C11).
-/
import TmVerif.Proofs.LoopEnv
import TmVerif.Props.C10

namespace TmVerif

/-- C10 (closed, safety): in every reachable state of the closed system in which the loop is blocked on
`poll` and no readiness flag is set — so nothing but a new arrival will wake it — both queues are
empty and no device is gone without the loop having been told.  Hence the loop never goes back to
waiting while events that have arrived are unread. -/
theorem C10_never_waits_with_unread (L : Layout) (x0 : Machine) (h0 : Machine.init L = some x0)
    (sched : List Arrival) (s : Machine × Env) (hr : CReach L (x0, Env.init sched) s) (hq : Quiescent s) :
    s.2.kq = [] ∧ s.2.tq = [] ∧ s.2.kgone = false ∧ s.2.tgone = false := by
  have hi : EnvInv s.1 s.2 := EnvInv.creach (s0 := (x0, Env.init sched)) (EnvInv.init h0 sched) hr
  obtain ⟨x, e⟩ := s
  obtain ⟨hp, hk, ht⟩ := hq
  simp only at hp hk ht hi ⊢
  obtain ⟨v, c⟩ := x
  cases c <;> simp [Ctl.isPolling] at hp
  have h1 := hi.kbd
  have h2 := hi.tab
  simp [Ctl.finished, Ctl.wk, Ctl.wt, hk, ht] at h1 h2
  exact ⟨h1.1, h2.1, h1.2, h2.2⟩

/-- C10 (closed, safety, all control states): in every reachable state in which the loop has not
returned, a device with unread events (or gone) has its readiness flag set, or is being drained, or
is among the devices still to be drained in the current wake-up. -/
theorem C10_unread_is_notified (L : Layout) (x0 : Machine) (h0 : Machine.init L = some x0)
    (sched : List Arrival) (s : Machine × Env) (hr : CReach L (x0, Env.init sched) s)
    (hnf : s.1.c.finished = false) :
    ((s.2.kq ≠ [] ∨ s.2.kgone = true) → (s.2.kflag = true ∨ s.1.c.wk = true)) ∧
    ((s.2.tq ≠ [] ∨ s.2.tgone = true) → (s.2.tflag = true ∨ s.1.c.wt = true)) := by
  have hi : EnvInv s.1 s.2 := EnvInv.creach (s0 := (x0, Env.init sched)) (EnvInv.init h0 sched) hr
  refine ⟨?_, ?_⟩
  · rcases hi.kbd with h | h
    · rw [hnf] at h; cases h
    · exact h
  · rcases hi.tab with h | h
    · rw [hnf] at h; cases h
    · exact h

/-- C10 (closed, FIFO): at every point of every run, per device, what the loop has read, then what is
queued, then what has not arrived yet is the history of the schedule: events are read in arrival
order, none is lost, none is read twice. -/
theorem C10_fifo (L : Layout) (x0 : Machine) (h0 : Machine.init L = some x0) (sched : List Arrival)
    (ms : List Move) (x : Machine) (e : Env) (hrun : crun L (x0, Env.init sched) ms = some (x, e)) :
    kbdOf (runLog L x0 [] (answers ms)) ++ (e.kq ++ kbdHist e.rest) = kbdHist sched ∧
    tabOf (runLog L x0 [] (answers ms)) ++ (e.tq ++ tabHist e.rest) = tabHist sched := by
  have h := crun_inv ms x0 (Env.init sched) Ghost.init [] x e (EnvInv.init h0 sched) (FifoInv.init h0 sched) hrun
  exact ⟨h.2.2.1.kcons, h.2.2.1.tcons⟩

/-- the run has delivered everything and has come to rest: the loop waits with no flag set, or it has
returned `Ok(())` (end-of-device) with nothing left in the queues -/
def AtRest (s : Machine × Env) : Prop :=
  s.2.rest = [] ∧ (Quiescent s ∨ (s.1.c = Ctl.done none ∧ s.2.kq = [] ∧ s.2.tq = []))

instance (s : Machine × Env) : Decidable (AtRest s) := by unfold AtRest; exact inferInstance

/-- C10 (closed): for every layout accepted by `Machine.init`, every schedule of arrivals (keyboard
batches, tablet-switch batches, end-of-device markers, in any order) and every run of the closed
system — arrivals at any time, any legal poll answers, spurious time-outs, interruptions, any clock —
that has delivered the whole schedule and come to rest: the read log `lg` of the run contains exactly
the keyboard history and exactly the tablet-switch history, each in arrival order; the mapper
operations performed are those of that log (`opsOfLog`); and the step / release-all sends made are
exactly the non-empty mapper outputs for these operations, once each and in order.  The loop's mapper
is the mapper after these operations. -/
theorem C10_closed (L : Layout) (x0 : Machine) (h0 : Machine.init L = some x0) (sched : List Arrival)
    (ms : List Move) (x : Machine) (e : Env) (hrun : crun L (x0, Env.init sched) ms = some (x, e))
    (hrest : AtRest (x, e)) :
    kbdOf (runLog L x0 [] (answers ms)) = kbdHist sched ∧
    tabOf (runLog L x0 [] (answers ms)) = tabHist sched ∧
    (runG L x0 Ghost.init (answers ms)).2.ops = opsOfLog false (runLog L x0 [] (answers ms)) ∧
    callsSends (runScript L x0 (answers ms)).1 =
      nonEmptyOuts L Sys.init (opsOfLog false (runLog L x0 [] (answers ms))) ∧
    x.v.m = (Sys.run L Sys.init (opsOfLog false (runLog L x0 [] (answers ms)))).s := by
  have h := crun_inv ms x0 (Env.init sched) Ghost.init [] x e (EnvInv.init h0 sched) (FifoInv.init h0 sched) hrun
  obtain ⟨hx, hi, hf, hne⟩ := h
  have hx1 : (runG L x0 Ghost.init (answers ms)).1 = x := by rw [hx]
  obtain ⟨hall, hend⟩ := hrest
  simp only at hall hend
  -- the queues are empty
  have hq : e.kq = [] ∧ e.tq = [] := by
    rcases hend with hq | ⟨_, hk, ht⟩
    · have hr : CReach L (x0, Env.init sched) (x, e) := (creach_iff_crun L _ _).2 ⟨ms, hrun⟩
      have := C10_never_waits_with_unread L x0 h0 sched (x, e) hr hq
      exact ⟨this.1, this.2.1⟩
    · exact ⟨hk, ht⟩
  -- the control state has no pending send and is neither `bad` nor a failure
  have hc : x.c.pendingOut = [] ∧ x.c ≠ Ctl.bad ∧ ∀ msg, x.c ≠ Ctl.done (some msg) := by
    rcases hend with ⟨hp, _, _⟩ | ⟨hd, _, _⟩
    · simp only at hp
      cases hcc : x.c <;> simp [hcc, Ctl.isPolling] at hp
      simp [Ctl.pendingOut]
    · simp [hd, Ctl.pendingOut]
  have hk := hf.kcons
  have ht := hf.tcons
  rw [hq.1, hall] at hk
  rw [hq.2, hall] at ht
  simp only [kbdHist, tabHist, List.append_nil] at hk ht
  have hcalls := C10_out_calls L x0 h0 (answers ms) hne (by rw [hx1]; exact hc.2.1) (by rw [hx1]; exact hc.2.2)
  have hout := C10_out L x0 h0 (answers ms) (by rw [hx1]; exact hc.2.1) (by rw [hx1]; exact hc.2.2)
  rw [← runG_machine, hx1, hc.1, List.append_nil, hf.ops] at hcalls
  have hm := hout.2
  rw [hx1, hf.ops] at hm
  exact ⟨hk, ht, hf.ops, hcalls, hm⟩

theorem kbdHist_batches (batches : List (List Event)) (tail : List Arrival) :
    kbdHist (batches.map Arrival.kbd ++ tail) = batches.flatten ++ kbdHist tail := by
  induction batches with
  | nil => rfl
  | cons b bs ih => simp [kbdHist, ih]

theorem tabHist_batches (batches : List (List Event)) (tail : List Arrival) :
    tabHist (batches.map Arrival.kbd ++ tail) = tabHist tail := by
  induction batches with
  | nil => rfl
  | cons b bs ih => simp [tabHist, ih]

/-- C10 (closed, no tablet-switch events in the schedule): the operations performed are exactly one
mapper step per keyboard event of the history, in arrival order, and the sends are exactly the
non-empty step outputs, once each and in order. -/
theorem C10_closed_kbdOnly (L : Layout) (x0 : Machine) (h0 : Machine.init L = some x0) (sched : List Arrival)
    (hnt : tabHist sched = [])
    (ms : List Move) (x : Machine) (e : Env) (hrun : crun L (x0, Env.init sched) ms = some (x, e))
    (hrest : AtRest (x, e)) :
    (runG L x0 Ghost.init (answers ms)).2.ops = (kbdHist sched).map Op.ev ∧
    callsSends (runScript L x0 (answers ms)).1 = nonEmptyOuts L Sys.init ((kbdHist sched).map Op.ev) ∧
    x.v.m = (Sys.run L Sys.init ((kbdHist sched).map Op.ev)).s := by
  obtain ⟨hk, ht, ho, hc, hm⟩ := C10_closed L x0 h0 sched ms x e hrun hrest
  have : opsOfLog false (runLog L x0 [] (answers ms)) = (kbdHist sched).map Op.ev := by
    rw [opsOfLog_kbdOnly _ (by rw [ht, hnt]), hk]
  rw [this] at ho hc hm
  exact ⟨ho, hc, hm⟩

/-- C10 (closed, keyboard only), in the words of the property: for every layout accepted by
`Machine.init`, every key history `h`, EVERY way of splitting `h` into arrival batches (followed or not
by the disappearance of the device), and every run of the closed system that has delivered all of it
and come to rest — blocked on `poll` with no flag set, or returned on end-of-device —, the operations
read are exactly `h` in order, and the events written are exactly the mapper's non-empty outputs for
`h`, each written once and in order. -/
theorem C10_closed_kbd (L : Layout) (x0 : Machine) (h0 : Machine.init L = some x0) (h : List Event)
    (batches : List (List Event)) (hb : batches.flatten = h) (gone : Bool)
    (ms : List Move) (x : Machine) (e : Env)
    (hrun : crun L (x0, Env.init (batches.map Arrival.kbd ++ (if gone then [Arrival.kbdGone] else []))) ms = some (x, e))
    (hrest : AtRest (x, e)) :
    (runG L x0 Ghost.init (answers ms)).2.ops = h.map Op.ev ∧
    callsSends (runScript L x0 (answers ms)).1 = nonEmptyOuts L Sys.init (h.map Op.ev) ∧
    x.v.m = (Sys.run L Sys.init (h.map Op.ev)).s := by
  have hkh : kbdHist (batches.map Arrival.kbd ++ (if gone then [Arrival.kbdGone] else [])) = h := by
    rw [kbdHist_batches, hb]; cases gone <;> simp [kbdHist]
  have hth : tabHist (batches.map Arrival.kbd ++ (if gone then [Arrival.kbdGone] else [])) = [] := by
    rw [tabHist_batches]; cases gone <;> simp [tabHist]
  have := C10_closed_kbdOnly L x0 h0 _ hth ms x e hrun hrest
  rw [hkh] at this
  exact this

/-- C10 (closed, progress — existence): from every reachable state of the closed system, if nothing
more arrives, the loop can come to rest — blocked on `poll` with no flag set (hence, by
`C10_never_waits_with_unread`, with both queues empty: everything that had arrived has been read), or
returned `Ok(())` — within `cmeasure s` answers (3 per queued event, plus the rank of the control
state, plus 5 if a flag is set). -/
theorem C10_quiesces (L : Layout) (x0 : Machine) (h0 : Machine.init L = some x0) (sched : List Arrival)
    (s : Machine × Env) (hr : CReach L (x0, Env.init sched) s) :
    ∃ ms, Move.arrive ∉ ms ∧ ms.length ≤ cmeasure s ∧ ∃ s', crun L s ms = some s' ∧ Rests s' :=
  rests_exists L (cmeasure s) s (EnvInv.creach (s0 := (x0, Env.init sched)) (EnvInv.init h0 sched) hr) (Nat.le_refl _)

/-- C10 (closed, progress — inevitability): from every reachable state, EVERY continuation of at least
`cmeasure s` answers without further arrivals — whatever the environment chooses: poll orders, clock
values — passes through a state at rest within its first `cmeasure s` answers.  (Every answer given to
a loop that is not at a quiescent `poll` decreases `cmeasure`: `astep_decreases`.) -/
theorem C10_quiesces_all (L : Layout) (x0 : Machine) (h0 : Machine.init L = some x0) (sched : List Arrival)
    (s : Machine × Env) (hr : CReach L (x0, Env.init sched) s)
    (ms : List Move) (s' : Machine × Env) (hna : Move.arrive ∉ ms) (hrun : crun L s ms = some s')
    (hlen : cmeasure s ≤ ms.length) :
    ∃ k, k ≤ cmeasure s ∧ ∃ s'', crun L s (ms.take k) = some s'' ∧ Rests s'' :=
  rests_all L (cmeasure s) s s' ms (EnvInv.creach (s0 := (x0, Env.init sched)) (EnvInv.init h0 sched) hr)
    (Nat.le_refl _) hna hrun hlen

/-- C10 (closed, end-of-device): a reachable state at rest in which a device is gone is a state in which
the loop has returned `Ok(())` — it cannot be waiting: by `C10_never_waits_with_unread` a quiescent
`poll` has no unreported end-of-device.  With `C10_quiesces_all`: once end-of-device has arrived the
loop returns within `cmeasure` answers; and a returned loop makes no call (`C10_end`). -/
theorem C10_gone_returns (L : Layout) (x0 : Machine) (h0 : Machine.init L = some x0) (sched : List Arrival)
    (s : Machine × Env) (hr : CReach L (x0, Env.init sched) s) (hg : s.2.kgone = true ∨ s.2.tgone = true)
    (hrest : Rests s) : s.1.c = Ctl.done none ∧ pending s.1 = none := by
  rcases hrest with hq | hd
  · have := C10_never_waits_with_unread L x0 h0 sched s hr hq
    rcases hg with hg | hg
    · rw [this.2.2.1] at hg; cases hg
    · rw [this.2.2.2] at hg; cases hg
  · exact ⟨hd, by unfold pending; rw [hd]⟩

/-! ### Non-vacuity

A 2-batch schedule for the layout of `Props/C10.lean` (`58` alone maps to nothing, `58+36` to `105`).
The second batch arrives in the middle of the drain of the first: its event is read in the same
wake-up, the flag it set causes one more `DeviceEvent` whose read answers `Busy` at once. -/

def c10cSched : List Arrival :=
  [Arrival.kbd [Event.pressed 58, Event.pressed 36], Arrival.kbd [Event.released 36]]

def c10cMoves : List Move :=
  [Move.answer Resp.unit,                                            -- register_poll
   Move.arrive,                                                      -- batch 1
   Move.answer (Resp.poll (PollRes.deviceEvent [Dev.keyboard])),
   Move.answer (Resp.kbd (Next.one (Event.pressed 58))),
   Move.answer (Resp.kbd (Next.one (Event.pressed 36))),
   Move.answer Resp.unit,                                            -- send [pressed 105]
   Move.arrive,                                                      -- batch 2, in the middle of the drain
   Move.answer (Resp.kbd (Next.one (Event.released 36))),
   Move.answer Resp.unit,                                            -- send [released 105]
   Move.answer (Resp.kbd Next.busy),
   Move.answer (Resp.poll (PollRes.deviceEvent [Dev.keyboard])),     -- the flag set by batch 2
   Move.answer (Resp.kbd Next.busy)]

/-- the run with the moves `ms` from the initial state of layout `L` and schedule `sched` -/
def crunInit (L : Layout) (sched : List Arrival) (ms : List Move) : Option (Machine × Env) :=
  (Machine.init L).bind (fun x0 => crun L (x0, Env.init sched) ms)

/-- `C10_never_waits_with_unread` is not vacuous: the run ends in a (reachable) quiescent state; and its
hypothesis matters: after the first arrival the loop is blocked on `poll` with two unread events — with
the flag set. -/
example :
    (crunInit c10Layout c10cSched c10cMoves).map (fun s => (decide (Quiescent s), s.2.kq, s.2.tq)) =
      some (true, [], []) ∧
    (crunInit c10Layout c10cSched (c10cMoves.take 2)).map (fun s => (s.1.c, s.2.kflag, s.2.kq)) =
      some (Ctl.polling none, true, [Event.pressed 58, Event.pressed 36]) := by
  decide

/-- `C10_closed` / `C10_closed_kbd` are not vacuous: the run has delivered both batches and is at rest;
and their conclusion, computed: the sends are the two non-empty outputs for the three events. -/
example :
    (crunInit c10Layout c10cSched c10cMoves).map (fun s => decide (AtRest s)) = some true ∧
    (Machine.init c10Layout).map (fun x0 => callsSends (runScript c10Layout x0 (answers c10cMoves)).1) =
      some [[Event.pressed 105], [Event.released 105]] ∧
    (Machine.init c10Layout).map (fun x0 => (runG c10Layout x0 Ghost.init (answers c10cMoves)).2.ops) =
      some ([Event.pressed 58, Event.pressed 36, Event.released 36].map Op.ev) := by
  decide

/-- with the tablet switch: both devices flagged, `poll` reports them in the order tablet, keyboard; the
loop reads the tablet-switch event first although it arrived second (the read log is an interleaving
of the two histories, not the arrival order), drops the two keyboard events (tablet mode), and returns
when the keyboard reports that it is gone. -/
def c10cSchedT : List Arrival :=
  [Arrival.kbd [Event.pressed 58, Event.pressed 36], Arrival.tab [TabletEv.on], Arrival.kbdGone]

def c10cMovesT : List Move :=
  [Move.answer Resp.unit, Move.arrive, Move.arrive,
   Move.answer (Resp.poll (PollRes.deviceEvent [Dev.tablet, Dev.keyboard])),
   Move.answer (Resp.tab (Next.one TabletEv.on)),
   Move.answer (Resp.tab Next.busy),
   Move.answer (Resp.kbd (Next.one (Event.pressed 58))),
   Move.arrive,                                                      -- the keyboard disappears
   Move.answer (Resp.kbd (Next.one (Event.pressed 36))),
   Move.answer (Resp.kbd Next.end_)]

example :
    (crunInit c10Layout c10cSchedT c10cMovesT).map (fun s => (decide (AtRest s), s.1.c)) =
      some (true, Ctl.done none) ∧
    (Machine.init c10Layout).map (fun x0 => runLog c10Layout x0 [] (answers c10cMovesT)) =
      some [Item.tab TabletEv.on, Item.kbd (Event.pressed 58), Item.kbd (Event.pressed 36)] ∧
    (Machine.init c10Layout).map (fun x0 => (runG c10Layout x0 Ghost.init (answers c10cMovesT)).2.ops) =
      some [Op.relAll] := by
  decide

/-- the hypothesis "queues empty" of `AtRest` for a returned loop is needed when the TABLET SWITCH
disappears: `next_tablet` answers `End`, the loop returns `Ok(())` (as the Rust does), and the keyboard
event that has arrived stays unread.  (Not a stranded event in the sense of
`C10_never_waits_with_unread` — the loop is not waiting, it has returned — but an observation about the
loop: losing the tablet-mode switch ends the remapping of the keyboard.) -/
example :
    (crunInit c10Layout [Arrival.kbd [Event.pressed 58], Arrival.tabGone]
      [Move.answer Resp.unit, Move.arrive, Move.arrive,
       Move.answer (Resp.poll (PollRes.deviceEvent [Dev.tablet, Dev.keyboard])),
       Move.answer (Resp.tab Next.end_)]).map (fun s => (s.1.c, s.2.kq, s.2.rest, decide (AtRest s))) =
      some (Ctl.done none, [Event.pressed 58], [], false) := by
  decide

/-- `C10_quiesces` / `C10_quiesces_all` are not vacuous: after the first arrival the variant is 11 (two
queued events, a flag); the 10 answers of the run that follow come to rest — and the variant is 0 there. -/
example :
    (crunInit c10Layout c10cSched (c10cMoves.take 2)).map cmeasure = some 11 ∧
    (crunInit c10Layout c10cSched c10cMoves).map (fun s => (decide (Rests s), cmeasure s)) = some (true, 0) := by
  decide

end TmVerif

#print axioms TmVerif.C10_never_waits_with_unread
#print axioms TmVerif.C10_unread_is_notified
#print axioms TmVerif.C10_fifo
#print axioms TmVerif.C10_closed
#print axioms TmVerif.C10_closed_kbdOnly
#print axioms TmVerif.C10_closed_kbd
#print axioms TmVerif.C10_gone_returns
#print axioms TmVerif.kbdHist_batches
#print axioms TmVerif.tabHist_batches
#print axioms TmVerif.C10_quiesces
#print axioms TmVerif.C10_quiesces_all
