/-
C14, second sentence — "Every layout that loading accepts can be installed in the mapper and driven
with any sequence of key events without panicking" — for the INDEX-FAITHFUL twin of the mapper model.

`Props/C14.lean` proves that loading never panics and that what it accepts is well-formed
(`load_wf`); the structural mapper model (`Model/Mapper.lean`) is a total function, so for it
"driven … without panicking" holds by construction.  Here the statement is proved for
`Model/MapperIdx.lean`, where every `v[i]`, `v.remove(i)`, `len() - 1` and `i as usize` of
`src/key_transforms.rs` is modelled literally and returns `none` when Rust would panic
(`Proofs/MapperIdx.lean`: each index-faithful function equals `some` of its structural counterpart).

What remains outside these theorems: that `Model/MapperIdx.lean` is a faithful reading of the Rust
text (it is written to be compared with it line by line), arithmetic overflow of `i+1` / `len() as isize`
(impossible: a `Vec` has at most `isize::MAX` elements), and allocation failure.
-/
import TmVerif.Proofs.MapperIdx
import TmVerif.Props.C14

namespace TmVerif

/-- One `Mapper::step` call never panics: from EVERY state `s` (reachable or not), for EVERY layout `L`
(well-formed or not) and every event, the index-faithful step returns — and returns what the structural
model returns. -/
theorem C14_step (L : Layout) (s : State) (e : Event) : stepIdx L s e = some (step L s e) :=
  stepIdx_eq L s e

/-- `Mapper::release_all` never panics, from every state. -/
theorem C14_release_all (L : Layout) (s : State) : releaseAllIdx L s = some (releaseAll L s) :=
  releaseAllIdx_eq L s

/-- Every history of key events and release-all calls, from every state, is processed by the
index-faithful mapper without a panic (no index out of bounds, no out-of-range `remove`, no `usize`
underflow, no negative `isize` used as an index, no loop needing more than `len + 1` tests).
No hypothesis on the layout or on the state is needed: the safety of each index loop is local. -/
theorem C14_steps (L : Layout) (s : State) (ops : List Op) : runIdx L s ops ≠ none := by
  rw [runIdx_eq]; exact fun h => nomatch h

/-- … and the index-faithful run computes exactly the structural run: same final state, same outputs
(`runStruct` is `Sys.run` / `Sys.outs` of `Proofs/Reach.lean`, see `runStruct_state`, `runStruct_outs`). -/
theorem C14_steps_eq (L : Layout) (s : State) (ops : List Op) :
    runIdx L s ops = some (runStruct L s ops) := runIdx_eq L s ops

/-- the same for histories of key events only (`run` of the structural model) -/
theorem C14_events (L : Layout) (s : State) (es : List Event) : runEvIdx L s es = some (run L s es) :=
  runEvIdx_eq L s es

/-- `Mapper::for_layout` (index-faithful: the `from[i] == from[j]` / `to[i] == to[j]` duplicate loops and
`final_key`'s `trigger[trigger.len() - 1]`) returns exactly on the well-formed layouts: it panics iff some
mapping has an empty trigger, a key twice in its trigger, or a key twice in its output.  The duplicate
loops themselves never index out of bounds (`hasDupIdx_eq`). -/
theorem C14_install (L : Layout) : forLayoutIdx L ≠ none ↔ Layout.wf L = true := by
  rw [forLayoutIdx_eq, forLayout]
  cases Layout.wf L <;> simp

/-- the index-faithful constructor agrees with the structural one -/
theorem C14_install_eq (L : Layout) : forLayoutIdx L = forLayout L := forLayoutIdx_eq L

/-- the hash map built by the index-faithful `make_hashed_layout` has the groups the model's
`newly_press` looks up -/
theorem C14_hashed {L : Layout} {H : List (Key × Mapping)} (h : makeHashedLayoutIdx L = some H) (k : Key) :
    lookupIdx H k = group L k := makeHashedLayoutIdx_lookup h k

/-- C14 as one statement, with the index-faithful mapper: loading never panics; every layout it accepts
installs (`for_layout` does not panic and gives the initial state) and can then be driven with any
sequence of key events and release-all calls without panicking. -/
theorem C14_idx (j : Json) :
    load j ≠ Outcome.panic ∧
    ∀ L, load j = Outcome.ok L →
      forLayoutIdx L = some State.init ∧ ∀ ops : List Op, runIdx L State.init ops ≠ none := by
  refine ⟨C14_load j, fun L h => ⟨?_, fun ops => C14_steps L State.init ops⟩⟩
  rw [forLayoutIdx_eq]
  simp [forLayout, load_wf h]

/-! ## non-vacuity: the index-faithful functions DO return `none` when misused -/

/-- a state with one active mapping `[30] → [48]` whose output is held -/
def idxDemo : State := ⟨[30], [⟨[30], [48], Repeat.normal, []⟩], [], [48], [], none, none⟩

/-- `remove_mapping` with the right index works … -/
example : removeMappingIdx idxDemo 0 30 = some (⟨[30], [], [], [], [], none, none⟩, [Event.released 48]) := by
  decide
/-- … with `i = len` it panics (`active_mappings.remove(i)` out of range) -/
example : removeMappingIdx idxDemo 1 30 = none := by decide
example : removeMappingIdx State.init 0 5 = none := by decide

/-- the descending loop of `remove_mapping` started one index too high: `mapped_output_keys[len]` -/
example : removeLoopIdx [30] idxDemo.active 0 30 2 [48] [] [] = none := by decide

/-- the `while i >= 0` loop started at `len` instead of `len - 1`: `active_mappings[len]` -/
example : whileIdx 30 3 1 idxDemo [] = none := by decide
/-- started correctly it returns -/
example : whileIdx 30 2 0 idxDemo [] = some (⟨[30], [], [], [], [], none, none⟩, [Event.released 48]) := by
  decide
/-- `dropFailingIdx` gives exactly `len + 1` loop tests of fuel; with one less the twin reports `none` -/
example : whileIdx 30 1 0 idxDemo [] = none := by decide

/-- a negative `isize` used as an index -/
example : isizeToUsize (-1) = none := by decide

/-- the pass-through scan started one index too high: `pass_through_keys[len]` -/
example : passScanIdx 7 3 [7, 8] = none := by decide
example : passScanIdx 7 2 [7, 8, 7] = some ([7, 8, 7].eraseIdx 0, [Event.released 7]) := by decide

/-- `final_key` of an empty trigger: `trigger.len() - 1` underflows -/
example : finalKeyIdx [] = none := by decide
example : vecRemove [1, 2, 3] 3 = none := by decide

/-- `for_layout` panics on an empty trigger (via `final_key`) and on duplicate keys (explicit `panic!`) -/
example : forLayoutIdx [⟨[], [48], Repeat.normal, []⟩] = none := by decide
example : forLayoutIdx [⟨[30, 31, 30], [48], Repeat.normal, []⟩] = none := by decide
example : forLayoutIdx [⟨[30], [48, 48], Repeat.normal, []⟩] = none := by decide
example : forLayoutIdx [⟨[30, 31], [48], Repeat.normal, []⟩] = some State.init := by decide

/-- the duplicate loop distinguishes "found a duplicate" from "index out of bounds" -/
example : hasDupIdx [1, 2, 1] = some true ∧ hasDupIdx [1, 2, 3] = some false ∧
    dupInnerIdx [1, 2, 3] 0 1 3 = none := by decide

/-- a concrete run of the index-faithful mapper: `A↓ A↑` through `[A] → [B]` -/
example : runIdx [⟨[30], [48], Repeat.normal, []⟩] State.init [Op.ev (Event.pressed 30), Op.ev (Event.released 30), Op.relAll]
    = some (State.init, [[Event.pressed 48], [Event.released 48], []]) := by decide

end TmVerif
