/-
C01 — No stuck keys: nothing held on the input means nothing held on the output.

"Whenever every key that was pressed on the physical keyboard has been released again, every key
that was pressed on the virtual keyboard has been released too.  This holds after any sequence of
key events, including sequences that contain duplicate presses or releases of keys that were never
pressed."

Quantifier: every layout, every history (ill-formed events and release-all calls included),
unbounded length, any number of keys held at once (stronger than "at most N").
-/
import TmVerif.Proofs.Fired

namespace TmVerif

/-- at every reachable state: if no key is physically held, no key is held on the virtual keyboard -/
theorem C01 (L : Layout) (x : Sys) (hx : Reachable L x) (hP : x.P = []) : x.V = [] := by
  have h := hx.sinv
  have hinp : x.s.inp = [] := by
    apply List.eq_nil_iff_forall_not_mem.mpr
    intro k hk; have := h.inv.inpP k hk; rw [hP] at this; simp at this
  have hr := h.inv.rest hinp
  apply List.eq_nil_iff_forall_not_mem.mpr
  intro k hk
  have := (h.vheld k).mp hk
  simp [held, hr.1, hr.2.2] at this

/-- the same statement in history form -/
theorem C01_history (L : Layout) (ops : List Op) (hP : (Sys.run L Sys.init ops).P = []) :
    (Sys.run L Sys.init ops).V = [] :=
  C01 L _ ⟨ops, rfl⟩ hP

/-- monitor form (what the driver evaluates on the implementation's transitions) -/
theorem C01_monitor (L : Layout) (x : Sys) (hx : Reachable L x) (e : Event) :
    monC01 (x.obs L e) = true := by
  have hn := hx.next (Op.ev e)
  simp only [monC01, Bool.or_eq_true, Bool.not_eq_eq_eq_not, Bool.not_true]
  by_cases hP : (x.obs L e).P' = []
  · right
    have := C01 L _ hn hP
    simp only [Sys.next] at this
    simp [Obs.V', Sys.obs, this]
  · left
    simpa using hP

/-! Non-vacuity: on the built-in caps-for-movement fragment, a history with a chord, an ill-formed
release and a duplicate press ends with nothing held on either side. -/
example :
    let L : Layout := [⟨[58], [], Repeat.normal, []⟩, ⟨[58, 49], [29, 105], Repeat.normal, []⟩]
    let ops := [Op.ev (Event.pressed 58), Op.ev (Event.pressed 49), Op.ev (Event.released 30),
                Op.ev (Event.pressed 49), Op.ev (Event.released 58), Op.ev (Event.released 49)]
    (Sys.run L Sys.init ops).P = [] ∧ (Sys.run L Sys.init ops).V = [] ∧
    Sys.outs L Sys.init ops = [Event.pressed 29, Event.pressed 105, Event.released 105, Event.released 29] := by
  decide

end TmVerif
