/-
C05 — Non-interference: uninvolved keys and mappings are left alone.

"A key that appears nowhere in the layout is pressed on the virtual keyboard exactly when it is
physically pressed and stays down until its physical release (a non-modifier key may be lifted
earlier only by a step that fires a no-repeat mapping); with an empty layout the output stream
equals the input stream.  Releasing a physical key lifts only that key itself and outputs of
mappings that have it in their trigger, and never a key that a mapping remaining in effect outputs.
While a mapping stays in effect, presses and releases of other keys do not lift those of its output
keys that no other mapping also outputs …"

This file: the foreign-key clauses and the empty layout (every layout / history), and the first
release clause (every layout).  The in-effect clauses (layouts without absorbing, as the property
says) are in `Props/C05b.lean`.
-/
import TmVerif.Proofs.Foreign

namespace TmVerif

/-- membership of a foreign key in what is held on the virtual keyboard = membership in pass-through -/
theorem foreign_V_iff {L : Layout} {x : Sys} (hx : Reachable L x) {k : Key} (hf : foreign L k = true) :
    k ∈ x.V ↔ k ∈ x.s.pass := by
  rw [hx.sinv.vheld k, mem_held]
  exact ⟨fun h => h.resolve_right (foreign_not_mapped hx.sinv.inv hf), Or.inl⟩

/-- a foreign key that the mapper does not consider held is passed through: `Pressed(k)` is the last
event of the step and `k` is held afterwards -/
theorem C05_foreign_press (L : Layout) (x : Sys) (hx : Reachable L x) (k : Key) (hf : foreign L k = true)
    (hk : k ∉ x.s.inp) :
    (step L x.s (Event.pressed k)).2.events.getLast? = some (Event.pressed k) ∧
    k ∈ (x.next L (Op.ev (Event.pressed k))).V := by
  have hs := hx.sinv
  have hfo := (foreign_iff L k).mp hf
  have hfm : findMapping L x.s k = none := by
    unfold findMapping
    rw [List.find?_eq_none]
    intro m hm
    simp only [List.mem_reverse, mem_group] at hm
    exact absurd (finalKey_mem hm.2) (hfo m hm.1).1
  have hkp : k ∉ x.s.pass := fun h => hk (hs.inv.i.passInp k h)
  have hno : ∀ m, m ∈ x.s.active → k ∉ m.frm ∧ k ∉ m.to :=
    fun m hm => ⟨(hfo m (hs.inv.actL m hm)).1, (hfo m (hs.inv.actL m hm)).2.1⟩
  have hc : noHit x.s k = true := (noHit_iff x.s k).mpr ⟨hno, hkp⟩
  have p := passThrough_spec (pressPrep x.s k) k (pressPrep_iinv k hs.inv.i) hkp hno
  have hn := (hx.next (Op.ev (Event.pressed k)))
  refine ⟨?_, ?_⟩
  · rw [step_pressed_accepted L x.s k hk, newlyPress_pass hfm hc]; exact p.2.2.2.2.2.2.1
  · rw [foreign_V_iff hn hf]
    simp only [Sys.next, step_pressed_accepted L x.s k hk, newlyPress_pass hfm hc]
    exact p.2.2.2.2.2.2.2

/-- after the (accepted) physical release of a foreign key it is not held on the virtual keyboard -/
theorem C05_foreign_release (L : Layout) (x : Sys) (hx : Reachable L x) (k : Key) (hf : foreign L k = true)
    (hk : k ∈ x.s.inp) : k ∉ (x.next L (Op.ev (Event.released k))).V := by
  have hn := hx.next (Op.ev (Event.released k))
  rw [foreign_V_iff hn hf]
  intro hp
  have h1 := hn.sinv.inv.i.passInp k hp
  simp only [Sys.next, step_released_accepted L x.s k hk] at h1
  have := ((newlyRelease_spec L x.P x.s k hx.sinv.inv).2.2.2 k).mp h1
  exact this.2 rfl

/-- every other step (an event about another key, or an ignored event) never presses the foreign key
and leaves it as it is — except that a non-modifier foreign key is lifted by a step that fires a
no-repeat mapping -/
theorem C05_foreign_other (L : Layout) (x : Sys) (hx : Reachable L x) (k : Key) (hf : foreign L k = true)
    (e : Event) (hother : e.key ≠ k ∨ (x.obs L e).accepted = false) :
    Event.pressed k ∉ (step L x.s e).2.events ∧
    ((k ∈ (x.next L (Op.ev e)).V ↔ k ∈ x.V) ∨
     (k ∈ x.V ∧ k ∉ (x.next L (Op.ev e)).V ∧ isActionKey k = true ∧
      ∃ k0 m, e = Event.pressed k0 ∧ findMapping L x.s k0 = some m ∧ m.rep.isNormal = false)) := by
  have hs := hx.sinv
  have hfo := (foreign_iff L k).mp hf
  have hn := hx.next (Op.ev e)
  have hkm := foreign_not_mapped hs.inv hf
  have hka := foreign_not_absorbed hx.absL hf
  rw [foreign_V_iff hn hf, foreign_V_iff hx hf]
  simp only [Sys.next]
  cases e with
  | pressed k0 =>
    by_cases hk0 : k0 ∈ x.s.inp
    · rw [step_pressed_ignored L x.s k0 hk0]; exact ⟨by simp, Or.inl Iff.rfl⟩
    · have hne : k ≠ k0 := by
        rcases hother with h | h
        · exact fun e => h (by simp [Event.key, e])
        · simp [Obs.accepted, Sys.obs, hk0] at h
      rw [step_pressed_accepted L x.s k0 hk0]
      have np := newlyPress_spec L x.P x.s k0 hs.inv hk0
      have h0 := pressPrep_iinv k0 hs.inv.i
      have hka0 : k ∉ (pressPrep x.s k0).absorbed := by
        intro hh; simp [pressPrep] at hh; exact hka hh.1
      cases hfm : findMapping L x.s k0 with
      | some m =>
        have fm := findMapping_some hfm
        have hmk := hfo m fm.1
        refine ⟨fun hp => hmk.2.1 ((np.2.2.2.1 m hfm).2.2.2.2.2.2.2.1 k hp), ?_⟩
        rw [newlyPress_fire hfm]
        have := addNewMapping_foreign_pass (pressPrep x.s k0) k0 m h0 k hmk.1 hmk.2.1 hkm hka0
        simp only
        rw [this]
        cases hr : m.rep.isNormal with
        | true => left; simp [pressPrep]
        | false =>
          cases hak : isActionKey k with
          | false => left; simp [pressPrep]
          | true =>
            by_cases hkp : k ∈ x.s.pass
            · right; exact ⟨hkp, by simp [pressPrep], rfl, k0, m, rfl, hfm, hr⟩
            · left; simp [pressPrep, hkp]
      | none =>
        refine ⟨fun hp => hne ((np.2.2.2.2 hfm).2.2 k hp), Or.inl ?_⟩
        cases hc : noHit x.s k0 with
        | true =>
          rw [newlyPress_pass hfm hc]
          exact passThrough_foreign_pass (pressPrep x.s k0) k0 k hne h0 hkm hka0
        | false => rw [newlyPress_skip hfm hc]; rfl
  | released k0 =>
    by_cases hk0 : k0 ∈ x.s.inp
    · have hne : k ≠ k0 := by
        rcases hother with h | h
        · exact fun e => h (by simp [Event.key, e])
        · simp [Obs.accepted, Sys.obs, hk0] at h
      rw [step_released_accepted L x.s k0 hk0]
      refine ⟨fun hp => ?_, Or.inl ?_⟩
      · have := (newlyRelease_spec L x.P x.s k0 hs.inv).2.1.allRel _ hp
        simp [Event.isRelease] at this
      · exact (releaseKey_pass x.s k0 k hne hkm hs.inv.i).1
    · rw [step_released_ignored L x.s k0 hk0]; exact ⟨by simp, Or.inl Iff.rfl⟩

/-- induction over reachable states -/
theorem Reachable.induction {L : Layout} {motive : Sys → Prop} (h0 : motive Sys.init)
    (hstep : ∀ y op, Reachable L y → motive y → motive (y.next L op)) (x : Sys) (hx : Reachable L x) :
    motive x := by
  obtain ⟨ops, rfl⟩ := hx
  suffices ∀ y, Reachable L y → motive y → motive (Sys.run L y ops) from this _ (Reachable.init L) h0
  induction ops with
  | nil => exact fun y _ h => h
  | cons op ops ih =>
    intro y hy hm
    simp only [Sys.run, List.foldl_cons]
    exact ih _ (hy.next op) (hstep y op hy hm)

theorem all_foreign_nil (k : Key) : foreign [] k = true := by simp [foreign]

/-- in the empty layout every key the mapper considers held is passed through -/
theorem empty_inp_pass (x : Sys) (hx : Reachable [] x) : ∀ k, k ∈ x.s.inp → k ∈ x.s.pass := by
  refine Reachable.induction (motive := fun x => ∀ k, k ∈ x.s.inp → k ∈ x.s.pass) ?_ ?_ x hx
  · intro k hk; simp [Sys.init, State.init] at hk
  · intro y op hy ih k hk
    have hn := hy.next op
    rw [← foreign_V_iff hn (all_foreign_nil k)]
    cases op with
    | relAll =>
      have := (releaseAll_spec [] y.P y.s hy.sinv.inv).2.2.2.1
      simp only [Sys.next] at hk; rw [this] at hk; simp at hk
    | ev e =>
      have hnofire : ∀ k0, findMapping [] y.s k0 = none := fun k0 => by simp [findMapping, group]
      by_cases hkey : e.key = k ∧ (y.obs [] e).accepted = true
      · obtain ⟨hek, hacc⟩ := hkey
        cases e with
        | pressed k0 =>
          simp only [Event.key] at hek; subst hek
          have hk0 : k0 ∉ y.s.inp := by simpa [Obs.accepted, Sys.obs] using hacc
          exact (C05_foreign_press [] y hy k0 (all_foreign_nil k0) hk0).2
        | released k0 =>
          simp only [Event.key] at hek; subst hek
          have hk0 : k0 ∈ y.s.inp := by simpa [Obs.accepted, Sys.obs] using hacc
          simp only [Sys.next, step_released_accepted [] y.s k0 hk0] at hk
          have := ((newlyRelease_spec [] y.P y.s k0 hy.sinv.inv).2.2.2 k0).mp hk
          exact absurd rfl this.2
      · have hother : e.key ≠ k ∨ (y.obs [] e).accepted = false := by
          by_cases h1 : e.key = k
          · right; cases h2 : (y.obs [] e).accepted with
            | false => rfl
            | true => exact absurd ⟨h1, h2⟩ hkey
          · exact Or.inl h1
        have ho := (C05_foreign_other [] y hy k (all_foreign_nil k) e hother).2
        -- k was already an input key before the step
        have hkold : k ∈ y.s.inp := by
          simp only [Sys.next] at hk
          cases e with
          | pressed k0 =>
            by_cases hk0 : k0 ∈ y.s.inp
            · rw [step_pressed_ignored [] y.s k0 hk0] at hk; exact hk
            · have hne : k ≠ k0 := by
                rcases hother with h | h
                · exact fun e => h (by simp [Event.key, e])
                · simp [Obs.accepted, Sys.obs, hk0] at h
              rw [step_pressed_accepted [] y.s k0 hk0] at hk
              have np := (newlyPress_spec [] y.P y.s k0 hy.sinv.inv hk0).1
              -- inputs after an accepted press are old inputs plus k0
              have hc : noHit y.s k0 = true ∨ noHit y.s k0 = false := by cases noHit y.s k0 <;> simp
              rcases hc with hc | hc
              · rw [newlyPress_pass (hnofire k0) hc] at hk
                simp only [List.mem_append, List.mem_singleton] at hk
                rcases hk with hk | hk
                · have hkp : k0 ∉ y.s.pass := fun h => hk0 (hy.sinv.inv.i.passInp k0 h)
                  exact (passThrough_spec (pressPrep y.s k0) k0 (pressPrep_iinv k0 hy.sinv.inv.i) hkp
                    ((noHit_iff y.s k0).mp hc).1).2.2.2.2.1 k hk
                · exact absurd hk hne
              · rw [newlyPress_skip (hnofire k0) hc] at hk
                simp only [pressPrep, List.mem_append, List.mem_singleton] at hk
                rcases hk with hk | hk
                · exact hk
                · exact absurd hk hne
          | released k0 =>
            by_cases hk0 : k0 ∈ y.s.inp
            · rw [step_released_accepted [] y.s k0 hk0] at hk
              exact (((newlyRelease_spec [] y.P y.s k0 hy.sinv.inv).2.2.2 k).mp hk).1
            · rw [step_released_ignored [] y.s k0 hk0] at hk; exact hk
        have hkV : k ∈ y.V := (foreign_V_iff hy (all_foreign_nil k)).mpr (ih k hkold)
        rcases ho with ho | ⟨_, _, _, k0, m, _, hfm, _⟩
        · exact ho.mpr hkV
        · rw [hnofire k0] at hfm; simp at hfm

/-- with an empty layout the output stream equals the input stream: each accepted event is echoed,
each ignored event yields nothing -/
theorem C05_empty (x : Sys) (hx : Reachable [] x) (e : Event) :
    (step [] x.s e).2.events = if (x.obs [] e).accepted then [e] else [] := by
  have hs := hx.sinv
  have hact : x.s.active = [] := by
    apply List.eq_nil_iff_forall_not_mem.mpr
    intro m hm; have := hs.inv.actL m hm; simp at this
  have habs : x.s.absorbed = [] := by
    apply List.eq_nil_iff_forall_not_mem.mpr
    intro k hk; obtain ⟨m, hm, _⟩ := hx.absL k hk; simp at hm
  cases e with
  | pressed k =>
    by_cases hk : k ∈ x.s.inp
    · simp [step_pressed_ignored [] x.s k hk, Obs.accepted, Sys.obs, hk]
    · have hfm : findMapping [] x.s k = none := by simp [findMapping, group]
      have hkp : k ∉ x.s.pass := fun h => hk (hs.inv.i.passInp k h)
      have hc : noHit x.s k = true := (noHit_iff x.s k).mpr ⟨by simp [hact], hkp⟩
      rw [step_pressed_accepted [] x.s k hk, newlyPress_pass hfm hc]
      have hram : (releaseActionMappings (pressPrep x.s k)).2 = [] := by
        simp [releaseActionMappings, pressPrep, hact, keysToRelease]
      have hrak : (releaseAbsorbedKeys (releaseActionMappings (pressPrep x.s k)).1).2 = [] := by
        have : (releaseActionMappings (pressPrep x.s k)).1.absorbed = [] := by
          rw [(releaseActionMappings_frame _).2.2.1]; simp [pressPrep, habs]
        simp [releaseAbsorbedKeys, this, releaseAbsorbedLoop]
      simp only [passThrough, Obs.accepted, Sys.obs]
      cases isActionKey k <;> simp [hk, hram, hrak]
  | released k =>
    by_cases hk : k ∈ x.s.inp
    · rw [step_released_accepted [] x.s k hk]
      have hkp : k ∈ x.s.pass := empty_inp_pass x hx k hk
      have hdf : dropFailing k x.s x.s.active.reverse [] = (x.s, []) := by
        have : ∀ s : State, s.active = [] → dropFailing k s s.active.reverse [] = (s, []) := by
          intro s hs
          obtain ⟨i, a, p, mp, ab, at_, rt⟩ := s
          simp only at hs; subst hs; rfl
        exact this x.s hact
      have : (newlyRelease x.s k).2.events = (releaseKey x.s k).2 := rfl
      rw [this, releaseKey_eq, hdf]
      simp [releaseTail, hkp, Obs.accepted, Sys.obs, hk]
    · simp [step_released_ignored [] x.s k hk, Obs.accepted, Sys.obs, hk]

theorem releaseTail_released (s : State) (k y : Key) (hy : Event.released y ∈ (releaseTail s k).2) : y = k := by
  by_cases hc : s.pass.contains k = true
  · simp only [releaseTail, hc, if_true, List.mem_singleton, Event.released.injEq] at hy; exact hy
  · simp only [releaseTail, hc] at hy; simp at hy

/-- a key released by the drop loop is an output of one of the dropped mappings -/
theorem dropFailing_released (k : Key) (s : State) (rb after : List Mapping) (h : IInv [] s)
    (hact : s.active = rb.reverse ++ after) (y : Key)
    (hy : Event.released y ∈ (dropFailing k s rb after).2) :
    ∃ m, m ∈ s.active ∧ k ∈ m.frm ∧ y ∈ m.to := by
  induction rb generalizing s after with
  | nil => simp [dropFailing] at hy
  | cons m rb ih =>
    have hact' : s.active = rb.reverse ++ m :: after := by rw [hact]; simp
    simp only [dropFailing] at hy
    split at hy
    · rename_i hf
      simp only [List.mem_append] at hy
      rcases hy with hy | hy
      · -- released by remove_mapping of m: mapped, not used by the others => output of m
        rw [removeMapping_eq] at hy
        simp only [List.mem_map, Event.released.injEq, exists_eq_right, List.mem_filter, List.mem_reverse] at hy
        have hnu : usedBy (rb.reverse ++ after) y = false := by
          have := hy.2; simp only [relP, Bool.and_eq_true, Bool.not_eq_eq_eq_not, Bool.not_true] at this
          exact this.1
        rcases h.mappedAct y hy.1 with h1 | ⟨m', hm', hym'⟩
        · simp at h1
        · rw [hact'] at hm'
          simp only [List.mem_append, List.mem_cons] at hm'
          have hm'eq : m' = m := by
            rcases hm' with h2 | h2 | h2
            · have hu : usedBy (rb.reverse ++ after) y = true := (usedBy_iff _ _).mpr ⟨m', by simp [h2], hym'⟩
              rw [hnu] at hu; simp at hu
            · exact h2
            · have hu : usedBy (rb.reverse ++ after) y = true := (usedBy_iff _ _).mpr ⟨m', by simp [h2], hym'⟩
              rw [hnu] at hu; simp at hu
          subst hm'eq
          exact ⟨m', by rw [hact']; simp, by simpa [failsWhenReleased] using hf, hym'⟩
      · have h1 := removeMapping_spec (m := m) k h hact'
        have ha := removeMapping_active s rb.reverse after k
        obtain ⟨m', hm', hk', hy'⟩ := ih _ after (h1.1.mono (by simp)) ha hy
        exact ⟨m', h1.2.actSub m' hm', hk', hy'⟩
    · exact ih s (m :: after) h hact' hy


/-- releasing a physical key lifts only that key itself and outputs of mappings (in effect before the
release) that have it in their trigger -/
theorem C05_release (L : Layout) (x : Sys) (hx : Reachable L x) (k : Key) (hk : k ∈ x.s.inp) (y : Key)
    (hy : Event.released y ∈ (step L x.s (Event.released k)).2.events) :
    y = k ∨ ∃ m, m ∈ x.s.active ∧ k ∈ m.frm ∧ y ∈ m.to := by
  rw [step_released_accepted L x.s k hk] at hy
  have hs := hx.sinv
  have hev : (newlyRelease x.s k).2.events = (releaseKey x.s k).2 := rfl
  rw [hev, releaseKey_eq] at hy
  simp only [List.mem_append] at hy
  rcases hy with hy | hy
  · right
    exact dropFailing_released k x.s x.s.active.reverse [] hs.inv.i (by simp) y hy
  · left; exact releaseTail_released _ k y hy

/-! Non-vacuity: layout `A → B`; F (33) appears nowhere in it.  While A is held (B down) F is passed through
as the only event of its step, and its release lifts exactly F; the release of A lifts only B, the output of the
mapping that has A in its trigger. -/
example :
    let L : Layout := [⟨[30], [48], Repeat.normal, []⟩]
    let s1 := (run L State.init [Event.pressed 30]).1
    let s2 := (step L s1 (Event.pressed 33)).1
    foreign L 33 = true ∧ (step L s1 (Event.pressed 33)).2.events = [Event.pressed 33] ∧
    (step L s2 (Event.released 33)).2.events = [Event.released 33] ∧
    (step L s2 (Event.released 30)).2.events = [Event.released 48] := by
  decide

end TmVerif
