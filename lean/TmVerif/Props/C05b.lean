/-
C05, in-effect clauses (layouts without absorbing mappings, as the property says):

 * "Releasing a physical key … never [lifts] a key that a mapping remaining in effect outputs."
 * "While a mapping stays in effect, presses and releases of other keys do not lift those of its
   output keys that no other mapping also outputs: the modifiers of a modifier-remapping, and the
   whole output of a normal-repeat mapping without modifiers (the latter until a no-repeat mapping
   fires)."
-/
import TmVerif.Props.C05
import TmVerif.Props.C04
import TmVerif.Proofs.Inert

namespace TmVerif

/-! ### second release clause -/

theorem dropFailing_released_unused (k : Key) (s : State) (rb after : List Mapping) (y : Key)
    (hy : Event.released y ∈ (dropFailing k s rb after).2) :
    ∀ m', m' ∈ (dropFailing k s rb after).1.active → y ∉ m'.to := by
  induction rb generalizing s after with
  | nil => simp [dropFailing] at hy
  | cons m rb ih =>
    simp only [dropFailing] at hy ⊢
    split
    · rename_i hf
      simp only [hf, if_true, List.mem_append] at hy
      rcases hy with hy | hy
      · rw [removeMapping_eq] at hy
        simp only [List.mem_map, Event.released.injEq, exists_eq_right, List.mem_filter, List.mem_reverse] at hy
        have hnu : usedBy (rb.reverse ++ after) y = false := by
          have := hy.2; simp only [relP, Bool.and_eq_true, Bool.not_eq_eq_eq_not, Bool.not_true] at this
          exact this.1
        intro m' hm' hym'
        have hm'' := dropFailing_pass_new.dropFailing_active_sub k (removeMapping s rb.reverse after k).1 rb after m' hm'
        have : usedBy (rb.reverse ++ after) y = true := (usedBy_iff _ _).mpr ⟨m', hm'', hym'⟩
        rw [hnu] at this; simp at this
      · exact ih _ after hy
    · rename_i hf
      simp only [hf] at hy
      exact ih s (m :: after) hy

/-- C05 (release, second clause): in a layout without absorbing, an accepted release never lifts a key
that a mapping remaining in effect outputs -/
theorem C05_release_keeps (L : Layout) (hL : NoAbs L) (x : Sys) (hx : ReachableEv L x) (k : Key) (hk : k ∈ x.s.inp)
    (y : Key) (hy : Event.released y ∈ (step L x.s (Event.released k)).2.events) :
    ∀ m', m' ∈ (step L x.s (Event.released k)).1.active → y ∉ m'.to := by
  rw [step_released_accepted L x.s k hk] at hy ⊢
  have hs := hx.reachable.sinv
  have hc := hx.consumed
  have hev : (newlyRelease x.s k).2.events = (releaseKey x.s k).2 := rfl
  have hst : (newlyRelease x.s k).1 = (releaseKey x.s k).1 := rfl
  rw [hev, releaseKey_eq] at hy
  rw [hst, releaseKey_eq]
  have hdf := dropFailing_spec k x.s x.s.active.reverse [] hs.inv.i (by simp) (by simp)
  have hrt := releaseTail_spec k hdf.1 hdf.2.2.1
  simp only [List.mem_append] at hy
  intro m' hm'
  simp only at hm'
  rw [hrt.2.2.2.1] at hm'
  rcases hy with hy | hy
  · exact dropFailing_released_unused k x.s x.s.active.reverse [] y hy m' hm'
  · have hyk := releaseTail_released _ k y hy
    subst hyk
    -- k itself was passed through (after the drop loop): no remaining mapping outputs it
    have hkp : y ∈ (dropFailing y x.s x.s.active.reverse []).1.pass := by
      by_cases hnp : y ∈ (dropFailing y x.s x.s.active.reverse []).1.pass
      · exact hnp
      · exfalso
        simp [releaseTail, hnp] at hy
    rcases dropFailing_pass_new y x.s x.s.active.reverse [] y hkp with h1 | h1
    · exact fun hto => hc m' (hdf.2.1.actSub m' hm') y (Or.inr hto) h1
    · exact (h1 m' hm').2

/-! ### a mapped key that nothing releases -/

/-- `y` stays a mapped output key and is not released -/
def Keeps (y : Key) (s s' : State) (evs : List Event) : Prop :=
  (y ∈ s.mapped → y ∈ s'.mapped) ∧ Event.released y ∉ evs

theorem Keeps.trans {y : Key} {a b c : State} {e1 e2 : List Event} (h1 : Keeps y a b e1) (h2 : Keeps y b c e2) :
    Keeps y a c (e1 ++ e2) :=
  ⟨fun h => h2.1 (h1.1 h), by
    intro h; rcases List.mem_append.mp h with h | h
    · exact h1.2 h
    · exact h2.2 h⟩

theorem collectKeys_sound (mapped acc ks : List Key) (x : Key) (hx : x ∈ collectKeys mapped acc ks) :
    x ∈ acc ∨ x ∈ ks := by
  induction ks generalizing acc with
  | nil => exact Or.inl hx
  | cons k ks ih =>
    simp only [collectKeys] at hx
    split at hx
    · rcases ih _ hx with h | h
      · simp at h; rcases h with h | h
        · exact Or.inl h
        · exact Or.inr (by simp [h])
      · exact Or.inr (by simp [h])
    · rcases ih _ hx with h | h
      · exact Or.inl h
      · exact Or.inr (by simp [h])

theorem keysToRelease_sound (mapped acc : List Key) (ms : List Mapping) (x : Key)
    (hx : x ∈ keysToRelease mapped acc ms) :
    x ∈ acc ∨ ∃ m, m ∈ ms ∧ isActionMapping m = true ∧ isAnyModifier m.to = true ∧ x ∈ m.to := by
  induction ms generalizing acc with
  | nil => exact Or.inl hx
  | cons m ms ih =>
    simp only [keysToRelease] at hx
    split at hx
    · rename_i hc
      simp only [Bool.and_eq_true, decide_eq_true_eq] at hc
      rcases ih _ hx with h | ⟨m', hm', h'⟩
      · rcases collectKeys_sound _ _ _ _ h with h1 | h1
        · exact Or.inl h1
        · exact Or.inr ⟨m, by simp, hc.1.1, hc.2, by simpa using h1⟩
      · exact Or.inr ⟨m', by simp [hm'], h'⟩
    · rcases ih _ hx with h | ⟨m', hm', h'⟩
      · exact Or.inl h
      · exact Or.inr ⟨m', by simp [hm'], h'⟩

/-- `release_action_mappings` leaves `y` alone unless an active key-producing mapping carrying a modifier outputs it -/
theorem ram_keeps (s : State) (y : Key)
    (h : ∀ m, m ∈ s.active → isActionMapping m = true → isAnyModifier m.to = true → y ∉ m.to) :
    Keeps y s (releaseActionMappings s).1 (releaseActionMappings s).2 := by
  have hn : y ∉ keysToRelease s.mapped [] s.active := by
    intro hx
    rcases keysToRelease_sound _ _ _ _ hx with h1 | ⟨m, hm, ha, hmod, hy⟩
    · simp at h1
    · exact h m hm ha hmod hy
  simp only [Keeps, releaseActionMappings, List.mem_filter, List.mem_map, Event.released.injEq, exists_eq_right]
  exact ⟨fun hm => ⟨hm, by simpa using hn⟩, hn⟩

theorem removeMapping_keeps (s : State) (before after : List Mapping) (rk y : Key)
    (hu : usedBy (before ++ after) y = true) :
    Keeps y s (removeMapping s before after rk).1 (removeMapping s before after rk).2 := by
  rw [removeMapping_eq]
  simp only [Keeps, List.mem_filter, List.mem_map, Event.released.injEq, exists_eq_right, List.mem_reverse]
  exact ⟨fun hm => ⟨hm, hu⟩, fun h => by simp [relP, hu] at h⟩

theorem dropFailing_keeps (k : Key) (s : State) (rb after : List Mapping) (y : Key) (m : Mapping)
    (hm : m ∈ rb.reverse ++ after) (hk : k ∉ m.frm) (hy : y ∈ m.to) :
    Keeps y s (dropFailing k s rb after).1 (dropFailing k s rb after).2 := by
  induction rb generalizing s after with
  | nil => exact ⟨fun h => by simpa [dropFailing] using h, by simp [dropFailing]⟩
  | cons m0 rb ih =>
    simp only [dropFailing]
    split
    · rename_i hf
      have hne : m ≠ m0 := by
        intro e; subst e; simp [failsWhenReleased] at hf; exact hk hf
      have hm' : m ∈ rb.reverse ++ after := by
        simp only [List.reverse_cons, List.append_assoc, List.mem_append, List.mem_reverse, List.mem_cons,
          List.mem_singleton, List.not_mem_nil, or_false] at hm ⊢
        rcases hm with h | h | h
        · exact Or.inl h
        · exact absurd h hne
        · exact Or.inr h
      exact (removeMapping_keeps s rb.reverse after k y ((usedBy_iff _ _).mpr ⟨m, hm', hy⟩)).trans
        (ih (removeMapping s rb.reverse after k).1 after hm')
    · apply ih s (m0 :: after)
      simp only [List.reverse_cons, List.append_assoc, List.mem_append, List.mem_reverse, List.mem_cons,
        List.mem_singleton, List.not_mem_nil, or_false] at hm ⊢
      exact hm

theorem releaseTail_keeps {extra : List Key} (s : State) (k y : Key) (h : IInv extra s) (hy : y ∈ s.mapped) :
    Keeps y s (releaseTail s k).1 (releaseTail s k).2 := by
  by_cases hc : s.pass.contains k = true
  · have hk : k ∈ s.pass := by simpa using hc
    have hne : y ≠ k := fun e => h.disj k hk (e ▸ hy)
    simp only [Keeps, releaseTail, hc, if_true, List.mem_singleton, Event.released.injEq]
    exact ⟨fun hm => hm, hne⟩
  · simp only [Keeps, releaseTail, hc]; exact ⟨fun hm => hm, by simp⟩

theorem afterConsume_keeps {extra : List Key} (s : State) (m : Mapping) (y : Key) (h : IInv extra s) (hy : y ∈ s.mapped) :
    Keeps y s (afterConsume s m) (consume m s.pass).2.2 := by
  simp only [Keeps, afterConsume, consume_eq, List.mem_append, List.mem_map, Event.released.injEq, exists_eq_right,
    List.mem_filter]
  exact ⟨fun hm => Or.inl hm, fun hx => h.disj y hx.1 hy⟩

theorem pressOne_keeps (s : State) (k y : Key) (hne : y ≠ k) : Keeps y s (pressOne s k).1 (pressOne s k).2 := by
  unfold pressOne Keeps
  split
  · split
    · exact ⟨fun h => h, by simp [hne]⟩
    · split
      · exact ⟨fun h => by simp [h], by simp [hne]⟩
      · exact ⟨fun h => by simp [h], by simp⟩
  · split
    · exact ⟨fun h => by simp [h], by simp⟩
    · exact ⟨fun h => h, by simp⟩

theorem pressAll_keeps (s : State) (ks : List Key) (y : Key) (hy : y ∉ ks) :
    Keeps y s (pressAll s ks).1 (pressAll s ks).2 := by
  induction ks generalizing s with
  | nil => exact ⟨fun h => h, by simp [pressAll]⟩
  | cons k ks ih =>
    rw [pressAll_cons]
    exact (pressOne_keeps s k y (fun e => hy (by simp [e]))).trans (ih _ (fun h => hy (by simp [h])))

theorem addPhase4_keeps (s : State) (k : Key) (m : Mapping) (y : Key)
    (h : m.rep.isNormal = true ∨ isActionKey y = false) :
    Keeps y s (addPhase4 s k m).1 (addPhase4 s k m).2.1 := by
  unfold addPhase4 Keeps
  cases hr : m.rep with
  | normal => exact ⟨fun h => h, by simp⟩
  | disabled =>
    have hy : isActionKey y = false := by rcases h with h | h; simp [hr, Repeat.isNormal] at h; exact h
    simp [releaseAllActionKeys, hy]
  | special ks d i =>
    have hy : isActionKey y = false := by rcases h with h | h; simp [hr, Repeat.isNormal] at h; exact h
    simp [releaseAllActionKeys, hy]

/-- C05 (keep): layouts without absorbing.  Let `m` be in effect before and after a step about a key
outside `m`'s trigger, and `y` an output key of `m` that no other mapping of the layout outputs, held on
the virtual keyboard.  If (A) `m` is a modifier-remapping and `y` a modifier, or (B) `m` is a
normal-repeat key-producing mapping without modifiers and the step does not fire a no-repeat mapping,
then `y` is still held after the step and the step does not release it. -/
theorem C05_keep (L : Layout) (hL : NoAbs L) (x : Sys) (hx : ReachableEv L x) (e : Event)
    (m : Mapping) (hm : m ∈ x.s.active) (hm' : m ∈ (step L x.s e).1.active) (hek : e.key ∉ m.frm)
    (y : Key) (hy : y ∈ m.to) (hex : ∀ m2, m2 ∈ L → y ∈ m2.to → m2 = m) (hV : y ∈ x.V)
    (hcase : (isActionMapping m = false ∧ isActionKey y = false) ∨
             (isAnyModifier m.to = false ∧
              ∀ k fm, e = Event.pressed k → findMapping L x.s k = some fm → fm.rep.isNormal = true)) :
    y ∈ (x.next L (Op.ev e)).V ∧ Event.released y ∉ (step L x.s e).2.events := by
  have hs := hx.reachable.sinv
  have hn := hx.nainv hL
  have hc := hx.consumed
  have hnext := (hx.reachable.next (Op.ev e)).sinv
  -- y is a mapped key
  have hym : y ∈ x.s.mapped := by
    rcases (mem_held x.s y).mp ((hs.vheld y).mp hV) with h | h
    · exact absurd h (hc m hm y (Or.inr hy))
    · exact h
  -- no active key-producing mapping carrying a modifier outputs y
  have hram : ∀ s' : State, s'.active = x.s.active →
      ∀ m2, m2 ∈ s'.active → isActionMapping m2 = true → isAnyModifier m2.to = true → y ∉ m2.to := by
    intro s' hs' m2 hm2 ha hmod hy2
    have := hex m2 (hs.inv.actL m2 (hs' ▸ hm2)) hy2
    subst this
    rcases hcase with ⟨h1, _⟩ | ⟨h1, _⟩
    · rw [h1] at ha; simp at ha
    · rw [h1] at hmod; simp at hmod
  suffices hk : Keeps y x.s (step L x.s e).1 (step L x.s e).2.events from
    ⟨(hnext.vheld y).mpr ((mem_held _ y).mpr (Or.inr (hk.1 hym))), hk.2⟩
  cases e with
  | released k =>
    by_cases hk : k ∈ x.s.inp
    · rw [step_released_accepted L x.s k hk] at hm' ⊢
      have hst : (newlyRelease x.s k).1 = (releaseKey x.s k).1 := rfl
      have hev : (newlyRelease x.s k).2.events = (releaseKey x.s k).2 := rfl
      rw [hst, hev, releaseKey_eq]
      have hdf := dropFailing_spec k x.s x.s.active.reverse [] hs.inv.i (by simp) (by simp)
      have k1 := dropFailing_keeps k x.s x.s.active.reverse [] y m (by simpa using hm) (by simpa [Event.key] using hek) hy
      exact k1.trans (releaseTail_keeps _ k y hdf.1 (k1.1 hym))
    · rw [step_released_ignored L x.s k hk]; exact ⟨fun h => h, by simp⟩
  | pressed k =>
    by_cases hk : k ∈ x.s.inp
    · rw [step_pressed_ignored L x.s k hk]; exact ⟨fun h => h, by simp⟩
    · rw [step_pressed_accepted L x.s k hk] at hm' ⊢
      have hc0 : Clean (pressPrep x.s k) := ⟨by simp [pressPrep, hn.clean.abs], hn.clean.trig⟩
      have h0 := pressPrep_iinv k hs.inv.i
      cases hf : findMapping L x.s k with
      | some fm =>
        have fm_ne : fm ≠ m := by
          intro e; subst e
          have hfk := (findMapping_some hf).2.1
          exact hk (hs.inv.i.actInp fm hm k (finalKey_mem hfk))
        have hyfm : y ∉ fm.to := fun h => fm_ne (hex fm (findMapping_some hf).1 h)
        have fin := newlyPress_fire_finish hf
        have hst : (newlyPress L x.s k).1.mapped = (addPhase4 (addPhase3 (addPhase2 (afterConsume (pressPrep x.s k) fm) k fm).1 k fm).1 k fm).1.mapped := by
          rw [fin.1]; rfl
        have hc1 : Clean (afterConsume (pressPrep x.s k) fm) := ⟨hc0.abs, hc0.trig⟩
        have k1 := afterConsume_keeps (pressPrep x.s k) fm y h0 hym
        have k2 : Keeps y (afterConsume (pressPrep x.s k) fm) (addPhase2 (afterConsume (pressPrep x.s k) fm) k fm).1
            (addPhase2 (afterConsume (pressPrep x.s k) fm) k fm).2 := by
          rw [addPhase2_clean k fm hc1 (afterConsume_clear (pressPrep x.s k) fm)]
          -- (fix of D7) whether the block runs depends on `producesActionKey fm`; if it runs, what
          -- `release_action_mappings` collects does not depend on `fm` at all (`hram`)
          cases producesActionKey fm
          · exact ⟨fun h => h, by simp⟩
          · exact ram_keeps _ y (hram _ rfl)
        have k3 : Keeps y (addPhase2 (afterConsume (pressPrep x.s k) fm) k fm).1
            (addPhase3 (addPhase2 (afterConsume (pressPrep x.s k) fm) k fm).1 k fm).1
            (addPhase3 (addPhase2 (afterConsume (pressPrep x.s k) fm) k fm).1 k fm).2 := by
          have hpa := pressAll_keeps (addPhase2 (afterConsume (pressPrep x.s k) fm) k fm).1 fm.to y hyfm
          have hmp : (addPhase3 (addPhase2 (afterConsume (pressPrep x.s k) fm) k fm).1 k fm).1.mapped =
              (pressAll (addPhase2 (afterConsume (pressPrep x.s k) fm) k fm).1 fm.to).1.mapped := by
            unfold addPhase3; split <;> rfl
          exact ⟨fun h => by rw [hmp]; exact hpa.1 h, hpa.2⟩
        have hrepcase : fm.rep.isNormal = true ∨ isActionKey y = false := by
          rcases hcase with ⟨_, h2⟩ | ⟨_, h2⟩
          · exact Or.inr h2
          · exact Or.inl (h2 k fm rfl hf)
        have k4 := addPhase4_keeps (addPhase3 (addPhase2 (afterConsume (pressPrep x.s k) fm) k fm).1 k fm).1 k fm y hrepcase
        have kall := ((k1.trans k2).trans k3).trans k4
        exact ⟨fun h => by rw [hst]; exact kall.1 h, by rw [fin.2.1]; simpa [List.append_assoc] using kall.2⟩
      | none =>
        cases hcn : noHit x.s k with
        | false => rw [newlyPress_skip hf hcn]; exact ⟨fun h => h, by simp⟩
        | true =>
          rw [newlyPress_pass hf hcn]
          cases hak : isActionKey k with
          | false => rw [passThrough_nonaction _ k hak]; exact ⟨fun h => h, by simp⟩
          | true =>
            rw [passThrough_action _ k hak]
            have r1 := ram_keeps (pressPrep x.s k) y (hram _ rfl)
            have hrc := releaseActionMappings_clean hc0
            rw [releaseAbsorbedKeys_clean hrc]
            simp only [List.append_nil]
            exact ⟨fun h => r1.1 h, by
              intro hx; simp only [List.mem_append, List.mem_singleton] at hx
              rcases hx with hx | hx
              · exact r1.2 hx
              · simp at hx⟩

/-! Non-vacuity of `C05_keep` / `C05_release_keeps`: layout `LEFTSHIFT → LEFTCTRL` (a modifier remapping, LEFTCTRL
exclusively its own) and `A → B`.  While LEFTSHIFT is held (LEFTCTRL down), pressing and releasing A leaves LEFTCTRL
down and never releases it; the release of A lifts B only. -/
example :
    let L : Layout := [⟨[42], [29], Repeat.normal, []⟩, ⟨[30], [48], Repeat.normal, []⟩]
    let s1 := (run L State.init [Event.pressed 42]).1
    let s2 := (step L s1 (Event.pressed 30)).1
    noAbsLayout L = true ∧ held s1 = [29] ∧
    (step L s1 (Event.pressed 30)).2.events = [Event.pressed 48] ∧ 29 ∈ held s2 ∧
    (step L s2 (Event.released 30)).2.events = [Event.released 48] ∧ 29 ∈ held (step L s2 (Event.released 30)).1 := by
  decide

end TmVerif
