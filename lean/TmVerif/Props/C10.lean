/-
C10 — Event-loop output is independent of how input events are chunked.

"However the kernel batches a given sequence of keyboard events into readiness notifications and
reads (any grouping, with spurious time-outs or a signal interruption in between), the events
written to the virtual keyboard are exactly the mapper's outputs for that sequence, each non-empty
step written once and in order (timer chords, C11, and tablet mode, C12, aside).  The loop never
goes back to waiting while events it has been notified about are still unread, and it stops without
further writes when the device reports it is gone."

The loop model is OPEN: the script of answers is arbitrary, so every batching, every poll result
(time-outs, interruptions, any device list in any order), every arrival pattern is covered — the
schedule is just the script.
-/
import TmVerif.Proofs.LoopRun

namespace TmVerif

/-- C10 (output): for every well-formed layout and EVERY script of driver answers, as long as no
call has failed, the step / release-all sends completed so far, plus the one being sent, are exactly
the non-empty mapper outputs — one per operation, in order — for the operations the loop performed:
`Op.ev e` for each keyboard event read outside tablet mode, `Op.relAll` for each tablet event read.
Nothing here depends on how the events were grouped into wake-ups. -/
theorem C10_out (L : Layout) (x0 : Machine) (h0 : Machine.init L = some x0) (rs : List Resp)
    (hnb : (runG L x0 Ghost.init rs).1.c ≠ Ctl.bad)
    (hnf : ∀ msg, (runG L x0 Ghost.init rs).1.c ≠ Ctl.done (some msg)) :
    (runG L x0 Ghost.init rs).2.sent ++ (runG L x0 Ghost.init rs).1.c.pendingOut =
      nonEmptyOuts L Sys.init (runG L x0 Ghost.init rs).2.ops ∧
    (runG L x0 Ghost.init rs).1.v.m = (Sys.run L Sys.init (runG L x0 Ghost.init rs).2.ops).s := by
  rcases (LoopInv.init h0).run rs with h | h
  · exact absurd h hnb
  · refine ⟨?_, h.mapper⟩
    rcases h.sends with ⟨msg, hm⟩ | hs
    · exact absurd hm (hnf msg)
    · exact hs

/-- the same in terms of the visible calls, for scripts without failures -/
theorem C10_out_calls (L : Layout) (x0 : Machine) (h0 : Machine.init L = some x0) (rs : List Resp)
    (hne : noErr rs = true) (hnb : (runG L x0 Ghost.init rs).1.c ≠ Ctl.bad)
    (hnf : ∀ msg, (runG L x0 Ghost.init rs).1.c ≠ Ctl.done (some msg)) :
    callsSends (runScript L x0 rs).1 ++ (runScript L x0 rs).2.c.pendingOut =
      nonEmptyOuts L Sys.init (runG L x0 Ghost.init rs).2.ops := by
  have h := (C10_out L x0 h0 rs hnb hnf).1
  rw [sent_eq_callsSends L x0 Ghost.init rs hne hnb, runG_machine] at h
  simpa [Ghost.init] using h

/-- C10 (drain): the loop returns to the top of its loop (the clock read for the timeout, or `poll`
itself) from a device read only when that read answered `Busy` and no notified device remains; and
never from the middle of handling an event. -/
theorem C10_drain (L : Layout) (x : Machine) (r : Resp) (htop : (advance L x r).c.isPollTop = true) :
    match x.c with
    | Ctl.readKbd rest => r = Resp.kbd Next.busy ∧ rest = []
    | Ctl.readTab rest => r = Resp.tab Next.busy ∧ rest = []
    | Ctl.sendStep _ _ _ => False
    | Ctl.stepNow _ _ _ _ => False
    | Ctl.sendRel _ _ => False
    | _ => True := by
  obtain ⟨v, c⟩ := x
  cases c <;> simp only
  · -- readKbd
    rename_i rest
    cases r with
    | kbd n =>
      cases n with
      | busy =>
        cases rest with
        | nil => exact ⟨rfl, rfl⟩
        | cons d rest => rw [adv_kbd_busy] at htop; cases d <;> simp [drain, Ctl.isPollTop] at htop
      | end_ => simp [adv_kbd_end, Ctl.isPollTop] at htop
      | one ev =>
        cases hit : v.inTablet with
        | true => rw [adv_kbd_one_tablet L v hit] at htop; simp [Ctl.isPollTop] at htop
        | false =>
          rw [adv_kbd_one L v hit] at htop
          split at htop
          · generalize (step L v.m ev).2.rep = rr at htop
            cases rr <;> simp [afterStep, Ctl.isPollTop] at htop
          · simp [Ctl.isPollTop] at htop
    | err msg => exact absurd htop (by simp [advance, Ctl.isPollTop])
    | unit => exact absurd htop (by simp [advance, Ctl.isPollTop])
    | time t => exact absurd htop (by simp [advance, Ctl.isPollTop])
    | poll p => exact absurd htop (by simp [advance, Ctl.isPollTop])
    | tab n => exact absurd htop (by simp [advance, Ctl.isPollTop])
  · -- sendStep
    rename_i rest evs rr
    cases r with
    | unit => rw [adv_sendStep] at htop; cases rr <;> simp [afterStep, Ctl.isPollTop] at htop
    | err msg => exact absurd htop (by simp [advance, Ctl.isPollTop])
    | time t => exact absurd htop (by simp [advance, Ctl.isPollTop])
    | poll p => exact absurd htop (by simp [advance, Ctl.isPollTop])
    | tab n => exact absurd htop (by simp [advance, Ctl.isPollTop])
    | kbd n => exact absurd htop (by simp [advance, Ctl.isPollTop])
  · -- stepNow
    cases r <;> exact absurd htop (by simp [advance, Ctl.isPollTop])
  · -- readTab
    rename_i rest
    cases r with
    | tab n =>
      cases n with
      | busy =>
        cases rest with
        | nil => exact ⟨rfl, rfl⟩
        | cons d rest => rw [adv_tab_busy] at htop; cases d <;> simp [drain, Ctl.isPollTop] at htop
      | end_ => simp [adv_tab_end, Ctl.isPollTop] at htop
      | one tev => rw [adv_tab_one] at htop; split at htop <;> simp [Ctl.isPollTop] at htop
    | err msg => exact absurd htop (by simp [advance, Ctl.isPollTop])
    | unit => exact absurd htop (by simp [advance, Ctl.isPollTop])
    | time t => exact absurd htop (by simp [advance, Ctl.isPollTop])
    | poll p => exact absurd htop (by simp [advance, Ctl.isPollTop])
    | kbd n => exact absurd htop (by simp [advance, Ctl.isPollTop])
  · -- sendRel
    cases r with
    | unit => simp [adv_sendRel, Ctl.isPollTop] at htop
    | err msg => exact absurd htop (by simp [advance, Ctl.isPollTop])
    | time t => exact absurd htop (by simp [advance, Ctl.isPollTop])
    | poll p => exact absurd htop (by simp [advance, Ctl.isPollTop])
    | tab n => exact absurd htop (by simp [advance, Ctl.isPollTop])
    | kbd n => exact absurd htop (by simp [advance, Ctl.isPollTop])

/-- C10 (drain, progress): while a notified device still has events, the loop keeps reading it: after
`One(ev)` (and the send / clock read it may cause) the next driver call is `next_keyboard` again;
after `Busy` it moves to the next notified device. -/
theorem C10_reads_on (L : Layout) (v : LoopVars) (rest : List Dev) (d : Dev) :
    advance L ⟨v, Ctl.readKbd (d :: rest)⟩ (Resp.kbd Next.busy) =
      ⟨v, match d with | Dev.keyboard => Ctl.readKbd rest | Dev.tablet => Ctl.readTab rest⟩ := by
  cases d <;> rfl

/-- C10 (end): when the device reports it is gone the loop returns `Ok(())`, and a returned loop
makes no call at all (in particular no write) -/
theorem C10_end (L : Layout) (v : LoopVars) (rest : List Dev) :
    advance L ⟨v, Ctl.readKbd rest⟩ (Resp.kbd Next.end_) = ⟨v, Ctl.done none⟩ ∧
    pending ⟨v, Ctl.done none⟩ = none := ⟨rfl, rfl⟩

/-! Non-vacuity: the same three events delivered as one batch and as three wake-ups with a spurious
time-out and an interruption in between give the same sends. -/
def c10Layout : Layout := [⟨[58], [], Repeat.normal, []⟩, ⟨[58, 36], [105], Repeat.normal, []⟩]

def c10OneBatch : List Resp :=
  [Resp.unit, Resp.poll (PollRes.deviceEvent [Dev.keyboard]),
   Resp.kbd (Next.one (Event.pressed 58)), Resp.kbd (Next.one (Event.pressed 36)), Resp.unit,
   Resp.kbd (Next.one (Event.released 36)), Resp.unit, Resp.kbd Next.busy]

def c10ThreeBatches : List Resp :=
  [Resp.unit, Resp.poll (PollRes.deviceEvent [Dev.keyboard]),
   Resp.kbd (Next.one (Event.pressed 58)), Resp.kbd Next.busy,
   Resp.poll PollRes.timedOut, Resp.poll (PollRes.deviceEvent [Dev.keyboard]),
   Resp.kbd (Next.one (Event.pressed 36)), Resp.unit, Resp.kbd Next.busy,
   Resp.poll PollRes.interrupted, Resp.poll (PollRes.deviceEvent [Dev.keyboard]),
   Resp.kbd (Next.one (Event.released 36)), Resp.unit, Resp.kbd Next.busy]

example :
    (Machine.init c10Layout).map (fun x0 => callsSends (runScript c10Layout x0 c10OneBatch).1) =
      some [[Event.pressed 105], [Event.released 105]] ∧
    (Machine.init c10Layout).map (fun x0 => callsSends (runScript c10Layout x0 c10ThreeBatches).1) =
      some [[Event.pressed 105], [Event.released 105]] := by
  decide

end TmVerif
