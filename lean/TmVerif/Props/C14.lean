/-
C14 — Any layout file is either rejected with a message or runs without crashing.

"For any input given as a layout file, loading returns either an error message or a layout; it never
panics.  Every layout that loading accepts can be installed in the mapper and driven with any
sequence of key events without panicking."

Model: `Model/Json.lean` (a `serde_json::Value`), `Model/Parse.lean` (`parse_layout_from_json`),
`Model/Convert.lean` (`fancy_layout_interpreting::convert`), `Model/Load.lean`
(`load = parse >>= convert`, i.e. `load_layout_from_file` after `serde_json::from_reader`).
In the model every place where the Rust code could panic if its guard were missing (`.unwrap()`,
`v[i]`, `v[a..b]`, `usize` subtraction, running out of fuel in the odometer) yields the explicit
outcome `Outcome.panic`; the theorems say that outcome is never produced.

What is NOT covered by these theorems and is covered by suite `load` instead:
* the text → `Value` stage (`serde_json::from_reader`): a raw byte stream through the real
  `load_layout_from_file` (truncations, invalid UTF-8, BOM, duplicate keys, huge numbers, 10 000 and
  1 000 000 levels of nesting in a child process) must return `Ok`/`Err`;
* that the model is the code: differential testing of model vs implementation under `catch_unwind`;
Index-safety of the index loops of `src/key_transforms.rs` when the mapper is driven is NOT in this file
(the structural mapper model's `step` is a total function, so here "driven … without panicking" holds
by construction): it is `Props/C14Idx.lean` — `C14_steps`, `C14_install`, `C14_idx` about the
index-faithful twin `Model/MapperIdx.lean`.
-/
import TmVerif.Proofs.LoadShape

namespace TmVerif
open Outcome

/-- `parse_layout_from_json` returns `Ok` or `Err` for every JSON value (no hypothesis; not even
that object keys are sorted or distinct). -/
theorem C14_parse (j : Json) : parseLayoutFromJson j ≠ Outcome.panic := parseLayoutFromJson_np j

/-- `convert` returns `Ok` or `Err` for every fancy layout — parse-produced or not. -/
theorem C14_convert (F : Fancy.Layout) : convert F ≠ Outcome.panic := Convert.convert_np F

/-- loading returns an error or a layout; it never panics -/
theorem C14_load (j : Json) : load j ≠ Outcome.panic :=
  bind_ne_panic (C14_parse j) fun F _ => C14_convert F

/-- the same as a disjunction -/
theorem C14_load' (j : Json) : load j = Outcome.error ∨ ∃ L, load j = Outcome.ok L := by
  cases h : load j with
  | ok L => exact Or.inr ⟨L, rfl⟩
  | error => exact Or.inl rfl
  | panic => exact absurd h (C14_load j)

/-- Every layout `convert` accepts is well-formed in the sense `Mapper::for_layout` insists on
(non-empty duplicate-free triggers, duplicate-free outputs).  Hypothesis `aliasFromNonempty`: alias
definitions have at least one trigger key — needed because `convert_alias` copies the alias's keys
into a trigger; the parser guarantees it (`parse_aliasFromNonempty`).  The duplicate-freedom is
exactly the check at the end of `convert`. -/
theorem convert_wf {F : Fancy.Layout} (hF : Fancy.aliasFromNonempty F = true) {L : Layout}
    (h : convert F = Outcome.ok L) : Layout.wf L = true := by
  have key := Convert.convert_all (F := F) (fun m => m.frm ≠ []) (fun _ => True) (fun _ _ h _ => h)
    (by
      intro fm hfm sms hc m hm
      cases fm with
      | alias a =>
        simp only [Convert.convertMapping, Convert.convertAlias] at hc
        have ha : a.frm.keys ≠ [] := by
          have := List.all_eq_true.1 hF _ hfm
          simpa using this
        split at hc
        · simp at hc; subst hc; simp at hm; subst hm; exact ha
        · simp at hc; subst hc; cases hm
      | single s =>
        obtain ⟨c, _, hall⟩ := Convert.convertSingle_shape hc
        obtain ⟨t, _, hone⟩ := hall m hm
        obtain ⟨fm, to, rep, abs, _, _, _, _, rfl⟩ := Convert.convertSingleOne_shape hone
        simp
      | row r =>
        obtain ⟨c, _, hall⟩ := Convert.convertRow_shape hc
        obtain ⟨t, _, ms, hone, hmem⟩ := hall m hm
        obtain ⟨fm, tm, tpl, phys, _, _, _, _, hsh⟩ := Convert.convertRowOne_shape hone
        obtain ⟨j, key, to, rep, abs, _, _, _, _, rfl⟩ := hsh m hmem
        simp
      | repeatOnly s =>
        simp [Convert.convertMapping] at hc; subst hc; cases hm)
    (by intro s _ c _ t _ fm rep _ _; exact ⟨trivial, by simp⟩)
    h
  obtain ⟨hne, hno⟩ := key
  simp only [Layout.wf, List.all_eq_true]
  intro m hm
  have h1 := hne m hm
  have h2 := List.all_eq_true.1 hno m hm
  simp only [Bool.and_eq_true, Bool.not_eq_true', Convert.hasRepeatedKey_eq_false] at h2
  simp [Mapping.wf, h1, h2.1, h2.2]

/-- every layout loading accepts is well-formed -/
theorem load_wf {j : Json} {L : Layout} (h : load j = Outcome.ok L) : Layout.wf L = true := by
  obtain ⟨F, hF, hc⟩ := bind_eq_ok.1 h
  exact convert_wf (parse_aliasFromNonempty hF) hc

/-- A well-formed layout installs in the mapper (`Mapper::for_layout` does not panic; `none` models
its panic).  From then on `step` and `run` are total functions of the model, so every history of
key events is processed.  Index-safety of the Rust index loops is `C14_steps` / `C14_idx`
(`Props/C14Idx.lean`), not this theorem. -/
theorem C14_run {L : Layout} (h : Layout.wf L = true) : forLayout L ≠ none := by
  simp [forLayout, h]

/-- the two sentences of C14 together: loading never panics, and what it accepts installs -/
theorem C14 (j : Json) :
    load j ≠ Outcome.panic ∧ ∀ L, load j = Outcome.ok L → forLayout L = some State.init := by
  refine ⟨C14_load j, fun L h => ?_⟩
  simp [forLayout, load_wf h]

/-! ## the hypotheses are met by a concrete instance -/

/-- a fragment of the built-in easy-symbols layout:
`{"mappings":[{"from":"CAPSLOCK","to":"@symbol"},{"from":"RIGHTALT","to":"@symbol"},
  {"from":["@symbol",{"row":"Q"}],"to":{"letters":" {}% \\*][|~"}}]}` -/
def easySymbolsFragment : Json :=
  Json.obj [(Parse.sMappings, Json.arr [
    Json.obj [(Parse.sFrom, Json.str ['C','A','P','S','L','O','C','K']), (Parse.sTo, Json.str ['@','s','y','m','b','o','l'])],
    Json.obj [(Parse.sFrom, Json.str ['R','I','G','H','T','A','L','T']), (Parse.sTo, Json.str ['@','s','y','m','b','o','l'])],
    Json.obj [(Parse.sFrom, Json.arr [Json.str ['@','s','y','m','b','o','l'], Json.obj [(Parse.sRow, Json.str ['Q'])]]),
              (Parse.sTo, Json.obj [(Parse.sLetters, Json.str [' ','{','}','%',' ','\\','*',']','[','|','~'])])]])]

/-- it loads: CAPSLOCK alone (not a modifier key: the alias definition also becomes a mapping to
nothing) plus 9 mappings for each of CAPSLOCK (58) and RIGHTALT (100) — 19 mappings; e.g. `@symbol`+W
gives Shift+`[` = `{` -/
example : load easySymbolsFragment = Outcome.ok [
    ⟨[58], [], Repeat.normal, []⟩,
    ⟨[58, 17], [42, 26], Repeat.normal, []⟩, ⟨[58, 18], [42, 27], Repeat.normal, []⟩,
    ⟨[58, 19], [42, 6], Repeat.normal, []⟩, ⟨[58, 21], [43], Repeat.normal, []⟩,
    ⟨[58, 22], [42, 9], Repeat.normal, []⟩, ⟨[58, 23], [27], Repeat.normal, []⟩,
    ⟨[58, 24], [26], Repeat.normal, []⟩, ⟨[58, 25], [42, 43], Repeat.normal, []⟩,
    ⟨[58, 26], [42, 41], Repeat.normal, []⟩,
    ⟨[100, 17], [42, 26], Repeat.normal, []⟩, ⟨[100, 18], [42, 27], Repeat.normal, []⟩,
    ⟨[100, 19], [42, 6], Repeat.normal, []⟩, ⟨[100, 21], [43], Repeat.normal, []⟩,
    ⟨[100, 22], [42, 9], Repeat.normal, []⟩, ⟨[100, 23], [27], Repeat.normal, []⟩,
    ⟨[100, 24], [26], Repeat.normal, []⟩, ⟨[100, 25], [42, 43], Repeat.normal, []⟩,
    ⟨[100, 26], [42, 41], Repeat.normal, []⟩] := by decide +kernel

/-- a rejected file: the alias is not defined -/
example : load (Json.obj [(Parse.sMappings, Json.arr [
    Json.obj [(Parse.sFrom, Json.arr [Json.str ['@','x'], Json.str ['A']]), (Parse.sTo, Json.str ['B'])]])])
    = Outcome.error := by decide +kernel

/-- a file `convert` rejects with the duplicate check that `load_wf` rests on: `["A","A"] → "B"` -/
example : load (Json.obj [(Parse.sMappings, Json.arr [
    Json.obj [(Parse.sFrom, Json.arr [Json.str ['A'], Json.str ['A']]), (Parse.sTo, Json.str ['B'])]])])
    = Outcome.error := by decide +kernel

/-- `convert_wf` needs its hypothesis: an alias definition without keys (which the parser cannot
produce) converts to a mapping with an empty trigger -/
example : convert [Fancy.Mapping.alias ⟨⟨[]⟩, ⟨[], ['@','x']⟩⟩] = Outcome.ok [⟨[], [], Repeat.normal, []⟩] := by
  decide +kernel

end TmVerif
