/-
C09 — Custom-repeat requests are issued and cancelled at exactly the right steps.

"A step asks the event loop to start repeating exactly when the mapping it fired has a Special
repeat, and then with exactly that mapping's repeat keys, delay and interval.  Every other key
press or release that the mapper acts on cancels repeating; events it ignores (press of a key it
already considers held, release of a key it does not consider held) leave the repeat state
unchanged."

Quantifier: every layout, every history, every step.
-/
import TmVerif.Props.C02

namespace TmVerif

/-- ignored events: no output, `NoChange`, state untouched — for EVERY state, reachable or not -/
theorem C09_ignored (L : Layout) (s : State) (e : Event)
    (hign : match e with
      | Event.pressed k => k ∈ s.inp
      | Event.released k => k ∉ s.inp) :
    step L s e = (s, ⟨[], RRepeat.noChange⟩) := by
  cases e with
  | pressed k => exact step_pressed_ignored L s k hign
  | released k => exact step_released_ignored L s k hign

/-- accepted release: `Disabled` — for every state -/
theorem C09_release (L : Layout) (s : State) (k : Key) (hk : k ∈ s.inp) :
    (step L s (Event.released k)).2.rep = RRepeat.disabled := by
  rw [step_released_accepted L s k hk]; rfl

/-- accepted press: `Repeating` with exactly the fired mapping's parameters if it is Special, else `Disabled` -/
theorem C09_press (L : Layout) (x : Sys) (hx : Reachable L x) (k : Key) (hk : k ∉ x.s.inp) :
    (step L x.s (Event.pressed k)).2.rep =
      match findMapping L x.s k with
      | some m => repeatOf m
      | none => RRepeat.disabled := by
  rw [step_pressed_accepted L x.s k hk]
  have np := newlyPress_spec L x.P x.s k hx.sinv.inv hk
  cases hf : findMapping L x.s k with
  | some m => exact (np.2.2.2.1 m hf).2.2.2.2.2.2.2.2
  | none => exact (np.2.2.2.2 hf).2.1

theorem C09_monitor (L : Layout) (x : Sys) (hx : Reachable L x) (e : Event) :
    monC09 (x.obs L e) = true := by
  cases e with
  | released k =>
    by_cases hk : k ∈ x.s.inp
    · have := C09_release L x.s k hk
      simp [monC09, Obs.accepted, Sys.obs, hk, this]
    · have := C09_ignored L x.s (Event.released k) hk
      simp [monC09, Obs.accepted, Sys.obs, hk, this]
  | pressed k =>
    by_cases hk : k ∈ x.s.inp
    · have := C09_ignored L x.s (Event.pressed k) hk
      simp [monC09, Obs.accepted, Sys.obs, hk, this]
    · have h1 := C09_press L x hx k hk
      have h2 := fired_eq hx.sinv k hk
      have hacc : (x.obs L (Event.pressed k)).accepted = true := by simp [Obs.accepted, Sys.obs, hk]
      simp only [monC09, hacc, Bool.not_true, Bool.false_eq_true, if_false, h2]
      have hrep : (x.obs L (Event.pressed k)).rep = (step L x.s (Event.pressed k)).2.rep := rfl
      have he : (x.obs L (Event.pressed k)).e = Event.pressed k := rfl
      rw [hrep, h1, he]
      cases hf : findMapping L x.s k with
      | none => simp
      | some m =>
        simp only [repeatOf]
        cases m.rep <;> simp

/-! Non-vacuity: unit-test layout `custom_repeat_test_1`: pressing B requests repeating of [C] after
130 ms every 30 ms; releasing B cancels; a duplicate press of a held key changes nothing. -/
example :
    let L : Layout := [⟨[30], [30], Repeat.disabled, []⟩, ⟨[48], [48], Repeat.special [46] 130 30, []⟩]
    (step L State.init (Event.pressed 48)).2.rep = RRepeat.repeating [46] 130 30 ∧
    (step L (step L State.init (Event.pressed 48)).1 (Event.pressed 48)).2.rep = RRepeat.noChange ∧
    (step L (step L State.init (Event.pressed 48)).1 (Event.released 48)).2.rep = RRepeat.disabled := by
  decide

end TmVerif
