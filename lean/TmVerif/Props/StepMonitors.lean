/-
The step monitors as a whole never alarm on the model.

`stepMonitors` (Monitors.lean) is what the native driver evaluates on every transition of the
IMPLEMENTATION explored by suite `mapper`.  Each clause has its own monitor-form theorem in the property
files; this file puts them together: on every transition of every state of the MODEL reachable by key
events, for EVERY layout, `stepMonitors` returns no tag at all (`stepMonitors_model_all`) — since the fix
of finding D5 this includes the tag of C02 clause (d).  So a tag of any property on an implementation
transition always means that the implementation left the model there (a violation of that property, not
an artefact of the monitor).
-/
import TmVerif.Props.C01
import TmVerif.Props.C02d
import TmVerif.Props.C03
import TmVerif.Props.C04Monitor
import TmVerif.Props.C05Monitor
import TmVerif.Props.C07
import TmVerif.Props.C09
import TmVerif.Props.C19

namespace TmVerif

theorem stepMonitors_model (L : Layout) (x : Sys) (hx : ReachableEv L x) (e : Event) :
    stepMonitors (x.obs L e) =
      (match monC02dTag (x.obs L e) with | some t => [t] | none => []) := by
  have hr := hx.reachable
  unfold stepMonitors
  have h05 := C05_monitor L x hx e
  simp only [monC05, Bool.and_eq_true] at h05
  simp only [C01_monitor L x hr e, C02a_monitor L x hr e, C02b_monitor L x hr e, C02c_monitor L x hr e,
    C03_monitor L x hx e, C04_monitor L x hx e, h05.1.1.1, h05.1.1.2, h05.1.2, h05.2,
    C07_monitor L x hr e, C09_monitor L x hr e, C19_step L x hr e, Bool.and_self, if_true,
    List.nil_append, List.append_nil]
  cases monC02dTag (x.obs L e) <;> rfl

/-- every layout: no tag at all -/
theorem stepMonitors_model_all (L : Layout) (x : Sys) (hx : ReachableEv L x) (e : Event) :
    stepMonitors (x.obs L e) = [] := by
  rw [stepMonitors_model L x hx e, (C02d_monitor L x hx e).2]

/-- layouts without absorbing mappings: no tag at all (kept; a special case of `stepMonitors_model_all`) -/
theorem stepMonitors_model_noAbs (L : Layout) (_hL : NoAbs L) (x : Sys) (hx : ReachableEv L x) (e : Event) :
    stepMonitors (x.obs L e) = [] :=
  stepMonitors_model_all L x hx e

/-- every layout: a tag would be one of clause (d) of C02 (kept; vacuous now — there is no tag) -/
theorem stepMonitors_model_tags (L : Layout) (x : Sys) (hx : ReachableEv L x) (e : Event) (t : String)
    (ht : t ∈ stepMonitors (x.obs L e)) : monC02dTag (x.obs L e) = some t := by
  rw [stepMonitors_model_all L x hx e] at ht
  simp at ht

end TmVerif
