/-
The step monitors as a whole never alarm on the model.

`stepMonitors` (Monitors.lean) is what the native driver evaluates on every transition of the
IMPLEMENTATION explored by suite `mapper`.  Each clause has its own monitor-form theorem in the property
files; this file puts them together: on every transition of every state of the MODEL reachable by key
events, the only tag `stepMonitors` can return is the one of C02 clause (d) (open known finding D5,
absorbing layouts), and for layouts without absorbing mappings it returns nothing at all.  So a tag of
any other property on an implementation transition always means that the implementation left the
model there (a violation of that property, not an artefact of the monitor).
-/
import TmVerif.Props.C01
import TmVerif.Props.C02d
import TmVerif.Props.C03
import TmVerif.Props.C04Monitor
import TmVerif.Props.C05Monitor
import TmVerif.Props.C07
import TmVerif.Props.C09
import TmVerif.Props.C19

namespace TmVerif

theorem stepMonitors_model (L : Layout) (x : Sys) (hx : ReachableEv L x) (e : Event) :
    stepMonitors (x.obs L e) =
      (match monC02dTag (x.obs L e) with | some t => [t] | none => []) := by
  have hr := hx.reachable
  unfold stepMonitors
  have h05 := C05_monitor L x hx e
  simp only [monC05, Bool.and_eq_true] at h05
  simp only [C01_monitor L x hr e, C02a_monitor L x hr e, C02b_monitor L x hr e, C02c_monitor L x hr e,
    C03_monitor L x hx e, C04_monitor L x hx e, h05.1.1.1, h05.1.1.2, h05.1.2, h05.2,
    C07_monitor L x hr e, C09_monitor L x hr e, C19_step L x hr e, Bool.and_self, if_true,
    List.nil_append, List.append_nil]
  cases monC02dTag (x.obs L e) <;> rfl

/-- layouts without absorbing mappings: no tag at all -/
theorem stepMonitors_model_noAbs (L : Layout) (hL : NoAbs L) (x : Sys) (hx : ReachableEv L x) (e : Event) :
    stepMonitors (x.obs L e) = [] := by
  rw [stepMonitors_model L x hx e, (C02d_monitor L hL x hx e).2]

/-- every layout: a tag is one of clause (d) of C02 -/
theorem stepMonitors_model_tags (L : Layout) (x : Sys) (hx : ReachableEv L x) (e : Event) (t : String)
    (ht : t ∈ stepMonitors (x.obs L e)) : monC02dTag (x.obs L e) = some t := by
  rw [stepMonitors_model L x hx e] at ht
  cases h : monC02dTag (x.obs L e) with
  | none => simp [h] at ht
  | some t' => simp [h] at ht; rw [ht]

end TmVerif
