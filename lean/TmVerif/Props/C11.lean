/-
C11 — Timer repeats fire on schedule, stop on any key change, and are transient.

"After a Special-repeat mapping fires, the loop waits for at most delay_ms and then writes the repeat
chord (those of its keys that are not already held, pressed in listed order and released in reverse)
once per interval_ms without drift, for as long as no further key event or tablet-mode change
arrives; no repeat chord is written at any other time.  Each chord leaves the set of keys held on
the virtual keyboard exactly as it was before the chord."

Time is a parameter of the model: `Instant::now()` is a call answered by the environment with an
arbitrary natural number of nanoseconds.  Stated for non-negative delay / interval (for a negative
`i32` the Rust computes `x as u64`, which `asU64` models, but the property does not speak about it).
-/
import TmVerif.Props.C12
import TmVerif.Props.C20

namespace TmVerif

/-- pressing a duplicate-free list of keys none of which is held -/
theorem Emits.presses {V V' : List Key} {ks : List Key} (hnd : ks.Nodup) (hsub : ∀ k, k ∈ ks → k ∉ V)
    (h : ∀ x, x ∈ V' ↔ x ∈ V ∨ x ∈ ks) : Emits V (ks.map Event.pressed) V' := by
  induction ks generalizing V with
  | nil => exact Emits.nil (by simpa using fun x => (h x).symm)
  | cons k ks ih =>
    rw [List.map_cons, ← List.singleton_append]
    have hnd' := List.nodup_cons.mp hnd
    apply Emits.trans (V1 := V ++ [k])
    · exact Emits.press (hsub k (by simp)) (by intro x; simp)
    · apply ih hnd'.2
      · intro x hx
        have : x ≠ k := fun e => hnd'.1 (e ▸ hx)
        simp [hsub x (by simp [hx]), this]
      · intro x; rw [h x]; simp [or_assoc]

/-- C11 (shape): the chord is the repeat keys that are not held on the output, pressed in listed
order, then the same keys released in reverse order -/
theorem C11_shape (s : State) (keys : List Key) :
    chordOf s keys =
      (keys.filter (fun k => !isOutputHeld s k)).map Event.pressed ++
      ((keys.filter (fun k => !isOutputHeld s k)).reverse).map Event.released := by
  simp [chordOf, List.filter_reverse]

theorem isOutputHeld_iff (s : State) (k : Key) : isOutputHeld s k = true ↔ k ∈ held s := by
  simp [isOutputHeld, held]

/-- C11 (transient): whatever the repeat keys are (duplicates, keys that are held), folding the chord
into the set of keys held on the virtual keyboard gives that set back -/
theorem C11_transient (s : State) (keys : List Key) (k : Key) :
    k ∈ foldEvs (held s) (chordOf s keys) ↔ k ∈ held s := by
  rw [C11_shape, foldEvs_append]
  generalize hK : keys.filter (fun k => !isOutputHeld s k) = K
  have hKV : ∀ x, x ∈ K → x ∉ held s := by
    intro x hx; rw [← hK] at hx
    simp only [List.mem_filter, Bool.not_eq_eq_eq_not, Bool.not_true] at hx
    intro hh; have := (isOutputHeld_iff s x).mpr hh; simp [this] at hx
  -- presses add exactly K, releases remove exactly K
  have h1 : ∀ (l : List Key) (V : List Key) (x : Key), x ∈ foldEvs V (l.map Event.pressed) ↔ x ∈ V ∨ x ∈ l := by
    intro l; induction l with
    | nil => intro V x; simp
    | cons a l ih => intro V x; simp only [List.map_cons, foldEvs_cons]; rw [ih]; simp [or_assoc]
  have h2 : ∀ (l : List Key) (V : List Key) (x : Key), x ∈ foldEvs V (l.map Event.released) ↔ x ∈ V ∧ x ∉ l := by
    intro l; induction l with
    | nil => intro V x; simp
    | cons a l ih => intro V x; simp only [List.map_cons, foldEvs_cons]; rw [ih]; simp [and_assoc]
  rw [h2, h1]
  constructor
  · rintro ⟨h3 | h3, h4⟩
    · exact h3
    · exact absurd (by simpa using h3) h4
  · intro h3
    exact ⟨Or.inl h3, by simp only [List.mem_reverse]; exact fun h4 => hKV k h4 h3⟩

/-- C11 (transient, legality): with duplicate-free repeat keys the chord is moreover a legal event
sequence against what is held (no press of a held key, no release of a key that is up) -/
theorem C11_legal (s : State) (keys : List Key) (hnd : keys.Nodup) :
    Emits (held s) (chordOf s keys) (held s) := by
  rw [C11_shape]
  generalize hK : keys.filter (fun k => !isOutputHeld s k) = K
  have hKnd : K.Nodup := by rw [← hK]; exact hnd.filter _
  have hKV : ∀ x, x ∈ K → x ∉ held s := by
    intro x hx; rw [← hK] at hx
    simp only [List.mem_filter, Bool.not_eq_eq_eq_not, Bool.not_true] at hx
    intro hh; have := (isOutputHeld_iff s x).mpr hh; simp [this] at hx
  apply Emits.trans (V1 := held s ++ K)
  · exact Emits.presses hKnd hKV (by intro x; simp)
  · apply Emits.releases (nodup_reverse hKnd)
    · intro k hk; simp at hk; simp [hk]
    · intro x; simp only [List.mem_append, List.mem_reverse]
      constructor
      · intro h3; exact ⟨Or.inl h3, fun h4 => hKV x h4 h3⟩
      · rintro ⟨h3 | h3, h4⟩
        · exact h3
        · exact absurd h3 h4

/-- C11 (only): the loop is about to write a chord ONLY as the reaction to a time-out of `poll` while
a repeat request is pending and tablet mode is off — and then the chord is `chordOf` of the
request's keys -/
theorem C11_only (L : Layout) (x : Machine) (r : Resp) (evs : List Event)
    (h : (advance L x r).c = Ctl.sendChord evs) :
    (∃ t, x.c = Ctl.polling t) ∧ r = Resp.poll PollRes.timedOut ∧ x.v.inTablet = false ∧
    ∃ keys nw iv, x.v.rep = WorkingRepeat.repeating keys nw iv ∧ evs = chordOf x.v.m keys ∧ evs ≠ [] := by
  obtain ⟨v, c⟩ := x
  have top : ∀ v' : LoopVars, (toPollTop v').c ≠ Ctl.sendChord evs := by
    intro v' hc; have := (toPollTop_pendingOut v').2.2.2.1; rw [hc] at this; simp [Ctl.isSend] at this
  have dr : ∀ (v' : LoopVars) (devs : List Dev), (drain v' devs).c ≠ Ctl.sendChord evs := by
    intro v' devs hc; have := (drain_pendingOut v' devs).2.2.2; rw [hc] at this; simp [Ctl.isSend] at this
  have af : ∀ (v' : LoopVars) rest rr, (afterStep v' rest rr).c ≠ Ctl.sendChord evs := by
    intro v' rest rr hc; have := (afterStep_pendingOut v' rest rr).2.2.2.1; rw [hc] at this; simp [Ctl.isSend] at this
  cases r with
  | err msg => cases c <;> simp [advance] at h
  | unit =>
    cases c <;> try (simp [advance] at h; done)
    · exact absurd h (top v)
    · exact absurd h (top v)
    · exact absurd h (top v)
    · rename_i rest e rr; exact absurd h (af v rest rr)
  | time t =>
    cases c <;> try (simp [advance] at h; done)
    cases hrep : v.rep with
    | idle => rw [adv_pollNow_idle L v hrep] at h; simp at h
    | repeating keys nw iv => rw [adv_pollNow L v hrep] at h; simp at h
  | poll pr =>
    cases c <;> try (simp [advance] at h; done)
    rename_i tmo
    cases pr with
    | timedOut =>
      cases hrep : v.rep with
      | idle => rw [adv_timedOut_idle L v hrep] at h; exact absurd h (top v)
      | repeating keys nw iv =>
        cases hit : v.inTablet with
        | true => rw [adv_timedOut_tablet L v hrep hit] at h; exact absurd h (top _)
        | false =>
          rw [adv_timedOut_chord L v hrep hit] at h
          split at h
          · exact absurd h (top _)
          · rename_i hne
            simp only [Ctl.sendChord.injEq] at h
            exact ⟨⟨tmo, rfl⟩, rfl, rfl, keys, nw, iv, rfl, h.symm, by rw [← h]; simpa using hne⟩
    | interrupted =>
      rw [adv_interrupted] at h
      split at h
      · simp at h
      · exact absurd h (top _)
    | deviceEvent devs => rw [adv_deviceEvent] at h; exact absurd h (dr _ devs)
  | kbd n =>
    cases c <;> try (simp [advance] at h; done)
    rename_i rest
    cases n with
    | busy => rw [adv_kbd_busy] at h; exact absurd h (dr v rest)
    | end_ => simp [adv_kbd_end] at h
    | one ev =>
      cases hit : v.inTablet with
      | true => rw [adv_kbd_one_tablet L v hit] at h; simp at h
      | false =>
        rw [adv_kbd_one L v hit] at h
        split at h
        · exact absurd h (af _ rest _)
        · simp at h
  | tab n =>
    cases c <;> try (simp [advance] at h; done)
    rename_i rest
    cases n with
    | busy => rw [adv_tab_busy] at h; exact absurd h (dr v rest)
    | end_ => simp [adv_tab_end] at h
    | one tev => rw [adv_tab_one] at h; split at h <;> simp at h

/-- the timeout the property prescribes: what is left until the deadline (1 ms if it has passed) -/
def remaining (deadline now : Nat) : Nat := if now ≥ deadline then msToNs 1 else deadline - now

/-- C11 (arming): a step that returns `Repeating{keys, delay, interval}` arms the timer with deadline
`t₀ + delay`, where `t₀` is the clock reading taken right after the step's output was written -/
theorem C11_arm (L : Layout) (v : LoopVars) (rest : List Dev) (keys : List Key) (d i : Int) (t0 : Nat) :
    (advance L ⟨v, Ctl.stepNow rest keys d i⟩ (Resp.time t0)).v.rep =
      WorkingRepeat.repeating keys (t0 + msToNs (asU64 d)) i := rfl

/-- C11 (cancel): every accepted key event re-decides the timer from the step's repeat field (C09:
`Disabled` unless the step fired a Special mapping; ignored events say `NoChange`), and every tablet
event stops it -/
theorem C11_cancel (L : Layout) (v : LoopVars) (rest : List Dev) :
    (afterStep v rest RRepeat.disabled).v.rep = WorkingRepeat.idle ∧
    (afterStep v rest RRepeat.noChange).v.rep = v.rep ∧
    (∀ tev, (advance L ⟨v, Ctl.readTab rest⟩ (Resp.tab (Next.one tev))).v.rep = WorkingRepeat.idle) := by
  refine ⟨rfl, rfl, ?_⟩
  intro tev; rw [adv_tab_one]; split <;> rfl

/-- one quiet timer cycle from the top of the loop: clock read, `poll` with the prescribed timeout,
time-out, chord (if not empty) — and the deadline moves on by exactly one interval, independent of
the clock (no drift) -/
theorem C11_cycle (L : Layout) (v : LoopVars) (keys : List Key) (nw : Nat) (iv : Int)
    (hrep : v.rep = WorkingRepeat.repeating keys nw iv) (hit : v.inTablet = false) (now : Nat) :
    let v' : LoopVars := { v with rep := WorkingRepeat.repeating keys (nw + msToNs (asU64 iv)) iv }
    runScript L ⟨v, Ctl.pollNow⟩
        ([Resp.time now, Resp.poll PollRes.timedOut] ++ (if (chordOf v.m keys).isEmpty then [] else [Resp.unit])) =
      ([Call.now, Call.poll (some (remaining nw now))] ++
         (if (chordOf v.m keys).isEmpty then [] else [Call.send SendKind.chord (chordOf v.m keys)]),
       ⟨v', Ctl.pollNow⟩) := by
  have htop : toPollTop { v with rep := WorkingRepeat.repeating keys (nw + msToNs (asU64 iv)) iv } =
      ⟨{ v with rep := WorkingRepeat.repeating keys (nw + msToNs (asU64 iv)) iv }, Ctl.pollNow⟩ := rfl
  by_cases hc : (chordOf v.m keys).isEmpty = true
  · simp only [hc, if_true, List.append_nil, runScript, pending, adv_pollNow L v hrep,
      adv_timedOut_chord L v hrep hit, htop, remaining]
  · simp only [hc, Bool.false_eq_true, if_false, runScript, pending, adv_pollNow L v hrep,
      adv_timedOut_chord L v hrep hit, List.cons_append, List.nil_append, adv_sendChord, htop, remaining]

/-- the script of quiet cycles with clock readings `nows` (`chord` = the chord being repeated) -/
def quietScript (chord : List Event) : List Nat → List Resp
  | [] => []
  | now :: nows =>
    [Resp.time now, Resp.poll PollRes.timedOut] ++ (if chord.isEmpty then [] else [Resp.unit]) ++
      quietScript chord nows

/-- the calls of quiet cycles: the j-th `poll` waits for what is left until `nw + j·interval` -/
def quietCalls (chord : List Event) (iv : Int) : Nat → List Nat → List Call
  | _, [] => []
  | nw, now :: nows =>
    [Call.now, Call.poll (some (remaining nw now))] ++
      (if chord.isEmpty then [] else [Call.send SendKind.chord chord]) ++
      quietCalls chord iv (nw + msToNs (asU64 iv)) nows

/-- C11 (deadline, no drift): as long as only time-outs arrive, the n-th chord is written in reaction
to the time-out of a `poll` whose timeout was `(t₀ + delay + n·interval) − now` (1 ms if already
due), whatever the clock readings `nows` are: the deadlines do not depend on when the loop woke up. -/
theorem C11_deadline (L : Layout) (m : State) (keys : List Key) (iv : Int) (inT : Bool) (rc : Nat)
    (hit : inT = false) (nows : List Nat) (nw : Nat) :
    runScript L ⟨⟨m, WorkingRepeat.repeating keys nw iv, inT, rc⟩, Ctl.pollNow⟩ (quietScript (chordOf m keys) nows) =
      (quietCalls (chordOf m keys) iv nw nows,
       ⟨⟨m, WorkingRepeat.repeating keys (nw + nows.length * msToNs (asU64 iv)) iv, inT, rc⟩, Ctl.pollNow⟩) := by
  induction nows generalizing nw with
  | nil => simp [quietScript, quietCalls, runScript]
  | cons now nows ih =>
    simp only [quietScript, quietCalls]
    rw [runScript_append]
    have cyc := C11_cycle L ⟨m, WorkingRepeat.repeating keys nw iv, inT, rc⟩ keys nw iv rfl hit now
    simp only at cyc
    rw [cyc]
    simp only
    rw [ih (nw + msToNs (asU64 iv))]
    simp only [List.length_cons, Prod.mk.injEq, true_and]
    have : nw + msToNs (asU64 iv) + nows.length * msToNs (asU64 iv) = nw + (nows.length + 1) * msToNs (asU64 iv) := by
      rw [Nat.add_mul]; omega
    rw [this]

/-- C11 (wait at most the delay): with a monotone clock the first timeout after arming is at most the
delay (and at least the 1 ms floor if the deadline has passed) -/
theorem C11_first_wait (t0 d now : Nat) (hmono : t0 ≤ now) :
    remaining (t0 + d) now ≤ max d (msToNs 1) := by
  unfold remaining
  split
  · exact Nat.le_max_right _ _
  · have : t0 + d - now ≤ d := by omega
    exact Nat.le_trans this (Nat.le_max_left _ _)

/-! Non-vacuity: unit-test layout `remapping_loop_repeat_3` (`B → B` with Special [LEFTCTRL, C], 130 ms,
30 ms) with physical LEFTCTRL held (the D2 witness): the chord leaves LEFTCTRL alone. -/
example :
    let L : Layout := [⟨[48], [48], Repeat.special [29, 46] 130 30, []⟩]
    let s := (step L (step L State.init (Event.pressed 29)).1 (Event.pressed 48)).1
    held s = [29] ∧ chordOf s [29, 46] = [Event.pressed 46, Event.released 46] ∧
    legal (held s) (chordOf s [29, 46]) = true := by
  decide

example :
    let L : Layout := [⟨[48], [48], Repeat.special [29, 46] 130 30, []⟩]
    (Machine.init L).map (fun x0 => (runScript L x0
      [Resp.unit, Resp.poll (PollRes.deviceEvent [Dev.keyboard]), Resp.kbd (Next.one (Event.pressed 48)), Resp.unit,
       Resp.time 1000, Resp.kbd Next.busy, Resp.time 5000, Resp.poll PollRes.timedOut, Resp.unit,
       Resp.time 130002000, Resp.poll PollRes.timedOut, Resp.unit]).1) =
    some [Call.registerPoll, Call.poll none, Call.nextKeyboard, Call.send SendKind.step [Event.pressed 48, Event.released 48],
          Call.now, Call.nextKeyboard, Call.now, Call.poll (some 129996000),
          Call.send SendKind.chord [Event.pressed 29, Event.pressed 46, Event.released 46, Event.released 29],
          Call.now, Call.poll (some 29999000),
          Call.send SendKind.chord [Event.pressed 29, Event.pressed 46, Event.released 46, Event.released 29]] := by
  decide

end TmVerif
