/-
C20 — An I/O failure stops the per-device loop at once.

"If any poll, read or write on the keyboard, the tablet switch or the virtual keyboard fails, the
per-device loop returns that error to its caller and performs no further write to the virtual
keyboard.  It never continues with a mapper state that no longer matches what was actually written."

Quantifier: every layout, every script of driver answers (every history, every schedule), a failure
at each individual driver call in turn.
-/
import TmVerif.Proofs.LoopRun

namespace TmVerif

/-- a failure of whatever `Driver` method is pending makes the loop return exactly that error -/
theorem C20_returns (L : Layout) (x : Machine) (hc : x.c.isDriverCall = true) (msg : String) :
    advance L x (Resp.err msg) = ⟨x.v, Ctl.done (some msg)⟩ := by
  obtain ⟨v, c⟩ := x; exact adv_err L v c hc msg

/-- a loop that has returned makes no further call -/
theorem C20_no_further_call (v : LoopVars) (res : Option String) : pending ⟨v, Ctl.done res⟩ = none := rfl

theorem runScript_append (L : Layout) (x : Machine) (a b : List Resp) :
    runScript L x (a ++ b) =
      ((runScript L x a).1 ++ (runScript L (runScript L x a).2 b).1, (runScript L (runScript L x a).2 b).2) := by
  induction a generalizing x with
  | nil => simp [runScript]
  | cons r rs ih =>
    simp only [List.cons_append, runScript]
    cases hp : pending x with
    | none =>
      simp only
      cases b with
      | nil => simp [runScript]
      | cons r2 b2 => simp [runScript, hp]
    | some c => simp only; rw [ih]; simp

/-- script form: whatever happened before (`pre`), if the k-th answer is a failure of the pending
driver call, the calls end with that call, nothing (in particular no send) follows, whatever the
rest of the script says, and the loop's result is that error -/
theorem C20 (L : Layout) (x : Machine) (pre post : List Resp) (msg : String) (c : Call)
    (hp : pending (runScript L x pre).2 = some c)
    (hdrv : (runScript L x pre).2.c.isDriverCall = true) :
    runScript L x (pre ++ Resp.err msg :: post) =
      ((runScript L x pre).1 ++ [c], ⟨(runScript L x pre).2.v, Ctl.done (some msg)⟩) := by
  rw [runScript_append]
  simp only [runScript, hp]
  rw [C20_returns L _ hdrv msg]
  cases post <;> simp [runScript, pending]

/-- "never continues with a mapper state that no longer matches what was written": at every point of
every run, the completed sends are a prefix of the mapper's non-empty outputs for the operations
performed, and they are ALL of them except for one pending send, unless the loop has failed -/
theorem C20_consistent (L : Layout) (x0 : Machine) (h0 : Machine.init L = some x0) (rs : List Resp)
    (hnb : (runG L x0 Ghost.init rs).1.c ≠ Ctl.bad) :
    ∃ t, (runG L x0 Ghost.init rs).2.sent ++ t = nonEmptyOuts L Sys.init (runG L x0 Ghost.init rs).2.ops := by
  rcases (LoopInv.init h0).run rs with h | h
  · exact absurd h hnb
  · exact h.prefix_

/-! Non-vacuity: `A → B`; the send of `Pressed(B)` fails: the loop stops with that error and the rest
of the script (more events!) is never looked at. -/
example :
    let L : Layout := [⟨[30], [48], Repeat.normal, []⟩]
    (Machine.init L).map (fun x0 => runScript L x0
      [Resp.unit, Resp.poll (PollRes.deviceEvent [Dev.keyboard]), Resp.kbd (Next.one (Event.pressed 30)),
       Resp.err "EIO", Resp.kbd (Next.one (Event.released 30)), Resp.unit]) =
    some ([Call.registerPoll, Call.poll none, Call.nextKeyboard, Call.send SendKind.step [Event.pressed 48]],
          ⟨⟨(step L State.init (Event.pressed 30)).1, WorkingRepeat.idle, false, 0⟩, Ctl.done (some "EIO")⟩) := by
  decide

end TmVerif
