/-
C07 — A no-repeat mapping never leaves a repeatable key held.

"After a step that fires a mapping whose repeat mode is Disabled or Special, no non-modifier key is
held on the virtual keyboard, so the consumer's auto-repeat cannot start; each of the mapping's
output keys was nevertheless pressed during that step.  No later release event makes a key held
again."

Quantifier: every layout, every history; every firing step from every reachable state; every
later release (C02c: a release emits releases only).
-/
import TmVerif.Props.C02

namespace TmVerif

/-- the firing step: afterwards no non-modifier key is held; each non-modifier output key got a
press event in this step; each modifier output key is held afterwards -/
theorem C07_fire (L : Layout) (x : Sys) (hx : Reachable L x) (k : Key) (hk : k ∉ x.s.inp)
    (m : Mapping) (hm : findMapping L x.s k = some m) (hrep : m.rep.isNormal = false) :
    (∀ y, y ∈ (x.next L (Op.ev (Event.pressed k))).V → isActionKey y = false) ∧
    (∀ y, y ∈ m.to → isActionKey y = true → Event.pressed y ∈ (step L x.s (Event.pressed k)).2.events) ∧
    (∀ y, y ∈ m.to → isActionKey y = false → y ∈ (x.next L (Op.ev (Event.pressed k))).V) := by
  have hn := (hx.next (Op.ev (Event.pressed k))).sinv
  have np := (newlyPress_spec L x.P x.s k hx.sinv.inv hk).2.2.2.1 m hm
  obtain ⟨_, _, _, n1, n2, n3, _, _, _⟩ := np
  rw [step_pressed_accepted L x.s k hk]
  refine ⟨?_, n2, ?_⟩
  · intro y hy
    have := (hn.vheld y).mp hy
    simp only [Sys.next, step_pressed_accepted L x.s k hk] at this
    exact n1 hrep y this
  · intro y hy hay
    apply (hn.vheld y).mpr
    simp only [Sys.next, step_pressed_accepted L x.s k hk]
    exact n3 y hy hay

/-- monitor form: the observational "fired" coincides with the model's choice (`fired_eq`) -/
theorem C07_monitor (L : Layout) (x : Sys) (hx : Reachable L x) (e : Event) :
    monC07 (x.obs L e) = true := by
  simp only [monC07, Bool.and_eq_true]
  refine ⟨?_, C02c_monitor L x hx e⟩
  cases e with
  | released k => rw [fired_released]
  | pressed k =>
    by_cases hk : k ∈ x.s.inp
    · rw [fired_ignored L x k hk]
    · rw [fired_eq hx.sinv k hk]
      cases hf : findMapping L x.s k with
      | none => rfl
      | some m =>
        simp only
        cases hrep : m.rep.isNormal with
        | true => simp
        | false =>
          have c := C07_fire L x hx k hk m hf hrep
          simp only [Bool.false_eq_true, if_false, Bool.and_eq_true, List.all_eq_true]
          refine ⟨?_, ?_⟩
          · intro y hy
            have := c.1 y (by simpa [Obs.V', Sys.obs, Sys.next] using hy)
            simp [this]
          · intro y hy
            cases hay : isActionKey y with
            | true => simp only [if_true]; simpa [pressedIn, Sys.obs] using c.2.1 y hy hay
            | false =>
              simp only [Bool.false_eq_true, if_false]
              have := c.2.2 y hy hay
              simpa [Obs.V', Sys.obs, Sys.next] using this

/-! Non-vacuity: `A → A` with repeat Disabled while LEFTSHIFT is held (unit test `no_repeat_test_2`):
A is pressed and lifted in the same step, LEFTSHIFT stays. -/
example :
    let L : Layout := [⟨[30], [30], Repeat.disabled, []⟩]
    let x := Sys.run L Sys.init [Op.ev (Event.pressed 42)]
    findMapping L x.s 30 = some ⟨[30], [30], Repeat.disabled, []⟩ ∧
    (step L x.s (Event.pressed 30)).2.events = [Event.pressed 30, Event.released 30] ∧
    (x.next L (Op.ev (Event.pressed 30))).V = [42] := by
  decide

end TmVerif
