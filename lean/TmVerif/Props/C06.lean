/-
C06 — Releasing everything (or a tablet-mode reset) returns the mapper to fresh state.

"After all physical keys have been released, or after the release-all operation used on tablet-mode
changes, nothing is held on the virtual keyboard and the mapper answers every subsequent event
sequence exactly as a newly created mapper for the same layout would.  No memory of earlier chords,
absorbed modifiers or repeat triggers survives."

Quantifier: every layout (absorbing mappings included), every history h1 of key events and
release-all calls ending at rest or with a release-all, every continuation h2.
Method: `Eqv` (Proofs/Inert.lean) is a bisimulation with identical outputs; a state with no input key
is `Eqv` to the initial state whatever its leftover `mapped_absorbed_keys`, `absorbing_trigger`,
`repeating_trigger` are.
-/
import TmVerif.Proofs.Inert

namespace TmVerif

/-- a reachable state in which the mapper considers no key held is equivalent to the initial state -/
theorem rest_eqv_init {L : Layout} {x : Sys} (hx : Reachable L x) (hinp : x.s.inp = []) : Eqv x.s State.init := by
  have hr := hx.sinv.inv.rest hinp
  refine ⟨hinp, hr.2.1, hr.1, hr.2.2, ?_, ?_⟩
  · simp [live, hinp, State.init]
  · intro hl; simp [live, hinp] at hl

/-- C06 (at rest): if no key is physically held, nothing is held on the virtual keyboard and the
responses (events AND repeat field) to every continuation equal those of a fresh mapper -/
theorem C06_rest (L : Layout) (x : Sys) (hx : Reachable L x) (hP : x.P = []) (h2 : List Event) :
    x.V = [] ∧ (run L x.s h2).2 = (run L State.init h2).2 := by
  have hinp : x.s.inp = [] := by
    apply List.eq_nil_iff_forall_not_mem.mpr
    intro k hk; have := hx.sinv.inv.inpP k hk; rw [hP] at this; simp at this
  have hr := hx.sinv.inv.rest hinp
  refine ⟨?_, run_eqv L x.P hx.sinv.inv (rest_eqv_init hx hinp) h2⟩
  apply List.eq_nil_iff_forall_not_mem.mpr
  intro k hk
  have := (hx.sinv.vheld k).mp hk
  simp [held, hr.1, hr.2.2] at this

/-- C06 (release-all): right after `release_all`, whatever is still physically held, nothing is held
on the virtual keyboard and the mapper answers every continuation as a fresh one -/
theorem C06_relAll (L : Layout) (x : Sys) (hx : Reachable L x) (h2 : List Event) :
    (x.next L Op.relAll).V = [] ∧ (run L (x.next L Op.relAll).s h2).2 = (run L State.init h2).2 := by
  have hn := hx.next Op.relAll
  have ra := releaseAll_spec L x.P x.s hx.sinv.inv
  have hinp : (x.next L Op.relAll).s.inp = [] := ra.2.2.2.1
  refine ⟨?_, run_eqv L _ hn.sinv.inv (rest_eqv_init hn hinp) h2⟩
  apply List.eq_nil_iff_forall_not_mem.mpr
  intro k hk
  have := (hn.sinv.vheld k).mp hk
  simp only [Sys.next, held, ra.2.2.2.2.1, ra.2.2.2.2.2.2] at this
  simp at this

/-- history form: h1 any list of operations ending at rest or with a release-all -/
theorem C06 (L : Layout) (h1 : List Op) (h2 : List Event)
    (hend : (Sys.run L Sys.init h1).P = [] ∨ ∃ h1', h1 = h1' ++ [Op.relAll]) :
    (Sys.run L Sys.init h1).V = [] ∧
    (run L (Sys.run L Sys.init h1).s h2).2 = (run L State.init h2).2 := by
  rcases hend with hP | ⟨h1', rfl⟩
  · exact C06_rest L _ ⟨h1, rfl⟩ hP h2
  · have : Sys.run L Sys.init (h1' ++ [Op.relAll]) = (Sys.run L Sys.init h1').next L Op.relAll := by
      simp [Sys.run, List.foldl_append]
    rw [this]
    exact C06_relAll L _ ⟨h1', rfl⟩ h2

/-- the bisimulation itself, for reference: equivalent reachable states answer alike forever -/
theorem C06_bisim (L : Layout) (x : Sys) (hx : Reachable L x) (t : State) (he : Eqv x.s t) (h2 : List Event) :
    (run L x.s h2).2 = (run L t h2).2 :=
  run_eqv L x.P hx.sinv.inv he h2

/-! Non-vacuity: unit-test layout `absorbing_test_1` (`[LEFTSHIFT,A] → [LEFTSHIFT,A]` absorbing LEFTSHIFT):
after LEFTSHIFT↓ A↓ A↑ LEFTSHIFT↑ the mapper is at rest with a leftover absorbed key and trigger, and
answers LEFTSHIFT↓ A↓ exactly as a fresh mapper. -/
example :
    let L : Layout := [⟨[42, 30], [42, 30], Repeat.normal, [42]⟩]
    let x := Sys.run L Sys.init ([Event.pressed 42, Event.pressed 30, Event.released 30, Event.released 42].map Op.ev)
    x.P = [] ∧ x.s.absorbed = [42] ∧ x.s.absTrig = some 30 ∧
    (run L x.s [Event.pressed 42, Event.pressed 30]).2 = (run L State.init [Event.pressed 42, Event.pressed 30]).2 := by
  decide

/-! ### continuations that contain release-all calls (further tablet-mode changes) -/

/-- the response of the mapper to one operation: a `StepResult` for a key event; for `release_all` its
events (the loop sets the repeat timer idle on a tablet-mode change: recorded as `disabled`) -/
def opResp (L : Layout) (s : State) : Op → State × StepResult
  | Op.ev e => step L s e
  | Op.relAll => ((releaseAll L s).1, ⟨(releaseAll L s).2, RRepeat.disabled⟩)

def runOps (L : Layout) : State → List Op → State × List StepResult
  | s, [] => (s, [])
  | s, op :: ops => ((runOps L (opResp L s op).1 ops).1, (opResp L s op).2 :: (runOps L (opResp L s op).1 ops).2)

theorem releaseAllLoop_eqv (L : Layout) (P : List Key) (ks : List Key) {s t : State} (h : Inv L P s) (he : Eqv s t) :
    (releaseAllLoop L s ks).2 = (releaseAllLoop L t ks).2 ∧ Eqv (releaseAllLoop L s ks).1 (releaseAllLoop L t ks).1 := by
  induction ks generalizing s t with
  | nil => exact ⟨rfl, he⟩
  | cons k ks ih =>
    have heq : ∀ u : State, releaseAllLoop L u (k :: ks) =
        ((releaseAllLoop L (step L u (Event.released k)).1 ks).1,
         (step L u (Event.released k)).2.events ++ (releaseAllLoop L (step L u (Event.released k)).1 ks).2) :=
      fun _ => rfl
    rw [heq s, heq t]
    have q := step_eqv L h.i he (Event.released k)
    have hi : Inv L P (step L s (Event.released k)).1 :=
      (step_inv L P s (Event.released k) h).1.monoP
        (by intro x hx; simp only [applyEv, List.mem_filter] at hx; exact hx.1)
    have r := ih hi q.2
    exact ⟨by simp only; rw [q.1, r.1], r.2⟩

theorem opResp_eqv (L : Layout) (P : List Key) {s t : State} (h : Inv L P s) (he : Eqv s t) (op : Op) :
    (opResp L s op).2 = (opResp L t op).2 ∧ Eqv (opResp L s op).1 (opResp L t op).1 := by
  cases op with
  | ev e => exact step_eqv L h.i he e
  | relAll =>
    have r := releaseAllLoop_eqv L P s.inp h he
    simp only [opResp, releaseAll]
    rw [← he.inp]
    exact ⟨by rw [r.1], r.2⟩

theorem runOps_eqv (L : Layout) (x : Sys) (hx : Reachable L x) (t : State) (he : Eqv x.s t) (ops : List Op) :
    (runOps L x.s ops).2 = (runOps L t ops).2 := by
  induction ops generalizing x t with
  | nil => rfl
  | cons op ops ih =>
    simp only [runOps]
    have q := opResp_eqv L x.P hx.sinv.inv he op
    rw [q.1]
    congr 1
    have hn := hx.next op
    have hs : (x.next L op).s = (opResp L x.s op).1 := by cases op <;> rfl
    have := ih (x.next L op) hn (opResp L t op).1 (by rw [hs]; exact q.2)
    rw [hs] at this
    exact this

/-- C06 for continuations with further release-all calls: after rest or a release-all the mapper answers EVERY
sequence of key events and release-all calls exactly as a fresh mapper does -/
theorem C06_ops (L : Layout) (h1 : List Op) (h2 : List Op)
    (hend : (Sys.run L Sys.init h1).P = [] ∨ ∃ h1', h1 = h1' ++ [Op.relAll]) :
    (runOps L (Sys.run L Sys.init h1).s h2).2 = (runOps L State.init h2).2 := by
  have hx : Reachable L (Sys.run L Sys.init h1) := ⟨h1, rfl⟩
  apply runOps_eqv L _ hx
  rcases hend with hP | ⟨h1', rfl⟩
  · have hinp : (Sys.run L Sys.init h1).s.inp = [] := by
      apply List.eq_nil_iff_forall_not_mem.mpr
      intro k hk; have := hx.sinv.inv.inpP k hk; rw [hP] at this; simp at this
    exact rest_eqv_init hx hinp
  · have hr : Sys.run L Sys.init (h1' ++ [Op.relAll]) = (Sys.run L Sys.init h1').next L Op.relAll := by
      simp [Sys.run, List.foldl_append]
    have hx' : Reachable L (Sys.run L Sys.init h1') := ⟨h1', rfl⟩
    have ra := releaseAll_spec L _ _ hx'.sinv.inv
    have hinp : ((Sys.run L Sys.init h1').next L Op.relAll).s.inp = [] := ra.2.2.2.1
    rw [hr]
    exact rest_eqv_init (hx'.next Op.relAll) hinp

end TmVerif
