/-
C02 — Every key held on the output is justified by what is held on the input.

(a) each key held on the virtual keyboard is physically held or is an output key of a mapping all
    of whose trigger keys are physically held;
(b) a key that has a single-key mapping and occurs in no mapping's output never appears on the
    virtual keyboard (and is never pressed there);
(c) a physical key release never causes a virtual key press;
(d) while a mapping is in effect its trigger keys are consumed  — see `C02d` below.

Quantifier: every layout, every history, at every prefix (every reachable state and every step).
-/
import TmVerif.Proofs.Fired

namespace TmVerif

/-- (a) at every reachable state -/
theorem C02a (L : Layout) (x : Sys) (hx : Reachable L x) (k : Key) (hk : k ∈ x.V) :
    k ∈ x.P ∨ ∃ m, m ∈ L ∧ k ∈ m.to ∧ ∀ t, t ∈ m.frm → t ∈ x.P := by
  have h := hx.sinv
  rcases (mem_held x.s k).mp ((h.vheld k).mp hk) with h1 | h1
  · exact Or.inl (h.inv.inpP k (h.inv.i.passInp k h1))
  · rcases h.inv.i.mappedAct k h1 with h2 | ⟨m, hm, hkm⟩
    · simp at h2
    · exact Or.inr ⟨m, h.inv.actL m hm, hkm, fun t ht => h.inv.inpP t (h.inv.i.actInp m hm t ht)⟩

/-- (b) at every reachable state no hidden key is held -/
theorem C02b_held (L : Layout) (x : Sys) (hx : Reachable L x) (k : Key) (hk : k ∈ x.V) :
    hidden L k = false := by
  have h := hx.sinv
  rcases (mem_held x.s k).mp ((h.vheld k).mp hk) with h1 | h1
  · exact h.inv.noHid k h1
  · exact h.inv.mapped_not_hidden k h1

/-- (c) a release (accepted or not) emits releases only -/
theorem C02c (L : Layout) (x : Sys) (hx : Reachable L x) (k : Key) (e : Event)
    (he : e ∈ (step L x.s (Event.released k)).2.events) : e.isRelease = true := by
  by_cases hk : k ∈ x.s.inp
  · rw [step_released_accepted L x.s k hk] at he
    exact (newlyRelease_spec L x.P x.s k hx.sinv.inv).2.1.allRel e he
  · rw [step_released_ignored L x.s k hk] at he
    simp at he

/-- (b) no step ever presses a hidden key -/
theorem C02b_pressed (L : Layout) (x : Sys) (hx : Reachable L x) (e : Event) (k : Key)
    (hk : Event.pressed k ∈ (step L x.s e).2.events) : hidden L k = false := by
  cases e with
  | released r =>
    have := C02c L x hx r _ hk
    simp [Event.isRelease] at this
  | pressed p =>
    by_cases hp : p ∈ x.s.inp
    · rw [step_pressed_ignored L x.s p hp] at hk; simp at hk
    · rw [step_pressed_accepted L x.s p hp] at hk
      exact (newlyPress_spec L x.P x.s p hx.sinv.inv hp).2.2.1 k hk

/-! monitor forms -/

theorem C02a_monitor (L : Layout) (x : Sys) (hx : Reachable L x) (e : Event) :
    monC02a (x.obs L e) = true := by
  have hn := hx.next (Op.ev e)
  simp only [monC02a, List.all_eq_true, Bool.or_eq_true, List.any_eq_true, Bool.and_eq_true]
  intro k hk
  have := C02a L _ hn k hk
  rcases this with h1 | ⟨m, hm, hkm, hsat⟩
  · left; simpa [Obs.P', Sys.obs, Sys.next] using h1
  · right
    refine ⟨m, hm, by simpa using hkm, ?_⟩
    simp only [satisfiedBy, List.all_eq_true]
    intro t ht
    simpa [Obs.P', Sys.obs, Sys.next] using hsat t ht

theorem C02b_monitor (L : Layout) (x : Sys) (hx : Reachable L x) (e : Event) :
    monC02b (x.obs L e) = true := by
  have hn := hx.next (Op.ev e)
  simp only [monC02b, Bool.and_eq_true, List.all_eq_true]
  refine ⟨?_, ?_⟩
  · intro k hk
    have := C02b_held L _ hn k hk
    simp [Sys.obs, this]
  · intro ev hev
    cases ev with
    | released _ => rfl
    | pressed k =>
      have := C02b_pressed L x hx e k hev
      simp [Sys.obs, this]

theorem C02c_monitor (L : Layout) (x : Sys) (hx : Reachable L x) (e : Event) :
    monC02c (x.obs L e) = true := by
  cases e with
  | pressed _ => rfl
  | released k =>
    simp only [monC02c, Sys.obs, List.all_eq_true]
    exact fun ev hev => C02c L x hx k ev hev

/-! Non-vacuity: CAPSLOCK has a single-key mapping to nothing and occurs in no output (hidden); it is
held physically while a chord fires, and never reaches the virtual keyboard. -/
example :
    let L : Layout := [⟨[58], [], Repeat.normal, []⟩, ⟨[58, 36], [105], Repeat.normal, []⟩]
    let ops := [Op.ev (Event.pressed 58), Op.ev (Event.pressed 36)]
    hidden L 58 = true ∧ (Sys.run L Sys.init ops).P = [58, 36] ∧ (Sys.run L Sys.init ops).V = [105] := by
  decide

end TmVerif
