/-
C13 — Row and alias shorthands mean exactly their hand-written expansion.

"A layout written with {row}/{letters} rows and @alias modifiers converts to the same basic mappings
as the layout with every shorthand written out by hand: one mapping per non-space letter and per
combination of alias definitions, with the Shift a US-QWERTY keyboard needs for that character
(right Shift if the trigger contains right Shift), output-side aliases replaced by the keys chosen
on the trigger side, and source order preserved between different source mappings.  Repeat-only
entries set the repeat mode of the mappings with the same trigger set, or add an identity mapping if
there is none.  Equivalent spellings (bare string vs one-element array, row and repeat names in
either case) convert identically."

Parts:
* `C13_chars`, `C13_rows`, `C13_modifier_codes`: the regenerated tables (`CHAR_ACCESS_MAP`,
  `US_KEYBOARD_LAYOUT`, the `KeyCode` numbers the converter names) against an independent oracle
  written here: the US-QWERTY rows as unshifted / shifted strings zipped with the kernel key codes.
* `C13_multiply`: the model of `MultiplyIter` yields exactly the cartesian product in odometer
  order, first index fastest, each tuple once, within the fuel the model gives it.
* `C13_spelling_*`: bare value vs one-element array, and ASCII case of row / repeat names.
* `C13_spec`: `convert F = Expand.expand F` for EVERY fancy layout, where `expand` is the declarative
  expansion of `Model/Expand.lean` (proved in `Proofs/LoadExpand{A,B,C1,C2}.lean`); `C13_handwritten`:
  the layout and its expansion written out by hand convert to the same basic mappings.  The same
  comparison is also run executably by suite `load` (commands `C13`, `C13X`) on every generated program
  against the model AND the implementation.
-/
import TmVerif.Proofs.LoadSaveable2
import TmVerif.Proofs.LoadExpandC2

namespace TmVerif
open TmVerif.Tables Outcome

/-! ## (1) the tables against an independent oracle -/

namespace Qwerty

/-- the four character rows of a US-QWERTY keyboard: unshifted, shifted, kernel key codes -/
def rowGrave : List Char × List Char × List Nat :=
  (['`','1','2','3','4','5','6','7','8','9','0','-','='],
   ['~','!','@','#','$','%','^','&','*','(',')','_','+'],
   [41, 2, 3, 4, 5, 6, 7, 8, 9, 10, 11, 12, 13])      -- GRAVE, K1..K0, MINUS, EQUAL
def rowQ : List Char × List Char × List Nat :=
  (['q','w','e','r','t','y','u','i','o','p','[',']'],
   ['Q','W','E','R','T','Y','U','I','O','P','{','}'],
   [16, 17, 18, 19, 20, 21, 22, 23, 24, 25, 26, 27])   -- Q..P, LEFTBRACE, RIGHTBRACE
def rowA : List Char × List Char × List Nat :=
  (['a','s','d','f','g','h','j','k','l',';','\''],
   ['A','S','D','F','G','H','J','K','L',':','"'],
   [30, 31, 32, 33, 34, 35, 36, 37, 38, 39, 40])       -- A..L, SEMICOLON, APOSTROPHE
def rowZ : List Char × List Char × List Nat :=
  (['z','x','c','v','b','n','m',',','.','/'],
   ['Z','X','C','V','B','N','M','<','>','?'],
   [44, 45, 46, 47, 48, 49, 50, 51, 52, 53])           -- Z..M, COMMA, DOT, SLASH
/-- the backslash key, which is on no letter row -/
def backslash : List Char × List Char × List Nat := (['\\'], ['|'], [43])

/-- (character code, needs Shift, key) for every character of a row description -/
def entriesOf (r : List Char × List Char × List Nat) : List (Nat × Bool × Nat) :=
  (r.1.zip r.2.2).map (fun p => (p.1.toNat, false, p.2)) ++ (r.2.1.zip r.2.2).map (fun p => (p.1.toNat, true, p.2))

/-- the oracle: how a US-QWERTY keyboard produces each printable character -/
def oracle : List (Nat × Bool × Nat) :=
  entriesOf rowGrave ++ entriesOf rowQ ++ entriesOf rowA ++ entriesOf rowZ ++ entriesOf backslash

end Qwerty

theorem charTable_sub_oracle : charTable.all (fun e => Qwerty.oracle.contains e) = true := by decide +kernel
theorem oracle_sub_charTable : Qwerty.oracle.all (fun e => charTable.contains e) = true := by decide +kernel
theorem charTable_chars : charTable.map (·.1) = List.range' 33 94 := by decide +kernel

/-- C13, characters: `CHAR_ACCESS_MAP` has exactly the entries of the oracle — every one of the 94
printable non-space ASCII characters (codes 33..126), each once, with exactly the (Shift, key) a
US-QWERTY keyboard needs; nothing else (in particular no space, no non-ASCII character). -/
theorem C13_chars :
    (∀ e, e ∈ charTable ↔ e ∈ Qwerty.oracle) ∧ charTable.map (·.1) = List.range' 33 94 := by
  refine ⟨fun e => ⟨fun h => ?_, fun h => ?_⟩, charTable_chars⟩
  · simpa using List.all_eq_true.1 charTable_sub_oracle e h
  · simpa using List.all_eq_true.1 oracle_sub_charTable e h

/-- `C13_chars` in terms of the lookup the converter makes: for a printable non-space ASCII
character the table answers what the oracle says, for anything else it has no entry. -/
theorem C13_chars_lookup (c : Char) :
    (Convert.charAccess c = none ↔ ¬ (33 ≤ c.toNat ∧ c.toNat ≤ 126)) ∧
    ∀ sh k, Convert.charAccess c = some (sh, k) → (c.toNat, sh, k) ∈ Qwerty.oracle := by
  have key : ∀ (tbl : List (Nat × Bool × Nat)) (n : Nat),
      (Convert.charAccessIn n tbl = none ↔ n ∉ tbl.map (·.1)) ∧
      ∀ sh k, Convert.charAccessIn n tbl = some (sh, k) → (n, sh, k) ∈ tbl := by
    intro tbl n
    induction tbl with
    | nil => simp [Convert.charAccessIn]
    | cons e rest ih =>
      obtain ⟨ch, sh', k'⟩ := e
      simp only [Convert.charAccessIn]
      by_cases h : ch = n
      · subst h; simp
      · have h' : (ch == n) = false := by simpa using h
        simp only [h', Bool.false_eq_true, if_false, List.map_cons, List.mem_cons]
        refine ⟨by rw [ih.1]; simp [Ne.symm h], fun sh k hk => Or.inr (ih.2 sh k hk)⟩
  obtain ⟨h1, h2⟩ := key charTable c.toNat
  refine ⟨?_, fun sh k h => (C13_chars.1 _).1 (h2 sh k h)⟩
  unfold Convert.charAccess
  rw [h1, charTable_chars, List.mem_range'_1]
  omega

/-- C13, rows: `US_KEYBOARD_LAYOUT` has exactly the five rows named `` ` `` `1` `Q` `A` `Z`, each
with exactly the oracle's keys, left to right; row `1` is row `` ` `` without its first key. -/
theorem C13_rows :
    rowTable = [(['`'.toNat], Qwerty.rowGrave.2.2), (['1'.toNat], Qwerty.rowGrave.2.2.tail),
                (['Q'.toNat], Qwerty.rowQ.2.2), (['A'.toNat], Qwerty.rowA.2.2), (['Z'.toNat], Qwerty.rowZ.2.2)] := by
  decide +kernel

/-- the key numbers the converter and the specification name are the codes of the keys they mean -/
theorem C13_modifier_codes :
    lookupVariant (codesOf ['L','E','F','T','S','H','I','F','T']) = some LEFTSHIFT ∧
    lookupVariant (codesOf ['R','I','G','H','T','S','H','I','F','T']) = some RIGHTSHIFT ∧
    [lookupVariant (codesOf ['L','E','F','T','S','H','I','F','T']),
     lookupVariant (codesOf ['R','I','G','H','T','S','H','I','F','T']),
     lookupVariant (codesOf ['L','E','F','T','A','L','T']), lookupVariant (codesOf ['R','I','G','H','T','A','L','T']),
     lookupVariant (codesOf ['L','E','F','T','C','T','R','L']), lookupVariant (codesOf ['R','I','G','H','T','C','T','R','L']),
     lookupVariant (codesOf ['L','E','F','T','M','E','T','A']), lookupVariant (codesOf ['R','I','G','H','T','M','E','T','A'])]
      = [some 42, some 54, some 56, some 100, some 29, some 97, some 125, some 126] ∧
    (∀ k, isModifierKey k = true ↔ k ∈ [42, 54, 56, 100, 29, 97, 125, 126]) := by
  refine ⟨by decide +kernel, by decide +kernel, by decide +kernel, fun k => by simp [isModifierKey]⟩

/-! ## (2) the odometer -/

/-- C13, combinations: for every list of quantities that are all ≥ 1, collecting `MultiplyIter`
(the fuelled iteration of the exact `next()` body, with the fuel the model gives it) succeeds and
yields `cart qs`, where
* a tuple is in `cart qs` iff it has one index per quantity, each below its quantity,
* `cart qs` is strictly increasing in odometer order with the FIRST index fastest (`colexLt`:
  compare at the last differing position), in particular it lists each tuple once,
* `cart [] = [[]]` (no aliases: one combination), and it has `∏ qs` elements. -/
theorem C13_multiply (qs : List Nat) (h : ∀ q ∈ qs, 1 ≤ q) :
    Convert.multiply qs = Outcome.ok (Convert.cart qs) ∧
    (∀ t, t ∈ Convert.cart qs ↔
      t.length = qs.length ∧ ∀ (i q : Nat), qs[i]? = some q → ∃ n : Nat, t[i]? = some n ∧ n < q) ∧
    (Convert.cart qs).Pairwise Convert.colexLt ∧ (Convert.cart qs).Nodup ∧
    (Convert.cart qs).length = Convert.product qs ∧ Convert.cart [] = [[]] :=
  ⟨Convert.multiply_eq_cart qs fun q hq => by have := h q hq; omega, fun _ => Convert.mem_cart,
    Convert.pairwise_cart qs, Convert.nodup_cart qs, Convert.length_cart qs, rfl⟩

/-- the repository's own test: `multiply [2,2]` is `[[0,0],[1,0],[0,1],[1,1]]` -/
example : Convert.multiply [2, 2] = Outcome.ok [[0, 0], [1, 0], [0, 1], [1, 1]] := by decide
example : Convert.multiply [] = Outcome.ok [[]] := by decide
example : Convert.multiply [3, 1, 2] = Outcome.ok [[0,0,0],[1,0,0],[2,0,0],[0,0,1],[1,0,1],[2,0,1]] := by decide
/-- the hypothesis is needed: with a quantity 0 the Rust code computes `0usize - 1` -/
example : Convert.multiply [2, 0] = Outcome.panic := by decide

/-! ## (3) equivalent spellings -/

open Parse in
/-- `"from": X` and `"from": [X]` parse identically (X a string or a `{"row": …}` object) -/
theorem C13_spelling_from (v : Json) (h : ∀ xs, v ≠ Json.arr xs) : parseFrom (Json.arr [v]) = parseFrom v := by
  cases v with
  | arr xs => exact absurd rfl (h xs)
  | null => rfl
  | bool b => rfl
  | num n => rfl
  | str s => simp [parseFrom, parseFromModifiers, mapM]
  | obj kvs => simp [parseFrom, parseFromModifiers, mapM]

open Parse in
/-- `"to": X` and `"to": [X]` parse identically for single and alias mappings -/
theorem C13_spelling_to (v : Json) (h : ∀ xs, v ≠ Json.arr xs) :
    parseSingleOrAliasTo (Json.arr [v]) = parseSingleOrAliasTo v := by
  cases v with
  | arr xs => exact absurd rfl (h xs)
  | null => rfl
  | bool b => rfl
  | num n => rfl
  | obj kvs => rfl
  | str s =>
    simp only [parseSingleOrAliasTo, parseSingleOrAliasToArray, List.length_singleton, List.getLast?_singleton,
      unwrapO_some, bind_ok, List.dropLast_singleton]
    cases parseSingleOrAliasToTerminal (Json.str s) with
    | ok t => cases t <;> simp [parseToInitial, parseAliasToInitial, mapM]
    | error => rfl
    | panic => rfl

open Parse in
/-- the `keys` of a special repeat of a single mapping: `X` and `[X]` parse identically -/
theorem C13_spelling_keys (v : Json) (h : ∀ xs, v ≠ Json.arr xs) : parseSingleTo (Json.arr [v]) = parseSingleTo v := by
  cases v with
  | arr xs => exact absurd rfl (h xs)
  | null => rfl
  | bool b => rfl
  | num n => rfl
  | obj kvs => rfl
  | str s => simp [parseSingleTo, parseSingleToArray, parseToInitial, mapM]

open Parse in
/-- `"to": {"letters": …}` and `"to": [{"letters": …}]` (also as the `keys` of a special row repeat)
parse identically -/
theorem C13_spelling_row_to (v : Json) (h : ∀ xs, v ≠ Json.arr xs) : parseRowTo (Json.arr [v]) = parseRowTo v := by
  cases v with
  | arr xs => exact absurd rfl (h xs)
  | null => rfl
  | bool b => rfl
  | num n => rfl
  | str s => rfl
  | obj kvs => simp [parseRowTo, parseRowToArray, parseToInitial, mapM]

open Parse in
/-- `"absorbing": "X"` and `"absorbing": ["X"]` parse identically -/
theorem C13_spelling_absorbing (s : List Char) :
    parseAbsorbing (some (Json.arr [Json.str s])) = parseAbsorbing (some (Json.str s)) := by
  simp only [parseAbsorbing, mapM, parseAbsorbingElem]
  cases parseModifier s <;> rfl

namespace Parse

theorem asciiUpper_asciiLower (c : Char) : asciiUpper (asciiLower c) = asciiUpper c := by
  unfold asciiLower
  split
  · rename_i h
    have hlt : c.toNat + 32 < 128 := by omega
    unfold asciiUpper
    rw [toNat_ofNat_ascii _ hlt]
    have h1 : 97 ≤ c.toNat + 32 ∧ c.toNat + 32 ≤ 122 := by omega
    have h2 : ¬ (97 ≤ c.toNat ∧ c.toNat ≤ 122) := by omega
    simp only [h1, h2, and_self, if_true, if_false, Nat.add_sub_cancel]
    exact Char.ofNat_toNat c
  · rfl

theorem asciiLower_asciiLower (c : Char) : asciiLower (asciiLower c) = asciiLower c := by
  by_cases h : 65 ≤ c.toNat ∧ c.toNat ≤ 90
  · have hlt : c.toNat + 32 < 128 := by omega
    have h2 : ¬ (65 ≤ c.toNat + 32 ∧ c.toNat + 32 ≤ 90) := by omega
    have e : asciiLower c = Char.ofNat (c.toNat + 32) := by simp only [asciiLower, h, and_self, if_true]
    rw [e]
    unfold asciiLower
    rw [toNat_ofNat_ascii _ hlt, if_neg h2]
  · have e : asciiLower c = c := by simp only [asciiLower, h, if_false]
    rw [e, e]

theorem upperStr_lowerStr (s : List Char) : upperStr (lowerStr s) = upperStr s := by
  simp [upperStr, lowerStr, asciiUpper_asciiLower]

theorem lowerStr_lowerStr (s : List Char) : lowerStr (lowerStr s) = lowerStr s := by
  simp [lowerStr, asciiLower_asciiLower]

end Parse

open Parse in
/-- row names in any ASCII case: two names that differ only in ASCII case name the same row -/
theorem C13_spelling_row_case (s s' : List Char) (h : lowerStr s = lowerStr s') : parseRow s = parseRow s' := by
  have : upperStr s = upperStr s' := by rw [← upperStr_lowerStr s, h, upperStr_lowerStr]
  simp only [parseRow, this]

open Parse in
/-- "normal" / "disabled" in any ASCII case, for single, repeat-only and row mappings -/
theorem C13_spelling_repeat_case (s s' : List Char) (h : lowerStr s = lowerStr s') :
    parseSingleRepeat (some (Json.str s)) = parseSingleRepeat (some (Json.str s')) ∧
    parseRowRepeat (some (Json.str s)) = parseRowRepeat (some (Json.str s')) := by
  simp only [parseSingleRepeat, parseRowRepeat, h, and_self]

open Parse in
example : parseRow ['q'] = ok Fancy.Row.q ∧ parseRow ['Q'] = ok Fancy.Row.q := by decide
open Parse in
example : parseSingleRepeat (some (Json.str ['D','i','S','A','B','L','E','D'])) = ok Fancy.SingleRepeat.disabled := by
  decide
open Parse in
/-- a one-element array and the bare string: both are the trigger `A` -/
example : parseFrom (Json.arr [Json.str ['A']]) = parseFrom (Json.str ['A']) :=
  C13_spelling_from _ (by intro xs h; cases h)

/-! ## (4) the declarative expansion -/

/-- the full statement of "shorthands mean exactly their hand-written expansion", kept visible -/
def C13_spec_statement : Prop := ∀ F : Fancy.Layout, convert F = Expand.expand F

/-- C13: for EVERY fancy layout (parse-produced or not), the imperative conversion — odometer,
index arithmetic, hash tables, in-place mutation — returns exactly what the declarative expansion of
`Model/Expand.lean` says: per source mapping in source order; per choice of alias definitions, first
slot fastest; per non-space letter; Shift by the table, right Shift if the trigger has right Shift;
output aliases replaced by the trigger-side choice; then the repeat-only entries by trigger SET;
then the duplicate check.  Errors included (an error on one side is an error on the other).
No hypothesis. -/
theorem C13_spec : C13_spec_statement := Convert.convert_eq_expand

/-- the same for the loader as a whole -/
theorem C13_load (j : Json) : load j = Expand.loadSpec j := by
  unfold load Expand.loadSpec
  congr 1
  funext F
  exact C13_spec F

/-- "converts to the same basic mappings as the layout with every shorthand written out by hand":
if the expansion of `F` is the basic layout `L`, then `F` and the layout that spells every mapping
of `L` out as a plain single mapping (`toFancy`: no rows, no aliases, no repeat-only entries) convert
to the same thing, namely `L`.  (`aliasFromNonempty`: alias definitions have a key — guaranteed by
the parser; needed because a mapping with an empty trigger cannot be written by hand.) -/
theorem C13_handwritten {F : Fancy.Layout} (hF : Fancy.aliasFromNonempty F = true) {L : Layout}
    (h : Expand.expand F = Outcome.ok L) :
    convert F = Outcome.ok L ∧ convert (L.map toFancy) = Outcome.ok L := by
  have hc : convert F = Outcome.ok L := by rw [C13_spec F]; exact h
  exact ⟨hc, Convert.convert_toFancy (convert_wf hF hc)⟩

/-- source order: the mappings of the first pass are the expansions of the source mappings,
concatenated in source order (this is the definition of `expand`; stated for the record) -/
theorem C13_source_order (F : Fancy.Layout) {groups : List (List Mapping)}
    {entries : List (List (List Key × Repeat))}
    (hg : Outcome.mapM (Expand.expandMapping F) F = Outcome.ok groups)
    (he : Outcome.mapM (Expand.repeatOnlyEntries F) F = Outcome.ok entries) :
    convert F =
      (let res := entries.flatten.foldl (Expand.applyRepeat groups.flatten.length) groups.flatten
       if res.all (fun m => decide m.frm.Nodup && decide m.to.Nodup) then Outcome.ok res else Outcome.error) := by
  rw [C13_spec F]
  simp only [Expand.expand, hg, he, bind_ok]

/-! ### concrete instances -/

/-- the easy-symbols fragment of `Props/C14.lean`, as a fancy layout -/
def easySymbolsFancy : Fancy.Layout := [
  Fancy.Mapping.alias ⟨⟨[58]⟩, ⟨[], ['@','s','y','m','b','o','l']⟩⟩,      -- CAPSLOCK → @symbol
  Fancy.Mapping.alias ⟨⟨[100]⟩, ⟨[], ['@','s','y','m','b','o','l']⟩⟩,     -- RIGHTALT → @symbol
  Fancy.Mapping.row ⟨⟨[Fancy.Modifier.alias ['@','s','y','m','b','o','l']], Fancy.Row.q⟩,
    ⟨[], [' ','{','}','%',' ','\\','*',']','[','|','~']⟩, Fancy.RowRepeat.normal, []⟩]

example : parseLayoutFromJson easySymbolsFragment = Outcome.ok easySymbolsFancy := by decide +kernel

/-- its expansion: 1 + 2 × 9 = 19 mappings, CAPSLOCK's nine before RIGHTALT's nine -/
example : (match Expand.expand easySymbolsFancy with | Outcome.ok L => L.length | _ => 0) = 19 := by decide +kernel
example : Expand.expand easySymbolsFancy = convert easySymbolsFancy := (C13_spec _).symm

/-- right Shift, a repeat-only entry naming the trigger in another order, and one adding an identity
mapping:
`[RIGHTSHIFT, LEFTCTRL, {row A}] → {letters "aB"}`, `[LEFTCTRL, RIGHTSHIFT, S] repeat Disabled`,
`[LEFTCTRL, F] repeat Disabled` -/
example : Expand.expand [
    Fancy.Mapping.row ⟨⟨[Fancy.Modifier.key 54, Fancy.Modifier.key 29], Fancy.Row.a⟩, ⟨[], ['a','B']⟩,
      Fancy.RowRepeat.normal, []⟩,
    Fancy.Mapping.repeatOnly ⟨⟨[Fancy.Modifier.key 29, Fancy.Modifier.key 54], 31⟩, Fancy.SingleRepeat.disabled⟩,
    Fancy.Mapping.repeatOnly ⟨⟨[Fancy.Modifier.key 29], 33⟩, Fancy.SingleRepeat.disabled⟩] =
  Outcome.ok [⟨[54, 29, 30], [30], Repeat.normal, []⟩,
              ⟨[54, 29, 31], [54, 48], Repeat.disabled, []⟩,
              ⟨[29, 33], [29, 33], Repeat.disabled, []⟩] := by decide +kernel

end TmVerif
