/-
Property C16 — "Only real, non-excluded keyboards are selected, whichever way they are named".

  Whether a device counts as a keyboard depends only on that device's own entry in the kernel's
  device list, not on neighbouring entries, and the answer is the same when devices are discovered
  with --all-keyboards as when they are given with --dev-file --only-if-keyboard.  A device whose
  sysfs path lies under the virtual-input tree (such as totalmapper's own output device) or whose
  name matches an --exclude glob is never selected for remapping, while every other keyboard-like
  device is.

Model: `TmVerif.Model.Listing`, namespace `TmVerif.Listing` (checked against the real code by harness suite `listing`).

  C16_local / C16_local_lines   the answer for an entry depends on that entry only
  C16_agree                     the two textually duplicated extractors agree, for ALL texts
  C16_select_all / C16_select_named / C16_select
                                who is selected, by either way of naming devices
  C16_selected_sound / C16_selected_complete / C16_named_sound
                                the halves that need no uniqueness hypothesis

What an "entry" is: everything from a line starting with `I:` up to the next such line.  The Rust
code resets its working state ONLY on an `I:` line (not on the blank line the kernel prints between
devices), so a block whose `I:` line is missing is part of the previous entry and inherits whatever
fields it does not set itself; the theorems say so by requiring every entry to begin with `I:`.
-/
import TmVerif.Proofs.ListingSelect

namespace TmVerif
open TmVerif.Listing

/-! ## C16_local: the answer for a device depends on its own entry only -/

/-- Locality, text level.  `entries` are arbitrary texts, each of which begins with `I:` (nothing
else is assumed: fields may be missing, repeated, in any order, blank lines anywhere, further `I:`
lines inside).  The device list is the entries joined by newlines.  Then what copy 2 reports for the
whole list is the concatenation of what it reports for each entry alone. -/
theorem C16_local_dev (entries : List (List Char)) (h : ∀ e ∈ entries, startsWith pfxI e = true) :
    extractInputDevices (joinLines entries) = entries.flatMap extractInputDevices := by
  cases hne : entries with
  | nil => simp [joinLines, extractInputDevices_nil]
  | cons e rest =>
    rw [← hne]
    have hne' : entries ≠ [] := by simp [hne]
    have hI : ∀ ls ∈ entries.map splitLines, ∃ l rest', ls = l :: rest' ∧ startsWith pfxI l = true := by
      intro ls hls
      obtain ⟨t, ht, rfl⟩ := List.mem_map.mp hls
      exact splitLines_of_startsWith_I t (h t ht)
    simp only [extractInputDevices, devRun_eq]
    rw [splitLines_joinLines_texts entries hne', List.flatMap_def,
      devStep_loopLike.run_flatten (entries.map splitLines) hI Work.init, List.flatMap_map]
    rfl

/-- The same for copy 1 (`--all-keyboards`). -/
theorem C16_local_kbd (entries : List (List Char)) (h : ∀ e ∈ entries, startsWith pfxI e = true) :
    extractKeyboards (joinLines entries) = entries.flatMap extractKeyboards := by
  cases hne : entries with
  | nil => simp [joinLines, extractKeyboards_nil]
  | cons e rest =>
    rw [← hne]
    have hne' : entries ≠ [] := by simp [hne]
    have hI : ∀ ls ∈ entries.map splitLines, ∃ l rest', ls = l :: rest' ∧ startsWith pfxI l = true := by
      intro ls hls
      obtain ⟨t, ht, rfl⟩ := List.mem_map.mp hls
      exact splitLines_of_startsWith_I t (h t ht)
    simp only [extractKeyboards, kbdRun_eq]
    rw [splitLines_joinLines_texts entries hne', List.flatMap_def,
      kbdStep_loopLike.run_flatten (entries.map splitLines) hI Work.init, List.flatMap_map]
    rfl

theorem C16_local (entries : List (List Char)) (h : ∀ e ∈ entries, startsWith pfxI e = true) :
    extractInputDevices (joinLines entries) = entries.flatMap extractInputDevices ∧
    extractKeyboards (joinLines entries) = entries.flatMap extractKeyboards :=
  ⟨C16_local_dev entries h, C16_local_kbd entries h⟩

/-- Locality, stated on lists of lines: every entry is a list of newline-free lines whose FIRST line
starts with `I:`; the device list is all lines joined by `'\n'`. -/
theorem C16_local_lines (entries : List (List (List Char)))
    (hI : ∀ e ∈ entries, ∃ l ls, e = l :: ls ∧ startsWith pfxI l = true)
    (hnl : ∀ e ∈ entries, ∀ l ∈ e, '\n' ∉ l) :
    extractInputDevices (joinLines entries.flatten)
        = entries.flatMap (fun e => extractInputDevices (joinLines e)) ∧
    extractKeyboards (joinLines entries.flatten)
        = entries.flatMap (fun e => extractKeyboards (joinLines e)) := by
  have hsplit : ∀ e ∈ entries, splitLines (joinLines e) = e := by
    intro e he
    obtain ⟨l, ls, rfl, _⟩ := hI e he
    exact splitLines_joinLines _ (by simp) (hnl _ he)
  cases hne : entries with
  | nil => simp [joinLines, extractInputDevices_nil, extractKeyboards_nil]
  | cons e0 rest =>
    rw [← hne]
    have hflat : entries.flatten ≠ [] := by
      obtain ⟨l, ls, rfl, _⟩ := hI e0 (by simp [hne])
      simp [hne]
    have hall : splitLines (joinLines entries.flatten) = entries.flatten :=
      splitLines_joinLines _ hflat (by
        intro l hl
        obtain ⟨e, he, hle⟩ := List.mem_flatten.mp hl
        exact hnl e he l hle)
    constructor
    · simp only [extractInputDevices, devRun_eq, hall]
      rw [devStep_loopLike.run_flatten entries hI Work.init]
      apply flatMap_congr_mem
      intro e he
      rw [hsplit e he]
    · simp only [extractKeyboards, kbdRun_eq, hall]
      rw [kbdStep_loopLike.run_flatten entries hI Work.init]
      apply flatMap_congr_mem
      intro e he
      rw [hsplit e he]

/-! ## C16_agree: the two copies give the same answer -/

/-- For EVERY text, what `extract_keyboards_…` (used by `--all-keyboards`) returns is exactly what
`extract_input_devices_…` (used by `--dev-file`) returns, restricted to the entries it flags
`is_keyboard`, in the same order. -/
theorem C16_agree (text : List Char) :
    extractKeyboards text =
      ((extractInputDevices text).filter (fun d => d.2.2)).map (fun d => (d.1, d.2.1)) :=
  kbdRun_eq_keyboardsOf_devRun Work.init (splitLines text)

/-! ## C16_select: who is selected -/

/-- Every node chosen by `--all-keyboards` belongs to a listed entry that should be selected.
(No hypothesis.) -/
theorem C16_selected_sound (env : Env) (text : List Char) (excludes : List (List Char))
    (p : List Char) (h : p ∈ selectAll env text excludes) :
    ∃ d ∈ extractInputDevices text, env.resolve d.1 = some p ∧ ShouldSelect env excludes d := by
  obtain ⟨d, hd, hk, hv, hr, hex⟩ := (mem_selectAll env text excludes p).mp h
  exact ⟨d, hd, hr, hk, hv, (isExcluded_eq_false env excludes d.2.1).mp hex⟩

/-- Every listed entry that should be selected and has an event node is chosen by
`--all-keyboards`.  (No hypothesis.) -/
theorem C16_selected_complete (env : Env) (text : List Char) (excludes : List (List Char))
    (d : DevRec) (p : List Char) (hd : d ∈ extractInputDevices text)
    (hres : env.resolve d.1 = some p) (h : ShouldSelect env excludes d) :
    p ∈ selectAll env text excludes :=
  (mem_selectAll env text excludes p).mpr
    ⟨d, hd, h.1, h.2.1, hres, (isExcluded_eq_false env excludes d.2.1).mpr h.2.2⟩

/-- `--all-keyboards`.  Hypothesis `huniq`: no OTHER non-virtual listed entry resolves to the same
device node `p` (a repeated identical entry is allowed).  It is needed because the code answers per
device NODE while the claim is per ENTRY: if two different entries share a node (an entry with two
`B: KEY=` lines classified differently, two entries with the same sysfs path), the node is selected as
soon as ONE of them qualifies.  The kernel prints each device once, with one `B: KEY=` line and its own
event node, so the hypothesis holds for every real `/proc/bus/input/devices`. -/
theorem C16_select_all (env : Env) (text : List Char) (excludes : List (List Char))
    (d : DevRec) (p : List Char)
    (hd : d ∈ extractInputDevices text) (hres : env.resolve d.1 = some p)
    (huniq : ∀ d' ∈ extractInputDevices text, isVirtual d'.1 = false →
      env.resolve d'.1 = some p → d' = d) :
    p ∈ selectAll env text excludes ↔ ShouldSelect env excludes d := by
  constructor
  · intro h
    obtain ⟨d', hd', hr', hs'⟩ := C16_selected_sound env text excludes p h
    rw [← huniq d' hd' hs'.2.1 hr']
    exact hs'
  · exact C16_selected_complete env text excludes d p hd hres

/-- Every argument accepted by `--dev-file` names (through `canonicalize`) the node of a listed,
non-virtual, non-excluded entry, keyboard-like if `--only-if-keyboard`.  (No uniqueness hypothesis.) -/
theorem C16_named_sound (env : Env) (text : List Char) (excludes : List (List Char)) (skip : Bool)
    (arg c : List Char) (harg : env.canon arg = some c)
    (hslash : containsSub strDoubleSlash c = false)
    (h : arg ∈ selectNamed env text excludes skip [arg]) :
    ∃ d ∈ extractInputDevices text, ∃ p, env.resolve d.1 = some p ∧ env.canon p = some c ∧
      (skip = true → d.2.2 = true) ∧ isVirtual d.1 = false ∧ NotExcluded env excludes d.2.1 := by
  obtain ⟨v, hl, hk, he⟩ := (mem_selectNamed_singleton env text excludes skip arg c harg hslash).mp h
  obtain ⟨d, hd, hv, hr, hc, hveq⟩ :=
    (mem_canonicalSet env text excludes c v).mp (lookupLast_mem _ _ _ hl)
  refine ⟨d, hd, v.1.1, hr, hc, ?_, hv, ?_⟩
  · intro hs
    have := hk hs
    rw [hveq] at this
    exact this
  · rw [hveq] at he
    exact (isExcluded_eq_false env excludes d.2.1).mp he

/-- `--dev-file ARG [--only-if-keyboard]` for an argument whose canonical path `c` is the canonical
path of the node of entry `d`.
  * `hslash`: `c` contains no `//` — the code applies `replace("//","/")` to the canonicalised ARGUMENT
    only, not to the keys of its table, so a canonical path containing `//` would never be found.
    `realpath` never returns such a path.
  * `huniq`: no OTHER non-virtual listed entry has a node with the same canonical path; needed because
    the table is a HashMap keyed by canonical path in which the LAST inserted entry wins. -/
theorem C16_select_named_gen (env : Env) (text : List Char) (excludes : List (List Char)) (skip : Bool)
    (d : DevRec) (p c arg : List Char)
    (hd : d ∈ extractInputDevices text) (hres : env.resolve d.1 = some p)
    (hcanon : env.canon p = some c) (harg : env.canon arg = some c)
    (hslash : containsSub strDoubleSlash c = false)
    (huniq : ∀ d' ∈ extractInputDevices text, isVirtual d'.1 = false →
      ∀ p', env.resolve d'.1 = some p' → env.canon p' = some c → d' = d) :
    arg ∈ selectNamed env text excludes skip [arg] ↔
      ((skip = true → d.2.2 = true) ∧ isVirtual d.1 = false ∧ NotExcluded env excludes d.2.1) := by
  constructor
  · intro h
    obtain ⟨d', hd', p', hr', hc', hk', hv', he'⟩ :=
      C16_named_sound env text excludes skip arg c harg hslash h
    have := huniq d' hd' hv' p' hr' hc'
    subst this
    exact ⟨hk', hv', he'⟩
  · rintro ⟨hk, hv, he⟩
    rw [mem_selectNamed_singleton env text excludes skip arg c harg hslash]
    let v0 : (List Char × List Char × Bool) × Bool :=
      ((p, d.2.1, d.2.2), isExcluded env excludes d.2.1)
    have hmem : (c, v0) ∈ canonicalSet env text excludes :=
      (mem_canonicalSet env text excludes c v0).mpr ⟨d, hd, hv, hres, hcanon, rfl⟩
    have hall : ∀ v, (c, v) ∈ canonicalSet env text excludes → v = v0 := by
      intro v hvm
      obtain ⟨d', hd', hv', hr', hc', hveq⟩ := (mem_canonicalSet env text excludes c v).mp hvm
      have hdd := huniq d' hd' hv' v.1.1 hr' hc'
      subst hdd
      have hp : v.1.1 = p := by
        rw [hres] at hr'
        exact (Option.some.inj hr').symm
      rw [hveq, hp]
    refine ⟨v0, lookupLast_unique c _ v0 hmem hall, hk, ?_⟩
    exact (isExcluded_eq_false env excludes d.2.1).mpr he

/-- `--dev-file ARG --only-if-keyboard`. -/
theorem C16_select_named (env : Env) (text : List Char) (excludes : List (List Char))
    (d : DevRec) (p c arg : List Char)
    (hd : d ∈ extractInputDevices text) (hres : env.resolve d.1 = some p)
    (hcanon : env.canon p = some c) (harg : env.canon arg = some c)
    (hslash : containsSub strDoubleSlash c = false)
    (huniq : ∀ d' ∈ extractInputDevices text, isVirtual d'.1 = false →
      ∀ p', env.resolve d'.1 = some p' → env.canon p' = some c → d' = d) :
    arg ∈ selectNamed env text excludes true [arg] ↔ ShouldSelect env excludes d := by
  rw [C16_select_named_gen env text excludes true d p c arg hd hres hcanon harg hslash huniq]
  simp [ShouldSelect]

/-- C16, selection: under the hypotheses of `C16_select_named` (which imply those of
`C16_select_all`), both ways of naming the device select it in exactly the same case, namely when its
own entry is keyboard-like, it is not under the virtual-input tree, and no exclude pattern matches
its name. -/
theorem C16_select (env : Env) (text : List Char) (excludes : List (List Char))
    (d : DevRec) (p c arg : List Char)
    (hd : d ∈ extractInputDevices text) (hres : env.resolve d.1 = some p)
    (hcanon : env.canon p = some c) (harg : env.canon arg = some c)
    (hslash : containsSub strDoubleSlash c = false)
    (huniq : ∀ d' ∈ extractInputDevices text, isVirtual d'.1 = false →
      ∀ p', env.resolve d'.1 = some p' → env.canon p' = some c → d' = d) :
    (p ∈ selectAll env text excludes ↔ ShouldSelect env excludes d) ∧
    (arg ∈ selectNamed env text excludes true [arg] ↔ ShouldSelect env excludes d) ∧
    (p ∈ selectAll env text excludes ↔ arg ∈ selectNamed env text excludes true [arg]) := by
  have h1 := C16_select_all env text excludes d p hd hres
    (fun d' hd' hv' hr' => huniq d' hd' hv' p hr' hcanon)
  have h2 := C16_select_named env text excludes d p c arg hd hres hcanon harg hslash huniq
  exact ⟨h1, h2, h1.trans h2.symm⟩

end TmVerif

/-! ## A concrete device list: one real keyboard, one gaming mouse whose second interface has a
keyboard-like key map, and totalmapper's own (virtual) output device.

Texts are written as explicit character lists because the kernel evaluates `"…".toList` very slowly;
the doc comment above each definition shows the string. -/
namespace TmVerif.C16Example
open TmVerif TmVerif.Listing

/-- `I: Bus=0011\nN: Name="AT keyboard"\nS: Sysfs=/devices/i8042/input2\nB: EV=120013\nB: KEY=fffffffffffffffe\n` -/
def eKeyboard : List Char :=
  ['I', ':', ' ', 'B', 'u', 's', '=', '0', '0', '1', '1', '\n', 'N', ':', ' ', 'N', 'a', 'm', 'e',
   '=', '"', 'A', 'T', ' ', 'k', 'e', 'y', 'b', 'o', 'a', 'r', 'd', '"', '\n', 'S', ':', ' ', 'S',
   'y', 's', 'f', 's', '=', '/', 'd', 'e', 'v', 'i', 'c', 'e', 's', '/', 'i', '8', '0', '4', '2',
   '/', 'i', 'n', 'p', 'u', 't', '2', '\n', 'B', ':', ' ', 'E', 'V', '=', '1', '2', '0', '0', '1',
   '3', '\n', 'B', ':', ' ', 'K', 'E', 'Y', '=', 'f', 'f', 'f', 'f', 'f', 'f', 'f', 'f', 'f', 'f',
   'f', 'f', 'f', 'f', 'f', 'e', '\n']
/-- `I: Bus=0003\nN: Name="GXT Gaming Mouse"\nS: Sysfs=/devices/usb1/input13\nB: EV=100013\nB: KEY=fffffffffffffffe\n` -/
def eMouse : List Char :=
  ['I', ':', ' ', 'B', 'u', 's', '=', '0', '0', '0', '3', '\n', 'N', ':', ' ', 'N', 'a', 'm', 'e',
   '=', '"', 'G', 'X', 'T', ' ', 'G', 'a', 'm', 'i', 'n', 'g', ' ', 'M', 'o', 'u', 's', 'e', '"',
   '\n', 'S', ':', ' ', 'S', 'y', 's', 'f', 's', '=', '/', 'd', 'e', 'v', 'i', 'c', 'e', 's', '/',
   'u', 's', 'b', '1', '/', 'i', 'n', 'p', 'u', 't', '1', '3', '\n', 'B', ':', ' ', 'E', 'V', '=',
   '1', '0', '0', '0', '1', '3', '\n', 'B', ':', ' ', 'K', 'E', 'Y', '=', 'f', 'f', 'f', 'f', 'f',
   'f', 'f', 'f', 'f', 'f', 'f', 'f', 'f', 'f', 'f', 'e', '\n']
/-- `I: Bus=0003\nN: Name="totalmapper"\nS: Sysfs=/devices/virtual/input/input41\nB: EV=3\nB: KEY=fffffffffffffffe\n` -/
def eVirtual : List Char :=
  ['I', ':', ' ', 'B', 'u', 's', '=', '0', '0', '0', '3', '\n', 'N', ':', ' ', 'N', 'a', 'm', 'e',
   '=', '"', 't', 'o', 't', 'a', 'l', 'm', 'a', 'p', 'p', 'e', 'r', '"', '\n', 'S', ':', ' ', 'S',
   'y', 's', 'f', 's', '=', '/', 'd', 'e', 'v', 'i', 'c', 'e', 's', '/', 'v', 'i', 'r', 't', 'u',
   'a', 'l', '/', 'i', 'n', 'p', 'u', 't', '/', 'i', 'n', 'p', 'u', 't', '4', '1', '\n', 'B', ':',
   ' ', 'E', 'V', '=', '3', '\n', 'B', ':', ' ', 'K', 'E', 'Y', '=', 'f', 'f', 'f', 'f', 'f', 'f',
   'f', 'f', 'f', 'f', 'f', 'f', 'f', 'f', 'f', 'e', '\n']
/-- `/devices/i8042/input2` -/
def sKeyboard : List Char :=
  ['/', 'd', 'e', 'v', 'i', 'c', 'e', 's', '/', 'i', '8', '0', '4', '2', '/', 'i', 'n', 'p', 'u',
   't', '2']
/-- `AT keyboard` -/
def nKeyboard : List Char :=
  ['A', 'T', ' ', 'k', 'e', 'y', 'b', 'o', 'a', 'r', 'd']
/-- `/devices/usb1/input13` -/
def sMouse : List Char :=
  ['/', 'd', 'e', 'v', 'i', 'c', 'e', 's', '/', 'u', 's', 'b', '1', '/', 'i', 'n', 'p', 'u', 't',
   '1', '3']
/-- `GXT Gaming Mouse` -/
def nMouse : List Char :=
  ['G', 'X', 'T', ' ', 'G', 'a', 'm', 'i', 'n', 'g', ' ', 'M', 'o', 'u', 's', 'e']
/-- `/devices/virtual/input/input41` -/
def sVirtual : List Char :=
  ['/', 'd', 'e', 'v', 'i', 'c', 'e', 's', '/', 'v', 'i', 'r', 't', 'u', 'a', 'l', '/', 'i', 'n',
   'p', 'u', 't', '/', 'i', 'n', 'p', 'u', 't', '4', '1']
/-- `totalmapper` -/
def nVirtual : List Char :=
  ['t', 'o', 't', 'a', 'l', 'm', 'a', 'p', 'p', 'e', 'r']
/-- `/dev/input/event2` -/
def event2 : List Char :=
  ['/', 'd', 'e', 'v', '/', 'i', 'n', 'p', 'u', 't', '/', 'e', 'v', 'e', 'n', 't', '2']
/-- `/dev/input/event10` -/
def event10 : List Char :=
  ['/', 'd', 'e', 'v', '/', 'i', 'n', 'p', 'u', 't', '/', 'e', 'v', 'e', 'n', 't', '1', '0']
/-- `/dev/input/event26` -/
def event26 : List Char :=
  ['/', 'd', 'e', 'v', '/', 'i', 'n', 'p', 'u', 't', '/', 'e', 'v', 'e', 'n', 't', '2', '6']
/-- `/dev/input/by-id/kbd` -/
def byId : List Char :=
  ['/', 'd', 'e', 'v', '/', 'i', 'n', 'p', 'u', 't', '/', 'b', 'y', '-', 'i', 'd', '/', 'k', 'b',
   'd']
/-- `GXT*` -/
def patGXT : List Char :=
  ['G', 'X', 'T', '*']
/-- `AT*` -/
def patAT : List Char :=
  ['A', 'T', '*']

def entries : List (List Char) := [eKeyboard, eMouse, eVirtual]
/-- the three entries joined by newlines: a `/proc/bus/input/devices` text -/
def text : List Char := joinLines entries

def dKeyboard : DevRec := (sKeyboard, nKeyboard, true)
def dMouse : DevRec := (sMouse, nMouse, false)
def dVirtual : DevRec := (sVirtual, nVirtual, true)

/-- a small operating system: three event nodes, one by-id symlink to the keyboard, and a glob
matcher that knows the two patterns `GXT*` and `AT*` -/
def env : Env where
  resolve s := if s = sKeyboard then some event2 else if s = sMouse then some event10
    else if s = sVirtual then some event26 else none
  canon p := if p = byId then some event2
    else if p = event2 ∨ p = event10 ∨ p = event26 then some p else none
  glob pat name := (pat == patGXT && startsWith ['G', 'X', 'T'] name) ||
    (pat == patAT && startsWith ['A', 'T'] name)

/-! what the model computes -/

/-- The mouse interface has the same 63-key map as the keyboard but is rejected (no LEDs + "Mouse" in
the name); the virtual device is keyboard-like as far as the extractor is concerned. -/
example : extractInputDevices text = [dKeyboard, dMouse, dVirtual] := by decide
example : extractKeyboards text = [(sKeyboard, nKeyboard), (sVirtual, nVirtual)] := by decide
example : parseMaskHex ['1', ' ', '1'] = some [0, 64] := by decide
example : parseMaskHex ['1', ' ', ' ', '1'] = none := by decide
example : parseMaskHex ['8', '0', '0', '0', '0', '0', '0', '0', '0', '0', '0', '0', '0', '0', '0', '0']
    = some [] := by decide   -- bit 63 is never looked at

/-! C16_local: hypotheses satisfiable, and what the parts give -/

example : ∀ e ∈ entries, startsWith pfxI e = true := by decide
example : extractInputDevices text = entries.flatMap extractInputDevices :=
  C16_local_dev entries (by decide)
example : extractInputDevices eKeyboard = [dKeyboard] ∧ extractInputDevices eMouse = [dMouse] ∧
    extractInputDevices eVirtual = [dVirtual] := by decide
/-- Without its `I:` line the mouse block is NOT an entry of its own: put after the keyboard it is a
continuation of the keyboard's entry (here it sets every field itself, so the answer is unchanged;
a block that omitted `N:` would inherit the name "AT keyboard"). -/
example : extractInputDevices (joinLines [eKeyboard, eMouse.drop 12]) = [dKeyboard, dMouse] := by decide

/-! C16_agree on the example -/

example : extractKeyboards text =
    ((extractInputDevices text).filter (fun d => d.2.2)).map (fun d => (d.1, d.2.1)) := C16_agree text

/-! C16_select: what is selected, and the hypotheses are satisfiable -/

example : selectAll env text [] = [event2] := by decide
example : selectAll env text [patAT] = [] := by decide
example : selectAll env text [patGXT] = [event2] := by decide
example : selectNamed env text [] true [byId, event10, event26, event2] = [byId, event2] := by decide
/-- without `--only-if-keyboard` the mouse is accepted, the virtual device still is not -/
example : selectNamed env text [] false [byId, event10, event26] = [byId, event10] := by decide
example : selectNamed env text [patAT] true [byId, event10, event26] = [] := by decide

/-- The keyboard, named through a symlink: all hypotheses of `C16_select` hold. -/
example : (event2 ∈ selectAll env text [] ↔ ShouldSelect env [] dKeyboard) ∧
    (byId ∈ selectNamed env text [] true [byId] ↔ ShouldSelect env [] dKeyboard) ∧
    (event2 ∈ selectAll env text [] ↔ byId ∈ selectNamed env text [] true [byId]) :=
  C16_select env text [] dKeyboard event2 event2 byId (by decide) (by decide) (by decide) (by decide)
    (by decide) (uniqueCanonCheck_sound env _ event2 dKeyboard (by decide))

/-- The gaming mouse: not selected either way (its entry is not keyboard-like). -/
example : ¬ ShouldSelect env [] dMouse ∧ event10 ∉ selectAll env text [] ∧
    event10 ∉ selectNamed env text [] true [event10] := by
  have h := C16_select env text [] dMouse event10 event10 event10 (by decide) (by decide) (by decide)
    (by decide) (by decide) (uniqueCanonCheck_sound env _ event10 dMouse (by decide))
  have hn : ¬ ShouldSelect env [] dMouse := by simp [ShouldSelect, dMouse]
  exact ⟨hn, fun h1 => hn (h.1.mp h1), fun h2 => hn (h.2.1.mp h2)⟩

/-- totalmapper's own output device: keyboard-like but under the virtual-input tree, never selected. -/
example : ¬ ShouldSelect env [] dVirtual ∧ event26 ∉ selectAll env text [] ∧
    event26 ∉ selectNamed env text [] true [event26] := by
  have h := C16_select env text [] dVirtual event26 event26 event26 (by decide) (by decide) (by decide)
    (by decide) (by decide) (uniqueCanonCheck_sound env _ event26 dVirtual (by decide))
  have hn : ¬ ShouldSelect env [] dVirtual := by
    intro hs
    exact absurd hs.2.1 (by decide)
  exact ⟨hn, fun h1 => hn (h.1.mp h1), fun h2 => hn (h.2.1.mp h2)⟩

/-- Why `huniq` is needed: an entry with two `B: KEY=` lines (the kernel never prints that) yields two
records for one node, one keyboard-like and one not.  `--all-keyboards` selects the node (ONE record
qualifies) although the second record is not keyboard-like, and `--dev-file --only-if-keyboard` does
not (the LAST record wins in its table): without uniqueness the two ways of naming can disagree. -/
example :
    let twoKeyLines := eKeyboard ++ ['B', ':', ' ', 'K', 'E', 'Y', '=', '0']
    extractInputDevices twoKeyLines = [dKeyboard, (sKeyboard, nKeyboard, false)] ∧
    selectAll env twoKeyLines [] = [event2] ∧
    selectNamed env twoKeyLines [] true [event2] = [] := by decide

end TmVerif.C16Example
