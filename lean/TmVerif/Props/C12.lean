/-
C12 — Tablet mode silences the virtual keyboard.

"When the tablet-mode switch turns on, all keys held on the virtual keyboard are released immediately
and, until it turns off, nothing at all is written to the virtual keyboard whatever happens on the
physical keyboard or the repeat timer.  After it turns off mapping resumes as from a fresh start,
and releases of keys pressed before or during tablet mode produce no output."

Quantifier: every layout, every script of driver answers: any key history, any placement of tablet
on/off events (repeated on or off, while chords or repeats are in progress, in the same wake-up as
keyboard events, in either device order).
-/
import TmVerif.Props.C10
import TmVerif.Props.C09

namespace TmVerif

theorem releaseAll_of_inp_nil (L : Layout) (s : State) (h : s.inp = []) : releaseAll L s = (s, []) := by
  simp [releaseAll, h, releaseAllLoop]

/-- the mapper of a loop that satisfies `LoopInv` is a reachable mapper state -/
theorem LoopInv.inv {L : Layout} {x : Machine} {g : Ghost} (h : LoopInv L x g) :
    Inv L (Sys.run L Sys.init g.ops).P x.v.m := by
  rw [h.mapper]; exact (Reachable.sinv ⟨g.ops, rfl⟩).inv

/-- C12 (on): reading `On` (from any point of any run) puts the loop in tablet mode, stops the
repeat timer, and the very next thing it does is write the release-all batch (if there is anything
to release) — after which nothing is held on the virtual keyboard. -/
theorem C12_on (L : Layout) (x : Machine) (g : Ghost) (h : LoopInv L x g) (rest : List Dev)
    (hc : x.c = Ctl.readTab rest) :
    let y := advance L x (Resp.tab (Next.one TabletEv.on))
    y.v.inTablet = true ∧ y.v.rep = WorkingRepeat.idle ∧
    y.v.m = (releaseAll L x.v.m).1 ∧
    (if (releaseAll L x.v.m).2.isEmpty then y.c = Ctl.readTab rest else y.c = Ctl.sendRel rest (releaseAll L x.v.m).2) ∧
    y.v.m.inp = [] ∧ held y.v.m = [] := by
  obtain ⟨v, c⟩ := x
  simp only at hc; subst hc
  have ra := releaseAll_spec L _ v.m h.inv
  simp only [adv_tab_one]
  split <;> simp_all [held]

/-- the invariant of tablet mode: the mapper holds no input key -/
def TabInv (x : Machine) : Prop := x.v.inTablet = true → x.v.m.inp = []

theorem TabInv.advance {L : Layout} {x : Machine} {g : Ghost} (h : LoopInv L x g) (ht : TabInv x) (r : Resp) :
    TabInv (advance L x r) := by
  obtain ⟨v, c⟩ := x
  unfold TabInv at ht ⊢
  simp only at ht
  have top : ∀ v' : LoopVars, (v'.inTablet = true → v'.m.inp = []) →
      ((toPollTop v').v.inTablet = true → (toPollTop v').v.m.inp = []) := by
    intro v' hv; rw [(toPollTop_pendingOut v').2.1]; exact hv
  have dr : ∀ (v' : LoopVars) (devs : List Dev), (v'.inTablet = true → v'.m.inp = []) →
      ((drain v' devs).v.inTablet = true → (drain v' devs).v.m.inp = []) := by
    intro v' devs hv; rw [(drain_pendingOut v' devs).2.1]; exact hv
  cases r with
  | err msg => cases c <;> exact ht
  | unit =>
    cases c <;> try exact ht
    · rw [adv_start]; exact top v ht
    · rw [adv_sendChord]; exact top v ht
    · rw [adv_sleeping]; exact top v ht
    · rename_i rest evs rr; rw [adv_sendStep]; cases rr <;> exact ht
  | time t =>
    cases c <;> try exact ht
    cases hrep : v.rep with
    | idle => rw [adv_pollNow_idle L v hrep]; exact ht
    | repeating keys nw iv => rw [adv_pollNow L v hrep]; exact ht
  | poll pr =>
    cases c <;> try exact ht
    rename_i tmo
    cases pr with
    | timedOut =>
      cases hrep : v.rep with
      | idle => rw [adv_timedOut_idle L v hrep]; exact top v ht
      | repeating keys nw iv =>
        cases hit : v.inTablet with
        | true => rw [adv_timedOut_tablet L v hrep hit]; exact top _ ht
        | false => rw [adv_timedOut_chord L v hrep hit]; split; exact top _ ht; exact ht
    | interrupted => rw [adv_interrupted]; split; exact ht; exact top _ ht
    | deviceEvent devs => rw [adv_deviceEvent]; exact dr _ devs ht
  | kbd n =>
    cases c <;> try exact ht
    rename_i rest
    cases n with
    | busy => rw [adv_kbd_busy]; exact dr v rest ht
    | end_ => exact ht
    | one ev =>
      cases hit : v.inTablet with
      | true => rw [adv_kbd_one_tablet L v hit]; exact ht
      | false =>
        rw [adv_kbd_one L v hit]
        split
        · intro hcontra
          rw [(afterStep_pendingOut _ rest _).2.2.2.2] at hcontra
          simp [hit] at hcontra
        · intro hcontra; simp [hit] at hcontra
  | tab n =>
    cases c <;> try exact ht
    rename_i rest
    cases n with
    | busy => rw [adv_tab_busy]; exact dr v rest ht
    | end_ => exact ht
    | one tev =>
      have ra := releaseAll_spec L _ v.m h.inv
      rw [adv_tab_one]
      split <;> intro _ <;> exact ra.2.2.2.1

/-- C12 (silent): in tablet mode, once the release-all batch of `On` is out, NO answer of the
environment — keyboard events, timer expiry, repeated `On`, spurious wake-ups — makes the loop write
to the virtual keyboard; only `Off` ends tablet mode, and it writes nothing either. -/
theorem C12_silent (L : Layout) (x : Machine) (g : Ghost) (h : LoopInv L x g) (ht : TabInv x)
    (hin : x.v.inTablet = true) (hns : x.c.isSend = false) (r : Resp) :
    (advance L x r).c.isSend = false := by
  obtain ⟨v, c⟩ := x
  simp only at hin hns
  have hinp := ht hin
  simp only at hinp
  have top : ∀ v' : LoopVars, (toPollTop v').c.isSend = false := fun v' => (toPollTop_pendingOut v').2.2.2.1
  have dr : ∀ (v' : LoopVars) (devs : List Dev), (drain v' devs).c.isSend = false :=
    fun v' devs => (drain_pendingOut v' devs).2.2.2
  cases r with
  | err msg => cases c <;> rfl
  | unit =>
    cases c <;> try rfl
    · rw [adv_start]; exact top v
    · simp [Ctl.isSend] at hns
    · rw [adv_sleeping]; exact top v
    · simp [Ctl.isSend] at hns
  | time t =>
    cases c <;> try rfl
    cases hrep : v.rep with
    | idle => rw [adv_pollNow_idle L v hrep]; rfl
    | repeating keys nw iv => rw [adv_pollNow L v hrep]; rfl
  | poll pr =>
    cases c <;> try rfl
    rename_i tmo
    cases pr with
    | timedOut =>
      cases hrep : v.rep with
      | idle => rw [adv_timedOut_idle L v hrep]; exact top v
      | repeating keys nw iv => rw [adv_timedOut_tablet L v hrep hin]; exact top _
    | interrupted => rw [adv_interrupted]; split; rfl; exact top _
    | deviceEvent devs => rw [adv_deviceEvent]; exact dr _ devs
  | kbd n =>
    cases c <;> try rfl
    rename_i rest
    cases n with
    | busy => rw [adv_kbd_busy]; exact dr v rest
    | end_ => rfl
    | one ev => rw [adv_kbd_one_tablet L v hin]; rfl
  | tab n =>
    cases c <;> try rfl
    rename_i rest
    cases n with
    | busy => rw [adv_tab_busy]; exact dr v rest
    | end_ => rfl
    | one tev =>
      rw [adv_tab_one, releaseAll_of_inp_nil L v.m hinp]
      simp [Ctl.isSend]

/-- C12 (silent), whole runs: from a tablet-mode state that is not in the middle of the `On` release,
any script of answers that contains no `Off` leads to no send at all -/
theorem C12_silent_run (L : Layout) (x : Machine) (g : Ghost) (h : LoopInv L x g) (ht : TabInv x)
    (hin : x.v.inTablet = true) (hns : x.c.isSend = false) (rs : List Resp)
    (hoff : Resp.tab (Next.one TabletEv.off) ∉ rs) :
    callsSends (runScript L x rs).1 = [] ∧ callsChords (runScript L x rs).1 = [] := by
  induction rs generalizing x g with
  | nil => exact ⟨rfl, rfl⟩
  | cons r rs ih =>
    simp only [runScript]
    cases hp : pending x with
    | none => exact ⟨rfl, rfl⟩
    | some c =>
      simp only
      have hc : callsSends [c] = [] ∧ callsChords [c] = [] := by
        obtain ⟨v, ct⟩ := x
        cases ct <;> simp [pending] at hp <;> subst hp <;> simp [callsSends, callsChords] <;>
          simp [Ctl.isSend] at hns
      by_cases hb : (advance L x r).c = Ctl.bad
      · have hpn : pending (advance L x r) = none := by
          generalize advance L x r = y at hb; obtain ⟨v', c'⟩ := y; cases hb; rfl
        have : runScript L (advance L x r) rs = ([], advance L x r) := by
          cases rs <;> simp [runScript, hpn]
        rw [this]
        obtain ⟨v, ct⟩ := x
        cases ct <;> simp [pending] at hp <;> subst hp <;> simp_all [callsSends, callsChords, Ctl.isSend]
      · have h' := h.advance r hb
        have ht' := TabInv.advance h ht r
        have hns' := C12_silent L x g h ht hin hns r
        have hin' : (advance L x r).v.inTablet = true := by
          -- only `Off` leaves tablet mode
          obtain ⟨v, ct⟩ := x
          simp only at hin
          have hr : r ≠ Resp.tab (Next.one TabletEv.off) := fun e => hoff (by simp [e])
          cases r with
          | err msg => cases ct <;> exact hin
          | unit =>
            cases ct <;> try exact hin
            · rw [adv_start, (toPollTop_pendingOut v).2.1]; exact hin
            · rw [adv_sendChord, (toPollTop_pendingOut v).2.1]; exact hin
            · rw [adv_sleeping, (toPollTop_pendingOut v).2.1]; exact hin
            · rename_i rest evs rr; rw [adv_sendStep, (afterStep_pendingOut v rest rr).2.2.2.2]; exact hin
          | time t =>
            cases ct <;> try exact hin
            cases hrep : v.rep with
            | idle => rw [adv_pollNow_idle L v hrep]; exact hin
            | repeating keys nw iv => rw [adv_pollNow L v hrep]; exact hin
          | poll pr =>
            cases ct <;> try exact hin
            cases pr with
            | timedOut =>
              cases hrep : v.rep with
              | idle => rw [adv_timedOut_idle L v hrep, (toPollTop_pendingOut v).2.1]; exact hin
              | repeating keys nw iv => rw [adv_timedOut_tablet L v hrep hin, (toPollTop_pendingOut _).2.1]; exact hin
            | interrupted => rw [adv_interrupted]; split; exact hin; rw [(toPollTop_pendingOut _).2.1]; exact hin
            | deviceEvent devs => rw [adv_deviceEvent, (drain_pendingOut _ devs).2.1]; exact hin
          | kbd n =>
            cases ct <;> try exact hin
            rename_i rest
            cases n with
            | busy => rw [adv_kbd_busy, (drain_pendingOut v rest).2.1]; exact hin
            | end_ => exact hin
            | one ev => rw [adv_kbd_one_tablet L v hin]; exact hin
          | tab n =>
            cases ct <;> try exact hin
            rename_i rest
            cases n with
            | busy => rw [adv_tab_busy, (drain_pendingOut v rest).2.1]; exact hin
            | end_ => exact hin
            | one tev =>
              cases tev with
              | off => exact absurd rfl hr
              | on => rw [adv_tab_one]; split <;> rfl
        have := ih (advance L x r) (ghostStep x r g) h' ht' hin' hns' (fun hm => hoff (by simp [hm]))
        obtain ⟨v, ct⟩ := x
        cases ct <;> simp [pending] at hp <;> subst hp <;> simp_all [callsSends, callsChords, Ctl.isSend]

/-- C12 (off / resume): reading `Off` in tablet mode writes nothing, leaves tablet mode with the timer
stopped and a mapper that holds nothing (no input key, no pass-through key, no output key, no active
mapping) — C06 shows such a mapper answers every event sequence as a fresh one — and a release of a
key pressed before or during tablet mode is ignored by it: no output, repeat state untouched. -/
theorem C12_off (L : Layout) (x : Machine) (g : Ghost) (h : LoopInv L x g) (ht : TabInv x)
    (hin : x.v.inTablet = true) (rest : List Dev) (hc : x.c = Ctl.readTab rest) :
    let y := advance L x (Resp.tab (Next.one TabletEv.off))
    y.c = Ctl.readTab rest ∧ y.v.inTablet = false ∧ y.v.rep = WorkingRepeat.idle ∧ y.v.m = x.v.m ∧
    y.v.m.inp = [] ∧ y.v.m.pass = [] ∧ y.v.m.mapped = [] ∧ y.v.m.active = [] ∧
    (∀ k, step L y.v.m (Event.released k) = (y.v.m, ⟨[], RRepeat.noChange⟩)) := by
  obtain ⟨v, c⟩ := x
  simp only at hc hin; subst hc
  have hinp : v.m.inp = [] := ht hin
  have hr := h.inv.rest hinp
  simp only [adv_tab_one, releaseAll_of_inp_nil L v.m hinp]
  refine ⟨by simp, by simp, by simp, by simp, hinp, hr.1, hr.2.2, hr.2.1, ?_⟩
  intro k
  exact C09_ignored L v.m (Event.released k) (by simp [hinp])

/-- C12 (off, in ANY mode — also a repeated `Off`, or an `Off` that was never preceded by `On`): the loop
leaves tablet mode with the timer stopped, the very next thing it does is write the release-all batch
(if anything is held; nothing in tablet mode, by `C12_off`), and afterwards the mapper holds nothing —
so mapping resumes as from a fresh start (`C06_relAll`) — and ignores a release of any key. -/
theorem C12_off_any (L : Layout) (x : Machine) (g : Ghost) (h : LoopInv L x g) (rest : List Dev)
    (hc : x.c = Ctl.readTab rest) :
    let y := advance L x (Resp.tab (Next.one TabletEv.off))
    y.v.inTablet = false ∧ y.v.rep = WorkingRepeat.idle ∧
    y.v.m = (releaseAll L x.v.m).1 ∧
    (if (releaseAll L x.v.m).2.isEmpty then y.c = Ctl.readTab rest else y.c = Ctl.sendRel rest (releaseAll L x.v.m).2) ∧
    y.v.m.inp = [] ∧ held y.v.m = [] ∧
    (∀ k, step L y.v.m (Event.released k) = (y.v.m, ⟨[], RRepeat.noChange⟩)) := by
  obtain ⟨v, c⟩ := x
  simp only at hc; subst hc
  have ra := releaseAll_spec L _ v.m h.inv
  have hinp : (releaseAll L v.m).1.inp = [] := by
    have := ra
    simp_all
  have hstale : ∀ k, step L (releaseAll L v.m).1 (Event.released k) = ((releaseAll L v.m).1, ⟨[], RRepeat.noChange⟩) :=
    fun k => C09_ignored L _ (Event.released k) (by simp [hinp])
  simp only [adv_tab_one]
  split <;> simp_all [held]

/-- C12 ("releases of keys pressed before or during tablet mode produce no output") at EVERY later state,
not only right after `Off`: start from a mapper that holds no input key (what `On` / `Off` leave behind,
`C12_on`, `C12_off_any`) and let any history `h2` of key events follow; a key that `h2` leaves physically
up — in particular one pressed before or during tablet mode and not pressed again since — is not an
input key of the mapper, so its release is ignored: no output, no state change, repeat untouched. -/
theorem C12_stale_release (L : Layout) (s : State) (hinv : ∃ P, Inv L P s) (hinp : s.inp = [])
    (h2 : List Event) (k : Key) (hk : k ∉ foldEvs [] h2) :
    step L (run L s h2).1 (Event.released k) = ((run L s h2).1, ⟨[], RRepeat.noChange⟩) := by
  obtain ⟨P, hP⟩ := hinv
  -- with no input key the invariant holds for the empty physical set
  have h0 : Inv L [] s := ⟨hP.i, by intro x hx; rw [hinp] at hx; simp at hx, hP.actL, hP.noHid, hP.actNe⟩
  have hrun : ∀ (es : List Event) (Q : List Key) (t : State), Inv L Q t → Inv L (foldEvs Q es) (run L t es).1 := by
    intro es
    induction es with
    | nil => intro Q t ht; exact ht
    | cons e es ih =>
      intro Q t ht
      have h1 := (step_inv L Q t e ht).1
      have : (run L t (e :: es)).1 = (run L (step L t e).1 es).1 := by simp [run]
      rw [this, foldEvs_cons]
      exact ih _ _ h1
  have hfin := hrun h2 [] s h0
  exact C09_ignored L _ (Event.released k) (fun hc => hk (hfin.inpP k hc))

/-! Non-vacuity: `A → B`; A is held (B down) when the switch turns on: B is released at once; the
physical release of A and a new press during tablet mode write nothing; after `Off` the stale
release of the second press is ignored and mapping works again. -/
example :
    let L : Layout := [⟨[30], [48], Repeat.normal, []⟩]
    (Machine.init L).map (fun x0 => (runScript L x0
      [Resp.unit, Resp.poll (PollRes.deviceEvent [Dev.keyboard]), Resp.kbd (Next.one (Event.pressed 30)), Resp.unit,
       Resp.kbd Next.busy, Resp.poll (PollRes.deviceEvent [Dev.tablet, Dev.keyboard]),
       Resp.tab (Next.one TabletEv.on), Resp.unit, Resp.tab Next.busy,
       Resp.kbd (Next.one (Event.released 30)), Resp.kbd (Next.one (Event.pressed 30)), Resp.kbd Next.busy,
       Resp.poll PollRes.timedOut, Resp.poll (PollRes.deviceEvent [Dev.tablet]),
       Resp.tab (Next.one TabletEv.off), Resp.tab Next.busy, Resp.poll (PollRes.deviceEvent [Dev.keyboard]),
       Resp.kbd (Next.one (Event.released 30)), Resp.kbd (Next.one (Event.pressed 30)), Resp.unit]).1.filter
        (fun c => match c with | Call.send _ _ => true | _ => false)) =
    some [Call.send SendKind.step [Event.pressed 48], Call.send SendKind.relAll [Event.released 48],
          Call.send SendKind.step [Event.pressed 48]] := by
  decide

end TmVerif
