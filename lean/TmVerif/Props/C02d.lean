/-
C02 (d) — "While a mapping is in effect its trigger keys are consumed: such a key is held on the
virtual keyboard only if some mapping in effect outputs it."

FULL STATEMENT (every layout): `C02d_statement`, PROVED as `C02d` / `C02d_full` for every layout, every
history of key events, every reachable state — for the code WITH the fix of finding D5
(`consume_pass_through_keys` runs once more after `release_absorbed_keys` inside `add_new_mapping`;
model: `addPhase2`).  Before the fix the statement was false for some layouts with absorbing mappings:
`release_absorbed_keys` could hand a key back to pass-through after the consumption step had already
run (witness `d5Layout` / `d5History`, now the regression check `C02d_d5_fixed`).
`C02d_partial` (layouts without absorbing mappings) is kept as a corollary.
-/
import TmVerif.Proofs.Consumed
import TmVerif.Props.C02

namespace TmVerif

/-- the full statement -/
def C02d_statement : Prop :=
  ∀ (L : Layout) (x : Sys), ReachableEv L x →
    ∀ m, m ∈ x.s.active → ∀ k, k ∈ m.frm → k ∈ x.V → ∃ m2, m2 ∈ x.s.active ∧ k ∈ m2.to

/-- C02 clause (d), every layout -/
theorem C02d (L : Layout) (x : Sys) (hx : ReachableEv L x)
    (m : Mapping) (hm : m ∈ x.s.active) (k : Key) (hk : k ∈ m.frm) (hV : k ∈ x.V) :
    ∃ m2, m2 ∈ x.s.active ∧ k ∈ m2.to := by
  have hs := hx.reachable.sinv
  have hc := hx.consumed
  rcases (mem_held x.s k).mp ((hs.vheld k).mp hV) with h1 | h1
  · exact absurd h1 (hc m hm k (Or.inl hk))
  · rcases hs.inv.i.mappedAct k h1 with h2 | h2
    · simp at h2
    · exact h2

theorem C02d_full : C02d_statement := C02d

/-- … and also over histories with release-all calls (tablet-mode changes) interleaved -/
theorem C02d_all (L : Layout) (x : Sys) (hx : Reachable L x)
    (m : Mapping) (hm : m ∈ x.s.active) (k : Key) (hk : k ∈ m.frm) (hV : k ∈ x.V) :
    ∃ m2, m2 ∈ x.s.active ∧ k ∈ m2.to := by
  have hs := hx.sinv
  have hc := hx.consumed
  rcases (mem_held x.s k).mp ((hs.vheld k).mp hV) with h1 | h1
  · exact absurd h1 (hc m hm k (Or.inl hk))
  · rcases hs.inv.i.mappedAct k h1 with h2 | h2
    · simp at h2
    · exact h2

/-- layouts without absorbing mappings (the part that held before the D5 fix): now a corollary -/
theorem C02d_partial (L : Layout) (_hL : NoAbs L) (x : Sys) (hx : ReachableEv L x)
    (m : Mapping) (hm : m ∈ x.s.active) (k : Key) (hk : k ∈ m.frm) (hV : k ∈ x.V) :
    ∃ m2, m2 ∈ x.s.active ∧ k ∈ m2.to :=
  C02d L x hx m hm k hk hV

/-- monitor form, every layout -/
theorem C02d_monitor (L : Layout) (x : Sys) (hx : ReachableEv L x) (e : Event) :
    monC02d (x.obs L e) = true ∧ monC02dTag (x.obs L e) = none := by
  have hn := hx.next e
  have h1 : unconsumed (x.obs L e).s'.active (x.obs L e).V' = [] := by
    apply List.eq_nil_iff_forall_not_mem.mpr
    intro k hk
    simp only [unconsumed, List.mem_flatMap, List.mem_filter, Bool.and_eq_true, List.contains_eq_mem,
      decide_eq_true_eq, Bool.not_eq_eq_eq_not, Bool.not_true, List.any_eq_false] at hk
    obtain ⟨m, hm, hkf, hV, hno⟩ := hk
    obtain ⟨m2, hm2, hk2⟩ := C02d L _ hn m (by simpa [Sys.obs, Sys.next] using hm) k hkf
      (by simpa [Obs.V', Sys.obs, Sys.next] using hV)
    have := hno m2 (by simpa [Sys.obs, Sys.next] using hm2)
    simp [hk2] at this
  exact ⟨by simp [monC02d, h1], by simp [monC02dTag, newUnconsumed, h1]⟩

/-- The former D5 witness: `[CAPSLOCK]→[LEFTSHIFT]; [C,CAPSLOCK,B]→[A] absorbing CAPSLOCK; [LEFTSHIFT,A]→[B]`,
history `CAPSLOCK↓ C↓ B↓ B↑ C↑ LEFTSHIFT↓ A↓`.  Before the fix: afterwards `[LEFTSHIFT,A]→[B]` was in effect,
LEFTSHIFT (42) was held on the virtual keyboard and no mapping in effect output it. -/
def d5Layout : Layout :=
  [⟨[58], [42], Repeat.normal, []⟩, ⟨[46, 58, 48], [30], Repeat.normal, [58]⟩, ⟨[42, 30], [48], Repeat.normal, []⟩]

def d5History : List Event :=
  [Event.pressed 58, Event.pressed 46, Event.pressed 48, Event.released 48, Event.released 46,
   Event.pressed 42, Event.pressed 30]

/-- Regression for D5 (kernel-checked): with the fix, on the former witness the mapping `[LEFTSHIFT,A]→[B]`
is in effect, LEFTSHIFT (42) is NOT held on the virtual keyboard any more (only B = 48 is), the last step
releases it, clause (d) holds of the final state and the monitor gives no tag on the last step. -/
theorem C02d_d5_fixed :
    let x := Sys.run d5Layout Sys.init (d5History.map Op.ev)
    let y := Sys.run d5Layout Sys.init ((d5History.take 6).map Op.ev)
    (⟨[42, 30], [48], Repeat.normal, []⟩ : Mapping) ∈ x.s.active ∧ 42 ∉ x.V ∧ x.V = [48] ∧
    (∀ m ∈ x.s.active, ∀ k ∈ m.frm, k ∈ x.V → ∃ m2, m2 ∈ x.s.active ∧ k ∈ m2.to) ∧
    (y.obs d5Layout (Event.pressed 30)).evs = [Event.released 42, Event.pressed 48] ∧
    monC02dTag (y.obs d5Layout (Event.pressed 30)) = none := by
  decide

/-! Non-vacuity of the partial theorem: caps-for-movement fragment, CAPSLOCK and N held: the chord is
in effect, its trigger keys are not on the virtual keyboard, its outputs are. -/
example :
    let L : Layout := [⟨[58], [], Repeat.normal, []⟩, ⟨[58, 49], [29, 105], Repeat.normal, []⟩]
    let x := Sys.run L Sys.init ([Event.pressed 58, Event.pressed 49].map Op.ev)
    x.s.active.length = 2 ∧ x.V = [29, 105] := by
  decide

end TmVerif
