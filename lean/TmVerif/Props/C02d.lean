/-
C02 (d) — "While a mapping is in effect its trigger keys are consumed: such a key is held on the
virtual keyboard only if some mapping in effect outputs it."

FULL STATEMENT (every layout): `C02d_statement`.  It is FALSE of the model and of the code for some
layouts with absorbing mappings (known finding D5, `C02d_counterexample`, kernel-checked): inside
`add_new_mapping`, `release_absorbed_keys` can hand a key back to pass-through after the consumption
step already ran.  PROVED: `C02d_partial` — every layout without absorbing mappings, every history
of key events, every reachable state.
-/
import TmVerif.Proofs.Consumed
import TmVerif.Props.C02

namespace TmVerif

/-- the full statement (kept visible; refuted below for absorbing layouts) -/
def C02d_statement : Prop :=
  ∀ (L : Layout) (x : Sys), ReachableEv L x →
    ∀ m, m ∈ x.s.active → ∀ k, k ∈ m.frm → k ∈ x.V → ∃ m2, m2 ∈ x.s.active ∧ k ∈ m2.to

theorem C02d_partial (L : Layout) (hL : NoAbs L) (x : Sys) (hx : ReachableEv L x)
    (m : Mapping) (hm : m ∈ x.s.active) (k : Key) (hk : k ∈ m.frm) (hV : k ∈ x.V) :
    ∃ m2, m2 ∈ x.s.active ∧ k ∈ m2.to := by
  have hs := hx.reachable.sinv
  have hc := hx.consumed hL
  rcases (mem_held x.s k).mp ((hs.vheld k).mp hV) with h1 | h1
  · exact absurd h1 (hc m hm k (Or.inl hk))
  · rcases hs.inv.i.mappedAct k h1 with h2 | h2
    · simp at h2
    · exact h2

/-- monitor form -/
theorem C02d_monitor (L : Layout) (hL : NoAbs L) (x : Sys) (hx : ReachableEv L x) (e : Event) :
    monC02d (x.obs L e) = true ∧ monC02dTag (x.obs L e) = none := by
  have hn := hx.next e
  have h1 : unconsumed (x.obs L e).s'.active (x.obs L e).V' = [] := by
    apply List.eq_nil_iff_forall_not_mem.mpr
    intro k hk
    simp only [unconsumed, List.mem_flatMap, List.mem_filter, Bool.and_eq_true, List.contains_eq_mem,
      decide_eq_true_eq, Bool.not_eq_eq_eq_not, Bool.not_true, List.any_eq_false] at hk
    obtain ⟨m, hm, hkf, hV, hno⟩ := hk
    obtain ⟨m2, hm2, hk2⟩ := C02d_partial L hL _ hn m (by simpa [Sys.obs, Sys.next] using hm) k hkf
      (by simpa [Obs.V', Sys.obs, Sys.next] using hV)
    have := hno m2 (by simpa [Sys.obs, Sys.next] using hm2)
    simp [hk2] at this
  exact ⟨by simp [monC02d, h1], by simp [monC02dTag, newUnconsumed, h1]⟩

/-- D5 witness: `[CAPSLOCK]→[LEFTSHIFT]; [C,CAPSLOCK,B]→[A] absorbing CAPSLOCK; [LEFTSHIFT,A]→[B]`,
history `CAPSLOCK↓ C↓ B↓ B↑ C↑ LEFTSHIFT↓ A↓`: afterwards `[LEFTSHIFT,A]→[B]` is in effect, LEFTSHIFT is
held on the virtual keyboard, and no mapping in effect outputs it. -/
def d5Layout : Layout :=
  [⟨[58], [42], Repeat.normal, []⟩, ⟨[46, 58, 48], [30], Repeat.normal, [58]⟩, ⟨[42, 30], [48], Repeat.normal, []⟩]

def d5History : List Event :=
  [Event.pressed 58, Event.pressed 46, Event.pressed 48, Event.released 48, Event.released 46,
   Event.pressed 42, Event.pressed 30]

theorem C02d_counterexample :
    let x := Sys.run d5Layout Sys.init (d5History.map Op.ev)
    (⟨[42, 30], [48], Repeat.normal, []⟩ : Mapping) ∈ x.s.active ∧ 42 ∈ x.V ∧
    ¬ ∃ m2, m2 ∈ x.s.active ∧ 42 ∈ m2.to := by
  decide

theorem D5_signature_matches :
    let x := Sys.run d5Layout Sys.init ((d5History.take 6).map Op.ev)
    monC02dTag (x.obs d5Layout (Event.pressed 30)) = some "C02:D5" := by
  decide

theorem C02d_statement_false : ¬ C02d_statement := by
  intro h
  have := h d5Layout _ ⟨d5History, rfl⟩ ⟨[42, 30], [48], Repeat.normal, []⟩
    C02d_counterexample.1 42 (by simp) C02d_counterexample.2.1
  exact C02d_counterexample.2.2 this

/-! Non-vacuity of the partial theorem: caps-for-movement fragment, CAPSLOCK and N held: the chord is
in effect, its trigger keys are not on the virtual keyboard, its outputs are. -/
example :
    let L : Layout := [⟨[58], [], Repeat.normal, []⟩, ⟨[58, 49], [29, 105], Repeat.normal, []⟩]
    let x := Sys.run L Sys.init ([Event.pressed 58, Event.pressed 49].map Op.ev)
    x.s.active.length = 2 ∧ x.V = [29, 105] := by
  decide

end TmVerif
