/-
What the fixes of findings D7 and D6 change — and what they do not.

Both fixes edit one block of `add_new_mapping` (model: `addPhase2`).  `addPhase2BeforeD7D6` below is
that block as it was after the fix of D5 and before the fixes of D7 and D6
(`if is_action_mapping(m) { release_action_mappings; if should_absorb { release_absorbed_keys; consume } }`).
For a mapping that satisfies the two conditions which every built-in, README and unit-test layout
satisfies for all of its mappings (driver request `H12`, checked on every run) —

  H1 for m: if m is not key-producing (output empty or ending in a modifier) it outputs modifiers only;
  H2 for m: if m has a non-empty absorbing list it is key-producing —

the block computes EXACTLY what it computed before (`addPhase2_unchanged`); as the rest of `step` did not
change, so does every step of a layout in H1 ∧ H2 (immediate, not restated as a theorem).  So the two fixes alter behaviour only for layouts
outside H1 ∧ H2, which is where D7 and D6 lived.  (The fix of D5 is different in kind: it acts on a dynamic
situation — a key handed back to pass-through inside the step — that layouts in H1 ∧ H2 can reach too.)
-/
import TmVerif.Props.C08

namespace TmVerif

/-- the release block of `add_new_mapping` before the fixes of D7 and D6 (after the fix of D5) -/
def addPhase2BeforeD7D6 (s : State) (newKey : Key) (m : Mapping) : State × List Event :=
  if isActionMapping m then
    let r1 := releaseActionMappings s
    if shouldAbsorb r1.1 newKey then
      let r2 := releaseAbsorbedKeys r1.1
      let r3 := addPhase1 r2.1 m
      (r3.1, r1.2 ++ r2.2 ++ r3.2)
    else r1
  else (s, [])

theorem addPhase2_unchanged (s : State) (newKey : Key) (m : Mapping)
    (h1 : isActionMapping m = false → ∀ y, y ∈ m.to → isActionKey y = false)
    (h2 : m.absorbing ≠ [] → isActionMapping m = true) :
    addPhase2 s newKey m = addPhase2BeforeD7D6 s newKey m := by
  unfold addPhase2 addPhase2BeforeD7D6
  cases ha : isActionMapping m with
  | true =>
    have hp := producesActionKey_of_isActionMapping m ha
    simp only [hp, if_true, Bool.true_or, Bool.and_true]
  | false =>
    have hp : producesActionKey m = false := (producesActionKey_false_iff m).mpr (h1 ha)
    have hab : m.absorbing = [] := by
      cases hm : m.absorbing with
      | nil => rfl
      | cons a l => have := h2 (by rw [hm]; simp); rw [ha] at this; exact absurd this (by simp)
    simp [hp, hab]

/-- for every mapping of a layout in H1 ∧ H2 -/
theorem addPhase2_unchanged_layout (L : Layout) (h1 : H1 L) (h2 : H2 L) (s : State) (newKey : Key)
    (m : Mapping) (hm : m ∈ L) : addPhase2 s newKey m = addPhase2BeforeD7D6 s newKey m :=
  addPhase2_unchanged s newKey m (h1 m hm) (h2 m hm)

/-- non-vacuity: a mapping of each excluded kind where the two differ (D7's and D6's kinds) -/
example :
    let s : State := { State.init with inp := [30], pass := [30], absorbed := [30], absTrig := some 46 }
    -- D7's kind: `[42] → [44, 29]` (a non-modifier before a final modifier): now the absorbed 30 is released
    (addPhase2 s 42 ⟨[42], [44, 29], Repeat.normal, []⟩).2 = [Event.released 30] ∧
    (addPhase2BeforeD7D6 s 42 ⟨[42], [44, 29], Repeat.normal, []⟩).2 = [] ∧
    -- D6's kind: `[56, 29] → []` absorbing 56 (absorbing, not key-producing), another trigger: likewise
    (addPhase2 s 29 ⟨[56, 29], [], Repeat.normal, [56]⟩).2 = [Event.released 30] ∧
    (addPhase2BeforeD7D6 s 29 ⟨[56, 29], [], Repeat.normal, [56]⟩).2 = [] := by
  decide

end TmVerif
