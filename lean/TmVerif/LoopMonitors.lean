/-
Specification automaton for the per-device loop, phrased over the VISIBLE transcript: the calls the
loop makes on its driver and the answers it gets (each answer stamped with the environment's clock).
It uses only the mapper model (`step`, `releaseAll`, `isOutputHeld`) and the property texts of
C10, C11, C12, C20 — not the loop model.  The driver evaluates it on the IMPLEMENTATION's
transcripts (request `LOOPMON`) to find a concrete failing input; the property theorems themselves
(`Props/C10…C20`) are stated on the loop model, whose transcripts are compared call by call with the
implementation's (request `LOOPCHK`); as the two transcripts are equal on the unchanged tree, every
run also exercises the automaton on the model's transcripts (no flag there).

Import-free apart from the models.
-/
import TmVerif.Model.Loop
import TmVerif.Monitors

namespace TmVerif

/-- a visible call (what a `Driver` implementation sees; `Instant::now()` is invisible) -/
inductive VCall where
  | reg
  | poll (timeout : Option Nat)
  | nk
  | nt
  | send (evs : List Event)
  | sleep (ms : Nat)
deriving DecidableEq, Repr, Inhabited

/-- one transcript entry: call, answer, clock reading right after the answer -/
structure Entry where
  call : VCall
  resp : Resp
  ts : Nat
deriving Repr, Inhabited

/-- the repeat timer as the property describes it -/
structure Armed where
  keys : List Key
  interval : Int
  deadline : Nat       -- next chord is due at this clock reading (ns)
deriving Repr, Inhabited

/-- what the next call has to be because of the previous answer -/
inductive Expect where
  | any                                    -- nothing specific
  | sendExactly (prop : String) (evs : List Event)   -- a send with exactly this payload, now (`prop`: the property that demands it)
  | noSend (prop : String)                 -- anything but a send
  | nothing (prop : String)                -- no further call at all: after End (`prop` = C10) / after a failure (C20)
deriving Repr, Inhabited

structure Spec where
  s : State               -- mapper state according to the mapper model
  V : List Key            -- keys held on the virtual keyboard = fold of every send so far
  inTablet : Bool
  armed : Option Armed
  expect : Expect
  notified : List Dev     -- reported by the last poll, not yet drained
  lastTs : Nat            -- clock reading of the previous answer
  tabletCleared : Bool    -- the repeat timer was last stopped by a tablet-mode change (C12: "as from a fresh start")
  viol : List String
deriving Repr, Inhabited

def Spec.init : Spec := ⟨State.init, [], false, none, Expect.any, [], 0, false, []⟩

def Spec.flag (x : Spec) (tag : String) : Spec :=
  if x.viol.contains tag then x else { x with viol := x.viol ++ [tag] }

def absDiffN (a b : Nat) : Nat := if a ≥ b then a - b else b - a

/-- the timeout the property prescribes at clock reading `now` -/
def dueTimeout (deadline now : Nat) : Nat := if now ≥ deadline then msToNs 1 else deadline - now

/-- tolerance comparison of a poll timeout (see DESIGN §7 C11: hidden clock reads are bracketed) -/
def timeoutOk (tol : Nat) (spec impl : Nat) : Bool :=
  absDiffN spec impl ≤ tol || (spec == msToNs 1 && impl ≤ tol) || (impl == msToNs 1 && spec ≤ tol)

/-- check the call against what the previous answer demands -/
def checkCall (tol : Nat) (x : Spec) (c : VCall) : Spec :=
  let x :=
    match x.expect, c with
    | Expect.nothing prop, _ => x.flag (prop ++ "/call-after-return")
    | Expect.sendExactly prop evs, VCall.send evs' =>
      if evs == evs' then x else x.flag (prop ++ "/wrong-send-payload")
    | Expect.sendExactly prop _, _ => x.flag (prop ++ "/missing-send")
    | Expect.noSend prop, VCall.send _ =>
      let x := x.flag (if x.inTablet then "C12/send-in-tablet-mode" else prop ++ "/unexpected-send")
      if x.tabletCleared && prop == "C11" then x.flag "C12/repeat-chord-after-tablet-change" else x
    | Expect.any, VCall.send _ => x.flag "C10/unexpected-send"
    | _, _ => x
  match c with
  | VCall.poll t =>
    let x := if x.notified.isEmpty then x else x.flag "C10/poll-with-undrained-device"
    (match x.armed, t with
     | none, none => x
     | none, some _ =>
       (x.flag "C11/timeout-without-repeat-request").flag
         (if x.tabletCleared then "C12/repeat-timer-survived-tablet-change" else "C11/timeout-without-repeat-request")
     | some _, none => x.flag "C11/no-timeout-while-repeat-pending"
     | some a, some t => if timeoutOk tol (dueTimeout a.deadline x.lastTs) t then x else x.flag "C11/wrong-timeout")
  | VCall.send evs =>
    -- the running fold; legality (a press only of a key that is up, a release only of one that is down) is
    -- demanded of the step / release-all batches (C19 through C10 / C12), NOT of a timer chord: C11 fixes the
    -- chord's shape and its transience only, and a Special repeat that lists a key twice legitimately
    -- presses it twice (`dup_repeat_key_is_accepted`)
    let x :=
      match x.expect with
      | Expect.sendExactly prop _ =>
        if prop == "C11" || legal x.V evs then x else x.flag (prop ++ "/illegal-event-in-send")
      | _ => x
    { x with V := foldEvs x.V evs }
  | _ => x

/-- digest the answer -/
def applyResp (L : Layout) (x : Spec) (c : VCall) (r : Resp) (ts : Nat) : Spec :=
  let x := { x with lastTs := ts }
  match r with
  | Resp.err _ => { x with expect := Expect.nothing "C20" }
  | _ =>
  match c, r with
  | VCall.poll _, Resp.poll PollRes.timedOut =>
    (match x.armed with
     | none => { x with expect := Expect.noSend "C11" }
     | some a =>
       if x.inTablet then { x with armed := none, expect := Expect.noSend "C12" }
       else
         let chord := chordOf x.s a.keys
         let x := { x with armed := some { a with deadline := a.deadline + msToNs (asU64 a.interval) } }
         if chord.isEmpty then { x with expect := Expect.noSend "C11" }
         else
           -- transience: the chord leaves the held set as it was
           let x := if (foldEvs x.V chord).all (fun k => x.V.contains k) && x.V.all (fun k => (foldEvs x.V chord).contains k)
                    then x else x.flag "C11/chord-not-transient"
           { x with expect := Expect.sendExactly "C11" chord })
  | VCall.poll _, Resp.poll PollRes.interrupted => { x with expect := Expect.noSend "C10" }
  | VCall.poll _, Resp.poll (PollRes.deviceEvent devs) => { x with notified := devs, expect := Expect.noSend "C10" }
  | VCall.nk, Resp.kbd Next.busy => { x with notified := x.notified.filter (· != Dev.keyboard), expect := Expect.noSend "C10" }
  | VCall.nk, Resp.kbd Next.end_ => { x with expect := Expect.nothing "C10" }
  | VCall.nk, Resp.kbd (Next.one ev) =>
    if x.inTablet then { x with expect := Expect.noSend "C12" }
    else
      let out := step L x.s ev
      let x := { x with s := out.1 }
      let x := match out.2.rep with
        | RRepeat.noChange => x
        | _ => { x with tabletCleared := false }
      let x := match out.2.rep with
        | RRepeat.repeating keys d i => { x with armed := some ⟨keys, i, 0⟩ }    -- deadline fixed below
        | RRepeat.disabled => { x with armed := none }
        | RRepeat.noChange => x
      -- the clock is read after the send (if any): remember the delay until then
      let x := match out.2.rep with
        | RRepeat.repeating keys d i =>
          if out.2.events.isEmpty then { x with armed := some ⟨keys, i, ts + msToNs (asU64 d)⟩ }
          else { x with armed := some ⟨keys, i, msToNs (asU64 d)⟩ }   -- base added when the send returns
        | _ => x
      if out.2.events.isEmpty then { x with expect := Expect.noSend "C10" }
      else { x with expect := Expect.sendExactly "C10" out.2.events }
  | VCall.nt, Resp.tab Next.busy => { x with notified := x.notified.filter (· != Dev.tablet), expect := Expect.noSend "C10" }
  | VCall.nt, Resp.tab Next.end_ => { x with expect := Expect.nothing "C10" }
  | VCall.nt, Resp.tab (Next.one tev) =>
    let out := releaseAll L x.s
    let x := { x with s := out.1, armed := none, tabletCleared := true,
                      inTablet := (match tev with | TabletEv.on => true | TabletEv.off => false) }
    if out.2.isEmpty then { x with expect := Expect.noSend "C12" }
    else { x with expect := Expect.sendExactly "C12" out.2 }
  | VCall.send _, Resp.unit => { x with expect := Expect.noSend "C10" }
  | VCall.reg, Resp.unit => { x with expect := Expect.noSend "C10" }
  | VCall.sleep _, Resp.unit => { x with expect := Expect.noSend "C10" }
  | _, _ => x.flag "ill-typed-answer"

/-- run the automaton over a transcript.  `pendingBase` = the previous entry armed the timer with a
relative deadline that still needs the clock reading of the send's answer added. -/
def specRun (L : Layout) (tol : Nat) : Spec → Bool → List Entry → Spec
  | x, _, [] => x
  | x, pendingBase, e :: es =>
    let x1 := checkCall tol x e.call
    let x2 := applyResp L x1 e.call e.resp e.ts
    -- add the base to a relative deadline once the step's send has returned
    let x3 :=
      match pendingBase, e.call, e.resp, x2.armed with
      | true, VCall.send _, Resp.unit, some a => { x2 with armed := some { a with deadline := a.deadline + e.ts } }
      | _, _, _, _ => x2
    let nextPending :=
      match e.call, e.resp with
      | VCall.nk, Resp.kbd (Next.one ev) =>
        if x.inTablet then false
        else
          let out := step L x.s ev
          (match out.2.rep with
           | RRepeat.repeating _ _ _ => !out.2.events.isEmpty
           | _ => false)
      | _, _ => false
    specRun L tol x3 nextPending es

/-- final verdict: the accumulated violations plus the end-of-transcript checks (C20 / C10 end) -/
def specVerdict (L : Layout) (tol : Nat) (tr : List Entry) (status : String) : List String :=
  let x := specRun L tol Spec.init false tr
  let x :=
    match tr.getLast? with
    | some e =>
      (match e.resp with
       | Resp.err msg => if status == "err:" ++ msg then x else x.flag "C20/error-not-returned"
       | Resp.kbd Next.end_ => if status == "ok" then x else x.flag "C10/end-not-ok"
       | Resp.tab Next.end_ => if status == "ok" then x else x.flag "C10/end-not-ok"
       | _ => if status == "running" then x else x.flag "C20/returned-without-cause")
    | none => if status == "running" then x else x.flag "C20/returned-without-cause"   -- no call at all: the loop cannot have returned
  x.viol

end TmVerif
