/-
Driver commands for the keyboard-listing suite (harness suite `listing`, property C16).

Encodings (one token = no blanks):
  <text>    Unicode scalar values in hex separated by `.`, e.g. `49.3a.20` for "I: "; `-` is the empty text.
  <cp>      one scalar value in hex.
  <texts>   `<text>` items joined by `,`; `~` is the empty list.
  <pairs>   `<text>><text>` items joined by `,`; `~` is the empty list   (a finite table key>value).

Commands:
  KBD <text>       -> copy 1, `extractKeyboards`: entries `<sysfs>|<name>` joined by `;`, `~` for none
  DEV <text>       -> copy 2, `extractInputDevices`: entries `<sysfs>|<name>|0/1` joined by `;`, `~` for none
  MASK <text>      -> `parseMaskHex`: `err` | `~` (empty set) | decimal bit numbers joined by `,` (increasing)
  LOWERK <cp>      -> the hex code of `toLowerChar cp` if that is one of the letters k,e,y,b,o,a,r,d, else `-`
  LSWS <cp>        -> `isWhitespace`: 0/1
  LSHASKBD <text>  -> `hasKeyboardInName`: 0/1       (models name.to_lowercase().contains("keyboard"))
  LSNAME <text>    -> `parseName`: <text>            (trim_end, one trailing quote stripped)
  LSREPL <text>    -> `replaceDoubleSlash`: <text>   (str::replace("//", "/"))
  LISTK <text> <resolve:pairs>  -> `listKeyboards`: entries `<dev_path>|<name>` joined by `;`, `~` for none
  LISTD <text> <resolve:pairs>  -> `listInputDevices`: entries `<dev_path>|<name>|0/1` joined by `;`, `~` for none
                      (compared with the real list_keyboards / list_input_devices run on a fake /proc and /sys)
  SEL <text> <resolve:pairs> <canon:pairs> <globtrue:pairs> <excludes:texts> <skip:0/1> <args:texts>
                   -> `<texts>#<texts>`: `selectAll` then `selectNamed`.
                      `Env` as finite tables: `resolve`/`canon` map a key to the value of its FIRST pair and
                      everything else to none; `glob pat name` is true iff the pair `pat>name` is listed
                      (the harness computes that matrix with the real WildMatch, which stays a parameter).
A request that does not parse is answered `bad-request` by the caller (`handle` returns `none`).
-/
import TmVerif.Model.Listing
import TmVerif.Driver.Proto

namespace TmVerif.ListingCmd
open TmVerif TmVerif.Listing

def hexNat? (s : String) : Option Nat :=
  let cs := s.toList
  if cs.isEmpty then none
  else cs.foldl (fun acc c => match acc, hexDigit? c with
    | some a, some d => some (a * 16 + d)
    | _, _ => none) (some 0)

def char? (s : String) : Option Char :=
  match hexNat? s with
  | some n => if n < 0xD800 ∨ (0xDFFF < n ∧ n < 0x110000) then some (Char.ofNat n) else none
  | none => none

def text? (s : String) : Option (List Char) :=
  if s == "-" then some [] else Proto.sequence ((s.splitOn ".").map char?)

def showHex (n : Nat) : String := String.ofList (Nat.toDigits 16 n)

def showText (t : List Char) : String :=
  if t.isEmpty then "-" else String.intercalate "." (t.map fun c => showHex c.toNat)

def texts? (s : String) : Option (List (List Char)) :=
  if s == "~" then some [] else Proto.sequence ((s.splitOn ",").map text?)

def showTexts (l : List (List Char)) : String :=
  if l.isEmpty then "~" else String.intercalate "," (l.map showText)

def pair? (s : String) : Option (List Char × List Char) :=
  match s.splitOn ">" with
  | [a, b] => match text? a, text? b with
    | some a, some b => some (a, b)
    | _, _ => none
  | _ => none

def pairs? (s : String) : Option (List (List Char × List Char)) :=
  if s == "~" then some [] else Proto.sequence ((s.splitOn ",").map pair?)

def tableLookup (t : List (List Char × List Char)) (k : List Char) : Option (List Char) :=
  match t.find? (fun p => p.1 == k) with
  | some p => some p.2
  | none => none

def envOfTables (resolve canon globTrue : List (List Char × List Char)) : Env where
  resolve := tableLookup resolve
  canon := tableLookup canon
  glob := fun pat name => globTrue.contains (pat, name)

def showBool (b : Bool) : String := if b then "1" else "0"

def showKbds (l : List KbdRec) : String :=
  if l.isEmpty then "~" else String.intercalate ";" (l.map fun d => s!"{showText d.1}|{showText d.2}")

def showDevs (l : List DevRec) : String :=
  if l.isEmpty then "~"
  else String.intercalate ";" (l.map fun d => s!"{showText d.1}|{showText d.2.1}|{showBool d.2.2}")

def handle (toks : List String) : Option String :=
  match toks with
  | ["KBD", t] => (text? t).map fun t => showKbds (extractKeyboards t)
  | ["DEV", t] => (text? t).map fun t => showDevs (extractInputDevices t)
  | ["MASK", t] => (text? t).map fun t =>
    match parseMaskHex t with
    | none => "err"
    | some [] => "~"
    | some bits => String.intercalate "," (bits.map toString)
  | ["LOWERK", c] => (char? c).map fun c =>
    let l := toLowerChar c
    if strKeyboard.contains l then showHex l.toNat else "-"
  | ["LSWS", c] => (char? c).map fun c => showBool (isWhitespace c)
  | ["LSHASKBD", t] => (text? t).map fun t => showBool (hasKeyboardInName t)
  | ["LSNAME", t] => (text? t).map fun t => showText (parseName t)
  | ["LSREPL", t] => (text? t).map fun t => showText (replaceDoubleSlash t)
  | ["LISTK", t, res] =>
    match text? t, pairs? res with
    | some t, some res => some (showKbds (listKeyboards (envOfTables res [] []) t))
    | _, _ => none
  | ["LISTD", t, res] =>
    match text? t, pairs? res with
    | some t, some res => some (showDevs (listInputDevices (envOfTables res [] []) t))
    | _, _ => none
  | ["SEL", t, res, can, gl, ex, skip, args] =>
    match text? t, pairs? res, pairs? can, pairs? gl, texts? ex, texts? args with
    | some t, some res, some can, some gl, some ex, some args =>
      if skip == "0" ∨ skip == "1" then
        let env := envOfTables res can gl
        some s!"{showTexts (selectAll env t ex)}#{showTexts (selectNamed env t ex (skip == "1") args)}"
      else none
    | _, _, _, _, _, _ => none
  | _ => none

end TmVerif.ListingCmd
