/-
Driver commands for the suite "escape" (systemd unit writer, property C17).

Encoding (no spaces inside a token):
  <str>      the code points in lower-case hex, joined by `.`; the empty string is `-`
             (e.g. `61.27.62` for a'b)
  <strlist>  <str>s joined by `,`; the empty list is `~`

  ESC1 <cp>                        -> <str> escapeOneChar (cp decimal) | "invalid" if not a scalar value
  ESC <str>                        -> <str> systemdArgEscape
  SVC <strlist>                    -> <str> buildServiceText
  PARSE <str> <inst:str>           -> "none" | <strlist> parseExecStart
  C17 <strlist> <inst:str>         -> "ok" | "viol"   statement of C17 evaluated on the MODEL's line
  C17TEXT <text:str> <strlist> <inst:str>
                                   -> "ok" | "viol"   statement of C17 evaluated on a given unit text
                                      (the implementation's output): locate the ExecStart line,
                                      read it by `parseExecStart`, compare with the intended arguments
-/
import TmVerif.Driver.Proto
import TmVerif.Model.Escape
import TmVerif.Model.Systemd

namespace TmVerif.EscapeCmd
open TmVerif TmVerif.Proto

def isScalar (n : Nat) : Bool := n < 0xd800 || (0xdfff < n && n < 0x110000)

def parseHexNat (s : String) : Option Nat :=
  let cs := s.toList
  if cs.isEmpty || cs.length > 8 then none
  else cs.foldl (fun acc c => match acc, hexVal c with
    | some a, some d => some (a * 16 + d)
    | _, _ => none) (some 0)

def decChar (s : String) : Option Char :=
  match parseHexNat s with
  | some n => if isScalar n then some (Char.ofNat n) else none
  | none => none

def decStr (s : String) : Option (List Char) :=
  if s == "-" then some [] else sequence ((s.splitOn ".").map decChar)

def encStr (l : List Char) : String :=
  if l.isEmpty then "-"
  else String.intercalate "." (l.map fun c => String.ofList (Nat.toDigits 16 c.toNat))

def decList (s : String) : Option (List (List Char)) :=
  if s == "~" then some [] else sequence ((s.splitOn ",").map decStr)

def encList (l : List (List Char)) : String :=
  if l.isEmpty then "~" else String.intercalate "," (l.map encStr)

def verdict (got : Option (List (List Char))) (pats : List (List Char)) (inst : List Char) : String :=
  if got == some (intendedArgs pats inst) then "ok" else "viol"

def handle (toks : List String) : Option String :=
  match toks with
  | ["ESC1", cp] =>
    match cp.toNat? with
    | some n => some (if isScalar n then encStr (escapeOneChar (Char.ofNat n)) else "invalid")
    | none => none
  | ["ESC", s] => (decStr s).map fun t => encStr (systemdArgEscape t)
  | ["SVC", l] => (decList l).map fun ps => encStr (buildServiceText ps)
  | ["PARSE", s, i] =>
    match decStr s, decStr i with
    | some line, some inst =>
      some (match parseExecStart line inst with
        | some ws => encList ws
        | none => "none")
    | _, _ => none
  | ["C17", l, i] =>
    match decList l, decStr i with
    | some ps, some inst => some (verdict (parseExecStart (execStartValue ps) inst) ps inst)
    | _, _ => none
  | ["C17TEXT", t, l, i] =>
    match decStr t, decList l, decStr i with
    | some text, some ps, some inst => some (verdict (parseUnit text inst) ps inst)
    | _, _, _ => none
  | _ => none

end TmVerif.EscapeCmd
