/-
Driver commands for the mapper suite (S-mapper).
  L <layout>                  -> "wf" | "panic"      (sets the current layout; models Mapper::for_layout)
  S <state> <event>           -> "<events> <rrepeat> <state'>"
  RA <state>                  -> "<events> <state'>"
  AK <k>                      -> "1" | "0"            (is_action_key)
  M <P> <V> <state> <event> <events> <rrepeat> <state'>   -> "ok" | "viol:<ids>"   (monitors on an observed transition)
  MRA <P> <V> <state> <events> <state'>                   -> "ok" | "viol:<ids>"   (monitors on a release-all batch)
-/
import TmVerif.Driver.Proto
import TmVerif.Monitors

namespace TmVerif.MapperCmd
open TmVerif TmVerif.Proto

def handle (L : Layout) (toks : List String) : Option String :=
  match toks with
  | ["S", st, ev] =>
    match parseState L st, parseEvent ev with
    | some s, some e =>
      let (s', r) := step L s e
      some s!"{showEvents r.events} {showRRepeat r.rep} {showState L s'}"
    | _, _ => none
  | ["RA", st] =>
    match parseState L st with
    | some s =>
      let (s', evs) := releaseAll L s
      some s!"{showEvents evs} {showState L s'}"
    | none => none
  | ["M", p, v, st, ev, evs, rr, st'] =>
    match parseKeys p, parseKeys v, parseState L st, parseEvent ev, parseEvents evs, parseRRepeat rr, parseState L st' with
    | some P, some V, some s, some e, some evs, some rr, some s' =>
      let bad := stepMonitors ⟨L, P, V, s, e, evs, rr, s'⟩
      some (if bad.isEmpty then "ok" else "viol:" ++ String.intercalate "," bad)
    | _, _, _, _, _, _, _ => none
  | ["MRA", _p, v, _st, evs, st'] =>
    match parseKeys v, parseEvents evs, parseState L st' with
    | some V, some evs, some s' =>
      let bad := monRelAll V evs s'
      some (if bad.isEmpty then "ok" else "viol:" ++ String.intercalate "," bad)
    | _, _, _ => none
  | ["AK", k] =>
    match k.toNat? with
    | some k => some (if isActionKey k then "1" else "0")
    | none => none
  | _ => none

end TmVerif.MapperCmd
