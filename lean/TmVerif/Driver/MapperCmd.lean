/-
Driver commands for the mapper suite (S-mapper).
  L <layout>                  -> "wf" | "panic"      (sets the current layout; models Mapper::for_layout)
  S <state> <event>           -> "<events> <rrepeat> <state'>"
  RA <state>                  -> "<events> <state'>"
  AK <k>                      -> "1" | "0"            (is_action_key)
  M <P> <V> <state> <event> <events> <rrepeat> <state'>   -> "ok" | "viol:<ids>"   (monitors on an observed transition)
  MRA <P> <V> <state> <events> <state'>                   -> "ok" | "viol:<ids>"   (monitors on a release-all batch)
  M8 <P> <V> <state> <event> <events> <rrepeat> <state'> <obls>  -> "<verdict> <obls'>"
        C08 with ghost obligations; obls: entries `M.t.mappingIndex.fresh(0/1).h1+h2+…` joined by `;` (`-` = none,
        held set `~` if empty); verdict "ok" | "viol:<tags>"; obls' = the updated obligations in the same format
-/
import TmVerif.Driver.Proto
import TmVerif.Monitors

namespace TmVerif.MapperCmd
open TmVerif TmVerif.Proto

def parseObl (L : Layout) (s : String) : Option Obl :=
  match s.splitOn "." with
  | [m, t, mi, fr, held] =>
    match m.toNat?, t.toNat?, mi.toNat?, fr.toNat? with
    | some M, some t, some mi, some fr =>
      let heldKeys := if held == "~" then some [] else sequence ((held.splitOn "+").map String.toNat?)
      match L[mi]?, heldKeys with
      | some mp, some hk => some ⟨M, t, mp, hk, fr != 0⟩
      | _, _ => none
    | _, _, _, _ => none
  | _ => none

def parseObls (L : Layout) (s : String) : Option (List Obl) :=
  if s == "-" then some [] else sequence ((s.splitOn ";").map (parseObl L))

def showObl (L : Layout) (ob : Obl) : String :=
  let mi := match indexOf? L ob.m with | some i => toString i | none => "?"
  let sorted := ob.held.foldl (fun acc k => (acc.filter (· < k)) ++ [k] ++ (acc.filter (· > k))) []
  let held := if sorted.isEmpty then "~" else String.intercalate "+" (sorted.map toString)
  s!"{ob.M}.{ob.t}.{mi}.{if ob.fresh then 1 else 0}.{held}"

def showObls (L : Layout) (obls : List Obl) : String :=
  if obls.isEmpty then "-" else String.intercalate ";" (obls.map (showObl L))

def handle (L : Layout) (toks : List String) : Option String :=
  match toks with
  | ["S", st, ev] =>
    match parseState L st, parseEvent ev with
    | some s, some e =>
      let (s', r) := step L s e
      some s!"{showEvents r.events} {showRRepeat r.rep} {showState L s'}"
    | _, _ => none
  | ["RA", st] =>
    match parseState L st with
    | some s =>
      let (s', evs) := releaseAll L s
      some s!"{showEvents evs} {showState L s'}"
    | none => none
  | ["M", p, v, st, ev, evs, rr, st'] =>
    match parseKeys p, parseKeys v, parseState L st, parseEvent ev, parseEvents evs, parseRRepeat rr, parseState L st' with
    | some P, some V, some s, some e, some evs, some rr, some s' =>
      let bad := stepMonitors ⟨L, P, V, s, e, evs, rr, s'⟩
      some (if bad.isEmpty then "ok" else "viol:" ++ String.intercalate "," bad)
    | _, _, _, _, _, _, _ => none
  | ["MRA", _p, v, _st, evs, st'] =>
    match parseKeys v, parseEvents evs, parseState L st' with
    | some V, some evs, some s' =>
      let bad := monRelAll V evs s'
      some (if bad.isEmpty then "ok" else "viol:" ++ String.intercalate "," bad)
    | _, _, _ => none
  | ["M8", p, v, st, ev, evs, rr, st', obls] =>
    match parseKeys p, parseKeys v, parseState L st, parseEvent ev, parseEvents evs, parseRRepeat rr, parseState L st',
          parseObls L obls with
    | some P, some V, some s, some e, some evs, some rr, some s', some obls =>
      let o : Obs := ⟨L, P, V, s, e, evs, rr, s'⟩
      let bad := (monC08 o obls).eraseDups
      let verdict := if bad.isEmpty then "ok" else "viol:" ++ String.intercalate "," bad
      some s!"{verdict} {showObls L (nextObls o obls)}"
    | _, _, _, _, _, _, _, _ => none
  | ["H12"] =>
    -- does the current layout satisfy H1 ∧ H2 (the former scope of C08: since the fixes of D7 and D6 `C08_full` holds
    -- for every layout; still reported: the layouts people use satisfy both)?  also: without absorbing mappings?
    some s!"{if layoutH1 L && layoutH2 L then "in" else "out"} {if noAbsLayout L then "noabs" else "abs"}"
  | ["AK", k] =>
    match k.toNat? with
    | some k => some (if isActionKey k then "1" else "0")
    | none => none
  | _ => none

end TmVerif.MapperCmd
