/-
Driver command tying the harness's scripted environment (Rust, `h_loop.rs: Env`) to the formal
edge-triggered environment `Model/LoopEnv.lean` that the closed-system theorems of C10 speak about:

  ENVCHK <moves>    -> "ok" | "env-reject:<index>:<token>" | "bad-request"

`<moves>`: tokens joined by `,`, in the order in which things happened in a run of the REAL loop against
the harness environment:
  Ak:<events joined by .>   a batch of keyboard events arrives (`Ak:-` = an empty batch)
  At:<On|Off joined by .>   a batch of tablet-switch events arrives
  Ag                        the keyboard goes away (end of device)
  <answer>@<ns>             the answer to the loop's next driver call (same tokens as the LOOP script)
The command replays them as a run of the closed system `crun` (loop model × formal environment): every
arrival must be the next arrival of the schedule (it is, by construction: the schedule is the list of the
arrival tokens) and every answer must be one the formal environment allows for the call the loop model
is blocked on.  Hidden calls (`now`, `sleep`) are answered as in `runAnnotated`.  So "ok" means: this
test run is an instance of the closed system the theorems quantify over.
-/
import TmVerif.Driver.LoopCmd
import TmVerif.Model.LoopEnv

namespace TmVerif.LoopEnvCmd
open TmVerif TmVerif.Proto TmVerif.LoopCmd

inductive Tok where
  | arr (a : Arrival)
  | ans (r : Resp) (t : Nat)

def parseTablet (s : String) : Option TabletEv :=
  if s == "On" then some TabletEv.on else if s == "Off" then some TabletEv.off else none

def parseTok (s : String) : Option Tok :=
  if s == "Ag" then some (Tok.arr Arrival.kbdGone)
  else if s.startsWith "Ak:" then
    let rest := (s.drop 3).toString
    if rest == "-" then some (Tok.arr (Arrival.kbd []))
    else (sequence ((rest.splitOn ".").map parseEvent)).map fun evs => Tok.arr (Arrival.kbd evs)
  else if s.startsWith "At:" then
    let rest := (s.drop 3).toString
    if rest == "-" then some (Tok.arr (Arrival.tab []))
    else (sequence ((rest.splitOn ".").map parseTablet)).map fun evs => Tok.arr (Arrival.tab evs)
  else (parseResp s).map fun p => Tok.ans p.1 p.2

def schedOf : List Tok → List Arrival
  | [] => []
  | Tok.arr a :: ts => a :: schedOf ts
  | Tok.ans _ _ :: ts => schedOf ts

/-- answer the hidden calls the machine is blocked on (at most `fuel` of them) -/
def skipHidden (L : Layout) : Nat → Machine × Env → Nat → Option (Machine × Env)
  | 0, s, _ => some s
  | fuel + 1, s, lastT =>
    match pending s.1 with
    | some Call.now =>
      (match cmove L s (Move.answer (Resp.time lastT)) with
       | some s' => skipHidden L fuel s' lastT
       | none => none)
    | some (Call.sleep _) =>
      (match cmove L s (Move.answer Resp.unit) with
       | some s' => skipHidden L fuel s' lastT
       | none => none)
    | _ => some s

/-- replay; returns the index of the first token the closed system does not allow -/
def replay (L : Layout) : List Tok → Nat → Machine × Env → Nat → Option Nat
  | [], _, _, _ => none
  | Tok.arr _ :: ts, i, s, lastT =>
    (match cmove L s Move.arrive with
     | some s' => replay L ts (i + 1) s' lastT
     | none => some i)
  | Tok.ans r t :: ts, i, s, lastT =>
    (match skipHidden L 8 s lastT with
     | none => some i
     | some s1 =>
       match cmove L s1 (Move.answer r) with
       | some s' => replay L ts (i + 1) s' t
       | none => some i)

def envChk (L : Layout) (moves : String) : String :=
  let toks := if moves == "-" then [] else moves.splitOn ","
  match sequence (toks.map parseTok), Machine.init L with
  | some ts, some x0 =>
    (match replay L ts 0 (x0, Env.init (schedOf ts)) 0 with
     | none => "ok"
     | some i => s!"env-reject:{i}:{toks.getD i "?"}")
  | _, _ => "bad-request"

def handle (L : Layout) (toks : List String) : Option String :=
  match toks with
  | ["ENVCHK", moves] => some (envChk L moves)
  | _ => none

end TmVerif.LoopEnvCmd
