/-
Driver commands for the wire-level suite (S-e2e): the REAL `RealDriver` (mio poll, `DevInputReader`,
`TabletModeSwitchReader`, `DevInputWriter`) runs `do_remapping_loop_one_device` over pipes; the harness
sends the chunks of bytes it wrote, in the order in which they had to be read, and compares the bytes
that came out of the uinput pipe.
  E2E <chunks>   -> "<hex of wireOut> <number of sends> <read log>"     chunks: `k<hex>` / `t<hex>` joined by `,` (`-` = none)
  E2EANY <kbd hex> <tablet hex> <out hex> -> "ok" | "no-interleaving"   (`wireAccepts`: is the output `wireOfLog` of SOME interleaving of the two per-device logs?)
  E2ET <chunks with ticks>  -> hex of `wireOfTLog` | "reject"    chunks as for E2E, `x` = a timer tick (a chord is written)
  TDEC <hex>     -> the tablet-switch events `decodeTabletStream` yields: `on` / `off` joined by `,` (`-` = none)
-/
import TmVerif.Model.EndToEnd
import TmVerif.Driver.BytesCmd

namespace TmVerif.E2ECmd
open TmVerif TmVerif.Proto TmVerif.BytesCmd

def parseChunk (s : String) : Option Chunk :=
  match s.toList with
  | 'k' :: rest => (parseHexChars rest).map Chunk.kbd
  | 't' :: rest => (parseHexChars rest).map Chunk.tab
  | _ => none

def parseChunks (s : String) : Option (List Chunk) :=
  if s == "-" then some [] else sequence ((s.splitOn ",").map parseChunk)

def showTab : TabletEv → String
  | TabletEv.on => "on"
  | TabletEv.off => "off"

def showItem : Item → String
  | Item.kbd ev => showEvent ev
  | Item.tab tev => showTab tev

def handle (L : Layout) (toks : List String) : Option String :=
  match toks with
  | ["E2E", cs] =>
    match parseChunks cs with
    | some chunks =>
      let lg := chunks.flatMap Chunk.items
      some (showHex (wireOfLog L State.init false lg) ++ " " ++ toString (sendsOfLog L State.init false lg)
            ++ " " ++ showList showItem lg)
    | none => none
  | ["E2EANY", kb, tb, out] =>
    match parseHex kb, parseHex tb, parseHex out with
    | some kb, some tb, some out => some (if wireAccepts L kb tb out then "ok" else "no-interleaving")
    | _, _, _ => none
  | ["E2ET", cs] =>
    let parts := if cs == "-" then [] else cs.splitOn ","
    let items := sequence (parts.map fun p =>
      if p == "x" then some [TItem.tick] else (parseChunk p).map (fun c => c.items.map TItem.item))
    match items with
    | some its =>
      (match wireOfTLog L State.init none false its.flatten with
       | some bytes => some (showHex bytes)
       | none => some "reject")
    | none => none
  | ["TDEC", hex] =>
    match parseHex hex with
    | some bytes => some (showList showTab (decodeTabletStream bytes))
    | none => none
  | _ => none

end TmVerif.E2ECmd
