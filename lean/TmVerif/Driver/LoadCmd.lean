/-
Driver commands for the suite "load" (layout loader: properties C13, C14, C15).

A JSON value (`serde_json::Value`) travels as ONE token without blanks, in prefix notation:

  <json>   ::= n                      null
             | t | f                  true / false
             | i<int>                 a number stored as PosInt/NegInt, decimal, e.g. i-5, i18446744073709551615
             | x                      a number stored as a float (value irrelevant to the loader)
             | s<str>                 a string
             | a(<json>,<json>,…)     an array; a() is the empty array
             | o(<str>:<json>,…)      an object, keys in the map's order (ascending); o() is empty
  <str>    ::= the code points in lower-case hex joined by `.`; the empty string is empty
               (e.g. s66.72.6f.6d is "from")

The decoder refuses (→ `bad-request`) anything malformed, and any object whose keys are not strictly
ascending (such a `Value` does not exist: `Map` is a `BTreeMap`).

  LOAD <json>    -> "ok <layout>" | "error" | "panic"       load (parse + convert); <layout> as Proto.showLayout
  PARSE <json>   -> "ok" | "error" | "panic"                parse_layout_from_json only
  SER <layout>   -> <json> | "none"                         serde_json::to_value(&keys::Layout)
  KEY <str>      -> <discriminant> | "none"                 parse_key_code  (KEY - is the empty name)
  C15 <layout>   -> "ok" | "viol"     serialize is defined and load (serialize L) = ok L
  C13 <json>     -> "ok" | "viol"     load j agrees with the declarative expansion (Props-independent
                                      executable statement `Expand.loadSpec`)
  C13X <json>    -> like LOAD, but computed by the declarative expansion (for comparing the
                    implementation's output with the specification directly)
-/
import TmVerif.Driver.Proto
import TmVerif.Model.Load
import TmVerif.Model.Expand

namespace TmVerif.LoadCmd
open TmVerif TmVerif.Proto

def hexVal (c : Char) : Option Nat :=
  let n := c.toNat
  if 48 ≤ n ∧ n ≤ 57 then some (n - 48)
  else if 97 ≤ n ∧ n ≤ 102 then some (n - 87)
  else none

def isScalar (n : Nat) : Bool := n < 0xd800 || (0xdfff < n && n < 0x110000)

/-- reads a `<str>`: returns the string and the rest of the input (which starts at the first
character that is neither a hex digit nor `.`) -/
def readStr : List Char → Option Nat → List Char → Option (List Char × List Char)
  | [], cur, acc =>
    match cur with
    | some n => if isScalar n then some ((Char.ofNat n :: acc).reverse, []) else none
    | none => if acc.isEmpty then some ([], []) else none
  | c :: cs, cur, acc =>
    match hexVal c with
    | some d =>
      let n := cur.getD 0 * 16 + d
      if n ≥ 0x110000 then none else readStr cs (some n) acc
    | none =>
      if c == '.' then
        match cur with
        | some n => if isScalar n then readStr cs none (Char.ofNat n :: acc) else none
        | none => none
      else
        match cur with
        | some n => if isScalar n then some ((Char.ofNat n :: acc).reverse, c :: cs) else none
        | none => if acc.isEmpty then some ([], c :: cs) else none

def readDigits : List Char → Nat → Nat → Nat × Nat × List Char
  | [], acc, cnt => (acc, cnt, [])
  | c :: cs, acc, cnt =>
    if c.isDigit then readDigits cs (acc * 10 + (c.toNat - 48)) (cnt + 1) else (acc, cnt, c :: cs)

def readInt (cs : List Char) : Option (Int × List Char) :=
  match cs with
  | '-' :: rest =>
    let (n, cnt, rest') := readDigits rest 0 0
    if cnt == 0 then none else some (-(Int.ofNat n), rest')
  | _ =>
    let (n, cnt, rest') := readDigits cs 0 0
    if cnt == 0 then none else some (Int.ofNat n, rest')

mutual
def readVal : Nat → List Char → Option (Json × List Char)
  | 0, _ => none
  | fuel + 1, cs =>
    match cs with
    | 'n' :: rest => some (Json.null, rest)
    | 't' :: rest => some (Json.bool true, rest)
    | 'f' :: rest => some (Json.bool false, rest)
    | 'x' :: rest => some (Json.num JNum.float, rest)
    | 'i' :: rest => (readInt rest).map fun (i, r) => (Json.num (JNum.int i), r)
    | 's' :: rest => (readStr rest none []).map fun (s, r) => (Json.str s, r)
    | 'a' :: '(' :: ')' :: rest => some (Json.arr [], rest)
    | 'a' :: '(' :: rest => (readElems fuel rest).map fun (xs, r) => (Json.arr xs, r)
    | 'o' :: '(' :: ')' :: rest => some (Json.obj [], rest)
    | 'o' :: '(' :: rest => (readFields fuel rest).map fun (kvs, r) => (Json.obj kvs, r)
    | _ => none
/-- elements after `(` or `,` up to and including `)` -/
def readElems : Nat → List Char → Option (List Json × List Char)
  | 0, _ => none
  | fuel + 1, cs =>
    match readVal fuel cs with
    | some (v, ',' :: rest) => (readElems fuel rest).map fun (vs, r) => (v :: vs, r)
    | some (v, ')' :: rest) => some ([v], rest)
    | _ => none
def readFields : Nat → List Char → Option (List (List Char × Json) × List Char)
  | 0, _ => none
  | fuel + 1, cs =>
    match readStr cs none [] with
    | some (k, ':' :: rest) =>
      match readVal fuel rest with
      | some (v, ',' :: rest') => (readFields fuel rest').map fun (kvs, r) => ((k, v) :: kvs, r)
      | some (v, ')' :: rest') => some ([(k, v)], rest')
      | _ => none
    | _ => none
end

def decJson (s : String) : Option Json :=
  let cs := s.toList
  match readVal (2 * cs.length + 4) cs with
  | some (j, []) => if j.wfObj then some j else none
  | _ => none

def encStr (l : List Char) : String :=
  String.intercalate "." (l.map fun c => String.ofList (Nat.toDigits 16 c.toNat))

mutual
def encJson : Json → String
  | Json.null => "n"
  | Json.bool true => "t"
  | Json.bool false => "f"
  | Json.num (JNum.int i) => "i" ++ toString i
  | Json.num JNum.float => "x"
  | Json.str s => "s" ++ encStr s
  | Json.arr xs => "a(" ++ String.intercalate "," (encList xs) ++ ")"
  | Json.obj kvs => "o(" ++ String.intercalate "," (encFields kvs) ++ ")"
def encList : List Json → List String
  | [] => []
  | x :: xs => encJson x :: encList xs
def encFields : List (List Char × Json) → List String
  | [] => []
  | (k, v) :: rest => (encStr k ++ ":" ++ encJson v) :: encFields rest
end

def showOutcome : Outcome Layout → String
  | Outcome.ok L => "ok " ++ showLayout L
  | Outcome.error => "error"
  | Outcome.panic => "panic"

def decName (s : String) : Option (List Char) :=
  if s == "-" then some []
  else match readStr s.toList none [] with
    | some (n, []) => some n
    | _ => none

def handle (toks : List String) : Option String :=
  match toks with
  | ["LOAD", j] => (decJson j).map fun j => showOutcome (load j)
  | ["PARSE", j] => (decJson j).map fun j =>
      match parseLayoutFromJson j with
      | Outcome.ok _ => "ok"
      | Outcome.error => "error"
      | Outcome.panic => "panic"
  | ["SER", l] => (parseLayout l).map fun L =>
      match serialize L with
      | some j => encJson j
      | none => "none"
  | ["KEY", n] => (decName n).map fun name =>
      match parseKeyCode name with
      | some k => toString k
      | none => "none"
  | ["C15", l] => (parseLayout l).map fun L =>
      match serialize L with
      | some j => if load j = Outcome.ok L then "ok" else "viol"
      | none => "viol"
  | ["C13", j] => (decJson j).map fun j => if load j = Expand.loadSpec j then "ok" else "viol"
  | ["C13X", j] => (decJson j).map fun j => showOutcome (Expand.loadSpec j)
  | _ => none

end TmVerif.LoadCmd
