/-
Driver commands for the byte-level suite (S-bytes, property C18).  Bytes travel as lower-case hex
without separators, `-` for the empty string of bytes; events in `Proto`'s format (`P30,R30`, `-`).
  ENC <events>                         -> hex of `encodeBatch events`          (models DevInputWriter::send)
  DEC <hex>                            -> `decodeStream bytes` as events       (models DevInputReader::next until drained)
  KNOWN <code>                         -> "1" | "0"                            (FromPrimitive::from_u16(code).is_some())
  C18 <events> <hex> <junk-prefix-hex> -> "ok" | "viol:<clauses>"   (the executable statement `monC18` of C18
                                          evaluated on the IMPLEMENTATION's bytes `<hex>`; clauses: enc, shape,
                                          byte, len, read)
-/
import TmVerif.Model.InputEvent
import TmVerif.Driver.Proto

namespace TmVerif.BytesCmd
open TmVerif TmVerif.Proto

def hexDigit? (c : Char) : Option Nat :=
  let n := c.toNat
  if 48 ≤ n ∧ n ≤ 57 then some (n - 48)
  else if 97 ≤ n ∧ n ≤ 102 then some (n - 87)
  else none

def parseHexChars : List Char → Option (List Nat)
  | [] => some []
  | [_] => none
  | a :: b :: rest =>
    match hexDigit? a, hexDigit? b, parseHexChars rest with
    | some x, some y, some r => some ((16 * x + y) :: r)
    | _, _, _ => none

def parseHex (s : String) : Option (List Nat) :=
  if s == "-" then some [] else parseHexChars s.toList

def hexChar (d : Nat) : Char := if d < 10 then Char.ofNat (48 + d) else Char.ofNat (87 + d)

/-- a list element that is not a byte is shown as `XX` (never produced by the model; makes any such bug visible) -/
def showHex (l : List Nat) : String :=
  if l.isEmpty then "-"
  else String.ofList (l.flatMap fun b => if b < 256 then [hexChar (b / 16), hexChar (b % 16)] else ['X', 'X'])

def handle (toks : List String) : Option String :=
  match toks with
  | ["ENC", evs] =>
    match parseEvents evs with
    | some evs => some (showHex (encodeBatch evs))
    | none => none
  | ["DEC", hex] =>
    match parseHex hex with
    | some bytes => some (showEvents (decodeStream bytes))
    | none => none
  | ["KNOWN", c] =>
    match c.toNat? with
    | some c => some (if knownCode c then "1" else "0")
    | none => none
  | ["C18", evs, hex, junk] =>
    match parseEvents evs, parseHex hex, parseHex junk with
    | some evs, some bytes, some junk =>
      if monC18 evs bytes junk then some "ok"
      else
        let bad :=
          (if bytes == encodeBatch evs then [] else ["enc"]) ++
          (if shapeOk evs bytes then [] else ["shape"]) ++
          (if bytes.all (· < 256) then [] else ["byte"]) ++
          (if bytes.length == 24 * (evs.length + 1) then [] else ["len"]) ++
          (if decodeStream (junk ++ bytes) == evs then [] else ["read"])
        some ("viol:" ++ String.intercalate "," bad)
    | _, _, _ => none
  | _ => none

end TmVerif.BytesCmd
