/-
Driver commands for the loop suite (S-loop).  The current layout is set with `L`.

Script of answers, tokens joined by `,`; every token carries `@<ns>` = the harness's clock reading
right after it returned that answer (lower end of the gap in which a hidden Instant::now() of the
real loop falls); the model's `now` calls are answered with the annotation of the last consumed answer.
  u            Ok(()) / return of sleep
  pT pI        poll -> TimedOut / Interrupted
  pD:k.t       poll -> DeviceEvent([Keyboard, Tablet])      (pD:- for an empty list)
  kB kE kP30 kR30   next_keyboard -> Busy / End / One(Pressed(30)) / One(Released(30))
  tB tE tOn tOff    next_tablet   -> Busy / End / One(On) / One(Off)
  e:<hex>      Err(message)   (message as hex bytes)
Calls, joined by `;`:
  reg | poll:- | poll:<ns> | nk | nt | send:<events> | sleep:<ms>
(the model's ghost tag of a send is not part of the compared text)

  LOOP <script>                       -> "<calls> | <status>"   status: ok, err:<hex>, running, bad, panic
  LOOPCHK <script> <calls> <status> <tol_ns>  -> "ok" | "diff:<index>:<model>:<impl>"
        compares the implementation's calls with the model's; poll timeouts within the tolerance
  LOOPMON <script> <calls> <status> <tol_ns>  -> "ok" | "viol:<tags>"
        the specification automaton of C10/C11/C12/C20 (LoopMonitors.lean) run over the implementation's transcript
-/
import TmVerif.Driver.Proto
import TmVerif.Model.Loop
import TmVerif.LoopMonitors

namespace TmVerif.LoopCmd
open TmVerif TmVerif.Proto

def hexVal (c : Char) : Option Nat :=
  if '0' ≤ c ∧ c ≤ '9' then some (c.toNat - '0'.toNat)
  else if 'a' ≤ c ∧ c ≤ 'f' then some (c.toNat - 'a'.toNat + 10)
  else none

def hexToString (s : String) : Option String :=
  let rec go : List Char → List Char → Option (List Char)
    | [], acc => some acc.reverse
    | a :: b :: rest, acc =>
      match hexVal a, hexVal b with
      | some x, some y => go rest (Char.ofNat (x * 16 + y) :: acc)
      | _, _ => none
    | _, _ => none
  (go s.toList []).map String.ofList

def hexDigitC (n : Nat) : Char := if n < 10 then Char.ofNat (48 + n) else Char.ofNat (87 + n)

def stringToHex (s : String) : String :=
  String.ofList (s.toList.flatMap fun c => [hexDigitC (c.toNat / 16 % 16), hexDigitC (c.toNat % 16)])

def parseDev (s : String) : Option Dev :=
  if s == "k" then some Dev.keyboard else if s == "t" then some Dev.tablet else none

def parseResp (s : String) : Option (Resp × Nat) :=
  match s.splitOn "@" with
  | [body, ts] =>
    match ts.toNat? with
    | none => none
    | some t =>
      let r : Option Resp :=
        if body == "u" then some Resp.unit
        else if body == "pT" then some (Resp.poll PollRes.timedOut)
        else if body == "pI" then some (Resp.poll PollRes.interrupted)
        else if body.startsWith "pD:" then
          let rest := (body.drop 3).toString
          if rest == "-" then some (Resp.poll (PollRes.deviceEvent []))
          else (sequence ((rest.splitOn ".").map parseDev)).map fun ds => Resp.poll (PollRes.deviceEvent ds)
        else if body == "kB" then some (Resp.kbd Next.busy)
        else if body == "kE" then some (Resp.kbd Next.end_)
        else if body == "tB" then some (Resp.tab Next.busy)
        else if body == "tE" then some (Resp.tab Next.end_)
        else if body == "tOn" then some (Resp.tab (Next.one TabletEv.on))
        else if body == "tOff" then some (Resp.tab (Next.one TabletEv.off))
        else if body.startsWith "k" then (parseEvent (body.drop 1).toString).map fun e => Resp.kbd (Next.one e)
        else if body.startsWith "e:" then (hexToString (body.drop 2).toString).map Resp.err
        else none
      r.map fun r => (r, t)
  | _ => none

def parseScript (s : String) : Option (List (Resp × Nat)) :=
  if s == "-" then some [] else sequence ((s.splitOn ",").map parseResp)

def showCall : Call → String
  | Call.registerPoll => "reg"
  | Call.now => "now"
  | Call.poll none => "poll:-"
  | Call.poll (some t) => s!"poll:{t}"
  | Call.nextKeyboard => "nk"
  | Call.nextTablet => "nt"
  | Call.send _ evs => s!"send:{showEvents evs}"
  | Call.sleep ms => s!"sleep:{ms}"

def showStatus (x : Machine) : String :=
  match x.c with
  | Ctl.done none => "ok"
  | Ctl.done (some msg) => "err:" ++ stringToHex msg
  | Ctl.bad => "bad"
  | _ => "running"

/-- run the machine against an annotated script; `now` calls are answered from the annotations and
are not part of the visible call list -/
def runAnnotated (L : Layout) : Nat → Machine → Nat → List (Resp × Nat) → List Call × Machine
  | 0, x, _, _ => ([], x)
  | fuel + 1, x, lastT, script =>
    match pending x with
    | none => ([], x)
    | some Call.now => runAnnotated L fuel (advance L x (Resp.time lastT)) lastT script
    | some (Call.sleep _) => runAnnotated L fuel (advance L x Resp.unit) lastT script   -- thread::sleep is not a Driver call
    | some c =>
      match script with
      | [] => ([], x)     -- blocked on a visible call with no answer left: "running"
      | (r, t) :: rest =>
        let (cs, x') := runAnnotated L fuel (advance L x r) t rest
        (c :: cs, x')

def runLoop (L : Layout) (script : List (Resp × Nat)) : Option (List Call × Machine) :=
  (Machine.init L).map fun x => runAnnotated L (3 * script.length + 6) x 0 script

def callsText (cs : List Call) : String :=
  if cs.isEmpty then "-" else String.intercalate ";" (cs.map showCall)

def absDiff (a b : Nat) : Nat := if a ≥ b then a - b else b - a

/-- compare one call text of the implementation with the model's call -/
def callMatches (tol : Nat) (m : Call) (impl : String) : Bool :=
  match m with
  | Call.poll (some t) =>
    match impl.splitOn ":" with
    | ["poll", v] =>
      match v.toNat? with
      | some r => absDiff t r ≤ tol || (t == 1000000 && r ≤ tol) || (r == 1000000 && t ≤ tol)
      | none => false
    | _ => false
  | _ => showCall m == impl

def parseVCall (s : String) : Option VCall :=
  if s == "reg" then some VCall.reg
  else if s == "nk" then some VCall.nk
  else if s == "nt" then some VCall.nt
  else if s == "poll:-" then some (VCall.poll none)
  else if s.startsWith "poll:" then ((s.drop 5).toString.toNat?).map fun t => VCall.poll (some t)
  else if s.startsWith "send:" then (parseEvents (s.drop 5).toString).map VCall.send
  else if s.startsWith "sleep:" then ((s.drop 6).toString.toNat?).map VCall.sleep
  else none

def zipEntries : List VCall → List (Resp × Nat) → Option (List Entry)
  | [], [] => some []
  | c :: cs, (r, t) :: rs => (zipEntries cs rs).map fun es => ⟨c, r, t⟩ :: es
  | _, _ => none

def normStatus (status : String) : Option String :=
  if status.startsWith "err:" then (hexToString (status.drop 4).toString).map fun m => "err:" ++ m
  else some status

def handle (L : Layout) (toks : List String) : Option String :=
  match toks with
  | ["LOOPMON", script, calls, status, tol] =>
    match parseScript script, tol.toNat?, normStatus status with
    | some sc, some tol, some st =>
      let cs := if calls == "-" then some [] else sequence ((calls.splitOn ";").map parseVCall)
      match cs with
      | none => none
      | some cs =>
        match zipEntries cs sc with
        | none => some "viol:transcript-length-mismatch"
        | some tr =>
          let v := specVerdict L tol tr st
          some (if v.isEmpty then "ok" else "viol:" ++ String.intercalate "," v)
    | _, _, _ => none
  | ["LOOP", script] =>
    match parseScript script with
    | none => none
    | some sc =>
      match runLoop L sc with
      | none => some "- | panic"
      | some (cs, x) => some s!"{callsText cs} | {showStatus x}"
  | ["LOOPCHK", script, calls, status, tol] =>
    match parseScript script, tol.toNat? with
    | some sc, some tol =>
      match runLoop L sc with
      | none => some (if status == "panic" then "ok" else "diff:0:panic:" ++ status)
      | some (cs, x) =>
        let impl := if calls == "-" then [] else calls.splitOn ";"
        let rec cmp : List Call → List String → Nat → Option String
          | [], [], _ => none
          | c :: cs, i :: is, n => if callMatches tol c i then cmp cs is (n + 1) else some s!"diff:{n}:{showCall c}:{i}"
          | c :: _, [], n => some s!"diff:{n}:{showCall c}:<none>"
          | [], i :: _, n => some s!"diff:{n}:<none>:{i}"
        match cmp cs impl 0 with
        | some d => some d
        | none => some (if showStatus x == status then "ok" else s!"diff:status:{showStatus x}:{status}")
    | _, _ => none
  | _ => none

end TmVerif.LoopCmd
