/-
Line-protocol helpers shared by all suites of the native driver.  Import-free.
Everything is parsed into `Option`; a request that does not parse is answered `bad-request`
(never defaulted).
-/
import TmVerif.Model.Mapper

namespace TmVerif.Proto
open TmVerif

def sequence {α : Type} : List (Option α) → Option (List α)
  | [] => some []
  | x :: xs => match x, sequence xs with
    | some a, some as => some (a :: as)
    | _, _ => none

/-- comma separated list, `-` for the empty list -/
def parseList {α : Type} (f : String → Option α) (s : String) : Option (List α) :=
  if s == "-" then some [] else sequence ((s.splitOn ",").map f)

def showList {α : Type} (f : α → String) (l : List α) : String :=
  if l.isEmpty then "-" else String.intercalate "," (l.map f)

def parseKeys (s : String) : Option (List Key) := parseList String.toNat? s
def showKeys (l : List Key) : String := showList toString l

def parseOptKey (s : String) : Option (Option Key) :=
  if s == "-" then some none else (s.toNat?).map some
def showOptKey : Option Key → String
  | none => "-"
  | some k => toString k

def parseEvent (s : String) : Option Event :=
  if s.startsWith "P" then (s.drop 1).toString.toNat?.map Event.pressed
  else if s.startsWith "R" then (s.drop 1).toString.toNat?.map Event.released
  else none

def showEvent : Event → String
  | Event.pressed k => "P" ++ toString k
  | Event.released k => "R" ++ toString k

def parseEvents (s : String) : Option (List Event) := parseList parseEvent s
def showEvents (l : List Event) : String := showList showEvent l

def parseRepeat (s : String) : Option Repeat :=
  match s.splitOn "/" with
  | ["N"] => some Repeat.normal
  | ["D"] => some Repeat.disabled
  | ["S", ks, d, i] =>
    match parseKeys ks, d.toInt?, i.toInt? with
    | some ks, some d, some i => some (Repeat.special ks d i)
    | _, _, _ => none
  | _ => none

def showRepeat : Repeat → String
  | Repeat.normal => "N"
  | Repeat.disabled => "D"
  | Repeat.special ks d i => s!"S/{showKeys ks}/{d}/{i}"

def parseRRepeat (s : String) : Option RRepeat :=
  match s.splitOn "/" with
  | ["D"] => some RRepeat.disabled
  | ["NC"] => some RRepeat.noChange
  | ["S", ks, d, i] =>
    match parseKeys ks, d.toInt?, i.toInt? with
    | some ks, some d, some i => some (RRepeat.repeating ks d i)
    | _, _, _ => none
  | _ => none

def showRRepeat : RRepeat → String
  | RRepeat.disabled => "D"
  | RRepeat.noChange => "NC"
  | RRepeat.repeating ks d i => s!"S/{showKeys ks}/{d}/{i}"

def parseMapping (s : String) : Option Mapping :=
  match s.splitOn "|" with
  | [f, t, r, a] =>
    match parseKeys f, parseKeys t, parseRepeat r, parseKeys a with
    | some f, some t, some r, some a => some ⟨f, t, r, a⟩
    | _, _, _, _ => none
  | _ => none

def showMapping (m : Mapping) : String :=
  s!"{showKeys m.frm}|{showKeys m.to}|{showRepeat m.rep}|{showKeys m.absorbing}"

/-- mappings joined by `;`, `-` for the empty layout -/
def parseLayout (s : String) : Option Layout :=
  if s == "-" then some [] else sequence ((s.splitOn ";").map parseMapping)

def showLayout (L : Layout) : String :=
  if L.isEmpty then "-" else String.intercalate ";" (L.map showMapping)

def indexOf? (L : Layout) (m : Mapping) : Option Nat :=
  let rec go : List Mapping → Nat → Option Nat
    | [], _ => none
    | x :: xs, i => if x == m then some i else go xs (i + 1)
  go L 0

/-- Active mappings are transmitted as the index of the first equal mapping of the layout. -/
def parseState (L : Layout) (s : String) : Option State :=
  match s.splitOn "|" with
  | [inp, act, pass, mapped, absd, at_, rt] =>
    match parseKeys inp, parseList String.toNat? act, parseKeys pass, parseKeys mapped,
          parseKeys absd, parseOptKey at_, parseOptKey rt with
    | some inp, some act, some pass, some mapped, some absd, some at_, some rt =>
      match sequence (act.map fun i => L[i]?) with
      | some act => some ⟨inp, act, pass, mapped, absd, at_, rt⟩
      | none => none
    | _, _, _, _, _, _, _ => none
  | _ => none

def showState (L : Layout) (s : State) : String :=
  let act := showList (fun m => match indexOf? L m with | some i => toString i | none => "?") s.active
  s!"{showKeys s.inp}|{act}|{showKeys s.pass}|{showKeys s.mapped}|{showKeys s.absorbed}|{showOptKey s.absTrig}|{showOptKey s.repTrig}"

end TmVerif.Proto
